import Clover.Proofs.RepColl
/-! # The document and index keys of one collection: how they change when one document or one
    index changes (pure logic; the store computations are in `Eval.lean`) -/
namespace CV
open OC Keys

/-- the data keys (documents, index entries) of collection `c` -/
def OwnsD (c k : Bytes) : Prop := (∃ id, k = docKey c id) ∨ (∃ f rest, k = Keys.idxKey c f rest)

/-- `σ` holds, among the data keys of `c`, exactly those of the documents `docs` under the indexes `idxs` -/
def DataRep (c : Bytes) (idxs : List Bytes) (docs : List (Bytes × Doc)) (σ : KVS) : Prop :=
  ∀ k v, OwnsD c k → (kvGet σ k = some v ↔ HoldsD c ⟨idxs, docs⟩ k v)

/-- the keys of one document -/
def DocKeys (c : Bytes) (idxs : List Bytes) (id : Bytes) (d : Doc) (k : Bytes) (v : SVal) : Prop :=
  (k = docKey c id ∧ v = .doc d) ∨ (∃ f ∈ idxs, k = CV.idxKey c f (d.get f) id ∧ v = .unit)

theorem holdsD_iff (c : Bytes) (idxs : List Bytes) (docs : List (Bytes × Doc)) (k : Bytes) (v : SVal) :
    HoldsD c ⟨idxs, docs⟩ k v ↔ ∃ id d, Spec.lookup id docs = some d ∧ DocKeys c idxs id d k v := by
  constructor
  · intro h
    cases h with
    | doc id d hl => exact ⟨id, d, hl, Or.inl ⟨rfl, rfl⟩⟩
    | idx f id d hf hl => exact ⟨id, d, hl, Or.inr ⟨f, hf, rfl, rfl⟩⟩
  · rintro ⟨id, d, hl, (⟨e1, e2⟩ | ⟨f, hf, e1, e2⟩)⟩
    · rw [e1, e2]; exact .doc id d hl
    · rw [e1, e2]; exact .idx f id d hf hl

/-- the key `k` of collection `c` belongs to the document `id` -/
def KeyId (c k id : Bytes) : Prop := k = docKey c id ∨ ∃ f rest, k = Keys.idxKey c f (rest ++ id)

theorem docKeys_keyId (c : Bytes) (idxs : List Bytes) (id : Bytes) (d : Doc) (k : Bytes) (v : SVal)
    (h : DocKeys c idxs id d k v) : KeyId c k id := by
  rcases h with ⟨e, _⟩ | ⟨f, _, e, _⟩
  · exact Or.inl e
  · exact Or.inr ⟨f, goKeyTail (d.get f), e⟩

theorem idxPrefix_split (c f f' r r' : Bytes) (hf : Clean f) (hf' : Clean f')
    (h : Keys.idxKey c f r = Keys.idxKey c f' r') : f = f' ∧ r = r' := by
  unfold Keys.idxKey idxPrefix at h
  simp only [List.append_assoc] at h
  have h2 := List.append_cancel_left (List.append_cancel_left h)
  simp only [List.cons_append] at h2
  have h3 := (List.cons.inj h2).2
  simp only [List.append_assoc] at h3
  have h4 := List.append_cancel_left h3
  simpa using clean_split f f' _ _ hf hf' (by simpa using h4)

theorem append_id_inj (a b id id' : Bytes) (hl : id.length = id'.length) (h : a ++ id = b ++ id') : a = b ∧ id = id' :=
  List.append_inj' h hl

/-- a key belongs to at most one document -/
theorem keyId_unique (c k id id' : Bytes) (hc : Clean c) (hl : id.length = 36) (hl' : id'.length = 36)
    (h : KeyId c k id) (h' : KeyId c k id') : id = id' := by
  rcases h with e | ⟨f, r, e⟩ <;> rcases h' with e' | ⟨f', r', e'⟩
  · exact (docKey_inj c c id id' hc hc (e.symm.trans e')).2
  · exact absurd (e.symm.trans e') (docKey_ne_kIdxKey c c f' id _ hc hc)
  · exact absurd (e'.symm.trans e) (docKey_ne_kIdxKey c c f id' _ hc hc)
  · have h1 : Keys.idxKey c f (r ++ id) = Keys.idxKey c f' (r' ++ id') := e.symm.trans e'
    unfold Keys.idxKey at h1
    rw [← List.append_assoc, ← List.append_assoc] at h1
    exact (append_id_inj _ _ id id' (hl.trans hl'.symm) h1).2

/-- **One document changes** (is added, replaced or removed): the keys belonging to other documents
    are untouched, those belonging to `id` are exactly the keys of the new version. -/
theorem dataRep_update (c : Bytes) (hc : Clean c) (idxs : List Bytes) (docs : List (Bytes × Doc)) (σ σ' : KVS)
    (hd : DataRep c idxs docs σ) (hsorted : Spec.KeysSorted docs)
    (hids : ∀ e ∈ docs, e.1.length = 36) (id : Bytes) (hid : id.length = 36) (nd : Option Doc)
    (h1 : ∀ k, ¬ KeyId c k id → kvGet σ' k = kvGet σ k)
    (h2 : ∀ k v, KeyId c k id → (kvGet σ' k = some v ↔
      match nd with | some d' => DocKeys c idxs id d' k v | none => False)) :
    DataRep c idxs (match nd with | some d' => Spec.insert id d' docs | none => Spec.erase id docs) σ' := by
  intro k v ho
  rw [holdsD_iff]
  have hlen : ∀ id' d, Spec.lookup id' docs = some d → id'.length = 36 :=
    fun id' d hl => hids (id', d) (lookup_some_mem id' d docs hl)
  by_cases hk : KeyId c k id
  · rw [h2 k v hk]
    cases nd with
    | none =>
      simp only
      constructor
      · exact False.elim
      · rintro ⟨id', d, hl, hdk⟩
        rw [Spec.lookup_erase' _ _ _ hsorted] at hl
        by_cases e : id' = id
        · simp [e] at hl
        · simp only [e, if_false] at hl
          exact e (keyId_unique c k id' id hc (hlen id' d hl) hid (docKeys_keyId _ _ _ _ _ _ hdk) hk)
    | some d' =>
      simp only
      constructor
      · intro h; exact ⟨id, d', by rw [Spec.lookup_insert']; simp, h⟩
      · rintro ⟨id', d, hl, hdk⟩
        rw [Spec.lookup_insert'] at hl
        by_cases e : id' = id
        · subst e; simp only [if_true, Option.some.injEq] at hl; subst hl; exact hdk
        · simp only [e, if_false] at hl
          exact absurd (keyId_unique c k id' id hc (hlen id' d hl) hid (docKeys_keyId _ _ _ _ _ _ hdk) hk) e
  · rw [h1 k hk, hd k v ho, holdsD_iff]
    have hother : ∀ (docs' : List (Bytes × Doc)), (∀ id', id' ≠ id → Spec.lookup id' docs' = Spec.lookup id' docs) →
        ((∃ id' d, Spec.lookup id' docs = some d ∧ DocKeys c idxs id' d k v) ↔
         (∃ id' d, Spec.lookup id' docs' = some d ∧ DocKeys c idxs id' d k v)) := by
      intro docs' hsame
      constructor
      · rintro ⟨id', d, hl, hdk⟩
        have hne : id' ≠ id := fun e => hk (e ▸ docKeys_keyId _ _ _ _ _ _ hdk)
        exact ⟨id', d, by rw [hsame id' hne]; exact hl, hdk⟩
      · rintro ⟨id', d, hl, hdk⟩
        have hne : id' ≠ id := fun e => hk (e ▸ docKeys_keyId _ _ _ _ _ _ hdk)
        exact ⟨id', d, by rw [← hsame id' hne]; exact hl, hdk⟩
    cases nd with
    | none => exact hother _ (fun id' hne => by rw [Spec.lookup_erase' _ _ _ hsorted]; simp [hne])
    | some d' => exact hother _ (fun id' hne => by rw [Spec.lookup_insert']; simp [hne])

/-- what the keys belonging to `id` are bound to before the change -/
theorem dataRep_keys_of (c : Bytes) (hc : Clean c) (idxs : List Bytes) (docs : List (Bytes × Doc)) (σ : KVS)
    (hd : DataRep c idxs docs σ) (hids : ∀ e ∈ docs, e.1.length = 36) (id : Bytes) (hid : id.length = 36)
    (k : Bytes) (v : SVal) (hk : KeyId c k id) :
    kvGet σ k = some v ↔ ∃ d, Spec.lookup id docs = some d ∧ DocKeys c idxs id d k v := by
  have ho : OwnsD c k := by
    rcases hk with e | ⟨f, r, e⟩
    · exact Or.inl ⟨id, e⟩
    · exact Or.inr ⟨f, _, e⟩
  rw [hd k v ho, holdsD_iff]
  constructor
  · rintro ⟨id', d, hl, hdk⟩
    have : id' = id := keyId_unique c k id' id hc (hids (id', d) (lookup_some_mem id' d docs hl)) hid
      (docKeys_keyId _ _ _ _ _ _ hdk) hk
    subst this; exact ⟨d, hl, hdk⟩
  · rintro ⟨d, hl, hdk⟩; exact ⟨id, d, hl, hdk⟩

/-! ## one index changes -/

/-- the key is an entry of the index on `f` -/
def KeyField (c k f : Bytes) : Prop := ∃ rest, k = Keys.idxKey c f rest

theorem holdsD_field (c : Bytes) (hc : Clean c) (idxs : List Bytes) (hcl : ∀ g ∈ idxs, Clean g) (docs : List (Bytes × Doc))
    (f : Bytes) (hf : Clean f) (k : Bytes) (v : SVal) (hk : KeyField c k f) :
    HoldsD c ⟨idxs, docs⟩ k v ↔ f ∈ idxs ∧ ∃ id d, Spec.lookup id docs = some d ∧ k = CV.idxKey c f (d.get f) id ∧ v = .unit := by
  obtain ⟨rest, hk⟩ := hk
  constructor
  · intro h
    cases h with
    | doc id d hl => exact absurd hk (docKey_ne_kIdxKey c c f id rest hc hc)
    | idx g id d hg hl =>
      have : g = f := (idxPrefix_split c g f _ _ (hcl g hg) hf hk).1
      subst this
      exact ⟨hg, id, d, hl, rfl, rfl⟩
  · rintro ⟨hmem, id, d, hl, e1, e2⟩
    rw [e1, e2]; exact .idx f id d hmem hl

theorem holdsD_not_field (c : Bytes) (idxs idxs' : List Bytes) (docs : List (Bytes × Doc)) (f : Bytes)
    (hsame : ∀ g, g ≠ f → (g ∈ idxs' ↔ g ∈ idxs)) (k : Bytes) (v : SVal) (hk : ¬ KeyField c k f) :
    HoldsD c ⟨idxs', docs⟩ k v ↔ HoldsD c ⟨idxs, docs⟩ k v := by
  have key : ∀ (a b : List Bytes), (∀ g, g ≠ f → (g ∈ a → g ∈ b)) → HoldsD c ⟨a, docs⟩ k v → HoldsD c ⟨b, docs⟩ k v := by
    intro a b hab h
    generalize hkk : k = k' at h
    cases h with
    | doc id d hl => exact .doc id d hl
    | idx g id d hg hl =>
      have hne : g ≠ f := by
        intro e; subst e
        exact hk ⟨_, hkk⟩
      exact .idx g id d (hab g hne hg) hl
  exact ⟨key _ _ (fun g hg => (hsame g hg).1), key _ _ (fun g hg => (hsame g hg).2)⟩

/-- **One index is added or dropped**: entries of other indexes and documents are untouched. -/
theorem dataRep_index (c : Bytes) (hc : Clean c) (idxs idxs' : List Bytes) (hcl : ∀ g ∈ idxs', Clean g)
    (docs : List (Bytes × Doc)) (σ σ' : KVS) (hd : DataRep c idxs docs σ) (f : Bytes) (hf : Clean f)
    (hsame : ∀ g, g ≠ f → (g ∈ idxs' ↔ g ∈ idxs))
    (h1 : ∀ k, ¬ KeyField c k f → kvGet σ' k = kvGet σ k)
    (h2 : ∀ k v, KeyField c k f → (kvGet σ' k = some v ↔
      f ∈ idxs' ∧ ∃ id d, Spec.lookup id docs = some d ∧ k = CV.idxKey c f (d.get f) id ∧ v = .unit)) :
    DataRep c idxs' docs σ' := by
  intro k v ho
  by_cases hk : KeyField c k f
  · rw [h2 k v hk, holdsD_field c hc idxs' hcl docs f hf k v hk]
  · rw [h1 k hk, hd k v ho, holdsD_not_field c idxs idxs' docs f hsame k v hk]

/-- putting the metadata record and the data keys together -/
theorem owned_of_parts (c : Bytes) (idxs : List Bytes) (docs : List (Bytes × Doc)) (σ : KVS)
    (hm : kvGet σ (metaKey c) = some (.cmeta ⟨docs.length, idxs⟩)) (hd : DataRep c idxs docs σ) :
    ∀ k v, Owns c k → (kvGet σ k = some v ↔ HoldsC c ⟨idxs, docs⟩ k v) := by
  intro k v ho
  rcases ho with e | ho
  · subst e
    rw [hm]
    constructor
    · intro h; simp only [Option.some.injEq] at h; rw [← h]; exact .cmeta
    · intro h
      generalize hk : metaKey c = k at h
      cases h with
      | cmeta => rfl
      | data k v hdd =>
        rcases holdsD_key c _ _ _ hdd with ⟨id, e⟩ | ⟨f, rest, e⟩
        · exact absurd (hk.trans e) (metaKey_ne_docKey c c id)
        · exact absurd (hk.trans e) (metaKey_ne_kIdxKey c c f rest)
  · rw [hd k v ho]
    constructor
    · exact fun h => .data k v h
    · intro h
      cases h with
      | cmeta =>
        rcases ho with ⟨id, e⟩ | ⟨f, rest, e⟩
        · exact absurd e (metaKey_ne_docKey c c id)
        · exact absurd e (metaKey_ne_kIdxKey c c f rest)
      | data k v hdd => exact hdd

/-- and taking them apart -/
theorem parts_of_owned (c : Bytes) (coll : Spec.Coll) (σ : KVS)
    (h : ∀ k v, Owns c k → (kvGet σ k = some v ↔ HoldsC c coll k v)) :
    kvGet σ (metaKey c) = some (.cmeta ⟨coll.docs.length, coll.indexes⟩) ∧ DataRep c coll.indexes coll.docs σ := by
  refine ⟨(h _ _ (Or.inl rfl)).2 .cmeta, ?_⟩
  intro k v ho
  rw [h k v (Or.inr ho)]
  constructor
  · intro hh
    cases hh with
    | cmeta =>
      rcases ho with ⟨id, e⟩ | ⟨f, rest, e⟩
      · exact absurd e (metaKey_ne_docKey c c id)
      · exact absurd e (metaKey_ne_kIdxKey c c f rest)
    | data k v hdd => exact hdd
  · exact fun hh => .data k v hh

end CV
