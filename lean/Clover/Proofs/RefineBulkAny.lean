import Clover.Proofs.RefineBulk
import Clover.Proofs.IterSound
/-! # Bulk writes preserve the invariant, whatever plan is chosen

With an index plan the selection of `Update` / `UpdateFunc` / `Delete` may come in another order
than the specification's `findAll`, so equality of the answers is not claimed here; what is proved
is that the selection is a list of live documents with distinct ids, that the apply phase follows
`Spec.applyAll` on it, and hence that the representation invariant is preserved and no other
collection is touched. -/
namespace CV
open OC Keys StoreM

variable (likeFn : LikeFn) (fnFam : FnFam)

/-- the selection `iterateDocs` hands to a bulk write -/
def selectionOf (w : KVS) (q : Query) (coll : Spec.Coll) : List Doc :=
  finishPipe q none (needSort q (choosePlan coll.indexes q).2)
    (foldStop (onDocOf likeFn fnFam q none (needSort q (choosePlan coll.indexes q).2)) {}
      (candidates w q.coll (coll.docs.map (·.2)) (choosePlan coll.indexes q).1))

theorem selectionOf_live (s : Spec.State) (w : KVS) (hw : WF s) (hr : Rep s w) (q : Query)
    (coll : Spec.Coll) (hl : Spec.lookup q.coll s = some coll) :
    Live coll.docs (selectionOf likeFn fnFam w q coll) := by
  have hcand := candidates_live s w hw hr q.coll coll hl (choosePlan coll.indexes q).1
    (choosePlan_fieldIn coll.indexes q)
  exact selection_live likeFn fnFam q (needSort q (choosePlan coll.indexes q).2) coll _ hcand.1 hcand.2

/-- **`replaceDocs`, any plan**: the selection is a list of live documents with distinct ids, the
    apply phase follows `Spec.applyAll` on it, the size counter is brought up to date. -/
theorem replaceDocs_run_any (s : Spec.State) (ctx : Ctx) (hw : WF s) (hr : Rep s ctx.work) (q : Query) (u : Upd)
    (coll : Spec.Coll) (hl : Spec.lookup q.coll s = some coll) :
    ∃ sel, Live coll.docs sel ∧
      match Spec.applyAll u coll.docs sel with
      | .ok docs' => ∃ c', (replaceDocs likeFn fnFam q u) noFault ctx = (.ok sel, c') ∧
          c'.fired = ctx.fired ∧ c'.skipCommit = ctx.skipCommit ∧ KSorted c'.work ∧
          (∀ k, ¬ Owns q.coll k → kvGet c'.work k = kvGet ctx.work k) ∧
          (∀ k v, Owns q.coll k → (kvGet c'.work k = some v ↔ HoldsC q.coll ⟨coll.indexes, docs'⟩ k v)) ∧
          Spec.KeysSorted docs' ∧ IdsWF docs'
      | .err e => ∃ c', (replaceDocs likeFn fnFam q u) noFault ctx = (.err e, c') := by
  obtain ⟨hc, hcw⟩ := wf_lookup_clean s hw q.coll coll hl
  have hm : kvGet ctx.work (metaKey q.coll) = some (.cmeta ⟨coll.docs.length, coll.indexes⟩) := by
    rw [rep_meta s ctx.work hr q.coll, hl]; rfl
  obtain ⟨c1, h1, s1⟩ := getMeta_run q.coll _ ctx hm
  have hw1 : c1.work = ctx.work := s1.1
  have hr1 : Rep s c1.work := by rw [hw1]; exact hr
  obtain ⟨c2, h2, s2⟩ := iterateDocs_run likeFn fnFam s c1 hw hr1 q none coll hl
  rw [hw1] at h2
  have hlive : Live coll.docs (selectionOf likeFn fnFam ctx.work q coll) :=
    selectionOf_live likeFn fnFam s ctx.work hw hr q coll hl
  refine ⟨selectionOf likeFn fnFam ctx.work q coll, hlive, ?_⟩
  have h2' : (iterateDocs likeFn fnFam q none) noFault c1 = (.ok (selectionOf likeFn fnFam ctx.work q coll), c2) := h2
  generalize selectionOf likeFn fnFam ctx.work q coll = sel at hlive h2' ⊢
  have hw2 : c2.work = ctx.work := s2.1.trans s1.1
  have hr2 : Rep s c2.work := by rw [hw2]; exact hr
  have hdata := rep_data s c2.work hw hr2 q.coll coll hl
  have hloop := applyLoop_run q.coll hc coll.indexes u sel coll.docs 0 c2 hr2.1 hdata
    hcw.docsSorted hcw.idsWF hlive
  have hpre : ∀ (r : Res (List Doc) × Ctx),
      (do let deleted ← applyLoop q.coll coll.indexes u 0 sel
          if deleted > 0 then saveMeta q.coll { size := (coll.docs.length : Int) - ↑deleted, indexes := coll.indexes }
          pure sel : StoreM (List Doc)) noFault c2 = r →
      (replaceDocs likeFn fnFam q u) noFault ctx = r := by
    intro r h
    unfold replaceDocs
    rw [bind_run _ _ _ c1 _ h1, bind_run _ _ _ c2 _ h2']
    exact h
  cases ha : Spec.applyAll u coll.docs sel with
  | err e =>
    rw [ha] at hloop
    obtain ⟨c3, h3⟩ := hloop
    exact ⟨c3, hpre _ (bind_run_err' _ _ _ _ _ h3)⟩
  | ok docs' =>
    rw [ha] at hloop
    obtain ⟨c3, h3, p1, p2, p3, p4, p5, p6, p7, p8⟩ := hloop
    dsimp only
    have hnometa : ∀ k, ¬ Owns q.coll k → ¬ OwnsD q.coll k := fun k hno ho => hno (ownsD_owns _ _ ho)
    by_cases hk : 0 + delCount u sel > 0
    · obtain ⟨c4, h4, e4⟩ := set_run' (metaKey q.coll)
        (.cmeta { size := (coll.docs.length : Int) - ↑(0 + delCount u sel), indexes := coll.indexes }) c3
      have hget : ∀ k, kvGet c4.work k = if k = metaKey q.coll then
          some (.cmeta { size := (coll.docs.length : Int) - ↑(0 + delCount u sel), indexes := coll.indexes })
          else kvGet c3.work k := by
        intro k; rw [e4.1, kvGet_kvSet _ _ _ _ p3]
      refine ⟨c4, hpre _ ?_, ?_, ?_, ?_, ?_, ?_, p7, p8⟩
      · rw [bind_run _ _ _ c3 _ h3, if_pos hk]
        simp only [saveMeta]
        rw [bind_run _ _ _ c4 _ h4]
        rfl
      · rw [e4.2.1, p1, s2.2.1, s1.2.1]
      · rw [e4.2.2, p2, s2.2.2, s1.2.2]
      · rw [e4.1]; exact ksorted_kvSet _ p3 _ _
      · intro k hno
        rw [hget k, if_neg (fun e => hno (Or.inl e)), p5 k (hnometa k hno), hw2]
      · apply owned_of_parts
        · rw [hget, if_pos rfl]
          have hsz : (coll.docs.length : Int) - ↑(0 + delCount u sel) = (docs'.length : Int) := by
            omega
          rw [hsz]
        · exact dataRep_frame q.coll coll.indexes docs' c3.work c4.work
            (fun k ho => by
              have hne : k ≠ metaKey q.coll := fun e => metaKey_not_ownsD q.coll (e ▸ ho)
              rw [hget k, if_neg hne]) p4
    · refine ⟨c3, hpre _ ?_, ?_, ?_, p3, ?_, ?_, p7, p8⟩
      · rw [bind_run _ _ _ c3 _ h3, if_neg hk]
        rfl
      · rw [p1, s2.2.1, s1.2.1]
      · rw [p2, s2.2.2, s1.2.2]
      · intro k hno
        rw [p5 k (hnometa k hno), hw2]
      · apply owned_of_parts
        · rw [p5 _ (metaKey_not_ownsD q.coll), hw2, hm]
          have : docs'.length = coll.docs.length := by omega
          rw [this]
        · exact p4

/-! ## `Update` / `UpdateFunc` / `Delete`, any plan -/

/-- **Update (and UpdateFunc) preserve the invariant, whatever plan is chosen**, and touch no other
    collection: every criteria, sort, skip and limit, every updater, any index set. -/
theorem update_inv (s : Spec.State) (σ : KVS) (hw : WF s) (hr : Rep s σ) (q : Query) (u : Upd) :
    let r := withTx true (Op.body likeFn fnFam (.update q u)) noFault σ
    ∃ s', Rep s' r.2.1 ∧ WF s' ∧ ∀ c', c' ≠ q.coll → Spec.lookup c' s' = Spec.lookup c' s := by
  simp only
  cases hl : Spec.lookup q.coll s with
  | none =>
    have hm : kvGet (ctx0 true σ).work (metaKey q.coll) = none := by
      have := rep_meta s σ hr q.coll
      rw [hl] at this
      exact this
    obtain ⟨c', h⟩ := replaceDocs_missing likeFn fnFam (ctx0 true σ) q u hm
    have hb : (Op.body likeFn fnFam (.update q u)) noFault (ctx0 true σ) = (.err .collNotExist, c') := by
      simp only [Op.body]
      exact bind_run_err' _ _ _ _ _ h
    have ht := withTx_err _ σ _ _ hb
    exact ⟨s, by rw [ht.2]; exact hr, hw, fun _ _ => rfl⟩
  | some coll =>
    obtain ⟨hc, hcw⟩ := wf_lookup_clean s hw q.coll coll hl
    obtain ⟨sel, _, hrun⟩ := replaceDocs_run_any likeFn fnFam s (ctx0 true σ) hw hr q u coll hl
    cases ha : Spec.applyAll u coll.docs sel with
    | err e =>
      rw [ha] at hrun
      obtain ⟨c', h⟩ := hrun
      have hb : (Op.body likeFn fnFam (.update q u)) noFault (ctx0 true σ) = (.err e, c') := by
        simp only [Op.body]
        exact bind_run_err' _ _ _ _ _ h
      have ht := withTx_err _ σ _ _ hb
      exact ⟨s, by rw [ht.2]; exact hr, hw, fun _ _ => rfl⟩
    | ok docs' =>
      rw [ha] at hrun
      obtain ⟨c', h, _, p2, p3, p4, p5, p7, p8⟩ := hrun
      have hb : (Op.body likeFn fnFam (.update q u)) noFault (ctx0 true σ) = (.ok (.docs sel), c') := by
        simp only [Op.body]
        rw [bind_run _ _ _ c' _ h]
        rfl
      have hsk : c'.skipCommit = false := by rw [p2]; rfl
      have ht := withTx_ok _ σ _ _ hb hsk
      have hcw' : CollWF { coll with docs := docs' } :=
        ⟨Spec.keysSorted_nodup _ p7, p7, p8, hcw.fieldsClean, hcw.fieldsDistinct⟩
      have hrep := rep_insert_coll s σ c'.work hw hr q.coll hc _ hcw' p3 p4 p5
      refine ⟨Spec.insert q.coll { coll with docs := docs' } s, by rw [ht.2]; exact hrep.1, hrep.2, ?_⟩
      intro c2 hne
      rw [Spec.lookup_insert', if_neg hne]

/-- **Delete preserves the invariant, whatever plan is chosen**, and touches no other collection. -/
theorem delete_inv (s : Spec.State) (σ : KVS) (hw : WF s) (hr : Rep s σ) (q : Query) :
    let r := withTx true (Op.body likeFn fnFam (.delete q)) noFault σ
    ∃ s', Rep s' r.2.1 ∧ WF s' ∧ ∀ c', c' ≠ q.coll → Spec.lookup c' s' = Spec.lookup c' s := by
  rw [body_delete]
  exact update_inv likeFn fnFam s σ hw hr q .retNil

end CV
