import Clover.Proofs.SortClasses
/-! # The derived reads (`Exists`, `ForEach`, `Count`, `FindFirst`) through ANY plan

1. the fault-free run of every derived read, whatever the index set and whichever plan the planner
   picks, in terms of one list: `planAnswer` (the skip/limit window of the filtered, possibly sorted
   candidates of the plan);
2. `Exists` equals the specification's EXACTLY (lengths are plan independent on the key domain; no
   sort hypothesis);
3. `Count` equals the specification's exactly, with or without criteria;
4. `ForEach` (consumer accepting everything, or stopping on its `n`-th document) visits a list
   position by position tie-equivalent to the specification's;
5. on the model alone (no domain hypothesis): `Count`, `Exists`, `FindFirst`, `ForEach` agree with
   `FindAll` under any plan. -/
namespace CV
open OC Keys StoreM

variable (likeFn : LikeFn) (fnFam : FnFam)

/-! ## 1. the runs -/

/-- what the chosen plan hands to a consumer that accepts everything: the skip/limit window of the
    filtered (and, when the sort node is present, sorted) candidates of the plan — the list of
    `findAll_run_any_plan` / `plan_answer_classwise` -/
def planAnswer (σ : KVS) (q : Query) (coll : Spec.Coll) : List Doc :=
  Spec.window q.skip q.limit
    (let cands := candidates σ q.coll (coll.docs.map (·.2)) (choosePlan coll.indexes q).1
     if needSort q (choosePlan coll.indexes q).2
     then sortDocs q.sort (cands.filter (fun d => satOpt likeFn fnFam d q.crit))
     else cands.filter (fun d => satOpt likeFn fnFam d q.crit))

/-- what a `ForEach` consumer sees of a list: all of it, or — answering `false` on its `n`-th
    document — the first `max n 1` documents (the shape `Spec.step` uses) -/
def seenBy (k : Option Nat) (l : List Doc) : List Doc :=
  match k with
  | some n => l.take (max n 1)
  | none => l

/-- a fault-free `iterateDocs`, any plan, any consumer (`none`: accepts everything, `some n`: stops
    on its `n`-th document) -/
theorem iterateDocs_planAnswer (s : Spec.State) (ctx : Ctx) (hw : WF s) (hr : Rep s ctx.work) (q : Query)
    (k : Option Nat) (coll : Spec.Coll) (hl : Spec.lookup q.coll s = some coll) :
    ∃ c', (iterateDocs likeFn fnFam q k) noFault ctx =
      (.ok (seenBy k (planAnswer likeFn fnFam ctx.work q coll)), c') ∧ SameWork ctx c' := by
  obtain ⟨c2, h2, s2⟩ := iterateDocs_run likeFn fnFam s ctx hw hr q k coll hl
  refine ⟨c2, ?_, s2⟩
  rw [h2]
  cases k with
  | none => rw [pipeline_none]; rfl
  | some n => rw [pipeline_some]; rfl

theorem findAll_run_planAnswer (s : Spec.State) (σ : KVS) (hw : WF s) (hr : Rep s σ) (q : Query)
    (coll : Spec.Coll) (hl : Spec.lookup q.coll s = some coll) :
    (withTx false (Op.body likeFn fnFam (.findAll q)) noFault σ).1 =
      .ok (.docs (planAnswer likeFn fnFam σ q coll)) :=
  findAll_run_any_plan likeFn fnFam s σ hw hr q coll hl

/-- **`ForEach` under any plan, any consumer**: the run -/
theorem forEach_run_any_plan (s : Spec.State) (σ : KVS) (hw : WF s) (hr : Rep s σ) (q : Query)
    (k : Option Nat) (coll : Spec.Coll) (hl : Spec.lookup q.coll s = some coll) :
    (withTx false (Op.body likeFn fnFam (.forEach q k)) noFault σ).1 =
      .ok (.docs (seenBy k (planAnswer likeFn fnFam σ q coll))) := by
  rw [withTx_read_noFault]
  obtain ⟨c2, h2, _⟩ := iterateDocs_planAnswer likeFn fnFam s (ctx0 false σ) hw hr q k coll hl
  simp only [Op.body]
  rw [bind_run _ _ _ c2 _ h2]
  rfl

theorem findFirst_run_any_plan (s : Spec.State) (σ : KVS) (hw : WF s) (hr : Rep s σ) (q : Query)
    (coll : Spec.Coll) (hl : Spec.lookup q.coll s = some coll) :
    (withTx false (Op.body likeFn fnFam (.findFirst q)) noFault σ).1 =
      .ok (.docOpt (planAnswer likeFn fnFam σ { q with limit := 1 } coll).head?) := by
  rw [withTx_read_noFault]
  obtain ⟨c2, h2, _⟩ := iterateDocs_planAnswer likeFn fnFam s (ctx0 false σ) hw hr { q with limit := 1 } none coll hl
  simp only [Op.body]
  rw [bind_run _ _ _ c2 _ h2]
  rfl

theorem exists_run_any_plan (s : Spec.State) (σ : KVS) (hw : WF s) (hr : Rep s σ) (q : Query)
    (coll : Spec.Coll) (hl : Spec.lookup q.coll s = some coll) :
    (withTx false (Op.body likeFn fnFam (.exists_ q)) noFault σ).1 =
      .ok (.bool (planAnswer likeFn fnFam σ { q with limit := 1 } coll).head?.isSome) := by
  rw [withTx_read_noFault]
  obtain ⟨c2, h2, _⟩ := iterateDocs_planAnswer likeFn fnFam s (ctx0 false σ) hw hr { q with limit := 1 } none coll hl
  simp only [Op.body]
  rw [bind_run _ _ _ c2 _ h2]
  rfl

/-- `Count` with criteria runs the plan and counts -/
theorem count_run_any_plan (s : Spec.State) (σ : KVS) (hw : WF s) (hr : Rep s σ) (q : Query)
    (hq : q.crit ≠ none) (coll : Spec.Coll) (hl : Spec.lookup q.coll s = some coll) :
    (withTx false (Op.body likeFn fnFam (.count q)) noFault σ).1 =
      .ok (.int (planAnswer likeFn fnFam σ q coll).length) := by
  cases hc : q.crit with
  | none => exact absurd hc hq
  | some cr =>
    rw [withTx_read_noFault]
    obtain ⟨c2, h2, _⟩ := iterateDocs_planAnswer likeFn fnFam s (ctx0 false σ) hw hr q none coll hl
    simp only [Op.body, hc]
    rw [bind_run _ _ _ c2 _ h2]
    rfl

/-- `Count` without criteria reads the stored size, whatever the indexes (no plan is involved) -/
theorem count_run_nocrit (s : Spec.State) (σ : KVS) (hr : Rep s σ) (q : Query)
    (hq : q.crit = none) (coll : Spec.Coll) (hl : Spec.lookup q.coll s = some coll) :
    (withTx false (Op.body likeFn fnFam (.count q)) noFault σ).1 =
      .ok (.int (countWindow (coll.docs.length : Int) q)) := by
  rw [withTx_read_noFault]
  have hm : kvGet (ctx0 false σ).work (metaKey q.coll) = some (.cmeta ⟨coll.docs.length, coll.indexes⟩) := by
    simp only [ctx0, hr.2, assoc_meta, hl, Option.map_some]
  obtain ⟨c1, h1, _⟩ := getMeta_run q.coll _ (ctx0 false σ) hm
  simp only [Op.body, hq]
  rw [bind_run _ _ _ c1 _ h1]
  rfl

/-! ## 2. lengths are plan independent -/

/-- on the key domain the answer of any plan has the length of the specification's answer — any
    sort, skip and limit, and NO hypothesis on the sort keys -/
theorem planAnswer_length (s : Spec.State) (σ : KVS) (hw : WF s) (hr : Rep s σ) (q : Query)
    (coll : Spec.Coll) (hl : Spec.lookup q.coll s = some coll) (hdomain : KeyDomain q coll) :
    (planAnswer likeFn fnFam σ q coll).length = (Spec.findAll likeFn fnFam q coll).length := by
  have hperm := findAll_perm_any_plan' likeFn fnFam s σ hw hr q coll hl hdomain.docs hdomain.crit hdomain.indexed
  have hsortL : ∀ l : List Doc, (sortDocs q.sort l).length = l.length := fun l => (List.mergeSort_perm _ _).length_eq
  unfold planAnswer Spec.findAll
  simp only
  apply window_length_of_length
  have h1 : ∀ b : Bool, (if b = true then sortDocs q.sort ((candidates σ q.coll (coll.docs.map (·.2)) (choosePlan coll.indexes q).1).filter
        (fun d => satOpt likeFn fnFam d q.crit))
      else (candidates σ q.coll (coll.docs.map (·.2)) (choosePlan coll.indexes q).1).filter (fun d => satOpt likeFn fnFam d q.crit)).length =
      ((coll.docs.map (·.2)).filter (fun d => satOpt likeFn fnFam d q.crit)).length := by
    intro b
    cases b with
    | false => simpa using hperm.length_eq
    | true => simpa [hsortL] using hperm.length_eq
  rw [h1]
  split
  · rfl
  · exact (hsortL _).symm

theorem head?_isSome_of_length_eq {α β : Type} (l₁ : List α) (l₂ : List β) (h : l₁.length = l₂.length) :
    l₁.head?.isSome = l₂.head?.isSome := by
  cases l₁ <;> cases l₂ <;> simp at h ⊢

theorem keyDomain_limit (q : Query) (coll : Spec.Coll) (n : Int) (h : KeyDomain q coll) :
    KeyDomain { q with limit := n } coll := ⟨h.docs, h.crit, h.indexed⟩

/-! ## 3. `Exists` and `Count`, exactly -/

/-- **`Exists` under any plan equals the specification's**, on the key domain, with any sort options
    (no hypothesis on the sort keys: whether the limit-1 answer is empty does not depend on order) -/
theorem exists_exact_any_plan (s : Spec.State) (σ : KVS) (hw : WF s) (hr : Rep s σ) (q : Query)
    (coll : Spec.Coll) (hl : Spec.lookup q.coll s = some coll) (hdomain : KeyDomain q coll) :
    (withTx false (Op.body likeFn fnFam (.exists_ q)) noFault σ).1 = (Spec.step likeFn fnFam s (.exists_ q)).1 := by
  rw [exists_run_any_plan likeFn fnFam s σ hw hr q coll hl]
  simp only [Spec.step, Spec.withColl, hl]
  congr 2
  apply head?_isSome_of_length_eq
  exact planAnswer_length likeFn fnFam s σ hw hr { q with limit := 1 } coll hl (keyDomain_limit q coll 1 hdomain)

/-- **`Count` without criteria equals the specification's** for every index set and every state (the
    stored size, skip and limit arithmetic; no plan, no domain hypothesis) -/
theorem count_nocrit_exact (s : Spec.State) (σ : KVS) (hr : Rep s σ) (q : Query)
    (hq : q.crit = none) (coll : Spec.Coll) (hl : Spec.lookup q.coll s = some coll) :
    (withTx false (Op.body likeFn fnFam (.count q)) noFault σ).1 = (Spec.step likeFn fnFam s (.count q)).1 := by
  rw [count_run_nocrit likeFn fnFam s σ hr q hq coll hl]
  simp only [Spec.step, Spec.withColl, hl]
  congr 2
  unfold Spec.findAll
  simp only [hq, satOpt]
  have hf : List.filter (fun _ => true) (coll.docs.map (·.2)) = coll.docs.map (·.2) := by
    apply List.filter_eq_self.2; intro _ _; rfl
  have hlen : (if q.sort.isEmpty = true then List.filter (fun _ => true) (coll.docs.map (·.2))
      else sortDocs q.sort (List.filter (fun _ => true) (coll.docs.map (·.2)))).length = coll.docs.length := by
    rw [hf]
    split
    · simp
    · unfold sortDocs; rw [(List.mergeSort_perm _ _).length_eq]; simp
  have := window_length_int q.skip q.limit coll.docs.length _ hlen
  rw [this]
  unfold countWindow
  rfl

/-- **`Count` under any plan equals the specification's**: with criteria through the plan (on the
    key domain), without criteria through the stored size -/
theorem count_any_plan (s : Spec.State) (σ : KVS) (hw : WF s) (hr : Rep s σ) (q : Query)
    (coll : Spec.Coll) (hl : Spec.lookup q.coll s = some coll) (hdomain : KeyDomain q coll) :
    (withTx false (Op.body likeFn fnFam (.count q)) noFault σ).1 = (Spec.step likeFn fnFam s (.count q)).1 := by
  cases hq : q.crit with
  | none => exact count_nocrit_exact likeFn fnFam s σ hr q hq coll hl
  | some cr => exact count_exact_any_plan likeFn fnFam s σ hw hr q cr hq coll hl hdomain

/-! ## 4. `ForEach`, position by position up to ties -/

theorem forall₂_seenBy (R : Doc → Doc → Prop) (k : Option Nat) {l₁ l₂ : List Doc}
    (h : List.Forall₂ R l₁ l₂) : List.Forall₂ R (seenBy k l₁) (seenBy k l₂) := by
  cases k with
  | none => exact h
  | some n => exact forall₂_take R _ h

/-- the specification's `ForEach` answer -/
theorem spec_forEach (s : Spec.State) (q : Query) (k : Option Nat) (coll : Spec.Coll)
    (hl : Spec.lookup q.coll s = some coll) :
    (Spec.step likeFn fnFam s (.forEach q k)).1 = .ok (.docs (seenBy k (Spec.findAll likeFn fnFam q coll))) := by
  simp only [Spec.step, Spec.withColl, hl]
  cases k <;> rfl

/-- **`ForEach` under any plan**: a consumer that accepts everything (`k = none`) visits a list
    position by position tie-equivalent (`compareDocuments · · q.sort = 0`) to the specification's
    answer; a consumer that answers `false` on its `n`-th document (`k = some n`) visits the
    tie-equivalent of the first `max n 1` documents of it — exactly as many as the specification. -/
theorem forEach_classwise_any_plan (s : Spec.State) (σ : KVS) (hw : WF s) (hr : Rep s σ) (q : Query)
    (k : Option Nat) (coll : Spec.Coll) (hl : Spec.lookup q.coll s = some coll) (hdomain : KeyDomain q coll)
    (hsd : SortDom q.sort ((coll.docs.map (·.2)).filter (fun d => satOpt likeFn fnFam d q.crit)))
    (hnn : (choosePlan coll.indexes q).2 = true →
      ∀ o ∈ q.sort, ∀ d ∈ (coll.docs.map (·.2)).filter (fun d => satOpt likeFn fnFam d q.crit),
        d.has o.1 = true → d.get o.1 ≠ .null) :
    ∃ res spec, (withTx false (Op.body likeFn fnFam (.forEach q k)) noFault σ).1 = .ok (.docs res) ∧
      (Spec.step likeFn fnFam s (.forEach q k)).1 = .ok (.docs spec) ∧
      spec = seenBy k (Spec.findAll likeFn fnFam q coll) ∧
      List.Forall₂ (fun a b => compareDocuments a b q.sort = 0) res spec :=
  ⟨_, _, forEach_run_any_plan likeFn fnFam s σ hw hr q k coll hl, spec_forEach likeFn fnFam s q k coll hl, rfl,
    forall₂_seenBy _ k (plan_answer_classwise likeFn fnFam s σ hw hr q coll hl hdomain hsd hnn)⟩

/-- … in particular it visits exactly as many documents as the specification says — and this needs
    no hypothesis on the sort keys -/
theorem forEach_length_any_plan (s : Spec.State) (σ : KVS) (hw : WF s) (hr : Rep s σ) (q : Query)
    (k : Option Nat) (coll : Spec.Coll) (hl : Spec.lookup q.coll s = some coll) (hdomain : KeyDomain q coll) :
    ∃ res spec, (withTx false (Op.body likeFn fnFam (.forEach q k)) noFault σ).1 = .ok (.docs res) ∧
      (Spec.step likeFn fnFam s (.forEach q k)).1 = .ok (.docs spec) ∧ res.length = spec.length := by
  refine ⟨_, _, forEach_run_any_plan likeFn fnFam s σ hw hr q k coll hl, spec_forEach likeFn fnFam s q k coll hl, ?_⟩
  have h := planAnswer_length likeFn fnFam s σ hw hr q coll hl hdomain
  cases k with
  | none => exact h
  | some n => simp only [seenBy, List.length_take, h]

/-! ## 5. the derived reads agree with `FindAll`, on the model alone -/

/-- **`Count`, `Exists`, `FindFirst`, `ForEach` agree with `FindAll` under any plan** — equalities
    between fault-free MODEL runs on a store representing a well-formed state, for every index set
    and whichever plan the planner picks; no hypothesis on the values stored or asked for:
    `res` is what `FindAll q` returns, `res₁` what `FindAll (q.Limit(1))` returns. -/
theorem derived_reads_agree_any_plan (s : Spec.State) (σ : KVS) (hw : WF s) (hr : Rep s σ) (q : Query)
    (coll : Spec.Coll) (hl : Spec.lookup q.coll s = some coll) :
    ∃ res res₁,
      (withTx false (Op.body likeFn fnFam (.findAll q)) noFault σ).1 = .ok (.docs res) ∧
      (withTx false (Op.body likeFn fnFam (.findAll { q with limit := 1 })) noFault σ).1 = .ok (.docs res₁) ∧
      (q.crit ≠ none →
        (withTx false (Op.body likeFn fnFam (.count q)) noFault σ).1 = .ok (.int res.length)) ∧
      (withTx false (Op.body likeFn fnFam (.exists_ q)) noFault σ).1 = .ok (.bool (!res₁.isEmpty)) ∧
      (withTx false (Op.body likeFn fnFam (.findFirst q)) noFault σ).1 = .ok (.docOpt res₁.head?) ∧
      (∀ k, (withTx false (Op.body likeFn fnFam (.forEach q k)) noFault σ).1 = .ok (.docs (seenBy k res))) := by
  refine ⟨_, _, findAll_run_planAnswer likeFn fnFam s σ hw hr q coll hl,
    findAll_run_planAnswer likeFn fnFam s σ hw hr { q with limit := 1 } coll hl,
    fun hq => count_run_any_plan likeFn fnFam s σ hw hr q hq coll hl, ?_,
    findFirst_run_any_plan likeFn fnFam s σ hw hr q coll hl,
    fun k => forEach_run_any_plan likeFn fnFam s σ hw hr q k coll hl⟩
  rw [exists_run_any_plan likeFn fnFam s σ hw hr q coll hl]
  congr 2
  cases planAnswer likeFn fnFam σ { q with limit := 1 } coll <;> rfl

/-- … and on the key domain `Count` is the length of `FindAll` also when it takes the stored-size
    shortcut (no criteria): for every query, any plan -/
theorem count_is_length_of_findAll_any_plan (s : Spec.State) (σ : KVS) (hw : WF s) (hr : Rep s σ) (q : Query)
    (coll : Spec.Coll) (hl : Spec.lookup q.coll s = some coll) (hdomain : KeyDomain q coll) :
    ∃ res, (withTx false (Op.body likeFn fnFam (.findAll q)) noFault σ).1 = .ok (.docs res) ∧
      (withTx false (Op.body likeFn fnFam (.count q)) noFault σ).1 = .ok (.int res.length) := by
  refine ⟨_, findAll_run_planAnswer likeFn fnFam s σ hw hr q coll hl, ?_⟩
  rw [count_any_plan likeFn fnFam s σ hw hr q coll hl hdomain]
  simp only [Spec.step, Spec.withColl, hl]
  rw [planAnswer_length likeFn fnFam s σ hw hr q coll hl hdomain]

end CV
