import Clover.Proofs.ReadsAny
import Clover.Proofs.IndexBlock
import Clover.Proofs.RefineStep
/-! # Index transparency, end to end, on the model

With any set of indexes and whichever plan the planner picks, a fault-free `FindAll` returns a
permutation of the specification's answer (no sort, no window), `Count` returns the
specification's count (any skip/limit), on the key domain (numbers within ±2^53, times from 1970
on — outside it the two recorded findings apply). -/
namespace CV
open OC Keys StoreM

variable (likeFn : LikeFn) (fnFam : FnFam)

/-- the value-domain hypotheses of index transparency -/
structure KeyDomain (q : Query) (coll : Spec.Coll) : Prop where
  docs : ∀ e ∈ coll.docs, AllNumKV numOK e.2
  crit : ∀ cr, q.crit = some cr → CritOK cr ∧ CritDom cr
  indexed : ∀ f ∈ coll.indexes, ∀ e ∈ coll.docs, Dom numOK (e.2.get f)

theorem window_all (l : List Doc) (limit : Int) (h : limit < 0) : Spec.window 0 limit l = l := by
  simp [Spec.window, h]

/-- **Index transparency for `FindAll`** (no sort, no window): whatever indexes exist and whichever
    plan is chosen, the answer is a permutation of the specification's answer — exactly the live
    documents satisfying the criteria, each once. -/
theorem findAll_exact_any_plan (s : Spec.State) (σ : KVS) (hw : WF s) (hr : Rep s σ) (q : Query)
    (coll : Spec.Coll) (hl : Spec.lookup q.coll s = some coll) (hdomain : KeyDomain q coll)
    (hskip : q.skip = 0) (hlimit : q.limit < 0) :
    ∃ res, (withTx false (Op.body likeFn fnFam (.findAll q)) noFault σ).1 = .ok (.docs res) ∧
      res.Perm (Spec.findAll likeFn fnFam q coll) := by
  refine ⟨_, findAll_run_any_plan likeFn fnFam s σ hw hr q coll hl, ?_⟩
  have hperm := findAll_perm_any_plan' likeFn fnFam s σ hw hr q coll hl hdomain.docs hdomain.crit hdomain.indexed
  rw [hskip, window_all _ _ hlimit]
  unfold Spec.findAll
  rw [hskip, window_all _ _ hlimit]
  simp only
  have hsortL : ∀ l : List Doc, (sortDocs q.sort l).Perm l := fun l => List.mergeSort_perm _ _
  have lhs : ∀ b : Bool, (if b = true then sortDocs q.sort ((candidates σ q.coll (coll.docs.map (·.2)) (choosePlan coll.indexes q).1).filter
        (fun d => satOpt likeFn fnFam d q.crit))
      else (candidates σ q.coll (coll.docs.map (·.2)) (choosePlan coll.indexes q).1).filter (fun d => satOpt likeFn fnFam d q.crit)).Perm
      ((coll.docs.map (·.2)).filter (fun d => satOpt likeFn fnFam d q.crit)) := by
    intro b
    cases b with
    | false => simpa using hperm
    | true => simpa using (hsortL _).trans hperm
  refine (lhs _).trans ?_
  split
  · exact List.Perm.refl _
  · exact (hsortL _).symm

theorem window_length_of_length (skip : Nat) (limit : Int) (l l' : List Doc) (h : l.length = l'.length) :
    (Spec.window skip limit l).length = (Spec.window skip limit l').length := by
  unfold Spec.window
  split <;> simp [h]

/-- **Index transparency for `Count`** with criteria, any skip and limit. -/
theorem count_exact_any_plan (s : Spec.State) (σ : KVS) (hw : WF s) (hr : Rep s σ) (q : Query) (cr : Crit)
    (hq : q.crit = some cr) (coll : Spec.Coll) (hl : Spec.lookup q.coll s = some coll) (hdomain : KeyDomain q coll) :
    (withTx false (Op.body likeFn fnFam (.count q)) noFault σ).1 = (Spec.step likeFn fnFam s (.count q)).1 := by
  rw [withTx_read_noFault]
  obtain ⟨c2, h2, _⟩ := iterateDocs_run likeFn fnFam s (ctx0 false σ) hw hr q none coll hl
  simp only [Op.body, hq]
  rw [bind_run _ _ _ c2 _ h2, pipeline_none]
  simp only [Spec.step, Spec.withColl, hl]
  show Res.ok (Out.int _) = Res.ok (Out.int _)
  congr 2
  have hperm := findAll_perm_any_plan' likeFn fnFam s σ hw hr q coll hl hdomain.docs hdomain.crit hdomain.indexed
  have hsortL : ∀ l : List Doc, (sortDocs q.sort l).length = l.length := fun l => (List.mergeSort_perm _ _).length_eq
  unfold Spec.findAll
  simp only
  congr 1
  apply window_length_of_length
  have hwk : (ctx0 false σ).work = σ := rfl
  rw [hwk]
  have h1 : ∀ b : Bool, (if b = true then sortDocs q.sort ((candidates σ q.coll (coll.docs.map (·.2)) (choosePlan coll.indexes q).1).filter
        (fun d => satOpt likeFn fnFam d q.crit))
      else (candidates σ q.coll (coll.docs.map (·.2)) (choosePlan coll.indexes q).1).filter (fun d => satOpt likeFn fnFam d q.crit)).length =
      ((coll.docs.map (·.2)).filter (fun d => satOpt likeFn fnFam d q.crit)).length := by
    intro b
    cases b with
    | false => simpa using hperm.length_eq
    | true => simpa [hsortL] using hperm.length_eq
  rw [h1]
  split
  · rfl
  · exact (hsortL _).symm

end CV
