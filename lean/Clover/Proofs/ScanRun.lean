import Clover.Model.Index
/-! # Fault-free runs of the index scan programs are pure list computations -/
namespace CV
open StoreM

def noFault : Faults := fun _ => false

/-- the context after a read-only step: same working copy, same fault flag -/
def SameWork (c c' : Ctx) : Prop := c'.work = c.work ∧ c'.fired = c.fired ∧ c'.skipCommit = c.skipCommit

theorem SameWork.refl (c : Ctx) : SameWork c c := ⟨rfl, rfl, rfl⟩
theorem SameWork.trans {a b c : Ctx} (h1 : SameWork a b) (h2 : SameWork b c) : SameWork a c :=
  ⟨h2.1.trans h1.1, h2.2.1.trans h1.2.1, h2.2.2.trans h1.2.2⟩

theorem item_run (k : Bytes) (c : Ctx) : ∃ c', (item k) noFault c = (.ok (), c') ∧ SameWork c c' :=
  ⟨{ c with tick := c.tick + 1, trace := .item k :: c.trace }, by simp [item, call, noFault], ⟨rfl, rfl, rfl⟩⟩

theorem snapshot_run (c : Ctx) : snapshot noFault c = (.ok c.work, c) := rfl

theorem get_run (k : Bytes) (c : Ctx) :
    ∃ c', (get k) noFault c = (.ok (kvGet c.work k), c') ∧ SameWork c c' :=
  ⟨{ c with tick := c.tick + 1, trace := .get k :: c.trace }, by simp [StoreM.get, call, noFault], ⟨rfl, rfl, rfl⟩⟩

theorem bind_run {α β} (m : StoreM α) (f : α → StoreM β) (c c' : Ctx) (a : α)
    (h : m noFault c = (.ok a, c')) : (m >>= f) noFault c = f a noFault c' := by
  show bind' m f noFault c = _
  unfold bind'
  rw [h]

/-! ## pure counterparts -/

def skipEqP (bound : Bytes) (l : KVS) : KVS := l.dropWhile (fun e => Keys.isPrefix bound e.1)

def scanP (pfx : Bytes) (stopTest : Bytes → Bool) (l : KVS) : List Bytes :=
  (l.takeWhile (fun e => Keys.isPrefix pfx e.1 && !stopTest (stripId e.1))).map (fun e => extractId e.1)

theorem skipEq_run (bound : Bytes) : (l : KVS) → (c : Ctx) →
    ∃ c', (skipEq bound l) noFault c = (.ok (skipEqP bound l), c') ∧ SameWork c c'
  | [], c => ⟨c, rfl, SameWork.refl c⟩
  | e :: rest, c => by
    obtain ⟨c1, h1, s1⟩ := item_run e.1 c
    simp only [skipEq]
    rw [bind_run _ _ c c1 () h1]
    by_cases hp : Keys.isPrefix bound e.1 = true
    · simp only [hp, if_true]
      obtain ⟨c2, h2, s2⟩ := skipEq_run bound rest c1
      refine ⟨c2, ?_, s1.trans s2⟩
      rw [h2]; simp [skipEqP, List.dropWhile, hp]
    · simp only [hp, Bool.false_eq_true, if_false]
      refine ⟨c1, ?_, s1⟩
      simp only [Bool.not_eq_true] at hp
      simp [skipEqP, List.dropWhile, hp]; rfl

/-- the consumer that collects every id -/
def collectAll : List Bytes → Bytes → StoreM (List Bytes × Flow) := fun acc id => pure (id :: acc, Flow.cont)

theorem scanLoop_run (pfx : Bytes) (stopTest : Bytes → Bool) : (l : KVS) → (acc : List Bytes) → (c : Ctx) →
    ∃ c', (scanLoop pfx stopTest collectAll acc l) noFault c
        = (.ok ((scanP pfx stopTest l).reverse ++ acc), c') ∧ SameWork c c'
  | [], acc, c => ⟨c, by simp [scanLoop, scanP]; rfl, SameWork.refl c⟩
  | e :: rest, acc, c => by
    obtain ⟨c1, h1, s1⟩ := item_run e.1 c
    simp only [scanLoop]
    rw [bind_run _ _ c c1 () h1]
    by_cases hp : Keys.isPrefix pfx e.1 = true
    · by_cases hs : stopTest (stripId e.1) = true
      · refine ⟨c1, ?_, s1⟩
        simp [hp, hs, scanP, List.takeWhile]; rfl
      · simp only [Bool.not_eq_true] at hs
        simp only [hp, Bool.not_true, Bool.false_eq_true, if_false, hs]
        obtain ⟨c2, h2, s2⟩ := scanLoop_run pfx stopTest rest (extractId e.1 :: acc) c1
        refine ⟨c2, ?_, s1.trans s2⟩
        change (scanLoop pfx stopTest collectAll (extractId e.1 :: acc) rest) noFault c1 = _
        rw [h2]
        simp [scanP, List.takeWhile, hp, hs]
    · simp only [Bool.not_eq_true] at hp
      refine ⟨c1, ?_, s1⟩
      simp [hp, scanP, List.takeWhile]; rfl

/-- pure `IterateRange` over the content of the transaction -/
def iterateRangeP (kv : KVS) (c f : Bytes) (r : Range) (rev : Bool) : List Bytes :=
  if r.isEmpty then [] else
  let plan := rangePlan kv c f r rev
  let items := match plan.skip with
    | some b => skipEqP b plan.items
    | none => plan.items
  scanP (Keys.idxPrefix c f) plan.stopTest items

/-- a fault-free `IterateRange` with a collecting consumer returns exactly `iterateRangeP` -/
theorem iterateRange_run (cn f : Bytes) (r : Range) (rev : Bool) (c : Ctx) :
    ∃ c', (iterateRange cn f r rev collectAll []) noFault c
      = (.ok (iterateRangeP c.work cn f r rev).reverse, c') ∧ SameWork c c' := by
  unfold iterateRange iterateRangeP
  by_cases he : r.isEmpty = true
  · exact ⟨c, by simp [he]; rfl, SameWork.refl c⟩
  · simp only [he, Bool.false_eq_true, if_false]
    change ∃ c', (snapshot >>= _) noFault c = _ ∧ _
    rw [bind_run _ _ c c _ (snapshot_run c)]
    cases hsk : (rangePlan c.work cn f r rev).skip with
    | some b =>
      obtain ⟨c1, h1, s1⟩ := skipEq_run b (rangePlan c.work cn f r rev).items c
      obtain ⟨c2, h2, s2⟩ := scanLoop_run (Keys.idxPrefix cn f) (rangePlan c.work cn f r rev).stopTest
        (skipEqP b (rangePlan c.work cn f r rev).items) [] c1
      refine ⟨c2, ?_, s1.trans s2⟩
      simp only []
      rw [bind_run _ _ c c1 _ h1, h2, List.append_nil]
    | none =>
      obtain ⟨c2, h2, s2⟩ := scanLoop_run (Keys.idxPrefix cn f) (rangePlan c.work cn f r rev).stopTest
        (rangePlan c.work cn f r rev).items [] c
      refine ⟨c2, ?_, s2⟩
      have hp : (pure (rangePlan c.work cn f r rev).items : StoreM KVS) noFault c = (.ok _, c) := rfl
      simp only []
      rw [bind_run _ _ c c _ hp, h2, List.append_nil]

/-- the pure full-index iteration -/
def iterateAllP (kv : KVS) (c f : Bytes) (rev : Bool) : List Bytes :=
  let pfx := Keys.idxPrefix c f
  scanP pfx (fun _ => false) (if rev then seekRev kv (pfx ++ [255]) else seekFwd kv pfx)

theorem iterateAll_run (cn f : Bytes) (rev : Bool) (c : Ctx) :
    ∃ c', (iterateAll cn f rev collectAll []) noFault c
      = (.ok (iterateAllP c.work cn f rev).reverse, c') ∧ SameWork c c' := by
  unfold iterateAll iterateAllP
  change ∃ c', (snapshot >>= _) noFault c = _ ∧ _
  rw [bind_run _ _ c c _ (snapshot_run c)]
  obtain ⟨c2, h2, s2⟩ := scanLoop_run (Keys.idxPrefix cn f) (fun _ => false)
    (if rev = true then seekRev c.work (Keys.idxPrefix cn f ++ [255]) else seekFwd c.work (Keys.idxPrefix cn f)) [] c
  exact ⟨c2, by rw [h2]; simp, s2⟩

end CV
