import Clover.Proofs.Holds
/-! # Replacing or removing one collection of the abstract state

A store that agrees with the old one outside the keys owned by `c`, and holds exactly the keys of
`coll'` among those owned by `c`, represents `Spec.insert c coll' s`.  Every write operation is an
instance: it touches the keys of one collection only. -/
namespace CV
open OC Keys

theorem holds_insert (s : Spec.State) (c : Bytes) (coll' : Spec.Coll) (k : Bytes) (v : SVal) :
    Holds (Spec.insert c coll' s) k v ↔
      HoldsC c coll' k v ∨ ∃ c' coll, c' ≠ c ∧ Spec.lookup c' s = some coll ∧ HoldsC c' coll k v := by
  constructor
  · rintro ⟨c', coll, hl, hk⟩
    rw [Spec.lookup_insert'] at hl
    by_cases h : c' = c
    · subst h; simp only [if_true, Option.some.injEq] at hl; subst hl; exact Or.inl hk
    · simp only [h, if_false] at hl; exact Or.inr ⟨c', coll, h, hl, hk⟩
  · rintro (hk | ⟨c', coll, hne, hl, hk⟩)
    · exact ⟨c, coll', by rw [Spec.lookup_insert']; simp, hk⟩
    · exact ⟨c', coll, by rw [Spec.lookup_insert']; simp [hne, hl], hk⟩

theorem holds_erase (s : Spec.State) (hs : Spec.KeysSorted s) (c : Bytes) (k : Bytes) (v : SVal) :
    Holds (Spec.erase c s) k v ↔ ∃ c' coll, c' ≠ c ∧ Spec.lookup c' s = some coll ∧ HoldsC c' coll k v := by
  constructor
  · rintro ⟨c', coll, hl, hk⟩
    rw [Spec.lookup_erase' _ _ _ hs] at hl
    by_cases h : c' = c
    · simp [h] at hl
    · simp only [h, if_false] at hl; exact ⟨c', coll, h, hl, hk⟩
  · rintro ⟨c', coll, hne, hl, hk⟩
    exact ⟨c', coll, by rw [Spec.lookup_erase' _ _ _ hs]; simp [hne, hl], hk⟩

theorem wf_insert (s : Spec.State) (hw : WF s) (c : Bytes) (hc : Clean c) (coll' : Spec.Coll) (hcw : CollWF coll') :
    WF (Spec.insert c coll' s) := by
  refine ⟨?_, Spec.keysSorted_insert c coll' s hw.namesSorted, ?_⟩
  · intro p hp
    rcases Spec.mem_insert c coll' p s hp with e | e
    · rw [e]; exact hc
    · exact hw.namesClean p e
  · intro p hp
    rcases Spec.mem_insert c coll' p s hp with e | e
    · rw [e]; exact hcw
    · exact hw.colls p e

theorem wf_erase (s : Spec.State) (hw : WF s) (c : Bytes) : WF (Spec.erase c s) :=
  ⟨fun p hp => hw.namesClean p (Spec.mem_erase c p s hp), Spec.keysSorted_erase c s hw.namesSorted,
   fun p hp => hw.colls p (Spec.mem_erase c p s hp)⟩

/-- keys of other collections: what they are bound to does not depend on collection `c` -/
theorem holds_other (s : Spec.State) (hw : WF s) (c : Bytes) (hc : Clean c) (k : Bytes) (v : SVal) (hno : ¬ Owns c k) :
    Holds s k v ↔ ∃ c' coll, c' ≠ c ∧ Spec.lookup c' s = some coll ∧ HoldsC c' coll k v := by
  constructor
  · rintro ⟨c', coll, hl, hk⟩
    refine ⟨c', coll, ?_, hl, hk⟩
    intro e; subst e
    exact hno (holdsC_owns _ _ _ _ hk)
  · rintro ⟨c', coll, _, hl, hk⟩; exact ⟨c', coll, hl, hk⟩

/-- **Replacing (or adding) one collection.** -/
theorem rep_insert_coll (s : Spec.State) (σ σ' : KVS) (hw : WF s) (hr : Rep s σ) (c : Bytes) (hc : Clean c)
    (coll' : Spec.Coll) (hcw : CollWF coll') (hs' : KSorted σ')
    (hframe : ∀ k, ¬ Owns c k → kvGet σ' k = kvGet σ k)
    (hown : ∀ k v, Owns c k → (kvGet σ' k = some v ↔ HoldsC c coll' k v)) :
    Rep (Spec.insert c coll' s) σ' ∧ WF (Spec.insert c coll' s) := by
  have hw' := wf_insert s hw c hc coll' hcw
  refine ⟨?_, hw'⟩
  rw [rep_iff_holds _ hw']
  have hr' := (rep_iff_holds s hw σ).1 hr
  refine ⟨hs', fun k v => ?_⟩
  rw [holds_insert]
  by_cases ho : Owns c k
  · rw [hown k v ho]
    constructor
    · exact Or.inl
    · rintro (h | ⟨c', coll, hne, hl, hk⟩)
      · exact h
      · exact absurd (owns_unique c' c k (wf_lookup_clean s hw c' coll hl).1 hc (holdsC_owns _ _ _ _ hk) ho) hne
  · rw [hframe k ho, hr'.2 k v, holds_other s hw c hc k v ho]
    constructor
    · exact Or.inr
    · rintro (h | h)
      · exact absurd (holdsC_owns _ _ _ _ h) ho
      · exact h

/-- **Removing one collection.** -/
theorem rep_erase_coll (s : Spec.State) (σ σ' : KVS) (hw : WF s) (hr : Rep s σ) (c : Bytes) (hc : Clean c)
    (hs' : KSorted σ')
    (hframe : ∀ k, ¬ Owns c k → kvGet σ' k = kvGet σ k)
    (hown : ∀ k, Owns c k → kvGet σ' k = none) :
    Rep (Spec.erase c s) σ' ∧ WF (Spec.erase c s) := by
  have hw' := wf_erase s hw c
  refine ⟨?_, hw'⟩
  rw [rep_iff_holds _ hw']
  have hr' := (rep_iff_holds s hw σ).1 hr
  refine ⟨hs', fun k v => ?_⟩
  rw [holds_erase s hw.namesSorted]
  by_cases ho : Owns c k
  · rw [hown k ho]
    constructor
    · intro h; simp at h
    · rintro ⟨c', coll, hne, hl, hk⟩
      exact absurd (owns_unique c' c k (wf_lookup_clean s hw c' coll hl).1 hc (holdsC_owns _ _ _ _ hk) ho) hne
  · rw [hframe k ho, hr'.2 k v, holds_other s hw c hc k v ho]

/-- what the keys owned by a live collection are bound to -/
theorem rep_owned (s : Spec.State) (σ : KVS) (hw : WF s) (hr : Rep s σ) (c : Bytes) (coll : Spec.Coll)
    (hl : Spec.lookup c s = some coll) (k : Bytes) (v : SVal) (ho : Owns c k) :
    kvGet σ k = some v ↔ HoldsC c coll k v := by
  have hr' := (rep_iff_holds s hw σ).1 hr
  have hc := (wf_lookup_clean s hw c coll hl).1
  rw [hr'.2 k v]
  constructor
  · rintro ⟨c', coll', hl', hk⟩
    have : c' = c := owns_unique c' c k (wf_lookup_clean s hw c' coll' hl').1 hc (holdsC_owns _ _ _ _ hk) ho
    subst this
    rw [hl] at hl'; simp only [Option.some.injEq] at hl'; subst hl'; exact hk
  · intro hk; exact ⟨c, coll, hl, hk⟩

/-- no key is owned by a collection that does not exist -/
theorem rep_unowned (s : Spec.State) (σ : KVS) (hw : WF s) (hr : Rep s σ) (c : Bytes) (hc : Clean c)
    (hl : Spec.lookup c s = none) (k : Bytes) (ho : Owns c k) : kvGet σ k = none := by
  have hr' := (rep_iff_holds s hw σ).1 hr
  cases hg : kvGet σ k with
  | none => rfl
  | some v =>
    obtain ⟨c', coll', hl', hk⟩ := (hr'.2 k v).1 hg
    have : c' = c := owns_unique c' c k (wf_lookup_clean s hw c' coll' hl').1 hc (holdsC_owns _ _ _ _ hk) ho
    subst this
    rw [hl] at hl'; simp at hl'

end CV
