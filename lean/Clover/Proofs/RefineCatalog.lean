import Clover.Proofs.RefinePoint
/-! # `ListCollections` refines the specification

The keys under `coll:` are exactly the metadata records, one per collection, in name order; the
operation walks them, strips the prefix, and returns without committing its write transaction. -/
namespace CV
open OC Keys StoreM

variable (likeFn : LikeFn) (fnFam : FnFam)

/-- the metadata records of an abstract state, in name order -/
def metaEntries (s : Spec.State) : KVS :=
  s.map (fun p => (metaKey p.1, SVal.cmeta ⟨p.2.docs.length, p.2.indexes⟩))

theorem metaEntries_sorted (s : Spec.State) (h : Spec.KeysSorted s) : KSorted (metaEntries s) := by
  unfold KSorted metaEntries
  rw [List.pairwise_map]
  apply List.Pairwise.imp _ h
  intro a b hab
  show lexLt (sColl ++ a.1) (sColl ++ b.1) = true
  rw [lexLt_prefix]; exact hab

theorem kvGet_metaEntries (c : Bytes) : (s : Spec.State) →
    kvGet (metaEntries s) (metaKey c)
      = (Spec.lookup c s).map (fun coll => SVal.cmeta ⟨coll.docs.length, coll.indexes⟩)
  | [] => rfl
  | (c', coll) :: t => by
    simp only [metaEntries, List.map, kvGet, Spec.lookup]
    by_cases h : c = c'
    · subst h; simp
    · have hne : metaKey c ≠ metaKey c' := fun e => h (metaKey_inj c c' e)
      simp only [hne, if_false, h]
      exact kvGet_metaEntries c t

theorem kvGet_metaEntries_none (k : Bytes) (hp : isPrefix sColl k = false) : (s : Spec.State) →
    kvGet (metaEntries s) k = none
  | [] => rfl
  | (c', coll) :: t => by
    simp only [metaEntries, List.map, kvGet]
    have hne : k ≠ metaKey c' := by
      intro e
      have : isPrefix sColl (metaKey c') = true := isPrefix_append _ _
      rw [← e, hp] at this
      simp at this
    simp only [hne, if_false]
    exact kvGet_metaEntries_none k hp t

/-- under the representation relation, the part of the store under `coll:` is exactly the metadata
    records, one per collection, in name order -/
theorem meta_block (s : Spec.State) (σ : KVS) (hw : WF s) (hr : Rep s σ) :
    σ.filter (fun e => isPrefix sColl e.1) = metaEntries s := by
  apply kv_ext _ _ (ksorted_filter _ σ hr.1) (metaEntries_sorted s hw.namesSorted)
  intro k
  rw [kvGet_filter_key (fun k => isPrefix sColl k) σ k]
  by_cases hp : isPrefix sColl k = true
  · obtain ⟨r, hr'⟩ := (isPrefix_iff _ _).1 hp
    have hk : k = metaKey r := hr'
    simp only [hp, if_true]
    rw [hk, rep_meta s σ hr r, kvGet_metaEntries]
  · simp only [Bool.not_eq_true] at hp
    simp only [hp, Bool.false_eq_true, if_false]
    exact (kvGet_metaEntries_none k hp s).symm

/-- what the cursor of `ListCollections` walks over, up to the end of the prefix -/
theorem meta_scan_items (s : Spec.State) (σ : KVS) (hw : WF s) (hr : Rep s σ) :
    (seekFwd σ sColl).takeWhile (fun e => isPrefix sColl e.1) = metaEntries s := by
  rw [prefix_scan_eq_filter sColl σ hr.1]
  exact meta_block s σ hw hr

theorem metaEntries_names (n : Nat) (hn : n = sColl.length) : (s : Spec.State) →
    (metaEntries s).map (fun e => e.1.drop n) = s.map (·.1)
  | [] => rfl
  | (c, coll) :: t => by
    have ih := metaEntries_names n hn t
    simp only [metaEntries, List.map] at ih ⊢
    rw [ih]
    congr 1
    subst hn
    show List.drop sColl.length (sColl ++ c) = c
    exact List.drop_left

/-- a fault-free loop over a prefix with the key-collecting consumer maps the block -/
theorem loopPrefix_names_run (pfx : Bytes) (g : Bytes → Bytes) : (items : KVS) → (acc : List Bytes) → (c : Ctx) →
    ∃ c', (loopPrefix pfx (fun acc e => (pure (g e.1 :: acc, Flow.cont) : StoreM (List Bytes × Flow))) acc items) noFault c
      = (.ok (((items.takeWhile (fun e => isPrefix pfx e.1)).map (fun e => g e.1)).reverse ++ acc), c') ∧ SameWork c c'
  | [], acc, c => ⟨c, rfl, SameWork.refl c⟩
  | e :: rest, acc, c => by
    obtain ⟨c1, h1, s1⟩ := item_run e.1 c
    simp only [loopPrefix]
    rw [bind_run _ _ c c1 () h1]
    by_cases hp : isPrefix pfx e.1 = true
    · simp only [hp, Bool.not_true, Bool.false_eq_true, if_false, List.takeWhile, List.map,
        List.reverse_cons, List.append_assoc, List.singleton_append]
      obtain ⟨c2, h2, s2⟩ := loopPrefix_names_run pfx g rest (g e.1 :: acc) c1
      refine ⟨c2, ?_, s1.trans s2⟩
      rw [bind_run _ _ c1 c1 _ (show (pure (g e.1 :: acc, Flow.cont) : StoreM (List Bytes × Flow)) noFault c1
        = (.ok (g e.1 :: acc, Flow.cont), c1) from rfl)]
      exact h2
    · simp only [Bool.not_eq_true] at hp
      refine ⟨c1, ?_, s1⟩
      simp only [hp, Bool.not_false, if_true, List.takeWhile, List.map, List.reverse_nil, List.nil_append]
      rfl

theorem noCommit_run (c : Ctx) : noCommit noFault c = (.ok (), { c with skipCommit := true }) := rfl

/-- **ListCollections refines the specification**: the names of the collections, in name order;
    the write transaction it opens is never committed, so the store is unchanged. -/
theorem listCollections_refines (s : Spec.State) (σ : KVS) (hw : WF s) (hr : Rep s σ) :
    let r := withTx true (Op.body likeFn fnFam .listCollections) noFault σ
    let sp := Spec.step likeFn fnFam s .listCollections
    r.1 = sp.1 ∧ r.2.1 = σ := by
  simp only
  obtain ⟨c1, h1, s1⟩ := loopPrefix_names_run sColl (fun k => k.drop sColl.length) (seekFwd σ sColl) [] (ctx0 true σ)
  rw [meta_scan_items s σ hw hr, metaEntries_names _ rfl s, List.append_nil] at h1
  have hb : (Op.body likeFn fnFam .listCollections) noFault (ctx0 true σ)
      = (.ok (.names (s.map (·.1))), { c1 with skipCommit := true }) := by
    simp only [Op.body]
    rw [bind_run _ _ _ _ _ (snapshot_run (ctx0 true σ))]
    have : (ctx0 true σ).work = σ := rfl
    rw [this, bind_run _ _ _ c1 _ h1, bind_run _ _ _ _ _ (noCommit_run c1), List.reverse_reverse]
    rfl
  have ht := withTx_ok_nocommit _ σ _ _ hb rfl
  simp only [Spec.step]
  exact ht

end CV
