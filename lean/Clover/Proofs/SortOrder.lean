import Clover.Proofs.ReadsExact
/-! # Sort order (C08): `compareDocuments` is a total preorder, the sort node sorts, index order

1. `compareDocuments` is a sign-antisymmetric, transitive (hence total) comparison on any set of
   documents whose compared values are pairwise comparable by value (`SortDom`).
2. `sortDocs` returns a list sorted by it.
3. windows and filters keep sortedness; the answer of a fault-free `FindAll` whose plan keeps the
   sort node is sorted by `compareDocuments · · q.sort`.
4. the candidates of an index scan come in index order (value order of the scanned field, reversed
   when asked), and so does the answer of a `FindAll` whose sort node is elided. -/
namespace CV
open OC Keys StoreM

variable (likeFn : LikeFn) (fnFam : FnFam)

/-! ## 1. `compareDocuments` is a total preorder -/

/-- a sign-antisymmetric, transitive three-way comparison on the set `S` -/
def SPre {α : Type} (S : α → Prop) (k : α → α → Int) : Prop :=
  (∀ a b, S a → S b → k a b = - k b a) ∧
  (∀ a b c, S a → S b → S c → k a b ≤ 0 → k b c ≤ 0 → k a c ≤ 0)

theorem spre_zero {α : Type} (S : α → Prop) : SPre S (fun _ _ => (0 : Int)) :=
  ⟨fun _ _ _ _ => by simp, fun _ _ _ _ _ _ _ _ => Int.le_refl 0⟩

/-- lexicographic combination: decide by `k1` (in direction `dir`), fall through to `k2` on a tie -/
theorem spre_lex {α : Type} (S : α → Prop) (k1 k2 : α → α → Int) (dir : Int) (hd : dir = 1 ∨ dir = -1)
    (h1 : SPre S k1) (h2 : SPre S k2) :
    SPre S (fun a b => if k1 a b = 0 then k2 a b else k1 a b * dir) := by
  obtain ⟨a1, t1⟩ := h1
  obtain ⟨a2, t2⟩ := h2
  constructor
  · intro a b ha hb
    have e := a1 a b ha hb
    show (if k1 a b = 0 then k2 a b else k1 a b * dir) = -(if k1 b a = 0 then k2 b a else k1 b a * dir)
    by_cases h : k1 a b = 0
    · have h' : k1 b a = 0 := by omega
      rw [if_pos h, if_pos h']; exact a2 a b ha hb
    · have h' : ¬ k1 b a = 0 := by omega
      rw [if_neg h, if_neg h']
      rcases hd with rfl | rfl <;> omega
  · intro a b c ha hb hc
    show (if k1 a b = 0 then k2 a b else k1 a b * dir) ≤ 0 →
      (if k1 b c = 0 then k2 b c else k1 b c * dir) ≤ 0 →
      (if k1 a c = 0 then k2 a c else k1 a c * dir) ≤ 0
    have eab := a1 a b ha hb
    have ebc := a1 b c hb hc
    have eac := a1 a c ha hc
    have T1 := t1 a b c ha hb hc
    have T2 := t1 b c a hb hc ha
    have T3 := t1 c a b hc ha hb
    have T4 := t1 a c b ha hc hb
    have T5 := t1 b a c hb ha hc
    have T6 := t1 c b a hc hb ha
    have eca : k1 c a = - k1 a c := by omega
    have eba : k1 b a = - k1 a b := by omega
    have ecb : k1 c b = - k1 b c := by omega
    rw [eca, eba, ecb] at *
    by_cases hx : k1 a b = 0 <;> by_cases hy : k1 b c = 0 <;> by_cases hz : k1 a c = 0
    all_goals (simp only [hx, hy, hz, if_true, if_false])
    all_goals (try (rcases hd with rfl | rfl <;> omega))
    exact t2 a b c ha hb hc

/-- the comparison on one sort key: absent before present, then `Compare` -/
def keyCmp (f : Bytes) (a b : Doc) : Int :=
  if !a.has f && b.has f then -1
  else if a.has f && !b.has f then 1
  else if a.has f && b.has f then goCmp (a.get f) (b.get f)
  else 0

theorem compareDocuments_cons (a b : Doc) (f : Bytes) (dir : Int) (rest : List (Bytes × Int)) :
    compareDocuments a b ((f, dir) :: rest) =
      if keyCmp f a b = 0 then compareDocuments a b rest else keyCmp f a b * dir := by
  simp only [compareDocuments, keyCmp]
  by_cases hA : a.has f = true <;> by_cases hB : b.has f = true <;> simp [hA, hB]

/-- the documents of `ds` are pairwise comparable by value on the field `f` -/
def FieldDom (f : Bytes) (ds : List Doc) : Prop := ∀ a ∈ ds, ∀ b ∈ ds, PairDom (a.get f) (b.get f)

theorem keyCmp_spre (f : Bytes) (ds : List Doc) (h : FieldDom f ds) : SPre (· ∈ ds) (keyCmp f) := by
  constructor
  · intro a b ha hb
    have e : goCmp (a.get f) (b.get f) = - goCmp (b.get f) (a.get f) := by
      rw [goCmp_eq _ _ (h a ha b hb), goCmp_eq _ _ (h b hb a ha)]; exact c10_preorder.2.1 _ _
    unfold keyCmp
    by_cases hA : a.has f = true <;> by_cases hB : b.has f = true <;> simp [hA, hB]
    exact e
  · intro a b c ha hb hc
    have t : goCmp (a.get f) (b.get f) ≤ 0 → goCmp (b.get f) (c.get f) ≤ 0 → goCmp (a.get f) (c.get f) ≤ 0 := by
      rw [goCmp_eq _ _ (h a ha b hb), goCmp_eq _ _ (h b hb c hc), goCmp_eq _ _ (h a ha c hc)]
      exact c10_preorder.2.2 _ _ _
    unfold keyCmp
    by_cases hA : a.has f = true <;> by_cases hB : b.has f = true <;> by_cases hC : c.has f = true <;>
      simp [hA, hB, hC]
    exact t

/-- the domain of the sort: directions normalised, compared values pairwise comparable by value -/
def SortDom (opts : List (Bytes × Int)) (ds : List Doc) : Prop :=
  (∀ o ∈ opts, o.2 = 1 ∨ o.2 = -1) ∧ ∀ a ∈ ds, ∀ b ∈ ds, ∀ o ∈ opts, PairDom (a.get o.1) (b.get o.1)

theorem sortDom_mono (opts : List (Bytes × Int)) (ds ds' : List Doc) (hsub : ∀ d ∈ ds', d ∈ ds)
    (h : SortDom opts ds) : SortDom opts ds' :=
  ⟨h.1, fun a ha b hb o ho => h.2 a (hsub a ha) b (hsub b hb) o ho⟩

theorem compareDocuments_spre : (opts : List (Bytes × Int)) → (ds : List Doc) → SortDom opts ds →
    SPre (· ∈ ds) (fun a b => compareDocuments a b opts)
  | [], ds, _ => by
    have : (fun a b : Doc => compareDocuments a b []) = fun _ _ => (0 : Int) := by
      funext a b; simp [compareDocuments]
    rw [this]; exact spre_zero _
  | (f, dir) :: rest, ds, h => by
    have hrest : SortDom rest ds :=
      ⟨fun o ho => h.1 o (List.mem_cons_of_mem _ ho), fun a ha b hb o ho => h.2 a ha b hb o (List.mem_cons_of_mem _ ho)⟩
    have ih := compareDocuments_spre rest ds hrest
    have hk := keyCmp_spre f ds (fun a ha b hb => h.2 a ha b hb (f, dir) (by simp))
    have hd : dir = 1 ∨ dir = -1 := h.1 (f, dir) (by simp)
    have : (fun a b : Doc => compareDocuments a b ((f, dir) :: rest)) =
        fun a b => if keyCmp f a b = 0 then compareDocuments a b rest else keyCmp f a b * dir := by
      funext a b; exact compareDocuments_cons a b f dir rest
    rw [this]
    exact spre_lex _ _ _ dir hd hk ih

/-- sign antisymmetry of `compareDocuments` on the domain -/
theorem compareDocuments_antisymm (opts : List (Bytes × Int)) (ds : List Doc) (h : SortDom opts ds)
    (a b : Doc) (ha : a ∈ ds) (hb : b ∈ ds) : compareDocuments a b opts = - compareDocuments b a opts :=
  (compareDocuments_spre opts ds h).1 a b ha hb

theorem compareDocuments_refl (opts : List (Bytes × Int)) (ds : List Doc) (h : SortDom opts ds)
    (a : Doc) (ha : a ∈ ds) : compareDocuments a a opts = 0 := by
  have := compareDocuments_antisymm opts ds h a a ha ha
  omega

/-- totality -/
theorem compareDocuments_total (opts : List (Bytes × Int)) (ds : List Doc) (h : SortDom opts ds)
    (a b : Doc) (ha : a ∈ ds) (hb : b ∈ ds) :
    compareDocuments a b opts ≤ 0 ∨ compareDocuments b a opts ≤ 0 := by
  have := compareDocuments_antisymm opts ds h a b ha hb
  omega

/-- transitivity -/
theorem compareDocuments_trans (opts : List (Bytes × Int)) (ds : List Doc) (h : SortDom opts ds)
    (a b c : Doc) (ha : a ∈ ds) (hb : b ∈ ds) (hc : c ∈ ds) :
    compareDocuments a b opts ≤ 0 → compareDocuments b c opts ≤ 0 → compareDocuments a c opts ≤ 0 :=
  (compareDocuments_spre opts ds h).2 a b c ha hb hc

/-- three-way transitivity on the sign: strictness is inherited from either side -/
theorem compareDocuments_trans_lt (opts : List (Bytes × Int)) (ds : List Doc) (h : SortDom opts ds)
    (a b c : Doc) (ha : a ∈ ds) (hb : b ∈ ds) (hc : c ∈ ds)
    (h1 : compareDocuments a b opts ≤ 0) (h2 : compareDocuments b c opts ≤ 0)
    (hlt : compareDocuments a b opts < 0 ∨ compareDocuments b c opts < 0) : compareDocuments a c opts < 0 := by
  have hle := compareDocuments_trans opts ds h a b c ha hb hc h1 h2
  have e1 := compareDocuments_antisymm opts ds h a c ha hc
  have e2 := compareDocuments_antisymm opts ds h a b ha hb
  have e3 := compareDocuments_antisymm opts ds h b c hb hc
  have t1 := compareDocuments_trans opts ds h c a b hc ha hb
  have t2 := compareDocuments_trans opts ds h b c a hb hc ha
  omega

/-! ## 2. the sort node sorts -/

/-- `List.pairwise_mergeSort` with the order laws required on the elements of the list only
    (`mergeSort` compares nothing else): sort the list of its elements-with-membership-proof. -/
theorem pairwise_mergeSort_of_mem {α : Type} (le : α → α → Bool) (l : List α)
    (trans : ∀ a ∈ l, ∀ b ∈ l, ∀ c ∈ l, le a b = true → le b c = true → le a c = true)
    (total : ∀ a ∈ l, ∀ b ∈ l, (le a b || le b a) = true) :
    (l.mergeSort le).Pairwise (fun a b => le a b = true) := by
  have h := List.map_mergeSort (r := fun a b : {x // x ∈ l} => le a.1 b.1) (s := le) (f := Subtype.val)
    (l := l.attach) (fun _ _ _ _ => rfl)
  rw [List.attach_map_subtype_val] at h
  rw [← h]
  apply List.pairwise_map.2
  exact List.pairwise_mergeSort (le := fun a b : {x // x ∈ l} => le a.1 b.1)
    (fun a b c => trans a.1 a.2 b.1 b.2 c.1 c.2) (fun a b => total a.1 a.2 b.1 b.2) l.attach

/-- **The in-memory sort node returns a sorted list** (with `sort_perm`: a sorted permutation). -/
theorem sortDocs_sorted (opts : List (Bytes × Int)) (ds : List Doc) (h : SortDom opts ds) :
    (sortDocs opts ds).Pairwise (fun a b => compareDocuments a b opts ≤ 0) := by
  have := pairwise_mergeSort_of_mem (fun a b : Doc => decide (compareDocuments a b opts ≤ 0)) ds
    (by
      intro a ha b hb c hc h1 h2
      simp only [decide_eq_true_eq] at h1 h2 ⊢
      exact compareDocuments_trans opts ds h a b c ha hb hc h1 h2)
    (by
      intro a ha b hb
      simp only [Bool.or_eq_true, decide_eq_true_eq]
      exact compareDocuments_total opts ds h a b ha hb)
  unfold sortDocs
  exact this.imp (fun h => by simpa using h)

/-! ## 3. windows keep order; the answer of a plan with the sort node is sorted -/

theorem window_sublist (skip : Nat) (limit : Int) (l : List Doc) : (Spec.window skip limit l).Sublist l := by
  unfold Spec.window
  split
  · exact List.drop_sublist _ _
  · exact (List.take_sublist _ _).trans (List.drop_sublist _ _)

/-- a skip/limit window of a sorted list is sorted (any relation) -/
theorem window_sorted (R : Doc → Doc → Prop) (skip : Nat) (limit : Int) (l : List Doc) (h : l.Pairwise R) :
    (Spec.window skip limit l).Pairwise R :=
  h.sublist (window_sublist skip limit l)

/-- the filtered candidates of any plan are matching live documents of the collection -/
theorem filtered_candidates_mem (s : Spec.State) (σ : KVS) (hw : WF s) (hr : Rep s σ) (q : Query)
    (coll : Spec.Coll) (hl : Spec.lookup q.coll s = some coll) :
    ∀ d ∈ (candidates σ q.coll (coll.docs.map (·.2)) (choosePlan coll.indexes q).1).filter
        (fun d => satOpt likeFn fnFam d q.crit),
      d ∈ (coll.docs.map (·.2)).filter (fun d => satOpt likeFn fnFam d q.crit) := by
  intro d hd
  have hlive := candidates_live s σ hw hr q.coll coll hl (choosePlan coll.indexes q).1 (choosePlan_fieldIn coll.indexes q)
  simp only at hlive
  obtain ⟨hc, hsat⟩ := List.mem_filter.1 hd
  have hld := hlive.1 d hc
  exact List.mem_filter.2 ⟨List.mem_map.2 ⟨(d.objectId, d), lookup_some_mem _ _ _ hld, rfl⟩, hsat⟩

/-- **The answer of a fault-free `FindAll` whose plan keeps the sort node is sorted** by
    `compareDocuments · · q.sort`, for every index set, every criteria and every skip/limit window;
    domain: the sort directions are ±1 and the matching live documents are pairwise comparable by
    value on the sort keys. -/
theorem findAll_sorted (s : Spec.State) (σ : KVS) (hw : WF s) (hr : Rep s σ) (q : Query)
    (coll : Spec.Coll) (hl : Spec.lookup q.coll s = some coll)
    (hns : needSort q (choosePlan coll.indexes q).2 = true)
    (hdom : SortDom q.sort ((coll.docs.map (·.2)).filter (fun d => satOpt likeFn fnFam d q.crit))) :
    ∃ res, (withTx false (Op.body likeFn fnFam (.findAll q)) noFault σ).1 = .ok (.docs res) ∧
      res.Pairwise (fun a b => compareDocuments a b q.sort ≤ 0) := by
  refine ⟨_, findAll_run_any_plan likeFn fnFam s σ hw hr q coll hl, ?_⟩
  apply window_sorted
  simp only [hns, if_true]
  exact sortDocs_sorted q.sort _
    (sortDom_mono q.sort _ _ (filtered_candidates_mem likeFn fnFam s σ hw hr q coll hl) hdom)

/-! ## 4. index order -/

/-- index order on the field `f`: ascending by exact value, descending for a reverse scan -/
def idxOrd (f : Bytes) (rev : Bool) (a b : Doc) : Prop :=
  if rev = true then cmp nkey (a.get f) (b.get f) ≥ 0 else cmp nkey (a.get f) (b.get f) ≤ 0

theorem idxOrd_fwd (f : Bytes) (a b : Doc) : idxOrd f false a b ↔ cmp nkey (a.get f) (b.get f) ≤ 0 := by
  simp [idxOrd]
theorem idxOrd_rev (f : Bytes) (a b : Doc) : idxOrd f true a b ↔ cmp nkey (a.get f) (b.get f) ≥ 0 := by
  simp [idxOrd]

/-- fetching the documents of a list of entries keeps the order of the entries' values, when the
    document fetched for an entry carries the entry's value -/
theorem fetch_order (w : KVS) (c f : Bytes) (R : Value → Value → Prop) : (L : List IEntry) →
    (∀ x ∈ L, ∃ d, docAt w c x.2 = some d ∧ d.get f = x.1) → L.Pairwise (fun x y => R x.1 y.1) →
    ((L.map (·.2)).filterMap (docAt w c)).Pairwise (fun a b => R (a.get f) (b.get f)) ∧
      ∀ d ∈ (L.map (·.2)).filterMap (docAt w c), ∃ x ∈ L, d.get f = x.1
  | [], _, _ => by simp
  | x :: t, hL, hp => by
    have hp' := List.pairwise_cons.1 hp
    have ih := fetch_order w c f R t (fun y hy => hL y (List.mem_cons_of_mem _ hy)) hp'.2
    obtain ⟨d, hda, hdv⟩ := hL x (by simp)
    simp only [List.map, List.filterMap, hda]
    constructor
    · refine List.pairwise_cons.2 ⟨?_, ih.1⟩
      intro d' hd'
      obtain ⟨y, hy, e⟩ := ih.2 d' hd'
      rw [hdv, e]
      exact hp'.1 y hy
    · intro d' hd'
      rcases List.mem_cons.1 hd' with h | h
      · exact ⟨x, by simp, by rw [h]; exact hdv⟩
      · obtain ⟨y, hy, e⟩ := ih.2 d' h
        exact ⟨y, List.mem_cons_of_mem _ hy, e⟩

/-- the entries of the block of a catalogued index fetch the documents they were made from -/
theorem block_entries_fetch (s : Spec.State) (w : KVS) (hw : WF s) (hr : Rep s w) (c : Bytes) (coll : Spec.Coll)
    (hl : Spec.lookup c s = some coll) (f : Bytes) (E : List IEntry)
    (hperm : E.Perm (coll.docs.map (fun e => (e.2.get f, e.1)))) :
    ∀ x ∈ E, ∃ d, docAt w c x.2 = some d ∧ d.get f = x.1 := by
  obtain ⟨_, hcw⟩ := wf_lookup_clean s hw c coll hl
  intro x hx
  obtain ⟨e, he, ex⟩ := List.mem_map.1 (hperm.mem_iff.1 hx)
  have hld : Spec.lookup e.1 coll.docs = some e.2 := mem_lookup_some e.1 e.2 _ hcw.idsDistinct he
  have hda := docAt_live s w hw hr c coll hl e.1 e.2 hld
  rw [← ex]
  exact ⟨e.2, hda, rfl⟩

/-- entries in value order, fetched forwards or backwards, give documents in index order -/
theorem fetch_idxOrd (w : KVS) (c f : Bytes) (E : List IEntry) (hs : E.Pairwise (Pl.leE vord))
    (hfetch : ∀ x ∈ E, ∃ d, docAt w c x.2 = some d ∧ d.get f = x.1) (rev : Bool) :
    (((if rev = true then E.reverse else E).map (·.2)).filterMap (docAt w c)).Pairwise (idxOrd f rev) := by
  cases rev with
  | false =>
    simp only [Bool.false_eq_true, if_false]
    have := (fetch_order w c f (fun u v => cmp nkey u v ≤ 0) E hfetch hs).1
    exact this.imp (fun h => (idxOrd_fwd f _ _).2 h)
  | true =>
    simp only [if_true]
    have hrev : E.reverse.Pairwise (fun x y => cmp nkey x.1 y.1 ≥ 0) := by
      rw [List.pairwise_reverse]
      refine hs.imp ?_
      intro a b h
      have h' : cmp nkey a.1 b.1 ≤ 0 := h
      have := cmp_antisymm nkey b.1 a.1
      omega
    have := (fetch_order w c f (fun u v => cmp nkey u v ≥ 0) E.reverse
      (fun x hx => hfetch x (List.mem_reverse.1 hx)) hrev).1
    exact this.imp (fun h => (idxOrd_rev f _ _).2 h)

/-- **A full iteration of a catalogued index hands over the documents in index order** -/
theorem idxAll_order (s : Spec.State) (w : KVS) (hw : WF s) (hr : Rep s w) (c : Bytes) (coll : Spec.Coll)
    (hl : Spec.lookup c s = some coll) (f : Bytes) (hf : f ∈ coll.indexes)
    (hdom : ∀ e ∈ coll.docs, Dom numOK (e.2.get f)) (rev : Bool) :
    (candidates w c (coll.docs.map (·.2)) (.idxAll f rev)).Pairwise (idxOrd f rev) := by
  obtain ⟨pre, post, E, hdec, hpre, hpost, hE, hsorted, hperm⟩ := store_shape s w hw hr c coll hl f hf hdom
  have hids : iterateAllP w c f rev = (if rev = true then E.reverse else E).map (·.2) := by
    rw [hdec]; exact iterateAllP_exact c f pre post E hpre hpost hE rev
  simp only [candidates, hids]
  exact fetch_idxOrd w c f E hsorted (block_entries_fetch s w hw hr c coll hl f E hperm) rev

/-- **A range scan of a catalogued index hands over the documents in index order** -/
theorem idxRange_order (s : Spec.State) (w : KVS) (hw : WF s) (hr : Rep s w) (c : Bytes) (coll : Spec.Coll)
    (hl : Spec.lookup c s = some coll) (f : Bytes) (hf : f ∈ coll.indexes)
    (hdom : ∀ e ∈ coll.docs, Dom numOK (e.2.get f)) (r : Range) (hrs : Dom numOK r.start) (hre : Dom numOK r.stop)
    (rev : Bool) :
    (candidates w c (coll.docs.map (·.2)) (.idxRange f r rev)).Pairwise (idxOrd f rev) := by
  obtain ⟨pre, post, E, hdec, hpre, hpost, hE, hsorted, hperm⟩ := store_shape s w hw hr c coll hl f hf hdom
  have hids : iterateRangeP w c f r rev =
      (if rev = true then (E.filter (fun e => Pl.inScan vord r.abs e.1)).reverse
       else E.filter (fun e => Pl.inScan vord r.abs e.1)).map (·.2) := by
    rw [hdec]
    cases rev with
    | false =>
      rw [iterateRangeP_fwd c f pre post E r hpre hpost hE hrs hre, Pl.scanFwd_exact vord r.abs E hsorted]
      rfl
    | true =>
      rw [iterateRangeP_rev c f pre post E r hpre hpost hE hrs hre hsorted, Pl.scanRev_exact vord r.abs E hsorted]
      rfl
  simp only [candidates, hids]
  have hfetch := block_entries_fetch s w hw hr c coll hl f E hperm
  exact fetch_idxOrd w c f (E.filter (fun e => Pl.inScan vord r.abs e.1)) (hsorted.sublist List.filter_sublist)
    (fun x hx => hfetch x (List.mem_filter.1 hx).1) rev

/-- a range-scan plan comes from the index query of the criteria -/
theorem choosePlan_idxRange (idxs : List Bytes) (q : Query) (f : Bytes) (r : Range) (rev : Bool)
    (h : (choosePlan idxs q).1 = .idxRange f r rev) : indexQuery idxs q.crit = some (f, r) := by
  unfold choosePlan at h
  cases hq : indexQuery idxs q.crit with
  | some p =>
    obtain ⟨g, r'⟩ := p
    rw [hq] at h
    simp only at h
    split at h
    · split at h <;> (simp only [Source.idxRange.injEq] at h; rw [h.1, h.2.1])
    · simp only [Source.idxRange.injEq] at h; rw [h.1, h.2.1]
  | none =>
    rw [hq] at h
    simp only at h
    split at h
    · split at h <;> simp at h
    · simp at h

/-- the sort node is elided only for a single sort key served by the scanned index, scanned in
    the direction the sort asks for -/
theorem choosePlan_sorted (idxs : List Bytes) (q : Query) (h : (choosePlan idxs q).2 = true) :
    ∃ f dir, q.sort = [(f, dir)] ∧
      ((choosePlan idxs q).1 = .idxAll f (decide (dir < 0)) ∨
        ∃ r, (choosePlan idxs q).1 = .idxRange f r (decide (dir < 0))) := by
  unfold choosePlan at h ⊢
  cases hq : indexQuery idxs q.crit with
  | some p =>
    obtain ⟨g, r⟩ := p
    rw [hq] at h
    simp only at h ⊢
    cases hs : q.sort with
    | nil => rw [hs] at h; simp at h
    | cons o t =>
      obtain ⟨sf, dir⟩ := o
      cases t with
      | cons o' t' => rw [hs] at h; simp at h
      | nil =>
        rw [hs] at h
        simp only at h ⊢
        by_cases e : sf = g
        · refine ⟨sf, dir, rfl, Or.inr ⟨r, ?_⟩⟩
          simp [e]
        · simp [e] at h
  | none =>
    rw [hq] at h
    simp only at h ⊢
    cases hs : q.sort with
    | nil => rw [hs] at h; simp at h
    | cons o t =>
      obtain ⟨sf, dir⟩ := o
      cases t with
      | cons o' t' => rw [hs] at h; simp at h
      | nil =>
        rw [hs] at h
        simp only at h ⊢
        by_cases e : idxs.contains sf = true
        · refine ⟨sf, dir, rfl, Or.inl ?_⟩
          simp only [e, if_true]
        · rw [if_neg e] at h; simp at h

/-- the filtered candidates of an index-scan plan are in index order -/
theorem filtered_index_order (s : Spec.State) (σ : KVS) (hw : WF s) (hr : Rep s σ) (q : Query)
    (coll : Spec.Coll) (hl : Spec.lookup q.coll s = some coll) (f : Bytes) (rev : Bool)
    (hsrc : (choosePlan coll.indexes q).1 = .idxAll f rev ∨ ∃ r, (choosePlan coll.indexes q).1 = .idxRange f r rev)
    (hdom : ∀ e ∈ coll.docs, Dom numOK (e.2.get f))
    (hcrit : ∀ cr, q.crit = some cr → CritDom cr) :
    ((candidates σ q.coll (coll.docs.map (·.2)) (choosePlan coll.indexes q).1).filter
      (fun d => satOpt likeFn fnFam d q.crit)).Pairwise (idxOrd f rev) := by
  apply List.Pairwise.sublist List.filter_sublist
  have hfi := choosePlan_fieldIn coll.indexes q
  rcases hsrc with h | ⟨r, h⟩
  · rw [h] at hfi ⊢
    exact idxAll_order s σ hw hr q.coll coll hl f hfi hdom rev
  · obtain ⟨hrs, hre⟩ := indexQuery_dom coll.indexes q.crit hcrit f r (choosePlan_idxRange _ _ _ _ _ h)
    rw [h] at hfi ⊢
    exact idxRange_order s σ hw hr q.coll coll hl f hfi hdom r hrs hre rev

/-- **The answer of a fault-free `FindAll` fed by an index scan without a sort node comes in index
    order** (filter and window keep the order of the scan); domain: indexed values and criteria
    literals in the key domain. -/
theorem findAll_index_order (s : Spec.State) (σ : KVS) (hw : WF s) (hr : Rep s σ) (q : Query)
    (coll : Spec.Coll) (hl : Spec.lookup q.coll s = some coll) (f : Bytes) (rev : Bool)
    (hsrc : (choosePlan coll.indexes q).1 = .idxAll f rev ∨ ∃ r, (choosePlan coll.indexes q).1 = .idxRange f r rev)
    (hns : needSort q (choosePlan coll.indexes q).2 = false)
    (hdom : ∀ e ∈ coll.docs, Dom numOK (e.2.get f))
    (hcrit : ∀ cr, q.crit = some cr → CritDom cr) :
    ∃ res, (withTx false (Op.body likeFn fnFam (.findAll q)) noFault σ).1 = .ok (.docs res) ∧
      res.Pairwise (idxOrd f rev) := by
  refine ⟨_, findAll_run_any_plan likeFn fnFam s σ hw hr q coll hl, ?_⟩
  apply window_sorted
  simp only [hns, Bool.false_eq_true, if_false]
  exact filtered_index_order likeFn fnFam s σ hw hr q coll hl f rev hsrc hdom hcrit

/-- **Elided sort node**: when the planner serves the (single) sort key from an index, the answer
    is in the order of that key's values — ascending for direction 1, descending for direction -1 —
    for every criteria and every skip/limit window. -/
theorem findAll_sort_by_index (s : Spec.State) (σ : KVS) (hw : WF s) (hr : Rep s σ) (q : Query)
    (coll : Spec.Coll) (hl : Spec.lookup q.coll s = some coll)
    (hsorted : (choosePlan coll.indexes q).2 = true)
    (hdom : ∀ f ∈ coll.indexes, ∀ e ∈ coll.docs, Dom numOK (e.2.get f))
    (hcrit : ∀ cr, q.crit = some cr → CritDom cr) :
    ∃ f dir res, q.sort = [(f, dir)] ∧
      (withTx false (Op.body likeFn fnFam (.findAll q)) noFault σ).1 = .ok (.docs res) ∧
      res.Pairwise (idxOrd f (decide (dir < 0))) := by
  obtain ⟨f, dir, hs, hsrc⟩ := choosePlan_sorted coll.indexes q hsorted
  have hns : needSort q (choosePlan coll.indexes q).2 = false := by simp [needSort, hsorted]
  have hf : f ∈ coll.indexes := by
    have hfi := choosePlan_fieldIn coll.indexes q
    rcases hsrc with h | ⟨r, h⟩ <;> (rw [h] at hfi; exact hfi)
  obtain ⟨res, hres, hord⟩ := findAll_index_order likeFn fnFam s σ hw hr q coll hl f (decide (dir < 0)) hsrc hns
    (hdom f hf) hcrit
  exact ⟨f, dir, res, hs, hres, hord⟩

/-! ## index order versus the comparator of the sort node

`compareDocuments` puts a document WITHOUT the field strictly before one whose field is present and
nil; the index keeps the two together (both are indexed under nil, ties broken by id).  Apart from
that one tie class the two orders agree: -/

theorem get_of_not_has (d : Doc) (f : Bytes) (h : d.has f = false) : d.get f = .null := by
  unfold Doc.has at h
  unfold Doc.get
  cases hg : getPath d (splitDots f) with
  | none => rfl
  | some v => rw [hg] at h; simp at h

/-- a pair in index order is in the order of the sort node's comparator, unless one document lacks
    the field and the other carries an explicit nil -/
theorem compareDocuments_of_idxOrd (f : Bytes) (dir : Int) (a b : Doc) (hd : dir = 1 ∨ dir = -1)
    (hp : PairDom (a.get f) (b.get f))
    (hnn : a.has f = b.has f ∨ ((a.has f = true → a.get f ≠ .null) ∧ (b.has f = true → b.get f ≠ .null)))
    (h : idxOrd f (decide (dir < 0)) a b) : compareDocuments a b [(f, dir)] ≤ 0 := by
  rw [compareDocuments_cons]
  simp only [compareDocuments]
  have anti := cmp_antisymm nkey (a.get f) (b.get f)
  by_cases hA : a.has f = true <;> by_cases hB : b.has f = true
  · have hk : keyCmp f a b = cmp nkey (a.get f) (b.get f) := by
      rw [← goCmp_eq _ _ hp]; simp [keyCmp, hA, hB]
    rw [hk]
    rcases hd with rfl | rfl
    · have h' := (idxOrd_fwd f a b).1 (by simpa using h)
      split <;> omega
    · have h' := (idxOrd_rev f a b).1 (by simpa using h)
      split <;> omega
  · have hB' : b.has f = false := by simpa using hB
    have hk : keyCmp f a b = 1 := by simp [keyCmp, hA, hB']
    rw [hk]
    rcases hd with rfl | rfl
    · exfalso
      have h' := (idxOrd_fwd f a b).1 (by simpa using h)
      rw [get_of_not_has b f hB'] at h' anti
      have := cmp_null_left (a.get f)
      have hz : cmp nkey (a.get f) .null = 0 := by omega
      have hnull := cmp_null_right_eq _ hz
      rcases hnn with e | e
      · rw [hA, hB'] at e; simp at e
      · exact e.1 hA hnull
    · simp
  · have hA' : a.has f = false := by simpa using hA
    have hk : keyCmp f a b = -1 := by simp [keyCmp, hA', hB]
    rw [hk]
    rcases hd with rfl | rfl
    · simp
    · exfalso
      have h' := (idxOrd_rev f a b).1 (by simpa using h)
      rw [get_of_not_has a f hA'] at h' anti
      have := cmp_null_left (b.get f)
      have hz : cmp nkey (b.get f) .null = 0 := by omega
      have hnull := cmp_null_right_eq _ hz
      rcases hnn with e | e
      · rw [hA', hB] at e; simp at e
      · exact e.2 hB hnull
  · have hA' : a.has f = false := by simpa using hA
    have hB' : b.has f = false := by simpa using hB
    have hk : keyCmp f a b = 0 := by simp [keyCmp, hA', hB']
    rw [hk]; simp

/-- **Elided sort node, in terms of the sort node's comparator**: when the planner serves the sort
    from an index and no live document carries an explicit nil under the sort key (the one tie class
    on which index order and `compareDocuments` differ), the answer is sorted by
    `compareDocuments · · q.sort` exactly as if the sort node had run. -/
theorem findAll_sorted_by_index (s : Spec.State) (σ : KVS) (hw : WF s) (hr : Rep s σ) (q : Query)
    (coll : Spec.Coll) (hl : Spec.lookup q.coll s = some coll)
    (hsorted : (choosePlan coll.indexes q).2 = true)
    (hdir : ∀ o ∈ q.sort, o.2 = 1 ∨ o.2 = -1)
    (hdom : ∀ f ∈ coll.indexes, ∀ e ∈ coll.docs, Dom numOK (e.2.get f))
    (hcrit : ∀ cr, q.crit = some cr → CritDom cr)
    (hnn : ∀ o ∈ q.sort, ∀ e ∈ coll.docs, e.2.has o.1 = true → e.2.get o.1 ≠ .null) :
    ∃ res, (withTx false (Op.body likeFn fnFam (.findAll q)) noFault σ).1 = .ok (.docs res) ∧
      res.Pairwise (fun a b => compareDocuments a b q.sort ≤ 0) := by
  obtain ⟨f, dir, hs, hsrc⟩ := choosePlan_sorted coll.indexes q hsorted
  have hns : needSort q (choosePlan coll.indexes q).2 = false := by simp [needSort, hsorted]
  have hf : f ∈ coll.indexes := by
    have hfi := choosePlan_fieldIn coll.indexes q
    rcases hsrc with h | ⟨r, h⟩ <;> (rw [h] at hfi; exact hfi)
  refine ⟨_, findAll_run_any_plan likeFn fnFam s σ hw hr q coll hl, ?_⟩
  apply window_sorted
  simp only [hns, Bool.false_eq_true, if_false]
  have hord := filtered_index_order likeFn fnFam s σ hw hr q coll hl f (decide (dir < 0)) hsrc (hdom f hf) hcrit
  have hmem := filtered_candidates_mem likeFn fnFam s σ hw hr q coll hl
  have hlive : ∀ d ∈ (candidates σ q.coll (coll.docs.map (·.2)) (choosePlan coll.indexes q).1).filter
      (fun d => satOpt likeFn fnFam d q.crit), ∃ e ∈ coll.docs, e.2 = d := by
    intro d hd
    exact List.mem_map.1 (List.mem_filter.1 (hmem d hd)).1
  rw [hs]
  refine hord.imp_of_mem ?_
  intro a b ha hb h
  obtain ⟨ea, hea, eqa⟩ := hlive a ha
  obtain ⟨eb, heb, eqb⟩ := hlive b hb
  have hda := hdom f hf ea hea
  have hdb := hdom f hf eb heb
  rw [eqa] at hda
  rw [eqb] at hdb
  have hna := hnn (f, dir) (by rw [hs]; simp) ea hea
  have hnb := hnn (f, dir) (by rw [hs]; simp) eb heb
  rw [eqa] at hna
  rw [eqb] at hnb
  exact compareDocuments_of_idxOrd f dir a b (hdir (f, dir) (by rw [hs]; simp))
    (Or.inr ⟨dom_numsOK _ hda, dom_numsOK _ hdb⟩) (Or.inr ⟨hna, hnb⟩) h

end CV
