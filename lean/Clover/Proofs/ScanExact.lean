import Clover.Proofs.ScanRun
import Clover.Proofs.PlannerModel
import Clover.Probe.Scan
import Clover.Probe.ScanRev
import Clover.Probe.EntryBridge
/-! # The model's `IterateRange` over an index block yields exactly the in-range entries, in order

The byte-level cursor steps of `iterateRangeP` on a store `pre ++ block ++ post`, where `block`
holds the entries `idxPrefix ‖ key(v) ‖ id` of one index, are the value-level steps of
`Pl.scanFwd / Pl.scanRev`, which are filters (`scanFwd_exact`, `scanRev_exact`). -/
namespace CV
open OC
open Keys (isPrefix)

/-! ## list helpers -/

theorem dropWhile_append_stop {α} (p : α → Bool) : (b c : List α) → (∀ x ∈ c, p x = false) →
    (b ++ c).dropWhile p = b.dropWhile p ++ c
  | [], c, hc => by
    cases c with
    | nil => rfl
    | cons x xs => simp [List.dropWhile, hc x (by simp)]
  | y :: b, c, hc => by
    simp only [List.cons_append, List.dropWhile]
    cases p y with
    | true => exact dropWhile_append_stop p b c hc
    | false => rfl

theorem dropWhile_all {α} (p : α → Bool) : (a rest : List α) → (∀ x ∈ a, p x = true) →
    (a ++ rest).dropWhile p = rest.dropWhile p
  | [], _, _ => rfl
  | y :: a, rest, ha => by
    simp only [List.cons_append, List.dropWhile, ha y (by simp)]
    exact dropWhile_all p a rest (fun x hx => ha x (by simp [hx]))

theorem takeWhile_append_stop {α} (p : α → Bool) : (b c : List α) → (∀ x ∈ c, p x = false) →
    (b ++ c).takeWhile p = b.takeWhile p
  | [], c, hc => by
    cases c with
    | nil => rfl
    | cons x xs => simp [List.takeWhile, hc x (by simp)]
  | y :: b, c, hc => by
    simp only [List.cons_append, List.takeWhile]
    cases p y with
    | true => rw [takeWhile_append_stop p b c hc]
    | false => rfl

theorem takeWhile_all {α} (p : α → Bool) : (a rest : List α) → (∀ x ∈ a, p x = true) →
    (a ++ rest).takeWhile p = a ++ rest.takeWhile p
  | [], _, _ => rfl
  | y :: a, rest, ha => by
    simp only [List.cons_append, List.takeWhile, ha y (by simp)]
    rw [takeWhile_all p a rest (fun x hx => ha x (by simp [hx]))]

theorem takeWhile_congr {α} (p q : α → Bool) : (l : List α) → (∀ x ∈ l, p x = q x) →
    l.takeWhile p = l.takeWhile q
  | [], _ => rfl
  | a :: t, h => by
    have ha := h a (List.mem_cons_self ..)
    simp only [List.takeWhile, ha]
    cases q a with
    | true => rw [takeWhile_congr p q t (fun x hx => h x (List.mem_cons_of_mem _ hx))]
    | false => rfl

theorem dropWhile_map {α β} (f : α → β) (p : β → Bool) : (l : List α) →
    (l.map f).dropWhile p = (l.dropWhile (fun x => p (f x))).map f
  | [] => rfl
  | a :: t => by
    simp only [List.map, List.dropWhile]
    cases p (f a) with
    | true => exact dropWhile_map f p t
    | false => rfl

theorem takeWhile_map {α β} (f : α → β) (p : β → Bool) : (l : List α) →
    (l.map f).takeWhile p = (l.takeWhile (fun x => p (f x))).map f
  | [] => rfl
  | a :: t => by
    simp only [List.map, List.takeWhile]
    cases p (f a) with
    | true => simp [takeWhile_map f p t]
    | false => rfl

theorem mem_dropWhile {α} (p : α → Bool) (l : List α) (x : α) (h : x ∈ l.dropWhile p) : x ∈ l :=
  (List.dropWhile_sublist p).subset h

/-! ## byte-order helpers -/

theorem cmpB_pos_iff : (x y : Bytes) → (cmpB x y > 0 ↔ lexLt y x = true)
  | [], [] => by simp [cmpB, lexLt]
  | [], _ :: _ => by simp [cmpB, lexLt]
  | _ :: _, [] => by simp [cmpB, lexLt]
  | a :: as, b :: bs => by
    simp only [cmpB, lexLt, Bool.or_eq_true, decide_eq_true_eq, Bool.and_eq_true, beq_iff_eq]
    by_cases h1 : a < b
    · have : ¬ b < a := fun h => by
        rw [UInt8.lt_iff_toNat_lt] at h h1; omega
      have hne : b ≠ a := fun e => by subst e; exact UInt8.lt_irrefl _ h1
      simp [h1, this, hne]
    · by_cases h2 : b < a
      · simp [h1, h2]
      · have : a = b := by
          apply UInt8.toNat_inj.1
          rw [UInt8.lt_iff_toNat_lt] at h1 h2; omega
        subst this
        simp [h1, cmpB_pos_iff as bs]

theorem cmpB_zero_iff : (x y : Bytes) → (cmpB x y = 0 ↔ x = y)
  | [], [] => by simp [cmpB]
  | [], _ :: _ => by simp [cmpB]
  | _ :: _, [] => by simp [cmpB]
  | a :: as, b :: bs => by
    simp only [cmpB]
    by_cases h1 : a < b
    · have hne : a ≠ b := fun e => by subst e; exact UInt8.lt_irrefl _ h1
      simp [h1, hne]
    · by_cases h2 : b < a
      · have hne : a ≠ b := fun e => by subst e; exact UInt8.lt_irrefl _ h2
        simp [h1, h2, hne]
      · have : a = b := by
          apply UInt8.toNat_inj.1
          rw [UInt8.lt_iff_toNat_lt] at h1 h2; omega
        subst this
        simp [h1, cmpB_zero_iff as bs]

/-! ## the index block -/

variable (c f : Bytes)

/-- an index entry: (indexed value, document id) -/
abbrev IEntry := Value × Bytes

def ekey (e : IEntry) : Bytes := idxKey c f e.1 e.2
def block (E : List IEntry) : KVS := E.map (fun e => (ekey c f e, SVal.unit))

/-- document ids are 36 bytes none of which is 0xFF (canonical UUID text) -/
def IdOK (id : Bytes) : Prop := id.length = 36 ∧ ∀ b ∈ id, b ≠ 255

theorem ekey_entry (e : IEntry) : ekey c f e = entryKey (Keys.idxPrefix c f) e.1 e.2 := rfl
theorem bkey_bound (v : Value) : rangeBoundKey c f v = boundKey (Keys.idxPrefix c f) v := rfl

theorem stripId_ekey (e : IEntry) (h : e.2.length = 36) : stripId (ekey c f e) = rangeBoundKey c f e.1 := by
  unfold stripId ekey idxKey rangeBoundKey
  rw [← List.append_assoc]
  have : (Keys.idxPrefix c f ++ goKeyTail e.1 ++ e.2).length - 36 = (Keys.idxPrefix c f ++ goKeyTail e.1).length := by
    simp [h]; omega
  rw [this, List.take_left]

theorem extractId_ekey (e : IEntry) (h : e.2.length = 36) : extractId (ekey c f e) = e.2 := by
  unfold extractId ekey idxKey
  rw [← List.append_assoc]
  have : (Keys.idxPrefix c f ++ goKeyTail e.1 ++ e.2).length - 36 = (Keys.idxPrefix c f ++ goKeyTail e.1).length := by
    simp [h]; omega
  rw [this, List.drop_left]

theorem isPrefix_pfx_ekey (e : IEntry) : isPrefix (Keys.idxPrefix c f) (ekey c f e) = true :=
  Keys.isPrefix_append _ _

end CV

namespace CV
open OC
open Keys (isPrefix)

section scan
variable (c f : Bytes) (pre post : KVS) (E : List IEntry) (r : Range)
variable (hpre : ∀ e ∈ pre, ∀ t, lexLt e.1 (Keys.idxPrefix c f ++ t) = true)
variable (hpost : ∀ e ∈ post, ∀ t, lexLt (Keys.idxPrefix c f ++ t) e.1 = true)
variable (hE : ∀ e ∈ E, Dom numOK e.1 ∧ IdOK e.2)
variable (hrs : Dom numOK r.start) (hre : Dom numOK r.stop)

theorem lexLt_irrefl (t : Bytes) : lexLt t t = false := by simpa using lexLt_append_self t []

include hpost in
theorem post_no_prefix : ∀ e ∈ post, isPrefix (Keys.idxPrefix c f) e.1 = false := by
  intro e he
  cases h : isPrefix (Keys.idxPrefix c f) e.1 with
  | false => rfl
  | true =>
    obtain ⟨t, ht⟩ := (Keys.isPrefix_iff _ _).1 h
    have := hpost e he t
    rw [← ht, lexLt_irrefl] at this
    simp at this

include hpost in
theorem post_not_before (s : Bytes) : ∀ e ∈ post, lexLt e.1 (Keys.idxPrefix c f ++ s) = false := by
  intro e he
  exact lexLt_asymm _ _ (hpost e he s)

include hpre in
theorem pre_no_prefix : ∀ e ∈ pre, isPrefix (Keys.idxPrefix c f) e.1 = false := by
  intro e he
  cases h : isPrefix (Keys.idxPrefix c f) e.1 with
  | false => rfl
  | true =>
    obtain ⟨t, ht⟩ := (Keys.isPrefix_iff _ _).1 h
    have := hpre e he t
    rw [← ht, lexLt_irrefl] at this
    simp at this

theorem isPrefix_trans_false (p q k : Bytes) (h : isPrefix p k = false) : isPrefix (p ++ q) k = false := by
  cases h2 : isPrefix (p ++ q) k with
  | false => rfl
  | true =>
    obtain ⟨t, ht⟩ := (Keys.isPrefix_iff _ _).1 h2
    have : isPrefix p k = true := (Keys.isPrefix_iff _ _).2 ⟨q ++ t, by rw [ht, List.append_assoc]⟩
    simp [h] at this

include hpre hpost in
/-- the byte-level forward seek over `pre ++ block ++ post` lands inside the block -/
theorem seekFwd_block (s : Bytes) :
    seekFwd (pre ++ (block c f E ++ post)) (Keys.idxPrefix c f ++ s) =
      (E.dropWhile (fun e => lexLt (ekey c f e) (Keys.idxPrefix c f ++ s))).map (fun e => (ekey c f e, SVal.unit)) ++ post := by
  unfold seekFwd
  rw [dropWhile_all _ pre _ (fun e he => hpre e he s)]
  rw [dropWhile_append_stop _ _ post (fun e he => post_not_before c f post hpost s e he)]
  unfold block
  rw [dropWhile_map]


/-- the skip loop (entries equal to an excluded bound) stays inside the block -/
theorem skip_block' (T : KVS) (hT : ∀ e ∈ T, isPrefix (Keys.idxPrefix c f) e.1 = false) (b : Bytes) (E' : List IEntry) :
    skipEqP (Keys.idxPrefix c f ++ b) (E'.map (fun e => (ekey c f e, SVal.unit)) ++ T) =
      (E'.dropWhile (fun e => isPrefix (Keys.idxPrefix c f ++ b) (ekey c f e))).map (fun e => (ekey c f e, SVal.unit)) ++ T := by
  unfold skipEqP
  rw [dropWhile_append_stop _ _ T (fun e he => isPrefix_trans_false _ _ _ (hT e he))]
  rw [dropWhile_map]

include hpost in
theorem skip_block (b : Bytes) (E' : List IEntry) :
    skipEqP (Keys.idxPrefix c f ++ b) (E'.map (fun e => (ekey c f e, SVal.unit)) ++ post) =
      (E'.dropWhile (fun e => isPrefix (Keys.idxPrefix c f ++ b) (ekey c f e))).map (fun e => (ekey c f e, SVal.unit)) ++ post :=
  skip_block' c f post (post_no_prefix c f post hpost) b E'

/-- the main loop stops at the end of the block -/
theorem take_block' (T : KVS) (hT : ∀ e ∈ T, isPrefix (Keys.idxPrefix c f) e.1 = false)
    (stop : Bytes → Bool) (E' : List IEntry) (hE' : ∀ e ∈ E', e.2.length = 36) :
    scanP (Keys.idxPrefix c f) stop (E'.map (fun e => (ekey c f e, SVal.unit)) ++ T) =
      (E'.takeWhile (fun e => !stop (rangeBoundKey c f e.1))).map (·.2) := by
  unfold scanP
  rw [takeWhile_append_stop _ _ T (fun e he => by simp [hT e he])]
  rw [takeWhile_map, List.map_map]
  have hcongr : E'.takeWhile (fun x => isPrefix (Keys.idxPrefix c f) (ekey c f x, SVal.unit).1 && !stop (stripId (ekey c f x, SVal.unit).1))
      = E'.takeWhile (fun e => !stop (rangeBoundKey c f e.1)) := by
    apply takeWhile_congr
    intro e he
    simp only [isPrefix_pfx_ekey, Bool.true_and, stripId_ekey c f e (hE' e he)]
  rw [hcongr]
  apply List.map_congr_left
  intro e he
  have hmem : e ∈ E' := (List.takeWhile_sublist _).subset he
  simp only [Function.comp, extractId_ekey c f e (hE' e hmem)]

include hpost in
theorem take_block (stop : Bytes → Bool) (E' : List IEntry) (hE' : ∀ e ∈ E', e.2.length = 36) :
    scanP (Keys.idxPrefix c f) stop (E'.map (fun e => (ekey c f e, SVal.unit)) ++ post) =
      (E'.takeWhile (fun e => !stop (rangeBoundKey c f e.1))).map (·.2) :=
  take_block' c f post (post_no_prefix c f post hpost) stop E' hE'

theorem dropWhile_false {α} (l : List α) : l.dropWhile (fun _ => false) = l := by
  cases l <;> simp [List.dropWhile]

/-! ### byte-level tests are value-level tests -/

theorem isEmpty_abs (hrs : Dom numOK r.start) (hre : Dom numOK r.stop) : r.isEmpty = r.abs.isEmpty vord := by
  unfold Range.isEmpty Pl.Range.isEmpty Range.abs
  have hp : PairDom r.start r.stop := Or.inr ⟨dom_numsOK _ hrs, dom_numsOK _ hre⟩
  simp only [goCmp_eq _ _ hp]
  rfl

include hrs in
theorem pred_seek (e : IEntry) (he : Dom numOK e.1) :
    lexLt (ekey c f e) (rangeBoundKey c f r.start) = decide (vord.cmp e.1 r.start < 0) := by
  have := entry_before_bound (Keys.idxPrefix c f) e.1 r.start e.2 he hrs
  rw [ekey_entry, bkey_bound]
  cases h : lexLt (entryKey (Keys.idxPrefix c f) e.1 e.2) (boundKey (Keys.idxPrefix c f) r.start) with
  | true => have := this.1 h; simp [vord, this]
  | false =>
    have : ¬ cmp nkey e.1 r.start < 0 := fun hh => by have := this.2 hh; simp [h] at this
    simp [vord, this]

include hrs in
theorem pred_skip (e : IEntry) (he : Dom numOK e.1) :
    isPrefix (rangeBoundKey c f r.start) (ekey c f e) = (vord.cmp e.1 r.start == 0) := by
  have := entry_has_bound_prefix (Keys.idxPrefix c f) e.1 r.start e.2 he hrs
  rw [ekey_entry, bkey_bound]
  cases h : isPrefix (boundKey (Keys.idxPrefix c f) r.start) (entryKey (Keys.idxPrefix c f) e.1 e.2) with
  | true => have := this.1 h; simp [vord, this]
  | false =>
    have : ¬ cmp nkey e.1 r.start = 0 := fun hh => by have := this.2 hh; simp [h] at this
    simp [vord, this]

/-- sign of the bytewise comparison of two bound keys = sign of the value comparison -/
theorem cmpB_bound (v s : Value) (dv : Dom numOK v) (ds : Dom numOK s) :
    (cmpB (rangeBoundKey c f v) (rangeBoundKey c f s) > 0 ↔ cmp nkey v s > 0) ∧
    (cmpB (rangeBoundKey c f v) (rangeBoundKey c f s) = 0 ↔ cmp nkey v s = 0) ∧
    (cmpB (rangeBoundKey c f v) (rangeBoundKey c f s) < 0 ↔ cmp nkey v s < 0) := by
  have h1 := stripped_vs_bound (Keys.idxPrefix c f) v s dv ds
  have h2 := stripped_vs_bound (Keys.idxPrefix c f) s v ds dv
  have anti := cmp_antisymm nkey v s
  rw [bkey_bound, bkey_bound]
  have hpos := cmpB_pos_iff (boundKey (Keys.idxPrefix c f) v) (boundKey (Keys.idxPrefix c f) s)
  have hzero := cmpB_zero_iff (boundKey (Keys.idxPrefix c f) v) (boundKey (Keys.idxPrefix c f) s)
  have e1 : cmpB (boundKey (Keys.idxPrefix c f) v) (boundKey (Keys.idxPrefix c f) s) > 0 ↔ cmp nkey v s > 0 := by
    rw [hpos, h2.1]; omega
  have e2 : cmpB (boundKey (Keys.idxPrefix c f) v) (boundKey (Keys.idxPrefix c f) s) = 0 ↔ cmp nkey v s = 0 := by
    rw [hzero, h1.2]
  refine ⟨e1, e2, ?_⟩
  constructor
  · intro h
    rcases Int.lt_trichotomy (cmp nkey v s) 0 with h0 | h0 | h0
    · exact h0
    · have := e2.2 h0; omega
    · have := e1.2 h0; omega
  · intro h
    rcases Int.lt_trichotomy (cmpB (boundKey (Keys.idxPrefix c f) v) (boundKey (Keys.idxPrefix c f) s)) 0 with h0 | h0 | h0
    · exact h0
    · have := e2.1 h0; omega
    · have := e1.1 h0; omega


theorem abs_isNilR : r.abs.isNilR vord = r.isNilR := rfl

include hre in
theorem pred_stop (e : IEntry) (he : Dom numOK e.1) :
    (!boundTest (if (r.isNilR || !r.stop.isNull) = true then some (rangeBoundKey c f r.stop) else none)
        (!r.stop.isNull || r.isNilR) r.ei true (rangeBoundKey c f e.1)) =
    (!((!vord.isNil r.abs.stop || r.abs.isNilR vord) &&
        (decide (vord.cmp e.1 r.abs.stop > 0) || (vord.cmp e.1 r.abs.stop == 0 && !r.abs.ei)))) := by
  have hb := cmpB_bound c f e.1 r.stop he hre
  change _ = (!((!r.stop.isNull || r.isNilR) &&
        (decide (cmp nkey e.1 r.stop > 0) || (cmp nkey e.1 r.stop == 0 && !r.ei))))
  unfold boundTest
  by_cases hact : (!r.stop.isNull || r.isNilR) = true
  · have hact' : (r.isNilR || !r.stop.isNull) = true := by rw [Bool.or_comm]; exact hact
    simp only [hact, hact', if_true, Option.getD_some, Bool.true_and]
    by_cases h1 : cmp nkey e.1 r.stop > 0
    · have := hb.1.2 h1
      simp [h1, this]
    · by_cases h2 : cmp nkey e.1 r.stop = 0
      · have := hb.2.1.2 h2
        simp [h2, this]
      · have n1 : ¬ cmpB (rangeBoundKey c f e.1) (rangeBoundKey c f r.stop) > 0 := fun h => h1 (hb.1.1 h)
        have n2 : ¬ cmpB (rangeBoundKey c f e.1) (rangeBoundKey c f r.stop) = 0 := fun h => h2 (hb.2.1.1 h)
        have b1 : (cmpB (rangeBoundKey c f e.1) (rangeBoundKey c f r.stop) == 0) = false := by simpa using n2
        have b2 : (cmp nkey e.1 r.stop == 0) = false := by simpa using h2
        simp [h1, n1, b1, b2]
  · simp only [Bool.not_eq_true] at hact
    simp [hact]


theorem idOK_len (hE : ∀ e ∈ E, Dom numOK e.1 ∧ IdOK e.2) (E' : List IEntry) (hsub : ∀ e ∈ E', e ∈ E) :
    ∀ e ∈ E', e.2.length = 36 := fun e he => (hE e (hsub e he)).2.1

include hpre hpost hE hrs hre in
/-- forward `IterateRange` over the block = the value-level cursor steps of `Pl.scanFwd` -/
theorem iterateRangeP_fwd :
    iterateRangeP (pre ++ (block c f E ++ post)) c f r false = (Pl.scanFwd vord r.abs E).map (·.2) := by
  unfold iterateRangeP Pl.scanFwd
  rw [isEmpty_abs r hrs hre]
  by_cases hemp : r.abs.isEmpty vord = true
  · simp [hemp]
  · simp only [hemp, Bool.false_eq_true, if_false]
    simp only [rangePlan, Bool.not_false, if_true]
    change _ = List.map (fun x => x.snd)
      (List.takeWhile (fun e => !((!r.stop.isNull || r.isNilR) && (decide (cmp nkey e.1 r.stop > 0) || (cmp nkey e.1 r.stop == 0 && !r.ei))))
        (if (!r.start.isNull && !r.si) = true then
          List.dropWhile (fun e => cmp nkey e.1 r.start == 0)
            (if (!r.start.isNull || r.isNilR) = true then List.dropWhile (fun e => decide (cmp nkey e.1 r.start < 0)) E else E)
         else if (!r.start.isNull || r.isNilR) = true then List.dropWhile (fun e => decide (cmp nkey e.1 r.start < 0)) E else E))
    -- where the forward seek lands
    have hseek : seekFwd (pre ++ (block c f E ++ post))
        ((if (r.isNilR || !r.start.isNull) = true then some (rangeBoundKey c f r.start) else none).getD (Keys.idxPrefix c f))
        = (if (!r.start.isNull || r.isNilR) = true then List.dropWhile (fun e => decide (cmp nkey e.1 r.start < 0)) E else E).map
            (fun e => (ekey c f e, SVal.unit)) ++ post := by
      by_cases hs : (!r.start.isNull || r.isNilR) = true
      · have hs' : (r.isNilR || !r.start.isNull) = true := by rw [Bool.or_comm]; exact hs
        simp only [hs, hs', if_true, Option.getD_some]
        have : rangeBoundKey c f r.start = Keys.idxPrefix c f ++ goKeyTail r.start := rfl
        rw [this, seekFwd_block c f pre post E hpre hpost]
        congr 2
        apply Pl.dropWhile_congr
        intro e he
        rw [← this]
        exact pred_seek c f r hrs e (hE e he).1
      · have hs' : (r.isNilR || !r.start.isNull) = false := by
          rw [Bool.or_comm]; simpa using hs
        simp only [hs, hs', Bool.false_eq_true, if_false, Option.getD_none]
        have : Keys.idxPrefix c f = Keys.idxPrefix c f ++ [] := by simp
        rw [this, seekFwd_block c f pre post E hpre hpost]
        congr 2
        rw [Pl.dropWhile_congr _ (fun _ => false) E (fun e _ => by
          show lexLt (ekey c f e) (Keys.idxPrefix c f ++ []) = false
          rw [List.append_nil]; exact lexLt_append_self _ _)]
        exact dropWhile_false E
    rw [hseek]
    generalize hE1 : (if (!r.start.isNull || r.isNilR) = true then List.dropWhile (fun e => decide (cmp nkey e.1 r.start < 0)) E else E) = E1
    have hsub1 : ∀ e ∈ E1, e ∈ E := by
      intro e he
      rw [← hE1] at he
      split at he
      · exact mem_dropWhile _ _ _ he
      · exact he
    by_cases hk : (!r.start.isNull && !r.si) = true
    · simp only [hk, if_true]
      have hnn : r.start.isNull = false := by
        simp only [Bool.and_eq_true, Bool.not_eq_true'] at hk; exact hk.1
      have hs' : (r.isNilR || !r.start.isNull) = true := by simp [hnn]
      simp only [hs', if_true, Option.getD_some]
      have : rangeBoundKey c f r.start = Keys.idxPrefix c f ++ goKeyTail r.start := rfl
      rw [this, skip_block c f post hpost]
      rw [take_block c f post hpost _ _ (idOK_len E hE _ (fun e he => hsub1 e (mem_dropWhile _ _ _ he)))]
      congr 1
      rw [← this]
      have hd : List.dropWhile (fun e => isPrefix (rangeBoundKey c f r.start) (ekey c f e)) E1
          = List.dropWhile (fun e => cmp nkey e.1 r.start == 0) E1 :=
        Pl.dropWhile_congr _ _ E1 (fun e he => pred_skip c f r hrs e (hE e (hsub1 e he)).1)
      rw [hd]
      apply takeWhile_congr
      intro e he
      exact pred_stop c f r hre e (hE e (hsub1 e (mem_dropWhile _ _ _ he))).1
    · simp only [hk, Bool.false_eq_true, if_false]
      rw [take_block c f post hpost _ _ (idOK_len E hE _ hsub1)]
      congr 1
      apply takeWhile_congr
      intro e he
      exact pred_stop c f r hre e (hE e (hsub1 e he)).1


/-! ### reverse scan -/

include hpre hpost in
/-- the byte-level reverse seek over `pre ++ block ++ post` lands inside the block (or before it) -/
theorem seekRev_block (s : Bytes) :
    seekRev (pre ++ (block c f E ++ post)) (Keys.idxPrefix c f ++ s) =
      ((E.takeWhile (fun e => !lexLt (Keys.idxPrefix c f ++ s) (ekey c f e))).reverse).map (fun e => (ekey c f e, SVal.unit))
        ++ pre.reverse := by
  unfold seekRev
  rw [takeWhile_all _ pre _ (fun e he => by simp [lexLt_asymm _ _ (hpre e he s)])]
  rw [takeWhile_append_stop _ _ post (fun e he => by simp [hpost e he s])]
  unfold block
  rw [takeWhile_map, List.reverse_append, List.map_reverse]

theorem takeWhile_true {α} (l : List α) : l.takeWhile (fun _ => true) = l := by
  induction l with
  | nil => rfl
  | cons a t ih => simp [List.takeWhile, ih]

theorem lexLt_ff_cons (x : UInt8) (xs : Bytes) (hx : x ≠ 255) : lexLt [255] (x :: xs) = false := by
  simp only [lexLt, Bool.or_eq_false_iff, decide_eq_false_iff_not, Bool.and_eq_false_imp, beq_iff_eq]
  constructor
  · rw [UInt8.lt_iff_toNat_lt]; have := x.toNat_lt; simp; omega
  · intro h; exact absurd h.symm hx

include hre in
/-- reverse seek: the entries after `endKey ‖ 0xFF` are exactly those with a greater value -/
theorem pred_rseek (e : IEntry) (he : Dom numOK e.1) (hid : IdOK e.2) :
    lexLt (rangeBoundKey c f r.stop ++ [255]) (ekey c f e) = decide (cmp nkey e.1 r.stop > 0) := by
  have hk1 := c10_key_order e.1 r.stop he hre
  have hk2 := c10_key_order r.stop e.1 hre he
  have anti := cmp_antisymm nkey e.1 r.stop
  show lexLt (Keys.idxPrefix c f ++ goKeyTail r.stop ++ [255]) (Keys.idxPrefix c f ++ (goKeyTail e.1 ++ e.2)) = _
  rw [List.append_assoc, lexLt_prefix]
  rcases Int.lt_trichotomy (cmp nkey e.1 r.stop) 0 with h | h | h
  · have d := hk1.1 h e.2 [255]
    have := lexLt_asymm _ _ (diffLt_imp_lexLt _ _ d)
    have hn : ¬ cmp nkey e.1 r.stop > 0 := by omega
    simp only [hn, decide_false]
    exact this
  · have heq := hk1.2 h
    have hn : ¬ cmp nkey e.1 r.stop > 0 := by omega
    simp only [hn, decide_false]
    show lexLt (tkey numCode r.stop ++ [255]) (tkey numCode e.1 ++ e.2) = false
    rw [heq, lexLt_prefix]
    obtain ⟨hlen, hne⟩ := hid
    cases hid2 : e.2 with
    | nil => simp [hid2] at hlen
    | cons x xs => exact lexLt_ff_cons x xs (hne x (by simp [hid2]))
  · have d := hk2.1 (by omega) [255] e.2
    simp only [h, decide_true]
    exact diffLt_imp_lexLt _ _ d

theorem tkey_head (v : Value) : ∃ t, tkey numCode v = 0x74 :: t := ⟨_, rfl⟩

/-- reverse seek without an end bound (`prefix ‖ 0xFF`): every entry of the block is before it -/
theorem pred_rseek_open (e : IEntry) : lexLt (Keys.idxPrefix c f ++ [255]) (ekey c f e) = false := by
  show lexLt (Keys.idxPrefix c f ++ [255]) (Keys.idxPrefix c f ++ (goKeyTail e.1 ++ e.2)) = false
  rw [lexLt_prefix]
  obtain ⟨t, ht⟩ := tkey_head e.1
  show lexLt [255] (tkey numCode e.1 ++ e.2) = false
  rw [ht]
  exact lexLt_ff_cons _ _ (by decide)

include hre in
theorem pred_rskip (e : IEntry) (he : Dom numOK e.1) :
    isPrefix (rangeBoundKey c f r.stop) (ekey c f e) = (cmp nkey e.1 r.stop == 0) := by
  have := entry_has_bound_prefix (Keys.idxPrefix c f) e.1 r.stop e.2 he hre
  rw [ekey_entry, bkey_bound]
  cases h : isPrefix (boundKey (Keys.idxPrefix c f) r.stop) (entryKey (Keys.idxPrefix c f) e.1 e.2) with
  | true => have := this.1 h; simp [this]
  | false =>
    have : ¬ cmp nkey e.1 r.stop = 0 := fun hh => by have := this.2 hh; simp [h] at this
    simp [this]

include hrs in
theorem pred_rstop (e : IEntry) (he : Dom numOK e.1) :
    (!boundTest (if (r.isNilR || !r.start.isNull) = true then some (rangeBoundKey c f r.start) else none)
        (!r.start.isNull || r.isNilR) r.si false (rangeBoundKey c f e.1)) =
    (!((!r.start.isNull || r.isNilR) &&
        (decide (cmp nkey e.1 r.start < 0) || (cmp nkey e.1 r.start == 0 && !r.si)))) := by
  have hb := cmpB_bound c f e.1 r.start he hrs
  unfold boundTest
  by_cases hact : (!r.start.isNull || r.isNilR) = true
  · have hact' : (r.isNilR || !r.start.isNull) = true := by rw [Bool.or_comm]; exact hact
    simp only [hact, hact', if_true, Option.getD_some, Bool.true_and, Bool.false_eq_true, if_false]
    by_cases h1 : cmp nkey e.1 r.start < 0
    · have := hb.2.2.2 h1
      simp [h1, this]
    · by_cases h2 : cmp nkey e.1 r.start = 0
      · have := hb.2.1.2 h2
        simp [h2, this]
      · have n1 : ¬ cmpB (rangeBoundKey c f e.1) (rangeBoundKey c f r.start) < 0 := fun h => h1 (hb.2.2.1 h)
        have n2 : ¬ cmpB (rangeBoundKey c f e.1) (rangeBoundKey c f r.start) = 0 := fun h => h2 (hb.2.1.1 h)
        have b1 : (cmpB (rangeBoundKey c f e.1) (rangeBoundKey c f r.start) == 0) = false := by simpa using n2
        have b2 : (cmp nkey e.1 r.start == 0) = false := by simpa using h2
        simp [h1, n1, b1, b2]
  · simp only [Bool.not_eq_true] at hact
    simp [hact]

/-- on a sorted list, what a reverse cursor skips from the top is what a forward cursor takes from the bottom -/
theorem reverse_takeWhile_eq {α} (R : α → α → Prop) (q : α → Bool) (hq : Pl.Down R (fun x => !q x))
    (hq' : Pl.Down (fun a b => R b a) q) (l : List α) (hs : l.Pairwise R) :
    (l.takeWhile (fun x => !q x)).reverse = l.reverse.dropWhile q := by
  rw [Pl.takeWhile_eq_filter R _ hq l hs]
  rw [Pl.dropWhile_eq_filter (fun a b => R b a) q hq' l.reverse (by rw [List.pairwise_reverse]; exact hs)]
  rw [List.filter_reverse]


include hpre hpost hE hrs hre in
/-- reverse `IterateRange` over the block = the value-level cursor steps of `Pl.scanRev` -/
theorem iterateRangeP_rev (hs : E.Pairwise (Pl.leE vord)) :
    iterateRangeP (pre ++ (block c f E ++ post)) c f r true = (Pl.scanRev vord r.abs E).map (·.2) := by
  unfold iterateRangeP Pl.scanRev
  rw [isEmpty_abs r hrs hre]
  by_cases hemp : r.abs.isEmpty vord = true
  · simp [hemp]
  · simp only [hemp, Bool.false_eq_true, if_false]
    simp only [rangePlan, Bool.not_true, Bool.false_eq_true, if_false]
    change _ = List.map (fun x => x.snd)
      (List.takeWhile (fun e => !((!r.start.isNull || r.isNilR) && (decide (cmp nkey e.1 r.start < 0) || (cmp nkey e.1 r.start == 0 && !r.si))))
        (if (!r.stop.isNull && !r.ei) = true then
          List.dropWhile (fun e => cmp nkey e.1 r.stop == 0)
            (if (!r.stop.isNull || r.isNilR) = true then List.dropWhile (fun e => decide (cmp nkey e.1 r.stop > 0)) E.reverse else E.reverse)
         else if (!r.stop.isNull || r.isNilR) = true then List.dropWhile (fun e => decide (cmp nkey e.1 r.stop > 0)) E.reverse else E.reverse))
    have hT : ∀ e ∈ pre.reverse, isPrefix (Keys.idxPrefix c f) e.1 = false :=
      fun e he => pre_no_prefix c f pre hpre e (List.mem_reverse.1 he)
    have hseek : seekRev (pre ++ (block c f E ++ post))
        (revSeekKey (if (r.isNilR || !r.stop.isNull) = true then some (rangeBoundKey c f r.stop) else none) (Keys.idxPrefix c f))
        = (if (!r.stop.isNull || r.isNilR) = true then List.dropWhile (fun e => decide (cmp nkey e.1 r.stop > 0)) E.reverse else E.reverse).map
            (fun e => (ekey c f e, SVal.unit)) ++ pre.reverse := by
      by_cases he : (!r.stop.isNull || r.isNilR) = true
      · have he' : (r.isNilR || !r.stop.isNull) = true := by rw [Bool.or_comm]; exact he
        simp only [he, he', if_true, revSeekKey]
        have : rangeBoundKey c f r.stop ++ [255] = Keys.idxPrefix c f ++ (goKeyTail r.stop ++ [255]) := by
          show Keys.idxPrefix c f ++ goKeyTail r.stop ++ [255] = _
          rw [List.append_assoc]
        rw [this, seekRev_block c f pre post E hpre hpost]
        congr 2
        rw [← this]
        rw [takeWhile_congr _ (fun e => !decide (cmp nkey e.1 r.stop > 0)) E (fun e he2 => by
          rw [pred_rseek c f r hre e (hE e he2).1 (hE e he2).2])]
        apply reverse_takeWhile_eq (Pl.leE vord) (fun e => decide (cmp nkey e.1 r.stop > 0)) _ _ E hs
        · intro a b hab hb
          simp only [Bool.not_eq_true', decide_eq_false_iff_not] at hb ⊢
          have h1 : vord.cmp b.1 r.stop ≤ 0 := by show cmp nkey b.1 r.stop ≤ 0; omega
          have := vord.trans a.1 b.1 r.stop hab h1
          show ¬ cmp nkey a.1 r.stop > 0
          have h3 : cmp nkey a.1 r.stop ≤ 0 := this
          omega
        · intro a b hab hb
          simp only [decide_eq_true_eq] at hb ⊢
          exact Pl.gt_of_ge_of_gt vord a.1 b.1 r.stop hab hb
      · have he' : (r.isNilR || !r.stop.isNull) = false := by
          rw [Bool.or_comm]; simpa using he
        simp only [he, he', Bool.false_eq_true, if_false, revSeekKey]
        rw [seekRev_block c f pre post E hpre hpost]
        congr 2
        rw [takeWhile_congr _ (fun _ => true) E (fun e _ => by rw [pred_rseek_open]; rfl)]
        rw [takeWhile_true]
    rw [hseek]
    generalize hE1 : (if (!r.stop.isNull || r.isNilR) = true then List.dropWhile (fun e => decide (cmp nkey e.1 r.stop > 0)) E.reverse else E.reverse) = E1
    have hsub1 : ∀ e ∈ E1, e ∈ E := by
      intro e he
      rw [← hE1] at he
      split at he
      · exact List.mem_reverse.1 (mem_dropWhile _ _ _ he)
      · exact List.mem_reverse.1 he
    by_cases hk : (!r.stop.isNull && !r.ei) = true
    · simp only [hk, if_true]
      have hnn : r.stop.isNull = false := by
        simp only [Bool.and_eq_true, Bool.not_eq_true'] at hk; exact hk.1
      have he' : (r.isNilR || !r.stop.isNull) = true := by simp [hnn]
      simp only [he', if_true, Option.getD_some]
      have : rangeBoundKey c f r.stop = Keys.idxPrefix c f ++ goKeyTail r.stop := rfl
      rw [this, skip_block' c f pre.reverse hT]
      rw [take_block' c f pre.reverse hT _ _ (idOK_len E hE _ (fun e he => hsub1 e (mem_dropWhile _ _ _ he)))]
      congr 1
      rw [← this]
      have hd : List.dropWhile (fun e => isPrefix (rangeBoundKey c f r.stop) (ekey c f e)) E1
          = List.dropWhile (fun e => cmp nkey e.1 r.stop == 0) E1 :=
        Pl.dropWhile_congr _ _ E1 (fun e he => pred_rskip c f r hre e (hE e (hsub1 e he)).1)
      rw [hd]
      apply takeWhile_congr
      intro e he
      exact pred_rstop c f r hrs e (hE e (hsub1 e (mem_dropWhile _ _ _ he))).1
    · simp only [hk, Bool.false_eq_true, if_false]
      rw [take_block' c f pre.reverse hT _ _ (idOK_len E hE _ hsub1)]
      congr 1
      apply takeWhile_congr
      intro e he
      exact pred_rstop c f r hrs e (hE e (hsub1 e he)).1


include hpre hpost hE in
/-- full index iteration yields every entry of the block once, in key order (reversed when asked) -/
theorem iterateAllP_exact (rev : Bool) :
    iterateAllP (pre ++ (block c f E ++ post)) c f rev = (if rev then E.reverse else E).map (·.2) := by
  unfold iterateAllP
  have hlen : ∀ e ∈ E, e.2.length = 36 := fun e he => (hE e he).2.1
  cases rev with
  | false =>
    simp only [Bool.false_eq_true, if_false]
    have : Keys.idxPrefix c f = Keys.idxPrefix c f ++ [] := by simp
    rw [this, seekFwd_block c f pre post E hpre hpost]
    rw [Pl.dropWhile_congr _ (fun _ => false) E (fun e _ => by
      show lexLt (ekey c f e) (Keys.idxPrefix c f ++ []) = false
      rw [List.append_nil]; exact lexLt_append_self _ _), dropWhile_false]
    rw [← this, take_block c f post hpost _ _ hlen]
    simp only [Bool.not_false]
    rw [takeWhile_true]
  | true =>
    simp only [if_true]
    rw [seekRev_block c f pre post E hpre hpost]
    rw [takeWhile_congr _ (fun _ => true) E (fun e _ => by rw [pred_rseek_open]; rfl), takeWhile_true]
    rw [take_block' c f pre.reverse (fun e he => pre_no_prefix c f pre hpre e (List.mem_reverse.1 he)) _ _
      (fun e he => hlen e (List.mem_reverse.1 he))]
    simp only [Bool.not_false]
    rw [takeWhile_true]

end scan
end CV
