import Clover.Proofs.RefineAnyPlan
/-! # Exact answers, call by call, along histories — whatever plan serves the queries

`refine_history` (RefineStep.lean) gives the specification's answers call by call, but only for
histories whose queries are served by a full scan.  `refine_states_any_plan` (RefineAnyPlan.lean)
covers every plan, but only speaks about the STATE.  Here the two are unified: `Op.ExactDomain`
collects the calls whose ANSWER is determined whatever plan serves them (full scan; or a total sort
order for the document-returning calls; or the key domain for `Count` / `Exists`; or the copy
domains), `refine_step_exact` is the conclusion of `refine_step` on that larger domain and
`refine_history_exact_any_plan` its lift to histories.  `refine_history` is the special case
`allDetermined_allExact`. -/
namespace CV
open OC Keys StoreM

variable (likeFn : LikeFn) (fnFam : FnFam)

/-! ## 1. the domain -/

/-- the calls whose ANSWER is determined by the specification whatever plan serves them:
    a full scan (`Op.Determined`) always; otherwise a total sort order on the live documents for the
    calls that answer documents (`FindAll`, `FindFirst`, `ForEach`, windowed or not `Update` /
    `Delete`), the key domain for `Count` / `Exists`, one of the two copy domains for
    `CreateCollectionByQuery`.  (The unwindowed `BulkDomain` of `Op.InDomain` is left out on purpose:
    there the answer of `Update` / `Delete` is only a permutation of the specification's.) -/
def Op.ExactDomain (s : Spec.State) : Op → Prop
  | .findAll q => FullPlan s q ∨ ∀ coll, Spec.lookup q.coll s = some coll → TotalDomainAll q coll
  | .forEach q _ => FullPlan s q ∨ ∀ coll, Spec.lookup q.coll s = some coll → TotalDomainAll q coll
  | .findFirst q => FullPlan s q ∨ ∀ coll, Spec.lookup q.coll s = some coll → TotalDomainAll q coll
  | .exists_ q => FullPlan s q ∨ ∀ coll, Spec.lookup q.coll s = some coll → KeyDomain q coll
  | .count q => FullPlan s q ∨ ∀ coll, Spec.lookup q.coll s = some coll → KeyDomain q coll
  | .update q _ => FullPlan s q ∨ BulkDomainWAll s q
  | .delete q => FullPlan s q ∨ BulkDomainWAll s q
  | .createCollectionByQuery c q _ =>
    FullPlan (Spec.insert c ({} : Spec.Coll) s) q ∨ CopyDomain s c q ∨ CopyDomainWAll s c q
  | _ => True

/-- every call of the history is in the exact domain in the specification state reached before it -/
def AllExact : List Op → Spec.State → Prop
  | [], _ => True
  | op :: ops, s => Op.ExactDomain s op ∧ AllExact ops (Spec.step likeFn fnFam s op).2

theorem determined_exactDomain (s : Spec.State) (op : Op) (h : Op.Determined s op) : Op.ExactDomain s op := by
  cases op <;> first
    | exact Or.inl h
    | trivial

theorem exactDomain_inDomain (s : Spec.State) (op : Op) (h : Op.ExactDomain s op) : Op.InDomain s op := by
  cases op with
  | update q u =>
    rcases h with h | h
    · exact Or.inl h
    · exact Or.inr (Or.inr h)
  | delete q =>
    rcases h with h | h
    · exact Or.inl h
    · exact Or.inr (Or.inr h)
  | createCollectionByQuery c q fresh => exact h
  | _ => trivial

/-- 4. the old domain is a special case -/
theorem allDetermined_allExact : (ops : List Op) → (s : Spec.State) →
    AllDetermined likeFn fnFam ops s → AllExact likeFn fnFam ops s
  | [], _, _ => trivial
  | op :: ops, s, h =>
    ⟨determined_exactDomain s op h.1, allDetermined_allExact ops _ h.2⟩

theorem allExact_allInDomain : (ops : List Op) → (s : Spec.State) →
    AllExact likeFn fnFam ops s → AllInDomain likeFn fnFam ops s
  | [], _, _ => trivial
  | op :: ops, s, h =>
    ⟨exactDomain_inDomain s op h.1, allExact_allInDomain ops _ h.2⟩

theorem exactDomain_route (s : Spec.State) (op : Op) (h : Op.ExactDomain s op) : Op.ExactDomain s op.route := by
  cases op <;> try exact h
  case save c d fresh =>
    rcases route_save c d fresh with h | h <;> rw [h] <;> trivial

/-! ## 2. one routed operation, one public call -/

theorem exec_refines_exact (op : Op) (hop : OpOK op) (hroute : op.route = op)
    (s : Spec.State) (σ : KVS) (hw : WF s) (hr : Rep s σ) (hdom : Op.ExactDomain s op) :
    (op.exec likeFn fnFam σ noFault).1 = (Spec.step likeFn fnFam s op).1 ∧
      Rep (Spec.step likeFn fnFam s op).2 (op.exec likeFn fnFam σ noFault).2.1 ∧ WF (Spec.step likeFn fnFam s op).2 := by
  cases op with
  | findAll q =>
    rcases hdom with hfull | htd
    · exact exec_refines likeFn fnFam _ hop hroute s σ hw hr hfull
    · refine read_refines likeFn fnFam _ rfl s σ hw hr ?_
      cases hl : Spec.lookup q.coll s with
      | none => exact findAll_missing' likeFn fnFam s σ hr q hl
      | some coll =>
        have hd := (htd coll hl).toTotalDomain likeFn fnFam
        exact findAll_refines_total_any_plan likeFn fnFam s σ hw hr q coll hl hd.key hd.sortDom hd.noNil hd.total
  | forEach q k =>
    rcases hdom with hfull | htd
    · exact exec_refines likeFn fnFam _ hop hroute s σ hw hr hfull
    · refine read_refines likeFn fnFam _ rfl s σ hw hr ?_
      cases hl : Spec.lookup q.coll s with
      | none => exact forEach_missing likeFn fnFam s σ hr q k hl
      | some coll =>
        have hd := (htd coll hl).toTotalDomain likeFn fnFam
        exact (forEach_exact_total_any_plan likeFn fnFam s σ hw hr q k coll hl hd.key hd.sortDom hd.noNil hd.total).2
  | findFirst q =>
    rcases hdom with hfull | htd
    · exact exec_refines likeFn fnFam _ hop hroute s σ hw hr hfull
    · refine read_refines likeFn fnFam _ rfl s σ hw hr ?_
      cases hl : Spec.lookup q.coll s with
      | none => exact findFirst_missing likeFn fnFam s σ hr q hl
      | some coll =>
        have hd := (htd coll hl).toTotalDomain likeFn fnFam
        exact (findFirst_exact_total_any_plan likeFn fnFam s σ hw hr q coll hl hd.key hd.sortDom hd.noNil hd.total).2
  | exists_ q =>
    rcases hdom with hfull | hkd
    · exact exec_refines likeFn fnFam _ hop hroute s σ hw hr hfull
    · refine read_refines likeFn fnFam _ rfl s σ hw hr ?_
      cases hl : Spec.lookup q.coll s with
      | none => exact exists_missing likeFn fnFam s σ hr q hl
      | some coll => exact exists_exact_any_plan likeFn fnFam s σ hw hr q coll hl (hkd coll hl)
  | count q =>
    rcases hdom with hfull | hkd
    · exact exec_refines likeFn fnFam _ hop hroute s σ hw hr hfull
    · refine read_refines likeFn fnFam _ rfl s σ hw hr ?_
      cases hl : Spec.lookup q.coll s with
      | none => exact count_missing likeFn fnFam s σ hr q hl
      | some coll => exact count_any_plan likeFn fnFam s σ hw hr q coll hl (hkd coll hl)
  | update q u =>
    rcases hdom with hfull | hW
    · exact exec_refines likeFn fnFam _ hop hroute s σ hw hr hfull
    · exact update_refines_any_plan_window likeFn fnFam s σ hw hr q u (hW.toBulkDomainW likeFn fnFam)
  | delete q =>
    rcases hdom with hfull | hW
    · exact exec_refines likeFn fnFam _ hop hroute s σ hw hr hfull
    · exact delete_refines_any_plan_window likeFn fnFam s σ hw hr q (hW.toBulkDomainW likeFn fnFam)
  | createCollectionByQuery c q fresh =>
    rcases hdom with hfull | hcopy | hW
    · exact exec_refines likeFn fnFam _ hop hroute s σ hw hr hfull
    · exact createCollectionByQuery_exact_any_plan likeFn fnFam s σ hw hr c hop q fresh hcopy.1 hcopy.2.1 hcopy.2.2
    · exact createCollectionByQuery_exact_any_plan_window likeFn fnFam s σ hw hr c hop q fresh
        (hW.toCopyDomainW likeFn fnFam)
  | _ => exact exec_refines likeFn fnFam _ hop hroute s σ hw hr trivial

/-- **One public call refines the specification, answer included, whatever plan serves it**: a
    fault-free call of an operation of the exact domain on an open handle answers what the
    specification answers, and leaves a store that represents the specification's next state. -/
theorem refine_step_exact (op : Op) (hop : OpOK op) (s : Spec.State) (σ : DBState) (hcl : σ.closed = false)
    (hw : WF s) (hr : Rep s σ.kv) (hdom : Op.ExactDomain s op) :
    let r := op.run likeFn fnFam σ noFault
    let sp := Spec.step likeFn fnFam s op
    r.out = sp.1 ∧ Rep sp.2 r.state.kv ∧ WF sp.2 ∧ r.state.closed = false := by
  simp only
  unfold Op.run
  simp only [hcl, Bool.false_eq_true, if_false]
  cases hpre : op.pre with
  | some e =>
    dsimp only
    rw [pre_some likeFn fnFam s op e hpre]
    exact ⟨rfl, hr, hw, hcl⟩
  | none =>
    dsimp only
    rw [step_route likeFn fnFam s op hpre]
    have := exec_refines_exact likeFn fnFam op.route (route_ok op hop) (route_idem op) s σ.kv hw hr
      (exactDomain_route s op hdom)
    exact ⟨this.1, this.2.1, this.2.2, rfl⟩

/-! ## 3. histories -/

/-- **Refinement of histories, answers included, for any plan**: along any finite history of calls
    of the exact domain, the fault-free model gives the specification's answers call by call, and
    the final store represents the final specification state. -/
theorem refine_history_exact_any_plan : (ops : List Op) → (∀ op ∈ ops, OpOK op) → (s : Spec.State) → (σ : DBState) →
    σ.closed = false → WF s → Rep s σ.kv → AllExact likeFn fnFam ops s →
    (modelRun likeFn fnFam ops σ).1 = (specRun likeFn fnFam ops s).1 ∧
      Rep (specRun likeFn fnFam ops s).2 (modelRun likeFn fnFam ops σ).2.kv ∧
      WF (specRun likeFn fnFam ops s).2 ∧ (modelRun likeFn fnFam ops σ).2.closed = false
  | [], _, s, σ, hcl, hw, hr, _ => ⟨rfl, hr, hw, hcl⟩
  | op :: ops, hok, s, σ, hcl, hw, hr, hdom => by
    obtain ⟨h1, h2, h3, h4⟩ := refine_step_exact likeFn fnFam op (hok op (by simp)) s σ hcl hw hr hdom.1
    obtain ⟨i1, i2, i3, i4⟩ := refine_history_exact_any_plan ops (fun o ho => hok o (List.mem_cons_of_mem _ ho))
      (Spec.step likeFn fnFam s op).2 (op.run likeFn fnFam σ noFault).state h4 h3 h2 hdom.2
    simp only [modelRun, specRun]
    exact ⟨by rw [h1, i1], i2, i3, i4⟩

/-- … in particular from the empty database -/
theorem refine_exact_from_empty (ops : List Op) (hok : ∀ op ∈ ops, OpOK op)
    (hdom : AllExact likeFn fnFam ops []) :
    (modelRun likeFn fnFam ops {}).1 = (specRun likeFn fnFam ops []).1 ∧
      Rep (specRun likeFn fnFam ops []).2 (modelRun likeFn fnFam ops {}).2.kv ∧
      WF (specRun likeFn fnFam ops []).2 := by
  obtain ⟨h1, h2, h3, _⟩ := refine_history_exact_any_plan likeFn fnFam ops hok [] {} rfl wf_empty rep_empty hdom
  exact ⟨h1, h2, h3⟩

/-- `refine_history` is the special case of full scans -/
theorem refine_history_of_exact (ops : List Op) (hok : ∀ op ∈ ops, OpOK op) (s : Spec.State) (σ : DBState)
    (hcl : σ.closed = false) (hw : WF s) (hr : Rep s σ.kv) (hdet : AllDetermined likeFn fnFam ops s) :
    (modelRun likeFn fnFam ops σ).1 = (specRun likeFn fnFam ops s).1 ∧
      Rep (specRun likeFn fnFam ops s).2 (modelRun likeFn fnFam ops σ).2.kv ∧
      WF (specRun likeFn fnFam ops s).2 ∧ (modelRun likeFn fnFam ops σ).2.closed = false :=
  refine_history_exact_any_plan likeFn fnFam ops hok s σ hcl hw hr (allDetermined_allExact likeFn fnFam ops s hdet)

end CV
