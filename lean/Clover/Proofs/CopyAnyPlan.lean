import Clover.Proofs.RefineStep
import Clover.Proofs.BulkExact
import Clover.Proofs.ExportImport
/-! # `CreateCollectionByQuery` through any plan (index transparency for the copy operation)

`createCollectionByQuery_refines` (RefineStep.lean) needs the source to be scanned in full.  Here the
same conclusion — same answer, a store representing the specification's next state — is proved
whatever plan serves the query, on the key domain of index transparency and for a query without
window (`skip = 0`, `limit < 0`):

1. `Spec.insertAll` does not depend on the order in which documents with distinct, new ids arrive
   (`insertAll_perm_eq`, `insertAll_perm`);
2. `assignIds` leaves a selection of live documents alone (`assignIds_live`);
3. `createCollectionByQuery_exact_any_plan`;
4. the same for one public call on an open handle (`createCollectionByQuery_inDomain_step`). -/
namespace CV
open OC Keys StoreM

/-! ## 1. `Spec.insertAll` and the order of arrival -/

/-- insertions under distinct keys into a sorted map commute -/
theorem Spec.insert_comm {α} (k k' : Bytes) (v v' : α) (hne : k ≠ k') (m : List (Bytes × α))
    (hs : Spec.KeysSorted m) :
    Spec.insert k v (Spec.insert k' v' m) = Spec.insert k' v' (Spec.insert k v m) := by
  apply Spec.ext _ _ (Spec.keysSorted_insert _ _ _ (Spec.keysSorted_insert _ _ _ hs))
    (Spec.keysSorted_insert _ _ _ (Spec.keysSorted_insert _ _ _ hs))
  intro x
  simp only [Spec.lookup_insert']
  by_cases h1 : x = k
  · have h2 : x ≠ k' := fun e => hne (h1.symm.trans e)
    rw [if_pos h1, if_neg h2, if_pos h1]
  · rw [if_neg h1, if_neg h1]

/-- the documents with distinct ids, none of them present yet: `Spec.insertAll` gives the same result
    (the same map, or the same error `invalidId`) in whatever order they arrive -/
theorem insertAll_perm_eq (ds ds' : List Doc) (hp : ds.Perm ds') :
    ∀ (docs : List (Bytes × Doc)), Spec.KeysSorted docs → (ds.map Doc.objectId).Nodup →
      (∀ d ∈ ds, Spec.lookup d.objectId docs = none) →
      Spec.insertAll docs ds = Spec.insertAll docs ds' := by
  induction hp with
  | nil => intros; rfl
  | cons x _ ih =>
    intro docs hs hnd hno
    simp only [List.map, List.nodup_cons] at hnd
    simp only [Spec.insertAll]
    rw [hno x (List.mem_cons_self ..)]
    simp only [Option.isSome_none, Bool.false_eq_true, if_false]
    by_cases hv : (!validDoc x) = true
    · rw [if_pos hv, if_pos hv]
    · rw [if_neg hv, if_neg hv]
      apply ih _ (Spec.keysSorted_insert _ _ _ hs) hnd.2
      intro d hd
      have hne : d.objectId ≠ x.objectId := fun e => hnd.1 (e ▸ List.mem_map.2 ⟨d, hd, rfl⟩)
      rw [Spec.lookup_insert', if_neg hne]
      exact hno d (List.mem_cons_of_mem _ hd)
  | swap x y l =>
    intro docs hs hnd hno
    simp only [List.map, List.nodup_cons, List.mem_cons, not_or] at hnd
    have hxy : y.objectId ≠ x.objectId := hnd.1.1
    have hx := hno x (List.mem_cons_of_mem _ (List.mem_cons_self ..))
    have hy := hno y (List.mem_cons_self ..)
    simp only [Spec.insertAll]
    rw [hx, hy]
    simp only [Option.isSome_none, Bool.false_eq_true, if_false, Spec.lookup_insert',
      if_neg hxy, if_neg (Ne.symm hxy), hx, hy]
    cases hvx : validDoc x <;> cases hvy : validDoc y <;>
      simp only [Bool.not_true, Bool.not_false, if_true, if_false, Bool.false_eq_true]
    rw [Spec.insert_comm _ _ _ _ hxy.symm docs hs]
  | trans hp1 _ ih1 ih2 =>
    intro docs hs hnd hno
    rw [ih1 docs hs hnd hno]
    exact ih2 docs hs ((hp1.map Doc.objectId).nodup_iff.1 hnd) (fun d hd => hno d (hp1.mem_iff.2 hd))

/-- valid documents with distinct, new ids are all inserted -/
theorem insertAll_ok_of_valid : (ds : List Doc) → (docs : List (Bytes × Doc)) →
    (ds.map Doc.objectId).Nodup → (∀ d ∈ ds, validDoc d = true) →
    (∀ d ∈ ds, Spec.lookup d.objectId docs = none) → ∃ m, Spec.insertAll docs ds = .ok m
  | [], docs, _, _, _ => ⟨docs, rfl⟩
  | x :: l, docs, hnd, hv, hno => by
    simp only [List.map, List.nodup_cons] at hnd
    simp only [Spec.insertAll]
    rw [hno x (List.mem_cons_self ..), hv x (List.mem_cons_self ..)]
    simp only [Option.isSome_none, Bool.false_eq_true, if_false, Bool.not_true]
    apply insertAll_ok_of_valid l _ hnd.2 (fun d hd => hv d (List.mem_cons_of_mem _ hd))
    intro d hd
    have hne : d.objectId ≠ x.objectId := fun e => hnd.1 (e ▸ List.mem_map.2 ⟨d, hd, rfl⟩)
    rw [Spec.lookup_insert', if_neg hne]
    exact hno d (List.mem_cons_of_mem _ hd)

/-- **1**: valid documents with pairwise distinct ids, none of them present in the (sorted) map:
    `Spec.insertAll` succeeds on the list and on any permutation of it, with the same map -/
theorem insertAll_perm (docs : List (Bytes × Doc)) (hs : Spec.KeysSorted docs) (ds ds' : List Doc)
    (hp : ds.Perm ds') (hnd : (ds.map Doc.objectId).Nodup) (hv : ∀ d ∈ ds, validDoc d = true)
    (hno : ∀ d ∈ ds, Spec.lookup d.objectId docs = none) :
    ∃ m, Spec.insertAll docs ds = .ok m ∧ Spec.insertAll docs ds' = .ok m := by
  obtain ⟨m, hm⟩ := insertAll_ok_of_valid ds docs hnd hv hno
  exact ⟨m, hm, by rw [← insertAll_perm_eq ds ds' hp docs hs hnd hno]; exact hm⟩

/-! ## 2. `assignIds` on documents that carry an id -/

/-- the documents of a selection of live documents carry a (non-empty) id -/
theorem live_objectId_ne (docs : List (Bytes × Doc)) (hids : IdsWF docs) (sel : List Doc) (hl : Live docs sel) :
    ∀ d ∈ sel, d.objectId ≠ [] := by
  intro d hd e
  have hm := lookup_some_mem _ _ docs (hl.1 d hd)
  have hlen := (hids _ hm).1.1
  rw [show (d.objectId, d).1 = d.objectId from rfl, e] at hlen
  cases hlen

/-- **2**: `assignIds` is the identity on a list of documents each of which carries a non-empty
    string `_id` (`assignIds_of_ids`, ExportImport.lean); in particular on a selection of live
    documents of a well-formed collection, and on valid documents -/
theorem assignIds_live (docs : List (Bytes × Doc)) (hids : IdsWF docs) (sel : List Doc) (hl : Live docs sel)
    (fresh : List Bytes) : assignIds sel fresh = sel :=
  assignIds_of_ids sel fresh (live_objectId_ne docs hids sel hl)

theorem assignIds_valid (ds : List Doc) (hv : ∀ d ∈ ds, validDoc d = true) (fresh : List Bytes) :
    assignIds ds fresh = ds :=
  assignIds_of_ids ds fresh (fun d hd => validDoc_objectId_ne d (hv d hd))

/-! ## 3. `CreateCollectionByQuery`, any plan -/

variable (likeFn : LikeFn) (fnFam : FnFam)

/-- what `CreateCollectionByQuery` inserts into the fresh collection does not depend on the plan:
    the model's selection and the specification's give the same `Spec.insertAll` result -/
theorem copy_insertAll_eq (s : Spec.State) (w : KVS) (hw : WF s) (hr : Rep s w) (q : Query)
    (src : Spec.Coll) (hl : Spec.lookup q.coll s = some src) (hdomain : KeyDomain q src)
    (hskip : q.skip = 0) (hlimit : q.limit < 0) (fresh : List Bytes) :
    Spec.insertAll [] (assignIds (selectionOf likeFn fnFam w q src) fresh) =
      Spec.insertAll [] (assignIds (Spec.findAll likeFn fnFam q src) fresh) := by
  obtain ⟨_, hcw⟩ := wf_lookup_clean s hw q.coll src hl
  have hperm := selectionOf_perm likeFn fnFam s w hw hr q src hl hdomain hskip hlimit
  have hlive := selectionOf_live likeFn fnFam s w hw hr q src hl
  have hliveS := findAll_live likeFn fnFam q src hcw.docsSorted hcw.idsWF
  rw [assignIds_live src.docs hcw.idsWF _ hlive, assignIds_live src.docs hcw.idsWF _ hliveS]
  exact insertAll_perm_eq _ _ hperm [] (by simp [Spec.KeysSorted]) hlive.2 (fun _ _ => rfl)

/-- **3. CreateCollectionByQuery refines the specification whatever plan serves its query**, on the
    key domain of index transparency, for a query without skip and limit: same answer, and the
    store represents the specification's next state.  (When `q.coll = c` the source is the fresh,
    empty, index-free target itself; the hypotheses are then about that empty collection.) -/
theorem createCollectionByQuery_exact_any_plan (s : Spec.State) (σ : KVS) (hw : WF s) (hr : Rep s σ) (c : Bytes)
    (hc : Clean c) (q : Query) (fresh : List Bytes)
    (hdomain : ∀ src, Spec.lookup q.coll (Spec.insert c ({} : Spec.Coll) s) = some src → KeyDomain q src)
    (hskip : q.skip = 0) (hlimit : q.limit < 0) :
    let r := withTx true (Op.body likeFn fnFam (.createCollectionByQuery c q fresh)) noFault σ
    let sp := Spec.step likeFn fnFam s (.createCollectionByQuery c q fresh)
    r.1 = sp.1 ∧ Rep sp.2 r.2.1 ∧ WF sp.2 := by
  simp only
  have hm := rep_meta s σ hr c
  have herr : ∀ e c', (Op.body likeFn fnFam (.createCollectionByQuery c q fresh)) noFault (ctx0 true σ) = (.err e, c') →
      (withTx true (Op.body likeFn fnFam (.createCollectionByQuery c q fresh)) noFault σ).1 = .err e ∧
      Rep s (withTx true (Op.body likeFn fnFam (.createCollectionByQuery c q fresh)) noFault σ).2.1 ∧ WF s := by
    intro e c' hb
    have ht := withTx_err _ σ _ _ hb
    exact ⟨ht.1, by rw [ht.2]; exact hr, hw⟩
  cases hl : Spec.lookup c s with
  | some coll =>
    rw [hl] at hm
    obtain ⟨c1, h1, s1⟩ := get_run (metaKey c) (ctx0 true σ)
    simp only [Spec.step, hl, Option.isSome_some, if_true]
    refine herr .collExist c1 ?_
    simp only [Op.body]
    apply bind_run_err'
    unfold createColl
    rw [bind_run _ _ _ c1 _ h1]
    have : kvGet (ctx0 true σ).work (metaKey c) = some (.cmeta ⟨coll.docs.length, coll.indexes⟩) := hm
    rw [this]; rfl
  | none =>
    obtain ⟨c1, h1, hsk1, hr1, hw1⟩ := createColl_run s (ctx0 true σ) hw hr c hc hl
    simp only [Spec.step, hl, Option.isSome_none, Bool.false_eq_true, if_false]
    cases hlq : Spec.lookup q.coll (Spec.insert c ({} : Spec.Coll) s) with
    | none =>
      have hmq : kvGet c1.work (metaKey q.coll) = none := by rw [rep_meta _ c1.work hr1 q.coll, hlq]; rfl
      obtain ⟨c2, h2⟩ := iterateDocs_missing likeFn fnFam q none c1 hmq
      refine herr .collNotExist c2 ?_
      simp only [Op.body]
      rw [bind_run _ _ _ c1 _ h1]
      exact bind_run_err' _ _ _ _ _ h2
    | some src =>
      obtain ⟨c2, h2, s2⟩ := iterateDocs_run likeFn fnFam _ c1 hw1 hr1 q none src hlq
      have h2' : (iterateDocs likeFn fnFam q none) noFault c1 =
          (.ok (selectionOf likeFn fnFam c1.work q src), c2) := h2
      have heq := copy_insertAll_eq likeFn fnFam _ c1.work hw1 hr1 q src hlq (hdomain src hlq) hskip hlimit fresh
      generalize selectionOf likeFn fnFam c1.work q src = sel at h2' heq
      have hwk2 : c2.work = c1.work := s2.1
      have hr2 : Rep (Spec.insert c ({} : Spec.Coll) s) c2.work := by rw [hwk2]; exact hr1
      have hlc : Spec.lookup c (Spec.insert c ({} : Spec.Coll) s) = some ({} : Spec.Coll) := by
        rw [Spec.lookup_insert']; simp
      have hparts := parts_of_owned c ({} : Spec.Coll) c2.work
        (fun k v ho => rep_owned _ c2.work hw1 hr2 c _ hlc k v ho)
      have hins := insertDocs_run c hc [] (assignIds sel fresh) [] c2 hr2.1 hparts.1 hparts.2
        (by simp [Spec.KeysSorted]) (by simp)
      rw [heq] at hins
      simp only [Spec.createWith, hl, Option.isSome_none, Bool.false_eq_true, if_false]
      cases hia : Spec.insertAll [] (assignIds (Spec.findAll likeFn fnFam q src) fresh) with
      | err e =>
        obtain ⟨c3, h3⟩ := hins.2 e hia
        refine herr e c3 ?_
        simp only [Op.body]
        rw [bind_run _ _ _ c1 _ h1, bind_run _ _ _ c2 _ h2']
        exact bind_run_err' _ _ _ _ _ h3
      | ok docs' =>
        obtain ⟨c3, h3, hsk3, hs3, hf3, ho3, hso3, hid3⟩ := hins.1 docs' hia
        have hb : (Op.body likeFn fnFam (.createCollectionByQuery c q fresh)) noFault (ctx0 true σ) = (.ok .unit, c3) := by
          simp only [Op.body]
          rw [bind_run _ _ _ c1 _ h1, bind_run _ _ _ c2 _ h2', bind_run _ _ _ c3 _ h3]
          rfl
        have hsk : c3.skipCommit = false := by rw [hsk3, s2.2.2, hsk1]; rfl
        have ht := withTx_ok _ σ _ _ hb hsk
        have := rep_insert_coll _ c2.work c3.work hw1 hr2 c hc ⟨[], docs'⟩
          (collWF_of_parts [] docs' hso3 hid3 (by simp) (by simp)) hs3 hf3 ho3
        rw [Spec.insert_insert] at this
        dsimp only
        rw [ht.1, ht.2]
        exact ⟨rfl, this.1, this.2⟩

/-! ## 4. one public call on an open handle -/

/-- the any-plan domain of `CreateCollectionByQuery c q _` in the state `s`: the source, looked up
    once the (empty) target exists, is on the key domain; the query has no skip and no limit -/
def CopyDomain (s : Spec.State) (c : Bytes) (q : Query) : Prop :=
  (∀ src, Spec.lookup q.coll (Spec.insert c ({} : Spec.Coll) s) = some src → KeyDomain q src) ∧
    q.skip = 0 ∧ q.limit < 0

/-- the domain phrased on the state before the call: the criteria are in the domain, and the source
    collection, if it exists already, is on the key domain (when `q.coll = c` the source is the fresh
    empty target: nothing is asked of its documents) -/
theorem copyDomain_of_source (s : Spec.State) (c : Bytes) (q : Query)
    (hcrit : ∀ cr, q.crit = some cr → CritOK cr ∧ CritDom cr)
    (hsrc : ∀ src, Spec.lookup q.coll s = some src → KeyDomain q src)
    (hskip : q.skip = 0) (hlimit : q.limit < 0) : CopyDomain s c q := by
  refine ⟨?_, hskip, hlimit⟩
  intro src hl
  rw [Spec.lookup_insert'] at hl
  by_cases e : q.coll = c
  · rw [if_pos e] at hl
    cases hl
    exact ⟨fun _ h => (nomatch h), hcrit, fun _ h => (nomatch h)⟩
  · rw [if_neg e] at hl
    exact hsrc src hl

/-- **4**: a fault-free `CreateCollectionByQuery` on an open handle, in the supported domain
    (`OpOK`: the new name is free of `;`) and on the any-plan domain, answers what the specification
    answers, leaves a store representing the specification's next state, and keeps the handle open -/
theorem createCollectionByQuery_inDomain_step (c : Bytes) (q : Query) (fresh : List Bytes)
    (hop : OpOK (.createCollectionByQuery c q fresh)) (s : Spec.State) (σ : DBState) (hcl : σ.closed = false)
    (hw : WF s) (hr : Rep s σ.kv) (hdom : CopyDomain s c q) :
    let r := (Op.createCollectionByQuery c q fresh).run likeFn fnFam σ noFault
    let sp := Spec.step likeFn fnFam s (.createCollectionByQuery c q fresh)
    Rep sp.2 r.state.kv ∧ WF sp.2 ∧ r.out = sp.1 ∧ r.state.closed = false := by
  simp only
  have h := createCollectionByQuery_exact_any_plan likeFn fnFam s σ.kv hw hr c hop q fresh hdom.1 hdom.2.1 hdom.2.2
  unfold Op.run
  simp only [hcl, Bool.false_eq_true, if_false, Op.pre, Op.route]
  exact ⟨h.2.1, h.2.2, h.1, trivial⟩

end CV
