import Clover.Proofs.IndexBlock
/-! # Every key under an index prefix ends with a 36-byte document id

`index/range_index.go`, `extractDocId(key)`: `if len(key) < 36 { panic(string(key)) }`, called by
`IterateRange` / `Iterate` for every key with the prefix `c:<coll>;i:<field>;`.  On a store that
represents a well-formed abstract state (`Inv`, C06) the panic cannot fire: every stored key under
an index prefix is `idxPrefix c f ++ goKeyTail v ++ id` for a live document `id` (36 bytes) of the
collection (`index_key_shape`), so the model's `extractId` / `stripId` return that id and the
prefix with the typed value code (`extractDocId_total`); and nothing else - no document key, no
metadata key, no key of another collection or index - lies under the prefix
(`no_foreign_key_under_index_prefix`, `stored_under_index_prefix`). -/
namespace CV
open OC Keys

/-! ## 3. nothing foreign under an index prefix -/

theorem metaKey_not_idxPrefix (c f c' : Bytes) : isPrefix (idxPrefix c f) (metaKey c') = false := by
  simp [idxPrefix, sC, metaKey, sColl, isPrefix]

/-- **No foreign key under an index prefix** (key vocabulary): a metadata key or a document key of
    any collection never has the prefix of the index `(c, f)`, and an index key of `(c', f')` has it
    only when `c' = c` and `f' = f` - also when one field name is a prefix of another. -/
theorem no_foreign_key_under_index_prefix (c f : Bytes) (hc : Clean c) (hf : Clean f) :
    (∀ c', isPrefix (idxPrefix c f) (metaKey c') = false) ∧
    (∀ c' id, Clean c' → isPrefix (idxPrefix c f) (docKey c' id) = false) ∧
    (∀ c' f' v id, Clean c' → Clean f' →
      isPrefix (idxPrefix c f) (CV.idxKey c' f' v id) = true → c' = c ∧ f' = f) ∧
    (∀ c' f' rest, Clean c' → Clean f' →
      isPrefix (idxPrefix c f) (Keys.idxKey c' f' rest) = true → c' = c ∧ f' = f) :=
  ⟨fun c' => metaKey_not_idxPrefix c f c',
   fun c' id hc' => docKey_not_idxPrefix c' c f id hc' hc,
   fun c' f' v id hc' hf' h => (idxKey_prefix c' c f' f (goKeyTail v ++ id) hc' hc hf' hf).1 h,
   fun c' f' rest hc' hf' h => (idxKey_prefix c' c f' f rest hc' hc hf' hf).1 h⟩

/-- the same on the abstract side: a key the state `s` binds (`Holds`) under the prefix of `(c, f)`
    is the index entry of a live document of collection `c`, whose catalogue lists `f` -/
theorem holds_under_index_prefix (s : Spec.State) (hw : WF s) (c f : Bytes) (hc : Clean c) (hf : Clean f)
    (k : Bytes) (v : SVal) (hh : Holds s k v) (hp : isPrefix (idxPrefix c f) k = true) :
    ∃ coll, Spec.lookup c s = some coll ∧ f ∈ coll.indexes ∧
      ∃ id d, Spec.lookup id coll.docs = some d ∧ k = CV.idxKey c f (d.get f) id ∧ v = SVal.unit := by
  obtain ⟨c', coll', hl', hk⟩ := hh
  obtain ⟨hc', hcw'⟩ := wf_lookup_clean s hw c' coll' hl'
  cases hk with
  | cmeta => rw [metaKey_not_idxPrefix] at hp; cases hp
  | data k v hd =>
    cases hd with
    | doc id d hld => rw [docKey_not_idxPrefix c' c f id hc' hc] at hp; cases hp
    | idx f' id d hf' hld =>
      obtain ⟨e1, e2⟩ := (idxKey_prefix c' c f' f (goKeyTail (d.get f') ++ id) hc' hc
        (hcw'.fieldsClean f' hf') hf).1 hp
      subst e1; subst e2
      exact ⟨coll', hl', hf', id, d, hld, rfl, rfl⟩

/-- **Everything stored under an index prefix belongs to that index**: in a store representing a
    well-formed state, an entry whose key has the prefix of `(c, f)` (any clean names - the index need
    not be assumed to exist) is the empty-valued entry of a live document of collection `c`, and `f`
    is a catalogued index of `c`.  In particular no document record, metadata record or entry of
    another collection or index is stored there. -/
theorem stored_under_index_prefix (s : Spec.State) (σ : KVS) (hw : WF s) (hr : Rep s σ) (c f : Bytes)
    (hc : Clean c) (hf : Clean f) (k : Bytes) (v : SVal) (he : (k, v) ∈ σ)
    (hp : isPrefix (idxPrefix c f) k = true) :
    ∃ coll, Spec.lookup c s = some coll ∧ f ∈ coll.indexes ∧
      ∃ id d, Spec.lookup id coll.docs = some d ∧ k = CV.idxKey c f (d.get f) id ∧ v = SVal.unit := by
  have hg : kvGet σ k = some v := mem_kvGet σ hr.1 (k, v) he
  exact holds_under_index_prefix s hw c f hc hf k v
    ((((rep_iff_holds s hw σ).1 hr).2 k v).1 hg) hp

/-! ## 1. the shape of the keys under the prefix of a catalogued index -/

/-- **Shape of an index key**: for a catalogued index `f` of collection `c`, every stored entry whose
    key has the prefix `idxPrefix c f` is the entry `idxKey c f (d.get f) id` of a live document
    `(id, d)` of the collection; the key is `p ++ id` with `id` of 36 bytes and
    `p = idxPrefix c f ++ goKeyTail (d.get f)`. -/
theorem index_key_shape (s : Spec.State) (σ : KVS) (hw : WF s) (hr : Rep s σ) (c : Bytes) (coll : Spec.Coll)
    (hl : Spec.lookup c s = some coll) (f : Bytes) (hf : f ∈ coll.indexes)
    (k : Bytes) (v : SVal) (he : (k, v) ∈ σ) (hp : isPrefix (idxPrefix c f) k = true) :
    ∃ id d, (id, d) ∈ coll.docs ∧ Spec.lookup id coll.docs = some d ∧
      k = CV.idxKey c f (d.get f) id ∧ v = SVal.unit ∧
      k = (idxPrefix c f ++ goKeyTail (d.get f)) ++ id ∧ id.length = 36 ∧ IdWF id := by
  obtain ⟨_, hcw⟩ := wf_lookup_clean s hw c coll hl
  obtain ⟨id, d, hld, ee⟩ := entry_live_unit s σ hw hr c coll hl f hf (k, v) he hp
  simp only [Prod.mk.injEq] at ee
  have hid := (collWF_lookup coll hcw id d hld).1
  refine ⟨id, d, lookup_some_mem id d _ hld, hld, ee.1, ee.2, ?_, hid.1, hid⟩
  rw [ee.1, CV.idxKey, List.append_assoc]

/-! ## 2. `extractDocId` is total on such keys -/

theorem extractId_append (p id : Bytes) (h : id.length = 36) : extractId (p ++ id) = id := by
  have : (p ++ id).length - 36 = p.length := by rw [List.length_append, h]; omega
  rw [extractId, this, List.drop_left]

theorem stripId_append (p id : Bytes) (h : id.length = 36) : stripId (p ++ id) = p := by
  have : (p ++ id).length - 36 = p.length := by rw [List.length_append, h]; omega
  rw [stripId, this, List.take_left]

/-- **`extractDocId` cannot panic on a store the database wrote**: a stored key under the prefix of
    a catalogued index has at least 36 bytes; its last 36 bytes (`extractId`, Go's
    `key[len(key)-36:]`) are the id of a live document of the collection, and what precedes them
    (`stripId`, Go's `key[:len(key)-36]`) is the index prefix followed by the typed value code of
    that document's field. -/
theorem extractDocId_total (s : Spec.State) (σ : KVS) (hw : WF s) (hr : Rep s σ) (c : Bytes) (coll : Spec.Coll)
    (hl : Spec.lookup c s = some coll) (f : Bytes) (hf : f ∈ coll.indexes)
    (k : Bytes) (v : SVal) (he : (k, v) ∈ σ) (hp : isPrefix (idxPrefix c f) k = true) :
    36 ≤ k.length ∧
    ∃ d, (extractId k, d) ∈ coll.docs ∧ Spec.lookup (extractId k) coll.docs = some d ∧
      (extractId k).length = 36 ∧
      stripId k = idxPrefix c f ++ goKeyTail (d.get f) ∧
      k.drop (k.length - 36) = extractId k ∧ k.take (k.length - 36) = stripId k ∧
      k = stripId k ++ extractId k := by
  obtain ⟨id, d, hmem, hld, _, _, hk, hlen, _⟩ := index_key_shape s σ hw hr c coll hl f hf k v he hp
  have e1 : extractId k = id := by rw [hk]; exact extractId_append _ _ hlen
  have e2 : stripId k = idxPrefix c f ++ goKeyTail (d.get f) := by rw [hk]; exact stripId_append _ _ hlen
  refine ⟨?_, d, ?_, ?_, ?_, e2, rfl, rfl, ?_⟩
  · rw [hk, List.length_append, hlen]; omega
  · rw [e1]; exact hmem
  · rw [e1]; exact hld
  · rw [e1]; exact hlen
  · rw [e1, e2]; exact hk

end CV
