import Clover.Proofs.InvStep
/-! # One refinement theorem for a whole public call, and its lift to histories

`refine_step`: for every public operation in the supported domain whose answer is fully determined
(`Op.Determined`: every call except a query that the planner serves from an index, whose result
order legitimately differs from the specification's representative), the fault-free model call
answers exactly what the specification answers, and the resulting store represents the resulting
specification state.  `refine_history` lifts this to every finite history. -/
namespace CV
open OC Keys StoreM

variable (likeFn : LikeFn) (fnFam : FnFam)

/-! ## 1. reads under a full-scan plan -/

/-- the planner does not look at `limit` -/
theorem choosePlan_limit (idxs : List Bytes) (q : Query) (n : Int) :
    choosePlan idxs { q with limit := n } = choosePlan idxs q := rfl

/-- the planner does not look at `skip` -/
theorem choosePlan_skip (idxs : List Bytes) (q : Query) (n : Nat) :
    choosePlan idxs { q with skip := n } = choosePlan idxs q := rfl

/-- a fault-free `iterateDocs` under the full-scan plan returns the specification's `findAll` -/
theorem iterateDocs_full_spec (s : Spec.State) (ctx : Ctx) (hw : WF s) (hr : Rep s ctx.work) (q : Query)
    (coll : Spec.Coll) (hl : Spec.lookup q.coll s = some coll)
    (hplan : choosePlan coll.indexes q = (.full, false)) :
    ∃ c', (iterateDocs likeFn fnFam q none) noFault ctx = (.ok (Spec.findAll likeFn fnFam q coll), c') ∧
      SameWork ctx c' := by
  obtain ⟨hc, _⟩ := wf_lookup_clean s hw q.coll coll hl
  obtain ⟨c2, h2, s2⟩ := iterateDocs_run_full likeFn fnFam s ctx hw hr q none coll hc hl hplan
  rw [finishPipe_spec] at h2
  exact ⟨c2, h2, s2⟩

/-- the specification's `findAll` as window ∘ (sort) ∘ filter, in the shape `pipeline_none` produces -/
theorem findAll_eq_window (q : Query) (coll : Spec.Coll) :
    Spec.findAll likeFn fnFam q coll =
      Spec.window q.skip q.limit
        (if needSort q false then sortDocs q.sort ((coll.docs.map (·.2)).filter (fun d => satOpt likeFn fnFam d q.crit))
         else (coll.docs.map (·.2)).filter (fun d => satOpt likeFn fnFam d q.crit)) :=
  (finishPipe_spec likeFn fnFam q coll).symm.trans (pipeline_none likeFn fnFam q (needSort q false) _)

theorem findAll_refines_full (s : Spec.State) (σ : KVS) (hw : WF s) (hr : Rep s σ) (q : Query)
    (coll : Spec.Coll) (hl : Spec.lookup q.coll s = some coll)
    (hplan : choosePlan coll.indexes q = (.full, false)) :
    (withTx false (Op.body likeFn fnFam (.findAll q)) noFault σ).1 = (Spec.step likeFn fnFam s (.findAll q)).1 := by
  rw [withTx_read_noFault]
  obtain ⟨c2, h2, _⟩ := iterateDocs_full_spec likeFn fnFam s (ctx0 false σ) hw hr q coll hl hplan
  simp only [Op.body]
  rw [bind_run _ _ _ c2 _ h2]
  simp only [Spec.step, Spec.withColl, hl]
  rfl

theorem findFirst_refines_full (s : Spec.State) (σ : KVS) (hw : WF s) (hr : Rep s σ) (q : Query)
    (coll : Spec.Coll) (hl : Spec.lookup q.coll s = some coll)
    (hplan : choosePlan coll.indexes { q with limit := 1 } = (.full, false)) :
    (withTx false (Op.body likeFn fnFam (.findFirst q)) noFault σ).1 = (Spec.step likeFn fnFam s (.findFirst q)).1 := by
  rw [withTx_read_noFault]
  obtain ⟨c2, h2, _⟩ := iterateDocs_full_spec likeFn fnFam s (ctx0 false σ) hw hr { q with limit := 1 } coll hl hplan
  simp only [Op.body]
  rw [bind_run _ _ _ c2 _ h2]
  simp only [Spec.step, Spec.withColl, hl]
  rfl

theorem exists_refines_full (s : Spec.State) (σ : KVS) (hw : WF s) (hr : Rep s σ) (q : Query)
    (coll : Spec.Coll) (hl : Spec.lookup q.coll s = some coll)
    (hplan : choosePlan coll.indexes { q with limit := 1 } = (.full, false)) :
    (withTx false (Op.body likeFn fnFam (.exists_ q)) noFault σ).1 = (Spec.step likeFn fnFam s (.exists_ q)).1 := by
  rw [withTx_read_noFault]
  obtain ⟨c2, h2, _⟩ := iterateDocs_full_spec likeFn fnFam s (ctx0 false σ) hw hr { q with limit := 1 } coll hl hplan
  simp only [Op.body]
  rw [bind_run _ _ _ c2 _ h2]
  simp only [Spec.step, Spec.withColl, hl]
  rfl

/-- `Count`: through the stored counter when there is no criteria, through the plan otherwise -/
theorem count_refines_full (s : Spec.State) (σ : KVS) (hw : WF s) (hr : Rep s σ) (q : Query)
    (coll : Spec.Coll) (hl : Spec.lookup q.coll s = some coll)
    (hplan : choosePlan coll.indexes q = (.full, false)) :
    (withTx false (Op.body likeFn fnFam (.count q)) noFault σ).1 = (Spec.step likeFn fnFam s (.count q)).1 := by
  rw [withTx_read_noFault]
  simp only [Spec.step, Spec.withColl, hl]
  cases hcrit : q.crit with
  | some cr =>
    obtain ⟨c2, h2, _⟩ := iterateDocs_full_spec likeFn fnFam s (ctx0 false σ) hw hr q coll hl hplan
    simp only [Op.body, hcrit]
    rw [bind_run _ _ _ c2 _ h2]
    rfl
  | none =>
    have hm : kvGet (ctx0 false σ).work (metaKey q.coll) = some (.cmeta ⟨coll.docs.length, coll.indexes⟩) := by
      simp only [ctx0, hr.2, assoc_meta, hl, Option.map_some]
    obtain ⟨c1, h1, _⟩ := getMeta_run q.coll _ (ctx0 false σ) hm
    simp only [Op.body, hcrit]
    rw [bind_run _ _ _ c1 _ h1]
    simp only [pure, StoreM.pure']
    congr 2
    unfold Spec.findAll
    simp only [hcrit, satOpt]
    have hf : List.filter (fun _ => true) (coll.docs.map (·.2)) = coll.docs.map (·.2) := by
      apply List.filter_eq_self.2; intro _ _; rfl
    have hlen : (if q.sort.isEmpty = true then List.filter (fun _ => true) (coll.docs.map (·.2))
        else sortDocs q.sort (List.filter (fun _ => true) (coll.docs.map (·.2)))).length = coll.docs.length := by
      rw [hf]
      split
      · simp
      · unfold sortDocs; rw [(List.mergeSort_perm _ _).length_eq]; simp
    have := window_length_int q.skip q.limit coll.docs.length _ hlen
    rw [this]
    unfold countWindow
    rfl

/-! ### `ForEach`: the pipeline in front of a consumer that stops -/

/-- what is left of the skip/limit window for the pipe state `st` -/
def winRem (q : Query) (st : Pipe) (l : List Doc) : List Doc :=
  if q.limit < 0 then l.drop (q.skip - st.skipped)
  else (l.drop (q.skip - st.skipped)).take (q.limit.toNat - st.consumed)

/-- the skip/limit node in front of a `ForEach` consumer that answers `false` on its `n`-th document:
    the consumer sees the first `max n 1` documents of the window -/
theorem feed_out_some (q : Query) (n : Nat) : (st : Pipe) → (l : List Doc) → st.skipped ≤ q.skip →
    (st.skipped < q.skip → st.consumed = 0) → st.out.length < max n 1 →
    (feed q (some n) st l).out = ((winRem q st l).take (max n 1 - st.out.length)).reverse ++ st.out
  | st, [], _, _, _ => by simp [feed, winRem]
  | st, x :: xs, h1, h2, h3 => by
    simp only [feed, emit, consume]
    by_cases hn : (q.skip > 0 || decide (q.limit ≥ 0)) = true
    · simp only [hn, if_true]
      by_cases hs : st.skipped < q.skip
      · simp only [hs, if_true]
        rw [feed_out_some q n { st with skipped := st.skipped + 1 } xs (by simp; omega) (by intro _; simp; exact h2 hs) h3]
        have : q.skip - st.skipped = (q.skip - (st.skipped + 1)) + 1 := by omega
        simp only [winRem, this, List.drop_succ_cons]
      · have h0 : q.skip - st.skipped = 0 := by omega
        simp only [hs, if_false]
        by_cases hc : (decide (q.limit < 0) || decide ((st.consumed : Int) < q.limit)) = true
        · simp only [hc, if_true, List.length_cons]
          have hw : winRem q st (x :: xs) = x :: winRem q { st with consumed := st.consumed + 1, out := x :: st.out } xs := by
            simp only [winRem, h0, List.drop_zero]
            by_cases hl : q.limit < 0
            · simp only [hl, if_true]
            · simp only [hl, if_false]
              simp only [hl, decide_false, Bool.false_or, decide_eq_true_eq] at hc
              have : q.limit.toNat - st.consumed = (q.limit.toNat - (st.consumed + 1)) + 1 := by omega
              rw [this, List.take_succ_cons]
          rw [hw]
          by_cases hstop : st.out.length + 1 ≥ n
          · simp only [hstop, if_true]
            have : max n 1 - st.out.length = 1 := by omega
            simp [this]
          · simp only [hstop, if_false]
            rw [feed_out_some q n _ xs (by simp; omega) (by intro h; simp at h; omega) (by simp; omega)]
            have : max n 1 - st.out.length = (max n 1 - (st.out.length + 1)) + 1 := by omega
            simp only [List.length_cons]
            rw [this, List.take_succ_cons]
            simp
        · simp only [hc, Bool.false_eq_true, if_false]
          simp only [Bool.or_eq_true, decide_eq_true_eq, not_or] at hc
          have : q.limit.toNat - st.consumed = 0 := by omega
          have hl : ¬ q.limit < 0 := hc.1
          simp [winRem, hl, this]
    · -- no skip/limit node: skip = 0 and limit < 0
      simp only [Bool.or_eq_true, decide_eq_true_eq, not_or, Nat.not_lt, Nat.le_zero_eq, Int.not_le] at hn
      have hsk : q.skip = 0 := by omega
      have hl : q.limit < 0 := hn.2
      have hcond : (q.skip > 0 || decide (q.limit ≥ 0)) = false := by
        simp [hsk]; omega
      simp only [hcond, Bool.false_eq_true, if_false, List.length_cons]
      have hw : winRem q st (x :: xs) = x :: winRem q { st with out := x :: st.out } xs := by
        simp [winRem, hl, hsk]
      rw [hw]
      by_cases hstop : st.out.length + 1 ≥ n
      · simp only [hstop, if_true]
        have : max n 1 - st.out.length = 1 := by omega
        simp [this]
      · simp only [hstop, if_false]
        rw [feed_out_some q n _ xs (by simp; omega) (by intro h; simp at h; omega) (by simp; omega)]
        have : max n 1 - st.out.length = (max n 1 - (st.out.length + 1)) + 1 := by omega
        simp only [List.length_cons]
        rw [this, List.take_succ_cons]
        simp

theorem feed_window_some (q : Query) (n : Nat) (st : Pipe) (l : List Doc)
    (h1 : st.skipped = 0) (h2 : st.consumed = 0) (h3 : st.out = []) :
    (feed q (some n) st l).out.reverse = (Spec.window q.skip q.limit l).take (max n 1) := by
  rw [feed_out_some q n st l (by omega) (fun _ => h2) (by rw [h3]; simp; omega)]
  simp [winRem, Spec.window, h1, h2, h3]

/-- the pipeline behind the input node, for a consumer that stops on its `n`-th document -/
theorem pipeline_some (q : Query) (n : Nat) (ns : Bool) (cands : List Doc) :
    finishPipe q (some n) ns (foldStop (onDocOf likeFn fnFam q (some n) ns) {} cands) =
      (Spec.window q.skip q.limit
        (if ns then sortDocs q.sort (cands.filter (fun d => satOpt likeFn fnFam d q.crit))
         else cands.filter (fun d => satOpt likeFn fnFam d q.crit))).take (max n 1) := by
  unfold finishPipe
  cases ns with
  | false =>
    simp only [Bool.false_eq_true, if_false]
    unfold onDocOf
    simp only [Bool.false_eq_true, if_false]
    rw [foldStop_emit q (some n) (fun d => satOpt likeFn fnFam d q.crit) {} cands]
    exact feed_window_some q n {} _ rfl rfl rfl
  | true =>
    simp only [if_true]
    unfold onDocOf
    simp only [if_true]
    rw [foldStop_collect (fun d => satOpt likeFn fnFam d q.crit) {} cands]
    simp only [List.append_nil, List.reverse_reverse]
    exact feed_window_some q n _ _ rfl rfl rfl

/-- **ForEach** under a full-scan plan: with a consumer that never stops it sees `FindAll`; a consumer
    that answers `false` on its `n`-th document sees the first `max n 1` documents of it -/
theorem forEach_refines_full (s : Spec.State) (σ : KVS) (hw : WF s) (hr : Rep s σ) (q : Query) (k : Option Nat)
    (coll : Spec.Coll) (hl : Spec.lookup q.coll s = some coll)
    (hplan : choosePlan coll.indexes q = (.full, false)) :
    (withTx false (Op.body likeFn fnFam (.forEach q k)) noFault σ).1 = (Spec.step likeFn fnFam s (.forEach q k)).1 := by
  rw [withTx_read_noFault]
  obtain ⟨hc, _⟩ := wf_lookup_clean s hw q.coll coll hl
  obtain ⟨c2, h2, _⟩ := iterateDocs_run_full likeFn fnFam s (ctx0 false σ) hw hr q k coll hc hl hplan
  simp only [Op.body]
  rw [bind_run _ _ _ c2 _ h2]
  simp only [Spec.step, Spec.withColl, hl]
  cases k with
  | none => rw [finishPipe_spec]; rfl
  | some n => rw [pipeline_some, findAll_eq_window]; rfl

/-! ### a missing collection -/

theorem iterateDocs_body_missing (s : Spec.State) (σ : KVS) (hr : Rep s σ) (q : Query) (k : Option Nat)
    (f : List Doc → StoreM Out) (hl : Spec.lookup q.coll s = none) :
    (withTx false (iterateDocs likeFn fnFam q k >>= f) noFault σ).1 = .err .collNotExist := by
  rw [withTx_read_noFault]
  have hm : kvGet (ctx0 false σ).work (metaKey q.coll) = none := by
    have := rep_meta s σ hr q.coll
    rw [hl] at this
    exact this
  obtain ⟨c1, h1⟩ := iterateDocs_missing likeFn fnFam q k (ctx0 false σ) hm
  rw [bind_run_err' _ _ _ _ _ h1]

theorem forEach_missing (s : Spec.State) (σ : KVS) (hr : Rep s σ) (q : Query) (k : Option Nat)
    (hl : Spec.lookup q.coll s = none) :
    (withTx false (Op.body likeFn fnFam (.forEach q k)) noFault σ).1 = (Spec.step likeFn fnFam s (.forEach q k)).1 := by
  simp only [Spec.step, Spec.withColl, hl]
  exact iterateDocs_body_missing likeFn fnFam s σ hr q k _ hl

theorem findFirst_missing (s : Spec.State) (σ : KVS) (hr : Rep s σ) (q : Query)
    (hl : Spec.lookup q.coll s = none) :
    (withTx false (Op.body likeFn fnFam (.findFirst q)) noFault σ).1 = (Spec.step likeFn fnFam s (.findFirst q)).1 := by
  simp only [Spec.step, Spec.withColl, hl]
  exact iterateDocs_body_missing likeFn fnFam s σ hr { q with limit := 1 } none _ hl

theorem exists_missing (s : Spec.State) (σ : KVS) (hr : Rep s σ) (q : Query)
    (hl : Spec.lookup q.coll s = none) :
    (withTx false (Op.body likeFn fnFam (.exists_ q)) noFault σ).1 = (Spec.step likeFn fnFam s (.exists_ q)).1 := by
  simp only [Spec.step, Spec.withColl, hl]
  exact iterateDocs_body_missing likeFn fnFam s σ hr { q with limit := 1 } none _ hl

theorem findAll_missing' (s : Spec.State) (σ : KVS) (hr : Rep s σ) (q : Query)
    (hl : Spec.lookup q.coll s = none) :
    (withTx false (Op.body likeFn fnFam (.findAll q)) noFault σ).1 = (Spec.step likeFn fnFam s (.findAll q)).1 := by
  simp only [Spec.step, Spec.withColl, hl]
  exact findAll_missing likeFn fnFam s σ hr q hl

theorem count_missing (s : Spec.State) (σ : KVS) (hr : Rep s σ) (q : Query)
    (hl : Spec.lookup q.coll s = none) :
    (withTx false (Op.body likeFn fnFam (.count q)) noFault σ).1 = (Spec.step likeFn fnFam s (.count q)).1 := by
  simp only [Spec.step, Spec.withColl, hl]
  cases hcrit : q.crit with
  | some cr =>
    have := iterateDocs_body_missing likeFn fnFam s σ hr q none (fun ds => pure (.int ds.length)) hl
    simp only [Op.body, hcrit]
    exact this
  | none =>
    rw [withTx_read_noFault]
    have hm : kvGet (ctx0 false σ).work (metaKey q.coll) = none := by
      have := rep_meta s σ hr q.coll
      rw [hl] at this
      exact this
    obtain ⟨c1, h1⟩ := getMeta_run_none' q.coll (ctx0 false σ) hm
    simp only [Op.body, hcrit]
    rw [bind_run_err' _ _ _ _ _ h1]

/-! ### `ExportCollection`: `HasCollection`, then `FindAll` of the whole collection -/

theorem exportDocs_refines (s : Spec.State) (σ : KVS) (hw : WF s) (hr : Rep s σ) (c : Bytes) :
    (Op.exec likeFn fnFam (.exportDocs c) σ noFault).1 = (Spec.step likeFn fnFam s (.exportDocs c)).1 := by
  have h1 := hasCollection_refines likeFn fnFam s σ hr c
  have hφ : (fun n => noFault (n + 2)) = noFault := rfl
  simp only [Op.exec, execExport, hφ]
  simp only [Spec.step, Spec.withColl] at h1 ⊢
  cases hl : Spec.lookup c s with
  | none =>
    rw [hl] at h1
    revert h1
    generalize withTx false (Op.body likeFn fnFam (.hasCollection c)) noFault σ = r1
    obtain ⟨o1, s1, f1, t1⟩ := r1
    intro h1
    simp only [Option.isSome_none] at h1
    subst h1
    rfl
  | some coll =>
    rw [hl] at h1
    have h2 := findAll_refines_full likeFn fnFam s σ hw hr { coll := c } coll hl (choosePlan_nocrit _ _ rfl rfl)
    simp only [Spec.step, Spec.withColl, hl] at h2
    revert h1 h2
    generalize withTx false (Op.body likeFn fnFam (.hasCollection c)) noFault σ = r1
    generalize withTx false (Op.body likeFn fnFam (.findAll { coll := c })) noFault σ = r2
    obtain ⟨o1, s1, f1, t1⟩ := r1
    obtain ⟨o2, s2, f2, t2⟩ := r2
    intro h1 h2
    simp only [Option.isSome_some] at h1 h2
    subst h1 h2
    rfl

end CV
