import Clover.Proofs.InvStep
/-! # One refinement theorem for a whole public call, and its lift to histories

`refine_step`: for every public operation in the supported domain whose answer is fully determined
(`Op.Determined`: every call except a query that the planner serves from an index, whose result
order legitimately differs from the specification's representative), the fault-free model call
answers exactly what the specification answers, and the resulting store represents the resulting
specification state.  `refine_history` lifts this to every finite history. -/
namespace CV
open OC Keys StoreM

variable (likeFn : LikeFn) (fnFam : FnFam)

/-! ## 1. reads under a full-scan plan -/

/-- the planner does not look at `limit` -/
theorem choosePlan_limit (idxs : List Bytes) (q : Query) (n : Int) :
    choosePlan idxs { q with limit := n } = choosePlan idxs q := rfl

/-- the planner does not look at `skip` -/
theorem choosePlan_skip (idxs : List Bytes) (q : Query) (n : Nat) :
    choosePlan idxs { q with skip := n } = choosePlan idxs q := rfl

/-- a fault-free `iterateDocs` under the full-scan plan returns the specification's `findAll` -/
theorem iterateDocs_full_spec (s : Spec.State) (ctx : Ctx) (hw : WF s) (hr : Rep s ctx.work) (q : Query)
    (coll : Spec.Coll) (hl : Spec.lookup q.coll s = some coll)
    (hplan : choosePlan coll.indexes q = (.full, false)) :
    ∃ c', (iterateDocs likeFn fnFam q none) noFault ctx = (.ok (Spec.findAll likeFn fnFam q coll), c') ∧
      SameWork ctx c' := by
  obtain ⟨hc, _⟩ := wf_lookup_clean s hw q.coll coll hl
  obtain ⟨c2, h2, s2⟩ := iterateDocs_run_full likeFn fnFam s ctx hw hr q none coll hc hl hplan
  rw [finishPipe_spec] at h2
  exact ⟨c2, h2, s2⟩

/-- the specification's `findAll` as window ∘ (sort) ∘ filter, in the shape `pipeline_none` produces -/
theorem findAll_eq_window (q : Query) (coll : Spec.Coll) :
    Spec.findAll likeFn fnFam q coll =
      Spec.window q.skip q.limit
        (if needSort q false then sortDocs q.sort ((coll.docs.map (·.2)).filter (fun d => satOpt likeFn fnFam d q.crit))
         else (coll.docs.map (·.2)).filter (fun d => satOpt likeFn fnFam d q.crit)) :=
  (finishPipe_spec likeFn fnFam q coll).symm.trans (pipeline_none likeFn fnFam q (needSort q false) _)

theorem findAll_refines_full (s : Spec.State) (σ : KVS) (hw : WF s) (hr : Rep s σ) (q : Query)
    (coll : Spec.Coll) (hl : Spec.lookup q.coll s = some coll)
    (hplan : choosePlan coll.indexes q = (.full, false)) :
    (withTx false (Op.body likeFn fnFam (.findAll q)) noFault σ).1 = (Spec.step likeFn fnFam s (.findAll q)).1 := by
  rw [withTx_read_noFault]
  obtain ⟨c2, h2, _⟩ := iterateDocs_full_spec likeFn fnFam s (ctx0 false σ) hw hr q coll hl hplan
  simp only [Op.body]
  rw [bind_run _ _ _ c2 _ h2]
  simp only [Spec.step, Spec.withColl, hl]
  rfl

theorem findFirst_refines_full (s : Spec.State) (σ : KVS) (hw : WF s) (hr : Rep s σ) (q : Query)
    (coll : Spec.Coll) (hl : Spec.lookup q.coll s = some coll)
    (hplan : choosePlan coll.indexes { q with limit := 1 } = (.full, false)) :
    (withTx false (Op.body likeFn fnFam (.findFirst q)) noFault σ).1 = (Spec.step likeFn fnFam s (.findFirst q)).1 := by
  rw [withTx_read_noFault]
  obtain ⟨c2, h2, _⟩ := iterateDocs_full_spec likeFn fnFam s (ctx0 false σ) hw hr { q with limit := 1 } coll hl hplan
  simp only [Op.body]
  rw [bind_run _ _ _ c2 _ h2]
  simp only [Spec.step, Spec.withColl, hl]
  rfl

theorem exists_refines_full (s : Spec.State) (σ : KVS) (hw : WF s) (hr : Rep s σ) (q : Query)
    (coll : Spec.Coll) (hl : Spec.lookup q.coll s = some coll)
    (hplan : choosePlan coll.indexes { q with limit := 1 } = (.full, false)) :
    (withTx false (Op.body likeFn fnFam (.exists_ q)) noFault σ).1 = (Spec.step likeFn fnFam s (.exists_ q)).1 := by
  rw [withTx_read_noFault]
  obtain ⟨c2, h2, _⟩ := iterateDocs_full_spec likeFn fnFam s (ctx0 false σ) hw hr { q with limit := 1 } coll hl hplan
  simp only [Op.body]
  rw [bind_run _ _ _ c2 _ h2]
  simp only [Spec.step, Spec.withColl, hl]
  rfl

/-- `Count`: through the stored counter when there is no criteria, through the plan otherwise -/
theorem count_refines_full (s : Spec.State) (σ : KVS) (hw : WF s) (hr : Rep s σ) (q : Query)
    (coll : Spec.Coll) (hl : Spec.lookup q.coll s = some coll)
    (hplan : choosePlan coll.indexes q = (.full, false)) :
    (withTx false (Op.body likeFn fnFam (.count q)) noFault σ).1 = (Spec.step likeFn fnFam s (.count q)).1 := by
  rw [withTx_read_noFault]
  simp only [Spec.step, Spec.withColl, hl]
  cases hcrit : q.crit with
  | some cr =>
    obtain ⟨c2, h2, _⟩ := iterateDocs_full_spec likeFn fnFam s (ctx0 false σ) hw hr q coll hl hplan
    simp only [Op.body, hcrit]
    rw [bind_run _ _ _ c2 _ h2]
    rfl
  | none =>
    have hm : kvGet (ctx0 false σ).work (metaKey q.coll) = some (.cmeta ⟨coll.docs.length, coll.indexes⟩) := by
      simp only [ctx0, hr.2, assoc_meta, hl, Option.map_some]
    obtain ⟨c1, h1, _⟩ := getMeta_run q.coll _ (ctx0 false σ) hm
    simp only [Op.body, hcrit]
    rw [bind_run _ _ _ c1 _ h1]
    simp only [pure, StoreM.pure']
    congr 2
    unfold Spec.findAll
    simp only [hcrit, satOpt]
    have hf : List.filter (fun _ => true) (coll.docs.map (·.2)) = coll.docs.map (·.2) := by
      apply List.filter_eq_self.2; intro _ _; rfl
    have hlen : (if q.sort.isEmpty = true then List.filter (fun _ => true) (coll.docs.map (·.2))
        else sortDocs q.sort (List.filter (fun _ => true) (coll.docs.map (·.2)))).length = coll.docs.length := by
      rw [hf]
      split
      · simp
      · unfold sortDocs; rw [(List.mergeSort_perm _ _).length_eq]; simp
    have := window_length_int q.skip q.limit coll.docs.length _ hlen
    rw [this]
    unfold countWindow
    rfl

/-! ### `ForEach`: the pipeline in front of a consumer that stops -/

/-- what is left of the skip/limit window for the pipe state `st` -/
def winRem (q : Query) (st : Pipe) (l : List Doc) : List Doc :=
  if q.limit < 0 then l.drop (q.skip - st.skipped)
  else (l.drop (q.skip - st.skipped)).take (q.limit.toNat - st.consumed)

/-- the skip/limit node in front of a `ForEach` consumer that answers `false` on its `n`-th document:
    the consumer sees the first `max n 1` documents of the window -/
theorem feed_out_some (q : Query) (n : Nat) : (st : Pipe) → (l : List Doc) → st.skipped ≤ q.skip →
    (st.skipped < q.skip → st.consumed = 0) → st.out.length < max n 1 →
    (feed q (some n) st l).out = ((winRem q st l).take (max n 1 - st.out.length)).reverse ++ st.out
  | st, [], _, _, _ => by simp [feed, winRem]
  | st, x :: xs, h1, h2, h3 => by
    simp only [feed, emit, consume]
    by_cases hn : (q.skip > 0 || decide (q.limit ≥ 0)) = true
    · simp only [hn, if_true]
      by_cases hs : st.skipped < q.skip
      · simp only [hs, if_true]
        rw [feed_out_some q n { st with skipped := st.skipped + 1 } xs (by simp; omega) (by intro _; simp; exact h2 hs) h3]
        have : q.skip - st.skipped = (q.skip - (st.skipped + 1)) + 1 := by omega
        simp only [winRem, this, List.drop_succ_cons]
      · have h0 : q.skip - st.skipped = 0 := by omega
        simp only [hs, if_false]
        by_cases hc : (decide (q.limit < 0) || decide ((st.consumed : Int) < q.limit)) = true
        · simp only [hc, if_true, List.length_cons]
          have hw : winRem q st (x :: xs) = x :: winRem q { st with consumed := st.consumed + 1, out := x :: st.out } xs := by
            simp only [winRem, h0, List.drop_zero]
            by_cases hl : q.limit < 0
            · simp only [hl, if_true]
            · simp only [hl, if_false]
              simp only [hl, decide_false, Bool.false_or, decide_eq_true_eq] at hc
              have : q.limit.toNat - st.consumed = (q.limit.toNat - (st.consumed + 1)) + 1 := by omega
              rw [this, List.take_succ_cons]
          rw [hw]
          by_cases hstop : st.out.length + 1 ≥ n
          · simp only [hstop, if_true]
            have : max n 1 - st.out.length = 1 := by omega
            simp [this]
          · simp only [hstop, if_false]
            rw [feed_out_some q n _ xs (by simp; omega) (by intro h; simp at h; omega) (by simp; omega)]
            have : max n 1 - st.out.length = (max n 1 - (st.out.length + 1)) + 1 := by omega
            simp only [List.length_cons]
            rw [this, List.take_succ_cons]
            simp
        · simp only [hc, Bool.false_eq_true, if_false]
          simp only [Bool.or_eq_true, decide_eq_true_eq, not_or] at hc
          have : q.limit.toNat - st.consumed = 0 := by omega
          have hl : ¬ q.limit < 0 := hc.1
          simp [winRem, hl, this]
    · -- no skip/limit node: skip = 0 and limit < 0
      simp only [Bool.or_eq_true, decide_eq_true_eq, not_or, Nat.not_lt, Nat.le_zero_eq, Int.not_le] at hn
      have hsk : q.skip = 0 := by omega
      have hl : q.limit < 0 := hn.2
      have hcond : (q.skip > 0 || decide (q.limit ≥ 0)) = false := by
        simp [hsk]; omega
      simp only [hcond, Bool.false_eq_true, if_false, List.length_cons]
      have hw : winRem q st (x :: xs) = x :: winRem q { st with out := x :: st.out } xs := by
        simp [winRem, hl, hsk]
      rw [hw]
      by_cases hstop : st.out.length + 1 ≥ n
      · simp only [hstop, if_true]
        have : max n 1 - st.out.length = 1 := by omega
        simp [this]
      · simp only [hstop, if_false]
        rw [feed_out_some q n _ xs (by simp; omega) (by intro h; simp at h; omega) (by simp; omega)]
        have : max n 1 - st.out.length = (max n 1 - (st.out.length + 1)) + 1 := by omega
        simp only [List.length_cons]
        rw [this, List.take_succ_cons]
        simp

theorem feed_window_some (q : Query) (n : Nat) (st : Pipe) (l : List Doc)
    (h1 : st.skipped = 0) (h2 : st.consumed = 0) (h3 : st.out = []) :
    (feed q (some n) st l).out.reverse = (Spec.window q.skip q.limit l).take (max n 1) := by
  rw [feed_out_some q n st l (by omega) (fun _ => h2) (by rw [h3]; simp; omega)]
  simp [winRem, Spec.window, h1, h2, h3]

/-- the pipeline behind the input node, for a consumer that stops on its `n`-th document -/
theorem pipeline_some (q : Query) (n : Nat) (ns : Bool) (cands : List Doc) :
    finishPipe q (some n) ns (foldStop (onDocOf likeFn fnFam q (some n) ns) {} cands) =
      (Spec.window q.skip q.limit
        (if ns then sortDocs q.sort (cands.filter (fun d => satOpt likeFn fnFam d q.crit))
         else cands.filter (fun d => satOpt likeFn fnFam d q.crit))).take (max n 1) := by
  unfold finishPipe
  cases ns with
  | false =>
    simp only [Bool.false_eq_true, if_false]
    unfold onDocOf
    simp only [Bool.false_eq_true, if_false]
    rw [foldStop_emit q (some n) (fun d => satOpt likeFn fnFam d q.crit) {} cands]
    exact feed_window_some q n {} _ rfl rfl rfl
  | true =>
    simp only [if_true]
    unfold onDocOf
    simp only [if_true]
    rw [foldStop_collect (fun d => satOpt likeFn fnFam d q.crit) {} cands]
    simp only [List.append_nil, List.reverse_reverse]
    exact feed_window_some q n _ _ rfl rfl rfl

/-- **ForEach** under a full-scan plan: with a consumer that never stops it sees `FindAll`; a consumer
    that answers `false` on its `n`-th document sees the first `max n 1` documents of it -/
theorem forEach_refines_full (s : Spec.State) (σ : KVS) (hw : WF s) (hr : Rep s σ) (q : Query) (k : Option Nat)
    (coll : Spec.Coll) (hl : Spec.lookup q.coll s = some coll)
    (hplan : choosePlan coll.indexes q = (.full, false)) :
    (withTx false (Op.body likeFn fnFam (.forEach q k)) noFault σ).1 = (Spec.step likeFn fnFam s (.forEach q k)).1 := by
  rw [withTx_read_noFault]
  obtain ⟨hc, _⟩ := wf_lookup_clean s hw q.coll coll hl
  obtain ⟨c2, h2, _⟩ := iterateDocs_run_full likeFn fnFam s (ctx0 false σ) hw hr q k coll hc hl hplan
  simp only [Op.body]
  rw [bind_run _ _ _ c2 _ h2]
  simp only [Spec.step, Spec.withColl, hl]
  cases k with
  | none => rw [finishPipe_spec]; rfl
  | some n => rw [pipeline_some, findAll_eq_window]; rfl

/-! ### a missing collection -/

theorem iterateDocs_body_missing (s : Spec.State) (σ : KVS) (hr : Rep s σ) (q : Query) (k : Option Nat)
    (f : List Doc → StoreM Out) (hl : Spec.lookup q.coll s = none) :
    (withTx false (iterateDocs likeFn fnFam q k >>= f) noFault σ).1 = .err .collNotExist := by
  rw [withTx_read_noFault]
  have hm : kvGet (ctx0 false σ).work (metaKey q.coll) = none := by
    have := rep_meta s σ hr q.coll
    rw [hl] at this
    exact this
  obtain ⟨c1, h1⟩ := iterateDocs_missing likeFn fnFam q k (ctx0 false σ) hm
  rw [bind_run_err' _ _ _ _ _ h1]

theorem forEach_missing (s : Spec.State) (σ : KVS) (hr : Rep s σ) (q : Query) (k : Option Nat)
    (hl : Spec.lookup q.coll s = none) :
    (withTx false (Op.body likeFn fnFam (.forEach q k)) noFault σ).1 = (Spec.step likeFn fnFam s (.forEach q k)).1 := by
  simp only [Spec.step, Spec.withColl, hl]
  exact iterateDocs_body_missing likeFn fnFam s σ hr q k _ hl

theorem findFirst_missing (s : Spec.State) (σ : KVS) (hr : Rep s σ) (q : Query)
    (hl : Spec.lookup q.coll s = none) :
    (withTx false (Op.body likeFn fnFam (.findFirst q)) noFault σ).1 = (Spec.step likeFn fnFam s (.findFirst q)).1 := by
  simp only [Spec.step, Spec.withColl, hl]
  exact iterateDocs_body_missing likeFn fnFam s σ hr { q with limit := 1 } none _ hl

theorem exists_missing (s : Spec.State) (σ : KVS) (hr : Rep s σ) (q : Query)
    (hl : Spec.lookup q.coll s = none) :
    (withTx false (Op.body likeFn fnFam (.exists_ q)) noFault σ).1 = (Spec.step likeFn fnFam s (.exists_ q)).1 := by
  simp only [Spec.step, Spec.withColl, hl]
  exact iterateDocs_body_missing likeFn fnFam s σ hr { q with limit := 1 } none _ hl

theorem findAll_missing' (s : Spec.State) (σ : KVS) (hr : Rep s σ) (q : Query)
    (hl : Spec.lookup q.coll s = none) :
    (withTx false (Op.body likeFn fnFam (.findAll q)) noFault σ).1 = (Spec.step likeFn fnFam s (.findAll q)).1 := by
  simp only [Spec.step, Spec.withColl, hl]
  exact findAll_missing likeFn fnFam s σ hr q hl

theorem count_missing (s : Spec.State) (σ : KVS) (hr : Rep s σ) (q : Query)
    (hl : Spec.lookup q.coll s = none) :
    (withTx false (Op.body likeFn fnFam (.count q)) noFault σ).1 = (Spec.step likeFn fnFam s (.count q)).1 := by
  simp only [Spec.step, Spec.withColl, hl]
  cases hcrit : q.crit with
  | some cr =>
    have := iterateDocs_body_missing likeFn fnFam s σ hr q none (fun ds => pure (.int ds.length)) hl
    simp only [Op.body, hcrit]
    exact this
  | none =>
    rw [withTx_read_noFault]
    have hm : kvGet (ctx0 false σ).work (metaKey q.coll) = none := by
      have := rep_meta s σ hr q.coll
      rw [hl] at this
      exact this
    obtain ⟨c1, h1⟩ := getMeta_run_none' q.coll (ctx0 false σ) hm
    simp only [Op.body, hcrit]
    rw [bind_run_err' _ _ _ _ _ h1]

/-! ### `ExportCollection`: `HasCollection`, then `FindAll` of the whole collection -/

theorem exportDocs_refines (s : Spec.State) (σ : KVS) (hw : WF s) (hr : Rep s σ) (c : Bytes) :
    (Op.exec likeFn fnFam (.exportDocs c) σ noFault).1 = (Spec.step likeFn fnFam s (.exportDocs c)).1 := by
  have h1 := hasCollection_refines likeFn fnFam s σ hr c
  have hφ : (fun n => noFault (n + 2)) = noFault := rfl
  simp only [Op.exec, execExport, hφ]
  simp only [Spec.step, Spec.withColl] at h1 ⊢
  cases hl : Spec.lookup c s with
  | none =>
    rw [hl] at h1
    revert h1
    generalize withTx false (Op.body likeFn fnFam (.hasCollection c)) noFault σ = r1
    obtain ⟨o1, s1, f1, t1⟩ := r1
    intro h1
    simp only [Option.isSome_none] at h1
    subst h1
    rfl
  | some coll =>
    rw [hl] at h1
    have h2 := findAll_refines_full likeFn fnFam s σ hw hr { coll := c } coll hl (choosePlan_nocrit _ _ rfl rfl)
    simp only [Spec.step, Spec.withColl, hl] at h2
    revert h1 h2
    generalize withTx false (Op.body likeFn fnFam (.hasCollection c)) noFault σ = r1
    generalize withTx false (Op.body likeFn fnFam (.findAll { coll := c })) noFault σ = r2
    obtain ⟨o1, s1, f1, t1⟩ := r1
    obtain ⟨o2, s2, f2, t2⟩ := r2
    intro h1 h2
    simp only [Option.isSome_some] at h1 h2
    subst h1 h2
    rfl

/-! ## 2. determined calls -/

/-- the collection the query reads, if it exists, is scanned in full -/
def FullPlan (s : Spec.State) (q : Query) : Prop :=
  ∀ coll, Spec.lookup q.coll s = some coll → choosePlan coll.indexes q = (.full, false)

/-- the calls whose answer is fully determined by the specification: every call except a query that
    the planner serves from an index (whose result order may differ from the specification's
    representative).  `CreateCollectionByQuery` runs its query once the (empty) target exists. -/
def Op.Determined (s : Spec.State) : Op → Prop
  | .findAll q => FullPlan s q
  | .forEach q _ => FullPlan s q
  | .findFirst q => FullPlan s q
  | .exists_ q => FullPlan s q
  | .count q => FullPlan s q
  | .update q _ => FullPlan s q
  | .delete q => FullPlan s q
  | .createCollectionByQuery c q _ => FullPlan (Spec.insert c ({} : Spec.Coll) s) q
  | _ => True

theorem fullPlan_of_noindex (s : Spec.State) (h : ∀ c coll, Spec.lookup c s = some coll → coll.indexes = [])
    (q : Query) : FullPlan s q := by
  intro coll hl
  rw [h q.coll coll hl]
  exact choosePlan_noindex q

/-- every operation on a database without indexes is determined -/
theorem determined_of_noindex (s : Spec.State) (h : ∀ c coll, Spec.lookup c s = some coll → coll.indexes = [])
    (op : Op) : Op.Determined s op := by
  cases op <;> try trivial
  case createCollectionByQuery c q fresh =>
    apply fullPlan_of_noindex
    intro c' coll hl
    rw [Spec.lookup_insert'] at hl
    by_cases hc : c' = c
    · rw [if_pos hc] at hl
      simp only [Option.some.injEq] at hl
      rw [← hl]
    · rw [if_neg hc] at hl
      exact h c' coll hl
  all_goals exact fullPlan_of_noindex s h _

/-! ## 3. one public call -/

theorem Spec.insert_insert {α} (k : Bytes) (x y : α) : (m : List (Bytes × α)) →
    Spec.insert k x (Spec.insert k y m) = Spec.insert k x m
  | [] => by simp [Spec.insert, lexLt_irrefl']
  | (k2, v2) :: t => by
    simp only [Spec.insert]
    by_cases h1 : lexLt k k2 = true
    · simp [h1, Spec.insert, lexLt_irrefl']
    · simp only [h1, Bool.false_eq_true, if_false]
      by_cases h2 : k = k2
      · simp [h2, Spec.insert, lexLt_irrefl']
      · simp only [h2, if_false, Spec.insert, h1, Bool.false_eq_true]
        rw [Spec.insert_insert k x y t]

/-- **CreateCollectionByQuery refines the specification** when the source is scanned in full -/
theorem createCollectionByQuery_refines (s : Spec.State) (σ : KVS) (hw : WF s) (hr : Rep s σ) (c : Bytes) (hc : Clean c)
    (q : Query) (fresh : List Bytes) (hdet : FullPlan (Spec.insert c ({} : Spec.Coll) s) q) :
    let r := withTx true (Op.body likeFn fnFam (.createCollectionByQuery c q fresh)) noFault σ
    let sp := Spec.step likeFn fnFam s (.createCollectionByQuery c q fresh)
    r.1 = sp.1 ∧ Rep sp.2 r.2.1 ∧ WF sp.2 := by
  simp only
  have hm := rep_meta s σ hr c
  have herr : ∀ e c', (Op.body likeFn fnFam (.createCollectionByQuery c q fresh)) noFault (ctx0 true σ) = (.err e, c') →
      (withTx true (Op.body likeFn fnFam (.createCollectionByQuery c q fresh)) noFault σ).1 = .err e ∧
      Rep s (withTx true (Op.body likeFn fnFam (.createCollectionByQuery c q fresh)) noFault σ).2.1 ∧ WF s := by
    intro e c' hb
    have ht := withTx_err _ σ _ _ hb
    exact ⟨ht.1, by rw [ht.2]; exact hr, hw⟩
  cases hl : Spec.lookup c s with
  | some coll =>
    rw [hl] at hm
    obtain ⟨c1, h1, s1⟩ := get_run (metaKey c) (ctx0 true σ)
    simp only [Spec.step, hl, Option.isSome_some, if_true]
    refine herr .collExist c1 ?_
    simp only [Op.body]
    apply bind_run_err'
    unfold createColl
    rw [bind_run _ _ _ c1 _ h1]
    have : kvGet (ctx0 true σ).work (metaKey c) = some (.cmeta ⟨coll.docs.length, coll.indexes⟩) := hm
    rw [this]; rfl
  | none =>
    obtain ⟨c1, h1, hsk1, hr1, hw1⟩ := createColl_run s (ctx0 true σ) hw hr c hc hl
    simp only [Spec.step, hl, Option.isSome_none, Bool.false_eq_true, if_false]
    cases hlq : Spec.lookup q.coll (Spec.insert c ({} : Spec.Coll) s) with
    | none =>
      have hmq : kvGet c1.work (metaKey q.coll) = none := by rw [rep_meta _ c1.work hr1 q.coll, hlq]; rfl
      obtain ⟨c2, h2⟩ := iterateDocs_missing likeFn fnFam q none c1 hmq
      refine herr .collNotExist c2 ?_
      simp only [Op.body]
      rw [bind_run _ _ _ c1 _ h1]
      exact bind_run_err' _ _ _ _ _ h2
    | some src =>
      obtain ⟨c2, h2, s2⟩ := iterateDocs_full_spec likeFn fnFam _ c1 hw1 hr1 q src hlq (hdet src hlq)
      have hwk2 : c2.work = c1.work := s2.1
      have hr2 : Rep (Spec.insert c ({} : Spec.Coll) s) c2.work := by rw [hwk2]; exact hr1
      have hlc : Spec.lookup c (Spec.insert c ({} : Spec.Coll) s) = some ({} : Spec.Coll) := by
        rw [Spec.lookup_insert']; simp
      have hparts := parts_of_owned c ({} : Spec.Coll) c2.work
        (fun k v ho => rep_owned _ c2.work hw1 hr2 c _ hlc k v ho)
      have hins := insertDocs_run c hc [] (assignIds (Spec.findAll likeFn fnFam q src) fresh) [] c2 hr2.1 hparts.1 hparts.2
        (by simp [Spec.KeysSorted]) (by simp)
      simp only [Spec.createWith, hl, Option.isSome_none, Bool.false_eq_true, if_false]
      cases hia : Spec.insertAll [] (assignIds (Spec.findAll likeFn fnFam q src) fresh) with
      | err e =>
        obtain ⟨c3, h3⟩ := hins.2 e hia
        refine herr e c3 ?_
        simp only [Op.body]
        rw [bind_run _ _ _ c1 _ h1, bind_run _ _ _ c2 _ h2]
        exact bind_run_err' _ _ _ _ _ h3
      | ok docs' =>
        obtain ⟨c3, h3, hsk3, hs3, hf3, ho3, hso3, hid3⟩ := hins.1 docs' hia
        have hb : (Op.body likeFn fnFam (.createCollectionByQuery c q fresh)) noFault (ctx0 true σ) = (.ok .unit, c3) := by
          simp only [Op.body]
          rw [bind_run _ _ _ c1 _ h1, bind_run _ _ _ c2 _ h2, bind_run _ _ _ c3 _ h3]
          rfl
        have hsk : c3.skipCommit = false := by rw [hsk3, s2.2.2, hsk1]; rfl
        have ht := withTx_ok _ σ _ _ hb hsk
        have := rep_insert_coll _ c2.work c3.work hw1 hr2 c hc ⟨[], docs'⟩
          (collWF_of_parts [] docs' hso3 hid3 (by simp) (by simp)) hs3 hf3 ho3
        rw [Spec.insert_insert] at this
        dsimp only
        rw [ht.1, ht.2]
        exact ⟨rfl, this.1, this.2⟩

/-! ### reads leave both states alone -/

theorem step_read_state (s : Spec.State) (op : Op) (hwf : op.isWrite = false) :
    (Spec.step likeFn fnFam s op).2 = s := by
  cases op <;> first
    | (simp [Op.isWrite] at hwf; done)
    | (simp only [Spec.step, Spec.withColl] <;> first | rfl | (split <;> rfl))

theorem read_refines (op : Op) (hwf : op.isWrite = false) (s : Spec.State) (σ : KVS) (hw : WF s) (hr : Rep s σ)
    (h1 : (op.exec likeFn fnFam σ noFault).1 = (Spec.step likeFn fnFam s op).1) :
    (op.exec likeFn fnFam σ noFault).1 = (Spec.step likeFn fnFam s op).1 ∧
      Rep (Spec.step likeFn fnFam s op).2 (op.exec likeFn fnFam σ noFault).2.1 ∧ WF (Spec.step likeFn fnFam s op).2 := by
  rw [step_read_state likeFn fnFam s op hwf, Props.C04.read_tx_pure likeFn fnFam op hwf]
  exact ⟨h1, hr, hw⟩

theorem findById_missing (s : Spec.State) (σ : KVS) (hr : Rep s σ) (c id : Bytes) (hl : Spec.lookup c s = none) :
    (withTx false (Op.body likeFn fnFam (.findById c id)) noFault σ).1 =
      (Spec.step likeFn fnFam s (.findById c id)).1 := by
  rw [withTx_read_noFault]
  obtain ⟨c1, h1, s1⟩ := get_run (metaKey c) (ctx0 false σ)
  simp only [Op.body]
  rw [bind_run _ _ _ c1 _ h1]
  have hm : kvGet (ctx0 false σ).work (metaKey c) = none := by
    have := rep_meta s σ hr c
    rw [hl] at this
    exact this
  rw [hm]
  simp only [Spec.step, Spec.withColl, hl]
  rfl

/-! ### the transaction(s) of a routed operation -/

theorem exec_refines (op : Op) (hop : OpOK op) (hroute : op.route = op)
    (s : Spec.State) (σ : KVS) (hw : WF s) (hr : Rep s σ) (hdet : Op.Determined s op) :
    (op.exec likeFn fnFam σ noFault).1 = (Spec.step likeFn fnFam s op).1 ∧
      Rep (Spec.step likeFn fnFam s op).2 (op.exec likeFn fnFam σ noFault).2.1 ∧ WF (Spec.step likeFn fnFam s op).2 := by
  cases op with
  | createCollection c => exact createCollection_refines likeFn fnFam s σ hw hr c hop
  | dropCollection c => exact dropCollection_refines likeFn fnFam s σ hw hr c
  | listCollections =>
    have h := listCollections_refines likeFn fnFam s σ hw hr
    have hs : (Spec.step likeFn fnFam s .listCollections).2 = s := by simp only [Spec.step]
    rw [hs]
    refine ⟨h.1, ?_, hw⟩
    show Rep s (withTx true (Op.body likeFn fnFam .listCollections) noFault σ).2.1
    rw [h.2]; exact hr
  | insert c docs fresh => exact insert_refines likeFn fnFam s σ hw hr c docs fresh
  | save c d fresh =>
    exfalso
    rcases route_save c d fresh with h | h <;> rw [h] at hroute <;> simp at hroute
  | replaceById c id d =>
    exfalso
    simp [Op.route] at hroute
  | deleteById c id => exact deleteById_refines likeFn fnFam s σ hw hr c id
  | updateById c id u => exact updateById_refines likeFn fnFam s σ hw hr c id u
  | update q u =>
    cases hl : Spec.lookup q.coll s with
    | none => exact update_missing likeFn fnFam s σ hw hr q u hl
    | some coll => exact update_refines_fullscan likeFn fnFam s σ hw hr q u coll hl (hdet coll hl)
  | delete q =>
    cases hl : Spec.lookup q.coll s with
    | none => exact delete_missing likeFn fnFam s σ hw hr q hl
    | some coll => exact delete_refines_fullscan likeFn fnFam s σ hw hr q coll hl (hdet coll hl)
  | createIndex c f => exact createIndex_refines likeFn fnFam s σ hw hr c f hop
  | dropIndex c f => exact dropIndex_refines likeFn fnFam s σ hw hr c f
  | createCollectionByQuery c q fresh =>
    exact createCollectionByQuery_refines likeFn fnFam s σ hw hr c hop q fresh hdet
  | importDocs c docs fresh => exact importDocs_refines likeFn fnFam s σ hw hr c hop docs fresh
  | hasCollection c =>
    exact read_refines likeFn fnFam _ rfl s σ hw hr (hasCollection_refines likeFn fnFam s σ hr c)
  | findAll q =>
    refine read_refines likeFn fnFam _ rfl s σ hw hr ?_
    cases hl : Spec.lookup q.coll s with
    | none => exact findAll_missing' likeFn fnFam s σ hr q hl
    | some coll => exact findAll_refines_full likeFn fnFam s σ hw hr q coll hl (hdet coll hl)
  | forEach q k =>
    refine read_refines likeFn fnFam _ rfl s σ hw hr ?_
    cases hl : Spec.lookup q.coll s with
    | none => exact forEach_missing likeFn fnFam s σ hr q k hl
    | some coll => exact forEach_refines_full likeFn fnFam s σ hw hr q k coll hl (hdet coll hl)
  | findFirst q =>
    refine read_refines likeFn fnFam _ rfl s σ hw hr ?_
    cases hl : Spec.lookup q.coll s with
    | none => exact findFirst_missing likeFn fnFam s σ hr q hl
    | some coll => exact findFirst_refines_full likeFn fnFam s σ hw hr q coll hl (hdet coll hl)
  | exists_ q =>
    refine read_refines likeFn fnFam _ rfl s σ hw hr ?_
    cases hl : Spec.lookup q.coll s with
    | none => exact exists_missing likeFn fnFam s σ hr q hl
    | some coll => exact exists_refines_full likeFn fnFam s σ hw hr q coll hl (hdet coll hl)
  | count q =>
    refine read_refines likeFn fnFam _ rfl s σ hw hr ?_
    cases hl : Spec.lookup q.coll s with
    | none => exact count_missing likeFn fnFam s σ hr q hl
    | some coll => exact count_refines_full likeFn fnFam s σ hw hr q coll hl (hdet coll hl)
  | findById c id =>
    refine read_refines likeFn fnFam _ rfl s σ hw hr ?_
    cases hl : Spec.lookup c s with
    | none => exact findById_missing likeFn fnFam s σ hr c id hl
    | some coll => exact findById_refines likeFn fnFam s σ hw hr c id (wf_lookup_clean s hw c coll hl).1
  | hasIndex c f =>
    exact read_refines likeFn fnFam _ rfl s σ hw hr (hasIndex_refines likeFn fnFam s σ hr c f)
  | listIndexes c =>
    exact read_refines likeFn fnFam _ rfl s σ hw hr (listIndexes_refines likeFn fnFam s σ hr c)
  | exportDocs c =>
    exact read_refines likeFn fnFam _ rfl s σ hw hr (exportDocs_refines likeFn fnFam s σ hw hr c)

/-! ### routing and the checks made before the transaction -/

theorem step_route (s : Spec.State) (op : Op) (hpre : op.pre = none) :
    Spec.step likeFn fnFam s op = Spec.step likeFn fnFam s op.route := by
  cases op <;> try rfl
  case save c d fresh =>
    conv => lhs; rw [Spec.step]
    simp only [Op.route]
    rw [apply_ite (Spec.step likeFn fnFam s)]
    congr 1
    conv => lhs; rw [Spec.step]
    simp
  case replaceById c id d =>
    simp only [Op.pre] at hpre
    have hid : ¬ d.objectId ≠ id := by
      intro h
      rw [if_pos h] at hpre
      cases hpre
    conv => lhs; rw [Spec.step]
    rw [if_neg hid]
    rfl

theorem pre_some (s : Spec.State) (op : Op) (e : Err) (hpre : op.pre = some e) :
    Spec.step likeFn fnFam s op = (.err e, s) := by
  cases op <;> try (simp [Op.pre] at hpre; done)
  case replaceById c id d =>
    simp only [Op.pre] at hpre
    by_cases h : d.objectId ≠ id
    · rw [if_pos h] at hpre
      cases hpre
      rw [Spec.step, if_pos h]
    · rw [if_neg h] at hpre
      cases hpre
  case importDocs c docs fresh =>
    cases docs with
    | none =>
      simp only [Op.pre] at hpre
      cases hpre
      simp only [Spec.step]
    | some ds => simp [Op.pre] at hpre

theorem determined_route (s : Spec.State) (op : Op) (h : Op.Determined s op) : Op.Determined s op.route := by
  cases op <;> try exact h
  case save c d fresh =>
    rcases route_save c d fresh with h | h <;> rw [h] <;> trivial

/-- **One public call refines the specification**: a fault-free call of a determined operation on an
    open handle answers what the specification answers, and leaves a store that represents the
    specification's next state. -/
theorem refine_step (op : Op) (hop : OpOK op) (s : Spec.State) (σ : DBState) (hcl : σ.closed = false)
    (hw : WF s) (hr : Rep s σ.kv) (hdet : Op.Determined s op) :
    let r := op.run likeFn fnFam σ noFault
    let sp := Spec.step likeFn fnFam s op
    r.out = sp.1 ∧ Rep sp.2 r.state.kv ∧ WF sp.2 ∧ r.state.closed = false := by
  simp only
  unfold Op.run
  simp only [hcl, Bool.false_eq_true, if_false]
  cases hpre : op.pre with
  | some e =>
    dsimp only
    rw [pre_some likeFn fnFam s op e hpre]
    exact ⟨rfl, hr, hw, hcl⟩
  | none =>
    dsimp only
    rw [step_route likeFn fnFam s op hpre]
    have := exec_refines likeFn fnFam op.route (route_ok op hop) (route_idem op) s σ.kv hw hr
      (determined_route s op hdet)
    exact ⟨this.1, this.2.1, this.2.2, rfl⟩

/-! ## 4. histories -/

/-- the model on a history of fault-free calls: the answers, call by call, and the final handle state -/
def modelRun : List Op → DBState → List (Res Out) × DBState
  | [], σ => ([], σ)
  | op :: ops, σ =>
    let r := op.run likeFn fnFam σ noFault
    let rest := modelRun ops r.state
    (r.out :: rest.1, rest.2)

/-- the specification on a history: the answers, call by call, and the final abstract state -/
def specRun : List Op → Spec.State → List (Res Out) × Spec.State
  | [], s => ([], s)
  | op :: ops, s =>
    let sp := Spec.step likeFn fnFam s op
    let rest := specRun ops sp.2
    (sp.1 :: rest.1, rest.2)

/-- every call of the history is determined in the specification state reached before it -/
def AllDetermined : List Op → Spec.State → Prop
  | [], _ => True
  | op :: ops, s => Op.Determined s op ∧ AllDetermined ops (Spec.step likeFn fnFam s op).2

/-- **Refinement of histories**: along any finite history of determined calls in the supported
    domain, the fault-free model gives the specification's answers call by call, and the final store
    represents the final specification state. -/
theorem refine_history : (ops : List Op) → (∀ op ∈ ops, OpOK op) → (s : Spec.State) → (σ : DBState) →
    σ.closed = false → WF s → Rep s σ.kv → AllDetermined likeFn fnFam ops s →
    (modelRun likeFn fnFam ops σ).1 = (specRun likeFn fnFam ops s).1 ∧
      Rep (specRun likeFn fnFam ops s).2 (modelRun likeFn fnFam ops σ).2.kv ∧
      WF (specRun likeFn fnFam ops s).2 ∧ (modelRun likeFn fnFam ops σ).2.closed = false
  | [], _, s, σ, hcl, hw, hr, _ => ⟨rfl, hr, hw, hcl⟩
  | op :: ops, hok, s, σ, hcl, hw, hr, hdet => by
    obtain ⟨h1, h2, h3, h4⟩ := refine_step likeFn fnFam op (hok op (by simp)) s σ hcl hw hr hdet.1
    obtain ⟨i1, i2, i3, i4⟩ := refine_history ops (fun o ho => hok o (List.mem_cons_of_mem _ ho))
      (Spec.step likeFn fnFam s op).2 (op.run likeFn fnFam σ noFault).state h4 h3 h2 hdet.2
    simp only [modelRun, specRun]
    exact ⟨by rw [h1, i1], i2, i3, i4⟩

/-- … in particular from the empty database -/
theorem refine_from_empty (ops : List Op) (hok : ∀ op ∈ ops, OpOK op)
    (hdet : AllDetermined likeFn fnFam ops []) :
    (modelRun likeFn fnFam ops {}).1 = (specRun likeFn fnFam ops []).1 ∧
      Rep (specRun likeFn fnFam ops []).2 (modelRun likeFn fnFam ops {}).2.kv ∧
      WF (specRun likeFn fnFam ops []).2 := by
  obtain ⟨h1, h2, h3, _⟩ := refine_history likeFn fnFam ops hok [] {} rfl wf_empty rep_empty hdet
  exact ⟨h1, h2, h3⟩

end CV
