import Clover.Proofs.RefineStep
import Clover.Proofs.Uniform
import Clover.Props.C04
/-! # Refinement under arbitrary fault schedules

`refine_step` / `refine_history` speak about fault-free calls.  Here they are extended to calls run
under ANY fault schedule `φ : Faults`: a call during which a store fault fired returns an error and
changes nothing (`Props.C04.fault_reported`), a call during which none fired is the fault-free call
(`run_unfired`) and therefore refines the specification.  Along a history the specification steps on
exactly the calls in which no fault fired. -/
namespace CV
open OC Keys StoreM

variable (likeFn : LikeFn) (fnFam : FnFam)

/-! ## 1. one call -/

/-- **One public call under an arbitrary fault schedule**: if a fault fired the call returns an error
    and the handle state is untouched; if none fired the call answers what the specification answers
    and leaves a store that represents the specification's next state. -/
theorem refine_step_faults (op : Op) (hop : OpOK op) (s : Spec.State) (σ : DBState) (hcl : σ.closed = false)
    (hw : WF s) (hr : Rep s σ.kv) (hdet : Op.Determined s op) (φ : Faults) :
    let r := op.run likeFn fnFam σ φ
    (r.fired = true → r.out.isErr = true ∧ r.state = σ) ∧
    (r.fired = false → r.out = (Spec.step likeFn fnFam s op).1 ∧
      Rep (Spec.step likeFn fnFam s op).2 r.state.kv ∧ WF (Spec.step likeFn fnFam s op).2 ∧
      r.state.closed = false) := by
  intro r
  refine ⟨fun h => Props.C04.fault_reported likeFn fnFam op σ φ h, fun h => ?_⟩
  have e : r = op.run likeFn fnFam σ noFault := run_unfired likeFn fnFam op σ φ h
  rw [e]
  exact refine_step likeFn fnFam op hop s σ hcl hw hr hdet

/-! ## 2. histories -/

/-- the model on a history in which every call has its own fault schedule: per call the answer and
    whether a fault fired, and the final handle state -/
def modelRunF : List (Op × Faults) → DBState → List (Res Out × Bool) × DBState
  | [], σ => ([], σ)
  | (op, φ) :: rest, σ =>
    let r := op.run likeFn fnFam σ φ
    let t := modelRunF rest r.state
    ((r.out, r.fired) :: t.1, t.2)

/-- the calls of a history during which no fault fired (found by running the model) -/
def survivors : List (Op × Faults) → DBState → List Op
  | [], _ => []
  | (op, φ) :: rest, σ =>
    let r := op.run likeFn fnFam σ φ
    if r.fired then survivors rest r.state else op :: survivors rest r.state

/-- model and specification side by side: the specification steps on exactly the calls during which
    no fault fired.  Per call: the model's answer, and the specification's answer (`none` for a
    faulted call, on which the specification does not step); then the two final states. -/
def lockstep : List (Op × Faults) → DBState → Spec.State →
    List (Res Out × Option (Res Out)) × DBState × Spec.State
  | [], σ, s => ([], σ, s)
  | (op, φ) :: rest, σ, s =>
    let r := op.run likeFn fnFam σ φ
    if r.fired then
      let t := lockstep rest r.state s
      ((r.out, none) :: t.1, t.2)
    else
      let sp := Spec.step likeFn fnFam s op
      let t := lockstep rest r.state sp.2
      ((r.out, some sp.1) :: t.1, t.2)

/-- what one entry of `lockstep` must satisfy: a faulted call (no specification answer) returned an
    error, an unfaulted call returned exactly the specification's answer -/
def CallAgrees : Res Out × Option (Res Out) → Prop
  | (out, none) => out.isErr = true
  | (out, some specOut) => out = specOut

/-- the final handle state of `lockstep` is the model's -/
theorem lockstep_model : (h : List (Op × Faults)) → (σ : DBState) → (s : Spec.State) →
    (lockstep likeFn fnFam h σ s).2.1 = (modelRunF likeFn fnFam h σ).2
  | [], _, _ => rfl
  | (op, φ) :: rest, σ, s => by
    by_cases hf : (op.run likeFn fnFam σ φ).fired = true
    · simp only [lockstep, modelRunF, hf, if_true]
      exact lockstep_model rest _ _
    · simp only [lockstep, modelRunF, hf, Bool.false_eq_true, if_false]
      exact lockstep_model rest _ _

/-- the final specification state of `lockstep` is the specification run on the unfaulted calls -/
theorem lockstep_spec : (h : List (Op × Faults)) → (σ : DBState) → (s : Spec.State) →
    (lockstep likeFn fnFam h σ s).2.2 = (specRun likeFn fnFam (survivors likeFn fnFam h σ) s).2
  | [], _, _ => rfl
  | (op, φ) :: rest, σ, s => by
    by_cases hf : (op.run likeFn fnFam σ φ).fired = true
    · simp only [lockstep, survivors, hf, if_true]
      exact lockstep_spec rest _ _
    · simp only [lockstep, survivors, specRun, hf, Bool.false_eq_true, if_false]
      exact lockstep_spec rest _ _

/-- **Faulted calls can be erased**: a history run under arbitrary fault schedules ends in the same
    handle state as the fault-free run of just those calls during which no fault fired, and every
    faulted call returned an error.  (No domain hypothesis is needed.) -/
theorem faults_erasable : (h : List (Op × Faults)) → (σ : DBState) →
    (modelRunF likeFn fnFam h σ).2 = (modelRun likeFn fnFam (survivors likeFn fnFam h σ) σ).2 ∧
    (∀ x ∈ (modelRunF likeFn fnFam h σ).1, x.2 = true → x.1.isErr = true) ∧
    ((modelRunF likeFn fnFam h σ).1.filter (fun x => !x.2)).map (fun x => x.1) =
      (modelRun likeFn fnFam (survivors likeFn fnFam h σ) σ).1
  | [], _ => ⟨rfl, fun _ hx => by simp [modelRunF] at hx, rfl⟩
  | (op, φ) :: rest, σ => by
    by_cases hf : (op.run likeFn fnFam σ φ).fired = true
    · obtain ⟨herr, hst⟩ := Props.C04.fault_reported likeFn fnFam op σ φ hf
      obtain ⟨i1, i2, i3⟩ := faults_erasable rest (op.run likeFn fnFam σ φ).state
      rw [hst] at i1 i2 i3
      simp only [modelRunF, survivors, hf, if_true, hst]
      refine ⟨i1, ?_, ?_⟩
      · intro x hx
        rcases List.mem_cons.1 hx with rfl | hx
        · exact fun _ => herr
        · exact i2 x hx
      · simpa [List.filter_cons] using i3
    · have hf' : (op.run likeFn fnFam σ φ).fired = false := by simpa using hf
      have e := run_unfired likeFn fnFam op σ φ hf'
      obtain ⟨i1, i2, i3⟩ := faults_erasable rest (op.run likeFn fnFam σ φ).state
      simp only [modelRunF, survivors, modelRun, hf', Bool.false_eq_true, if_false]
      rw [e] at i1 i2 i3 ⊢
      refine ⟨i1, ?_, ?_⟩
      · intro x hx
        rcases List.mem_cons.1 hx with rfl | hx
        · intro hx2
          cases hx2
        · exact i2 x hx
      · simp only [List.filter_cons, Bool.not_false, if_true, List.map_cons]
        rw [i3]

/-- every UNFAULTED call of the history is determined in the specification state reached before it
    (the specification having stepped on the earlier unfaulted calls only) -/
def AllDeterminedF (h : List (Op × Faults)) (σ : DBState) (s : Spec.State) : Prop :=
  AllDetermined likeFn fnFam (survivors likeFn fnFam h σ) s

/-- **Refinement of histories under arbitrary fault schedules**: along any finite history of calls
    in the supported domain, each with an arbitrary fault schedule, every faulted call returns an
    error and the specification does not step on it; every unfaulted call returns exactly the
    specification's answer; and the final store represents the final specification state. -/
theorem refine_history_faults : (h : List (Op × Faults)) → (∀ x ∈ h, OpOK x.1) → (s : Spec.State) →
    (σ : DBState) → σ.closed = false → WF s → Rep s σ.kv → AllDeterminedF likeFn fnFam h σ s →
    (∀ x ∈ (lockstep likeFn fnFam h σ s).1, CallAgrees x) ∧
      Rep (lockstep likeFn fnFam h σ s).2.2 (lockstep likeFn fnFam h σ s).2.1.kv ∧
      WF (lockstep likeFn fnFam h σ s).2.2 ∧ (lockstep likeFn fnFam h σ s).2.1.closed = false
  | [], _, s, σ, hcl, hw, hr, _ => ⟨fun _ hx => by simp [lockstep] at hx, hr, hw, hcl⟩
  | (op, φ) :: rest, hok, s, σ, hcl, hw, hr, hdet => by
    have hok' : ∀ x ∈ rest, OpOK x.1 := fun x hx => hok x (List.mem_cons_of_mem _ hx)
    by_cases hf : (op.run likeFn fnFam σ φ).fired = true
    · obtain ⟨herr, hst⟩ := Props.C04.fault_reported likeFn fnFam op σ φ hf
      have hdet' : AllDeterminedF likeFn fnFam rest (op.run likeFn fnFam σ φ).state s := by
        simpa only [AllDeterminedF, survivors, hf, if_true] using hdet
      obtain ⟨i1, i2, i3, i4⟩ := refine_history_faults rest hok' s (op.run likeFn fnFam σ φ).state
        (by rw [hst]; exact hcl) hw (by rw [hst]; exact hr) hdet'
      simp only [lockstep, hf, if_true]
      refine ⟨?_, i2, i3, i4⟩
      intro x hx
      rcases List.mem_cons.1 hx with rfl | hx
      · exact herr
      · exact i1 x hx
    · have hf' : (op.run likeFn fnFam σ φ).fired = false := by simpa using hf
      have hdet' : Op.Determined s op ∧ AllDeterminedF likeFn fnFam rest (op.run likeFn fnFam σ φ).state
          (Spec.step likeFn fnFam s op).2 := by
        simpa only [AllDeterminedF, survivors, hf', Bool.false_eq_true, if_false, AllDetermined] using hdet
      obtain ⟨h1, h2, h3, h4⟩ :=
        (refine_step_faults likeFn fnFam op (hok (op, φ) (by simp)) s σ hcl hw hr hdet'.1 φ).2 hf'
      obtain ⟨i1, i2, i3, i4⟩ := refine_history_faults rest hok' (Spec.step likeFn fnFam s op).2
        (op.run likeFn fnFam σ φ).state h4 h3 h2 hdet'.2
      simp only [lockstep, hf', Bool.false_eq_true, if_false]
      refine ⟨?_, i2, i3, i4⟩
      intro x hx
      rcases List.mem_cons.1 hx with rfl | hx
      · exact h1
      · exact i1 x hx

/-- … in particular from the empty database -/
theorem refine_from_empty_faults (h : List (Op × Faults)) (hok : ∀ x ∈ h, OpOK x.1)
    (hdet : AllDeterminedF likeFn fnFam h {} []) :
    (∀ x ∈ (lockstep likeFn fnFam h {} []).1, CallAgrees x) ∧
      Rep (lockstep likeFn fnFam h {} []).2.2 (lockstep likeFn fnFam h {} []).2.1.kv ∧
      WF (lockstep likeFn fnFam h {} []).2.2 := by
  obtain ⟨h1, h2, h3, _⟩ := refine_history_faults likeFn fnFam h hok [] {} rfl wf_empty rep_empty hdet
  exact ⟨h1, h2, h3⟩

end CV
