import Clover.Proofs.RefineFindAll
import Clover.Proofs.Holds
/-! # A fault-free `iterateDocs`, whatever plan is chosen

The pipeline (filter, sort node, skip/limit, consumer) is fed the *candidates* of the plan: every
document of the collection for a full scan, the documents fetched by the ids an index scan yields
otherwise.  What comes out is the skip/limit window of the filtered (and, when the sort node is
present, sorted) candidates. -/
namespace CV
open OC Keys StoreM

variable (likeFn : LikeFn) (fnFam : FnFam)

/-- the document stored under an id, if any -/
def docAt (w : KVS) (coll id : Bytes) : Option Doc :=
  match kvGet w (docKey coll id) with
  | some (.doc d) => some d
  | _ => none

theorem onIdOf_run (coll : Bytes) (onDoc : Pipe → Doc → Pipe × Flow) (st : Pipe) (id : Bytes) (c : Ctx) :
    ∃ c', (onIdOf coll onDoc st id) noFault c =
      (.ok (match docAt c.work coll id with | some d => onDoc st d | none => (st, Flow.cont)), c') ∧ SameWork c c' := by
  obtain ⟨c1, h1, s1⟩ := get_run (docKey coll id) c
  refine ⟨c1, ?_, s1⟩
  unfold onIdOf docAt
  rw [bind_run _ _ c c1 _ h1]
  cases kvGet c.work (docKey coll id) with
  | none => rfl
  | some v => cases v <;> rfl

theorem foldStop_filterMap_none {α : Type} (g : α → Option Doc) (onDoc : Pipe → Doc → Pipe × Flow) (st : Pipe) (x : α)
    (xs : List α) (h : g x = none) :
    foldStop onDoc st ((x :: xs).filterMap g) = foldStop onDoc st (xs.filterMap g) := by
  simp [List.filterMap, h]

/-- the index scan loop hands the pipeline the documents fetched by the ids of the scanned entries -/
theorem scanLoop_onId_run (coll pfx : Bytes) (stopTest : Bytes → Bool) (onDoc : Pipe → Doc → Pipe × Flow) :
    (l : KVS) → (st : Pipe) → (c : Ctx) →
    ∃ c', (scanLoop pfx stopTest (onIdOf coll onDoc) st l) noFault c
        = (.ok (foldStop onDoc st ((scanP pfx stopTest l).filterMap (docAt c.work coll))), c') ∧ SameWork c c'
  | [], st, c => ⟨c, by simp [scanLoop, scanP, foldStop]; rfl, SameWork.refl c⟩
  | e :: rest, st, c => by
    obtain ⟨c1, h1, s1⟩ := item_run e.1 c
    simp only [scanLoop]
    rw [bind_run _ _ c c1 () h1]
    by_cases hp : Keys.isPrefix pfx e.1 = true
    · by_cases hs : stopTest (stripId e.1) = true
      · refine ⟨c1, ?_, s1⟩
        simp [hp, hs, scanP, List.takeWhile, foldStop]; rfl
      · simp only [Bool.not_eq_true] at hs
        simp only [hp, Bool.not_true, Bool.false_eq_true, if_false, hs]
        obtain ⟨c2, h2, s2⟩ := onIdOf_run coll onDoc st (extractId e.1) c1
        rw [bind_run _ _ c1 c2 _ h2]
        have hw1 : c1.work = c.work := s1.1
        have hscan : scanP pfx stopTest (e :: rest) = extractId e.1 :: scanP pfx stopTest rest := by
          simp [scanP, List.takeWhile, hp, hs]
        rw [hscan, hw1]
        cases hd : docAt c.work coll (extractId e.1) with
        | none =>
          simp only [List.filterMap, hd]
          obtain ⟨c3, h3, s3⟩ := scanLoop_onId_run coll pfx stopTest onDoc rest st c2
          refine ⟨c3, ?_, (s1.trans s2).trans s3⟩
          have hw2 : c2.work = c.work := s2.1.trans hw1
          rw [hw2] at h3
          exact h3
        | some d =>
          simp only [List.filterMap, hd, foldStop]
          cases hf : onDoc st d with
          | mk st' fl =>
            cases fl with
            | stop => exact ⟨c2, rfl, s1.trans s2⟩
            | cont =>
              obtain ⟨c3, h3, s3⟩ := scanLoop_onId_run coll pfx stopTest onDoc rest st' c2
              refine ⟨c3, ?_, (s1.trans s2).trans s3⟩
              have hw2 : c2.work = c.work := s2.1.trans hw1
              rw [hw2] at h3
              exact h3
    · simp only [Bool.not_eq_true] at hp
      refine ⟨c1, ?_, s1⟩
      simp [hp, scanP, List.takeWhile, foldStop]; rfl

theorem iterateRange_onId_run (coll f : Bytes) (r : Range) (rev : Bool) (onDoc : Pipe → Doc → Pipe × Flow) (c : Ctx) :
    ∃ c', (iterateRange coll f r rev (onIdOf coll onDoc) {}) noFault c
      = (.ok (foldStop onDoc {} ((iterateRangeP c.work coll f r rev).filterMap (docAt c.work coll))), c') ∧ SameWork c c' := by
  unfold iterateRange iterateRangeP
  by_cases he : r.isEmpty = true
  · exact ⟨c, by simp [he, foldStop]; rfl, SameWork.refl c⟩
  · simp only [he, Bool.false_eq_true, if_false]
    change ∃ c', (snapshot >>= _) noFault c = _ ∧ _
    rw [bind_run _ _ c c _ (snapshot_run c)]
    cases hsk : (rangePlan c.work coll f r rev).skip with
    | some b =>
      obtain ⟨c1, h1, s1⟩ := skipEq_run b (rangePlan c.work coll f r rev).items c
      obtain ⟨c2, h2, s2⟩ := scanLoop_onId_run coll (Keys.idxPrefix coll f) (rangePlan c.work coll f r rev).stopTest onDoc
        (skipEqP b (rangePlan c.work coll f r rev).items) {} c1
      refine ⟨c2, ?_, s1.trans s2⟩
      simp only []
      rw [bind_run _ _ c c1 _ h1, h2, s1.1]
    | none =>
      obtain ⟨c2, h2, s2⟩ := scanLoop_onId_run coll (Keys.idxPrefix coll f) (rangePlan c.work coll f r rev).stopTest onDoc
        (rangePlan c.work coll f r rev).items {} c
      refine ⟨c2, ?_, s2⟩
      have hp : (pure (rangePlan c.work coll f r rev).items : StoreM KVS) noFault c = (.ok _, c) := rfl
      simp only []
      rw [bind_run _ _ c c _ hp, h2]

theorem iterateAll_onId_run (coll f : Bytes) (rev : Bool) (onDoc : Pipe → Doc → Pipe × Flow) (c : Ctx) :
    ∃ c', (iterateAll coll f rev (onIdOf coll onDoc) {}) noFault c
      = (.ok (foldStop onDoc {} ((iterateAllP c.work coll f rev).filterMap (docAt c.work coll))), c') ∧ SameWork c c' := by
  unfold iterateAll iterateAllP
  change ∃ c', (snapshot >>= _) noFault c = _ ∧ _
  rw [bind_run _ _ c c _ (snapshot_run c)]
  obtain ⟨c2, h2, s2⟩ := scanLoop_onId_run coll (Keys.idxPrefix coll f) (fun _ => false) onDoc
    (if rev = true then seekRev c.work (Keys.idxPrefix coll f ++ [255]) else seekFwd c.work (Keys.idxPrefix coll f)) {} c
  exact ⟨c2, h2, s2⟩

/-- the documents a plan's input node hands to the filter -/
def candidates (w : KVS) (coll : Bytes) (docs : List Doc) : Source → List Doc
  | .full => docs
  | .idxRange f r rev => (iterateRangeP w coll f r rev).filterMap (docAt w coll)
  | .idxAll f rev => (iterateAllP w coll f rev).filterMap (docAt w coll)

/-- **A fault-free `iterateDocs`** on a live collection, whatever its indexes and whatever the plan -/
theorem iterateDocs_run (s : Spec.State) (ctx : Ctx) (hw : WF s) (hr : Rep s ctx.work) (q : Query) (k : Option Nat)
    (coll : Spec.Coll) (hl : Spec.lookup q.coll s = some coll) :
    let plan := choosePlan coll.indexes q
    let ns := needSort q plan.2
    ∃ c', (iterateDocs likeFn fnFam q k) noFault ctx =
      (.ok (finishPipe q k ns (foldStop (onDocOf likeFn fnFam q k ns) {}
        (candidates ctx.work q.coll (coll.docs.map (·.2)) plan.1))), c') ∧ SameWork ctx c' := by
  intro plan ns
  have hc : Clean q.coll := (wf_lookup_clean s hw q.coll coll hl).1
  have hm : kvGet ctx.work (metaKey q.coll) = some (.cmeta ⟨coll.docs.length, coll.indexes⟩) := by
    simp only [hr.2, assoc_meta, hl, Option.map_some]
  obtain ⟨c1, h1, s1⟩ := getMeta_run q.coll _ ctx hm
  have hw1 : c1.work = ctx.work := s1.1
  have hr1 : Rep s c1.work := by rw [hw1]; exact hr
  unfold iterateDocs
  rw [bind_run _ _ _ c1 _ h1]
  simp only [plan, ns]
  generalize hns : needSort q (choosePlan coll.indexes q).2 = ns'
  cases hp : (choosePlan coll.indexes q).1 with
  | full =>
    obtain ⟨c2, h2, s2⟩ := fullScan_run s c1 hw hr1 q.coll coll hc hl (onDocOf likeFn fnFam q k ns')
    refine ⟨c2, ?_, s1.trans s2⟩
    simp only []
    rw [bind_run _ _ _ c2 _ h2]
    rfl
  | idxRange f r rev =>
    obtain ⟨c2, h2, s2⟩ := iterateRange_onId_run q.coll f r rev (onDocOf likeFn fnFam q k ns') c1
    refine ⟨c2, ?_, s1.trans s2⟩
    simp only []
    rw [bind_run _ _ _ c2 _ h2, hw1]
    rfl
  | idxAll f rev =>
    obtain ⟨c2, h2, s2⟩ := iterateAll_onId_run q.coll f rev (onDocOf likeFn fnFam q k ns') c1
    refine ⟨c2, ?_, s1.trans s2⟩
    simp only []
    rw [bind_run _ _ _ c2 _ h2, hw1]
    rfl

/-- the pipeline behind the input node, for a consumer that never stops: filter, sort when the sort
    node is present, skip/limit window -/
theorem pipeline_none (q : Query) (ns : Bool) (cands : List Doc) :
    finishPipe q none ns (foldStop (onDocOf likeFn fnFam q none ns) {} cands) =
      Spec.window q.skip q.limit
        (if ns then sortDocs q.sort (cands.filter (fun d => satOpt likeFn fnFam d q.crit))
         else cands.filter (fun d => satOpt likeFn fnFam d q.crit)) := by
  unfold finishPipe
  cases ns with
  | false =>
    simp only [Bool.false_eq_true, if_false]
    unfold onDocOf
    simp only [Bool.false_eq_true, if_false]
    rw [foldStop_emit q none (fun d => satOpt likeFn fnFam d q.crit) {} cands]
    exact feed_window q _
  | true =>
    simp only [if_true]
    unfold onDocOf
    simp only [if_true]
    rw [foldStop_collect (fun d => satOpt likeFn fnFam d q.crit) {} cands]
    simp only [List.append_nil, List.reverse_reverse]
    have := feed_out q { buf := (List.filter (fun d => satOpt likeFn fnFam d q.crit) cands).reverse, skipped := 0, consumed := 0, out := [] }
      (sortDocs q.sort (List.filter (fun d => satOpt likeFn fnFam d q.crit) cands)) (Nat.zero_le _) (fun _ => rfl)
    rw [this]
    simp [Spec.window]

end CV
