import Clover.Proofs.KVLaws
import Clover.Probe.Keys
/-! # In a sorted store the keys with a given prefix are contiguous: a prefix scan is a filter -/
namespace CV
open OC Keys

theorem lexLt_not_prefix_diffLt : (p a : Bytes) → lexLt p a = true → isPrefix p a = false → diffLt p a = true
  | [], _, _, h => by simp [isPrefix] at h
  | _ :: _, [], h, _ => by simp [lexLt] at h
  | x :: xs, y :: ys, h1, h2 => by
    simp only [lexLt, Bool.or_eq_true, decide_eq_true_eq, Bool.and_eq_true, beq_iff_eq] at h1
    simp only [isPrefix, Bool.and_eq_false_iff, beq_eq_false_iff_ne] at h2
    simp only [diffLt, Bool.or_eq_true, decide_eq_true_eq, Bool.and_eq_true, beq_iff_eq]
    rcases h1 with h1 | ⟨e, h1⟩
    · exact Or.inl h1
    · subst e
      rcases h2 with h2 | h2
      · exact absurd rfl h2
      · exact Or.inr ⟨rfl, lexLt_not_prefix_diffLt xs ys h1 h2⟩

theorem prefix_not_before (p k : Bytes) (h : isPrefix p k = true) : lexLt k p = false := by
  obtain ⟨r, hr⟩ := (isPrefix_iff p k).1 h
  rw [hr]; exact lexLt_append_self p r

/-- a key at or after `p` that does not have prefix `p` is after every key with prefix `p` -/
theorem after_block (p a r : Bytes) (h1 : lexLt a p = false) (h2 : isPrefix p a = false) : lexLt (p ++ r) a = true := by
  have hne : p ≠ a := by
    intro e; subst e
    have : isPrefix p p = true := by simpa using isPrefix_append p []
    simp [this] at h2
  have hpa : lexLt p a = true := by
    rcases lexLt_total p a hne with h | h
    · exact h
    · simp [h1] at h
  have hd := lexLt_not_prefix_diffLt p a hpa h2
  have := diffLt_append p a r [] hd
  rw [List.append_nil] at this
  exact diffLt_imp_lexLt _ _ this

/-- prefix scan = filter: seek to the prefix, then take while the prefix holds -/
theorem prefix_scan_eq_filter (p : Bytes) : (kv : KVS) → KSorted kv →
    (seekFwd kv p).takeWhile (fun e => isPrefix p e.1) = kv.filter (fun e => isPrefix p e.1)
  | [], _ => rfl
  | e :: t, hs => by
    have hs' := List.pairwise_cons.1 hs
    unfold seekFwd
    simp only [List.dropWhile, List.filter]
    by_cases hlt : lexLt e.1 p = true
    · have hnp : isPrefix p e.1 = false := by
        cases h : isPrefix p e.1 with
        | false => rfl
        | true => have := prefix_not_before p e.1 h; simp [hlt] at this
      simp only [hlt, hnp]
      exact prefix_scan_eq_filter p t hs'.2
    · simp only [Bool.not_eq_true] at hlt
      simp only [hlt]
      by_cases hp : isPrefix p e.1 = true
      · simp only [List.takeWhile, hp]
        congr 1
        -- the rest: every later key is ≥ p as well, so no more dropping happens
        have hrest : seekFwd t p = t := by
          unfold seekFwd
          cases t with
          | nil => rfl
          | cons e2 t2 =>
            have h12 := hs'.1 e2 (by simp)
            have : lexLt e2.1 p = false := by
              cases h : lexLt e2.1 p with
              | false => rfl
              | true => have := lexLt_trans _ _ _ h12 h; simp [hlt] at this
            simp [List.dropWhile, this]
        have := prefix_scan_eq_filter p t hs'.2
        rw [hrest] at this
        exact this
      · simp only [Bool.not_eq_true] at hp
        simp only [List.takeWhile, hp]
        -- nothing after e has the prefix
        symm
        apply List.filter_eq_nil_iff.2
        intro b hb
        have hab := hs'.1 b hb
        cases hpb : isPrefix p b.1 with
        | false => simp
        | true =>
          obtain ⟨r, hr⟩ := (isPrefix_iff p b.1).1 hpb
          have := after_block p e.1 r hlt hp
          rw [← hr] at this
          have := lexLt_asymm _ _ this
          simp [hab] at this

end CV
