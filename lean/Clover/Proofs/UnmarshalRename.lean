import Clover.Model.Unmarshal
import Clover.Proofs.Paths
/-! # `Document.Unmarshal`: after the renaming every field sits under the name `encoding/json` reads

Property C18 ends "a struct converted to a document and unmarshalled back is unchanged".  The JSON
decoding step is abstracted; here: after `renameMapKeys` every field's value is found under the
read name (`json` tag or Go name), at every nesting level, and the renaming is simultaneous. -/
namespace CV

/-- a field of a target struct: Go name, `clover` tag, `json` tag, type -/
abbrev RField := Bytes × Bytes × Bytes × RType

/-- the key the field is stored under in the document -/
def RField.stored (f : RField) : Bytes := fromName f.1 f.2.1
/-- the key `encoding/json` reads the field from -/
def RField.read (f : RField) : Bytes := toName f.1 f.2.2.1

/-- the stored names are pairwise distinct and the read names are pairwise distinct -/
def FieldsOK (fs : List RField) : Prop :=
  (fs.map RField.stored).Nodup ∧ (fs.map RField.read).Nodup

/-- where `rename` moves the key `k` -/
def target (rm : List (Bytes × Bytes)) (k : Bytes) : Bytes := (lookupName k rm).getD k

/-! ## 1. `renameMap` -/

theorem lookupKey_map_str (k : Bytes) : (rm : List (Bytes × Bytes)) →
    lookupKey k (rm.map (fun p => (p.1, Value.str p.2))) = (lookupName k rm).map Value.str
  | [] => rfl
  | (a, b) :: t => by
    simp only [List.map, lookupKey, lookupName]
    split
    · rfl
    · exact lookupKey_map_str k t

/-- a key that is no field's stored name is not renamed -/
theorem lookupName_renameMap_none (k : Bytes) : (fs : List RField) →
    (∀ f ∈ fs, k ≠ RField.stored f) → lookupName k (renameMap fs) = none
  | [], _ => rfl
  | (g, c, j, t) :: rest, h => by
    have ih := lookupName_renameMap_none k rest (fun f hf => h f (List.mem_cons_of_mem _ hf))
    have hk : k ≠ fromName g c := h (g, c, j, t) List.mem_cons_self
    simp only [renameMap]
    split
    · exact ih
    · split
      · exact ih
      · simp only [lookupName, if_neg hk]; exact ih

theorem target_renameMap_stray (k : Bytes) (fs : List RField)
    (h : ∀ f ∈ fs, k ≠ RField.stored f) : target (renameMap fs) k = k := by
  simp only [target, lookupName_renameMap_none k fs h, Option.getD_none]

/-- every field's stored name is sent to its read name -/
theorem target_renameMap : (fs : List RField) → (fs.map RField.stored).Nodup →
    ∀ f ∈ fs, target (renameMap fs) (RField.stored f) = RField.read f
  | [], _, f, hf => by cases hf
  | (g, c, j, t) :: rest, hn, f, hf => by
    simp only [List.map_cons, List.nodup_cons] at hn
    have hn1 : fromName g c ∉ rest.map RField.stored := hn.1
    have hnone : lookupName (fromName g c) (renameMap rest) = none :=
      lookupName_renameMap_none _ rest (fun f' hf' e => hn1 (e ▸ List.mem_map_of_mem hf'))
    have hrm : ∀ k, k ≠ fromName g c →
        lookupName k (renameMap ((g, c, j, t) :: rest)) = lookupName k (renameMap rest) := by
      intro k hk
      simp only [renameMap]
      split
      · rfl
      · split
        · rfl
        · simp only [lookupName, if_neg hk]
    rcases List.mem_cons.1 hf with rfl | hf'
    · simp only [target, RField.stored, RField.read, renameMap, lookupKey_map_str, hnone,
        Option.map_none, Option.isSome_none]
      simp only [Bool.false_eq_true, if_false]
      split
      · rename_i e; simp only [hnone, Option.getD_none]; exact e
      · simp only [lookupName, if_true, Option.getD_some]
    · have hk : RField.stored f ≠ fromName g c := fun e => hn1 (e ▸ List.mem_map_of_mem hf')
      simp only [target, hrm _ hk]
      exact target_renameMap rest hn.2 f hf'

/-- item 1 in the form of the task -/
theorem renameMap_spec (fs : List RField) (hok : FieldsOK fs) (g c j : Bytes) (t : RType)
    (hf : (g, c, j, t) ∈ fs) :
    (lookupName (fromName g c) (renameMap fs)).getD (fromName g c) = toName g j :=
  target_renameMap fs hok.1 (g, c, j, t) hf

theorem renameMap_spec_other (fs : List RField) (k : Bytes)
    (h : ∀ g c j t, (g, c, j, t) ∈ fs → k ≠ fromName g c) :
    lookupName k (renameMap fs) = none :=
  lookupName_renameMap_none k fs (fun f hf => h f.1 f.2.1 f.2.2.1 f.2.2.2 hf)

/-! ## 2. `renameTop` moves all keys simultaneously -/

/-- `rename` with an arbitrary accumulator -/
def renameInto (rm : List (Bytes × Bytes)) (acc : Doc) (d : Doc) : Doc :=
  d.foldl (fun acc kv => insertKey (target rm kv.1) kv.2 acc) acc

theorem renameTop_eq (rm : List (Bytes × Bytes)) (d : Doc) : renameTop rm d = renameInto rm [] d := rfl

theorem renameInto_cons (rm : List (Bytes × Bytes)) (acc : Doc) (kv : Bytes × Value) (d : Doc) :
    renameInto rm acc (kv :: d) = renameInto rm (insertKey (target rm kv.1) kv.2 acc) d := rfl

/-- a name no key of the document is sent to is not touched -/
theorem lookupKey_renameInto_other (rm : List (Bytes × Bytes)) (t : Bytes) : (d : Doc) → (acc : Doc) →
    (∀ kv ∈ d, target rm kv.1 ≠ t) → lookupKey t (renameInto rm acc d) = lookupKey t acc
  | [], _, _ => rfl
  | kv :: rest, acc, h => by
    rw [renameInto_cons,
      lookupKey_renameInto_other rm t rest _ (fun kv' hkv' => h kv' (List.mem_cons_of_mem _ hkv')),
      lookupKey_insertKey, if_neg (fun e => h kv List.mem_cons_self e.symm)]

theorem lookupKey_none_of_not_mem (k : Bytes) : (d : Doc) → k ∉ d.map (·.1) → lookupKey k d = none
  | [], _ => rfl
  | (k', v') :: rest, h => by
    simp only [List.map_cons, List.mem_cons, not_or] at h
    simp only [lookupKey, if_neg h.1]
    exact lookupKey_none_of_not_mem k rest h.2

theorem mem_of_lookupKey {k : Bytes} {v : Value} : (d : Doc) → lookupKey k d = some v → (k, v) ∈ d
  | [], h => by cases h
  | (k', v') :: rest, h => by
    simp only [lookupKey] at h
    split at h
    · rename_i e; cases h; subst e; exact List.mem_cons_self
    · exact List.mem_cons_of_mem _ (mem_of_lookupKey rest h)

theorem lookupKey_isSome_of_mem {k : Bytes} : (d : Doc) → k ∈ d.map (·.1) → (lookupKey k d).isSome
  | [], h => by cases h
  | (k', v') :: rest, h => by
    simp only [lookupKey]
    split
    · rfl
    · rename_i hne
      simp only [List.map_cons, List.mem_cons] at h
      rcases h with e | h
      · exact absurd e hne
      · exact lookupKey_isSome_of_mem rest h

/-- the key `k` arrives at its target with its value, provided no other key is sent there -/
theorem lookupKey_renameInto_key (rm : List (Bytes × Bytes)) (k : Bytes) : (d : Doc) → (acc : Doc) →
    (d.map (·.1)).Nodup → (∀ kv ∈ d, target rm kv.1 = target rm k → kv.1 = k) →
    lookupKey (target rm k) (renameInto rm acc d) =
      match lookupKey k d with
      | some v => some v
      | none => lookupKey (target rm k) acc
  | [], _, _, _ => rfl
  | (k1, v1) :: rest, acc, hn, hinj => by
    simp only [List.map_cons, List.nodup_cons] at hn
    rw [renameInto_cons]
    by_cases hk : k = k1
    · subst hk
      simp only [lookupKey, if_true]
      rw [lookupKey_renameInto_other rm (target rm k) rest _ ?_, lookupKey_insertKey, if_pos rfl]
      intro kv hkv e
      have := hinj kv (List.mem_cons_of_mem _ hkv) e
      exact hn.1 (this ▸ List.mem_map_of_mem (f := (·.1)) hkv)
    · have hne : target rm k ≠ target rm k1 := fun e => hk (hinj (k1, v1) List.mem_cons_self e.symm).symm
      rw [lookupKey_renameInto_key rm k rest _ hn.2
        (fun kv hkv => hinj kv (List.mem_cons_of_mem _ hkv))]
      simp only [lookupKey, if_neg hk, lookupKey_insertKey, if_neg hne]

theorem inj_of_nodup_map {α β} (f : α → β) : (l : List α) → (l.map f).Nodup →
    ∀ a ∈ l, ∀ b ∈ l, f a = f b → a = b
  | [], _, a, ha, _, _, _ => by cases ha
  | x :: rest, hn, a, ha, b, hb, e => by
    simp only [List.map_cons, List.nodup_cons] at hn
    rcases List.mem_cons.1 ha with rfl | ha' <;> rcases List.mem_cons.1 hb with rfl | hb'
    · rfl
    · exact absurd (e ▸ List.mem_map_of_mem hb') hn.1
    · exact absurd (e ▸ List.mem_map_of_mem ha') hn.1
    · exact inj_of_nodup_map f rest hn.2 a ha' b hb' e

theorem nodup_keys_of_nodup_targets (rm : List (Bytes × Bytes)) : (d : Doc) →
    (d.map (fun kv => target rm kv.1)).Nodup → (d.map (·.1)).Nodup
  | [], _ => List.nodup_nil
  | kv :: rest, hn => by
    simp only [List.map_cons, List.nodup_cons] at hn ⊢
    refine ⟨fun hmem => hn.1 ?_, nodup_keys_of_nodup_targets rm rest hn.2⟩
    obtain ⟨kv', hkv', e⟩ := List.mem_map.1 hmem
    exact List.mem_map.2 ⟨kv', hkv', by rw [e]⟩

/-- item 2: when the targets of the keys of `d` are pairwise distinct, the renamed document binds
    `t` to `v` exactly when `d` binds to `v` some key whose target is `t` -/
theorem lookupKey_renameTop_iff (rm : List (Bytes × Bytes)) (d : Doc)
    (hn : (d.map (fun kv => (lookupName kv.1 rm).getD kv.1)).Nodup) (t : Bytes) (v : Value) :
    lookupKey t (renameTop rm d) = some v ↔
      ∃ k, lookupKey k d = some v ∧ (lookupName k rm).getD k = t := by
  have hn' : (d.map (fun kv => target rm kv.1)).Nodup := hn
  have hkeys := nodup_keys_of_nodup_targets rm d hn'
  have hinj : ∀ k, k ∈ d.map (·.1) → ∀ kv ∈ d, target rm kv.1 = target rm k → kv.1 = k := by
    intro k hk kv hkv e
    obtain ⟨kv0, hkv0, rfl⟩ := List.mem_map.1 hk
    rw [inj_of_nodup_map (fun kv => target rm kv.1) d hn' kv hkv kv0 hkv0 e]
  rw [renameTop_eq]
  constructor
  · intro h
    by_cases hex : ∃ kv ∈ d, target rm kv.1 = t
    · obtain ⟨kv, hkv, rfl⟩ := hex
      refine ⟨kv.1, ?_, rfl⟩
      have hmem : kv.1 ∈ d.map (·.1) := List.mem_map_of_mem hkv
      rw [lookupKey_renameInto_key rm kv.1 d [] hkeys (hinj _ hmem)] at h
      have hs := lookupKey_isSome_of_mem d hmem
      cases hl : lookupKey kv.1 d with
      | none => rw [hl] at hs; cases hs
      | some w => rw [hl] at h; exact h
    · rw [lookupKey_renameInto_other rm t d [] (fun kv hkv e => hex ⟨kv, hkv, e⟩)] at h
      cases h
  · rintro ⟨k, hl, rfl⟩
    have hmem : k ∈ d.map (·.1) := List.mem_map_of_mem (f := (·.1)) (mem_of_lookupKey d hl)
    have := lookupKey_renameInto_key rm k d [] hkeys (hinj _ hmem)
    rw [hl] at this
    exact this

/-! ## 3. One level of the round trip -/

/-- the keys of `d` are distinct, and each is the stored name of a field or (a stray key) no field's
    read name -/
def DocFits (fs : List RField) (d : Doc) : Prop :=
  (d.map (·.1)).Nodup ∧
  ∀ kv ∈ d, (∃ f ∈ fs, kv.1 = RField.stored f) ∨ (∀ f ∈ fs, kv.1 ≠ RField.read f)

theorem lookupKey_renameTop_field (fs : List RField) (hok : FieldsOK fs) (d : Doc) (hd : DocFits fs d)
    (f : RField) (hf : f ∈ fs) :
    lookupKey (RField.read f) (renameTop (renameMap fs) d) = lookupKey (RField.stored f) d := by
  have ht := target_renameMap fs hok.1
  have := lookupKey_renameInto_key (renameMap fs) (RField.stored f) d [] hd.1 (by
    intro kv hkv e
    rw [ht f hf] at e
    rcases hd.2 kv hkv with ⟨f', hf', e'⟩ | hstray
    · rw [e', ht f' hf'] at e
      rw [e', inj_of_nodup_map RField.read fs hok.2 f' hf' f hf e]
    · by_cases hs : ∃ f' ∈ fs, kv.1 = RField.stored f'
      · obtain ⟨f', hf', e'⟩ := hs
        rw [e', ht f' hf'] at e
        rw [e', inj_of_nodup_map RField.read fs hok.2 f' hf' f hf e]
      · rw [target_renameMap_stray kv.1 fs (fun f' hf' e' => hs ⟨f', hf', e'⟩)] at e
        exact absurd e (hstray f hf))
  rw [ht f hf] at this
  rw [renameTop_eq, this]
  cases lookupKey (RField.stored f) d <;> rfl

/-- item 3 in the form of the task -/
theorem renameTop_roundtrip (fs : List RField) (hok : FieldsOK fs) (d : Doc)
    (hnd : (d.map (·.1)).Nodup)
    (hkeys : ∀ kv ∈ d, (∃ g c j t, (g, c, j, t) ∈ fs ∧ kv.1 = fromName g c) ∨
      (∀ g c j t, (g, c, j, t) ∈ fs → kv.1 ≠ toName g j))
    (g c j : Bytes) (t : RType) (hf : (g, c, j, t) ∈ fs) :
    lookupKey (toName g j) (renameTop (renameMap fs) d) = lookupKey (fromName g c) d :=
  lookupKey_renameTop_field fs hok d
    ⟨hnd, fun kv hkv => (hkeys kv hkv).imp
      (fun ⟨g, c, j, t, h, e⟩ => ⟨(g, c, j, t), h, e⟩)
      (fun h f hf' => h f.1 f.2.1 f.2.2.1 f.2.2.2 hf')⟩ (g, c, j, t) hf

/-! ## 4. The nested step -/

/-- what the nested renaming does to the value of a field of type `t` -/
def renameVal : RType → Value → Value
  | .struct sub, .obj m => .obj (renameMapKeys (.struct sub) m)
  | _, v => v

/-- one step of `renameNested` -/
def nestStep (g j : Bytes) (t : RType) (d : Doc) : Doc :=
  match t, lookupKey (toName g j) d with
  | .struct sub, some (.obj m) => insertKey (toName g j) (.obj (renameMapKeys (.struct sub) m)) d
  | _, _ => d

set_option smartUnfolding false in
/-- unfolding of `renameNested` (the equation lemmas of the mutual definition cannot be generated
    automatically: the recursive call sits inside a `match` on the field type) -/
theorem renameNested_cons (g c j : Bytes) (t : RType) (rest : List RField) (d : Doc) :
    renameNested ((g, c, j, t) :: rest) d = renameNested rest (nestStep g j t d) := by
  cases t with
  | leaf => rfl
  | struct sub =>
    unfold nestStep
    conv => lhs; delta renameNested; whnf
    generalize lookupKey (toName g j) d = o
    cases o with
    | none => rfl
    | some v => cases v <;> rfl

theorem renameNested_nil (d : Doc) : renameNested [] d = d := rfl

theorem renameMapKeys_struct (fs : List RField) (d : Doc) :
    renameMapKeys (.struct fs) d = renameNested fs (renameTop (renameMap fs) d) := rfl

theorem renameMapKeys_leaf (d : Doc) : renameMapKeys .leaf d = d := rfl

theorem lookupKey_nestStep (g j : Bytes) (t : RType) (d : Doc) (k : Bytes) :
    lookupKey k (nestStep g j t d) =
      if k = toName g j then (lookupKey k d).map (renameVal t) else lookupKey k d := by
  by_cases hk : k = toName g j
  · subst hk
    rw [if_pos rfl]
    unfold nestStep
    cases t with
    | leaf => cases lookupKey (toName g j) d <;> rfl
    | struct sub =>
      cases h : lookupKey (toName g j) d with
      | none => simp only [h]; rfl
      | some v =>
        cases v <;> simp only [h, lookupKey_insertKey, if_true, Option.map_some, renameVal]
  · rw [if_neg hk]
    unfold nestStep
    split
    · rw [lookupKey_insertKey, if_neg hk]
    · rfl

/-- a key that is no field's read name is not touched by the nested step -/
theorem lookupKey_renameNested_other (k : Bytes) : (fs : List RField) → (d : Doc) →
    (∀ f ∈ fs, k ≠ RField.read f) → lookupKey k (renameNested fs d) = lookupKey k d
  | [], _, _ => rfl
  | (g, c, j, t) :: rest, d, h => by
    have hk : k ≠ toName g j := h (g, c, j, t) List.mem_cons_self
    rw [renameNested_cons,
      lookupKey_renameNested_other k rest _ (fun f hf => h f (List.mem_cons_of_mem _ hf)),
      lookupKey_nestStep, if_neg hk]

/-- the nested step rewrites the value under the read name of each field according to its type -/
theorem lookupKey_renameNested_field : (fs : List RField) → (d : Doc) → (fs.map RField.read).Nodup →
    ∀ f ∈ fs, lookupKey (RField.read f) (renameNested fs d) =
      (lookupKey (RField.read f) d).map (renameVal f.2.2.2)
  | [], _, _, f, hf => by cases hf
  | (g, c, j, t) :: rest, d, hn, f, hf => by
    simp only [List.map_cons, List.nodup_cons] at hn
    have hn1 : toName g j ∉ rest.map RField.read := hn.1
    rw [renameNested_cons]
    rcases List.mem_cons.1 hf with rfl | hf'
    · rw [lookupKey_renameNested_other _ rest _
        (fun f' hf' e => hn1 (by rw [show toName g j = RField.read f' from e]; exact List.mem_map_of_mem hf')),
        lookupKey_nestStep]
      exact if_pos rfl
    · have hne : RField.read f ≠ toName g j := fun e => hn1 (e ▸ List.mem_map_of_mem hf')
      rw [lookupKey_renameNested_field rest _ hn.2 f hf', lookupKey_nestStep, if_neg hne]

/-- item 4, one level: after `renameMapKeys` the value of every field is found under its read name;
    an object under a field of struct type has been renamed by that type, everything else is kept -/
theorem lookupKey_renameMapKeys_field (fs : List RField) (hok : FieldsOK fs) (d : Doc)
    (hd : DocFits fs d) (f : RField) (hf : f ∈ fs) :
    lookupKey (RField.read f) (renameMapKeys (.struct fs) d) =
      (lookupKey (RField.stored f) d).map (renameVal f.2.2.2) := by
  rw [renameMapKeys_struct, lookupKey_renameNested_field fs _ hok.2 f hf,
    lookupKey_renameTop_field fs hok d hd f hf]

/-- a field of struct type whose value is an object -/
theorem renameMapKeys_nested (fs : List RField) (hok : FieldsOK fs) (d : Doc) (hd : DocFits fs d)
    (g c j : Bytes) (sub : List RField) (hf : (g, c, j, RType.struct sub) ∈ fs) (m : Doc)
    (hm : lookupKey (fromName g c) d = some (.obj m)) :
    lookupKey (toName g j) (renameMapKeys (.struct fs) d) =
      some (.obj (renameMapKeys (.struct sub) m)) := by
  have := lookupKey_renameMapKeys_field fs hok d hd _ hf
  simp only [RField.read, RField.stored, hm, Option.map_some, renameVal] at this
  exact this

/-- a field of leaf type keeps its value -/
theorem renameMapKeys_leaf_field (fs : List RField) (hok : FieldsOK fs) (d : Doc) (hd : DocFits fs d)
    (g c j : Bytes) (hf : (g, c, j, RType.leaf) ∈ fs) :
    lookupKey (toName g j) (renameMapKeys (.struct fs) d) = lookupKey (fromName g c) d := by
  have := lookupKey_renameMapKeys_field fs hok d hd _ hf
  simp only [RField.read, RField.stored] at this
  rw [this]
  cases lookupKey (fromName g c) d <;> rfl

/-- a value that is not an object is kept whatever the field type -/
theorem renameVal_of_not_obj (t : RType) (v : Value) (h : ∀ m, v ≠ .obj m) : renameVal t v = v := by
  cases t with
  | leaf => rfl
  | struct sub => cases v <;> first | rfl | exact absurd rfl (h _)

/-! ## 4'. Every level: a path of fields through nested structs -/

/-- `FieldsOK` at every nesting level -/
inductive RType.OK : RType → Prop
  | leaf : RType.OK .leaf
  | struct (fs : List RField) : FieldsOK fs → (∀ f ∈ fs, RType.OK f.2.2.2) → RType.OK (.struct fs)

theorem RType.OK.fields {fs : List RField} (h : RType.OK (.struct fs)) : FieldsOK fs := by
  cases h; assumption

theorem RType.OK.field {fs : List RField} (h : RType.OK (.struct fs)) {f : RField} (hf : f ∈ fs) :
    RType.OK f.2.2.2 := by
  cases h with | struct _ _ hall => exact hall f hf

/-- `f :: p` is a chain of fields: `f` a field of `T`, the next one a field of the type of `f`, … -/
def PathIn : RType → List RField → Prop
  | _, [] => True
  | .leaf, _ :: _ => False
  | .struct fs, f :: p => f ∈ fs ∧ PathIn f.2.2.2 p

/-- the documents met along the path fit the struct types (`DocFits`) -/
def DocFitsAlong : RType → List RField → Doc → Prop
  | .struct fs, f :: p, d =>
    DocFits fs d ∧ ∀ m, lookupKey (RField.stored f) d = some (.obj m) → DocFitsAlong f.2.2.2 p m
  | _, _, _ => True

/-- the type of the last field of the path `f :: p` -/
def lastType : RField → List RField → RType
  | f, [] => f.2.2.2
  | _, f' :: p => lastType f' p

/-- item 4 at every level: reading the path of read names in the renamed document gives what the
    path of stored names gives in the original (the last value renamed by the type of the last field) -/
theorem getPath_renameMapKeys : (p : List RField) → (T : RType) → (f : RField) → (d : Doc) →
    RType.OK T → PathIn T (f :: p) → DocFitsAlong T (f :: p) d →
    getPath (renameMapKeys T d) ((f :: p).map RField.read) =
      (getPath d ((f :: p).map RField.stored)).map (renameVal (lastType f p))
  | [], .leaf, _, _, _, hp, _ => by cases hp
  | [], .struct fs, f, d, hok, hp, hd => by
    simp only [List.map_cons, List.map_nil, getPath, lastType]
    exact lookupKey_renameMapKeys_field fs hok.fields d hd.1 f hp.1
  | _ :: _, .leaf, _, _, _, hp, _ => by cases hp
  | f' :: p, .struct fs, f, d, hok, hp, hd => by
    have h1 := lookupKey_renameMapKeys_field fs hok.fields d hd.1 f hp.1
    simp only [List.map_cons, getPath, lastType, h1]
    cases hl : lookupKey (RField.stored f) d with
    | none => rfl
    | some v =>
      have hp2 : PathIn f.2.2.2 (f' :: p) := hp.2
      have hok2 : RType.OK f.2.2.2 := hok.field hp.1
      have hd2 := hd.2
      rw [hl] at hd2
      cases ht : f.2.2.2 with
      | leaf => rw [ht] at hp2; cases hp2
      | struct sub =>
        rw [ht] at hp2 hok2 hd2
        cases v with
        | obj m =>
          simp only [Option.map_some, renameVal]
          have := getPath_renameMapKeys p (.struct sub) f' m hok2 hp2 (hd2 m rfl)
          simp only [List.map_cons] at this
          exact this
        | _ => rfl

/-! ## 5. Witnesses -/

section Witnesses
private def kA : Bytes := [0x41]
private def kB : Bytes := [0x42]
private def kC : Bytes := [0x43]
private def kx : Bytes := [0x78]
private def kF0 : Bytes := [0x46, 0x30]
private def kF1 : Bytes := [0x46, 0x31]
private def n (i : Int) : Value := .num (.int i)

/-- the swap: field `A` stored under "B", field `B` stored under "A"; both values arrive -/
example : renameTop [(kB, kA), (kA, kB)] [(kA, n 1), (kB, n 2)] = [(kA, n 2), (kB, n 1)] := by rfl

/-- the same through `renameMap` of a struct type with swapped `clover` tags -/
example : renameMapKeys (.struct [(kA, kB, [], .leaf), (kB, kA, [], .leaf)]) [(kA, n 1), (kB, n 2)]
    = [(kA, n 2), (kB, n 1)] := by rfl

/-- the swap, through item 2 -/
example : lookupKey kA (renameTop [(kB, kA), (kA, kB)] [(kA, n 1), (kB, n 2)]) = some (n 2) :=
  (lookupKey_renameTop_iff [(kB, kA), (kA, kB)] [(kA, n 1), (kB, n 2)] (by decide) kA (n 2)).2
    ⟨kB, rfl, rfl⟩

/-- a sequential in-place renaming (one entry of the map after the other) -/
private def renameSeq (rm : List (Bytes × Bytes)) (d : Doc) : Doc :=
  rm.foldl (fun acc ab => match lookupKey ab.1 acc with
    | some v => insertKey ab.2 v (acc.filter (fun kv => kv.1 != ab.1))
    | none => acc) d

/-- … loses a value on the swap -/
example : renameSeq [(kB, kA), (kA, kB)] [(kA, n 1), (kB, n 2)] = [(kB, n 2)] := by rfl

/-- the target type of finding F32: the outer field `A` carries the tags `clover:"F1" json:"F1"`, its
    struct type has a field `B` with `clover:"x"` -/
private def tInner : List RField := [(kA, [], [], .leaf), (kB, kx, [], .leaf), (kC, [], [], .leaf)]
private def tOuter : RType :=
  .struct [(kA, kF1, kF1, .struct tInner), (kB, kx, [], .leaf), (kC, [], kF0, .leaf)]

/-- the nested struct found under the json name "F1" is renamed by its type (`x` ↦ `B` inside), which
    the code before the repair missed (inner `B` was decoded as 0) -/
example :
    renameMapKeys tOuter
      [(kC, n 932), (kF1, .obj [(kA, n 947), (kC, n 755), (kx, n 883)]), (kx, n 566)]
    = [(kB, n 566), (kF0, n 932), (kF1, .obj [(kA, n 947), (kB, n 883), (kC, n 755)])] := by rfl

/-- a nested struct whose stored name and read name differ: stored under the `clover` name "x",
    read under the `json` name "F0"; it is found under the key it has AFTER the renaming -/
example :
    renameMapKeys (.struct [(kA, kx, kF0, .struct tInner)])
      [(kx, .obj [(kA, n 1), (kx, n 2)])]
    = [(kF0, .obj [(kA, n 1), (kB, n 2)])] := by rfl

example : RType.OK tOuter := by
  refine .struct _ ⟨by decide, by decide⟩ ?_
  intro f hf
  simp only [List.mem_cons, List.not_mem_nil, or_false] at hf
  rcases hf with rfl | rfl | rfl
  · refine .struct _ ⟨by decide, by decide⟩ ?_
    intro f hf
    simp only [tInner, List.mem_cons, List.not_mem_nil, or_false] at hf
    rcases hf with rfl | rfl | rfl <;> exact .leaf
  · exact .leaf
  · exact .leaf
end Witnesses

end CV
