import Clover.Proofs.RefineBulkAny
import Clover.Proofs.RefineInsert
import Clover.Proofs.RefineIndex
import Clover.Proofs.RefineDelete
import Clover.Proofs.RefineCatalog
import Clover.Proofs.Uniform
import Clover.Props.C04
/-! # The representation invariant is preserved by every operation, under every fault schedule

`inv_step`: for every public operation in the supported domain (`OpOK`: new collection names and new
index fields free of `';'`), every handle state and every fault schedule, if the store satisfies
`Inv` before the call it satisfies `Inv` after it.  `inv_reachable` lifts this to every history
from the empty store. -/
namespace CV
open OC Keys StoreM

variable (likeFn : LikeFn) (fnFam : FnFam)

/-- the supported domain of an operation: names that enter the key space are free of `;` -/
def OpOK : Op → Prop
  | .createCollection c => Clean c
  | .createIndex _ f => Clean f
  | .importDocs c _ _ => Clean c
  | .createCollectionByQuery c _ _ => Clean c
  | _ => True

theorem inv_of (s : Spec.State) (σ : KVS) (h : Rep s σ ∧ WF s) : Inv σ := ⟨s, h.2, h.1⟩

/-! ## CreateCollectionByQuery -/

theorem iterateDocs_missing (q : Query) (k : Option Nat) (ctx : Ctx) (h : kvGet ctx.work (metaKey q.coll) = none) :
    ∃ c', (iterateDocs likeFn fnFam q k) noFault ctx = (.err .collNotExist, c') := by
  obtain ⟨c1, h1⟩ := getMeta_run_none' q.coll ctx h
  exact ⟨c1, by unfold iterateDocs; exact bind_run_err' _ _ _ _ _ h1⟩

/-- creating the (new, empty) collection inside a transaction -/
theorem createColl_run (s : Spec.State) (ctx : Ctx) (hw : WF s) (hr : Rep s ctx.work) (c : Bytes) (hc : Clean c)
    (hl : Spec.lookup c s = none) :
    ∃ c', (createColl c) noFault ctx = (.ok (), c') ∧ c'.skipCommit = ctx.skipCommit ∧
      Rep (Spec.insert c ({} : Spec.Coll) s) c'.work ∧ WF (Spec.insert c ({} : Spec.Coll) s) := by
  obtain ⟨c1, h1, s1⟩ := get_run (metaKey c) ctx
  have hm : kvGet ctx.work (metaKey c) = none := by rw [rep_meta s ctx.work hr c, hl]; rfl
  obtain ⟨c2, h2, e2⟩ := set_run' (metaKey c) (.cmeta ⟨0, []⟩) c1
  have hw1 : c1.work = ctx.work := s1.1
  refine ⟨c2, ?_, ?_, ?_⟩
  · unfold createColl
    rw [bind_run _ _ _ c1 _ h1, hm]
    simp only [saveMeta]
    exact h2
  · rw [e2.2.2, s1.2.2]
  · have hwork : c2.work = kvSet ctx.work (metaKey c) (.cmeta ⟨0, []⟩) := by rw [e2.1, hw1]
    rw [hwork]
    have hget : ∀ k, kvGet (kvSet ctx.work (metaKey c) (.cmeta ⟨0, []⟩)) k =
        if k = metaKey c then some (.cmeta ⟨0, []⟩) else kvGet ctx.work k := fun k => kvGet_kvSet _ _ _ _ hr.1
    refine rep_insert_coll s ctx.work _ hw hr c hc ({} : Spec.Coll) ⟨by simp, by simp [Spec.KeysSorted], by simp, by simp, by simp⟩
      (ksorted_kvSet _ hr.1 _ _) ?_ ?_
    · intro k hno
      rw [hget k, if_neg (fun e => hno (Or.inl e))]
    · apply owned_of_parts c [] [] _
      · rw [hget, if_pos rfl]; rfl
      · intro k v ho
        have hne : k ≠ metaKey c := ownsD_ne_meta c k ho
        rw [hget k, if_neg hne, rep_unowned s ctx.work hw hr c hc hl k (Or.inr ho)]
        constructor
        · intro h; simp at h
        · intro h
          rw [holdsD_iff] at h
          obtain ⟨id, d, hld, _⟩ := h
          simp [Spec.lookup] at hld

theorem createCollectionByQuery_inv (s : Spec.State) (σ : KVS) (hw : WF s) (hr : Rep s σ) (c : Bytes) (hc : Clean c)
    (q : Query) (fresh : List Bytes) :
    let r := withTx true (Op.body likeFn fnFam (.createCollectionByQuery c q fresh)) noFault σ
    ∃ s', Rep s' r.2.1 ∧ WF s' := by
  intro r
  have hm := rep_meta s σ hr c
  have herr : ∀ e c', (Op.body likeFn fnFam (.createCollectionByQuery c q fresh)) noFault (ctx0 true σ) = (.err e, c') →
      ∃ s', Rep s' r.2.1 ∧ WF s' := by
    intro e c' hb
    have ht := withTx_err _ σ _ _ hb
    exact ⟨s, by show Rep s (withTx true _ noFault σ).2.1; rw [ht.2]; exact hr, hw⟩
  cases hl : Spec.lookup c s with
  | some coll =>
    -- the name is taken
    rw [hl] at hm
    obtain ⟨c1, h1, s1⟩ := get_run (metaKey c) (ctx0 true σ)
    refine herr .collExist c1 ?_
    simp only [Op.body]
    apply bind_run_err'
    unfold createColl
    rw [bind_run _ _ _ c1 _ h1]
    have : kvGet (ctx0 true σ).work (metaKey c) = some (.cmeta ⟨coll.docs.length, coll.indexes⟩) := hm
    rw [this]; rfl
  | none =>
    obtain ⟨c1, h1, hsk1, hr1, hw1⟩ := createColl_run s (ctx0 true σ) hw hr c hc hl
    -- the query runs in the state that already has the (empty) target
    cases hlq : Spec.lookup q.coll (Spec.insert c ({} : Spec.Coll) s) with
    | none =>
      have hmq : kvGet c1.work (metaKey q.coll) = none := by rw [rep_meta _ c1.work hr1 q.coll, hlq]; rfl
      obtain ⟨c2, h2⟩ := iterateDocs_missing likeFn fnFam q none c1 hmq
      refine herr .collNotExist c2 ?_
      simp only [Op.body]
      rw [bind_run _ _ _ c1 _ h1]
      exact bind_run_err' _ _ _ _ _ h2
    | some src =>
      obtain ⟨c2, h2, s2⟩ := iterateDocs_run likeFn fnFam _ c1 hw1 hr1 q none src hlq
      have hwk2 : c2.work = c1.work := s2.1
      have hr2 : Rep (Spec.insert c ({} : Spec.Coll) s) c2.work := by rw [hwk2]; exact hr1
      have hlc : Spec.lookup c (Spec.insert c ({} : Spec.Coll) s) = some ({} : Spec.Coll) := by
        rw [Spec.lookup_insert']; simp
      have hparts := parts_of_owned c ({} : Spec.Coll) c2.work
        (fun k v ho => rep_owned _ c2.work hw1 hr2 c _ hlc k v ho)
      generalize hsel : finishPipe q none _ _ = sel at h2
      have hins := insertDocs_run c hc [] (assignIds sel fresh) [] c2 hr2.1 hparts.1 hparts.2
        (by simp [Spec.KeysSorted]) (by simp)
      cases hia : Spec.insertAll [] (assignIds sel fresh) with
      | err e =>
        obtain ⟨c3, h3⟩ := hins.2 e hia
        refine herr e c3 ?_
        simp only [Op.body]
        rw [bind_run _ _ _ c1 _ h1, bind_run _ _ _ c2 _ h2]
        exact bind_run_err' _ _ _ _ _ h3
      | ok docs' =>
        obtain ⟨c3, h3, hsk3, hs3, hf3, ho3, hso3, hid3⟩ := hins.1 docs' hia
        have hb : (Op.body likeFn fnFam (.createCollectionByQuery c q fresh)) noFault (ctx0 true σ) = (.ok .unit, c3) := by
          simp only [Op.body]
          rw [bind_run _ _ _ c1 _ h1, bind_run _ _ _ c2 _ h2, bind_run _ _ _ c3 _ h3]
          rfl
        have hsk : c3.skipCommit = false := by rw [hsk3, s2.2.2, hsk1]; rfl
        have ht := withTx_ok _ σ _ _ hb hsk
        have := rep_insert_coll _ c2.work c3.work hw1 hr2 c hc ⟨[], docs'⟩
          (collWF_of_parts [] docs' hso3 hid3 (by simp) (by simp)) hs3 hf3 ho3
        exact ⟨_, by show Rep _ (withTx true _ noFault σ).2.1; rw [ht.2]; exact this.1, this.2⟩

/-! ## one transaction of a routed operation, fault-free -/

theorem ite_or {α} (p : Prop) [Decidable p] (x y : α) : (if p then x else y) = x ∨ (if p then x else y) = y := by
  by_cases h : p <;> simp [h]

theorem route_save (c : Bytes) (d : Doc) (fresh : List Bytes) :
    (Op.save c d fresh).route = .insert c [d] fresh ∨ (Op.save c d fresh).route = .updateById c d.objectId (.const d) := by
  simp only [Op.route]
  exact ite_or _ _ _


theorem exec_inv_noFault (op : Op) (hop : OpOK op) (hroute : op.route = op) (hpre : op.pre = none)
    (s : Spec.State) (σ : KVS) (hw : WF s) (hr : Rep s σ) :
    Inv (op.exec likeFn fnFam σ noFault).2.1 := by
  have hsame : Inv σ := ⟨s, hw, hr⟩
  cases op with
  | createCollection c =>
    exact inv_of _ _ ⟨(createCollection_refines likeFn fnFam s σ hw hr c hop).2.1, (createCollection_refines likeFn fnFam s σ hw hr c hop).2.2⟩
  | dropCollection c =>
    exact inv_of _ _ ⟨(dropCollection_refines likeFn fnFam s σ hw hr c).2.1, (dropCollection_refines likeFn fnFam s σ hw hr c).2.2⟩
  | listCollections =>
    simp only [Op.exec, Op.isWrite]
    rw [(listCollections_refines likeFn fnFam s σ hw hr).2]; exact hsame
  | insert c docs fresh =>
    exact inv_of _ _ ⟨(insert_refines likeFn fnFam s σ hw hr c docs fresh).2.1, (insert_refines likeFn fnFam s σ hw hr c docs fresh).2.2⟩
  | save c d fresh =>
    -- `route` rewrites Save into Insert or UpdateById, so a routed operation is never a Save
    exfalso
    rcases route_save c d fresh with h | h <;> rw [h] at hroute <;> simp at hroute
  | replaceById c id d =>
    exfalso
    simp [Op.route] at hroute
  | deleteById c id =>
    exact inv_of _ _ ⟨(deleteById_refines likeFn fnFam s σ hw hr c id).2.1, (deleteById_refines likeFn fnFam s σ hw hr c id).2.2⟩
  | updateById c id u =>
    exact inv_of _ _ ⟨(updateById_refines likeFn fnFam s σ hw hr c id u).2.1, (updateById_refines likeFn fnFam s σ hw hr c id u).2.2⟩
  | update q u =>
    obtain ⟨s', h1, h2, _⟩ := update_inv likeFn fnFam s σ hw hr q u
    exact ⟨s', h2, h1⟩
  | delete q =>
    obtain ⟨s', h1, h2, _⟩ := delete_inv likeFn fnFam s σ hw hr q
    exact ⟨s', h2, h1⟩
  | createIndex c f =>
    exact inv_of _ _ ⟨(createIndex_refines likeFn fnFam s σ hw hr c f hop).2.1, (createIndex_refines likeFn fnFam s σ hw hr c f hop).2.2⟩
  | dropIndex c f =>
    exact inv_of _ _ ⟨(dropIndex_refines likeFn fnFam s σ hw hr c f).2.1, (dropIndex_refines likeFn fnFam s σ hw hr c f).2.2⟩
  | createCollectionByQuery c q fresh =>
    obtain ⟨s', h1, h2⟩ := createCollectionByQuery_inv likeFn fnFam s σ hw hr c hop q fresh
    exact ⟨s', h2, h1⟩
  | importDocs c docs fresh =>
    exact inv_of _ _ ⟨(importDocs_refines likeFn fnFam s σ hw hr c hop docs fresh).2.1, (importDocs_refines likeFn fnFam s σ hw hr c hop docs fresh).2.2⟩
  | hasCollection c => rw [Props.C04.read_tx_pure likeFn fnFam _ rfl]; exact hsame
  | findAll q => rw [Props.C04.read_tx_pure likeFn fnFam _ rfl]; exact hsame
  | forEach q k => rw [Props.C04.read_tx_pure likeFn fnFam _ rfl]; exact hsame
  | findFirst q => rw [Props.C04.read_tx_pure likeFn fnFam _ rfl]; exact hsame
  | exists_ q => rw [Props.C04.read_tx_pure likeFn fnFam _ rfl]; exact hsame
  | count q => rw [Props.C04.read_tx_pure likeFn fnFam _ rfl]; exact hsame
  | findById c id => rw [Props.C04.read_tx_pure likeFn fnFam _ rfl]; exact hsame
  | hasIndex c f => rw [Props.C04.read_tx_pure likeFn fnFam _ rfl]; exact hsame
  | listIndexes c => rw [Props.C04.read_tx_pure likeFn fnFam _ rfl]; exact hsame
  | exportDocs c => rw [Props.C04.read_tx_pure likeFn fnFam _ rfl]; exact hsame

theorem route_idem (op : Op) : op.route.route = op.route := by
  cases op <;> try rfl
  case save c d fresh =>
    rcases route_save c d fresh with h | h <;> rw [h] <;> rfl

theorem route_ok (op : Op) (h : OpOK op) : OpOK op.route := by
  cases op <;> try exact h
  case save c d fresh =>
    rcases route_save c d fresh with h | h <;> rw [h] <;> trivial

theorem route_pre (op : Op) : op.route.pre = none ∨ ∃ c fresh, op.route = .importDocs c none fresh := by
  cases op <;> try (left; rfl)
  case save c d fresh =>
    left
    rcases route_save c d fresh with h | h <;> rw [h] <;> rfl
  case importDocs c docs fresh =>
    cases docs with
    | none => right; exact ⟨c, fresh, rfl⟩
    | some ds => left; rfl

/-- **C06: every operation preserves the invariant**, whatever the fault schedule. -/
theorem inv_step (op : Op) (hop : OpOK op) (σ : DBState) (φ : Faults) (h : Inv σ.kv) :
    Inv (op.run likeFn fnFam σ φ).state.kv := by
  by_cases hf : (op.run likeFn fnFam σ φ).fired = true
  · rw [(Props.C04.fault_reported likeFn fnFam op σ φ hf).2]; exact h
  · simp only [Bool.not_eq_true] at hf
    rw [run_unfired likeFn fnFam op σ φ hf]
    unfold Op.run
    by_cases hcl : σ.closed = true
    · simp only [hcl, if_true]; exact h
    · simp only [hcl, Bool.false_eq_true, if_false]
      cases hpre : op.pre with
      | some e => exact h
      | none =>
        simp only
        obtain ⟨s, hw, hr⟩ := h
        rcases route_pre op with hrp | ⟨c, fresh, hri⟩
        · exact exec_inv_noFault likeFn fnFam op.route (route_ok op hop) (route_idem op) hrp s σ.kv hw hr
        · -- an unreadable import file: `pre` has already answered
          exfalso
          cases op <;> try (simp [Op.route] at hri; done)
          case save c' d fresh' => rcases route_save c' d fresh' with h | h <;> rw [h] at hri <;> simp at hri
          case importDocs c' docs fresh' =>
            simp only [Op.route, Op.importDocs.injEq] at hri
            obtain ⟨_, hd, _⟩ := hri
            subst hd
            simp [Op.pre] at hpre

/-- a history: operations with the fault schedule of each call -/
def runHistory (h : List (Op × Faults)) (σ : DBState) : DBState :=
  h.foldl (fun σ p => (p.1.run likeFn fnFam σ p.2).state) σ

/-- **C06 for every reachable state**: after any finite history of operations in the supported
    domain, each under an arbitrary fault schedule, from any store satisfying the invariant. -/
theorem inv_reachable (h : List (Op × Faults)) (hok : ∀ p ∈ h, OpOK p.1) (σ : DBState) (hinv : Inv σ.kv) :
    Inv (runHistory likeFn fnFam h σ).kv := by
  induction h generalizing σ with
  | nil => exact hinv
  | cons p t ih =>
    exact ih (fun q hq => hok q (List.mem_cons_of_mem _ hq)) _
      (inv_step likeFn fnFam p.1 (hok p (by simp)) σ p.2 hinv)

/-- … in particular from the empty database -/
theorem inv_from_empty (h : List (Op × Faults)) (hok : ∀ p ∈ h, OpOK p.1) :
    Inv (runHistory likeFn fnFam h {}).kv := inv_reachable likeFn fnFam h hok {} inv_init

end CV
