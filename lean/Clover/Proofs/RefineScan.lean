import Clover.Proofs.RepKeys
import Clover.Proofs.PrefixBlock
import Clover.Proofs.ScanRun
/-! # The full collection scan sees exactly the documents of the collection, in id order -/
namespace CV
open OC Keys StoreM

theorem kvGet_eq_assoc : (t : KVS) → (k : Bytes) → kvGet t k = assoc k t
  | [], _ => rfl
  | (k', v) :: t, k => by simp only [kvGet, assoc, kvGet_eq_assoc t k]

theorem kvGet_filter_key (q : Bytes → Bool) : (t : KVS) → (k : Bytes) →
    kvGet (t.filter (fun e => q e.1)) k = if q k then kvGet t k else none
  | [], _ => by simp [kvGet]
  | (k', v) :: t, k => by
    simp only [List.filter]
    by_cases hq : q k' = true
    · simp only [hq, kvGet]
      by_cases hk : k = k'
      · subst hk; simp [hq]
      · simp only [hk, if_false]; exact kvGet_filter_key q t k
    · simp only [Bool.not_eq_true] at hq
      simp only [hq, kvGet]
      by_cases hk : k = k'
      · subst hk; simp only [hq, if_true]
        rw [kvGet_filter_key q t k]; simp [hq]
      · simp only [hk, if_false]; exact kvGet_filter_key q t k

theorem assoc_docEntries (c id : Bytes) (hc : Clean c) (ds : List (Bytes × Doc)) :
    assoc (docKey c id) (ds.map (fun e => (docKey c e.1, SVal.doc e.2))) = (Spec.lookup id ds).map SVal.doc := by
  induction ds with
  | nil => rfl
  | cons e ds ih =>
    obtain ⟨id', d'⟩ := e
    simp only [List.map, assoc, Spec.lookup]
    by_cases hid : id = id'
    · subst hid; simp
    · have : docKey c id ≠ docKey c id' := fun e => hid (docKey_inj c c id id' hc hc e).2
      simp only [this, if_false, hid]
      exact ih

theorem docEntries_sorted (c : Bytes) (coll : Spec.Coll)
    (h : coll.docs.Pairwise (fun a b => lexLt a.1 b.1 = true)) : KSorted (docEntries c coll) := by
  unfold KSorted docEntries
  rw [List.pairwise_map]
  apply h.imp
  intro a b hab
  show lexLt (docPrefix c ++ a.1) (docPrefix c ++ b.1) = true
  rw [lexLt_prefix]; exact hab

theorem ksorted_filter (q : Bytes × SVal → Bool) (t : KVS) (h : KSorted t) : KSorted (t.filter q) :=
  List.Pairwise.sublist List.filter_sublist h

/-- under the representation relation, the part of the store under a collection's document prefix
    is exactly that collection's documents, keyed by id, in id order -/
theorem doc_block (s : Spec.State) (σ : KVS) (hw : WF s) (hr : Rep s σ) (c : Bytes) (coll : Spec.Coll)
    (hc : Clean c) (hl : Spec.lookup c s = some coll) (hcw : CollWF coll) :
    σ.filter (fun e => isPrefix (docPrefix c) e.1) = docEntries c coll := by
  apply kv_ext _ _ (ksorted_filter _ σ hr.1) (docEntries_sorted c coll hcw.docsSorted)
  intro k
  rw [kvGet_filter_key (fun k => isPrefix (docPrefix c) k) σ k]
  by_cases hp : isPrefix (docPrefix c) k = true
  · obtain ⟨r, hr'⟩ := (isPrefix_iff _ _).1 hp
    have hk : k = docKey c r := hr'
    simp only [hp, if_true]
    rw [hr.2 k, hk, assoc_doc c r hc s hw.namesClean hw.namesDistinct, hl, Option.bind_some, kvGet_eq_assoc]
    exact (assoc_docEntries c r hc coll.docs).symm
  · simp only [Bool.not_eq_true] at hp
    simp only [hp, Bool.false_eq_true, if_false]
    rw [kvGet_eq_assoc]
    symm
    apply assoc_none_of_not_mem
    intro e he
    simp only [docEntries, List.mem_map] at he
    obtain ⟨x, _, hx⟩ := he
    intro e2
    rw [← e2, ← hx] at hp
    have : isPrefix (docPrefix c) (docKey c x.1) = true := isPrefix_append _ _
    simp [this] at hp

/-- what the cursor of a full collection scan walks over, up to the end of the prefix -/
theorem full_scan_items (s : Spec.State) (σ : KVS) (hw : WF s) (hr : Rep s σ) (c : Bytes) (coll : Spec.Coll)
    (hc : Clean c) (hl : Spec.lookup c s = some coll) (hcw : CollWF coll) :
    (seekFwd σ (docPrefix c)).takeWhile (fun e => isPrefix (docPrefix c) e.1) = docEntries c coll := by
  rw [prefix_scan_eq_filter (docPrefix c) σ hr.1]
  exact doc_block s σ hw hr c coll hc hl hcw

end CV

namespace CV
open OC Keys StoreM

/-- fold with early stop -/
def foldStop {β α : Type} (f : β → α → β × Flow) : β → List α → β
  | acc, [] => acc
  | acc, x :: xs =>
    match f acc x with
    | (acc', .stop) => acc'
    | (acc', .cont) => foldStop f acc' xs

def docOf : Bytes × SVal → Option Doc
  | (_, .doc d) => some d
  | _ => none

/-- a fault-free full-collection loop is a fold (with early stop) over the documents of the block -/
theorem loopPrefix_docs_run {β : Type} (pfx : Bytes) (onDoc : β → Doc → β × Flow) : (items : KVS) → (acc : β) → (c : Ctx) →
    (∀ e ∈ items.takeWhile (fun e => isPrefix pfx e.1), ∃ d, e.2 = SVal.doc d) →
    ∃ c', (loopPrefix pfx (fun st e => match e.2 with
        | .doc d => (pure (onDoc st d) : StoreM (β × Flow))
        | _ => fail .badInput) acc items) noFault c
      = (.ok (foldStop onDoc acc ((items.takeWhile (fun e => isPrefix pfx e.1)).filterMap docOf)), c') ∧ SameWork c c'
  | [], acc, c, _ => ⟨c, rfl, SameWork.refl c⟩
  | e :: rest, acc, c, hdocs => by
    obtain ⟨c1, h1, s1⟩ := item_run e.1 c
    simp only [loopPrefix]
    rw [bind_run _ _ c c1 () h1]
    by_cases hp : isPrefix pfx e.1 = true
    · obtain ⟨d, hd⟩ := hdocs e (by simp [List.takeWhile, hp])
      obtain ⟨k, v⟩ := e
      simp only at hd hp
      subst hd
      simp only [hp, Bool.not_true, Bool.false_eq_true, if_false, List.takeWhile, List.filterMap, docOf, foldStop]
      cases hf : onDoc acc d with
      | mk acc' fl =>
        cases fl with
        | stop =>
          refine ⟨c1, ?_, s1⟩
          rw [bind_run _ _ c1 c1 _ (show (pure (acc', Flow.stop) : StoreM (β × Flow)) noFault c1 = (.ok (acc', Flow.stop), c1) from rfl)]
          rfl
        | cont =>
          obtain ⟨c2, h2, s2⟩ := loopPrefix_docs_run pfx onDoc rest acc' c1 (by
            intro e he
            exact hdocs e (by simp [List.takeWhile, hp, he]))
          refine ⟨c2, ?_, s1.trans s2⟩
          rw [bind_run _ _ c1 c1 _ (show (pure (acc', Flow.cont) : StoreM (β × Flow)) noFault c1 = (.ok (acc', Flow.cont), c1) from rfl)]
          exact h2
    · simp only [Bool.not_eq_true] at hp
      refine ⟨c1, ?_, s1⟩
      simp [hp, List.takeWhile, foldStop]; rfl

variable (likeFn : LikeFn) (fnFam : FnFam)

/-- streaming the matching documents through skip/limit + consumer is `feed` over the filtered list -/
theorem foldStop_emit (q : Query) (k : Option Nat) (p : Doc → Bool) : (st : Pipe) → (ds : List Doc) →
    foldStop (fun st d => if p d then emit q k st d else (st, Flow.cont)) st ds = feed q k st (ds.filter p)
  | st, [] => rfl
  | st, d :: ds => by
    simp only [foldStop, List.filter]
    by_cases hp : p d = true
    · simp only [hp, if_true, feed]
      cases he : emit q k st d with
      | mk st' fl => cases fl <;> simp only [foldStop_emit q k p st' ds]
    · simp only [Bool.not_eq_true] at hp
      simp only [hp, Bool.false_eq_true, if_false]
      exact foldStop_emit q k p st ds

/-- collecting for the sort node never stops and buffers the matching documents -/
theorem foldStop_collect (p : Doc → Bool) : (st : Pipe) → (ds : List Doc) →
    foldStop (fun st d => if p d then collect st d else (st, Flow.cont)) st ds =
      { st with buf := (ds.filter p).reverse ++ st.buf }
  | st, [] => by simp [foldStop]
  | st, d :: ds => by
    simp only [foldStop, List.filter]
    by_cases hp : p d = true
    · simp only [hp, if_true]
      have := foldStop_collect p (collect st d).1 ds
      simp only [collect] at this ⊢
      rw [this]
      simp
    · simp only [Bool.not_eq_true] at hp
      simp only [hp, Bool.false_eq_true, if_false]
      exact foldStop_collect p st ds

end CV
