import Clover.Proofs.DerivedAnyPlan
import Clover.Proofs.BulkExact
import Clover.Proofs.CopyAnyPlan
/-! # A TOTAL sort order makes every plan exact

`findAll_classwise_any_plan` (SortClasses.lean) says that the answer of any plan agrees with the
specification's position by position UP TO TIES of `compareDocuments · · q.sort`.  When the sort
order has no ties among the matching documents (`TotalSort`; typically: `_id` is one of the sort
keys) the two lists are EQUAL, under any skip/limit window.  Hence:

1. `TotalSort`, `forall₂_eq_of_total`, `totalSort_of_id_key` (an `_id` sort key gives totality);
2. `findAll_exact_total_any_plan`, `findFirst_exact_total_any_plan`, `forEach_exact_total_any_plan`;
3. `selectionOf_eq_total`; windowed bulk writes through any plan refine the specification
   (`update_total_any_plan`, `update_exact_any_plan_window`, `delete_exact_any_plan_window`);
4. `createCollectionByQuery_exact_any_plan_window`;
5. the domains `BulkDomainW` / `CopyDomainW` and the step lemmas to wire into `Op.InDomain`. -/
namespace CV
open OC Keys StoreM

variable (likeFn : LikeFn) (fnFam : FnFam)

/-! ## 1. total sort orders -/

/-- the sort options order the matching live documents of the collection without ties -/
def TotalSort (q : Query) (coll : Spec.Coll) : Prop :=
  ∀ a ∈ (coll.docs.map (·.2)).filter (fun d => satOpt likeFn fnFam d q.crit),
    ∀ b ∈ (coll.docs.map (·.2)).filter (fun d => satOpt likeFn fnFam d q.crit),
      compareDocuments a b q.sort = 0 → a = b

/-- position-by-position tie-equivalent lists over a set without ties are equal -/
theorem forall₂_eq_of_total {α : Type} (M : List α) (cmp : α → α → Int)
    (htot : ∀ a ∈ M, ∀ b ∈ M, cmp a b = 0 → a = b) : {l₁ l₂ : List α} →
    List.Forall₂ (fun a b => cmp a b = 0) l₁ l₂ → (∀ x ∈ l₁, x ∈ M) → (∀ x ∈ l₂, x ∈ M) → l₁ = l₂
  | _, _, .nil, _, _ => rfl
  | _, _, .cons hr h, h₁, h₂ => by
    rw [htot _ (h₁ _ (List.mem_cons_self ..)) _ (h₂ _ (List.mem_cons_self ..)) hr,
      forall₂_eq_of_total M cmp htot h (fun x hx => h₁ x (List.mem_cons_of_mem _ hx))
        (fun x hx => h₂ x (List.mem_cons_of_mem _ hx))]

theorem mem_sortDocs_iff (opts : List (Bytes × Int)) (l : List Doc) (d : Doc) : d ∈ sortDocs opts l ↔ d ∈ l := by
  unfold sortDocs
  exact (List.mergeSort_perm _ _).mem_iff

/-- the documents of the answer of any plan are matching live documents -/
theorem planAnswer_mem_matching (s : Spec.State) (σ : KVS) (hw : WF s) (hr : Rep s σ) (q : Query)
    (coll : Spec.Coll) (hl : Spec.lookup q.coll s = some coll) :
    ∀ d ∈ planAnswer likeFn fnFam σ q coll,
      d ∈ (coll.docs.map (·.2)).filter (fun d => satOpt likeFn fnFam d q.crit) := by
  intro d hd
  have hmem := filtered_candidates_mem likeFn fnFam s σ hw hr q coll hl
  unfold planAnswer at hd
  have hd' := (window_sublist _ _ _).subset hd
  simp only at hd'
  by_cases hns : needSort q (choosePlan coll.indexes q).2 = true
  · rw [if_pos hns] at hd'
    exact hmem d ((mem_sortDocs_iff _ _ _).1 hd')
  · rw [if_neg hns] at hd'
    exact hmem d hd'

/-- the documents of the specification's answer are matching live documents -/
theorem spec_findAll_mem_matching (q : Query) (coll : Spec.Coll) :
    ∀ d ∈ Spec.findAll likeFn fnFam q coll,
      d ∈ (coll.docs.map (·.2)).filter (fun d => satOpt likeFn fnFam d q.crit) := by
  intro d hd
  unfold Spec.findAll at hd
  have hd' := (window_sublist _ _ _).subset hd
  by_cases he : q.sort.isEmpty = true
  · rw [if_pos he] at hd'
    exact hd'
  · rw [if_neg he] at hd'
    exact (mem_sortDocs_iff _ _ _).1 hd'

/-- **Under a total sort order the answer of any plan IS the specification's answer** (any skip and
    limit) -/
theorem planAnswer_eq_total (s : Spec.State) (σ : KVS) (hw : WF s) (hr : Rep s σ) (q : Query)
    (coll : Spec.Coll) (hl : Spec.lookup q.coll s = some coll) (hdomain : KeyDomain q coll)
    (hsd : SortDom q.sort ((coll.docs.map (·.2)).filter (fun d => satOpt likeFn fnFam d q.crit)))
    (hnn : (choosePlan coll.indexes q).2 = true →
      ∀ o ∈ q.sort, ∀ d ∈ (coll.docs.map (·.2)).filter (fun d => satOpt likeFn fnFam d q.crit),
        d.has o.1 = true → d.get o.1 ≠ .null)
    (htot : TotalSort likeFn fnFam q coll) :
    planAnswer likeFn fnFam σ q coll = Spec.findAll likeFn fnFam q coll :=
  forall₂_eq_of_total _ (fun a b => compareDocuments a b q.sort) htot
    (plan_answer_classwise likeFn fnFam s σ hw hr q coll hl hdomain hsd hnn)
    (planAnswer_mem_matching likeFn fnFam s σ hw hr q coll hl)
    (spec_findAll_mem_matching likeFn fnFam q coll)

/-! ### the typical instance: `_id` among the sort keys -/

/-- a tie of the whole comparison is a tie on every sort key (directions ±1) -/
theorem keyCmp_zero_of_compareDocuments (a b : Doc) : (opts : List (Bytes × Int)) →
    (∀ o ∈ opts, o.2 = 1 ∨ o.2 = -1) → compareDocuments a b opts = 0 → ∀ o ∈ opts, keyCmp o.1 a b = 0
  | [], _, _, o, ho => by cases ho
  | (f, dir) :: rest, hdir, h, o, ho => by
    rw [compareDocuments_cons] at h
    have hd : dir = 1 ∨ dir = -1 := hdir (f, dir) (List.mem_cons_self ..)
    by_cases hk : keyCmp f a b = 0
    · rw [if_pos hk] at h
      rcases List.mem_cons.1 ho with e | e
      · rw [e]; exact hk
      · exact keyCmp_zero_of_compareDocuments a b rest (fun o ho => hdir o (List.mem_cons_of_mem _ ho)) h o e
    · rw [if_neg hk] at h
      exfalso
      rcases hd with e | e <;> (rw [e] at h; omega)

/-- a document with a non-empty `ObjectId()` has the `_id` field, and it is that string -/
theorem id_of_objectId_ne (d : Doc) (h : d.objectId ≠ []) :
    d.has idField = true ∧ d.get idField = .str d.objectId := by
  have hg : d.get idField = .str d.objectId := by
    unfold Doc.objectId at h ⊢
    cases hv : d.get idField with
    | str s => rfl
    | _ => rw [hv] at h; exact absurd rfl h
  refine ⟨?_, hg⟩
  unfold Doc.get at hg
  unfold Doc.has
  cases hp : getPath d (splitDots idField) with
  | some v => rfl
  | none => rw [hp] at hg; cases hg

/-- a tie on the `_id` key between documents that carry an id: the ids are equal -/
theorem objectId_eq_of_keyCmp_id (a b : Doc) (ha : a.objectId ≠ []) (hb : b.objectId ≠ [])
    (h : keyCmp idField a b = 0) : a.objectId = b.objectId := by
  obtain ⟨hA, gA⟩ := id_of_objectId_ne a ha
  obtain ⟨hB, gB⟩ := id_of_objectId_ne b hb
  unfold keyCmp at h
  rw [hA, hB, gA, gB] at h
  simp only [Bool.not_true, Bool.false_and, Bool.and_false, Bool.and_self, Bool.false_eq_true, if_false,
    if_true, goCmp] at h
  exact cmpBytes_eq _ _ h

/-- `_id` among the sort keys (directions ±1): no two live documents of a well-formed collection tie
    (their ids are pairwise distinct) -/
theorem live_total_of_id_key (opts : List (Bytes × Int)) (coll : Spec.Coll) (hcw : CollWF coll)
    (hdir : ∀ o ∈ opts, o.2 = 1 ∨ o.2 = -1) (hid : ∃ o ∈ opts, o.1 = idField) :
    ∀ a ∈ coll.docs.map (·.2), ∀ b ∈ coll.docs.map (·.2), compareDocuments a b opts = 0 → a = b := by
  intro a ha b hb h
  obtain ⟨ea, hea, eqa⟩ := List.mem_map.1 ha
  obtain ⟨eb, heb, eqb⟩ := List.mem_map.1 hb
  obtain ⟨o, ho, hof⟩ := hid
  have hk := keyCmp_zero_of_compareDocuments a b opts hdir h o ho
  rw [hof] at hk
  obtain ⟨wa, ia⟩ := hcw.idsWF ea hea
  obtain ⟨wb, ib⟩ := hcw.idsWF eb heb
  rw [eqa] at ia
  rw [eqb] at ib
  have hna : a.objectId ≠ [] := by
    intro e
    have := wa.1
    rw [← ia, e] at this
    cases this
  have hnb : b.objectId ≠ [] := by
    intro e
    have := wb.1
    rw [← ib, e] at this
    cases this
  have hids := objectId_eq_of_keyCmp_id a b hna hnb hk
  have hkeys : ea.1 = eb.1 := by rw [← ia, ← ib]; exact hids
  have la : Spec.lookup ea.1 coll.docs = some ea.2 := mem_lookup_some ea.1 ea.2 _ hcw.idsDistinct hea
  have lb : Spec.lookup eb.1 coll.docs = some eb.2 := mem_lookup_some eb.1 eb.2 _ hcw.idsDistinct heb
  rw [hkeys, lb] at la
  rw [← eqa, ← eqb]
  exact (Option.some.inj la).symm

/-- **`_id` among the sort keys makes the order total** on the live documents of a well-formed
    collection, whatever the criteria and the other sort keys -/
theorem totalSort_of_id_key (q : Query) (coll : Spec.Coll) (hcw : CollWF coll)
    (hdir : ∀ o ∈ q.sort, o.2 = 1 ∨ o.2 = -1) (hid : ∃ o ∈ q.sort, o.1 = idField) :
    TotalSort likeFn fnFam q coll :=
  fun a ha b hb h => live_total_of_id_key q.sort coll hcw hdir hid a (List.mem_filter.1 ha).1
    b (List.mem_filter.1 hb).1 h

/-- … for a collection of a well-formed state -/
theorem totalSort_of_id_key_wf (s : Spec.State) (hw : WF s) (q : Query) (coll : Spec.Coll)
    (hl : Spec.lookup q.coll s = some coll)
    (hdir : ∀ o ∈ q.sort, o.2 = 1 ∨ o.2 = -1) (hid : ∃ o ∈ q.sort, o.1 = idField) :
    TotalSort likeFn fnFam q coll :=
  totalSort_of_id_key likeFn fnFam q coll (wf_lookup_clean s hw q.coll coll hl).2 hdir hid

/-! ## 2. the reads, exactly, under any plan and any window -/

/-- **`FindAll` under any plan, any sort, skip and limit, with a total sort order: EXACTLY the
    specification's list.** -/
theorem findAll_exact_total_any_plan (s : Spec.State) (σ : KVS) (hw : WF s) (hr : Rep s σ) (q : Query)
    (coll : Spec.Coll) (hl : Spec.lookup q.coll s = some coll) (hdomain : KeyDomain q coll)
    (hsd : SortDom q.sort ((coll.docs.map (·.2)).filter (fun d => satOpt likeFn fnFam d q.crit)))
    (hnn : (choosePlan coll.indexes q).2 = true →
      ∀ o ∈ q.sort, ∀ d ∈ (coll.docs.map (·.2)).filter (fun d => satOpt likeFn fnFam d q.crit),
        d.has o.1 = true → d.get o.1 ≠ .null)
    (htot : TotalSort likeFn fnFam q coll) :
    (withTx false (Op.body likeFn fnFam (.findAll q)) noFault σ).1 =
      .ok (.docs (Spec.findAll likeFn fnFam q coll)) := by
  rw [findAll_run_planAnswer likeFn fnFam s σ hw hr q coll hl,
    planAnswer_eq_total likeFn fnFam s σ hw hr q coll hl hdomain hsd hnn htot]

/-- … that is, the specification's answer -/
theorem findAll_refines_total_any_plan (s : Spec.State) (σ : KVS) (hw : WF s) (hr : Rep s σ) (q : Query)
    (coll : Spec.Coll) (hl : Spec.lookup q.coll s = some coll) (hdomain : KeyDomain q coll)
    (hsd : SortDom q.sort ((coll.docs.map (·.2)).filter (fun d => satOpt likeFn fnFam d q.crit)))
    (hnn : (choosePlan coll.indexes q).2 = true →
      ∀ o ∈ q.sort, ∀ d ∈ (coll.docs.map (·.2)).filter (fun d => satOpt likeFn fnFam d q.crit),
        d.has o.1 = true → d.get o.1 ≠ .null)
    (htot : TotalSort likeFn fnFam q coll) :
    (withTx false (Op.body likeFn fnFam (.findAll q)) noFault σ).1 = (Spec.step likeFn fnFam s (.findAll q)).1 := by
  rw [findAll_exact_total_any_plan likeFn fnFam s σ hw hr q coll hl hdomain hsd hnn htot]
  simp only [Spec.step, Spec.withColl, hl]

/-- **`FindFirst` under any plan with a total sort order: the specification's answer** -/
theorem findFirst_exact_total_any_plan (s : Spec.State) (σ : KVS) (hw : WF s) (hr : Rep s σ) (q : Query)
    (coll : Spec.Coll) (hl : Spec.lookup q.coll s = some coll) (hdomain : KeyDomain q coll)
    (hsd : SortDom q.sort ((coll.docs.map (·.2)).filter (fun d => satOpt likeFn fnFam d q.crit)))
    (hnn : (choosePlan coll.indexes q).2 = true →
      ∀ o ∈ q.sort, ∀ d ∈ (coll.docs.map (·.2)).filter (fun d => satOpt likeFn fnFam d q.crit),
        d.has o.1 = true → d.get o.1 ≠ .null)
    (htot : TotalSort likeFn fnFam q coll) :
    (withTx false (Op.body likeFn fnFam (.findFirst q)) noFault σ).1 =
        .ok (.docOpt (Spec.findAll likeFn fnFam { q with limit := 1 } coll).head?) ∧
      (withTx false (Op.body likeFn fnFam (.findFirst q)) noFault σ).1 =
        (Spec.step likeFn fnFam s (.findFirst q)).1 := by
  have h : (withTx false (Op.body likeFn fnFam (.findFirst q)) noFault σ).1 =
      .ok (.docOpt (Spec.findAll likeFn fnFam { q with limit := 1 } coll).head?) := by
    rw [findFirst_run_any_plan likeFn fnFam s σ hw hr q coll hl,
      planAnswer_eq_total likeFn fnFam s σ hw hr { q with limit := 1 } coll hl
        (keyDomain_limit q coll 1 hdomain) hsd hnn htot]
  refine ⟨h, ?_⟩
  rw [h]
  simp only [Spec.step, Spec.withColl, hl]

/-- **`ForEach` under any plan with a total sort order** (consumer accepting everything, or stopping
    on its `n`-th document): it visits exactly the documents the specification says, in that order -/
theorem forEach_exact_total_any_plan (s : Spec.State) (σ : KVS) (hw : WF s) (hr : Rep s σ) (q : Query)
    (k : Option Nat) (coll : Spec.Coll) (hl : Spec.lookup q.coll s = some coll) (hdomain : KeyDomain q coll)
    (hsd : SortDom q.sort ((coll.docs.map (·.2)).filter (fun d => satOpt likeFn fnFam d q.crit)))
    (hnn : (choosePlan coll.indexes q).2 = true →
      ∀ o ∈ q.sort, ∀ d ∈ (coll.docs.map (·.2)).filter (fun d => satOpt likeFn fnFam d q.crit),
        d.has o.1 = true → d.get o.1 ≠ .null)
    (htot : TotalSort likeFn fnFam q coll) :
    (withTx false (Op.body likeFn fnFam (.forEach q k)) noFault σ).1 =
        .ok (.docs (seenBy k (Spec.findAll likeFn fnFam q coll))) ∧
      (withTx false (Op.body likeFn fnFam (.forEach q k)) noFault σ).1 =
        (Spec.step likeFn fnFam s (.forEach q k)).1 := by
  have h : (withTx false (Op.body likeFn fnFam (.forEach q k)) noFault σ).1 =
      .ok (.docs (seenBy k (Spec.findAll likeFn fnFam q coll))) := by
    rw [forEach_run_any_plan likeFn fnFam s σ hw hr q k coll hl,
      planAnswer_eq_total likeFn fnFam s σ hw hr q coll hl hdomain hsd hnn htot]
  exact ⟨h, by rw [h, spec_forEach likeFn fnFam s q k coll hl]⟩

/-! ## 3. bulk writes with a window, any plan -/

theorem selectionOf_eq_planAnswer (σ : KVS) (q : Query) (coll : Spec.Coll) :
    selectionOf likeFn fnFam σ q coll = planAnswer likeFn fnFam σ q coll := by
  unfold selectionOf planAnswer
  rw [pipeline_none]

/-- **the selection of a bulk write under any plan, with a total sort order, IS the specification's
    selection** — with any skip and limit -/
theorem selectionOf_eq_total (s : Spec.State) (σ : KVS) (hw : WF s) (hr : Rep s σ) (q : Query)
    (coll : Spec.Coll) (hl : Spec.lookup q.coll s = some coll) (hdomain : KeyDomain q coll)
    (hsd : SortDom q.sort ((coll.docs.map (·.2)).filter (fun d => satOpt likeFn fnFam d q.crit)))
    (hnn : (choosePlan coll.indexes q).2 = true →
      ∀ o ∈ q.sort, ∀ d ∈ (coll.docs.map (·.2)).filter (fun d => satOpt likeFn fnFam d q.crit),
        d.has o.1 = true → d.get o.1 ≠ .null)
    (htot : TotalSort likeFn fnFam q coll) :
    selectionOf likeFn fnFam σ q coll = Spec.findAll likeFn fnFam q coll := by
  rw [selectionOf_eq_planAnswer, planAnswer_eq_total likeFn fnFam s σ hw hr q coll hl hdomain hsd hnn htot]

/-- **`Update` / `UpdateFunc` with any skip/limit window through any plan refine the specification**
    when the sort order is total on the matching documents: same answer (the same error, or the same
    list of selected documents), a store representing the specification's next state; a failing
    update leaves the store alone. -/
theorem update_total_any_plan (s : Spec.State) (σ : KVS) (hw : WF s) (hr : Rep s σ) (q : Query) (u : Upd)
    (coll : Spec.Coll) (hl : Spec.lookup q.coll s = some coll) (hdomain : KeyDomain q coll)
    (hsd : SortDom q.sort ((coll.docs.map (·.2)).filter (fun d => satOpt likeFn fnFam d q.crit)))
    (hnn : (choosePlan coll.indexes q).2 = true →
      ∀ o ∈ q.sort, ∀ d ∈ (coll.docs.map (·.2)).filter (fun d => satOpt likeFn fnFam d q.crit),
        d.has o.1 = true → d.get o.1 ≠ .null)
    (htot : TotalSort likeFn fnFam q coll) :
    let r := withTx true (Op.body likeFn fnFam (.update q u)) noFault σ
    let sp := Spec.step likeFn fnFam s (.update q u)
    r.1 = sp.1 ∧ Rep sp.2 r.2.1 ∧ WF sp.2 ∧ (sp.1.isErr = true → r.2.1 = σ) := by
  simp only
  obtain ⟨hc, hcw⟩ := wf_lookup_clean s hw q.coll coll hl
  have hrun := replaceDocs_run_sel likeFn fnFam s (ctx0 true σ) hw hr q u coll hl
  have hwk : (ctx0 true σ).work = σ := rfl
  rw [hwk, selectionOf_eq_total likeFn fnFam s σ hw hr q coll hl hdomain hsd hnn htot] at hrun
  simp only [Spec.step, Spec.withColl, hl]
  cases ha : Spec.applyAll u coll.docs (Spec.findAll likeFn fnFam q coll) with
  | err e =>
    rw [ha] at hrun
    obtain ⟨c', h⟩ := hrun
    have hb : (Op.body likeFn fnFam (.update q u)) noFault (ctx0 true σ) = (.err e, c') := by
      simp only [Op.body]
      exact bind_run_err' _ _ _ _ _ h
    have ht := withTx_err _ σ _ _ hb
    exact ⟨ht.1, by rw [ht.2]; exact hr, hw, fun _ => ht.2⟩
  | ok docs' =>
    rw [ha] at hrun
    obtain ⟨c', h, _, p2, p3, p4, p5, p7, p8⟩ := hrun
    have hb : (Op.body likeFn fnFam (.update q u)) noFault (ctx0 true σ) =
        (.ok (.docs (Spec.findAll likeFn fnFam q coll)), c') := by
      simp only [Op.body]
      rw [bind_run _ _ _ c' _ h]
      rfl
    have hsk : c'.skipCommit = false := by rw [p2]; rfl
    have ht := withTx_ok _ σ _ _ hb hsk
    dsimp only
    rw [ht.1, ht.2]
    have hcw' : CollWF { coll with docs := docs' } :=
      ⟨Spec.keysSorted_nodup _ p7, p7, p8, hcw.fieldsClean, hcw.fieldsDistinct⟩
    have hrep := rep_insert_coll s σ c'.work hw hr q.coll hc _ hcw' p3 p4 p5
    exact ⟨rfl, hrep.1, hrep.2, fun he => nomatch he⟩

/-- **Index transparency for `Update` / `UpdateFunc` with a skip/limit window**, in the shape of
    `update_exact_any_plan`: `TotalSort` (+ `SortDom`, no explicit nil under an index-served sort
    key) instead of `q.skip = 0`, `q.limit < 0`.  (The selection answered is in fact the
    specification's list itself: `update_total_any_plan`.) -/
theorem update_exact_any_plan_window (s : Spec.State) (σ : KVS) (hw : WF s) (hr : Rep s σ) (q : Query) (u : Upd)
    (coll : Spec.Coll) (hl : Spec.lookup q.coll s = some coll) (hdomain : KeyDomain q coll)
    (hsd : SortDom q.sort ((coll.docs.map (·.2)).filter (fun d => satOpt likeFn fnFam d q.crit)))
    (hnn : (choosePlan coll.indexes q).2 = true →
      ∀ o ∈ q.sort, ∀ d ∈ (coll.docs.map (·.2)).filter (fun d => satOpt likeFn fnFam d q.crit),
        d.has o.1 = true → d.get o.1 ≠ .null)
    (htot : TotalSort likeFn fnFam q coll) :
    let r := withTx true (Op.body likeFn fnFam (.update q u)) noFault σ
    let sp := Spec.step likeFn fnFam s (.update q u)
    (sp.1.isErr = true → r.1.isErr = true ∧ r.2.1 = σ) ∧
    (sp.1.isErr = false → ∃ sel, r.1 = .ok (.docs sel) ∧ sel.Perm (Spec.findAll likeFn fnFam q coll) ∧
      Rep sp.2 r.2.1 ∧ WF sp.2) := by
  have h := update_total_any_plan likeFn fnFam s σ hw hr q u coll hl hdomain hsd hnn htot
  simp only at h ⊢
  obtain ⟨h1, h2, h3, h4⟩ := h
  refine ⟨fun he => ⟨by rw [h1]; exact he, h4 he⟩, fun he => ⟨Spec.findAll likeFn fnFam q coll, ?_, List.Perm.refl _, h2, h3⟩⟩
  rw [h1]
  revert he
  simp only [Spec.step, Spec.withColl, hl]
  cases Spec.applyAll u coll.docs (Spec.findAll likeFn fnFam q coll) with
  | err e => intro he; cases he
  | ok ds => intro _; rfl

/-- `Delete` with any skip/limit window through any plan refines the specification when the sort
    order is total on the matching documents -/
theorem delete_total_any_plan (s : Spec.State) (σ : KVS) (hw : WF s) (hr : Rep s σ) (q : Query)
    (coll : Spec.Coll) (hl : Spec.lookup q.coll s = some coll) (hdomain : KeyDomain q coll)
    (hsd : SortDom q.sort ((coll.docs.map (·.2)).filter (fun d => satOpt likeFn fnFam d q.crit)))
    (hnn : (choosePlan coll.indexes q).2 = true →
      ∀ o ∈ q.sort, ∀ d ∈ (coll.docs.map (·.2)).filter (fun d => satOpt likeFn fnFam d q.crit),
        d.has o.1 = true → d.get o.1 ≠ .null)
    (htot : TotalSort likeFn fnFam q coll) :
    let r := withTx true (Op.body likeFn fnFam (.delete q)) noFault σ
    let sp := Spec.step likeFn fnFam s (.delete q)
    r.1 = sp.1 ∧ Rep sp.2 r.2.1 ∧ WF sp.2 ∧ (sp.1.isErr = true → r.2.1 = σ) := by
  rw [body_delete, step_delete]
  exact update_total_any_plan likeFn fnFam s σ hw hr q .retNil coll hl hdomain hsd hnn htot

/-- **Index transparency for `Delete` with a skip/limit window**, in the shape of
    `delete_exact_any_plan` -/
theorem delete_exact_any_plan_window (s : Spec.State) (σ : KVS) (hw : WF s) (hr : Rep s σ) (q : Query)
    (coll : Spec.Coll) (hl : Spec.lookup q.coll s = some coll) (hdomain : KeyDomain q coll)
    (hsd : SortDom q.sort ((coll.docs.map (·.2)).filter (fun d => satOpt likeFn fnFam d q.crit)))
    (hnn : (choosePlan coll.indexes q).2 = true →
      ∀ o ∈ q.sort, ∀ d ∈ (coll.docs.map (·.2)).filter (fun d => satOpt likeFn fnFam d q.crit),
        d.has o.1 = true → d.get o.1 ≠ .null)
    (htot : TotalSort likeFn fnFam q coll) :
    let r := withTx true (Op.body likeFn fnFam (.delete q)) noFault σ
    let sp := Spec.step likeFn fnFam s (.delete q)
    (sp.1.isErr = true → r.1.isErr = true ∧ r.2.1 = σ) ∧
    (sp.1.isErr = false → ∃ sel, r.1 = .ok (.docs sel) ∧ sel.Perm (Spec.findAll likeFn fnFam q coll) ∧
      Rep sp.2 r.2.1 ∧ WF sp.2) := by
  rw [body_delete, step_delete]
  exact update_exact_any_plan_window likeFn fnFam s σ hw hr q .retNil coll hl hdomain hsd hnn htot

/-- `Delete` on a live collection with a window and a total sort order succeeds and answers the
    specification's selection -/
theorem delete_exact_any_plan_window_ok (s : Spec.State) (σ : KVS) (hw : WF s) (hr : Rep s σ) (q : Query)
    (coll : Spec.Coll) (hl : Spec.lookup q.coll s = some coll) (hdomain : KeyDomain q coll)
    (hsd : SortDom q.sort ((coll.docs.map (·.2)).filter (fun d => satOpt likeFn fnFam d q.crit)))
    (hnn : (choosePlan coll.indexes q).2 = true →
      ∀ o ∈ q.sort, ∀ d ∈ (coll.docs.map (·.2)).filter (fun d => satOpt likeFn fnFam d q.crit),
        d.has o.1 = true → d.get o.1 ≠ .null)
    (htot : TotalSort likeFn fnFam q coll) :
    let r := withTx true (Op.body likeFn fnFam (.delete q)) noFault σ
    let sp := Spec.step likeFn fnFam s (.delete q)
    ∃ sel, r.1 = .ok (.docs sel) ∧ sel.Perm (Spec.findAll likeFn fnFam q coll) ∧ Rep sp.2 r.2.1 ∧ WF sp.2 :=
  (delete_exact_any_plan_window likeFn fnFam s σ hw hr q coll hl hdomain hsd hnn htot).2
    (step_delete_ok likeFn fnFam s q coll hl)

/-! ## 4. `CreateCollectionByQuery` with a window, any plan -/

/-- `createCollectionByQuery_exact_any_plan` with its one use of the window hypotheses factored
    out: it is enough that the model's selection and the specification's give the same
    `Spec.insertAll` result, on every store representing the state in which the query runs -/
theorem createCollectionByQuery_exact_of_sel (s : Spec.State) (σ : KVS) (hw : WF s) (hr : Rep s σ) (c : Bytes)
    (hc : Clean c) (q : Query) (fresh : List Bytes)
    (hsel : ∀ src w, Spec.lookup q.coll (Spec.insert c ({} : Spec.Coll) s) = some src →
      WF (Spec.insert c ({} : Spec.Coll) s) → Rep (Spec.insert c ({} : Spec.Coll) s) w →
      Spec.insertAll [] (assignIds (selectionOf likeFn fnFam w q src) fresh) =
        Spec.insertAll [] (assignIds (Spec.findAll likeFn fnFam q src) fresh)) :
    let r := withTx true (Op.body likeFn fnFam (.createCollectionByQuery c q fresh)) noFault σ
    let sp := Spec.step likeFn fnFam s (.createCollectionByQuery c q fresh)
    r.1 = sp.1 ∧ Rep sp.2 r.2.1 ∧ WF sp.2 := by
  simp only
  have hm := rep_meta s σ hr c
  have herr : ∀ e c', (Op.body likeFn fnFam (.createCollectionByQuery c q fresh)) noFault (ctx0 true σ) = (.err e, c') →
      (withTx true (Op.body likeFn fnFam (.createCollectionByQuery c q fresh)) noFault σ).1 = .err e ∧
      Rep s (withTx true (Op.body likeFn fnFam (.createCollectionByQuery c q fresh)) noFault σ).2.1 ∧ WF s := by
    intro e c' hb
    have ht := withTx_err _ σ _ _ hb
    exact ⟨ht.1, by rw [ht.2]; exact hr, hw⟩
  cases hl : Spec.lookup c s with
  | some coll =>
    rw [hl] at hm
    obtain ⟨c1, h1, s1⟩ := get_run (metaKey c) (ctx0 true σ)
    simp only [Spec.step, hl, Option.isSome_some, if_true]
    refine herr .collExist c1 ?_
    simp only [Op.body]
    apply bind_run_err'
    unfold createColl
    rw [bind_run _ _ _ c1 _ h1]
    have : kvGet (ctx0 true σ).work (metaKey c) = some (.cmeta ⟨coll.docs.length, coll.indexes⟩) := hm
    rw [this]; rfl
  | none =>
    obtain ⟨c1, h1, hsk1, hr1, hw1⟩ := createColl_run s (ctx0 true σ) hw hr c hc hl
    simp only [Spec.step, hl, Option.isSome_none, Bool.false_eq_true, if_false]
    cases hlq : Spec.lookup q.coll (Spec.insert c ({} : Spec.Coll) s) with
    | none =>
      have hmq : kvGet c1.work (metaKey q.coll) = none := by rw [rep_meta _ c1.work hr1 q.coll, hlq]; rfl
      obtain ⟨c2, h2⟩ := iterateDocs_missing likeFn fnFam q none c1 hmq
      refine herr .collNotExist c2 ?_
      simp only [Op.body]
      rw [bind_run _ _ _ c1 _ h1]
      exact bind_run_err' _ _ _ _ _ h2
    | some src =>
      obtain ⟨c2, h2, s2⟩ := iterateDocs_run likeFn fnFam _ c1 hw1 hr1 q none src hlq
      have h2' : (iterateDocs likeFn fnFam q none) noFault c1 =
          (.ok (selectionOf likeFn fnFam c1.work q src), c2) := h2
      have heq := hsel src c1.work hlq hw1 hr1
      generalize selectionOf likeFn fnFam c1.work q src = sel at h2' heq
      have hwk2 : c2.work = c1.work := s2.1
      have hr2 : Rep (Spec.insert c ({} : Spec.Coll) s) c2.work := by rw [hwk2]; exact hr1
      have hlc : Spec.lookup c (Spec.insert c ({} : Spec.Coll) s) = some ({} : Spec.Coll) := by
        rw [Spec.lookup_insert']; simp
      have hparts := parts_of_owned c ({} : Spec.Coll) c2.work
        (fun k v ho => rep_owned _ c2.work hw1 hr2 c _ hlc k v ho)
      have hins := insertDocs_run c hc [] (assignIds sel fresh) [] c2 hr2.1 hparts.1 hparts.2
        (by simp [Spec.KeysSorted]) (by simp)
      rw [heq] at hins
      simp only [Spec.createWith, hl, Option.isSome_none, Bool.false_eq_true, if_false]
      cases hia : Spec.insertAll [] (assignIds (Spec.findAll likeFn fnFam q src) fresh) with
      | err e =>
        obtain ⟨c3, h3⟩ := hins.2 e hia
        refine herr e c3 ?_
        simp only [Op.body]
        rw [bind_run _ _ _ c1 _ h1, bind_run _ _ _ c2 _ h2']
        exact bind_run_err' _ _ _ _ _ h3
      | ok docs' =>
        obtain ⟨c3, h3, hsk3, hs3, hf3, ho3, hso3, hid3⟩ := hins.1 docs' hia
        have hb : (Op.body likeFn fnFam (.createCollectionByQuery c q fresh)) noFault (ctx0 true σ) = (.ok .unit, c3) := by
          simp only [Op.body]
          rw [bind_run _ _ _ c1 _ h1, bind_run _ _ _ c2 _ h2', bind_run _ _ _ c3 _ h3]
          rfl
        have hsk : c3.skipCommit = false := by rw [hsk3, s2.2.2, hsk1]; rfl
        have ht := withTx_ok _ σ _ _ hb hsk
        have := rep_insert_coll _ c2.work c3.work hw1 hr2 c hc ⟨[], docs'⟩
          (collWF_of_parts [] docs' hso3 hid3 (by simp) (by simp)) hs3 hf3 ho3
        rw [Spec.insert_insert] at this
        dsimp only
        rw [ht.1, ht.2]
        exact ⟨rfl, this.1, this.2⟩

/-! ## 5. the domains, and the step lemmas for `Op.InDomain` -/

/-- the any-plan, any-window domain of a query on a collection: the key domain of index
    transparency, the sort domain on the matching documents, no explicit nil under an index-served
    sort key, and a sort order without ties on the matching documents -/
structure TotalDomain (q : Query) (coll : Spec.Coll) : Prop where
  key : KeyDomain q coll
  sortDom : SortDom q.sort ((coll.docs.map (·.2)).filter (fun d => satOpt likeFn fnFam d q.crit))
  noNil : (choosePlan coll.indexes q).2 = true →
    ∀ o ∈ q.sort, ∀ d ∈ (coll.docs.map (·.2)).filter (fun d => satOpt likeFn fnFam d q.crit),
      d.has o.1 = true → d.get o.1 ≠ .null
  total : TotalSort likeFn fnFam q coll

/-- the same domain asked of ALL live documents of the collection (not only the matching ones):
    it does not mention the criteria's interpretation (`likeFn`, `fnFam`) -/
structure TotalDomainAll (q : Query) (coll : Spec.Coll) : Prop where
  key : KeyDomain q coll
  sortDom : SortDom q.sort (coll.docs.map (·.2))
  noNil : (choosePlan coll.indexes q).2 = true →
    ∀ o ∈ q.sort, ∀ e ∈ coll.docs, e.2.has o.1 = true → e.2.get o.1 ≠ .null
  total : ∀ a ∈ coll.docs.map (·.2), ∀ b ∈ coll.docs.map (·.2), compareDocuments a b q.sort = 0 → a = b

theorem TotalDomainAll.toTotalDomain {q : Query} {coll : Spec.Coll} (h : TotalDomainAll q coll) :
    TotalDomain likeFn fnFam q coll where
  key := h.key
  sortDom := sortDom_mono q.sort _ _ (fun _ hd => (List.mem_filter.1 hd).1) h.sortDom
  noNil := by
    intro hs o ho d hd
    obtain ⟨e, he, ed⟩ := List.mem_map.1 (List.mem_filter.1 hd).1
    rw [← ed]
    exact h.noNil hs o ho e he
  total := fun a ha b hb => h.total a (List.mem_filter.1 ha).1 b (List.mem_filter.1 hb).1

/-- the typical instance: `_id` among the sort keys of a query on a well-formed collection -/
theorem totalDomainAll_of_id_key (q : Query) (coll : Spec.Coll) (hcw : CollWF coll) (hkey : KeyDomain q coll)
    (hsd : SortDom q.sort (coll.docs.map (·.2)))
    (hnn : (choosePlan coll.indexes q).2 = true →
      ∀ o ∈ q.sort, ∀ e ∈ coll.docs, e.2.has o.1 = true → e.2.get o.1 ≠ .null)
    (hid : ∃ o ∈ q.sort, o.1 = idField) : TotalDomainAll q coll :=
  ⟨hkey, hsd, hnn, live_total_of_id_key q.sort coll hcw hsd.1 hid⟩

/-- the any-plan domain of a bulk write WITH a skip/limit window: if the collection exists, the
    query is on the total-order domain -/
def BulkDomainW (s : Spec.State) (q : Query) : Prop :=
  ∀ coll, Spec.lookup q.coll s = some coll → TotalDomain likeFn fnFam q coll

/-- … asked of all live documents (free of `likeFn`, `fnFam`) -/
def BulkDomainWAll (s : Spec.State) (q : Query) : Prop :=
  ∀ coll, Spec.lookup q.coll s = some coll → TotalDomainAll q coll

theorem BulkDomainWAll.toBulkDomainW {s : Spec.State} {q : Query} (h : BulkDomainWAll s q) :
    BulkDomainW likeFn fnFam s q :=
  fun coll hl => (h coll hl).toTotalDomain likeFn fnFam

/-- the any-plan domain of `CreateCollectionByQuery c q _` WITH a skip/limit window: the source,
    looked up once the (empty) target exists, is on the total-order domain -/
def CopyDomainW (s : Spec.State) (c : Bytes) (q : Query) : Prop :=
  ∀ src, Spec.lookup q.coll (Spec.insert c ({} : Spec.Coll) s) = some src → TotalDomain likeFn fnFam q src

def CopyDomainWAll (s : Spec.State) (c : Bytes) (q : Query) : Prop :=
  ∀ src, Spec.lookup q.coll (Spec.insert c ({} : Spec.Coll) s) = some src → TotalDomainAll q src

theorem CopyDomainWAll.toCopyDomainW {s : Spec.State} {c : Bytes} {q : Query} (h : CopyDomainWAll s c q) :
    CopyDomainW likeFn fnFam s c q :=
  fun src hl => (h src hl).toTotalDomain likeFn fnFam

/-- **`Update` with a window, any plan, on the total-order domain** (collection present or not):
    the specification's answer, a store representing the specification's next state -/
theorem update_refines_any_plan_window (s : Spec.State) (σ : KVS) (hw : WF s) (hr : Rep s σ) (q : Query) (u : Upd)
    (hdom : BulkDomainW likeFn fnFam s q) :
    let r := withTx true (Op.body likeFn fnFam (.update q u)) noFault σ
    let sp := Spec.step likeFn fnFam s (.update q u)
    r.1 = sp.1 ∧ Rep sp.2 r.2.1 ∧ WF sp.2 := by
  cases hl : Spec.lookup q.coll s with
  | none => exact update_missing likeFn fnFam s σ hw hr q u hl
  | some coll =>
    have hd := hdom coll hl
    have h := update_total_any_plan likeFn fnFam s σ hw hr q u coll hl hd.key hd.sortDom hd.noNil hd.total
    exact ⟨h.1, h.2.1, h.2.2.1⟩

theorem delete_refines_any_plan_window (s : Spec.State) (σ : KVS) (hw : WF s) (hr : Rep s σ) (q : Query)
    (hdom : BulkDomainW likeFn fnFam s q) :
    let r := withTx true (Op.body likeFn fnFam (.delete q)) noFault σ
    let sp := Spec.step likeFn fnFam s (.delete q)
    r.1 = sp.1 ∧ Rep sp.2 r.2.1 ∧ WF sp.2 := by
  rw [body_delete, step_delete]
  exact update_refines_any_plan_window likeFn fnFam s σ hw hr q .retNil hdom

/-- the step lemma in the shape of `update_refines_state_any_plan` (RefineAnyPlan.lean): failure
    flags agree, the store left represents the specification's next state -/
theorem update_refines_state_any_plan_window (s : Spec.State) (σ : KVS) (hw : WF s) (hr : Rep s σ) (q : Query) (u : Upd)
    (hdom : BulkDomainW likeFn fnFam s q) :
    (withTx true (Op.body likeFn fnFam (.update q u)) noFault σ).1.isErr = (Spec.step likeFn fnFam s (.update q u)).1.isErr ∧
      Rep (Spec.step likeFn fnFam s (.update q u)).2 (withTx true (Op.body likeFn fnFam (.update q u)) noFault σ).2.1 ∧
      WF (Spec.step likeFn fnFam s (.update q u)).2 := by
  have h := update_refines_any_plan_window likeFn fnFam s σ hw hr q u hdom
  exact ⟨congrArg Res.isErr h.1, h.2⟩

theorem delete_refines_state_any_plan_window (s : Spec.State) (σ : KVS) (hw : WF s) (hr : Rep s σ) (q : Query)
    (hdom : BulkDomainW likeFn fnFam s q) :
    (withTx true (Op.body likeFn fnFam (.delete q)) noFault σ).1.isErr = (Spec.step likeFn fnFam s (.delete q)).1.isErr ∧
      Rep (Spec.step likeFn fnFam s (.delete q)).2 (withTx true (Op.body likeFn fnFam (.delete q)) noFault σ).2.1 ∧
      WF (Spec.step likeFn fnFam s (.delete q)).2 := by
  have h := delete_refines_any_plan_window likeFn fnFam s σ hw hr q hdom
  exact ⟨congrArg Res.isErr h.1, h.2⟩

/-- what `CreateCollectionByQuery` inserts does not depend on the plan, with any window, on the
    total-order domain: the two selections are the same list -/
theorem copy_insertAll_eq_total (s : Spec.State) (w : KVS) (hw : WF s) (hr : Rep s w) (q : Query)
    (src : Spec.Coll) (hl : Spec.lookup q.coll s = some src) (hd : TotalDomain likeFn fnFam q src)
    (fresh : List Bytes) :
    Spec.insertAll [] (assignIds (selectionOf likeFn fnFam w q src) fresh) =
      Spec.insertAll [] (assignIds (Spec.findAll likeFn fnFam q src) fresh) := by
  rw [selectionOf_eq_total likeFn fnFam s w hw hr q src hl hd.key hd.sortDom hd.noNil hd.total]

/-- **`CreateCollectionByQuery` with any skip/limit window refines the specification whatever plan
    serves its query**, on the total-order domain of the source: same answer, and the store
    represents the specification's next state. -/
theorem createCollectionByQuery_exact_any_plan_window (s : Spec.State) (σ : KVS) (hw : WF s) (hr : Rep s σ)
    (c : Bytes) (hc : Clean c) (q : Query) (fresh : List Bytes) (hdom : CopyDomainW likeFn fnFam s c q) :
    let r := withTx true (Op.body likeFn fnFam (.createCollectionByQuery c q fresh)) noFault σ
    let sp := Spec.step likeFn fnFam s (.createCollectionByQuery c q fresh)
    r.1 = sp.1 ∧ Rep sp.2 r.2.1 ∧ WF sp.2 :=
  createCollectionByQuery_exact_of_sel likeFn fnFam s σ hw hr c hc q fresh
    (fun src w hl hw1 hr1 => copy_insertAll_eq_total likeFn fnFam _ w hw1 hr1 q src hl (hdom src hl) fresh)

/-- one public `CreateCollectionByQuery` call on an open handle, windowed, any plan -/
theorem createCollectionByQuery_inDomainW_step (c : Bytes) (q : Query) (fresh : List Bytes)
    (hop : OpOK (.createCollectionByQuery c q fresh)) (s : Spec.State) (σ : DBState) (hcl : σ.closed = false)
    (hw : WF s) (hr : Rep s σ.kv) (hdom : CopyDomainW likeFn fnFam s c q) :
    let r := (Op.createCollectionByQuery c q fresh).run likeFn fnFam σ noFault
    let sp := Spec.step likeFn fnFam s (.createCollectionByQuery c q fresh)
    Rep sp.2 r.state.kv ∧ WF sp.2 ∧ r.out = sp.1 ∧ r.state.closed = false := by
  simp only
  have h := createCollectionByQuery_exact_any_plan_window likeFn fnFam s σ.kv hw hr c hop q fresh hdom
  unfold Op.run
  simp only [hcl, Bool.false_eq_true, if_false, Op.pre, Op.route]
  exact ⟨h.2.1, h.2.2, h.1, trivial⟩

end CV
