import Clover.Proofs.RefineScan
import Clover.Proofs.RefineReads
/-! # `FindAll` on a collection without indexes returns exactly what the specification says -/
namespace CV
open OC Keys StoreM

variable (likeFn : LikeFn) (fnFam : FnFam)

theorem getMeta_run (c : Bytes) (m : CMeta) (ctx : Ctx) (h : kvGet ctx.work (metaKey c) = some (.cmeta m)) :
    ∃ c', (getMeta c) noFault ctx = (.ok m, c') ∧ SameWork ctx c' := by
  obtain ⟨c1, h1, s1⟩ := get_run (metaKey c) ctx
  refine ⟨c1, ?_, s1⟩
  unfold getMeta
  rw [bind_run _ _ ctx c1 _ h1, h]
  rfl

theorem getMeta_run_none (c : Bytes) (ctx : Ctx) (h : kvGet ctx.work (metaKey c) = none) :
    ((getMeta c) noFault ctx).1 = .err .collNotExist := by
  obtain ⟨c1, h1, s1⟩ := get_run (metaKey c) ctx
  unfold getMeta
  rw [bind_run _ _ ctx c1 _ h1, h]
  rfl

theorem choosePlan_noindex (q : Query) : choosePlan [] q = (.full, false) := by
  unfold choosePlan indexQuery
  cases q.crit with
  | none =>
    simp only
    split
    · simp
    · rfl
  | some c =>
    simp only [List.isEmpty_nil, if_true]
    split
    · simp
    · rfl

theorem filterMap_docEntries (c : Bytes) (coll : Spec.Coll) :
    (docEntries c coll).filterMap docOf = coll.docs.map (·.2) := by
  unfold docEntries
  induction coll.docs with
  | nil => rfl
  | cons e t ih => simp [List.filterMap, docOf, ih]

/-- a fault-free full scan folds the pipeline over the collection's documents in id order -/
theorem fullScan_run (s : Spec.State) (ctx : Ctx) (hw : WF s) (hr : Rep s ctx.work) (c : Bytes) (coll : Spec.Coll)
    (hc : Clean c) (hl : Spec.lookup c s = some coll) (onDoc : Pipe → Doc → Pipe × Flow) :
    ∃ c', (fullScan c onDoc) noFault ctx = (.ok (foldStop onDoc {} (coll.docs.map (·.2))), c') ∧ SameWork ctx c' := by
  have hcw : CollWF coll := by
    have : (c, coll) ∈ s := by
      clear hr hw
      induction s with
      | nil => simp [Spec.lookup] at hl
      | cons p t ih =>
        obtain ⟨c', coll'⟩ := p
        simp only [Spec.lookup] at hl
        split at hl
        · rename_i heq; subst heq; simp only [Option.some.injEq] at hl; subst hl; simp
        · exact List.mem_cons_of_mem _ (ih hl)
    exact hw.colls _ this
  have hitems := full_scan_items s ctx.work hw hr c coll hc hl hcw
  unfold fullScan
  rw [bind_run _ _ ctx ctx _ (snapshot_run ctx)]
  obtain ⟨c', h, sw⟩ := loopPrefix_docs_run (docPrefix c) onDoc (seekFwd ctx.work (docPrefix c)) {} ctx (by
    rw [hitems]
    intro e he
    simp only [docEntries, List.mem_map] at he
    obtain ⟨x, _, hx⟩ := he
    exact ⟨x.2, by rw [← hx]⟩)
  refine ⟨c', ?_, sw⟩
  rw [hitems, filterMap_docEntries] at h
  exact h

/-- a fault-free `iterateDocs` on a collection without indexes -/
theorem iterateDocs_run_noindex (s : Spec.State) (ctx : Ctx) (hw : WF s) (hr : Rep s ctx.work) (q : Query) (k : Option Nat)
    (coll : Spec.Coll) (hc : Clean q.coll) (hl : Spec.lookup q.coll s = some coll) (hni : coll.indexes = []) :
    ∃ c', (iterateDocs likeFn fnFam q k) noFault ctx =
      (.ok (finishPipe q k (needSort q false)
        (foldStop (onDocOf likeFn fnFam q k (needSort q false)) {} (coll.docs.map (·.2)))), c') ∧ SameWork ctx c' := by
  have hm : kvGet ctx.work (metaKey q.coll) = some (.cmeta ⟨coll.docs.length, []⟩) := by
    simp only [hr.2, assoc_meta, hl, Option.map_some, hni]
  obtain ⟨c1, h1, s1⟩ := getMeta_run q.coll _ ctx hm
  have hr1 : Rep s c1.work := by rw [s1.1]; exact hr
  obtain ⟨c2, h2, s2⟩ := fullScan_run s c1 hw hr1 q.coll coll hc hl (onDocOf likeFn fnFam q k (needSort q false))
  refine ⟨c2, ?_, s1.trans s2⟩
  unfold iterateDocs
  rw [bind_run _ _ _ c1 _ h1]
  simp only [choosePlan_noindex]
  rw [bind_run _ _ _ c2 _ h2]
  rfl

/-- **FindAll refines the specification** on collections without indexes: every criteria tree,
    every sort, skip and limit. -/
theorem findAll_refines_noindex (s : Spec.State) (σ : KVS) (hw : WF s) (hr : Rep s σ) (q : Query)
    (coll : Spec.Coll) (hc : Clean q.coll) (hl : Spec.lookup q.coll s = some coll) (hni : coll.indexes = []) :
    (withTx false (Op.body likeFn fnFam (.findAll q)) noFault σ).1 =
      .ok (.docs (Spec.findAll likeFn fnFam q coll)) := by
  rw [withTx_read_noFault]
  obtain ⟨c2, h2, _⟩ := iterateDocs_run_noindex likeFn fnFam s (ctx0 false σ) hw hr q none coll hc hl hni
  simp only [Op.body]
  rw [bind_run _ _ _ c2 _ h2]
  -- the pure tail: finishPipe over the folded pipeline = the specification's filter / sort / window
  simp only [pure, StoreM.pure']
  congr 2
  unfold Spec.findAll finishPipe needSort
  by_cases hs : q.sort.isEmpty = true
  · simp only [hs, Bool.not_true, Bool.false_and, Bool.false_eq_true, if_false, if_true]
    unfold onDocOf
    simp only [Bool.false_eq_true, if_false]
    rw [foldStop_emit q none (fun d => satOpt likeFn fnFam d q.crit) {} (coll.docs.map (·.2))]
    exact feed_window q _
  · simp only [Bool.not_eq_true] at hs
    simp only [hs, Bool.not_false, Bool.true_and, if_true, Bool.false_eq_true, if_false]
    unfold onDocOf
    simp only [if_true]
    rw [foldStop_collect (fun d => satOpt likeFn fnFam d q.crit) {} (coll.docs.map (·.2))]
    simp only [List.append_nil, List.reverse_reverse]
    have := feed_out q { buf := (List.filter (fun d => satOpt likeFn fnFam d q.crit) (coll.docs.map (·.2))).reverse, skipped := 0, consumed := 0, out := [] }
      (sortDocs q.sort (List.filter (fun d => satOpt likeFn fnFam d q.crit) (coll.docs.map (·.2)))) (Nat.zero_le _) (fun _ => rfl)
    rw [this]
    simp [Spec.window]

/-- ... and reports a missing collection -/
theorem findAll_missing (s : Spec.State) (σ : KVS) (hr : Rep s σ) (q : Query) (hl : Spec.lookup q.coll s = none) :
    (withTx false (Op.body likeFn fnFam (.findAll q)) noFault σ).1 = .err .collNotExist := by
  rw [withTx_read_noFault]
  have hm : kvGet (ctx0 false σ).work (metaKey q.coll) = none := by
    simp only [ctx0, hr.2, assoc_meta, hl, Option.map_none]
  simp only [Op.body, iterateDocs]
  have h1 := getMeta_run_none q.coll (ctx0 false σ) hm
  show (bind' (bind' (getMeta q.coll) _) _ noFault (ctx0 false σ)).1 = _
  unfold bind'
  cases hg : getMeta q.coll noFault (ctx0 false σ) with
  | mk r c =>
    rw [hg] at h1
    simp only at h1
    subst h1
    rfl

end CV

namespace CV
open OC Keys StoreM
variable (likeFn : LikeFn) (fnFam : FnFam)

/-- the pure result of `iterateDocs` on an index-free collection is the specification's `findAll` -/
theorem finishPipe_spec (q : Query) (coll : Spec.Coll) :
    finishPipe q none (needSort q false) (foldStop (onDocOf likeFn fnFam q none (needSort q false)) {} (coll.docs.map (·.2)))
      = Spec.findAll likeFn fnFam q coll := by
  unfold Spec.findAll finishPipe needSort
  by_cases hs : q.sort.isEmpty = true
  · simp only [hs, Bool.not_true, Bool.false_and, Bool.false_eq_true, if_false, if_true]
    unfold onDocOf
    simp only [Bool.false_eq_true, if_false]
    rw [foldStop_emit q none (fun d => satOpt likeFn fnFam d q.crit) {} (coll.docs.map (·.2))]
    exact feed_window q _
  · simp only [Bool.not_eq_true] at hs
    simp only [hs, Bool.not_false, Bool.true_and, if_true, Bool.false_eq_true, if_false]
    unfold onDocOf
    simp only [if_true]
    rw [foldStop_collect (fun d => satOpt likeFn fnFam d q.crit) {} (coll.docs.map (·.2))]
    simp only [List.append_nil, List.reverse_reverse]
    have := feed_out q { buf := (List.filter (fun d => satOpt likeFn fnFam d q.crit) (coll.docs.map (·.2))).reverse, skipped := 0, consumed := 0, out := [] }
      (sortDocs q.sort (List.filter (fun d => satOpt likeFn fnFam d q.crit) (coll.docs.map (·.2)))) (Nat.zero_le _) (fun _ => rfl)
    rw [this]
    simp [Spec.window]

/-- `FindFirst` and `Exists` are `FindAll` under limit 1 -/
theorem findFirst_refines_noindex (s : Spec.State) (σ : KVS) (hw : WF s) (hr : Rep s σ) (q : Query)
    (coll : Spec.Coll) (hc : Clean q.coll) (hl : Spec.lookup q.coll s = some coll) (hni : coll.indexes = []) :
    (withTx false (Op.body likeFn fnFam (.findFirst q)) noFault σ).1 = (Spec.step likeFn fnFam s (.findFirst q)).1 := by
  rw [withTx_read_noFault]
  obtain ⟨c2, h2, _⟩ := iterateDocs_run_noindex likeFn fnFam s (ctx0 false σ) hw hr { q with limit := 1 } none coll hc hl hni
  simp only [Op.body]
  rw [bind_run _ _ _ c2 _ h2]
  simp only [Spec.step, Spec.withColl, hl]
  have := finishPipe_spec likeFn fnFam { q with limit := 1 } coll
  simp only [pure, StoreM.pure']
  rw [this]

theorem exists_refines_noindex (s : Spec.State) (σ : KVS) (hw : WF s) (hr : Rep s σ) (q : Query)
    (coll : Spec.Coll) (hc : Clean q.coll) (hl : Spec.lookup q.coll s = some coll) (hni : coll.indexes = []) :
    (withTx false (Op.body likeFn fnFam (.exists_ q)) noFault σ).1 = (Spec.step likeFn fnFam s (.exists_ q)).1 := by
  rw [withTx_read_noFault]
  obtain ⟨c2, h2, _⟩ := iterateDocs_run_noindex likeFn fnFam s (ctx0 false σ) hw hr { q with limit := 1 } none coll hc hl hni
  simp only [Op.body]
  rw [bind_run _ _ _ c2 _ h2]
  simp only [Spec.step, Spec.withColl, hl]
  have := finishPipe_spec likeFn fnFam { q with limit := 1 } coll
  simp only [pure, StoreM.pure']
  rw [this]

theorem window_length_int (skip : Nat) (limit : Int) (n : Nat) (l : List Doc) (hl : l.length = n) :
    ((Spec.window skip limit l).length : Int) = countWindow (n : Int) { coll := [], skip := skip, limit := limit } := by
  unfold Spec.window countWindow
  simp only
  by_cases hlim : limit < 0
  · simp only [hlim, if_true, List.length_drop, hl]
    have : ¬ (limit ≥ 0) := by omega
    simp only [ge_iff_le, this, decide_false, Bool.false_and, Bool.false_eq_true, if_false]
    split <;> omega
  · simp only [hlim, if_false, List.length_take, List.length_drop, hl]
    have h0 : limit ≥ 0 := by omega
    simp only [ge_iff_le, h0, decide_true, Bool.true_and, decide_eq_true_eq]
    have hmin : ((min limit.toNat (n - skip) : Nat) : Int) = min limit ((n - skip : Nat) : Int) := by omega
    rw [hmin]
    split <;> (try split) <;> omega

/-- `Count` equals the length of `FindAll`: through the stored counter when there is no criteria,
    through the plan otherwise -/
theorem count_refines_noindex (s : Spec.State) (σ : KVS) (hw : WF s) (hr : Rep s σ) (q : Query)
    (coll : Spec.Coll) (hc : Clean q.coll) (hl : Spec.lookup q.coll s = some coll) (hni : coll.indexes = []) :
    (withTx false (Op.body likeFn fnFam (.count q)) noFault σ).1 = (Spec.step likeFn fnFam s (.count q)).1 := by
  rw [withTx_read_noFault]
  simp only [Spec.step, Spec.withColl, hl]
  cases hcrit : q.crit with
  | some cr =>
    obtain ⟨c2, h2, _⟩ := iterateDocs_run_noindex likeFn fnFam s (ctx0 false σ) hw hr q none coll hc hl hni
    simp only [Op.body, hcrit]
    rw [bind_run _ _ _ c2 _ h2, finishPipe_spec]
    rfl
  | none =>
    have hm : kvGet (ctx0 false σ).work (metaKey q.coll) = some (.cmeta ⟨coll.docs.length, coll.indexes⟩) := by
      simp only [ctx0, hr.2, assoc_meta, hl, Option.map_some]
    obtain ⟨c1, h1, _⟩ := getMeta_run q.coll _ (ctx0 false σ) hm
    simp only [Op.body, hcrit]
    rw [bind_run _ _ _ c1 _ h1]
    simp only [pure, StoreM.pure']
    congr 2
    -- the counter shortcut: size, skip and limit arithmetic = length of the window
    unfold Spec.findAll
    simp only [hcrit, satOpt]
    have hf : List.filter (fun _ => true) (coll.docs.map (·.2)) = coll.docs.map (·.2) := by
      apply List.filter_eq_self.2; intro _ _; rfl
    have hlen : (if q.sort.isEmpty = true then List.filter (fun _ => true) (coll.docs.map (·.2))
        else sortDocs q.sort (List.filter (fun _ => true) (coll.docs.map (·.2)))).length = coll.docs.length := by
      rw [hf]
      split
      · simp
      · unfold sortDocs; rw [(List.mergeSort_perm _ _).length_eq]; simp
    have := window_length_int q.skip q.limit coll.docs.length _ hlen
    rw [this]
    unfold countWindow
    rfl

end CV
