import Clover.Proofs.Rep
/-! # What a key of each class is mapped to under the representation relation -/
namespace CV
open OC Keys

theorem metaKey_ne_cKey (c c' rest : Bytes) : metaKey c ≠ sC ++ (c' ++ rest) := by
  intro h
  have := metaKey_not_c c []
  rw [h] at this
  have h2 : isPrefix sC (sC ++ (c' ++ rest)) = true := isPrefix_append _ _
  simp [h2] at this

theorem metaKey_ne_docKey (c c' id : Bytes) : metaKey c ≠ docKey c' id := by
  unfold docKey docPrefix
  rw [List.append_assoc, List.append_assoc]
  exact metaKey_ne_cKey c c' _

theorem metaKey_ne_idxKey (c c' f : Bytes) (v : Value) (id : Bytes) : metaKey c ≠ CV.idxKey c' f v id := by
  unfold CV.idxKey idxPrefix
  rw [List.append_assoc, List.append_assoc]
  exact metaKey_ne_cKey c c' _

theorem metaKey_inj (c c' : Bytes) (h : metaKey c = metaKey c') : c = c' := by
  unfold metaKey at h
  exact List.append_cancel_left h

theorem docKey_ne_idxKey (c c' f id id' : Bytes) (v : Value) (hc : Clean c) (hc' : Clean c') :
    docKey c id ≠ CV.idxKey c' f v id' := by
  intro h
  have h1 := idxKey_not_docPrefix c' c f (goKeyTail v ++ id') hc' hc
  have h2 : isPrefix (docPrefix c) (docKey c id) = true := isPrefix_append _ _
  rw [h] at h2
  have : CV.idxKey c' f v id' = Keys.idxKey c' f (goKeyTail v ++ id') := rfl
  rw [this] at h2
  simp [h1] at h2

/-- the metadata key of `c` is mapped to `c`'s metadata -/
theorem assoc_meta (c : Bytes) : (s : Spec.State) →
    assoc (metaKey c) (entries s) = (Spec.lookup c s).map (fun coll => SVal.cmeta ⟨coll.docs.length, coll.indexes⟩)
  | [] => rfl
  | (c', coll) :: t => by
    simp only [entries, List.flatMap_cons, collEntries, List.cons_append, assoc, Spec.lookup]
    by_cases h : c = c'
    · subst h; simp
    · have hne : metaKey c ≠ metaKey c' := fun e => h (metaKey_inj c c' e)
      simp only [hne, if_false, h]
      rw [assoc_append, assoc_append]
      have h1 : assoc (metaKey c) (docEntries c' coll) = none := by
        apply assoc_none_of_not_mem
        intro e he
        simp only [docEntries, List.mem_map] at he
        obtain ⟨x, _, hx⟩ := he
        rw [← hx]; exact (metaKey_ne_docKey c c' x.1).symm
      have h2 : assoc (metaKey c) (idxEntries c' coll) = none := by
        apply assoc_none_of_not_mem
        intro e he
        simp only [idxEntries, idxEntriesOf, List.mem_flatMap, List.mem_map] at he
        obtain ⟨f, _, x, _, hx⟩ := he
        rw [← hx]; exact (metaKey_ne_idxKey c c' f _ x.1).symm
      simp only [h1, h2]
      exact assoc_meta c t

/-- the document key `(c, id)` is mapped to the document stored under `id` in `c` -/
theorem assoc_doc (c id : Bytes) (hc : Clean c) : (s : Spec.State) → (∀ p ∈ s, Clean p.1) → (s.map (·.1)).Nodup →
    assoc (docKey c id) (entries s) = (Spec.lookup c s).bind (fun coll => (Spec.lookup id coll.docs).map SVal.doc)
  | [], _, _ => rfl
  | (c', coll) :: t, hcl, hnd => by
    have hc' : Clean c' := hcl (c', coll) (by simp)
    have hne0 : docKey c id ≠ metaKey c' := (metaKey_ne_docKey c' c id).symm
    simp only [entries, List.flatMap_cons, collEntries, List.cons_append, assoc, hne0, if_false, Spec.lookup]
    rw [assoc_append, assoc_append]
    have hidx : assoc (docKey c id) (idxEntries c' coll) = none := by
      apply assoc_none_of_not_mem
      intro e he
      simp only [idxEntries, idxEntriesOf, List.mem_flatMap, List.mem_map] at he
      obtain ⟨f, _, x, _, hx⟩ := he
      rw [← hx]; exact (docKey_ne_idxKey c c' f id x.1 _ hc hc').symm
    by_cases h : c = c'
    · subst h
      simp only [if_true, Option.bind_some]
      -- inside the collection: first match by id
      have hdocs : ∀ (ds : List (Bytes × Doc)),
          assoc (docKey c id) (ds.map (fun e => (docKey c e.1, SVal.doc e.2))) = (Spec.lookup id ds).map SVal.doc := by
        intro ds
        induction ds with
        | nil => rfl
        | cons e ds ih =>
          obtain ⟨id', d'⟩ := e
          simp only [List.map, assoc, Spec.lookup]
          by_cases hid : id = id'
          · subst hid; simp
          · have : docKey c id ≠ docKey c id' := fun e => hid (docKey_inj c c id id' hc hc e).2
            simp only [this, if_false, hid]
            exact ih
      rw [show docEntries c coll = coll.docs.map (fun e => (docKey c e.1, SVal.doc e.2)) from rfl, hdocs coll.docs]
      cases hl : Spec.lookup id coll.docs with
      | some d => rfl
      | none =>
        simp only [Option.map_none, hidx]
        -- no later collection has the same name
        have hnot : ∀ p ∈ t, p.1 ≠ c := by
          intro p hp e
          simp only [List.map, List.nodup_cons] at hnd
          exact hnd.1 (List.mem_map.2 ⟨p, hp, e⟩)
        apply assoc_none_of_not_mem
        intro e he
        simp only [entries, List.mem_flatMap, collEntries, List.mem_cons, List.mem_append] at he
        obtain ⟨p, hp, he⟩ := he
        have hpc : Clean p.1 := hcl p (by simp [hp])
        rcases he with he | he | he
        · rw [he]; exact (metaKey_ne_docKey p.1 c id)
        · simp only [docEntries, List.mem_map] at he
          obtain ⟨x, _, hx⟩ := he
          rw [← hx]
          intro e2
          exact hnot p hp (docKey_inj p.1 c x.1 id hpc hc e2).1
        · simp only [idxEntries, idxEntriesOf, List.mem_flatMap, List.mem_map] at he
          obtain ⟨f, _, x, _, hx⟩ := he
          rw [← hx]; exact (docKey_ne_idxKey c p.1 f id x.1 _ hc hpc).symm
    · have hne : ∀ e ∈ docEntries c' coll, e.1 ≠ docKey c id := by
        intro e he
        simp only [docEntries, List.mem_map] at he
        obtain ⟨x, _, hx⟩ := he
        rw [← hx]
        intro e2
        exact h (docKey_inj c' c x.1 id hc' hc e2).1.symm
      rw [assoc_none_of_not_mem _ _ hne]
      simp only [hidx, h, if_false]
      exact assoc_doc c id hc t (fun p hp => hcl p (by simp [hp])) (by simp only [List.map, List.nodup_cons] at hnd; exact hnd.2)

end CV
