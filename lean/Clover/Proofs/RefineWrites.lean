import Clover.Proofs.RefineReads
/-! # Writes preserve the representation relation: catalog operations -/
namespace CV
open OC Keys StoreM

theorem insert_perm {α} (c : Bytes) (x : α) : (s : List (Bytes × α)) → Spec.lookup c s = none →
    (Spec.insert c x s).Perm ((c, x) :: s)
  | [], _ => List.Perm.refl _
  | (c', x') :: t, h => by
    simp only [Spec.lookup] at h
    by_cases hcc : c = c'
    · simp [hcc] at h
    · simp only [hcc, if_false] at h
      simp only [Spec.insert]
      by_cases hlt : lexLt c c' = true
      · simp only [hlt, if_true]; exact List.Perm.refl _
      · simp only [hlt, Bool.false_eq_true, if_false, hcc]
        exact ((insert_perm c x t h).cons (c', x')).trans (List.Perm.swap _ _ _)

theorem assoc_some_mem (k : Bytes) (v : SVal) : (l : List (Bytes × SVal)) → assoc k l = some v → ∃ x ∈ l, x.1 = k
  | [], h => by simp [assoc] at h
  | (k', v') :: t, h => by
    simp only [assoc] at h
    by_cases hk : k = k'
    · exact ⟨(k', v'), by simp, hk.symm⟩
    · simp only [hk, if_false] at h
      obtain ⟨x, hx, hxk⟩ := assoc_some_mem k v t h
      exact ⟨x, List.mem_cons_of_mem _ hx, hxk⟩

theorem lookup_none_iff {α} (c : Bytes) (s : List (Bytes × α)) : Spec.lookup c s = none ↔ ∀ p ∈ s, p.1 ≠ c := by
  induction s with
  | nil => simp [Spec.lookup]
  | cons p t ih =>
    obtain ⟨c', x⟩ := p
    simp only [Spec.lookup]
    split
    · rename_i heq; subst heq; simp
    · rename_i hne
      rw [ih]
      constructor
      · intro h p hp
        rcases List.mem_cons.1 hp with e | e
        · rw [e]; exact fun x => hne x.symm
        · exact h p e
      · intro h p hp; exact h p (List.mem_cons_of_mem _ hp)

/-- inserting a collection under a new name: lookups in the flattened entries -/
theorem assoc_entries_insert (c : Bytes) (coll : Spec.Coll) (k : Bytes) : (s : Spec.State) → Spec.lookup c s = none →
    (∀ x ∈ collEntries c coll, assoc x.1 (entries s) = none) →
    assoc k (entries (Spec.insert c coll s)) =
      match assoc k (collEntries c coll) with
      | some v => some v
      | none => assoc k (entries s)
  | [], _, _ => by
    simp only [Spec.insert, entries, List.flatMap_cons, List.flatMap_nil, List.append_nil, assoc]
    cases assoc k (collEntries c coll) <;> rfl
  | (c', coll') :: t, hl, hdis => by
    simp only [Spec.lookup] at hl
    by_cases hcc : c = c'
    · simp [hcc] at hl
    · simp only [hcc, if_false] at hl
      simp only [Spec.insert]
      by_cases hlt : lexLt c c' = true
      · simp only [hlt, if_true, entries, List.flatMap_cons]
        rw [assoc_append]
        rfl
      · simp only [hlt, Bool.false_eq_true, if_false, hcc]
        show assoc k (collEntries c' coll' ++ entries (Spec.insert c coll t)) = _
        rw [assoc_append]
        have hdis' : ∀ x ∈ collEntries c coll, assoc x.1 (entries t) = none := by
          intro x hx
          have h3 : assoc x.1 (collEntries c' coll' ++ entries t) = none := hdis x hx
          rw [assoc_append] at h3
          cases h1 : assoc x.1 (collEntries c' coll') with
          | some v => simp [h1] at h3
          | none => simpa [h1] using h3
        have ih := assoc_entries_insert c coll k t hl hdis'
        show _ = match assoc k (collEntries c coll) with
          | some v => some v
          | none => assoc k (collEntries c' coll' ++ entries t)
        rw [assoc_append]
        cases h1 : assoc k (collEntries c' coll') with
        | none => simp only [ih]
        | some v =>
          cases h2 : assoc k (collEntries c coll) with
          | none => rfl
          | some v2 =>
            exfalso
            obtain ⟨x, hx, hxk⟩ := assoc_some_mem k v2 _ h2
            have h3 : assoc x.1 (collEntries c' coll' ++ entries t) = none := hdis x hx
            rw [assoc_append, hxk, h1] at h3
            simp at h3

theorem bind_run_err {α β} (m : StoreM α) (f : α → StoreM β) (c c' : Ctx) (e : Err)
    (h : m noFault c = (.err e, c')) : (m >>= f) noFault c = (.err e, c') := by
  show bind' m f noFault c = _
  unfold bind'
  rw [h]

variable (likeFn : LikeFn) (fnFam : FnFam)

theorem withTx_write_noFault {α} (body : StoreM α) (σ : KVS) :
    ∀ r c, body noFault (ctx0 true σ) = (r, c) →
    withTx true body noFault σ =
      match r with
      | .err e => (.err e, σ, c.fired, (Call.rollback :: c.trace).reverse)
      | .ok a => if c.skipCommit then (.ok a, σ, c.fired, (Call.rollback :: c.trace).reverse)
                 else (.ok a, c.work, c.fired, (Call.commit :: c.trace).reverse) := by
  intro r c h
  unfold withTx
  have h0 : noFault 0 = false := rfl
  simp only [h0, Bool.false_eq_true, if_false]
  unfold ctx0 at h
  rw [h]
  cases r with
  | err e => rfl
  | ok a =>
    simp only [Bool.true_and]
    have : noFault c.tick = false := rfl
    cases hsc : c.skipCommit <;> simp [this]

theorem set_run (k : Bytes) (v : SVal) (c : Ctx) :
    ∃ c', (StoreM.set k v) noFault c = (.ok (), c') ∧ c'.work = kvSet c.work k v ∧ c'.fired = c.fired ∧ c'.skipCommit = c.skipCommit :=
  ⟨{ c with work := kvSet c.work k v, tick := c.tick + 1, trace := .set k :: c.trace }, by simp [StoreM.set, call, noFault], rfl, rfl, rfl⟩

/-- **CreateCollection refines the specification and preserves the invariant.** -/
theorem createCollection_refines (s : Spec.State) (σ : KVS) (hw : WF s) (hr : Rep s σ) (c : Bytes) (hc : Clean c) :
    let r := withTx true (Op.body likeFn fnFam (.createCollection c)) noFault σ
    let sp := Spec.step likeFn fnFam s (.createCollection c)
    r.1 = sp.1 ∧ Rep sp.2 r.2.1 ∧ WF sp.2 := by
  simp only
  obtain ⟨c1, h1, s1⟩ := get_run (metaKey c) (ctx0 true σ)
  have hm : kvGet (ctx0 true σ).work (metaKey c) = (Spec.lookup c s).map (fun coll => SVal.cmeta ⟨coll.docs.length, coll.indexes⟩) := by
    simp only [ctx0, hr.2, assoc_meta]
  cases hl : Spec.lookup c s with
  | some coll =>
    -- already exists: error, nothing changes
    have hb : (Op.body likeFn fnFam (.createCollection c)) noFault (ctx0 true σ) = (.err .collExist, c1) := by
      simp only [Op.body, createColl]
      exact bind_run_err _ _ _ c1 _ (by rw [bind_run _ _ _ c1 _ h1, hm, hl]; rfl)
    rw [withTx_write_noFault _ σ _ _ hb]
    simp only [Spec.step, Spec.createWith, hl, Option.isSome_some, if_true]
    exact ⟨trivial, hr, hw⟩
  | none =>
    obtain ⟨c2, h2, hw2, hf2, hs2⟩ := set_run (metaKey c) (.cmeta ⟨0, []⟩) c1
    have hb : (Op.body likeFn fnFam (.createCollection c)) noFault (ctx0 true σ) = (.ok .unit, c2) := by
      simp only [Op.body, createColl, saveMeta]
      rw [bind_run _ _ _ c2 _ (by rw [bind_run _ _ _ c1 _ h1, hm, hl]; exact h2)]
      rfl
    rw [withTx_write_noFault _ σ _ _ hb]
    have hsk : c2.skipCommit = false := by rw [hs2, s1.2.2]; rfl
    simp only [hsk, Bool.false_eq_true, if_false, Spec.step, Spec.createWith, hl, Option.isSome_none, Spec.insertAll]
    refine ⟨trivial, ⟨?_, ?_⟩, ?_⟩
    · rw [hw2, s1.1]; exact ksorted_kvSet _ hr.1 _ _
    · intro k
      rw [hw2, s1.1]
      show kvGet (kvSet σ (metaKey c) _) k = _
      rw [kvGet_kvSet _ _ _ _ hr.1]
      rw [assoc_entries_insert c { docs := [] } k s hl (by
        intro x hx
        simp only [collEntries, docEntries, idxEntries, List.map_nil, List.flatMap_nil, List.append_nil, List.mem_singleton] at hx
        rw [hx, assoc_meta, hl]; rfl)]
      simp only [collEntries, docEntries, idxEntries, List.map_nil, List.flatMap_nil, List.append_nil, assoc, List.length_nil]
      by_cases hk : k = metaKey c
      · simp [hk]
      · simp only [hk, if_false]; exact hr.2 k
    · have hperm := insert_perm c ({ docs := [] } : Spec.Coll) s hl
      refine ⟨?_, ?_, ?_⟩
      · intro p hp
        rcases List.mem_cons.1 ((hperm.mem_iff).1 hp) with e | e
        · rw [e]; exact hc
        · exact hw.namesClean p e
      · exact Spec.keysSorted_insert c _ s hw.namesSorted
      · intro p hp
        rcases List.mem_cons.1 ((hperm.mem_iff).1 hp) with e | e
        · rw [e]; exact ⟨by simp, by simp, by simp, by simp, by simp⟩
        · exact hw.colls p e

end CV
