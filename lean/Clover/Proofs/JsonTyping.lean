import Clover.Props.C04
import Clover.Spec.Spec
/-! # C19 — export then import reproduces a collection

`jsonType` is the model of what `encoding/json` does to a value on its way through an exported
file (numbers → float64, times → RFC 3339 text); the stream validates it against the real
Export/Import on every run. -/
namespace CV.JsonT
open CV CV.Spec

variable (likeFn : LikeFn) (fnFam : FnFam)

/-- JSON typing keeps the shape of a document: same keys in the same order (same field sets at
    every nesting level) -/
theorem jsonType_keys : (kvs : List (Bytes × Value)) → (jsonTypeKV kvs).map (·.1) = kvs.map (·.1)
  | [] => rfl
  | (k, x) :: xs => by simp only [jsonTypeKV, List.map, jsonType_keys xs]

/-- ... keeps strings, booleans and nil as they are — in particular a string `_id` -/
theorem jsonType_str (s : Bytes) : jsonType (.str s) = .str s := rfl
theorem jsonType_bool (b : Bool) : jsonType (.bool b) = .bool b := rfl
theorem jsonType_null : jsonType .null = .null := rfl

/-- ... turns every number into the float64 with the same value (exact within 2^53) -/
theorem jsonType_num (n : Num) (h : numOK n) : ∃ b, jsonType (.num n) = .num (.float b) ∧ F64.fval b = nkey n :=
  ⟨toF64 n, rfl, (nkey_eq_fval n h).symm⟩

/-- ... and a time into its RFC 3339 text -/
theorem jsonType_time (ns off : Int) : jsonType (.time ns off) = .str (rfc3339 ns off) := rfl

theorem lookupKey_jsonType : (d : Doc) → (k : Bytes) →
    lookupKey k (jsonTypeKV d) = (lookupKey k d).map jsonType
  | [], _ => rfl
  | (k', v) :: t, k => by
    simp only [jsonTypeKV, lookupKey]
    split
    · rfl
    · exact lookupKey_jsonType t k

/-- the `_id` of an exported document is the `_id` of the source document (stored documents have
    a string `_id`) -/
theorem jsonType_objectId (d : Doc) (hid : ∀ ns off, lookupKey idField d ≠ some (.time ns off)) :
    (jsonTypeDoc d).objectId = d.objectId := by
  unfold Doc.objectId Doc.get jsonTypeDoc
  have hs : splitDots idField = [idField] := by decide
  simp only [hs, getPath, lookupKey_jsonType]
  cases h : lookupKey idField d with
  | none => rfl
  | some v =>
    cases v with
    | time ns off => exact absurd h (hid ns off)
    | _ => simp [jsonType]

/-- Export does not modify the database (it is two read transactions). -/
theorem export_pure (c : Bytes) (kv : KVS) (φ : Faults) :
    ((Op.exportDocs c).exec likeFn fnFam kv φ).2.1 = kv :=
  Props.C04.read_tx_pure likeFn fnFam (.exportDocs c) rfl kv φ

/-- Importing under an existing name, or from an unreadable / ill-formed file, or a file with an
    invalid or duplicate `_id`, fails without altering anything: every failing import leaves the
    database exactly as it was. -/
theorem failed_import_changes_nothing (c : Bytes) (docs : Option (List Doc)) (fresh : List Bytes)
    (σ : DBState) (φ : Faults)
    (h : ((Op.importDocs c docs fresh).run likeFn fnFam σ φ).out.isErr = true) :
    ((Op.importDocs c docs fresh).run likeFn fnFam σ φ).state = σ :=
  Props.C04.failed_op_no_trace likeFn fnFam _ σ φ h

/-- An unreadable or ill-formed file is always an error (specification and model agree by definition). -/
theorem unreadable_import_fails (s : State) (c : Bytes) (fresh : List Bytes) :
    (step likeFn fnFam s (.importDocs c none fresh)).1 = .err .badInput ∧
    (step likeFn fnFam s (.importDocs c none fresh)).2 = s := by
  simp [step]

/-- Importing under an existing name fails with "collection already exists" and changes nothing. -/
theorem import_existing_fails (s : State) (c : Bytes) (docs : List Doc) (fresh : List Bytes)
    (h : (lookup c s).isSome = true) :
    (step likeFn fnFam s (.importDocs c (some docs) fresh)) = (.err .collExist, s) := by
  simp [step, createWith, h]

end CV.JsonT
