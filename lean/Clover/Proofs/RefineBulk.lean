import Clover.Proofs.RefinePoint
/-! # Bulk writes refine the specification: `Update` / `UpdateFunc` / `Delete` over a full scan,
    `DropCollection` -/
namespace CV
open OC Keys StoreM

variable (likeFn : LikeFn) (fnFam : FnFam)

/-! ## live selections -/

/-- a selection of live documents with distinct ids -/
def Live (docs : List (Bytes × Doc)) (sel : List Doc) : Prop :=
  (∀ d ∈ sel, Spec.lookup d.objectId docs = some d) ∧ (sel.map Doc.objectId).Nodup

/-- well-formed ids of the documents of a collection -/
def IdsWF (docs : List (Bytes × Doc)) : Prop := ∀ e ∈ docs, IdWF e.1 ∧ e.2.objectId = e.1

/-- the number of selected documents the updater deletes -/
def delCount (u : Upd) (sel : List Doc) : Nat := (sel.filter (fun d => (u.apply d).isNone)).length

theorem delCount_nil (u : Upd) : delCount u [] = 0 := rfl

theorem delCount_cons_none (u : Upd) (d : Doc) (ds : List Doc) (h : u.apply d = none) :
    delCount u (d :: ds) = delCount u ds + 1 := by
  simp [delCount, List.filter, h]

theorem delCount_cons_some (u : Upd) (d d' : Doc) (ds : List Doc) (h : u.apply d = some d') :
    delCount u (d :: ds) = delCount u ds := by
  simp [delCount, List.filter, h]

theorem idsWF_len (docs : List (Bytes × Doc)) (h : IdsWF docs) : ∀ e ∈ docs, e.1.length = 36 :=
  fun e he => (h e he).1.1

theorem live_tail_erase (docs : List (Bytes × Doc)) (hs : Spec.KeysSorted docs) (d : Doc) (ds : List Doc)
    (h : Live docs (d :: ds)) : Live (Spec.erase d.objectId docs) ds := by
  obtain ⟨h1, h2⟩ := h
  simp only [List.map, List.nodup_cons] at h2
  refine ⟨?_, h2.2⟩
  intro d2 hd2
  rw [Spec.lookup_erase' _ _ _ hs]
  have hne : d2.objectId ≠ d.objectId := fun e => h2.1 (e ▸ List.mem_map.2 ⟨d2, hd2, rfl⟩)
  rw [if_neg hne]
  exact h1 d2 (List.mem_cons_of_mem _ hd2)

theorem live_tail_insert (docs : List (Bytes × Doc)) (d d' : Doc) (ds : List Doc)
    (h : Live docs (d :: ds)) : Live (Spec.insert d.objectId d' docs) ds := by
  obtain ⟨h1, h2⟩ := h
  simp only [List.map, List.nodup_cons] at h2
  refine ⟨?_, h2.2⟩
  intro d2 hd2
  rw [Spec.lookup_insert']
  have hne : d2.objectId ≠ d.objectId := fun e => h2.1 (e ▸ List.mem_map.2 ⟨d2, hd2, rfl⟩)
  rw [if_neg hne]
  exact h1 d2 (List.mem_cons_of_mem _ hd2)

theorem idsWF_erase (docs : List (Bytes × Doc)) (h : IdsWF docs) (id : Bytes) : IdsWF (Spec.erase id docs) :=
  fun e he => h e (Spec.mem_erase id e docs he)

theorem idsWF_insert (docs : List (Bytes × Doc)) (h : IdsWF docs) (id : Bytes) (d' : Doc) (hid : IdWF id)
    (hd : d'.objectId = id) : IdsWF (Spec.insert id d' docs) := by
  intro e he
  rcases Spec.mem_insert id d' e docs he with e1 | e1
  · rw [e1]; exact ⟨hid, hd⟩
  · exact h e e1

/-! ## one step of the apply phase -/

/-- what the keys of a live document are bound to -/
theorem live_keys (c : Bytes) (hc : Clean c) (idxs : List Bytes) (docs : List (Bytes × Doc)) (σ : KVS)
    (hd : DataRep c idxs docs σ) (hids : IdsWF docs) (d : Doc) (hl : Spec.lookup d.objectId docs = some d) :
    ∀ k v, KeyId c k d.objectId → (kvGet σ k = some v ↔ DocKeys c idxs d.objectId d k v) := by
  intro k v hk
  have hid := (hids _ (lookup_some_mem _ _ _ hl)).1.1
  rw [dataRep_keys_of c hc idxs docs σ hd (idsWF_len docs hids) d.objectId hid k v hk, hl]
  constructor
  · rintro ⟨d0, e, h⟩; cases e; exact h
  · intro h; exact ⟨d, rfl, h⟩

theorem not_ownsD_not_keyId (c k id : Bytes) (h : ¬ OwnsD c k) : ¬ KeyId c k id :=
  fun hk => h (keyId_ownsD c k id hk)

/-- the result of the apply phase -/
def ApplyPost (c : Bytes) (idxs : List Bytes) (docs : List (Bytes × Doc)) (ctx : Ctx) (docs' : List (Bytes × Doc))
    (k : Nat) (c' : Ctx) : Prop :=
  c'.fired = ctx.fired ∧ c'.skipCommit = ctx.skipCommit ∧ KSorted c'.work ∧ DataRep c idxs docs' c'.work ∧
  (∀ key, ¬ OwnsD c key → kvGet c'.work key = kvGet ctx.work key) ∧
  docs'.length + k = docs.length ∧ Spec.KeysSorted docs' ∧ IdsWF docs'

/-- **The apply phase of `replaceDocs`** follows `Spec.applyAll`. -/
theorem applyLoop_run (c : Bytes) (hc : Clean c) (idxs : List Bytes) (u : Upd) :
    (sel : List Doc) → (docs : List (Bytes × Doc)) → (n : Nat) → (ctx : Ctx) →
    KSorted ctx.work → DataRep c idxs docs ctx.work → Spec.KeysSorted docs → IdsWF docs → Live docs sel →
    match Spec.applyAll u docs sel with
    | .ok docs' => ∃ c', (applyLoop c idxs u n sel) noFault ctx = (.ok (n + delCount u sel), c') ∧
        ApplyPost c idxs docs ctx docs' (delCount u sel) c'
    | .err e => ∃ c', (applyLoop c idxs u n sel) noFault ctx = (.err e, c')
  | [], docs, n, ctx, hs, hd, hsd, hids, _ => by
    simp only [Spec.applyAll]
    exact ⟨ctx, rfl, rfl, rfl, hs, hd, fun _ _ => rfl, rfl, hsd, hids⟩
  | d :: ds, docs, n, ctx, hs, hd, hsd, hids, hlive => by
    have hl : Spec.lookup d.objectId docs = some d := hlive.1 d (by simp)
    obtain ⟨hidwf, _⟩ := hids _ (lookup_some_mem _ _ _ hl)
    have hkeys := live_keys c hc idxs docs ctx.work hd hids d hl
    obtain ⟨c1, h1, e1⟩ := delFromIndexes_run c d idxs ctx
    simp only [Spec.applyAll]
    cases hu : u.apply d with
    | none =>
      dsimp only
      obtain ⟨c2, h2, e2⟩ := del_run' (docKey c d.objectId) c1
      have hwork : c2.work = kvDel (delEntries c idxs d ctx.work) (docKey c d.objectId) := by rw [e2.1, e1.1]
      obtain ⟨hs', hf', hk'⟩ := docKeys_remove c idxs d.objectId d rfl ctx.work hs hkeys
      rw [← hwork] at hs' hf' hk'
      have hd' : DataRep c idxs (Spec.erase d.objectId docs) c2.work :=
        dataRep_update c hc idxs docs ctx.work c2.work hd hsd (idsWF_len docs hids) d.objectId hidwf.1 none hf'
          (fun k v hk => by rw [hk' k hk]; simp)
      have ih := applyLoop_run c hc idxs u ds (Spec.erase d.objectId docs) (n + 1) c2 hs' hd'
        (Spec.keysSorted_erase _ _ hsd) (idsWF_erase docs hids _) (live_tail_erase docs hsd d ds hlive)
      have hstep : (applyLoop c idxs u n (d :: ds)) noFault ctx = (applyLoop c idxs u (n + 1) ds) noFault c2 := by
        rw [applyLoop]
        simp only [hu]
        rw [bind_run _ _ ctx c1 () h1, bind_run _ _ c1 c2 () h2]
      rw [hstep, delCount_cons_none u d ds hu]
      cases ha : Spec.applyAll u (Spec.erase d.objectId docs) ds with
      | err e =>
        rw [ha] at ih
        exact ih
      | ok docs' =>
        rw [ha] at ih
        obtain ⟨c', hr, p1, p2, p3, p4, p5, p6, p7, p8⟩ := ih
        refine ⟨c', ?_, ?_, ?_, p3, p4, ?_, ?_, p7, p8⟩
        · rw [hr]; congr 2; omega
        · rw [p1, e2.2.1, e1.2.1]
        · rw [p2, e2.2.2, e1.2.2]
        · intro key hno
          rw [p5 key hno, hf' key (not_ownsD_not_keyId c key _ hno)]
        · have := Spec.length_erase_old d.objectId d docs hl
          omega
    | some d' =>
      dsimp only
      by_cases hid : d'.objectId ≠ d.objectId
      · rw [if_pos hid]
        refine ⟨ctx, ?_⟩
        rw [applyLoop]
        simp only [hu]
        rw [if_pos hid]
        apply bind_run_err'
        rfl
      · have hid' : d'.objectId = d.objectId := by simpa using hid
        rw [if_neg hid]
        obtain ⟨c2, h2, e2⟩ := addToIndexes_run c d' idxs c1
        by_cases hv : validDoc d' = true
        · simp only [hv, Bool.not_true, Bool.false_eq_true, if_false]
          obtain ⟨c3, h3, e3⟩ := set_run' (docKey c d.objectId) (.doc d') c2
          have hwork : c3.work = kvSet (setEntries c idxs d' (delEntries c idxs d ctx.work)) (docKey c d.objectId) (.doc d') := by
            rw [e3.1, e2.1, e1.1]
          have hσ : ∀ k v, KeyId c k d.objectId →
              (kvGet ctx.work k = some v ↔ ∃ d0, some d = some d0 ∧ DocKeys c idxs d.objectId d0 k v) := by
            intro k v hk
            rw [hkeys k v hk]
            constructor
            · intro h; exact ⟨d, rfl, h⟩
            · rintro ⟨d0, e, h⟩; cases e; exact h
          obtain ⟨hs', hf', hk'⟩ := docKeys_replace c hc idxs d.objectId (some d) d' hid'
            (fun d0 e => by simp only [Option.some.injEq] at e; rw [← e]) ctx.work hs hσ
          simp only at hs' hf' hk'
          rw [← hwork] at hs' hf' hk'
          have hd' : DataRep c idxs (Spec.insert d.objectId d' docs) c3.work :=
            dataRep_update c hc idxs docs ctx.work c3.work hd hsd (idsWF_len docs hids) d.objectId hidwf.1
              (some d') hf' hk'
          have ih := applyLoop_run c hc idxs u ds (Spec.insert d.objectId d' docs) n c3 hs' hd'
            (Spec.keysSorted_insert _ _ _ hsd) (idsWF_insert docs hids _ d' hidwf hid') (live_tail_insert docs d d' ds hlive)
          have hstep : (applyLoop c idxs u n (d :: ds)) noFault ctx = (applyLoop c idxs u n ds) noFault c3 := by
            rw [applyLoop]
            simp only [hu]
            rw [if_neg hid]
            rw [bind_run _ _ ctx c1 () h1, bind_run _ _ c1 c2 () h2]
            simp only [saveDoc, hv, if_true]
            rw [bind_run _ _ c2 c3 () h3]
          rw [hstep, delCount_cons_some u d d' ds hu]
          cases ha : Spec.applyAll u (Spec.insert d.objectId d' docs) ds with
          | err e =>
            rw [ha] at ih
            exact ih
          | ok docs' =>
            rw [ha] at ih
            obtain ⟨c', hr, p1, p2, p3, p4, p5, p6, p7, p8⟩ := ih
            refine ⟨c', hr, ?_, ?_, p3, p4, ?_, ?_, p7, p8⟩
            · rw [p1, e3.2.1, e2.2.1, e1.2.1]
            · rw [p2, e3.2.2, e2.2.2, e1.2.2]
            · intro key hno
              rw [p5 key hno, hf' key (not_ownsD_not_keyId c key _ hno)]
            · have := Spec.length_insert_old d.objectId d' d docs hsd hl
              omega
        · simp only [hv, Bool.not_false, if_true]
          refine ⟨c2, ?_⟩
          rw [applyLoop]
          simp only [hu]
          rw [if_neg hid]
          rw [bind_run _ _ ctx c1 () h1, bind_run _ _ c1 c2 () h2]
          apply bind_run_err'
          simp only [saveDoc, hv, Bool.false_eq_true, if_false]
          rfl

/-! ## the full-scan plan -/

theorem choosePlan_nocrit (idxs : List Bytes) (q : Query) (hc : q.crit = none) (hs : q.sort = []) :
    choosePlan idxs q = (.full, false) := by
  unfold choosePlan indexQuery
  rw [hc, hs]

/-- a fault-free `iterateDocs` whose plan is the full collection scan -/
theorem iterateDocs_run_full (s : Spec.State) (ctx : Ctx) (hw : WF s) (hr : Rep s ctx.work) (q : Query) (k : Option Nat)
    (coll : Spec.Coll) (hc : Clean q.coll) (hl : Spec.lookup q.coll s = some coll)
    (hplan : choosePlan coll.indexes q = (.full, false)) :
    ∃ c', (iterateDocs likeFn fnFam q k) noFault ctx =
      (.ok (finishPipe q k (needSort q false)
        (foldStop (onDocOf likeFn fnFam q k (needSort q false)) {} (coll.docs.map (·.2)))), c') ∧ SameWork ctx c' := by
  have hm : kvGet ctx.work (metaKey q.coll) = some (.cmeta ⟨coll.docs.length, coll.indexes⟩) := by
    simp only [hr.2, assoc_meta, hl, Option.map_some]
  obtain ⟨c1, h1, s1⟩ := getMeta_run q.coll _ ctx hm
  have hr1 : Rep s c1.work := by rw [s1.1]; exact hr
  obtain ⟨c2, h2, s2⟩ := fullScan_run s c1 hw hr1 q.coll coll hc hl (onDocOf likeFn fnFam q k (needSort q false))
  refine ⟨c2, ?_, s1.trans s2⟩
  unfold iterateDocs
  rw [bind_run _ _ _ c1 _ h1]
  simp only [hplan]
  rw [bind_run _ _ _ c2 _ h2]
  rfl

/-! ## the selection of a query is live -/

theorem live_all (docs : List (Bytes × Doc)) (hs : Spec.KeysSorted docs) (hids : IdsWF docs) :
    Live docs (docs.map (·.2)) := by
  constructor
  · intro d hd
    obtain ⟨e, he, rfl⟩ := List.mem_map.1 hd
    have h2 := (hids e he).2
    apply mem_lookup_some _ _ _ (Spec.keysSorted_nodup docs hs)
    rw [h2]; exact he
  · rw [List.map_map]
    have : docs.map (Doc.objectId ∘ fun x => x.2) = docs.map (·.1) :=
      List.map_congr_left (fun e he => (hids e he).2)
    rw [this]
    exact Spec.keysSorted_nodup docs hs

theorem live_sublist (docs : List (Bytes × Doc)) (l l' : List Doc) (h : l'.Sublist l) (hl : Live docs l) : Live docs l' :=
  ⟨fun d hd => hl.1 d (h.subset hd), hl.2.sublist (h.map _)⟩

theorem live_perm (docs : List (Bytes × Doc)) (l l' : List Doc) (h : l'.Perm l) (hl : Live docs l) : Live docs l' :=
  ⟨fun d hd => hl.1 d (h.subset hd), (h.map _).nodup_iff.2 hl.2⟩

theorem findAll_live (q : Query) (coll : Spec.Coll) (hs : Spec.KeysSorted coll.docs) (hids : IdsWF coll.docs) :
    Live coll.docs (Spec.findAll likeFn fnFam q coll) := by
  have h0 := live_all coll.docs hs hids
  have h1 := live_sublist coll.docs _ _ (List.filter_sublist (p := fun d => satOpt likeFn fnFam d q.crit)) h0
  have h2 : Live coll.docs (if q.sort.isEmpty then (coll.docs.map (·.2)).filter (fun d => satOpt likeFn fnFam d q.crit)
      else sortDocs q.sort ((coll.docs.map (·.2)).filter (fun d => satOpt likeFn fnFam d q.crit))) := by
    split
    · exact h1
    · exact live_perm coll.docs _ _ (List.mergeSort_perm _ _) h1
  unfold Spec.findAll Spec.window
  simp only
  split
  · exact live_sublist coll.docs _ _ (List.drop_sublist _ _) h2
  · exact live_sublist coll.docs _ _ ((List.take_sublist _ _).trans (List.drop_sublist _ _)) h2

theorem metaKey_not_ownsD (c : Bytes) : ¬ OwnsD c (metaKey c) := by
  rintro (⟨id, e⟩ | ⟨f, rest, e⟩)
  · exact metaKey_ne_docKey c c id e
  · exact metaKey_ne_kIdxKey c c f rest e

theorem dataRep_frame (c : Bytes) (idxs : List Bytes) (docs : List (Bytes × Doc)) (σ σ' : KVS)
    (h : ∀ k, OwnsD c k → kvGet σ' k = kvGet σ k) (hd : DataRep c idxs docs σ) : DataRep c idxs docs σ' :=
  fun k v ho => by rw [h k ho]; exact hd k v ho

/-! ## `replaceDocs` over a full scan -/

theorem collWF_idsWF (coll : Spec.Coll) (hcw : CollWF coll) : IdsWF coll.docs := hcw.idsWF

/-- **`replaceDocs`** (the body shared by `Update`, `UpdateFunc`, `Delete`, `DropCollection`) when the
    plan is the full scan: the selection is the specification's, the apply phase follows
    `Spec.applyAll`, the size counter is brought up to date. -/
theorem replaceDocs_run (s : Spec.State) (ctx : Ctx) (hw : WF s) (hr : Rep s ctx.work) (q : Query) (u : Upd)
    (coll : Spec.Coll) (hl : Spec.lookup q.coll s = some coll) (hplan : choosePlan coll.indexes q = (.full, false)) :
    match Spec.applyAll u coll.docs (Spec.findAll likeFn fnFam q coll) with
    | .ok docs' => ∃ c', (replaceDocs likeFn fnFam q u) noFault ctx = (.ok (Spec.findAll likeFn fnFam q coll), c') ∧
        c'.fired = ctx.fired ∧ c'.skipCommit = ctx.skipCommit ∧ KSorted c'.work ∧
        (∀ k, ¬ Owns q.coll k → kvGet c'.work k = kvGet ctx.work k) ∧
        (∀ k v, Owns q.coll k → (kvGet c'.work k = some v ↔ HoldsC q.coll ⟨coll.indexes, docs'⟩ k v)) ∧
        Spec.KeysSorted docs' ∧ IdsWF docs'
    | .err e => ∃ c', (replaceDocs likeFn fnFam q u) noFault ctx = (.err e, c') := by
  obtain ⟨hc, hcw⟩ := wf_lookup_clean s hw q.coll coll hl
  have hm : kvGet ctx.work (metaKey q.coll) = some (.cmeta ⟨coll.docs.length, coll.indexes⟩) := by
    rw [rep_meta s ctx.work hr q.coll, hl]; rfl
  obtain ⟨c1, h1, s1⟩ := getMeta_run q.coll _ ctx hm
  have hr1 : Rep s c1.work := by rw [s1.1]; exact hr
  obtain ⟨c2, h2, s2⟩ := iterateDocs_run_full likeFn fnFam s c1 hw hr1 q none coll hc hl hplan
  rw [finishPipe_spec] at h2
  have hw2 : c2.work = ctx.work := s2.1.trans s1.1
  have hr2 : Rep s c2.work := by rw [hw2]; exact hr
  have hdata := rep_data s c2.work hw hr2 q.coll coll hl
  have hlive := findAll_live likeFn fnFam q coll hcw.docsSorted hcw.idsWF
  have hloop := applyLoop_run q.coll hc coll.indexes u (Spec.findAll likeFn fnFam q coll) coll.docs 0 c2 hr2.1 hdata
    hcw.docsSorted hcw.idsWF hlive
  have hpre : ∀ (r : Res (List Doc) × Ctx),
      (do let deleted ← applyLoop q.coll coll.indexes u 0 (Spec.findAll likeFn fnFam q coll)
          if deleted > 0 then saveMeta q.coll { size := (coll.docs.length : Int) - ↑deleted, indexes := coll.indexes }
          pure (Spec.findAll likeFn fnFam q coll) : StoreM (List Doc)) noFault c2 = r →
      (replaceDocs likeFn fnFam q u) noFault ctx = r := by
    intro r h
    unfold replaceDocs
    rw [bind_run _ _ _ c1 _ h1, bind_run _ _ _ c2 _ h2]
    exact h
  cases ha : Spec.applyAll u coll.docs (Spec.findAll likeFn fnFam q coll) with
  | err e =>
    rw [ha] at hloop
    obtain ⟨c3, h3⟩ := hloop
    exact ⟨c3, hpre _ (bind_run_err' _ _ _ _ _ h3)⟩
  | ok docs' =>
    rw [ha] at hloop
    obtain ⟨c3, h3, p1, p2, p3, p4, p5, p6, p7, p8⟩ := hloop
    dsimp only
    have hnometa : ∀ k, ¬ Owns q.coll k → ¬ OwnsD q.coll k := fun k hno ho => hno (ownsD_owns _ _ ho)
    by_cases hk : 0 + delCount u (Spec.findAll likeFn fnFam q coll) > 0
    · obtain ⟨c4, h4, e4⟩ := set_run' (metaKey q.coll)
        (.cmeta { size := (coll.docs.length : Int) - ↑(0 + delCount u (Spec.findAll likeFn fnFam q coll)), indexes := coll.indexes }) c3
      have hget : ∀ k, kvGet c4.work k = if k = metaKey q.coll then
          some (.cmeta { size := (coll.docs.length : Int) - ↑(0 + delCount u (Spec.findAll likeFn fnFam q coll)), indexes := coll.indexes })
          else kvGet c3.work k := by
        intro k; rw [e4.1, kvGet_kvSet _ _ _ _ p3]
      refine ⟨c4, hpre _ ?_, ?_, ?_, ?_, ?_, ?_, p7, p8⟩
      · rw [bind_run _ _ _ c3 _ h3, if_pos hk]
        simp only [saveMeta]
        rw [bind_run _ _ _ c4 _ h4]
        rfl
      · rw [e4.2.1, p1, s2.2.1, s1.2.1]
      · rw [e4.2.2, p2, s2.2.2, s1.2.2]
      · rw [e4.1]; exact ksorted_kvSet _ p3 _ _
      · intro k hno
        rw [hget k, if_neg (fun e => hno (Or.inl e)), p5 k (hnometa k hno), hw2]
      · apply owned_of_parts
        · rw [hget, if_pos rfl]
          have hsz : (coll.docs.length : Int) - ↑(0 + delCount u (Spec.findAll likeFn fnFam q coll)) = (docs'.length : Int) := by
            omega
          rw [hsz]
        · exact dataRep_frame q.coll coll.indexes docs' c3.work c4.work
            (fun k ho => by
              have hne : k ≠ metaKey q.coll := fun e => metaKey_not_ownsD q.coll (e ▸ ho)
              rw [hget k, if_neg hne]) p4
    · refine ⟨c3, hpre _ ?_, ?_, ?_, p3, ?_, ?_, p7, p8⟩
      · rw [bind_run _ _ _ c3 _ h3, if_neg hk]
        rfl
      · rw [p1, s2.2.1, s1.2.1]
      · rw [p2, s2.2.2, s1.2.2]
      · intro k hno
        rw [p5 k (hnometa k hno), hw2]
      · apply owned_of_parts
        · rw [p5 _ (metaKey_not_ownsD q.coll), hw2, hm]
          have : docs'.length = coll.docs.length := by omega
          rw [this]
        · exact p4

theorem replaceDocs_missing (ctx : Ctx) (q : Query) (u : Upd) (h : kvGet ctx.work (metaKey q.coll) = none) :
    ∃ c', (replaceDocs likeFn fnFam q u) noFault ctx = (.err .collNotExist, c') := by
  obtain ⟨c1, h1, _⟩ := get_run (metaKey q.coll) ctx
  refine ⟨c1, ?_⟩
  unfold replaceDocs
  apply bind_run_err'
  unfold getMeta
  rw [bind_run _ _ _ c1 _ h1, h]
  rfl

/-! ## `Update` / `UpdateFunc` / `Delete` -/

/-- **Update (and UpdateFunc) refine the specification and preserve the invariant** when the plan is
    the full collection scan: every criteria, sort, skip and limit, every updater, any index set. -/
theorem update_refines_fullscan (s : Spec.State) (σ : KVS) (hw : WF s) (hr : Rep s σ) (q : Query) (u : Upd)
    (coll : Spec.Coll) (hl : Spec.lookup q.coll s = some coll) (hplan : choosePlan coll.indexes q = (.full, false)) :
    let r := withTx true (Op.body likeFn fnFam (.update q u)) noFault σ
    let sp := Spec.step likeFn fnFam s (.update q u)
    r.1 = sp.1 ∧ Rep sp.2 r.2.1 ∧ WF sp.2 := by
  simp only
  obtain ⟨hc, hcw⟩ := wf_lookup_clean s hw q.coll coll hl
  have hrun := replaceDocs_run likeFn fnFam s (ctx0 true σ) hw hr q u coll hl hplan
  simp only [Spec.step, Spec.withColl, hl]
  cases ha : Spec.applyAll u coll.docs (Spec.findAll likeFn fnFam q coll) with
  | err e =>
    rw [ha] at hrun
    obtain ⟨c', h⟩ := hrun
    have hb : (Op.body likeFn fnFam (.update q u)) noFault (ctx0 true σ) = (.err e, c') := by
      simp only [Op.body]
      exact bind_run_err' _ _ _ _ _ h
    have ht := withTx_err _ σ _ _ hb
    exact ⟨ht.1, by rw [ht.2]; exact hr, hw⟩
  | ok docs' =>
    rw [ha] at hrun
    obtain ⟨c', h, _, p2, p3, p4, p5, p7, p8⟩ := hrun
    have hb : (Op.body likeFn fnFam (.update q u)) noFault (ctx0 true σ) =
        (.ok (.docs (Spec.findAll likeFn fnFam q coll)), c') := by
      simp only [Op.body]
      rw [bind_run _ _ _ c' _ h]
      rfl
    have hsk : c'.skipCommit = false := by rw [p2]; rfl
    have ht := withTx_ok _ σ _ _ hb hsk
    dsimp only
    rw [ht.1, ht.2]
    refine ⟨rfl, ?_⟩
    have hcw' : CollWF { coll with docs := docs' } :=
      ⟨Spec.keysSorted_nodup _ p7, p7, p8, hcw.fieldsClean, hcw.fieldsDistinct⟩
    exact rep_insert_coll s σ c'.work hw hr q.coll hc _ hcw' p3 p4 p5

/-- ... and report a missing collection -/
theorem update_missing (s : Spec.State) (σ : KVS) (hw : WF s) (hr : Rep s σ) (q : Query) (u : Upd)
    (hl : Spec.lookup q.coll s = none) :
    let r := withTx true (Op.body likeFn fnFam (.update q u)) noFault σ
    let sp := Spec.step likeFn fnFam s (.update q u)
    r.1 = sp.1 ∧ Rep sp.2 r.2.1 ∧ WF sp.2 := by
  simp only
  have hm : kvGet (ctx0 true σ).work (metaKey q.coll) = none := by
    have := rep_meta s σ hr q.coll
    rw [hl] at this
    exact this
  obtain ⟨c', h⟩ := replaceDocs_missing likeFn fnFam (ctx0 true σ) q u hm
  have hb : (Op.body likeFn fnFam (.update q u)) noFault (ctx0 true σ) = (.err .collNotExist, c') := by
    simp only [Op.body]
    exact bind_run_err' _ _ _ _ _ h
  have ht := withTx_err _ σ _ _ hb
  simp only [Spec.step, Spec.withColl, hl]
  exact ⟨ht.1, by rw [ht.2]; exact hr, hw⟩

theorem body_delete (q : Query) : Op.body likeFn fnFam (.delete q) = Op.body likeFn fnFam (.update q .retNil) := rfl

theorem step_delete (s : Spec.State) (q : Query) :
    Spec.step likeFn fnFam s (.delete q) = Spec.step likeFn fnFam s (.update q .retNil) := by
  conv => lhs; rw [Spec.step]

/-- **Delete refines the specification and preserves the invariant** (full collection scan). -/
theorem delete_refines_fullscan (s : Spec.State) (σ : KVS) (hw : WF s) (hr : Rep s σ) (q : Query)
    (coll : Spec.Coll) (hl : Spec.lookup q.coll s = some coll) (hplan : choosePlan coll.indexes q = (.full, false)) :
    let r := withTx true (Op.body likeFn fnFam (.delete q)) noFault σ
    let sp := Spec.step likeFn fnFam s (.delete q)
    r.1 = sp.1 ∧ Rep sp.2 r.2.1 ∧ WF sp.2 := by
  rw [body_delete, step_delete]
  exact update_refines_fullscan likeFn fnFam s σ hw hr q .retNil coll hl hplan

theorem delete_missing (s : Spec.State) (σ : KVS) (hw : WF s) (hr : Rep s σ) (q : Query)
    (hl : Spec.lookup q.coll s = none) :
    let r := withTx true (Op.body likeFn fnFam (.delete q)) noFault σ
    let sp := Spec.step likeFn fnFam s (.delete q)
    r.1 = sp.1 ∧ Rep sp.2 r.2.1 ∧ WF sp.2 := by
  rw [body_delete, step_delete]
  exact update_missing likeFn fnFam s σ hw hr q .retNil hl

/-! ## `DropCollection` -/

/-- the query `NewQuery(c)` selects every document, in id order -/
theorem findAll_all (c : Bytes) (coll : Spec.Coll) :
    Spec.findAll likeFn fnFam { coll := c } coll = coll.docs.map (·.2) := by
  unfold Spec.findAll Spec.window
  simp [satOpt]

/-- deleting every document leaves none -/
theorem applyAll_retNil_all : (docs : List (Bytes × Doc)) → (∀ e ∈ docs, e.2.objectId = e.1) →
    Spec.applyAll .retNil docs (docs.map (·.2)) = .ok []
  | [], _ => rfl
  | (id, d) :: t, h => by
    have h1 : d.objectId = id := h (id, d) (by simp)
    simp only [List.map, Spec.applyAll, Upd.apply, h1, Spec.erase, if_true]
    exact applyAll_retNil_all t (fun e he => h e (List.mem_cons_of_mem _ he))

/-- **DropCollection refines the specification and preserves the invariant**: every document and index
    entry of the collection is removed, then its metadata record. -/
theorem dropCollection_refines (s : Spec.State) (σ : KVS) (hw : WF s) (hr : Rep s σ) (c : Bytes) :
    let r := withTx true (Op.body likeFn fnFam (.dropCollection c)) noFault σ
    let sp := Spec.step likeFn fnFam s (.dropCollection c)
    r.1 = sp.1 ∧ Rep sp.2 r.2.1 ∧ WF sp.2 := by
  simp only
  cases hl : Spec.lookup c s with
  | none =>
    have hm : kvGet (ctx0 true σ).work (metaKey c) = none := by
      have := rep_meta s σ hr c
      rw [hl] at this
      exact this
    obtain ⟨c', h⟩ := replaceDocs_missing likeFn fnFam (ctx0 true σ) { coll := c } .retNil hm
    have hb : (Op.body likeFn fnFam (.dropCollection c)) noFault (ctx0 true σ) = (.err .collNotExist, c') := by
      simp only [Op.body]
      exact bind_run_err' _ _ _ _ _ h
    have ht := withTx_err _ σ _ _ hb
    simp only [Spec.step, Spec.withColl, hl]
    exact ⟨ht.1, by rw [ht.2]; exact hr, hw⟩
  | some coll =>
    obtain ⟨hc, hcw⟩ := wf_lookup_clean s hw c coll hl
    have hrun := replaceDocs_run likeFn fnFam s (ctx0 true σ) hw hr { coll := c } .retNil coll hl
      (choosePlan_nocrit _ _ rfl rfl)
    rw [findAll_all, applyAll_retNil_all coll.docs (fun e he => (hcw.idsWF e he).2)] at hrun
    obtain ⟨c1, h1, _, p2, p3, p4, p5, _, _⟩ := hrun
    obtain ⟨c2, h2, e2⟩ := del_run' (metaKey c) c1
    have hb : (Op.body likeFn fnFam (.dropCollection c)) noFault (ctx0 true σ) = (.ok .unit, c2) := by
      simp only [Op.body]
      rw [bind_run _ _ _ c1 _ h1, bind_run _ _ _ c2 _ h2]
      rfl
    have hsk : c2.skipCommit = false := by rw [e2.2.2, p2]; rfl
    have ht := withTx_ok _ σ _ _ hb hsk
    simp only [Spec.step, Spec.withColl, hl]
    rw [ht.1, ht.2]
    refine ⟨rfl, ?_⟩
    have hget : ∀ k, kvGet c2.work k = if k = metaKey c then none else kvGet c1.work k := by
      intro k; rw [e2.1, kvGet_kvDel _ _ _ p3]
    refine rep_erase_coll s σ c2.work hw hr c hc (by rw [e2.1]; exact ksorted_kvDel _ p3 _) ?_ ?_
    · intro k hno
      rw [hget k, if_neg (fun e => hno (Or.inl e))]
      exact p4 k hno
    · intro k ho
      rw [hget k]
      by_cases hk : k = metaKey c
      · rw [if_pos hk]
      · rw [if_neg hk]
        cases hg : kvGet c1.work k with
        | none => rfl
        | some v =>
          exfalso
          have hh := (p5 k v ho).1 hg
          cases hh with
          | cmeta => exact hk rfl
          | data k v hd =>
            cases hd with
            | doc id d hld => simp [Spec.lookup] at hld
            | idx f id d _ hld => simp [Spec.lookup] at hld

end CV
