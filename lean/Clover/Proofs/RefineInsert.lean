import Clover.Proofs.RefinePoint
/-! # Batch insertion refines the specification: `Insert` and `ImportCollection`

`insertDocs` walks the batch; for every document it writes the index entries, checks that the
document key is free (`dupKey`), validates (`invalidId`) and writes the record; at the end it
rewrites the size counter.  The specification is `Spec.insertAll`. -/
namespace CV
open OC Keys StoreM

variable (likeFn : LikeFn) (fnFam : FnFam)

/-! ## 1. a valid document has a well-formed id -/

theorem all_zipIdx_elim {α} (p : α × Nat → Bool) : (l : List α) → (k : Nat) → (l.zipIdx k).all p = true →
    ∀ b ∈ l, ∃ i, p (b, i) = true
  | [], _, _, b, hb => by simp at hb
  | a :: t, k, h, b, hb => by
    simp only [List.zipIdx_cons, List.all_cons, Bool.and_eq_true] at h
    rcases List.mem_cons.1 hb with e | e
    · exact ⟨k, by rw [e]; exact h.1⟩
    · exact all_zipIdx_elim p t (k + 1) h.2 b e

theorem isHex_ne (b : UInt8) (h : isHex b = true) : b ≠ semi ∧ b ≠ 255 := by
  constructor
  · intro e; rw [e] at h; revert h; decide
  · intro e; rw [e] at h; revert h; decide

theorem canonicalUuid_idWF (s : Bytes) (h : isCanonicalUuid s = true) : IdWF s := by
  unfold isCanonicalUuid at h
  simp only [Bool.and_eq_true, beq_iff_eq] at h
  refine ⟨h.1, fun b hb => ?_⟩
  obtain ⟨i, hi⟩ := all_zipIdx_elim _ s 0 h.2 b hb
  simp only at hi
  split at hi
  · have hb' : b = 0x2D := by simpa using hi
    subst hb'
    exact ⟨by decide, by decide⟩
  · exact isHex_ne b hi

theorem validDoc_idWF (d : Doc) (h : validDoc d = true) : IdWF d.objectId := by
  unfold validDoc at h
  simp only [Bool.and_eq_true] at h
  exact canonicalUuid_idWF _ h.1

/-! ## 2. the per-document loop -/

theorem assignIds_length : (docs : List Doc) → (fresh : List Bytes) → (assignIds docs fresh).length = docs.length
  | [], _ => rfl
  | d :: ds, fresh => by
    cases fresh with
    | nil => simp only [assignIds, List.length_cons, assignIds_length ds [], ite_self]
    | cons id fresh' =>
      simp only [assignIds, apply_ite List.length, List.length_cons, assignIds_length ds fresh',
        assignIds_length ds (id :: fresh'), ite_self]

theorem ownsD_ne_meta (c k : Bytes) (h : OwnsD c k) : k ≠ metaKey c := by
  rcases h with ⟨id, e⟩ | ⟨f, rest, e⟩
  · rw [e]; exact (metaKey_ne_docKey c c id).symm
  · rw [e]; exact (metaKey_ne_kIdxKey c c f rest).symm

/-- what a document key is bound to -/
theorem dataRep_docKey (c : Bytes) (hc : Clean c) (idxs : List Bytes) (docs : List (Bytes × Doc)) (σ : KVS)
    (hd : DataRep c idxs docs σ) (id : Bytes) :
    kvGet σ (docKey c id) = (Spec.lookup id docs).map SVal.doc := by
  have ho : OwnsD c (docKey c id) := Or.inl ⟨id, rfl⟩
  cases hl : Spec.lookup id docs with
  | some d0 => exact (hd _ _ ho).2 (.doc id d0 hl)
  | none =>
    cases hg : kvGet σ (docKey c id) with
    | none => rfl
    | some v =>
      exfalso
      have hh := (hd _ v ho).1 hg
      generalize hk : docKey c id = k at hh
      cases hh with
      | doc id' d' hl' =>
        have := (docKey_inj c c id id' hc hc hk).2
        subst this
        rw [hl] at hl'
        cases hl'
      | idx f id' d' _ _ => exact absurd hk (docKey_ne_idxKey c c f id id' _ hc hc)

theorem insertLoop_cons (c : Bytes) (idxs : List Bytes) (d : Doc) (ds : List Doc) :
    insertLoop c idxs (d :: ds) =
      (addToIndexes c idxs d >>= fun _ => StoreM.get (docKey c d.objectId) >>= fun r =>
        match r with
        | some _ => fail .dupKey
        | none => saveDoc (docKey c d.objectId) d >>= fun _ => insertLoop c idxs ds) := rfl

/-- **The insertion loop.**  Started on a working copy that holds exactly the data keys of `docs`,
    it ends with exactly the data keys of `Spec.insertAll docs ds`, touching no other key; when the
    specification reports an error the loop stops with the same error. -/
theorem insertLoop_run (c : Bytes) (hc : Clean c) (idxs : List Bytes) (ds : List Doc) :
    ∀ (docs : List (Bytes × Doc)) (ctx : Ctx), KSorted ctx.work → DataRep c idxs docs ctx.work →
    Spec.KeysSorted docs → (∀ e ∈ docs, IdWF e.1 ∧ e.2.objectId = e.1) →
    (∀ docs', Spec.insertAll docs ds = .ok docs' →
      ∃ c', (insertLoop c idxs ds) noFault ctx = (.ok (), c') ∧ c'.fired = ctx.fired ∧
        c'.skipCommit = ctx.skipCommit ∧ KSorted c'.work ∧ DataRep c idxs docs' c'.work ∧
        (∀ k, ¬ OwnsD c k → kvGet c'.work k = kvGet ctx.work k) ∧
        docs'.length = docs.length + ds.length ∧ Spec.KeysSorted docs' ∧
        (∀ e ∈ docs', IdWF e.1 ∧ e.2.objectId = e.1)) ∧
    (∀ e, Spec.insertAll docs ds = .err e → ∃ c', (insertLoop c idxs ds) noFault ctx = (.err e, c')) := by
  induction ds with
  | nil =>
    intro docs ctx hs hd hsorted hids
    refine ⟨?_, ?_⟩
    · intro docs' h
      simp only [Spec.insertAll, Res.ok.injEq] at h
      subst h
      exact ⟨ctx, rfl, rfl, rfl, hs, hd, fun _ _ => rfl, by simp, hsorted, hids⟩
    · intro e h
      simp only [Spec.insertAll] at h
      cases h
  | cons d ds ih =>
    intro docs ctx hs hd hsorted hids
    obtain ⟨c1, h1, e1⟩ := addToIndexes_run c d idxs ctx
    obtain ⟨c2, h2, s2⟩ := get_run (docKey c d.objectId) c1
    have hget : kvGet c1.work (docKey c d.objectId) = (Spec.lookup d.objectId docs).map SVal.doc := by
      rw [e1.1, kvGet_setEntries_other c d _ idxs ctx.work hs (fun f _ => docKey_ne_idxKey c c f _ _ _ hc hc)]
      exact dataRep_docKey c hc idxs docs ctx.work hd d.objectId
    cases hl : Spec.lookup d.objectId docs with
    | some d0 =>
      -- the key is taken
      rw [hl] at hget
      have hsp : Spec.insertAll docs (d :: ds) = .err .dupKey := by
        simp only [Spec.insertAll, hl, Option.isSome_some, if_true]
      rw [hsp]
      refine ⟨fun docs' h => (by cases h), fun e h => ?_⟩
      cases h
      exact ⟨c2, by rw [insertLoop_cons, bind_run _ _ ctx c1 () h1, bind_run _ _ c1 c2 _ h2, hget]; rfl⟩
    | none =>
      rw [hl] at hget
      have hrun : (insertLoop c idxs (d :: ds)) noFault ctx =
          (saveDoc (docKey c d.objectId) d >>= fun _ => insertLoop c idxs ds) noFault c2 := by
        rw [insertLoop_cons, bind_run _ _ ctx c1 () h1, bind_run _ _ c1 c2 _ h2, hget]; rfl
      by_cases hv : validDoc d = true
      · -- the document is written
        obtain ⟨c3, h3, e3⟩ := set_run' (docKey c d.objectId) (.doc d) c2
        have hsave : (saveDoc (docKey c d.objectId) d) noFault c2 = (.ok (), c3) := by
          unfold saveDoc; rw [if_pos hv]; exact h3
        have hsp : Spec.insertAll docs (d :: ds) = Spec.insertAll (Spec.insert d.objectId d docs) ds := by
          simp only [Spec.insertAll, hl, Option.isSome_none, Bool.false_eq_true, if_false, hv, Bool.not_true]
        have hidwf := validDoc_idWF d hv
        have hwork : c3.work = kvSet (setEntries c idxs d ctx.work) (docKey c d.objectId) (.doc d) := by
          rw [e3.1, s2.1, e1.1]
        have hids36 : ∀ e ∈ docs, e.1.length = 36 := fun e he => (hids e he).1.1
        have hσ : ∀ k v, KeyId c k d.objectId → (kvGet ctx.work k = some v ↔
            ∃ d0, (none : Option Doc) = some d0 ∧ DocKeys c idxs d.objectId d0 k v) := by
          intro k v hk
          rw [dataRep_keys_of c hc idxs docs ctx.work hd hids36 d.objectId hidwf.1 k v hk, hl]
        obtain ⟨hs', hf', hk'⟩ := docKeys_replace c hc idxs d.objectId none d rfl
          (fun d0 e => by cases e) ctx.work hs hσ
        simp only at hs' hf' hk'
        rw [← hwork] at hs' hf' hk'
        have hdata' : DataRep c idxs (Spec.insert d.objectId d docs) c3.work :=
          dataRep_update c hc idxs docs ctx.work c3.work hd hsorted hids36 d.objectId hidwf.1 (some d) hf' hk'
        have hsorted' := Spec.keysSorted_insert d.objectId d docs hsorted
        have hids' : ∀ e ∈ Spec.insert d.objectId d docs, IdWF e.1 ∧ e.2.objectId = e.1 := by
          intro e he
          rcases Spec.mem_insert d.objectId d e docs he with h | h
          · rw [h]; exact ⟨hidwf, rfl⟩
          · exact hids e h
        obtain ⟨ihok, iherr⟩ := ih (Spec.insert d.objectId d docs) c3 hs' hdata' hsorted' hids'
        have hrun2 : (insertLoop c idxs (d :: ds)) noFault ctx = (insertLoop c idxs ds) noFault c3 := by
          rw [hrun, bind_run _ _ c2 c3 () hsave]
        rw [hsp, hrun2]
        refine ⟨fun docs' h => ?_, iherr⟩
        obtain ⟨c', hr', hf, hsk, hks, hdr, hfr, hlen, hso, hid⟩ := ihok docs' h
        refine ⟨c', hr', ?_, ?_, hks, hdr, ?_, ?_, hso, hid⟩
        · rw [hf, e3.2.1, s2.2.1, e1.2.1]
        · rw [hsk, e3.2.2, s2.2.2, e1.2.2]
        · intro k hno
          rw [hfr k hno]
          exact hf' k (fun hk => hno (keyId_ownsD c k _ hk))
        · rw [hlen, Spec.length_insert_new d.objectId d docs hl]
          simp only [List.length_cons]
          omega
      · -- the document is not valid
        have hsp : Spec.insertAll docs (d :: ds) = .err .invalidId := by
          simp only [Spec.insertAll, hl, Option.isSome_none, Bool.false_eq_true, if_false, hv,
            Bool.not_false, if_true]
        rw [hsp]
        refine ⟨fun docs' h => (by cases h), fun e h => ?_⟩
        cases h
        refine ⟨c2, ?_⟩
        rw [hrun]
        apply bind_run_err'
        unfold saveDoc
        rw [if_neg hv]
        rfl

/-! ## `insertDocs`: metadata read, loop, metadata write -/

theorem getMeta_run_none' (c : Bytes) (ctx : Ctx) (h : kvGet ctx.work (metaKey c) = none) :
    ∃ c', (getMeta c) noFault ctx = (.err .collNotExist, c') := by
  obtain ⟨c1, h1, _⟩ := get_run (metaKey c) ctx
  refine ⟨c1, ?_⟩
  unfold getMeta
  rw [bind_run _ _ ctx c1 _ h1, h]
  rfl

theorem insertDocs_run (c : Bytes) (hc : Clean c) (idxs : List Bytes) (ds : List Doc) (docs : List (Bytes × Doc))
    (ctx : Ctx) (hs : KSorted ctx.work)
    (hm : kvGet ctx.work (metaKey c) = some (.cmeta ⟨docs.length, idxs⟩))
    (hd : DataRep c idxs docs ctx.work) (hsorted : Spec.KeysSorted docs)
    (hids : ∀ e ∈ docs, IdWF e.1 ∧ e.2.objectId = e.1) :
    (∀ docs', Spec.insertAll docs ds = .ok docs' →
      ∃ c', (insertDocs c ds) noFault ctx = (.ok (), c') ∧ c'.skipCommit = ctx.skipCommit ∧ KSorted c'.work ∧
        (∀ k, ¬ Owns c k → kvGet c'.work k = kvGet ctx.work k) ∧
        (∀ k v, Owns c k → (kvGet c'.work k = some v ↔ HoldsC c ⟨idxs, docs'⟩ k v)) ∧
        Spec.KeysSorted docs' ∧ (∀ e ∈ docs', IdWF e.1 ∧ e.2.objectId = e.1)) ∧
    (∀ e, Spec.insertAll docs ds = .err e → ∃ c', (insertDocs c ds) noFault ctx = (.err e, c')) := by
  obtain ⟨c1, h1, s1⟩ := getMeta_run c ⟨docs.length, idxs⟩ ctx hm
  have hs1 : KSorted c1.work := by rw [s1.1]; exact hs
  have hd1 : DataRep c idxs docs c1.work := by rw [s1.1]; exact hd
  obtain ⟨lok, lerr⟩ := insertLoop_run c hc idxs ds docs c1 hs1 hd1 hsorted hids
  refine ⟨?_, ?_⟩
  · intro docs' h
    obtain ⟨c2, h2, _, hsk, hks, hdr, hfr, hlen, hso, hid⟩ := lok docs' h
    obtain ⟨c3, h3, e3⟩ := set_run' (metaKey c) (.cmeta ⟨(docs.length : Int) + (ds.length : Int), idxs⟩) c2
    have hks3 : KSorted c3.work := by rw [e3.1]; exact ksorted_kvSet _ hks _ _
    refine ⟨c3, ?_, ?_, hks3, ?_, ?_, hso, hid⟩
    · unfold insertDocs
      rw [bind_run _ _ ctx c1 _ h1, bind_run _ _ c1 c2 () h2]
      exact h3
    · rw [e3.2.2, hsk, s1.2.2]
    · intro k hno
      have hne : k ≠ metaKey c := fun e => hno (Or.inl e)
      have hnd : ¬ OwnsD c k := fun h => hno (Or.inr h)
      rw [e3.1, kvGet_kvSet _ _ _ _ hks, if_neg hne, hfr k hnd, s1.1]
    · apply owned_of_parts c idxs docs' c3.work
      · rw [e3.1, kvGet_kvSet _ _ _ _ hks, if_pos rfl, hlen, Int.natCast_add]
      · intro k v ho
        rw [e3.1, kvGet_kvSet _ _ _ _ hks, if_neg (ownsD_ne_meta c k ho)]
        exact hdr k v ho
  · intro e h
    obtain ⟨c2, h2⟩ := lerr e h
    refine ⟨c2, ?_⟩
    unfold insertDocs
    rw [bind_run _ _ ctx c1 _ h1]
    exact bind_run_err' _ _ c1 c2 e h2

theorem collWF_of_parts (idxs : List Bytes) (docs : List (Bytes × Doc)) (hso : Spec.KeysSorted docs)
    (hid : ∀ e ∈ docs, IdWF e.1 ∧ e.2.objectId = e.1) (hcl : ∀ f ∈ idxs, Clean f) (hnd : idxs.Nodup) :
    CollWF ⟨idxs, docs⟩ :=
  ⟨Spec.keysSorted_nodup _ hso, hso, hid, hcl, hnd⟩

/-! ## 3. `Insert` -/

/-- **Insert refines the specification and preserves the invariant**: any batch, any set of
    indexes; duplicate keys and invalid ids give the specification's error and leave the store
    unchanged. -/
theorem insert_refines (s : Spec.State) (σ : KVS) (hw : WF s) (hr : Rep s σ) (c : Bytes) (docs : List Doc)
    (fresh : List Bytes) :
    let r := withTx true (Op.body likeFn fnFam (.insert c docs fresh)) noFault σ
    let sp := Spec.step likeFn fnFam s (.insert c docs fresh)
    r.1 = sp.1 ∧ Rep sp.2 r.2.1 ∧ WF sp.2 := by
  simp only
  have hm := rep_meta s σ hr c
  have hbody : Op.body likeFn fnFam (.insert c docs fresh) =
      (insertDocs c (assignIds docs fresh) >>= fun _ => pure Out.unit) := rfl
  cases hl : Spec.lookup c s with
  | none =>
    rw [hl] at hm
    obtain ⟨c1, h1⟩ := getMeta_run_none' c (ctx0 true σ) hm
    have hb : (Op.body likeFn fnFam (.insert c docs fresh)) noFault (ctx0 true σ) = (.err .collNotExist, c1) := by
      rw [hbody]
      apply bind_run_err'
      unfold insertDocs
      exact bind_run_err' _ _ _ c1 _ h1
    have ht := withTx_err _ σ _ _ hb
    simp only [Spec.step, Spec.withColl, hl]
    exact ⟨ht.1, by rw [ht.2]; exact hr, hw⟩
  | some coll =>
    rw [hl] at hm
    simp only [Option.map_some] at hm
    obtain ⟨hc, hcw⟩ := wf_lookup_clean s hw c coll hl
    have hdata := rep_data s σ hw hr c coll hl
    obtain ⟨dok, derr⟩ := insertDocs_run c hc coll.indexes (assignIds docs fresh) coll.docs (ctx0 true σ)
      hr.1 hm hdata hcw.docsSorted hcw.idsWF
    simp only [Spec.step, Spec.withColl, hl]
    cases hins : Spec.insertAll coll.docs (assignIds docs fresh) with
    | err e =>
      dsimp only
      obtain ⟨c1, h1⟩ := derr e hins
      have hb : (Op.body likeFn fnFam (.insert c docs fresh)) noFault (ctx0 true σ) = (.err e, c1) := by
        rw [hbody]
        exact bind_run_err' _ _ _ c1 _ h1
      have ht := withTx_err _ σ _ _ hb
      exact ⟨ht.1, by rw [ht.2]; exact hr, hw⟩
    | ok docs' =>
      dsimp only
      obtain ⟨c1, h1, hsk, hks, hfr, hown, hso, hid⟩ := dok docs' hins
      have hb : (Op.body likeFn fnFam (.insert c docs fresh)) noFault (ctx0 true σ) = (.ok .unit, c1) := by
        rw [hbody, bind_run _ _ _ c1 _ h1]
        rfl
      have ht := withTx_ok _ σ _ _ hb (by rw [hsk]; rfl)
      rw [ht.1, ht.2]
      refine ⟨rfl, ?_⟩
      exact rep_insert_coll s σ c1.work hw hr c hc ⟨coll.indexes, docs'⟩
        (collWF_of_parts coll.indexes docs' hso hid hcw.fieldsClean hcw.fieldsDistinct) hks hfr hown

/-! ## 4. `ImportCollection` -/

/-- **ImportCollection refines the specification and preserves the invariant**: the collection is
    created and filled in one transaction; an unreadable file, an existing name, a duplicate key or
    an invalid id leave the store unchanged. -/
theorem importDocs_refines (s : Spec.State) (σ : KVS) (hw : WF s) (hr : Rep s σ) (c : Bytes) (hc : Keys.Clean c)
    (docs : Option (List Doc)) (fresh : List Bytes) :
    let r := withTx true (Op.body likeFn fnFam (.importDocs c docs fresh)) noFault σ
    let sp := Spec.step likeFn fnFam s (.importDocs c docs fresh)
    r.1 = sp.1 ∧ Rep sp.2 r.2.1 ∧ WF sp.2 := by
  simp only
  cases docs with
  | none =>
    have hb : (Op.body likeFn fnFam (.importDocs c none fresh)) noFault (ctx0 true σ) =
        (.err .badInput, ctx0 true σ) := rfl
    have ht := withTx_err _ σ _ _ hb
    simp only [Spec.step]
    exact ⟨ht.1, by rw [ht.2]; exact hr, hw⟩
  | some ds =>
    have hbody : Op.body likeFn fnFam (.importDocs c (some ds) fresh) =
        (createColl c >>= fun _ => insertDocs c (assignIds ds fresh) >>= fun _ => pure Out.unit) := rfl
    have hm := rep_meta s σ hr c
    obtain ⟨c1, h1, s1⟩ := get_run (metaKey c) (ctx0 true σ)
    have hw1 : c1.work = σ := s1.1
    cases hl : Spec.lookup c s with
    | some coll =>
      rw [hl] at hm
      simp only [Option.map_some] at hm
      have hcreate : (createColl c) noFault (ctx0 true σ) = (.err .collExist, c1) := by
        unfold createColl
        rw [bind_run _ _ _ c1 _ h1]
        have : kvGet (ctx0 true σ).work (metaKey c) = some (.cmeta ⟨coll.docs.length, coll.indexes⟩) := hm
        rw [this]; rfl
      have hb : (Op.body likeFn fnFam (.importDocs c (some ds) fresh)) noFault (ctx0 true σ) =
          (.err .collExist, c1) := by
        rw [hbody]
        exact bind_run_err' _ _ _ c1 _ hcreate
      have ht := withTx_err _ σ _ _ hb
      simp only [Spec.step, Spec.createWith, hl, Option.isSome_some, if_true]
      exact ⟨ht.1, by rw [ht.2]; exact hr, hw⟩
    | none =>
      rw [hl] at hm
      simp only [Option.map_none] at hm
      obtain ⟨c2, h2, e2⟩ := set_run' (metaKey c) (.cmeta ⟨0, []⟩) c1
      have hcreate : (createColl c) noFault (ctx0 true σ) = (.ok (), c2) := by
        unfold createColl
        rw [bind_run _ _ _ c1 _ h1]
        have : kvGet (ctx0 true σ).work (metaKey c) = none := hm
        rw [this]
        exact h2
      have hw2 : c2.work = kvSet σ (metaKey c) (.cmeta ⟨0, []⟩) := by rw [e2.1, hw1]
      have hs2 : KSorted c2.work := by rw [hw2]; exact ksorted_kvSet _ hr.1 _ _
      have hm2 : kvGet c2.work (metaKey c) = some (.cmeta ⟨([] : List (Bytes × Doc)).length, []⟩) := by
        rw [hw2, kvGet_kvSet _ _ _ _ hr.1, if_pos rfl]
        rfl
      have hd2 : DataRep c [] [] c2.work := by
        intro k v ho
        rw [hw2, kvGet_kvSet _ _ _ _ hr.1, if_neg (ownsD_ne_meta c k ho),
          rep_unowned s σ hw hr c hc hl k (Or.inr ho)]
        constructor
        · intro h; cases h
        · intro h
          exfalso
          cases h with
          | doc id d hl' => simp only [Spec.lookup] at hl'; cases hl'
          | idx f id d hf _ => cases hf
      obtain ⟨dok, derr⟩ := insertDocs_run c hc [] (assignIds ds fresh) [] c2 hs2 hm2 hd2
        List.Pairwise.nil (fun e he => by cases he)
      simp only [Spec.step, Spec.createWith, hl, Option.isSome_none, Bool.false_eq_true, if_false]
      cases hins : Spec.insertAll [] (assignIds ds fresh) with
      | err e =>
        dsimp only
        obtain ⟨c3, h3⟩ := derr e hins
        have hb : (Op.body likeFn fnFam (.importDocs c (some ds) fresh)) noFault (ctx0 true σ) = (.err e, c3) := by
          rw [hbody, bind_run _ _ _ c2 _ hcreate]
          exact bind_run_err' _ _ _ c3 _ h3
        have ht := withTx_err _ σ _ _ hb
        exact ⟨ht.1, by rw [ht.2]; exact hr, hw⟩
      | ok docs' =>
        dsimp only
        obtain ⟨c3, h3, hsk, hks, hfr, hown, hso, hid⟩ := dok docs' hins
        have hb : (Op.body likeFn fnFam (.importDocs c (some ds) fresh)) noFault (ctx0 true σ) = (.ok .unit, c3) := by
          rw [hbody, bind_run _ _ _ c2 _ hcreate, bind_run _ _ _ c3 _ h3]
          rfl
        have ht := withTx_ok _ σ _ _ hb (by rw [hsk, e2.2.2, s1.2.2]; rfl)
        rw [ht.1, ht.2]
        refine ⟨rfl, ?_⟩
        refine rep_insert_coll s σ c3.work hw hr c hc ⟨[], docs'⟩
          (collWF_of_parts [] docs' hso hid (fun f hf => by cases hf) List.nodup_nil) hks ?_ hown
        intro k hno
        have hne : k ≠ metaKey c := fun e => hno (Or.inl e)
        rw [hfr k hno, hw2, kvGet_kvSet _ _ _ _ hr.1, if_neg hne]

end CV

