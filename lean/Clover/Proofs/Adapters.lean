import Clover.Model.Adapters
import Clover.Proofs.KVLaws
/-! # The two cursor adapters meet the cursor contract (C15)

Given the raw cursors of `Model/Adapters.lean` (the stated assumption about bbolt and badger), the
adapters `boltCursor` and `badgerCursor` show, for every target key, exactly what the model's cursors
`seekFwd` / `seekRev` show. -/
namespace CV.Adapters
open CV OC

/-! ## the order at the empty key -/

theorem lexLt_nil_right (x : Bytes) : lexLt x [] = false := by cases x <;> rfl

theorem lexLt_nil_left (x : Bytes) (h : x ≠ []) : lexLt [] x = true := by
  cases x with
  | nil => exact absurd rfl h
  | cons a t => rfl

/-! ## what the raw searches find -/

theorem lowerBound_le (kv : KVS) (k : Bytes) : lowerBound kv k ≤ kv.length := by
  induction kv with
  | nil => exact Nat.le_refl _
  | cons e t ih =>
    simp only [lowerBound, List.length_cons]
    split <;> omega

theorem countLe_le (kv : KVS) (k : Bytes) : countLe kv k ≤ kv.length := by
  induction kv with
  | nil => exact Nat.le_refl _
  | cons e t ih =>
    simp only [countLe, List.length_cons]
    split <;> omega

theorem lowerBound_nil (kv : KVS) : lowerBound kv [] = 0 := by
  cases kv with
  | nil => rfl
  | cons e t => simp only [lowerBound, lexLt_nil_right]; rfl

/-- the entries from the lower bound on are the forward cursor's view -/
theorem drop_lowerBound (kv : KVS) (k : Bytes) : kv.drop (lowerBound kv k) = seekFwd kv k := by
  unfold seekFwd
  induction kv with
  | nil => rfl
  | cons e t ih =>
    simp only [lowerBound, List.dropWhile_cons]
    cases h : lexLt e.1 k with
    | true => simp only [if_true, List.drop_succ_cons]; exact ih
    | false => simp only [Bool.false_eq_true, if_false, List.drop_zero]

/-- the first `countLe` entries, descending, are the reverse cursor's view -/
theorem take_countLe (kv : KVS) (k : Bytes) :
    kv.take (countLe kv k) = kv.takeWhile (fun e => !lexLt k e.1) := by
  induction kv with
  | nil => rfl
  | cons e t ih =>
    simp only [countLe, List.takeWhile_cons]
    cases h : lexLt k e.1 with
    | true => simp only [if_true, List.take_zero, Bool.not_true, Bool.false_eq_true, if_false]
    | false => simp only [Bool.false_eq_true, if_false, List.take_succ_cons, Bool.not_false, if_true, ih]

theorem reverse_take_countLe (kv : KVS) (k : Bytes) : (kv.take (countLe kv k)).reverse = seekRev kv k := by
  unfold seekRev; rw [take_countLe]

/-- every entry before the lower bound has a key below the target, the entry at the lower bound (if
    any) has a key at or above it: `lowerBound` is "the first key ≥ k" of bbolt's `Seek` and of
    badger's forward `Seek` -/
theorem lowerBound_spec (kv : KVS) (k : Bytes) :
    (∀ j e, j < lowerBound kv k → kv[j]? = some e → lexLt e.1 k = true) ∧
    (∀ e, kv[lowerBound kv k]? = some e → lexLt e.1 k = false) := by
  induction kv with
  | nil => exact ⟨fun j e h => absurd h (Nat.not_lt_zero _), fun e h => by simp at h⟩
  | cons a t ih =>
    simp only [lowerBound]
    cases h : lexLt a.1 k with
    | true =>
      simp only [if_true]
      refine ⟨?_, ?_⟩
      · intro j e hj he
        cases j with
        | zero => simp only [List.getElem?_cons_zero, Option.some.injEq] at he; subst he; exact h
        | succ j => rw [List.getElem?_cons_succ] at he; exact ih.1 j e (by omega) he
      · intro e he
        rw [List.getElem?_cons_succ] at he; exact ih.2 e he
    | false =>
      simp only [Bool.false_eq_true, if_false]
      refine ⟨fun j e hj => absurd hj (Nat.not_lt_zero _), ?_⟩
      intro e he
      simp only [List.getElem?_cons_zero, Option.some.injEq] at he; subst he; exact h

theorem countLe_zero_of_lt (t : KVS) (k : Bytes) (h : ∀ x ∈ t, lexLt k x.1 = true) : countLe t k = 0 := by
  cases t with
  | nil => rfl
  | cons x t => simp only [countLe, h x (List.mem_cons_self ..), if_true]

/-- on a sorted store the number of keys ≤ k is the lower bound, plus one on an exact hit -/
theorem countLe_spec (kv : KVS) (hs : KSorted kv) (k : Bytes) :
    countLe kv k = lowerBound kv k + (if (kv[lowerBound kv k]?).map (·.1) = some k then 1 else 0) := by
  induction kv with
  | nil => rfl
  | cons e t ih =>
    have hs' := List.pairwise_cons.1 hs
    rcases Bool.eq_false_or_eq_true (lexLt e.1 k) with h | h
    · simp only [lowerBound, countLe, h, lexLt_asymm e.1 k h, Bool.false_eq_true, if_false, if_true,
        List.getElem?_cons_succ]
      rw [ih hs'.2]; omega
    · simp only [lowerBound, countLe, h, Bool.false_eq_true, if_false, List.getElem?_cons_zero,
        Option.map_some, Option.some.injEq]
      by_cases hek : e.1 = k
      · subst hek
        rw [if_pos rfl, lexLt_irrefl' e.1]
        simp only [Bool.false_eq_true, if_false]
        rw [countLe_zero_of_lt t e.1 hs'.1]
      · rw [if_neg hek]
        rcases lexLt_total e.1 k hek with h' | h'
        · rw [h] at h'; exact absurd h' (by decide)
        · rw [h']; rfl

/-- on a sorted store every entry from index `countLe` on has a key above the target and every earlier
    one a key at or below it: `countLe kv k - 1` is "the last key ≤ k" of badger's reverse `Seek` -/
theorem countLe_sorted_spec (kv : KVS) (hs : KSorted kv) (k : Bytes) :
    (∀ j e, j < countLe kv k → kv[j]? = some e → lexLt k e.1 = false) ∧
    (∀ j e, countLe kv k ≤ j → kv[j]? = some e → lexLt k e.1 = true) := by
  induction kv with
  | nil => exact ⟨fun j e h => absurd h (Nat.not_lt_zero _), fun j e _ h => by simp at h⟩
  | cons a t ih =>
    have hs' := List.pairwise_cons.1 hs
    simp only [countLe]
    cases h : lexLt k a.1 with
    | true =>
      simp only [if_true]
      refine ⟨fun j e hj => absurd hj (Nat.not_lt_zero _), ?_⟩
      intro j e _ he
      cases j with
      | zero => simp only [List.getElem?_cons_zero, Option.some.injEq] at he; subst he; exact h
      | succ j =>
        rw [List.getElem?_cons_succ] at he
        exact lexLt_trans _ _ _ h (hs'.1 e (List.mem_of_getElem? he))
    | false =>
      simp only [Bool.false_eq_true, if_false]
      refine ⟨?_, ?_⟩
      · intro j e hj he
        cases j with
        | zero => simp only [List.getElem?_cons_zero, Option.some.injEq] at he; subst he; exact h
        | succ j => rw [List.getElem?_cons_succ] at he; exact (ih hs'.2).1 j e (by omega) he
      · intro j e hj he
        cases j with
        | zero => omega
        | succ j => rw [List.getElem?_cons_succ] at he; exact (ih hs'.2).2 j e (by omega) he

theorem take_succ_reverse (kv : KVS) (i : Nat) (h : i < kv.length) :
    (kv.take (i + 1)).reverse = kv[i] :: (kv.take i).reverse := by
  rw [List.take_add_one, List.getElem?_eq_getElem h, List.reverse_append]; rfl

/-! ## the bbolt adapter -/

theorem boltLoop_invalid (kv : KVS) (n : Nat) (r : BoltRaw) (f : Bool) :
    boltLoop kv n ⟨r, f, none⟩ = [] := by cases n <;> rfl

theorem boltLoop_valid (kv : KVS) (n : Nat) (r : BoltRaw) (f : Bool) (e : Entry) :
    boltLoop kv (n + 1) ⟨r, f, some e⟩ = e :: boltLoop kv n (BoltCursor.next kv ⟨r, f, some e⟩) := rfl

/-- a forward cursor standing on entry `i` shows the entries from `i` on -/
theorem boltLoop_fwd (kv : KVS) : ∀ (n i : Nat), kv.length ≤ n + i →
    boltLoop kv n ⟨some i, true, kv[i]?⟩ = kv.drop i
  | 0, i, h => by
    rw [List.drop_eq_nil_of_le (by omega)]; rfl
  | n + 1, i, h => by
    cases hi : kv[i]? with
    | none =>
      rw [boltLoop_invalid, List.drop_eq_nil_of_le (List.getElem?_eq_none_iff.1 hi)]
    | some e =>
      obtain ⟨hlt, he⟩ := List.getElem?_eq_some_iff.1 hi
      rw [boltLoop_valid, List.drop_eq_getElem_cons hlt, he]
      congr 1
      simp only [BoltCursor.next, bNext, if_true]
      by_cases h1 : i + 1 < kv.length
      · rw [if_pos h1]
        exact boltLoop_fwd kv n (i + 1) (by omega)
      · rw [if_neg h1, List.drop_eq_nil_of_le (by omega)]
        exact boltLoop_invalid kv n _ _

/-- a reverse cursor standing on entry `i` shows the entries up to `i`, descending -/
theorem boltLoop_rev (kv : KVS) : ∀ (n i : Nat), i < n → i < kv.length →
    boltLoop kv n ⟨some i, false, kv[i]?⟩ = (kv.take (i + 1)).reverse
  | 0, i, h, _ => absurd h (Nat.not_lt_zero _)
  | n + 1, i, h, hlt => by
    rw [List.getElem?_eq_getElem hlt, boltLoop_valid, take_succ_reverse kv i hlt]
    congr 1
    cases i with
    | zero => exact boltLoop_invalid kv n _ _
    | succ j =>
      simp only [BoltCursor.next, bPrev, Bool.false_eq_true, if_false]
      exact boltLoop_rev kv n j (by omega) (by omega)

/-- THEOREM 1a.  The bbolt adapter, forward: for every target key (the empty key, keys below the first
    and above the last entry, exact hits and gaps) the client sees exactly the model's forward cursor.
    (No sortedness is needed here: the raw `Seek` is specified as the first entry with key ≥ k.) -/
theorem boltView_forward (kv : KVS) (k : Bytes) : boltView kv true k = seekFwd kv k := by
  unfold boltView
  simp only [BoltCursor.new, BoltCursor.seek, bSeek, BoltCursor.adjustSeek, Bool.true_or, if_true]
  rw [boltLoop_fwd kv _ _ (by omega), drop_lowerBound]

/-- `adjustSeek` after the raw `Seek` landed on slot `i`: the reverse cursor shows the first `c` entries,
    descending, where `c` is `i`, plus one on an exact hit -/
theorem boltLoop_adjustSeek (kv : KVS) (k : Bytes) (n i c : Nat) (hn : kv.length ≤ n) (hle : i ≤ kv.length)
    (hnil : k = [] → i = 0)
    (hspec : c = i + (if (kv[i]?).map (·.1) = some k then 1 else 0)) :
    boltLoop kv n
      (BoltCursor.adjustSeek kv ⟨some i, false, kv[i]?⟩ ((kv[i]?).map (·.1)) k) = (kv.take c).reverse := by
  simp only [BoltCursor.adjustSeek, Bool.false_or]
  cases hi : kv[i]? with
  | none =>
    have hge := List.getElem?_eq_none_iff.1 hi
    rw [hi] at hspec
    simp only [Option.map_none, reduceCtorEq, if_false, Nat.add_zero] at hspec
    simp only [Option.map_none, bytesEqual, Option.getD_none, Option.isNone_none, if_true, bLast]
    by_cases hk : ([] == k) = true
    · rw [if_pos hk, boltLoop_invalid]
      have : k = [] := (beq_iff_eq.1 hk).symm
      rw [hspec, hnil this]; rfl
    · rw [if_neg hk]
      by_cases h0 : kv.length = 0
      · rw [if_pos h0, boltLoop_invalid, hspec]
        have : i = 0 := by omega
        rw [this]; rfl
      · rw [if_neg h0]
        show boltLoop kv n ⟨some (kv.length - 1), false, kv[kv.length - 1]?⟩ = _
        rw [boltLoop_rev kv _ _ (by omega) (by omega), hspec]
        have : kv.length - 1 + 1 = i := by omega
        rw [this]
  | some e =>
    obtain ⟨hlt, he⟩ := List.getElem?_eq_some_iff.1 hi
    rw [hi] at hspec
    simp only [Option.map_some, Option.some.injEq] at hspec
    simp only [Option.map_some, bytesEqual, Option.getD_some, Option.isNone_some, Bool.false_eq_true, if_false]
    by_cases hk : (e.1 == k) = true
    · rw [if_pos hk]
      rw [if_pos (beq_iff_eq.1 hk)] at hspec
      rw [← hi, boltLoop_rev kv _ _ (by omega) hlt, hspec]
    · rw [if_neg hk]
      rw [if_neg (fun h => hk (beq_iff_eq.2 h))] at hspec
      rw [hspec]
      cases i with
      | zero => exact boltLoop_invalid kv _ _ _
      | succ j =>
        show boltLoop kv n ⟨some j, false, kv[j]?⟩ = _
        rw [boltLoop_rev kv _ _ (by omega) (by omega)]

/-- THEOREM 1b.  The bbolt adapter, reverse (`adjustSeek`): exactly the model's reverse cursor. -/
theorem boltView_reverse (kv : KVS) (hs : KSorted kv) (k : Bytes) : boltView kv false k = seekRev kv k := by
  rw [← reverse_take_countLe]
  exact boltLoop_adjustSeek kv k _ (lowerBound kv k) (countLe kv k) (by omega) (lowerBound_le kv k)
    (fun e => by rw [e]; exact lowerBound_nil kv) (countLe_spec kv hs k)

/-- the fuel of `boltView` is never what ends the loop: any fuel ≥ `kv.length` gives the same view (the
    loop ends because `Valid` turns false) -/
theorem boltLoop_fuel (kv : KVS) (forward : Bool) (k : Bytes) (n : Nat) (hn : kv.length ≤ n) :
    boltLoop kv n ((BoltCursor.new forward).seek kv k) = boltView kv forward k := by
  cases forward with
  | true =>
    unfold boltView
    simp only [BoltCursor.new, BoltCursor.seek, bSeek, BoltCursor.adjustSeek, Bool.true_or, if_true]
    rw [boltLoop_fwd kv _ _ (by omega), boltLoop_fwd kv _ _ (by omega)]
  | false =>
    have h1 := boltLoop_adjustSeek kv k n (lowerBound kv k) _ hn (lowerBound_le kv k)
      (fun e => by rw [e]; exact lowerBound_nil kv) rfl
    have h2 := boltLoop_adjustSeek kv k (kv.length + 1) (lowerBound kv k) _ (by omega) (lowerBound_le kv k)
      (fun e => by rw [e]; exact lowerBound_nil kv) rfl
    exact h1.trans h2.symm

/-! ## the badger adapter -/

theorem badgerLoop_invalid (kv : KVS) (n : Nat) (r rv em : Bool) :
    badgerLoop kv n ⟨⟨r, none⟩, rv, em⟩ = [] := by
  cases n with
  | zero => rfl
  | succ n => cases em <;> rfl

theorem badgerLoop_empty (kv : KVS) (n : Nat) (it : BadgerIt) (rv : Bool) :
    badgerLoop kv n ⟨it, rv, true⟩ = [] := by cases n <;> rfl

theorem badgerLoop_valid (kv : KVS) (n i : Nat) (r rv : Bool) (hlt : i < kv.length) :
    badgerLoop kv (n + 1) ⟨⟨r, some i⟩, rv, false⟩ =
      kv[i] :: badgerLoop kv n ⟨gNext kv ⟨r, some i⟩, rv, false⟩ := by
  simp only [badgerLoop, BadgerCursor.valid, gValid, Option.isSome_some, Bool.not_false, Bool.and_self,
    if_true, BadgerCursor.item, gItem, List.getElem?_eq_getElem hlt, BadgerCursor.next]

/-- a forward iterator standing on entry `i` shows the entries from `i` on -/
theorem badgerLoop_fwd (kv : KVS) (rv : Bool) : ∀ (n i : Nat), i < kv.length → kv.length ≤ n + i →
    badgerLoop kv n ⟨⟨false, some i⟩, rv, false⟩ = kv.drop i
  | 0, i, hlt, h => by omega
  | n + 1, i, hlt, h => by
    rw [badgerLoop_valid kv n i false rv hlt, List.drop_eq_getElem_cons hlt]
    congr 1
    simp only [gNext, Bool.not_false, if_true]
    by_cases h1 : i + 1 < kv.length
    · rw [if_pos h1]
      exact badgerLoop_fwd kv rv n (i + 1) h1 (by omega)
    · rw [if_neg h1, List.drop_eq_nil_of_le (by omega)]
      exact badgerLoop_invalid kv n _ _ _

/-- a reverse iterator standing on entry `i` shows the entries up to `i`, descending -/
theorem badgerLoop_rev (kv : KVS) (rv : Bool) : ∀ (n i : Nat), i < n → i < kv.length →
    badgerLoop kv n ⟨⟨true, some i⟩, rv, false⟩ = (kv.take (i + 1)).reverse
  | 0, i, h, _ => absurd h (Nat.not_lt_zero _)
  | n + 1, i, h, hlt => by
    rw [badgerLoop_valid kv n i true rv hlt, take_succ_reverse kv i hlt]
    congr 1
    cases i with
    | zero => exact badgerLoop_invalid kv n _ _ _
    | succ j =>
      simp only [gNext, Bool.not_true, Bool.false_eq_true, if_false]
      exact badgerLoop_rev kv rv n j (by omega) (by omega)

/-- the raw forward iterator after `Seek(k)`, any fuel ≥ `kv.length` -/
theorem badgerLoop_gSeek_fwd (kv : KVS) (rv : Bool) (k : Bytes) (n : Nat) (hn : kv.length ≤ n) :
    badgerLoop kv n ⟨gSeek kv ⟨false, none⟩ k, rv, false⟩ = seekFwd kv k := by
  rw [← drop_lowerBound]
  simp only [gSeek, gRewind, Bool.not_false, if_true, Bool.false_eq_true, if_false]
  by_cases hk : k.length = 0
  · have hk' : k = [] := List.length_eq_zero_iff.1 hk
    rw [if_pos hk, hk', lowerBound_nil, List.drop_zero]
    by_cases h0 : kv.length = 0
    · rw [if_pos h0, badgerLoop_invalid, List.length_eq_zero_iff.1 h0]
    · rw [if_neg h0, badgerLoop_fwd kv rv _ _ (by omega) (by omega), List.drop_zero]
  · rw [if_neg hk]
    by_cases h1 : lowerBound kv k < kv.length
    · rw [if_pos h1, badgerLoop_fwd kv rv _ _ h1 (by omega)]
    · rw [if_neg h1, badgerLoop_invalid, List.drop_eq_nil_of_le (by omega)]

/-- the raw reverse iterator after `Seek(k)` with a NON-EMPTY key, any fuel ≥ `kv.length` -/
theorem badgerLoop_gSeek_rev (kv : KVS) (rv : Bool) (k : Bytes) (hk : k ≠ []) (n : Nat) (hn : kv.length ≤ n) :
    badgerLoop kv n ⟨gSeek kv ⟨true, none⟩ k, rv, false⟩ = seekRev kv k := by
  rw [← reverse_take_countLe]
  have hk' : ¬ k.length = 0 := fun h => hk (List.length_eq_zero_iff.1 h)
  have hle := countLe_le kv k
  simp only [gSeek, Bool.not_true, Bool.false_eq_true, if_false]
  rw [if_neg hk']
  by_cases h0 : countLe kv k = 0
  · rw [if_pos h0, badgerLoop_invalid, h0]; rfl
  · rw [if_neg h0, badgerLoop_rev kv rv _ _ (by omega) (by omega)]
    have : countLe kv k - 1 + 1 = countLe kv k := by omega
    rw [this]

/-- the raw reverse iterator after `Seek("")` (= `Rewind`): the WHOLE store, descending -/
theorem badgerLoop_gSeek_rev_nil (kv : KVS) (rv : Bool) (n : Nat) (hn : kv.length ≤ n) :
    badgerLoop kv n ⟨gSeek kv ⟨true, none⟩ [], rv, false⟩ = kv.reverse := by
  simp only [gSeek, gRewind, List.length_nil, if_true]
  by_cases h0 : kv.length = 0
  · rw [if_pos h0, badgerLoop_invalid, List.length_eq_zero_iff.1 h0]; rfl
  · rw [if_neg h0, badgerLoop_rev kv rv _ _ (by omega) (by omega)]
    have : kv.length - 1 + 1 = kv.length := by omega
    rw [this, List.take_length]

/-- no key is at or below the empty key, unless it is the empty key itself -/
theorem seekRev_nil (kv : KVS) (hne : ∀ e ∈ kv, e.1 ≠ []) : seekRev kv [] = [] := by
  cases kv with
  | nil => rfl
  | cons e t =>
    unfold seekRev
    rw [List.takeWhile_cons, lexLt_nil_left e.1 (hne e (List.mem_cons_self ..))]
    rfl

/-- THEOREM 2a.  The badger adapter, forward: exactly the model's forward cursor, for every target key
    (the empty key is a `Rewind` to the first entry, and every key is ≥ the empty key). -/
theorem badgerView_forward (kv : KVS) (k : Bytes) : badgerView kv true k = seekFwd kv k :=
  badgerLoop_gSeek_fwd kv false k (kv.length + 1) (by omega)

/-- THEOREM 2b.  The badger adapter, reverse, with the `empty` flag (the repair of F30): exactly the
    model's reverse cursor, for every target key, in a store without the empty key (clover's keys all
    start with a non-empty prefix; badger refuses empty keys). -/
theorem badgerView_reverse (kv : KVS) (hne : ∀ e ∈ kv, e.1 ≠ []) (k : Bytes) :
    badgerView kv false k = seekRev kv k := by
  cases k with
  | nil => rw [seekRev_nil kv hne]; exact badgerLoop_empty kv _ _ _
  | cons a t => exact badgerLoop_gSeek_rev kv true (a :: t) (List.cons_ne_nil a t) (kv.length + 1) (by omega)

/-- for a non-empty target key the hypothesis about the keys of the store is not needed -/
theorem badgerView_reverse_of_ne (kv : KVS) (k : Bytes) (hk : k ≠ []) :
    badgerView kv false k = seekRev kv k := by
  cases k with
  | nil => exact absurd rfl hk
  | cons a t => exact badgerLoop_gSeek_rev kv true (a :: t) hk (kv.length + 1) (by omega)

/-- the hypothesis of `badgerView_reverse` is needed: were the empty key stored, the flag would hide it -/
example : (badgerView [([], .unit), ([1], .unit)] false []).map (·.1) = [] ∧
    (seekRev [([], .unit), ([1], .unit)] []).map (·.1) = [[]] := by decide

/-- the fuel of `badgerView` is never what ends the loop -/
theorem badgerLoop_fuel (kv : KVS) (forward : Bool) (k : Bytes) (n : Nat) (hn : kv.length ≤ n) :
    badgerLoop kv n ((BadgerCursor.new forward).seek kv k) = badgerView kv forward k := by
  cases forward with
  | true =>
    exact (badgerLoop_gSeek_fwd kv false k n hn).trans (badgerLoop_gSeek_fwd kv false k _ (by omega)).symm
  | false =>
    cases k with
    | nil => exact (badgerLoop_empty kv _ _ _).trans (badgerLoop_empty kv _ _ _).symm
    | cons a t =>
      exact (badgerLoop_gSeek_rev kv true (a :: t) (List.cons_ne_nil a t) n hn).trans
        (badgerLoop_gSeek_rev kv true (a :: t) (List.cons_ne_nil a t) _ (by omega)).symm

/-- the client loop never calls the raw `Next` on an invalid iterator (which in Go would dereference
    the nil item): `Next` is only reached after `Valid`, and the adapter's `Valid` implies the raw one -/
theorem badger_valid_raw (c : BadgerCursor) (h : c.valid = true) : gValid c.it = true := by
  simp only [BadgerCursor.valid, Bool.and_eq_true] at h; exact h.2

/-! ## the defect F30: the adapter without the `empty` flag -/

/-- without the flag nothing changes for forward cursors and for non-empty target keys ... -/
theorem badgerViewNoFlag_eq (kv : KVS) (forward : Bool) (k : Bytes) (h : forward = true ∨ k ≠ []) :
    badgerViewNoFlag kv forward k = badgerView kv forward k := by
  cases forward with
  | true => rfl
  | false =>
    cases k with
    | nil => rcases h with h | h
             · exact absurd h (by decide)
             · exact absurd rfl h
    | cons a t => rfl

/-- ... but a reverse `Seek("")` shows the whole store, last entry first, ... -/
theorem badgerViewNoFlag_reverse_nil (kv : KVS) : badgerViewNoFlag kv false [] = kv.reverse :=
  badgerLoop_gSeek_rev_nil kv true (kv.length + 1) (by omega)

/-- ... whereas the contract (no key is ≤ the empty key) is the empty view: in every non-empty store
    the unrepaired adapter violates the reverse-seek contract at the empty key -/
theorem badgerViewNoFlag_defect (kv : KVS) (hne : ∀ e ∈ kv, e.1 ≠ []) (hkv : kv ≠ []) :
    seekRev kv [] = [] ∧ badgerViewNoFlag kv false [] ≠ seekRev kv [] := by
  refine ⟨seekRev_nil kv hne, ?_⟩
  rw [seekRev_nil kv hne, badgerViewNoFlag_reverse_nil]
  intro h
  exact hkv (List.reverse_eq_nil_iff.1 h)

/-! ## in the vocabulary of `Props/C15` (the cursor contract) -/

theorem boltView_forward_contract (kv : KVS) (hs : KSorted kv) (k : Bytes) :
    boltView kv true k = kv.filter (fun e => !lexLt e.1 k) := by
  rw [boltView_forward, seekFwd_eq_filter kv hs k]

theorem boltView_reverse_contract (kv : KVS) (hs : KSorted kv) (k : Bytes) :
    boltView kv false k = (kv.filter (fun e => !lexLt k e.1)).reverse := by
  rw [boltView_reverse kv hs, seekRev_eq_filter kv hs k]

theorem badgerView_forward_contract (kv : KVS) (hs : KSorted kv) (k : Bytes) :
    badgerView kv true k = kv.filter (fun e => !lexLt e.1 k) := by
  rw [badgerView_forward, seekFwd_eq_filter kv hs k]

theorem badgerView_reverse_contract (kv : KVS) (hs : KSorted kv) (hne : ∀ e ∈ kv, e.1 ≠ []) (k : Bytes) :
    badgerView kv false k = (kv.filter (fun e => !lexLt k e.1)).reverse := by
  rw [badgerView_reverse kv hne, seekRev_eq_filter kv hs k]

/-- both backends show the same thing to every client loop -/
theorem adapters_agree (kv : KVS) (hs : KSorted kv) (hne : ∀ e ∈ kv, e.1 ≠ []) (forward : Bool) (k : Bytes) :
    boltView kv forward k = badgerView kv forward k := by
  cases forward with
  | true => rw [boltView_forward, badgerView_forward]
  | false => rw [boltView_reverse kv hs, badgerView_reverse kv hne]

end CV.Adapters
