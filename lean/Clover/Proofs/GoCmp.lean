import Clover.Model.Value
/-! # The comparison the code performs is the comparison by exact value, on the supported domain

`goCmp` converts both numbers to float64 as soon as one of them is a float (like the Go code).
On the domain of C10 — integers beyond 2^53 only among integers, not against floats — this is the
comparison by exact numeric value `cmp nkey`, for which the total-preorder laws are proved. -/
namespace CV
open F64

def Num.isFloat : Num → Bool
  | .float _ => true
  | _ => false

mutual
/-- every number occurring in the value satisfies `P` -/
def AllNum (P : Num → Prop) : Value → Prop
  | .num n => P n
  | .arr xs => AllNumL P xs
  | .obj kvs => AllNumKV P kvs
  | _ => True
def AllNumL (P : Num → Prop) : List Value → Prop
  | [] => True
  | x :: xs => AllNum P x ∧ AllNumL P xs
def AllNumKV (P : Num → Prop) : List (Bytes × Value) → Prop
  | [] => True
  | (_, x) :: xs => AllNum P x ∧ AllNumKV P xs
end

/-- no float anywhere (integers of any magnitude) -/
def NoFloat (v : Value) : Prop := AllNum (fun n => n.isFloat = false) v
/-- every number is exactly representable: integers within ±2^53, non-NaN doubles -/
def NumsOK (v : Value) : Prop := AllNum numOK v

/-- the domain on which `Compare` is a comparison by value -/
def NumPairOK (a b : Num) : Prop := (a.isFloat = false ∧ b.isFloat = false) ∨ (numOK a ∧ numOK b)

theorem cmpInt_scale (a b K : Int) (hK : 0 < K) : cmpInt (a * K) (b * K) = cmpInt a b := by
  unfold cmpInt
  have h1 : a * K < b * K ↔ a < b := by
    constructor
    · intro h; exact Int.lt_of_mul_lt_mul_right h (Int.le_of_lt hK)
    · intro h; exact Int.mul_lt_mul_of_pos_right h hK
  have h2 : a * K = b * K ↔ a = b := by
    constructor
    · intro h; exact Int.eq_of_mul_eq_mul_right (Int.ne_of_gt hK) h
    · intro h; rw [h]
  simp only [h1, h2]

theorem K_pos : (0 : Int) < 2 ^ 1074 := Int.pow_pos (by decide)

theorem cmpInt_ford_fval (x y : Nat) (hx : x < 2^64) (hy : y < 2^64) :
    cmpInt (ford x) (ford y) = cmpInt (fval x) (fval y) := by
  have h1 := ford_lt_iff_fval_lt x y hx hy
  have h2 := ford_lt_iff_fval_lt y x hy hx
  unfold cmpInt
  by_cases a : ford x < ford y
  · simp [a, h1.1 a]
  · by_cases b : ford y < ford x
    · have b' := h2.1 b
      have na : ¬ fval x < fval y := by omega
      have ne1 : ford x ≠ ford y := by omega
      have ne2 : fval x ≠ fval y := by omega
      simp [a, na, ne1, ne2]
    · have e1 : ford x = ford y := by omega
      have na : ¬ fval x < fval y := fun h => a (h1.2 h)
      have nb : ¬ fval y < fval x := fun h => b (h2.2 h)
      have e2 : fval x = fval y := by omega
      simp [e1, e2]

theorem goNumCmp_eq (a b : Num) (h : NumPairOK a b) : goNumCmp a b = cmpInt (nkey a) (nkey b) := by
  have K := K_pos
  cases a with
  | int i =>
    cases b with
    | int j => simp only [goNumCmp, nkey]; exact (cmpInt_scale i j _ K).symm
    | uint u =>
      simp only [goNumCmp, nkey]
      rw [cmpInt_scale i (u : Int) _ K]
      split
      · unfold cmpInt; have : i < (u : Int) := by omega
        simp [this]
      · rfl
    | float y =>
      rcases h with h | h
      · simp [Num.isFloat] at h
      · simp only [goNumCmp]
        rw [nkey_eq_fval _ h.1, nkey_eq_fval _ h.2]
        exact cmpInt_ford_fval _ _ (toF64_lt _ h.1) (toF64_lt _ h.2)
  | uint u =>
    cases b with
    | int j =>
      simp only [goNumCmp, nkey]
      rw [cmpInt_scale (u : Int) j _ K]
      split
      · unfold cmpInt
        have h1 : ¬ (u : Int) < j := by omega
        have h2 : (u : Int) ≠ j := by omega
        simp [h1, h2]
      · rfl
    | uint v => simp only [goNumCmp, nkey]; exact (cmpInt_scale (u : Int) (v : Int) _ K).symm
    | float y =>
      rcases h with h | h
      · simp [Num.isFloat] at h
      · simp only [goNumCmp]
        rw [nkey_eq_fval _ h.1, nkey_eq_fval _ h.2]
        exact cmpInt_ford_fval _ _ (toF64_lt _ h.1) (toF64_lt _ h.2)
  | float x =>
    rcases h with h | h
    · simp [Num.isFloat] at h
    · cases b with
      | int j =>
        simp only [goNumCmp]
        rw [nkey_eq_fval _ h.1, nkey_eq_fval _ h.2]
        exact cmpInt_ford_fval _ _ (toF64_lt _ h.1) (toF64_lt _ h.2)
      | uint v =>
        simp only [goNumCmp]
        rw [nkey_eq_fval _ h.1, nkey_eq_fval _ h.2]
        exact cmpInt_ford_fval _ _ (toF64_lt _ h.1) (toF64_lt _ h.2)
      | float y =>
        simp only [goNumCmp]
        rw [nkey_eq_fval _ h.1, nkey_eq_fval _ h.2]
        exact cmpInt_ford_fval _ _ (toF64_lt _ h.1) (toF64_lt _ h.2)

/-- the pair domain for whole values -/
def PairDom (a b : Value) : Prop := (NoFloat a ∧ NoFloat b) ∨ (NumsOK a ∧ NumsOK b)

mutual
theorem goCmp_eq : (a b : Value) → PairDom a b → goCmp a b = cmp nkey a b
  | .null, b, _ => by cases b <;> simp [goCmp, cmp]
  | .num x, b, h => by
    cases b <;> simp only [goCmp, cmp]
    rename_i y
    apply goNumCmp_eq
    rcases h with h | h
    · exact Or.inl (by simpa [NoFloat, AllNum] using h)
    · exact Or.inr (by simpa [NumsOK, AllNum] using h)
  | .str x, b, _ => by cases b <;> simp [goCmp, cmp]
  | .bool x, b, _ => by cases b <;> simp [goCmp, cmp]
  | .time x _, b, _ => by cases b <;> simp [goCmp, cmp]
  | .arr xs, b, h => by
    cases b <;> simp only [goCmp, cmp]
    rename_i ys
    exact goCmpList_eq xs ys (by
      rcases h with h | h
      · exact Or.inl (by simpa [NoFloat, AllNum] using h)
      · exact Or.inr (by simpa [NumsOK, AllNum] using h))
  | .obj xs, b, h => by
    cases b <;> simp only [goCmp, cmp]
    rename_i ys
    exact goCmpKVs_eq xs ys (by
      rcases h with h | h
      · exact Or.inl (by simpa [NoFloat, AllNum] using h)
      · exact Or.inr (by simpa [NumsOK, AllNum] using h))
theorem goCmpList_eq : (xs ys : List Value) →
    ((AllNumL (fun n => n.isFloat = false) xs ∧ AllNumL (fun n => n.isFloat = false) ys) ∨ (AllNumL numOK xs ∧ AllNumL numOK ys)) →
    goCmpList xs ys = cmpList nkey xs ys
  | [], [], _ => by simp [goCmpList, cmpList]
  | [], _ :: _, _ => by simp [goCmpList, cmpList]
  | _ :: _, [], _ => by simp [goCmpList, cmpList]
  | x :: xs, y :: ys, h => by
    simp only [goCmpList, cmpList]
    have hxy : PairDom x y := by
      rcases h with h | h
      · exact Or.inl ⟨h.1.1, h.2.1⟩
      · exact Or.inr ⟨h.1.1, h.2.1⟩
    have hrest : (AllNumL (fun n => n.isFloat = false) xs ∧ AllNumL (fun n => n.isFloat = false) ys) ∨ (AllNumL numOK xs ∧ AllNumL numOK ys) := by
      rcases h with h | h
      · exact Or.inl ⟨h.1.2, h.2.2⟩
      · exact Or.inr ⟨h.1.2, h.2.2⟩
    rw [goCmp_eq x y hxy, goCmpList_eq xs ys hrest]
theorem goCmpKVs_eq : (xs ys : List (Bytes × Value)) →
    ((AllNumKV (fun n => n.isFloat = false) xs ∧ AllNumKV (fun n => n.isFloat = false) ys) ∨ (AllNumKV numOK xs ∧ AllNumKV numOK ys)) →
    goCmpKVs xs ys = cmpKVs nkey xs ys
  | [], [], _ => by simp [goCmpKVs, cmpKVs]
  | [], _ :: _, _ => by simp [goCmpKVs, cmpKVs]
  | _ :: _, [], _ => by simp [goCmpKVs, cmpKVs]
  | (k1, x) :: xs, (k2, y) :: ys, h => by
    simp only [goCmpKVs, cmpKVs]
    have hxy : PairDom x y := by
      rcases h with h | h
      · exact Or.inl ⟨h.1.1, h.2.1⟩
      · exact Or.inr ⟨h.1.1, h.2.1⟩
    have hrest : (AllNumKV (fun n => n.isFloat = false) xs ∧ AllNumKV (fun n => n.isFloat = false) ys) ∨ (AllNumKV numOK xs ∧ AllNumKV numOK ys) := by
      rcases h with h | h
      · exact Or.inl ⟨h.1.2, h.2.2⟩
      · exact Or.inr ⟨h.1.2, h.2.2⟩
    rw [goCmp_eq x y hxy, goCmpKVs_eq xs ys hrest]
end

end CV

namespace CV
mutual
theorem dom_numsOK : (v : Value) → Dom numOK v → AllNum numOK v
  | .null, _ => by simp [AllNum]
  | .num _, h => by simpa [AllNum, Dom] using h
  | .str _, _ => by simp [AllNum]
  | .bool _, _ => by simp [AllNum]
  | .time _ _, _ => by simp [AllNum]
  | .arr xs, h => by simp only [AllNum]; exact domL_numsOK xs (by simpa [Dom] using h)
  | .obj xs, h => by simp only [AllNum]; exact domKV_numsOK xs (by simpa [Dom] using h)
theorem domL_numsOK : (xs : List Value) → DomL numOK xs → AllNumL numOK xs
  | [], _ => by simp [AllNumL]
  | x :: xs, h => by
    simp only [DomL] at h
    exact ⟨dom_numsOK x h.1, domL_numsOK xs h.2⟩
theorem domKV_numsOK : (xs : List (Bytes × Value)) → DomKV numOK xs → AllNumKV numOK xs
  | [], _ => by simp [AllNumKV]
  | (_, x) :: xs, h => by
    simp only [DomKV] at h
    exact ⟨dom_numsOK x h.1, domKV_numsOK xs h.2⟩
end
end CV
