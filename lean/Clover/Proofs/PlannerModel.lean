import Clover.Model.Planner
import Clover.Proofs.ValueOrd
/-! # The model's planner is the abstract planner of `Pl`: soundness of the derived index range

For a fixed document `d`, the concrete criteria are mapped to the abstract ones (`absCrit`): the
comparison leaves keep their shape, every other leaf becomes an opaque predicate with the truth
value it has on `d`.  Satisfaction, negation push-down and range derivation commute with the
map on the numeric domain, so `Pl.planner_sound` carries over to the model's definitions. -/
namespace CV

/-! ## sub-values of a document stay in the numeric domain -/

theorem lookupKey_allNum (P : Num → Prop) : (d : Doc) → AllNumKV P d → (k : Bytes) → (v : Value) →
    lookupKey k d = some v → AllNum P v
  | [], _, _, _, h => by simp [lookupKey] at h
  | (k', v') :: t, hd, k, v, h => by
    simp only [AllNumKV] at hd
    simp only [lookupKey] at h
    split at h
    · simp only [Option.some.injEq] at h; rw [← h]; exact hd.1
    · exact lookupKey_allNum P t hd.2 k v h

theorem getPath_allNum (P : Num → Prop) : (d : Doc) → AllNumKV P d → (p : List Bytes) → (v : Value) →
    getPath d p = some v → AllNum P v
  | _, _, [], _, h => by simp [getPath] at h
  | d, hd, [k], v, h => lookupKey_allNum P d hd k v (by simpa [getPath] using h)
  | d, hd, k :: k2 :: rest, v, h => by
    simp only [getPath] at h
    split at h
    · rename_i sub heq
      have hs := lookupKey_allNum P d hd k _ heq
      simp only [AllNum] at hs
      exact getPath_allNum P sub hs (k2 :: rest) v h
    · simp at h

theorem get_allNum (P : Num → Prop) (d : Doc) (hd : AllNumKV P d) (f : Bytes) : AllNum P (d.get f) := by
  unfold Doc.get
  cases h : getPath d (splitDots f) with
  | none => simp [AllNum]
  | some v => exact getPath_allNum P d hd _ v h

/-- the range as the abstract planner / scan proofs see it -/
def Range.abs (r : Range) : Pl.Range Value := ⟨r.start, r.stop, r.si, r.ei⟩

/-! ## the abstraction -/

def absDoc (d : Doc) : Pl.Doc Value := ⟨fun f => d.has f, fun f => d.get f⟩

def absOperand : Operand → Pl.Operand Value
  | .ref n => .ref n
  | .lit (.str (c :: cs)) => if c = dollar then .ref (trimDollars (c :: cs)) else .lit (.str (c :: cs))
  | .lit v => .lit v

def absOp : CmpOp → Pl.Op
  | .eq => .eq | .gt => .gt | .ge => .ge | .lt => .lt | .le => .le

variable (likeFn : LikeFn) (fnFam : FnFam)

/-- abstraction relative to the document under test -/
def absCrit (d : Doc) : Crit → Pl.Crit Value
  | .cmp op f x => .cmpLeaf (absOp op) f (absOperand x)
  | .and a b => .and (absCrit d a) (absCrit d b)
  | .or a b => .or (absCrit d a) (absCrit d b)
  | .not a => .not (absCrit d a)
  | c => .other (fun _ => sat likeFn fnFam d c)

theorem deref_abs (d : Doc) (x : Operand) : Pl.deref (absDoc d) (absOperand x) = deref d x := by
  cases x with
  | ref n => rfl
  | lit v =>
    cases v with
    | str s =>
      cases s with
      | nil => rfl
      | cons c cs =>
        simp only [absOperand, deref]
        split <;> rfl
    | _ => rfl

/-- literal operands of a criteria tree are in the numeric domain -/
def OperandOK : Operand → Prop
  | .lit v => NumsOK v
  | .ref _ => True

def CritOK : Crit → Prop
  | .cmp _ _ x => OperandOK x
  | .and a b => CritOK a ∧ CritOK b
  | .or a b => CritOK a ∧ CritOK b
  | .not a => CritOK a
  | _ => True

theorem deref_numsOK (d : Doc) (hd : AllNumKV numOK d) (x : Operand) (hx : OperandOK x) : NumsOK (deref d x) := by
  cases x with
  | ref n => exact get_allNum numOK d hd n
  | lit v =>
    cases v with
    | str s =>
      cases s with
      | nil => simp [deref, NumsOK, AllNum]
      | cons c cs =>
        simp only [deref]
        split
        · exact get_allNum numOK d hd _
        · simp [NumsOK, AllNum]
    | _ => exact hx

theorem goCmp_vord (a b : Value) (ha : NumsOK a) (hb : NumsOK b) : goCmp a b = vord.cmp a b :=
  goCmp_eq a b (Or.inr ⟨ha, hb⟩)

/-- satisfaction commutes with the abstraction (documents and literals in the numeric domain) -/
theorem sat_abs (d : Doc) (hd : AllNumKV numOK d) : (c : Crit) → CritOK c →
    Pl.sat vord (absDoc d) (absCrit likeFn fnFam d c) = sat likeFn fnFam d c
  | .cmp op f x, hc => by
    have hg := goCmp_vord (d.get f) (deref d x) (get_allNum numOK d hd f) (deref_numsOK d hd x hc)
    have hdr : Pl.deref (absDoc d) (absOperand x) = deref d x := deref_abs d x
    cases op <;> simp only [absCrit, absOp, Pl.sat, sat, satCmp, hg] <;> rw [hdr] <;> rfl
  | .and a b, hc => by simp only [absCrit, Pl.sat, sat, sat_abs d hd a hc.1, sat_abs d hd b hc.2]
  | .or a b, hc => by simp only [absCrit, Pl.sat, sat, sat_abs d hd a hc.1, sat_abs d hd b hc.2]
  | .not a, hc => by simp only [absCrit, Pl.sat, sat, sat_abs d hd a hc]
  | .exists_ _, _ => rfl
  | .like _ _, _ => rfl
  | .isIn _ _, _ => rfl
  | .contains _ _, _ => rfl
  | .fn _, _ => rfl


/-! ## negation push-down commutes -/

theorem negLeaf_abs (d : Doc) (op : CmpOp) (f : Bytes) (x : Operand) :
    absCrit likeFn fnFam d (negLeaf op f x) = Pl.negLeaf (absOp op) f (absOperand x) := by
  cases op <;> rfl

mutual
theorem flatten_abs (d : Doc) : (c : Crit) →
    absCrit likeFn fnFam d (flatten c) = Pl.flatten (absCrit likeFn fnFam d c)
  | .cmp _ _ _ => rfl
  | .and a b => by simp only [flatten, absCrit, Pl.flatten, flatten_abs d a, flatten_abs d b]
  | .or a b => by simp only [flatten, absCrit, Pl.flatten, flatten_abs d a, flatten_abs d b]
  | .not a => by simp only [flatten, absCrit, Pl.flatten, flattenNot_abs d a]
  | .exists_ _ => rfl
  | .like _ _ => rfl
  | .isIn _ _ => rfl
  | .contains _ _ => rfl
  | .fn _ => rfl
theorem flattenNot_abs (d : Doc) : (c : Crit) →
    absCrit likeFn fnFam d (flattenNot c) = Pl.flattenNot (absCrit likeFn fnFam d c)
  | .cmp op f x => by simp only [flattenNot, absCrit, Pl.flattenNot, negLeaf_abs]
  | .and a b => by simp only [flattenNot, absCrit, Pl.flattenNot, flattenNot_abs d a, flattenNot_abs d b]
  | .or a b => by simp only [flattenNot, absCrit, Pl.flattenNot, flattenNot_abs d a, flattenNot_abs d b]
  | .not a => rfl
  | .exists_ _ => rfl
  | .like _ _ => rfl
  | .isIn _ _ => rfl
  | .contains _ _ => rfl
  | .fn _ => rfl
end

theorem negLeaf_ok (op : CmpOp) (f : Bytes) (x : Operand) (h : OperandOK x) : CritOK (negLeaf op f x) := by
  cases op <;> simp [negLeaf, CritOK, h]

mutual
theorem flatten_ok : (c : Crit) → CritOK c → CritOK (flatten c)
  | .cmp _ _ _, h => h
  | .and a b, h => ⟨flatten_ok a h.1, flatten_ok b h.2⟩
  | .or a b, h => ⟨flatten_ok a h.1, flatten_ok b h.2⟩
  | .not a, h => flattenNot_ok a h
  | .exists_ _, _ => trivial
  | .like _ _, _ => trivial
  | .isIn _ _, _ => trivial
  | .contains _ _, _ => trivial
  | .fn _, _ => trivial
theorem flattenNot_ok : (c : Crit) → CritOK c → CritOK (flattenNot c)
  | .cmp op f x, h => negLeaf_ok op f x h
  | .and a b, h => ⟨flattenNot_ok a h.1, flattenNot_ok b h.2⟩
  | .or a b, h => ⟨flattenNot_ok a h.1, flattenNot_ok b h.2⟩
  | .not a, h => h
  | .exists_ _, _ => trivial
  | .like _ _, _ => trivial
  | .isIn _ _, _ => trivial
  | .contains _ _, _ => trivial
  | .fn _, _ => trivial
end

/-! ## range derivation commutes -/

def RangeOK (r : Range) : Prop := NumsOK r.start ∧ NumsOK r.stop

theorem numsOK_null : NumsOK .null := by simp [NumsOK, AllNum]

theorem intersect_abs (r r2 : Range) (h1 : RangeOK r) (h2 : RangeOK r2) :
    (r.intersect r2).abs = r.abs.intersect vord r2.abs ∧ RangeOK (r.intersect r2) := by
  have e1 : goCmp r2.start r.start = vord.cmp r2.start r.start := goCmp_vord _ _ h2.1 h1.1
  have e2 : goCmp r2.stop r.stop = vord.cmp r2.stop r.stop := goCmp_vord _ _ h2.2 h1.2
  constructor
  · simp only [Range.intersect, Range.abs, Pl.Range.intersect, interStart, interStop, Pl.interStart, Pl.interStop, e1, e2]
    rfl
  · unfold RangeOK Range.intersect interStart interStop
    constructor
    · simp only; split
      · exact h2.1
      · split
        · exact h1.1
        · split
          · exact h2.1
          · exact h1.1
    · simp only; split
      · exact h2.2
      · split
        · exact h1.2
        · split
          · exact h2.2
          · exact h1.2

theorem toRange_abs (op : CmpOp) (x : Operand) (hx : OperandOK x) :
    (toRange op x).map Range.abs = Pl.toRange vord (absOp op) (absOperand x) ∧
    (∀ r, toRange op x = some r → RangeOK r) := by
  cases x with
  | ref n => exact ⟨rfl, fun r h => by simp [toRange] at h⟩
  | lit v =>
    have hnull := numsOK_null
    have hv : NumsOK v := hx
    cases v with
    | str s =>
      cases s with
      | nil =>
        constructor
        · cases op <;> rfl
        · intro r h; cases op <;> simp [toRange, Operand.isRef, Value.isNull] at h <;> (rw [← h]; exact ⟨by first | exact hv | exact hnull, by first | exact hv | exact hnull⟩)
      | cons ch cs =>
        by_cases hd : ch = dollar
        · subst hd
          constructor
          · simp [toRange, Operand.isRef, absOperand, Pl.toRange]
          · intro r h; simp [toRange, Operand.isRef] at h
        · constructor
          · cases op <;> simp [toRange, Operand.isRef, absOperand, Pl.toRange, hd, Value.isNull, absOp, vord, Range.abs]
          · intro r h
            cases op <;> simp [toRange, Operand.isRef, hd, Value.isNull] at h <;>
              (rw [← h]; exact ⟨by first | exact hv | exact hnull, by first | exact hv | exact hnull⟩)
    | null =>
      constructor
      · cases op <;> simp [toRange, Operand.isRef, absOperand, Pl.toRange, Value.isNull, absOp, vord, Range.abs]
      · intro r h
        cases op <;> simp [toRange, Operand.isRef, Value.isNull] at h
        rw [← h]; exact ⟨hnull, hnull⟩
    | num n =>
      constructor
      · cases op <;> simp [toRange, Operand.isRef, absOperand, Pl.toRange, Value.isNull, absOp, vord, Range.abs]
      · intro r h
        cases op <;> simp [toRange, Operand.isRef, Value.isNull] at h <;>
          (rw [← h]; exact ⟨by first | exact hv | exact hnull, by first | exact hv | exact hnull⟩)
    | bool b =>
      constructor
      · cases op <;> simp [toRange, Operand.isRef, absOperand, Pl.toRange, Value.isNull, absOp, vord, Range.abs]
      · intro r h
        cases op <;> simp [toRange, Operand.isRef, Value.isNull] at h <;>
          (rw [← h]; exact ⟨by first | exact hv | exact hnull, by first | exact hv | exact hnull⟩)
    | time ns off =>
      constructor
      · cases op <;> simp [toRange, Operand.isRef, absOperand, Pl.toRange, Value.isNull, absOp, vord, Range.abs]
      · intro r h
        cases op <;> simp [toRange, Operand.isRef, Value.isNull] at h <;>
          (rw [← h]; exact ⟨by first | exact hv | exact hnull, by first | exact hv | exact hnull⟩)
    | arr xs =>
      constructor
      · cases op <;> simp [toRange, Operand.isRef, absOperand, Pl.toRange, Value.isNull, absOp, vord, Range.abs]
      · intro r h
        cases op <;> simp [toRange, Operand.isRef, Value.isNull] at h <;>
          (rw [← h]; exact ⟨by first | exact hv | exact hnull, by first | exact hv | exact hnull⟩)
    | obj kvs =>
      constructor
      · cases op <;> simp [toRange, Operand.isRef, absOperand, Pl.toRange, Value.isNull, absOp, vord, Range.abs]
      · intro r h
        cases op <;> simp [toRange, Operand.isRef, Value.isNull] at h <;>
          (rw [← h]; exact ⟨by first | exact hv | exact hnull, by first | exact hv | exact hnull⟩)


theorem mergeAnd_abs (ra rb : Option Range) (ha : ∀ r, ra = some r → RangeOK r) (hb : ∀ r, rb = some r → RangeOK r) :
    (mergeAnd ra rb).map Range.abs = Pl.mergeAnd vord (ra.map Range.abs) (rb.map Range.abs) ∧
    (∀ r, mergeAnd ra rb = some r → RangeOK r) := by
  cases ra with
  | none =>
    cases rb with
    | none => exact ⟨rfl, fun r h => by simp [mergeAnd] at h⟩
    | some r2 => exact ⟨rfl, fun r h => by simp only [mergeAnd, Option.some.injEq] at h; rw [← h]; exact hb r2 rfl⟩
  | some r1 =>
    cases rb with
    | none => exact ⟨rfl, fun r h => by simp only [mergeAnd, Option.some.injEq] at h; rw [← h]; exact ha r1 rfl⟩
    | some r2 =>
      have := intersect_abs r1 r2 (ha r1 rfl) (hb r2 rfl)
      constructor
      · simp only [mergeAnd, Option.map_some, Pl.mergeAnd, this.1]
      · intro r h; simp only [mergeAnd, Option.some.injEq] at h; rw [← h]; exact this.2

theorem fieldRange_abs (d : Doc) (f : Bytes) : (c : Crit) → CritOK c →
    (fieldRange f c).map Range.abs = Pl.fieldRange vord f (absCrit likeFn fnFam d c) ∧
    (∀ r, fieldRange f c = some r → RangeOK r)
  | .cmp op g x, hc => by
    simp only [fieldRange, absCrit, Pl.fieldRange]
    by_cases hg : g = f
    · simp only [hg, if_true]; exact toRange_abs op x hc
    · simp only [hg, if_false]; exact ⟨rfl, fun r h => by simp at h⟩
  | .and a b, hc => by
    have ha := fieldRange_abs d f a hc.1
    have hb := fieldRange_abs d f b hc.2
    have := mergeAnd_abs (fieldRange f a) (fieldRange f b) ha.2 hb.2
    simp only [fieldRange, absCrit, Pl.fieldRange]
    rw [← ha.1, ← hb.1]
    exact this
  | .or _ _, _ => ⟨rfl, fun r h => by simp [fieldRange] at h⟩
  | .not _, _ => ⟨rfl, fun r h => by simp [fieldRange] at h⟩
  | .exists_ _, _ => ⟨rfl, fun r h => by simp [fieldRange] at h⟩
  | .like _ _, _ => ⟨rfl, fun r h => by simp [fieldRange] at h⟩
  | .isIn _ _, _ => ⟨rfl, fun r h => by simp [fieldRange] at h⟩
  | .contains _ _, _ => ⟨rfl, fun r h => by simp [fieldRange] at h⟩
  | .fn _, _ => ⟨rfl, fun r h => by simp [fieldRange] at h⟩

/-- **Planner soundness on the model**: a document that satisfies the criteria passes the bound
    tests of the range the planner derives for any field — after the negation push-down, with no
    range from a disjunction, a residual negation, a field reference or a nil ordering literal. -/
theorem planner_sound_model (d : Doc) (hd : AllNumKV numOK d) (c : Crit) (hc : CritOK c) (f : Bytes)
    (h : sat likeFn fnFam d c = true) :
    ∀ r, fieldRange f (flatten c) = some r → Pl.inScan vord r.abs (d.get f) = true := by
  intro r hr
  have hs := Pl.planner_sound vord (absDoc d) f (absCrit likeFn fnFam d c) (by rw [sat_abs likeFn fnFam d hd c hc]; exact h)
  rw [← flatten_abs likeFn fnFam d c] at hs
  rw [← (fieldRange_abs likeFn fnFam d f (flatten c) (flatten_ok c hc)).1, hr] at hs
  exact hs

/-- The single index query of a plan scans `fieldRange f (flatten c)` for the selected field. -/
theorem indexQuery_range (indexed : List Bytes) (c : Crit) (f : Bytes) (r : Range)
    (h : indexQuery indexed (some c) = some (f, r)) : fieldRange f (flatten c) = some r := by
  unfold indexQuery at h
  simp only at h
  split at h
  · simp at h
  · split at h
    · simp at h
    · rename_i g rest heq
      cases hfr : fieldRange g (flatten c) with
      | none => simp [hfr] at h
      | some r' =>
        simp only [hfr, Option.map_some, Option.some.injEq, Prod.mk.injEq] at h
        rw [← h.1, ← h.2]; exact hfr


end CV
