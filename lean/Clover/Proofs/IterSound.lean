import Clover.Proofs.IterRun
import Clover.Proofs.RefinePoint
import Clover.Proofs.ScanExact
/-! # Whatever plan is chosen, the candidates are live documents, each at most once

This is the half of index transparency that needs no assumption on the values: an index scan
walks stored entries of that index only, every stored entry belongs to a live document (`Rep`),
and no document has two entries in one index.  (The other half — no satisfying document is
missed — is planner soundness + scan exactness, `Props/C02`.) -/
namespace CV
open OC Keys StoreM

variable (likeFn : LikeFn) (fnFam : FnFam)

theorem mem_kvGet : (w : KVS) → KSorted w → (e : Bytes × SVal) → e ∈ w → kvGet w e.1 = some e.2
  | [], _, _, h => by simp at h
  | (k0, v0) :: t, hs, e, h => by
    have hs' := List.pairwise_cons.1 hs
    simp only [kvGet]
    rcases List.mem_cons.1 h with h1 | h1
    · rw [h1]; simp
    · have : e.1 ≠ k0 := fun x => by
        have := hs'.1 e h1
        rw [x, lexLt_irrefl'] at this
        simp at this
      simp only [this, if_false]
      exact mem_kvGet t hs'.2 e h1

theorem ksorted_keys_nodup (w : KVS) (hs : KSorted w) : (w.map (·.1)).Nodup := by
  induction w with
  | nil => simp
  | cons e t ih =>
    have hs' := List.pairwise_cons.1 hs
    simp only [List.map, List.nodup_cons]
    refine ⟨?_, ih hs'.2⟩
    intro hm
    obtain ⟨x, hx, ex⟩ := List.mem_map.1 hm
    have := hs'.1 x hx
    rw [ex, lexLt_irrefl'] at this
    simp at this

/-- the fields a plan may scan are catalogued -/
def Source.fieldIn (idxs : List Bytes) : Source → Prop
  | .full => True
  | .idxRange f _ _ => f ∈ idxs
  | .idxAll f _ => f ∈ idxs

theorem indexSelect_mem (indexed : List Bytes) : (c : Crit) → ∀ f ∈ indexSelect indexed c, f ∈ indexed
  | .and a b => by
    intro f hf
    simp only [indexSelect] at hf
    split at hf
    · exact indexSelect_mem indexed a f hf
    · exact indexSelect_mem indexed b f hf
  | .or a b => by
    intro f hf
    simp only [indexSelect] at hf
    split at hf
    · simp at hf
    · rcases List.mem_append.1 hf with h | h
      · exact indexSelect_mem indexed a f h
      · exact indexSelect_mem indexed b f h
  | .not _ => by intro f hf; simp [indexSelect] at hf
  | .exists_ g => by
    intro f hf
    simp only [indexSelect, Crit.leafField] at hf
    split at hf
    · rename_i h; simp only [List.mem_singleton] at hf; rw [hf]; simpa using h
    · simp at hf
  | .cmp _ g _ => by
    intro f hf
    simp only [indexSelect, Crit.leafField] at hf
    split at hf
    · rename_i h; simp only [List.mem_singleton] at hf; rw [hf]; simpa using h
    · simp at hf
  | .like g _ => by
    intro f hf
    simp only [indexSelect, Crit.leafField] at hf
    split at hf
    · rename_i h; simp only [List.mem_singleton] at hf; rw [hf]; simpa using h
    · simp at hf
  | .isIn g _ => by
    intro f hf
    simp only [indexSelect, Crit.leafField] at hf
    split at hf
    · rename_i h; simp only [List.mem_singleton] at hf; rw [hf]; simpa using h
    · simp at hf
  | .contains g _ => by
    intro f hf
    simp only [indexSelect, Crit.leafField] at hf
    split at hf
    · rename_i h; simp only [List.mem_singleton] at hf; rw [hf]; simpa using h
    · simp at hf
  | .fn _ => by
    intro f hf
    simp only [indexSelect, Crit.leafField] at hf
    split at hf
    · rename_i h; simp only [List.mem_singleton] at hf; rw [hf]; simpa using h
    · simp at hf

theorem indexQuery_mem (indexed : List Bytes) (crit : Option Crit) (f : Bytes) (r : Range)
    (h : indexQuery indexed crit = some (f, r)) : f ∈ indexed := by
  unfold indexQuery at h
  cases crit with
  | none => simp at h
  | some c =>
    simp only at h
    split at h
    · simp at h
    · split at h
      · simp at h
      · rename_i g rest heq
        cases hfr : fieldRange g (flatten c) with
        | none => simp [hfr] at h
        | some r' =>
          simp only [hfr, Option.map_some, Option.some.injEq, Prod.mk.injEq] at h
          rw [← h.1]
          exact indexSelect_mem indexed (flatten c) g (by rw [heq]; simp)

theorem choosePlan_fieldIn (idxs : List Bytes) (q : Query) : (choosePlan idxs q).1.fieldIn idxs := by
  unfold choosePlan
  cases hq : indexQuery idxs q.crit with
  | some p =>
    obtain ⟨f, r⟩ := p
    have hf := indexQuery_mem idxs q.crit f r hq
    simp only
    split
    · split <;> exact hf
    · exact hf
  | none =>
    simp only
    split
    · split
      · rename_i h; simpa [Source.fieldIn] using h
      · trivial
    · trivial

/-! ## the scanned entries -/

/-- the entries an index scan walks over: a sublist of the store, possibly reversed, all under the prefix -/
def ScanOf (w : KVS) (pfx : Bytes) (L : KVS) : Prop :=
  (L.Sublist w ∨ L.reverse.Sublist w) ∧ ∀ e ∈ L, isPrefix pfx e.1 = true

theorem scanOf_takeWhile (w : KVS) (pfx : Bytes) (stop : Bytes → Bool) (items : KVS)
    (h : items.Sublist w ∨ items.reverse.Sublist w) :
    ScanOf w pfx (items.takeWhile (fun e => isPrefix pfx e.1 && !stop (stripId e.1))) := by
  constructor
  · rcases h with h | h
    · exact Or.inl ((List.takeWhile_sublist _).trans h)
    · exact Or.inr (((List.takeWhile_sublist _).reverse).trans h)
  · intro e he
    have hall := @List.all_takeWhile _ (fun e : Bytes × SVal => isPrefix pfx e.1 && !stop (stripId e.1)) items
    have := List.all_eq_true.1 hall e he
    simp only [Bool.and_eq_true] at this
    exact this.1

theorem seekFwd_sub (w : KVS) (k : Bytes) : (seekFwd w k).Sublist w := List.dropWhile_sublist _
theorem seekRev_sub (w : KVS) (k : Bytes) : (seekRev w k).reverse.Sublist w := by
  unfold seekRev; rw [List.reverse_reverse]; exact List.takeWhile_sublist _

theorem skipEqP_sub (b : Bytes) (items w : KVS) (h : items.Sublist w ∨ items.reverse.Sublist w) :
    (skipEqP b items).Sublist w ∨ (skipEqP b items).reverse.Sublist w := by
  rcases h with h | h
  · exact Or.inl ((List.dropWhile_sublist _).trans h)
  · exact Or.inr (((List.dropWhile_sublist _).reverse).trans h)

/-- the ids a range scan yields are those of scanned entries -/
theorem iterateRangeP_scanOf (w : KVS) (c f : Bytes) (r : Range) (rev : Bool) :
    ∃ L, ScanOf w (idxPrefix c f) L ∧ iterateRangeP w c f r rev = L.map (fun e => extractId e.1) := by
  unfold iterateRangeP
  by_cases he : r.isEmpty = true
  · exact ⟨[], ⟨Or.inl (List.nil_sublist _), by simp⟩, by simp [he]⟩
  · simp only [he, Bool.false_eq_true, if_false]
    have hitems : (rangePlan w c f r rev).items.Sublist w ∨ (rangePlan w c f r rev).items.reverse.Sublist w := by
      unfold rangePlan
      cases rev with
      | false => exact Or.inl (seekFwd_sub w _)
      | true => exact Or.inr (seekRev_sub w _)
    cases hsk : (rangePlan w c f r rev).skip with
    | some b => exact ⟨_, scanOf_takeWhile w _ _ _ (skipEqP_sub b _ w hitems), rfl⟩
    | none => exact ⟨_, scanOf_takeWhile w _ _ _ hitems, rfl⟩

theorem iterateAllP_scanOf (w : KVS) (c f : Bytes) (rev : Bool) :
    ∃ L, ScanOf w (idxPrefix c f) L ∧ iterateAllP w c f rev = L.map (fun e => extractId e.1) := by
  unfold iterateAllP
  dsimp only [scanP]
  refine ⟨_, scanOf_takeWhile w _ (fun _ => false) _ ?_, rfl⟩
  cases rev with
  | false => exact Or.inl (seekFwd_sub w _)
  | true => exact Or.inr (seekRev_sub w _)

theorem scanOf_mem (w : KVS) (pfx : Bytes) (L : KVS) (h : ScanOf w pfx L) : ∀ e ∈ L, e ∈ w := by
  intro e he
  rcases h.1 with h1 | h1
  · exact h1.subset he
  · exact h1.subset (List.mem_reverse.2 he)

theorem scanOf_nodup (w : KVS) (hs : KSorted w) (pfx : Bytes) (L : KVS) (h : ScanOf w pfx L) : (L.map (·.1)).Nodup := by
  have hw := ksorted_keys_nodup w hs
  rcases h.1 with h1 | h1
  · exact (h1.map _).nodup hw
  · have := (h1.map (·.1)).nodup hw
    rw [List.map_reverse] at this
    exact (List.pairwise_reverse.1 this).imp Ne.symm

/-! ## every stored entry of a catalogued index belongs to a live document -/

theorem entry_live (s : Spec.State) (w : KVS) (hw : WF s) (hr : Rep s w) (c : Bytes) (coll : Spec.Coll)
    (hl : Spec.lookup c s = some coll) (f : Bytes) (hf : f ∈ coll.indexes) (e : Bytes × SVal) (he : e ∈ w)
    (hp : isPrefix (idxPrefix c f) e.1 = true) :
    ∃ id d, Spec.lookup id coll.docs = some d ∧ e.1 = CV.idxKey c f (d.get f) id := by
  obtain ⟨hc, hcw⟩ := wf_lookup_clean s hw c coll hl
  obtain ⟨k, v⟩ := e
  simp only at hp ⊢
  obtain ⟨rest, hk⟩ := (isPrefix_iff _ _).1 hp
  have hkf : KeyField c k f := ⟨rest, hk⟩
  have hg : kvGet w k = some v := mem_kvGet w hr.1 (k, v) he
  have hown : Owns c k := Or.inr (Or.inr ⟨f, rest, hk⟩)
  have hh := (rep_owned s w hw hr c coll hl k v hown).1 hg
  have hd : HoldsD c ⟨coll.indexes, coll.docs⟩ k v := (parts_of_owned c coll w
    (fun k v ho => rep_owned s w hw hr c coll hl k v ho)).2 k v (Or.inr ⟨f, rest, hk⟩) |>.1 hg
  obtain ⟨_, id, d, hld, ek, _⟩ := (holdsD_field c hc coll.indexes hcw.fieldsClean coll.docs f (hcw.fieldsClean f hf) k v hkf).1 hd
  exact ⟨id, d, hld, ek⟩

theorem extractId_idxKey (c f : Bytes) (v : Value) (id : Bytes) (h : id.length = 36) :
    extractId (CV.idxKey c f v id) = id := extractId_ekey c f (v, id) h

theorem docAt_live (s : Spec.State) (w : KVS) (hw : WF s) (hr : Rep s w) (c : Bytes) (coll : Spec.Coll)
    (hl : Spec.lookup c s = some coll) (id : Bytes) (d : Doc) (hld : Spec.lookup id coll.docs = some d) :
    docAt w c id = some d := by
  obtain ⟨hc, _⟩ := wf_lookup_clean s hw c coll hl
  unfold docAt
  rw [hr.2, assoc_doc c id hc s hw.namesClean hw.namesDistinct, hl]
  simp [hld]

/-- the documents an index scan fetches: live, and no id twice -/
theorem scan_docs_live (s : Spec.State) (w : KVS) (hw : WF s) (hr : Rep s w) (c : Bytes) (coll : Spec.Coll)
    (hl : Spec.lookup c s = some coll) (f : Bytes) (hf : f ∈ coll.indexes) :
    (L : KVS) → (∀ e ∈ L, e ∈ w ∧ isPrefix (idxPrefix c f) e.1 = true) → (L.map (·.1)).Nodup →
    let ds := (L.map (fun e => extractId e.1)).filterMap (docAt w c)
    (∀ d ∈ ds, Spec.lookup d.objectId coll.docs = some d) ∧ (ds.map Doc.objectId).Nodup ∧
      (∀ d ∈ ds, ∃ e ∈ L, e.1 = CV.idxKey c f (d.get f) d.objectId)
  | [], _, _ => by simp
  | e :: t, hL, hnd => by
    obtain ⟨_, hcw⟩ := wf_lookup_clean s hw c coll hl
    have ih := scan_docs_live s w hw hr c coll hl f hf t (fun x hx => hL x (List.mem_cons_of_mem _ hx))
      (by simp only [List.map, List.nodup_cons] at hnd; exact hnd.2)
    obtain ⟨id, d, hld, ek⟩ := entry_live s w hw hr c coll hl f hf e (hL e (by simp)).1 (hL e (by simp)).2
    obtain ⟨hidwf, hdid⟩ := collWF_lookup coll hcw id d hld
    have hx : extractId e.1 = id := by rw [ek]; exact extractId_idxKey c f _ id hidwf.1
    have hda := docAt_live s w hw hr c coll hl id d hld
    simp only [List.map, List.filterMap, hx, hda]
    simp only at ih
    refine ⟨?_, ?_, ?_⟩
    · intro d' hd'
      rcases List.mem_cons.1 hd' with h | h
      · rw [h, hdid]; exact hld
      · exact ih.1 d' h
    · simp only [List.map, List.nodup_cons]
      refine ⟨?_, ih.2.1⟩
      intro hm
      obtain ⟨d', hd', e'⟩ := List.mem_map.1 hm
      obtain ⟨x, hxt, hxk⟩ := ih.2.2 d' hd'
      have hl' := ih.1 d' hd'
      rw [e', hdid] at hl'
      rw [hld] at hl'
      simp only [Option.some.injEq] at hl'
      subst hl'
      rw [e', hdid, ← ek] at hxk
      simp only [List.map, List.nodup_cons] at hnd
      exact hnd.1 (List.mem_map.2 ⟨x, hxt, hxk⟩)
    · intro d' hd'
      rcases List.mem_cons.1 hd' with h | h
      · exact ⟨e, by simp, by rw [h, hdid]; exact ek⟩
      · obtain ⟨x, hxt, hxk⟩ := ih.2.2 d' h
        exact ⟨x, List.mem_cons_of_mem _ hxt, hxk⟩

/-- **The candidates of any plan are live documents of the collection, each at most once.** -/
theorem candidates_live (s : Spec.State) (w : KVS) (hw : WF s) (hr : Rep s w) (c : Bytes) (coll : Spec.Coll)
    (hl : Spec.lookup c s = some coll) (src : Source) (hsrc : src.fieldIn coll.indexes) :
    let ds := candidates w c (coll.docs.map (·.2)) src
    (∀ d ∈ ds, Spec.lookup d.objectId coll.docs = some d) ∧ (ds.map Doc.objectId).Nodup := by
  obtain ⟨_, hcw⟩ := wf_lookup_clean s hw c coll hl
  cases src with
  | full =>
    simp only [candidates]
    have hobj : ∀ e ∈ coll.docs, e.2.objectId = e.1 := fun e he => (hcw.idsWF e he).2
    constructor
    · intro d hd
      obtain ⟨e, he, ed⟩ := List.mem_map.1 hd
      rw [← ed, hobj e he]
      exact mem_lookup_some e.1 e.2 _ hcw.idsDistinct he
    · rw [List.map_map]
      have : coll.docs.map (Doc.objectId ∘ fun x => x.2) = coll.docs.map (·.1) :=
        List.map_congr_left (fun e he => hobj e he)
      rw [this]; exact hcw.idsDistinct
  | idxRange f r rev =>
    obtain ⟨L, hL, hids⟩ := iterateRangeP_scanOf w c f r rev
    simp only [candidates, hids]
    have := scan_docs_live s w hw hr c coll hl f hsrc L (fun e he => ⟨scanOf_mem w _ L hL e he, hL.2 e he⟩)
      (scanOf_nodup w hr.1 _ L hL)
    exact ⟨this.1, this.2.1⟩
  | idxAll f rev =>
    obtain ⟨L, hL, hids⟩ := iterateAllP_scanOf w c f rev
    simp only [candidates, hids]
    have := scan_docs_live s w hw hr c coll hl f hsrc L (fun e he => ⟨scanOf_mem w _ L hL e he, hL.2 e he⟩)
      (scanOf_nodup w hr.1 _ L hL)
    exact ⟨this.1, this.2.1⟩

/-- … and so is every selection `iterateDocs` returns to a bulk write (consumer that never stops):
    a list of live documents with distinct ids -/
theorem selection_live (q : Query) (ns : Bool) (coll : Spec.Coll) (cands : List Doc)
    (h1 : ∀ d ∈ cands, Spec.lookup d.objectId coll.docs = some d) (h2 : (cands.map Doc.objectId).Nodup) :
    let sel := finishPipe q none ns (foldStop (onDocOf likeFn fnFam q none ns) {} cands)
    (∀ d ∈ sel, Spec.lookup d.objectId coll.docs = some d) ∧ (sel.map Doc.objectId).Nodup := by
  intro sel
  have hsel : sel = _ := pipeline_none likeFn fnFam q ns cands
  have hfl : (cands.filter (fun d => satOpt likeFn fnFam d q.crit)).Sublist cands := List.filter_sublist
  have hwin : ∀ l : List Doc, (Spec.window q.skip q.limit l).Sublist l := by
    intro l
    unfold Spec.window
    split
    · exact List.drop_sublist _ _
    · exact (List.take_sublist _ _).trans (List.drop_sublist _ _)
  rw [hsel]
  cases ns with
  | false =>
    simp only [Bool.false_eq_true, if_false]
    have hsub := (hwin _).trans hfl
    exact ⟨fun d hd => h1 d (hsub.subset hd), (hsub.map _).nodup h2⟩
  | true =>
    simp only [if_true]
    have hperm : (sortDocs q.sort (cands.filter (fun d => satOpt likeFn fnFam d q.crit))).Perm
        (cands.filter (fun d => satOpt likeFn fnFam d q.crit)) := List.mergeSort_perm _ _
    constructor
    · intro d hd
      exact h1 d (hfl.subset ((hperm.mem_iff).1 ((hwin _).subset hd)))
    · have hnd : ((sortDocs q.sort (cands.filter (fun d => satOpt likeFn fnFam d q.crit))).map Doc.objectId).Nodup :=
        ((hperm.map _).nodup_iff).2 ((hfl.map _).nodup h2)
      exact ((hwin _).map _).nodup hnd

end CV
