import Clover.Proofs.RefineStep
import Clover.Proofs.BulkExact
import Clover.Proofs.ReadsExact
import Clover.Proofs.SortClasses
import Clover.Proofs.CopyAnyPlan
import Clover.Proofs.TotalOrder
/-! # Refinement of STATES along histories, whatever plan serves the queries

`refine_history` (RefineStep.lean) is restricted to histories whose query-carrying calls are served
by a full scan, because the ANSWER of an index-served query may be ordered differently from the
specification's representative.  The STATE is not subject to that restriction:

* a read changes neither the store nor the specification state, whatever plan serves it;
* `Update` / `Delete` without skip/limit, on the key domain, leave a store representing the
  specification's next state whatever plan serves them (`update_exact_any_plan`).

`refine_states_any_plan` lifts this to histories (`AllInDomain`), and subsumes `refine_history` as
far as states are concerned (`allDetermined_allInDomain`).  In addition every call fails exactly
when the specification's call fails. -/
namespace CV
open OC Keys StoreM

variable (likeFn : LikeFn) (fnFam : FnFam)

/-! ## 1. the domain -/

/-- the any-plan domain of a bulk write: if the collection exists, the key domain of index
    transparency, no skip and no limit -/
def BulkDomain (s : Spec.State) (q : Query) : Prop :=
  ∀ coll, Spec.lookup q.coll s = some coll → KeyDomain q coll ∧ q.skip = 0 ∧ q.limit < 0

/-- the calls whose effect on the STATE is determined by the specification: reads under any plan;
    bulk writes under a full scan or, under any plan, on the key domain without skip/limit;
    `CreateCollectionByQuery` under a full scan of its source; every other call. -/
def Op.InDomain (s : Spec.State) : Op → Prop
  | .findAll _ => True
  | .forEach _ _ => True
  | .findFirst _ => True
  | .exists_ _ => True
  | .count _ => True
  | .update q _ => FullPlan s q ∨ BulkDomain s q ∨ BulkDomainWAll s q
  | .delete q => FullPlan s q ∨ BulkDomain s q ∨ BulkDomainWAll s q
  | .createCollectionByQuery c q _ => FullPlan (Spec.insert c ({} : Spec.Coll) s) q ∨ CopyDomain s c q ∨ CopyDomainWAll s c q
  | _ => True

/-- every call of the history is in the domain in the specification state reached before it -/
def AllInDomain : List Op → Spec.State → Prop
  | [], _ => True
  | op :: ops, s => Op.InDomain s op ∧ AllInDomain ops (Spec.step likeFn fnFam s op).2

theorem determined_inDomain (s : Spec.State) (op : Op) (h : Op.Determined s op) : Op.InDomain s op := by
  cases op <;> first
    | trivial
    | exact h
    | exact Or.inl h

theorem allDetermined_allInDomain : (ops : List Op) → (s : Spec.State) →
    AllDetermined likeFn fnFam ops s → AllInDomain likeFn fnFam ops s
  | [], _, _ => trivial
  | op :: ops, s, h =>
    ⟨determined_inDomain s op h.1, allDetermined_allInDomain ops _ h.2⟩

theorem inDomain_route (s : Spec.State) (op : Op) (h : Op.InDomain s op) : Op.InDomain s op.route := by
  cases op <;> try exact h
  case save c d fresh =>
    rcases route_save c d fresh with h | h <;> rw [h] <;> trivial

/-! ## 2. reads under any plan: the failure flag -/

theorem isErr_of_eq {α} {a b : Res α} (h : a = b) : a.isErr = b.isErr := by rw [h]

theorem findAll_isErr_any_plan (s : Spec.State) (σ : KVS) (hw : WF s) (hr : Rep s σ) (q : Query) :
    (withTx false (Op.body likeFn fnFam (.findAll q)) noFault σ).1.isErr =
      (Spec.step likeFn fnFam s (.findAll q)).1.isErr := by
  cases hl : Spec.lookup q.coll s with
  | none => exact isErr_of_eq (findAll_missing' likeFn fnFam s σ hr q hl)
  | some coll =>
    rw [findAll_run_any_plan likeFn fnFam s σ hw hr q coll hl]
    simp only [Spec.step, Spec.withColl, hl]
    rfl

theorem forEach_isErr_any_plan (s : Spec.State) (σ : KVS) (hw : WF s) (hr : Rep s σ) (q : Query) (k : Option Nat) :
    (withTx false (Op.body likeFn fnFam (.forEach q k)) noFault σ).1.isErr =
      (Spec.step likeFn fnFam s (.forEach q k)).1.isErr := by
  cases hl : Spec.lookup q.coll s with
  | none => exact isErr_of_eq (forEach_missing likeFn fnFam s σ hr q k hl)
  | some coll =>
    rw [withTx_read_noFault]
    obtain ⟨c2, h2, _⟩ := iterateDocs_run likeFn fnFam s (ctx0 false σ) hw hr q k coll hl
    simp only [Op.body]
    rw [bind_run _ _ _ c2 _ h2]
    simp only [Spec.step, Spec.withColl, hl]
    rfl

theorem findFirst_isErr_any_plan (s : Spec.State) (σ : KVS) (hw : WF s) (hr : Rep s σ) (q : Query) :
    (withTx false (Op.body likeFn fnFam (.findFirst q)) noFault σ).1.isErr =
      (Spec.step likeFn fnFam s (.findFirst q)).1.isErr := by
  cases hl : Spec.lookup q.coll s with
  | none => exact isErr_of_eq (findFirst_missing likeFn fnFam s σ hr q hl)
  | some coll =>
    rw [withTx_read_noFault]
    obtain ⟨c2, h2, _⟩ := iterateDocs_run likeFn fnFam s (ctx0 false σ) hw hr { q with limit := 1 } none coll hl
    simp only [Op.body]
    rw [bind_run _ _ _ c2 _ h2]
    simp only [Spec.step, Spec.withColl, hl]
    rfl

theorem exists_isErr_any_plan (s : Spec.State) (σ : KVS) (hw : WF s) (hr : Rep s σ) (q : Query) :
    (withTx false (Op.body likeFn fnFam (.exists_ q)) noFault σ).1.isErr =
      (Spec.step likeFn fnFam s (.exists_ q)).1.isErr := by
  cases hl : Spec.lookup q.coll s with
  | none => exact isErr_of_eq (exists_missing likeFn fnFam s σ hr q hl)
  | some coll =>
    rw [withTx_read_noFault]
    obtain ⟨c2, h2, _⟩ := iterateDocs_run likeFn fnFam s (ctx0 false σ) hw hr { q with limit := 1 } none coll hl
    simp only [Op.body]
    rw [bind_run _ _ _ c2 _ h2]
    simp only [Spec.step, Spec.withColl, hl]
    rfl

theorem count_isErr_any_plan (s : Spec.State) (σ : KVS) (hw : WF s) (hr : Rep s σ) (q : Query) :
    (withTx false (Op.body likeFn fnFam (.count q)) noFault σ).1.isErr =
      (Spec.step likeFn fnFam s (.count q)).1.isErr := by
  cases hl : Spec.lookup q.coll s with
  | none => exact isErr_of_eq (count_missing likeFn fnFam s σ hr q hl)
  | some coll =>
    rw [withTx_read_noFault]
    simp only [Spec.step, Spec.withColl, hl]
    cases hcrit : q.crit with
    | some cr =>
      obtain ⟨c2, h2, _⟩ := iterateDocs_run likeFn fnFam s (ctx0 false σ) hw hr q none coll hl
      simp only [Op.body, hcrit]
      rw [bind_run _ _ _ c2 _ h2]
      rfl
    | none =>
      have hm : kvGet (ctx0 false σ).work (metaKey q.coll) = some (.cmeta ⟨coll.docs.length, coll.indexes⟩) := by
        simp only [ctx0, hr.2, assoc_meta, hl, Option.map_some]
      obtain ⟨c1, h1, _⟩ := getMeta_run q.coll _ (ctx0 false σ) hm
      simp only [Op.body, hcrit]
      rw [bind_run _ _ _ c1 _ h1]
      rfl

/-- a read leaves both states alone; only its failure flag has to be compared -/
theorem read_refines_state (op : Op) (hwf : op.isWrite = false) (s : Spec.State) (σ : KVS) (hw : WF s) (hr : Rep s σ)
    (h1 : (op.exec likeFn fnFam σ noFault).1.isErr = (Spec.step likeFn fnFam s op).1.isErr) :
    (op.exec likeFn fnFam σ noFault).1.isErr = (Spec.step likeFn fnFam s op).1.isErr ∧
      Rep (Spec.step likeFn fnFam s op).2 (op.exec likeFn fnFam σ noFault).2.1 ∧ WF (Spec.step likeFn fnFam s op).2 := by
  rw [step_read_state likeFn fnFam s op hwf, Props.C04.read_tx_pure likeFn fnFam op hwf]
  exact ⟨h1, hr, hw⟩

/-! ## 3. bulk writes under any plan -/

/-- `Update` on a live collection, key domain, no skip/limit, any plan: same failure flag, and the
    store left represents the specification's next state -/
theorem update_refines_state_any_plan (s : Spec.State) (σ : KVS) (hw : WF s) (hr : Rep s σ) (q : Query) (u : Upd)
    (coll : Spec.Coll) (hl : Spec.lookup q.coll s = some coll) (hdomain : KeyDomain q coll)
    (hskip : q.skip = 0) (hlimit : q.limit < 0) :
    (withTx true (Op.body likeFn fnFam (.update q u)) noFault σ).1.isErr = (Spec.step likeFn fnFam s (.update q u)).1.isErr ∧
      Rep (Spec.step likeFn fnFam s (.update q u)).2 (withTx true (Op.body likeFn fnFam (.update q u)) noFault σ).2.1 ∧
      WF (Spec.step likeFn fnFam s (.update q u)).2 := by
  have h := update_exact_any_plan likeFn fnFam s σ hw hr q u coll hl hdomain hskip hlimit
  simp only at h
  cases he : (Spec.step likeFn fnFam s (.update q u)).1.isErr with
  | true =>
    obtain ⟨e1, e2⟩ := h.1 he
    refine ⟨e1, ?_, ?_⟩
    · -- a failing step leaves the specification state alone
      have hs : (Spec.step likeFn fnFam s (.update q u)).2 = s := by
        revert he
        simp only [Spec.step, Spec.withColl, hl]
        cases Spec.applyAll u coll.docs (Spec.findAll likeFn fnFam q coll) with
        | err e => intro _; rfl
        | ok ds => intro he; cases he
      rw [hs, e2]; exact hr
    · have hs : (Spec.step likeFn fnFam s (.update q u)).2 = s := by
        revert he
        simp only [Spec.step, Spec.withColl, hl]
        cases Spec.applyAll u coll.docs (Spec.findAll likeFn fnFam q coll) with
        | err e => intro _; rfl
        | ok ds => intro he; cases he
      rw [hs]; exact hw
  | false =>
    obtain ⟨sel, e1, _, e3, e4⟩ := h.2 he
    refine ⟨?_, e3, e4⟩
    rw [e1]; rfl

theorem delete_refines_state_any_plan (s : Spec.State) (σ : KVS) (hw : WF s) (hr : Rep s σ) (q : Query)
    (coll : Spec.Coll) (hl : Spec.lookup q.coll s = some coll) (hdomain : KeyDomain q coll)
    (hskip : q.skip = 0) (hlimit : q.limit < 0) :
    (withTx true (Op.body likeFn fnFam (.delete q)) noFault σ).1.isErr = (Spec.step likeFn fnFam s (.delete q)).1.isErr ∧
      Rep (Spec.step likeFn fnFam s (.delete q)).2 (withTx true (Op.body likeFn fnFam (.delete q)) noFault σ).2.1 ∧
      WF (Spec.step likeFn fnFam s (.delete q)).2 := by
  rw [body_delete, step_delete]
  exact update_refines_state_any_plan likeFn fnFam s σ hw hr q .retNil coll hl hdomain hskip hlimit

/-! ## 4. one routed operation, one public call -/

theorem state_of_refines {a b : Res Out} {P Q : Prop} (h : a = b ∧ P ∧ Q) : a.isErr = b.isErr ∧ P ∧ Q :=
  ⟨isErr_of_eq h.1, h.2⟩

theorem exec_refines_state (op : Op) (hop : OpOK op) (hroute : op.route = op)
    (s : Spec.State) (σ : KVS) (hw : WF s) (hr : Rep s σ) (hdom : Op.InDomain s op) :
    (op.exec likeFn fnFam σ noFault).1.isErr = (Spec.step likeFn fnFam s op).1.isErr ∧
      Rep (Spec.step likeFn fnFam s op).2 (op.exec likeFn fnFam σ noFault).2.1 ∧ WF (Spec.step likeFn fnFam s op).2 := by
  cases op with
  | findAll q =>
    exact read_refines_state likeFn fnFam _ rfl s σ hw hr (findAll_isErr_any_plan likeFn fnFam s σ hw hr q)
  | forEach q k =>
    exact read_refines_state likeFn fnFam _ rfl s σ hw hr (forEach_isErr_any_plan likeFn fnFam s σ hw hr q k)
  | findFirst q =>
    exact read_refines_state likeFn fnFam _ rfl s σ hw hr (findFirst_isErr_any_plan likeFn fnFam s σ hw hr q)
  | exists_ q =>
    exact read_refines_state likeFn fnFam _ rfl s σ hw hr (exists_isErr_any_plan likeFn fnFam s σ hw hr q)
  | count q =>
    exact read_refines_state likeFn fnFam _ rfl s σ hw hr (count_isErr_any_plan likeFn fnFam s σ hw hr q)
  | update q u =>
    rcases hdom with hfull | hany | hW
    · exact state_of_refines (exec_refines likeFn fnFam _ hop hroute s σ hw hr hfull)
    · cases hl : Spec.lookup q.coll s with
      | none => exact state_of_refines (update_missing likeFn fnFam s σ hw hr q u hl)
      | some coll =>
        obtain ⟨hd, hsk, hlim⟩ := hany coll hl
        exact update_refines_state_any_plan likeFn fnFam s σ hw hr q u coll hl hd hsk hlim
    · exact update_refines_state_any_plan_window likeFn fnFam s σ hw hr q u (hW.toBulkDomainW likeFn fnFam)
  | delete q =>
    rcases hdom with hfull | hany | hW
    · exact state_of_refines (exec_refines likeFn fnFam _ hop hroute s σ hw hr hfull)
    · cases hl : Spec.lookup q.coll s with
      | none => exact state_of_refines (delete_missing likeFn fnFam s σ hw hr q hl)
      | some coll =>
        obtain ⟨hd, hsk, hlim⟩ := hany coll hl
        exact delete_refines_state_any_plan likeFn fnFam s σ hw hr q coll hl hd hsk hlim
    · exact delete_refines_state_any_plan_window likeFn fnFam s σ hw hr q (hW.toBulkDomainW likeFn fnFam)
  | createCollectionByQuery c q fresh =>
    rcases hdom with hfull | hcopy | hW
    · exact state_of_refines (exec_refines likeFn fnFam _ hop hroute s σ hw hr hfull)
    · exact state_of_refines
        (createCollectionByQuery_exact_any_plan likeFn fnFam s σ hw hr c hop q fresh hcopy.1 hcopy.2.1 hcopy.2.2)
    · exact state_of_refines
        (createCollectionByQuery_exact_any_plan_window likeFn fnFam s σ hw hr c hop q fresh (hW.toCopyDomainW likeFn fnFam))
  | _ => exact state_of_refines (exec_refines likeFn fnFam _ hop hroute s σ hw hr trivial)

/-- **One public call refines the specification's STATE step, whatever plan serves it**: a
    fault-free call of an in-domain operation on an open handle leaves a store that represents the
    specification's next state, keeps the handle open, and fails exactly when the specification's
    call fails; when the call is moreover determined (`Op.Determined`) it answers what the
    specification answers. -/
theorem refine_state_step (op : Op) (hop : OpOK op) (s : Spec.State) (σ : DBState) (hcl : σ.closed = false)
    (hw : WF s) (hr : Rep s σ.kv) (hdom : Op.InDomain s op) :
    let r := op.run likeFn fnFam σ noFault
    let sp := Spec.step likeFn fnFam s op
    (Rep sp.2 r.state.kv ∧ WF sp.2 ∧ r.state.closed = false ∧ r.out.isErr = sp.1.isErr) ∧
      (Op.Determined s op → r.out = sp.1) := by
  simp only
  refine ⟨?_, fun hdet => (refine_step likeFn fnFam op hop s σ hcl hw hr hdet).1⟩
  unfold Op.run
  simp only [hcl, Bool.false_eq_true, if_false]
  cases hpre : op.pre with
  | some e =>
    dsimp only
    rw [pre_some likeFn fnFam s op e hpre]
    exact ⟨hr, hw, hcl, rfl⟩
  | none =>
    dsimp only
    rw [step_route likeFn fnFam s op hpre]
    have := exec_refines_state likeFn fnFam op.route (route_ok op hop) (route_idem op) s σ.kv hw hr
      (inDomain_route s op hdom)
    exact ⟨this.2.1, this.2.2, rfl, this.1⟩

/-! ## 5. histories -/

/-- **Refinement of states along histories, for any plan**: along any finite history of in-domain
    calls, the final store of the fault-free model represents the final specification state. -/
theorem refine_states_any_plan : (ops : List Op) → (∀ op ∈ ops, OpOK op) → (s : Spec.State) → (σ : DBState) →
    σ.closed = false → WF s → Rep s σ.kv → AllInDomain likeFn fnFam ops s →
    Rep (specRun likeFn fnFam ops s).2 (modelRun likeFn fnFam ops σ).2.kv ∧
      WF (specRun likeFn fnFam ops s).2 ∧ (modelRun likeFn fnFam ops σ).2.closed = false
  | [], _, _, _, hcl, hw, hr, _ => ⟨hr, hw, hcl⟩
  | op :: ops, hok, s, σ, hcl, hw, hr, hdom => by
    obtain ⟨⟨h2, h3, h4, _⟩, _⟩ := refine_state_step likeFn fnFam op (hok op (by simp)) s σ hcl hw hr hdom.1
    have ih := refine_states_any_plan ops (fun o ho => hok o (List.mem_cons_of_mem _ ho))
      (Spec.step likeFn fnFam s op).2 (op.run likeFn fnFam σ noFault).state h4 h3 h2 hdom.2
    simp only [modelRun, specRun]
    exact ih

/-- … and the failure flags agree call by call -/
theorem refine_errs_any_plan : (ops : List Op) → (∀ op ∈ ops, OpOK op) → (s : Spec.State) → (σ : DBState) →
    σ.closed = false → WF s → Rep s σ.kv → AllInDomain likeFn fnFam ops s →
    (modelRun likeFn fnFam ops σ).1.map Res.isErr = (specRun likeFn fnFam ops s).1.map Res.isErr
  | [], _, _, _, _, _, _, _ => rfl
  | op :: ops, hok, s, σ, hcl, hw, hr, hdom => by
    obtain ⟨⟨h2, h3, h4, h5⟩, _⟩ := refine_state_step likeFn fnFam op (hok op (by simp)) s σ hcl hw hr hdom.1
    have ih := refine_errs_any_plan ops (fun o ho => hok o (List.mem_cons_of_mem _ ho))
      (Spec.step likeFn fnFam s op).2 (op.run likeFn fnFam σ noFault).state h4 h3 h2 hdom.2
    simp only [modelRun, specRun, List.map_cons]
    rw [h5, ih]

/-- … in particular from the empty database -/
theorem refine_states_from_empty (ops : List Op) (hok : ∀ op ∈ ops, OpOK op)
    (hdom : AllInDomain likeFn fnFam ops []) :
    Rep (specRun likeFn fnFam ops []).2 (modelRun likeFn fnFam ops {}).2.kv ∧
      WF (specRun likeFn fnFam ops []).2 ∧ (modelRun likeFn fnFam ops {}).2.closed = false :=
  refine_states_any_plan likeFn fnFam ops hok [] {} rfl wf_empty rep_empty hdom

/-! ## 6. use: a `FindAll` after any in-domain history -/

/-- after any in-domain history from the empty database, a `FindAll` under ANY plan (any sort, skip
    and limit) answers the specification's documents position by position up to ties of the sort -/
theorem findAll_after_history_up_to_ties (ops : List Op) (hok : ∀ op ∈ ops, OpOK op)
    (hdom : AllInDomain likeFn fnFam ops []) (q : Query) (coll : Spec.Coll)
    (hl : Spec.lookup q.coll (specRun likeFn fnFam ops []).2 = some coll) (hdomain : KeyDomain q coll)
    (hsd : SortDom q.sort ((coll.docs.map (·.2)).filter (fun d => satOpt likeFn fnFam d q.crit)))
    (hnn : (choosePlan coll.indexes q).2 = true →
      ∀ o ∈ q.sort, ∀ d ∈ (coll.docs.map (·.2)).filter (fun d => satOpt likeFn fnFam d q.crit),
        d.has o.1 = true → d.get o.1 ≠ .null) :
    ∃ res, (withTx false (Op.body likeFn fnFam (.findAll q)) noFault (modelRun likeFn fnFam ops {}).2.kv).1 = .ok (.docs res) ∧
      List.Forall₂ (fun a b => compareDocuments a b q.sort = 0) res (Spec.findAll likeFn fnFam q coll) := by
  obtain ⟨hr, hw, _⟩ := refine_states_from_empty likeFn fnFam ops hok hdom
  exact findAll_classwise_any_plan likeFn fnFam _ _ hw hr q coll hl hdomain hsd hnn

/-- … and without skip/limit window it answers a permutation of the specification's documents
    (`findAll_exact_any_plan` at the reached state) -/
theorem findAll_after_history_perm (ops : List Op) (hok : ∀ op ∈ ops, OpOK op)
    (hdom : AllInDomain likeFn fnFam ops []) (q : Query) (coll : Spec.Coll)
    (hl : Spec.lookup q.coll (specRun likeFn fnFam ops []).2 = some coll) (hdomain : KeyDomain q coll)
    (hskip : q.skip = 0) (hlimit : q.limit < 0) :
    ∃ res, (withTx false (Op.body likeFn fnFam (.findAll q)) noFault (modelRun likeFn fnFam ops {}).2.kv).1 = .ok (.docs res) ∧
      res.Perm (Spec.findAll likeFn fnFam q coll) := by
  obtain ⟨hr, hw, _⟩ := refine_states_from_empty likeFn fnFam ops hok hdom
  exact findAll_exact_any_plan likeFn fnFam _ _ hw hr q coll hl hdomain hskip hlimit

end CV
