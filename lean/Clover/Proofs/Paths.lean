import Clover.Model.Doc
/-! # Dotted-path laws of documents: Set / Get / Has agree -/
namespace CV

theorem lookupKey_insertKey (k k' : Bytes) (v : Value) : (m : Doc) →
    lookupKey k' (insertKey k v m) = if k' = k then some v else lookupKey k' m
  | [] => by simp [insertKey, lookupKey]
  | (k2, v2) :: t => by
    simp only [insertKey]
    split
    · simp only [lookupKey]
    · split
      · rename_i _ heq
        subst heq
        simp only [lookupKey]; split <;> rfl
      · simp only [lookupKey, lookupKey_insertKey k k' v t]
        split <;> split <;> simp_all

/-- reading back the path just assigned gives the assigned value -/
theorem getPath_setPath_same : (m : Doc) → (p : List Bytes) → p ≠ [] → (v : Value) →
    getPath (setPath m p v) p = some v
  | _, [], h, _ => absurd rfl h
  | m, [k], _, v => by simp [setPath, getPath, lookupKey_insertKey]
  | m, k :: k2 :: rest, _, v => by
    simp only [setPath, getPath, lookupKey_insertKey, if_true]
    exact getPath_setPath_same _ (k2 :: rest) (by simp) v

/-- neither path is a prefix of the other -/
def Unrelated : List Bytes → List Bytes → Prop
  | [], _ => False
  | _, [] => False
  | a :: as, b :: bs => a ≠ b ∨ Unrelated as bs

theorem getPath_nil_doc : (q : List Bytes) → getPath [] q = none
  | [] => rfl
  | [_] => rfl
  | _ :: _ :: _ => rfl

/-- assigning one path does not disturb a path that is not prefix-related — also when the
    assignment replaces a non-map intermediate by a fresh map -/
theorem getPath_setPath_other : (m : Doc) → (p q : List Bytes) → Unrelated p q → (v : Value) →
    getPath (setPath m p v) q = getPath m q
  | _, [], _, h, _ => by simp [Unrelated] at h
  | _, _ :: _, [], h, _ => by simp [Unrelated] at h
  | m, [k], [k'], h, v => by
    simp only [Unrelated, or_false] at h
    have : k' ≠ k := fun e => h e.symm
    simp [setPath, getPath, lookupKey_insertKey, this]
  | m, [k], k' :: q2 :: qs, h, v => by
    simp only [Unrelated, or_false] at h
    have : k' ≠ k := fun e => h e.symm
    simp [setPath, getPath, lookupKey_insertKey, this]
  | m, k :: p2 :: ps, [k'], h, v => by
    simp only [Unrelated, or_false] at h
    have : k' ≠ k := fun e => h e.symm
    simp [setPath, getPath, lookupKey_insertKey, this]
  | m, k :: p2 :: ps, k' :: q2 :: qs, h, v => by
    simp only [setPath, getPath, lookupKey_insertKey]
    by_cases hk : k' = k
    · subst hk
      simp only [if_true]
      have hu : Unrelated (p2 :: ps) (q2 :: qs) := by
        simp only [Unrelated] at h
        rcases h with h | h
        · exact absurd rfl h
        · exact h
      cases hl : lookupKey k' m with
      | none => simp only []; rw [getPath_setPath_other [] _ _ hu v, getPath_nil_doc]
      | some x =>
        cases x with
        | obj sub => simp only []; exact getPath_setPath_other sub _ _ hu v
        | _ => simp only []; rw [getPath_setPath_other [] _ _ hu v, getPath_nil_doc]
    · simp [hk]

end CV
