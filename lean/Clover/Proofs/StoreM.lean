import Clover.Model.Store
/-! # Laws of the transaction combinator: failed operations leave no trace, faults are reported -/
namespace CV
open StoreM

/-- C04, first half: an operation that returns an error leaves the committed state untouched -/
theorem failed_op_no_trace {α} (w : Bool) (body : StoreM α) (φ : Faults) (σ : KVS)
    (h : (withTx w body φ σ).1.isErr = true) : (withTx w body φ σ).2.1 = σ := by
  unfold withTx at *
  by_cases h0 : φ 0 = true
  · simp [h0]
  · simp only [h0, Bool.false_eq_true, if_false] at h ⊢
    cases hb : body φ ⟨σ, 1, false, [.begin w], false⟩ with
    | mk r c =>
      simp only [hb] at h ⊢
      cases r with
      | err e => rfl
      | ok a =>
        simp only at h ⊢
        by_cases hw : (w && !c.skipCommit) = true
        · simp only [hw, if_true] at h ⊢
          by_cases hc : φ c.tick = true
          · simp [hc]
          · simp [hc, Res.isErr] at h
        · simp [hw]

/-- reads never change the committed state -/
theorem read_pure {α} (body : StoreM α) (φ : Faults) (σ : KVS) : (withTx false body φ σ).2.1 = σ := by
  unfold withTx
  split
  · rfl
  · split <;> simp

/-- a program propagates faults: once one has been injected, it ends in an error -/
def Propagates {α} (m : StoreM α) : Prop :=
  ∀ φ c, ((m φ c).2.fired = true → c.fired = true ∨ (m φ c).1.isErr = true) ∧
         (c.fired = true → (m φ c).2.fired = true)

theorem prop_pure {α} (a : α) : Propagates (pure a : StoreM α) := by
  intro φ c; exact ⟨fun h => Or.inl h, fun h => h⟩

theorem prop_fail {α} (e : Err) : Propagates (fail e : StoreM α) := by
  intro φ c; exact ⟨fun h => Or.inl h, fun h => h⟩

theorem prop_snapshot : Propagates snapshot := by
  intro φ c; exact ⟨fun h => Or.inl h, fun h => h⟩

theorem prop_call {α} (lbl : Call) (act : KVS → α × KVS) : Propagates (call lbl act) := by
  intro φ c
  unfold call
  split
  · exact ⟨fun _ => Or.inr rfl, fun _ => rfl⟩
  · exact ⟨fun h => Or.inl h, fun h => h⟩

theorem prop_get (k : Bytes) : Propagates (get k) := prop_call _ _
theorem prop_set (k : Bytes) (v : SVal) : Propagates (set k v) := prop_call _ _
theorem prop_del (k : Bytes) : Propagates (del k) := prop_call _ _
theorem prop_item (k : Bytes) : Propagates (item k) := prop_call _ _

theorem prop_bind {α β} (m : StoreM α) (f : α → StoreM β)
    (hm : Propagates m) (hf : ∀ a, Propagates (f a)) : Propagates (m >>= f) := by
  intro φ c
  show ((bind' m f φ c).2.fired = true → c.fired = true ∨ (bind' m f φ c).1.isErr = true) ∧
         (c.fired = true → (bind' m f φ c).2.fired = true)
  unfold bind'
  have h1 := hm φ c
  split
  · rename_i a c' heq
    rw [heq] at h1
    have h2 := hf a φ c'
    constructor
    · intro h
      rcases h2.1 h with h3 | h3
      · rcases h1.1 h3 with h4 | h4
        · exact Or.inl h4
        · simp [Res.isErr] at h4
      · exact Or.inr h3
    · intro h; exact h2.2 (h1.2 h)
  · rename_i e c' heq
    rw [heq] at h1
    exact ⟨fun h => by rcases h1.1 h with h4 | _; exact Or.inl h4; exact Or.inr rfl, h1.2⟩

/-- C04, second half: if the body propagates faults, any injected fault makes the operation fail -/
theorem fault_reported {α} (w : Bool) (body : StoreM α) (hb : Propagates body) (φ : Faults) (σ : KVS)
    (h : (withTx w body φ σ).2.2.1 = true) : (withTx w body φ σ).1.isErr = true := by
  unfold withTx at *
  by_cases h0 : φ 0 = true
  · simp [h0, Res.isErr]
  · simp only [h0, Bool.false_eq_true, if_false] at h ⊢
    have hp := hb φ ⟨σ, 1, false, [.begin w], false⟩
    cases hbd : body φ ⟨σ, 1, false, [.begin w], false⟩ with
    | mk r c =>
      simp only [hbd] at h ⊢ hp
      cases r with
      | err e => rfl
      | ok a =>
        simp only at h ⊢ hp
        have hnf : c.fired = true → False := by
          intro hf
          rcases hp.1 hf with h3 | h3
          · simp at h3
          · simp [Res.isErr] at h3
        by_cases hw : (w && !c.skipCommit) = true
        · simp only [hw, if_true] at h ⊢
          by_cases hc : φ c.tick = true
          · simp [hc, Res.isErr]
          · simp only [hc, Bool.false_eq_true, if_false] at h; exact (hnf h).elim
        · simp only [hw, Bool.false_eq_true, if_false] at h; exact (hnf h).elim

end CV
