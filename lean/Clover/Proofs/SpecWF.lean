import Clover.Proofs.BulkExact
/-! # The specification keeps its states well formed, and never changes its state on an error

`spec_step_wf`: for EVERY operation in the supported domain (`OpOK`), also the queries that the
model serves by an index plan, `Spec.step` maps well-formed abstract states to well-formed abstract
states.  `spec_step_err_unchanged`: when the specification answers an error, its state is the one
it started from.  `spec_history_wf`: every history of supported operations from the empty database
ends in a well-formed state. -/
namespace CV
open OC Keys

variable (likeFn : LikeFn) (fnFam : FnFam)

/-! ## the two loops of the specification -/

/-- sequential insertion keeps the documents sorted by id, each stored under its own well-formed id -/
theorem insertAll_wf : (ds : List Doc) → (docs docs' : List (Bytes × Doc)) → Spec.KeysSorted docs → IdsWF docs →
    Spec.insertAll docs ds = .ok docs' → Spec.KeysSorted docs' ∧ IdsWF docs'
  | [], docs, docs', hs, hi, h => by
    simp only [Spec.insertAll] at h
    cases h
    exact ⟨hs, hi⟩
  | d :: ds, docs, docs', hs, hi, h => by
    simp only [Spec.insertAll] at h
    by_cases h1 : (Spec.lookup d.objectId docs).isSome = true
    · rw [if_pos h1] at h
      cases h
    · rw [if_neg h1] at h
      by_cases h2 : (!validDoc d) = true
      · rw [if_pos h2] at h
        cases h
      · rw [if_neg h2] at h
        have hv : validDoc d = true := by
          cases hvd : validDoc d with
          | true => rfl
          | false => rw [hvd] at h2; exact absurd rfl h2
        exact insertAll_wf ds _ docs' (Spec.keysSorted_insert _ _ _ hs)
          (idsWF_insert docs hi _ d (validDoc_idWF d hv) rfl) h

/-- the apply phase keeps every document stored under its own well-formed id -/
theorem applyAll_idsWF (u : Upd) : (sel : List Doc) → (docs docs' : List (Bytes × Doc)) → IdsWF docs →
    Spec.applyAll u docs sel = .ok docs' → IdsWF docs'
  | [], docs, docs', hi, h => by
    simp only [Spec.applyAll] at h
    cases h
    exact hi
  | d :: ds, docs, docs', hi, h => by
    simp only [Spec.applyAll] at h
    cases hu : u.apply d with
    | none =>
      rw [hu] at h
      dsimp only at h
      exact applyAll_idsWF u ds _ docs' (idsWF_erase docs hi _) h
    | some d' =>
      rw [hu] at h
      dsimp only at h
      by_cases h1 : d'.objectId ≠ d.objectId
      · rw [if_pos h1] at h
        cases h
      · rw [if_neg h1] at h
        by_cases h2 : (!validDoc d') = true
        · rw [if_pos h2] at h
          cases h
        · rw [if_neg h2] at h
          have hv : validDoc d' = true := by
            cases hvd : validDoc d' with
            | true => rfl
            | false => rw [hvd] at h2; exact absurd rfl h2
          have hid : d'.objectId = d.objectId := Classical.not_not.1 h1
          exact applyAll_idsWF u ds _ docs' (idsWF_insert docs hi _ d' (hid ▸ validDoc_idWF d' hv) hid) h

/-! ## the building blocks of `Spec.step` -/

theorem wf_withColl (s : Spec.State) (hw : WF s) (c : Bytes) (f : Spec.Coll → Res Out × Spec.State)
    (hf : ∀ coll, Spec.lookup c s = some coll → WF (f coll).2) : WF (Spec.withColl s c f).2 := by
  unfold Spec.withColl
  cases hl : Spec.lookup c s with
  | none => exact hw
  | some coll => exact hf coll hl

/-- a read: the state is returned as it is -/
theorem wf_withColl_read (s : Spec.State) (hw : WF s) (c : Bytes) (g : Spec.Coll → Res Out) :
    WF (Spec.withColl s c fun coll => (g coll, s)).2 :=
  wf_withColl s hw c _ (fun _ _ => hw)

/-- replacing a live collection by a well-formed one -/
theorem wf_replace (s : Spec.State) (hw : WF s) (c : Bytes) (coll coll' : Spec.Coll)
    (hl : Spec.lookup c s = some coll) (hcw : CollWF coll') : WF (Spec.insert c coll' s) :=
  wf_insert s hw c (wf_lookup_clean s hw c coll hl).1 coll' hcw

theorem wf_createWith (s : Spec.State) (hw : WF s) (c : Bytes) (hc : Clean c) (docs : List Doc) :
    WF (Spec.createWith s c docs).2 := by
  unfold Spec.createWith
  by_cases h1 : (Spec.lookup c s).isSome = true
  · rw [if_pos h1]; exact hw
  · rw [if_neg h1]
    cases hia : Spec.insertAll [] docs with
    | err e => exact hw
    | ok ds =>
      dsimp only
      obtain ⟨hso, hid⟩ := insertAll_wf docs [] ds (by simp [Spec.KeysSorted]) (fun e he => by simp at he) hia
      exact wf_insert s hw c hc _ (collWF_of_parts [] ds hso hid (by simp) (by simp))

/-! ## the operations that change a collection -/

theorem wf_step_insert (s : Spec.State) (hw : WF s) (c : Bytes) (docs : List Doc) (fresh : List Bytes) :
    WF (Spec.step likeFn fnFam s (.insert c docs fresh)).2 := by
  simp only [Spec.step]
  apply wf_withColl s hw
  intro coll hl
  have hcw := (wf_lookup_clean s hw c coll hl).2
  cases hia : Spec.insertAll coll.docs (assignIds docs fresh) with
  | err e => exact hw
  | ok ds =>
    dsimp only
    obtain ⟨hso, hid⟩ := insertAll_wf _ coll.docs ds hcw.docsSorted hcw.idsWF hia
    exact wf_replace s hw c coll _ hl (collWF_of_parts coll.indexes ds hso hid hcw.fieldsClean hcw.fieldsDistinct)

theorem wf_step_updateById (s : Spec.State) (hw : WF s) (c id : Bytes) (u : Upd) :
    WF (Spec.step likeFn fnFam s (.updateById c id u)).2 := by
  simp only [Spec.step]
  apply wf_withColl s hw
  intro coll hl
  have hcw := (wf_lookup_clean s hw c coll hl).2
  cases hld : Spec.lookup id coll.docs with
  | none => exact hw
  | some d =>
    dsimp only
    cases hu : u.apply d with
    | none => exact hw
    | some d' =>
      dsimp only
      by_cases h1 : d'.objectId ≠ id
      · rw [if_pos h1]; exact hw
      · rw [if_neg h1]
        by_cases h2 : (!validDoc d') = true
        · rw [if_pos h2]; exact hw
        · rw [if_neg h2]
          exact wf_replace s hw c coll _ hl (collWF_replace coll hcw id d d' hld (Classical.not_not.1 h1))

theorem wf_step_update (s : Spec.State) (hw : WF s) (q : Query) (u : Upd) :
    WF (Spec.step likeFn fnFam s (.update q u)).2 := by
  simp only [Spec.step]
  apply wf_withColl s hw
  intro coll hl
  have hcw := (wf_lookup_clean s hw q.coll coll hl).2
  cases haa : Spec.applyAll u coll.docs (Spec.findAll likeFn fnFam q coll) with
  | err e => exact hw
  | ok ds =>
    dsimp only
    have hso := applyAll_sorted u _ coll.docs ds hcw.docsSorted haa
    have hid := applyAll_idsWF u _ coll.docs ds hcw.idsWF haa
    exact wf_replace s hw q.coll coll _ hl (collWF_of_parts coll.indexes ds hso hid hcw.fieldsClean hcw.fieldsDistinct)

theorem wf_step_replaceById (s : Spec.State) (hw : WF s) (c id : Bytes) (d : Doc) :
    WF (Spec.step likeFn fnFam s (.replaceById c id d)).2 := by
  rw [Spec.step]
  by_cases h : d.objectId ≠ id
  · rw [if_pos h]; exact hw
  · rw [if_neg h]; exact wf_step_updateById likeFn fnFam s hw c id _

theorem wf_step_save (s : Spec.State) (hw : WF s) (c : Bytes) (d : Doc) (fresh : List Bytes) :
    WF (Spec.step likeFn fnFam s (.save c d fresh)).2 := by
  rw [Spec.step]
  have key : ∀ (p : Prop) [Decidable p], WF (if p then Spec.step likeFn fnFam s (.insert c [d] fresh)
      else Spec.step likeFn fnFam s (.replaceById c d.objectId d)).2 := by
    intro p _
    by_cases h : p
    · rw [if_pos h]; exact wf_step_insert likeFn fnFam s hw c [d] fresh
    · rw [if_neg h]; exact wf_step_replaceById likeFn fnFam s hw c d.objectId d
  exact key _

theorem wf_step_deleteById (s : Spec.State) (hw : WF s) (c id : Bytes) :
    WF (Spec.step likeFn fnFam s (.deleteById c id)).2 := by
  simp only [Spec.step]
  apply wf_withColl s hw
  intro coll hl
  exact wf_replace s hw c coll _ hl (collWF_erase coll (wf_lookup_clean s hw c coll hl).2 id)

theorem wf_step_createIndex (s : Spec.State) (hw : WF s) (c f : Bytes) (hf : Clean f) :
    WF (Spec.step likeFn fnFam s (.createIndex c f)).2 := by
  simp only [Spec.step]
  apply wf_withColl s hw
  intro coll hl
  have hcw := (wf_lookup_clean s hw c coll hl).2
  by_cases h : coll.indexes.contains f = true
  · rw [if_pos h]; exact hw
  · rw [if_neg h]
    exact wf_replace s hw c coll _ hl (collWF_addIndex coll hcw f hf (fun hm => h (List.contains_iff_mem.2 hm)))

theorem wf_step_dropIndex (s : Spec.State) (hw : WF s) (c f : Bytes) :
    WF (Spec.step likeFn fnFam s (.dropIndex c f)).2 := by
  simp only [Spec.step]
  apply wf_withColl s hw
  intro coll hl
  have hcw := (wf_lookup_clean s hw c coll hl).2
  by_cases h : (!coll.indexes.contains f) = true
  · rw [if_pos h]; exact hw
  · rw [if_neg h]
    have hm : f ∈ coll.indexes := by
      cases hc : coll.indexes.contains f with
      | true => exact List.contains_iff_mem.1 hc
      | false => rw [hc] at h; exact absurd rfl h
    exact wf_replace s hw c coll _ hl (collWF_dropIndex coll hcw f hm)

theorem wf_step_createCollectionByQuery (s : Spec.State) (hw : WF s) (c : Bytes) (hc : Clean c) (q : Query)
    (fresh : List Bytes) : WF (Spec.step likeFn fnFam s (.createCollectionByQuery c q fresh)).2 := by
  simp only [Spec.step]
  by_cases h1 : (Spec.lookup c s).isSome = true
  · rw [if_pos h1]; exact hw
  · rw [if_neg h1]
    cases hlq : Spec.lookup q.coll (Spec.insert c ({} : Spec.Coll) s) with
    | none => exact hw
    | some src => exact wf_createWith s hw c hc _

theorem wf_step_importDocs (s : Spec.State) (hw : WF s) (c : Bytes) (hc : Clean c) (docs : Option (List Doc))
    (fresh : List Bytes) : WF (Spec.step likeFn fnFam s (.importDocs c docs fresh)).2 := by
  cases docs with
  | none => simp only [Spec.step]; exact hw
  | some ds => simp only [Spec.step]; exact wf_createWith s hw c hc _

/-! ## every operation -/

/-- **The specification keeps its states well formed**: every operation of the supported domain,
    whatever it answers (queries served by an index plan in the model included: the statement is
    about the specification alone). -/
theorem spec_step_wf (s : Spec.State) (hw : WF s) (op : Op) (hop : OpOK op) :
    WF (Spec.step likeFn fnFam s op).2 := by
  cases op with
  | createCollection c => simp only [Spec.step]; exact wf_createWith s hw c hop []
  | dropCollection c =>
    simp only [Spec.step]
    exact wf_withColl s hw c _ (fun _ _ => wf_erase s hw c)
  | hasCollection c => simp only [Spec.step]; exact hw
  | listCollections => simp only [Spec.step]; exact hw
  | insert c docs fresh => exact wf_step_insert likeFn fnFam s hw c docs fresh
  | save c d fresh => exact wf_step_save likeFn fnFam s hw c d fresh
  | findAll q => simp only [Spec.step]; exact wf_withColl_read s hw _ _
  | forEach q k => simp only [Spec.step]; exact wf_withColl_read s hw _ _
  | findFirst q => simp only [Spec.step]; exact wf_withColl_read s hw _ _
  | exists_ q => simp only [Spec.step]; exact wf_withColl_read s hw _ _
  | count q => simp only [Spec.step]; exact wf_withColl_read s hw _ _
  | findById c id => simp only [Spec.step]; exact wf_withColl_read s hw _ _
  | deleteById c id => exact wf_step_deleteById likeFn fnFam s hw c id
  | updateById c id u => exact wf_step_updateById likeFn fnFam s hw c id u
  | replaceById c id d => exact wf_step_replaceById likeFn fnFam s hw c id d
  | update q u => exact wf_step_update likeFn fnFam s hw q u
  | delete q => rw [step_delete]; exact wf_step_update likeFn fnFam s hw q .retNil
  | createIndex c f => exact wf_step_createIndex likeFn fnFam s hw c f hop
  | dropIndex c f => exact wf_step_dropIndex likeFn fnFam s hw c f
  | hasIndex c f => simp only [Spec.step]; exact wf_withColl_read s hw _ _
  | listIndexes c => simp only [Spec.step]; exact wf_withColl_read s hw _ _
  | createCollectionByQuery c q fresh => exact wf_step_createCollectionByQuery likeFn fnFam s hw c hop q fresh
  | importDocs c docs fresh => exact wf_step_importDocs likeFn fnFam s hw c hop docs fresh
  | exportDocs c => simp only [Spec.step]; exact wf_withColl_read s hw _ _

/-! ## errors leave the state as it was -/

/-- a step either returns the state it was given or answers without an error -/
theorem spec_step_same_or_ok (s : Spec.State) (op : Op) :
    (Spec.step likeFn fnFam s op).2 = s ∨ (Spec.step likeFn fnFam s op).1.isErr = false := by
  cases op
  case importDocs c docs fresh =>
    cases docs with
    | none => exact Or.inl (by rw [Spec.step])
    | some ds =>
      simp only [Spec.step, Spec.createWith]
      repeat' split
      all_goals first
        | exact Or.inl rfl
        | exact Or.inr rfl
  all_goals simp only [Spec.step, Spec.withColl, Spec.createWith]
  all_goals repeat' split
  all_goals first
    | exact Or.inl rfl
    | exact Or.inr rfl

/-- **The specification never changes its state on an error.** -/
theorem spec_step_err_unchanged (s : Spec.State) (op : Op) (h : (Spec.step likeFn fnFam s op).1.isErr = true) :
    (Spec.step likeFn fnFam s op).2 = s := by
  rcases spec_step_same_or_ok likeFn fnFam s op with h1 | h1
  · exact h1
  · rw [h1] at h; cases h

/-! ## histories -/

/-- well-formedness is kept along every history of supported operations (`specRun`: the
    specification on a history, defined in `RefineStep.lean`) -/
theorem spec_history_wf_from : (ops : List Op) → (∀ op ∈ ops, OpOK op) → (s : Spec.State) → WF s →
    WF (specRun likeFn fnFam ops s).2
  | [], _, _, hw => hw
  | op :: ops, hok, s, hw => by
    simp only [specRun]
    exact spec_history_wf_from ops (fun o ho => hok o (List.mem_cons_of_mem _ ho)) _
      (spec_step_wf likeFn fnFam s hw op (hok op (by simp)))

/-- **Every state the specification reaches from the empty database is well formed**, whether or not
    the calls of the history are determined. -/
theorem spec_history_wf (ops : List Op) (hok : ∀ op ∈ ops, OpOK op) :
    WF (specRun likeFn fnFam ops []).2 :=
  spec_history_wf_from likeFn fnFam ops hok [] wf_empty

end CV
