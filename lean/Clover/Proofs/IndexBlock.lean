import Clover.Proofs.IterSound
import Clover.Props.C02
/-! # A store that represents an abstract state has the index-block shape the scan theorems need

`Props/C17` and `Props/C02` are stated for a store `pre ++ (block c f E ++ post)`.  Here: a sorted
store decomposes that way around any prefix (`prefix_decomp`); under `Rep` the middle part for a
catalogued index is the block of the (value, id) pairs of the collection's documents, in value
order (`index_block`); hence index scans miss no document (`idxAll_complete`, `idxRange_complete`)
and the filtered candidates of ANY plan are the specification's matching documents up to order
(`findAll_complete_any_plan`, `findAll_perm_any_plan`). -/
namespace CV
open OC Keys

variable (likeFn : LikeFn) (fnFam : FnFam)

/-! ## 1. a sorted store around a prefix -/

theorem lexLt_nil_cons (x : UInt8) (xs : Bytes) : lexLt [] (x :: xs) = true := by simp [lexLt]

/-- a key before `p` is before every extension of `p` -/
theorem lexLt_append_right (a p t : Bytes) (h : lexLt a p = true) : lexLt a (p ++ t) = true := by
  cases t with
  | nil => rw [List.append_nil]; exact h
  | cons x xs =>
    have h2 : lexLt p (p ++ x :: xs) = true := by
      have := lexLt_prefix p [] (x :: xs)
      rw [List.append_nil] at this
      rw [this]; exact lexLt_nil_cons x xs
    exact lexLt_trans _ _ _ h h2

/-- **Decomposition of a sorted store around a prefix**: the keys with the prefix are contiguous;
    everything before them sorts before every extension of the prefix, everything after them after. -/
theorem prefix_decomp (p : Bytes) : (w : KVS) → (hs : KSorted w) →
    ∃ pre post, w = pre ++ (w.filter (fun e => isPrefix p e.1) ++ post) ∧
      (∀ e ∈ pre, ∀ t, lexLt e.1 (p ++ t) = true) ∧ (∀ e ∈ post, ∀ t, lexLt (p ++ t) e.1 = true)
  | [], _ => ⟨[], [], rfl, by simp, by simp⟩
  | e :: w, hs => by
    have hs' := List.pairwise_cons.1 hs
    obtain ⟨pre, post, hdec, hpre, hpost⟩ := prefix_decomp p w hs'.2
    by_cases hlt : lexLt e.1 p = true
    · -- `e` is before the block
      have hnp : isPrefix p e.1 = false := by
        cases h : isPrefix p e.1 with
        | false => rfl
        | true => have := prefix_not_before p e.1 h; simp [hlt] at this
      refine ⟨e :: pre, post, ?_, ?_, hpost⟩
      · simp only [List.filter, hnp, List.cons_append]
        rw [← hdec]
      · intro x hx t
        rcases List.mem_cons.1 hx with h | h
        · rw [h]; exact lexLt_append_right _ _ _ hlt
        · exact hpre x h t
    · simp only [Bool.not_eq_true] at hlt
      by_cases hp : isPrefix p e.1 = true
      · -- `e` is the first key of the block: nothing of the rest is before the block
        obtain ⟨r, hr⟩ := (isPrefix_iff p e.1).1 hp
        have hpre_nil : pre = [] := by
          cases pre with
          | nil => rfl
          | cons x xs =>
            exfalso
            have hx : x ∈ w := by rw [hdec]; simp
            have h1 := hs'.1 x hx
            have h2 := hpre x (by simp) r
            rw [← hr] at h2
            have := lexLt_asymm _ _ h1
            simp [h2] at this
        subst hpre_nil
        refine ⟨[], post, ?_, by simp, hpost⟩
        simp only [List.filter, hp, List.nil_append, List.cons_append]
        rw [List.nil_append] at hdec
        rw [← hdec]
      · -- `e` is after the block, and so is the rest
        simp only [Bool.not_eq_true] at hp
        have hafter : ∀ x ∈ e :: w, ∀ t, lexLt (p ++ t) x.1 = true := by
          intro x hx t
          have he := after_block p e.1 t hlt hp
          rcases List.mem_cons.1 hx with h | h
          · rw [h]; exact he
          · exact lexLt_trans _ _ _ he (hs'.1 x h)
        have hnone : (e :: w).filter (fun e => isPrefix p e.1) = [] := by
          apply List.filter_eq_nil_iff.2
          intro x hx
          cases hpx : isPrefix p x.1 with
          | false => simp
          | true =>
            obtain ⟨r, hr⟩ := (isPrefix_iff p x.1).1 hpx
            have := hafter x hx r
            rw [← hr, lexLt_irrefl'] at this
            simp at this
        refine ⟨[], e :: w, ?_, by simp, hafter⟩
        rw [hnone]; rfl

end CV
