import Clover.Proofs.IterSound
import Clover.Props.C17
import Clover.Proofs.PlannerModel
/-! # A store that represents an abstract state has the index-block shape the scan theorems need

`Props/C17` and `Props/C02` are stated for a store `pre ++ (block c f E ++ post)`.  Here: a sorted
store decomposes that way around any prefix (`prefix_decomp`); under `Rep` the middle part for a
catalogued index is the block of the (value, id) pairs of the collection's documents, in value
order (`index_block`); hence index scans miss no document (`idxAll_complete`, `idxRange_complete`)
and the filtered candidates of ANY plan are the specification's matching documents up to order
(`findAll_complete_any_plan`, `findAll_perm_any_plan`). -/
namespace CV
open OC Keys

variable (likeFn : LikeFn) (fnFam : FnFam)

/-! ## 1. a sorted store around a prefix -/

theorem lexLt_nil_cons (x : UInt8) (xs : Bytes) : lexLt [] (x :: xs) = true := by simp [lexLt]

/-- a key before `p` is before every extension of `p` -/
theorem lexLt_append_right (a p t : Bytes) (h : lexLt a p = true) : lexLt a (p ++ t) = true := by
  cases t with
  | nil => rw [List.append_nil]; exact h
  | cons x xs =>
    have h2 : lexLt p (p ++ x :: xs) = true := by
      have := lexLt_prefix p [] (x :: xs)
      rw [List.append_nil] at this
      rw [this]; exact lexLt_nil_cons x xs
    exact lexLt_trans _ _ _ h h2

/-- **Decomposition of a sorted store around a prefix**: the keys with the prefix are contiguous;
    everything before them sorts before every extension of the prefix, everything after them after. -/
theorem prefix_decomp (p : Bytes) : (w : KVS) → (hs : KSorted w) →
    ∃ pre post, w = pre ++ (w.filter (fun e => isPrefix p e.1) ++ post) ∧
      (∀ e ∈ pre, ∀ t, lexLt e.1 (p ++ t) = true) ∧ (∀ e ∈ post, ∀ t, lexLt (p ++ t) e.1 = true)
  | [], _ => ⟨[], [], rfl, by simp, by simp⟩
  | e :: w, hs => by
    have hs' := List.pairwise_cons.1 hs
    obtain ⟨pre, post, hdec, hpre, hpost⟩ := prefix_decomp p w hs'.2
    by_cases hlt : lexLt e.1 p = true
    · -- `e` is before the block
      have hnp : isPrefix p e.1 = false := by
        cases h : isPrefix p e.1 with
        | false => rfl
        | true => have := prefix_not_before p e.1 h; simp [hlt] at this
      refine ⟨e :: pre, post, ?_, ?_, hpost⟩
      · simp only [List.filter, hnp, List.cons_append]
        rw [← hdec]
      · intro x hx t
        rcases List.mem_cons.1 hx with h | h
        · rw [h]; exact lexLt_append_right _ _ _ hlt
        · exact hpre x h t
    · simp only [Bool.not_eq_true] at hlt
      by_cases hp : isPrefix p e.1 = true
      · -- `e` is the first key of the block: nothing of the rest is before the block
        obtain ⟨r, hr⟩ := (isPrefix_iff p e.1).1 hp
        have hpre_nil : pre = [] := by
          cases pre with
          | nil => rfl
          | cons x xs =>
            exfalso
            have hx : x ∈ w := by rw [hdec]; simp
            have h1 := hs'.1 x hx
            have h2 := hpre x (by simp) r
            rw [← hr] at h2
            have := lexLt_asymm _ _ h1
            simp [h2] at this
        subst hpre_nil
        refine ⟨[], post, ?_, by simp, hpost⟩
        simp only [List.filter, hp, List.nil_append, List.cons_append]
        rw [List.nil_append] at hdec
        rw [← hdec]
      · -- `e` is after the block, and so is the rest
        simp only [Bool.not_eq_true] at hp
        have hafter : ∀ x ∈ e :: w, ∀ t, lexLt (p ++ t) x.1 = true := by
          intro x hx t
          have he := after_block p e.1 t hlt hp
          rcases List.mem_cons.1 hx with h | h
          · rw [h]; exact he
          · exact lexLt_trans _ _ _ he (hs'.1 x h)
        have hnone : (e :: w).filter (fun e => isPrefix p e.1) = [] := by
          apply List.filter_eq_nil_iff.2
          intro x hx
          cases hpx : isPrefix p x.1 with
          | false => simp
          | true =>
            obtain ⟨r, hr⟩ := (isPrefix_iff p x.1).1 hpx
            have := hafter x hx r
            rw [← hr, lexLt_irrefl'] at this
            simp at this
        refine ⟨[], e :: w, ?_, by simp, hafter⟩
        rw [hnone]; rfl

/-! ## 2. the block of a catalogued index -/

theorem ib_kvGet_some_mem (σ : KVS) (k : Bytes) (v : SVal) (h : kvGet σ k = some v) : (k, v) ∈ σ := by
  rw [kvGet_eq_assoc] at h
  exact assoc_some_mem' k v σ h

/-- a stored entry under the prefix of a catalogued index is the empty-valued entry of a live document -/
theorem entry_live_unit (s : Spec.State) (w : KVS) (hw : WF s) (hr : Rep s w) (c : Bytes) (coll : Spec.Coll)
    (hl : Spec.lookup c s = some coll) (f : Bytes) (hf : f ∈ coll.indexes) (e : Bytes × SVal) (he : e ∈ w)
    (hp : isPrefix (idxPrefix c f) e.1 = true) :
    ∃ id d, Spec.lookup id coll.docs = some d ∧ e = (CV.idxKey c f (d.get f) id, SVal.unit) := by
  obtain ⟨hc, hcw⟩ := wf_lookup_clean s hw c coll hl
  obtain ⟨k, v⟩ := e
  simp only at hp
  obtain ⟨rest, hk⟩ := (isPrefix_iff _ _).1 hp
  have hkf : KeyField c k f := ⟨rest, hk⟩
  have hg : kvGet w k = some v := mem_kvGet w hr.1 (k, v) he
  have hd : HoldsD c ⟨coll.indexes, coll.docs⟩ k v := (parts_of_owned c coll w
    (fun k v ho => rep_owned s w hw hr c coll hl k v ho)).2 k v (Or.inr ⟨f, rest, hk⟩) |>.1 hg
  obtain ⟨_, id, d, hld, ek, ev⟩ := (holdsD_field c hc coll.indexes hcw.fieldsClean coll.docs f (hcw.fieldsClean f hf) k v hkf).1 hd
  exact ⟨id, d, hld, by rw [ek, ev]⟩

/-- conversely the entry of every live document is stored -/
theorem live_entry_stored (s : Spec.State) (w : KVS) (hw : WF s) (hr : Rep s w) (c : Bytes) (coll : Spec.Coll)
    (hl : Spec.lookup c s = some coll) (f : Bytes) (hf : f ∈ coll.indexes) (id : Bytes) (d : Doc)
    (hld : Spec.lookup id coll.docs = some d) : (CV.idxKey c f (d.get f) id, SVal.unit) ∈ w := by
  have hown : Owns c (CV.idxKey c f (d.get f) id) := Or.inr (Or.inr ⟨f, goKeyTail (d.get f) ++ id, rfl⟩)
  have hh : HoldsC c coll (CV.idxKey c f (d.get f) id) SVal.unit := .data _ _ (.idx f id d hf hld)
  exact ib_kvGet_some_mem w _ _ ((rep_owned s w hw hr c coll hl _ _ hown).2 hh)

theorem exists_map_of_forall {α β : Type} (g : β → α) (P : β → Prop) : (L : List α) →
    (∀ e ∈ L, ∃ x, e = g x ∧ P x) → ∃ E : List β, L = E.map g ∧ ∀ x ∈ E, P x
  | [], _ => ⟨[], rfl, by simp⟩
  | a :: t, h => by
    obtain ⟨x, hx, px⟩ := h a (by simp)
    obtain ⟨E, hE, hP⟩ := exists_map_of_forall g P t (fun e he => h e (List.mem_cons_of_mem _ he))
    refine ⟨x :: E, by rw [List.map_cons, ← hx, ← hE], ?_⟩
    intro y hy
    rcases List.mem_cons.1 hy with e | e
    · rw [e]; exact px
    · exact hP y e

/-- key order is value order: an entry stored before another has a value that is not greater -/
theorem ekey_lt_le (c f : Bytes) (a b : IEntry) (da : Dom numOK a.1) (db : Dom numOK b.1)
    (h : lexLt (ekey c f a) (ekey c f b) = true) : Pl.leE vord a b := by
  show cmp nkey a.1 b.1 ≤ 0
  by_cases hle : cmp nkey a.1 b.1 ≤ 0
  · exact hle
  · exfalso
    have anti := cmp_antisymm nkey a.1 b.1
    have hlt : cmp nkey b.1 a.1 < 0 := by omega
    have d := (c10_key_order b.1 a.1 db da).1 hlt b.2 a.2
    have h2 : lexLt (ekey c f b) (ekey c f a) = true := by
      show lexLt (Keys.idxPrefix c f ++ (goKeyTail b.1 ++ b.2)) (Keys.idxPrefix c f ++ (goKeyTail a.1 ++ a.2)) = true
      rw [lexLt_prefix]; exact diffLt_imp_lexLt _ _ d
    have := lexLt_asymm _ _ h2
    simp [h] at this

/-- the (value, id) pairs of a collection's documents for the index on `f` -/
def idxPairs (coll : Spec.Coll) (f : Bytes) : List IEntry := coll.docs.map (fun e => (e.2.get f, e.1))

theorem idxPairs_nodup (coll : Spec.Coll) (hcw : CollWF coll) (f : Bytes) : (idxPairs coll f).Nodup := by
  have h1 : coll.docs.Pairwise (fun a b => a.1 ≠ b.1) := List.pairwise_map.1 hcw.idsDistinct
  exact List.pairwise_map.2 (h1.imp (fun h e => h (congrArg Prod.snd e)))

/-- **The block of a catalogued index**: the stored keys under the index prefix are exactly the
    entries of the collection's documents, one per document, in value order. -/
theorem index_block (s : Spec.State) (w : KVS) (hw : WF s) (hr : Rep s w) (c : Bytes) (coll : Spec.Coll)
    (hl : Spec.lookup c s = some coll) (f : Bytes) (hf : f ∈ coll.indexes)
    (hdom : ∀ e ∈ coll.docs, Dom numOK (e.2.get f)) :
    ∃ E : List IEntry, w.filter (fun e => isPrefix (idxPrefix c f) e.1) = block c f E ∧
      E.Perm (coll.docs.map (fun e => (e.2.get f, e.1))) ∧ E.Pairwise (Pl.leE vord) := by
  obtain ⟨hc, hcw⟩ := wf_lookup_clean s hw c coll hl
  have hFs : KSorted (w.filter (fun e => isPrefix (idxPrefix c f) e.1)) := List.Pairwise.sublist List.filter_sublist hr.1
  obtain ⟨E, hE, hP⟩ := exists_map_of_forall (fun ie : IEntry => (ekey c f ie, SVal.unit))
    (fun ie => ∃ d, Spec.lookup ie.2 coll.docs = some d ∧ ie.1 = d.get f)
    (w.filter (fun e => isPrefix (idxPrefix c f) e.1)) (by
      intro e he
      obtain ⟨hew, hep⟩ := List.mem_filter.1 he
      obtain ⟨id, d, hld, ee⟩ := entry_live_unit s w hw hr c coll hl f hf e hew hep
      exact ⟨(d.get f, id), ee, d, hld, rfl⟩)
  have hmemD : ∀ a ∈ E, a ∈ idxPairs coll f := by
    intro a ha
    obtain ⟨d, hld, e1⟩ := hP a ha
    exact List.mem_map.2 ⟨(a.2, d), lookup_some_mem a.2 d _ hld, Prod.ext e1.symm rfl⟩
  refine ⟨E, hE, ?_, ?_⟩
  · -- no duplicates on either side, same members
    have hEnd : E.Nodup := by
      have h1 := ksorted_keys_nodup _ hFs
      rw [hE, List.map_map] at h1
      exact (List.pairwise_map.1 h1).imp (fun h e => h (by rw [e]))
    refine (List.perm_ext_iff_of_nodup hEnd (idxPairs_nodup coll hcw f)).2 (fun a => ⟨hmemD a, ?_⟩)
    intro ha
    obtain ⟨e, hed, ea⟩ := List.mem_map.1 ha
    have hld : Spec.lookup e.1 coll.docs = some e.2 := mem_lookup_some e.1 e.2 _ hcw.idsDistinct hed
    have hst := live_entry_stored s w hw hr c coll hl f hf e.1 e.2 hld
    have hin : (CV.idxKey c f (e.2.get f) e.1, SVal.unit) ∈ w.filter (fun e => isPrefix (idxPrefix c f) e.1) :=
      List.mem_filter.2 ⟨hst, isPrefix_append _ _⟩
    rw [hE] at hin
    obtain ⟨ie, hie, eie⟩ := List.mem_map.1 hin
    obtain ⟨d', hld', e1⟩ := hP ie hie
    have hk : ekey c f ie = CV.idxKey c f (e.2.get f) e.1 := congrArg Prod.fst eie
    have hid : ie.2 = e.1 := keyId_unique c (ekey c f ie) ie.2 e.1 hc
      (collWF_lookup coll hcw ie.2 d' hld').1.1 (collWF_lookup coll hcw e.1 e.2 hld).1.1
      (Or.inr ⟨f, goKeyTail ie.1, rfl⟩) (Or.inr ⟨f, goKeyTail (e.2.get f), hk⟩)
    rw [hid, hld] at hld'
    simp only [Option.some.injEq] at hld'
    have : ie = a := by rw [← ea]; exact Prod.ext (by rw [e1, hld']) hid
    rw [← this]; exact hie
  · -- sorted by key, hence by value
    have h1 : E.Pairwise (fun a b => lexLt (ekey c f a) (ekey c f b) = true) := by
      have := hFs
      rw [hE] at this
      exact List.pairwise_map.1 this
    have hdomE : ∀ a ∈ E, Dom numOK a.1 := by
      intro a ha
      obtain ⟨e, hed, ea⟩ := List.mem_map.1 (hmemD a ha)
      rw [← ea]; exact hdom e hed
    exact h1.imp_of_mem (fun ha hb h => ekey_lt_le c f _ _ (hdomE _ ha) (hdomE _ hb) h)

/-! ## 3. index scans miss no document -/

theorem idWF_idOK (id : Bytes) (h : IdWF id) : IdOK id := ⟨h.1, fun b hb => (h.2 b hb).2⟩

/-- **The store has the shape the scan theorems (`Props/C17`, `Props/C02`) are stated for**, with
    the block of index `f` holding exactly the (value, id) pairs of the collection's documents. -/
theorem store_shape (s : Spec.State) (w : KVS) (hw : WF s) (hr : Rep s w) (c : Bytes) (coll : Spec.Coll)
    (hl : Spec.lookup c s = some coll) (f : Bytes) (hf : f ∈ coll.indexes)
    (hdom : ∀ e ∈ coll.docs, Dom numOK (e.2.get f)) :
    ∃ pre post E, w = pre ++ (block c f E ++ post) ∧
      (∀ e ∈ pre, ∀ t, lexLt e.1 (Keys.idxPrefix c f ++ t) = true) ∧
      (∀ e ∈ post, ∀ t, lexLt (Keys.idxPrefix c f ++ t) e.1 = true) ∧
      (∀ e ∈ E, Dom numOK e.1 ∧ IdOK e.2) ∧ E.Pairwise (Pl.leE vord) ∧
      E.Perm (coll.docs.map (fun e => (e.2.get f, e.1))) := by
  obtain ⟨_, hcw⟩ := wf_lookup_clean s hw c coll hl
  obtain ⟨pre, post, hdec, hpre, hpost⟩ := prefix_decomp (Keys.idxPrefix c f) w hr.1
  obtain ⟨E, hF, hperm, hsorted⟩ := index_block s w hw hr c coll hl f hf hdom
  rw [hF] at hdec
  refine ⟨pre, post, E, hdec, hpre, hpost, ?_, hsorted, hperm⟩
  intro a ha
  obtain ⟨e, hed, ea⟩ := List.mem_map.1 (hperm.mem_iff.1 ha)
  rw [← ea]
  exact ⟨hdom e hed, idWF_idOK e.1 (hcw.idsWF e hed).1⟩

/-- a full iteration of a catalogued index fetches every document of the collection -/
theorem idxAll_complete (s : Spec.State) (w : KVS) (hw : WF s) (hr : Rep s w) (c : Bytes) (coll : Spec.Coll)
    (hl : Spec.lookup c s = some coll) (f : Bytes) (hf : f ∈ coll.indexes)
    (hdom : ∀ e ∈ coll.docs, Dom numOK (e.2.get f)) (rev : Bool) :
    ∀ e ∈ coll.docs, e.2 ∈ candidates w c (coll.docs.map (·.2)) (.idxAll f rev) := by
  obtain ⟨_, hcw⟩ := wf_lookup_clean s hw c coll hl
  obtain ⟨pre, post, E, hdec, hpre, hpost, hE, _, hperm⟩ := store_shape s w hw hr c coll hl f hf hdom
  have hids : iterateAllP w c f rev = (if rev then E.reverse else E).map (·.2) := by
    rw [hdec]; exact iterateAllP_exact c f pre post E hpre hpost hE rev
  intro e he
  have hld : Spec.lookup e.1 coll.docs = some e.2 := mem_lookup_some e.1 e.2 _ hcw.idsDistinct he
  have hda := docAt_live s w hw hr c coll hl e.1 e.2 hld
  have hin : (e.2.get f, e.1) ∈ E := hperm.mem_iff.2 (List.mem_map.2 ⟨e, he, rfl⟩)
  simp only [candidates, hids]
  refine List.mem_filterMap.2 ⟨e.1, ?_, hda⟩
  cases rev with
  | false => exact List.mem_map.2 ⟨_, hin, rfl⟩
  | true => exact List.mem_map.2 ⟨_, List.mem_reverse.2 hin, rfl⟩

/-- a range scan of a catalogued index fetches every document whose value passes the bound tests -/
theorem idxRange_complete (s : Spec.State) (w : KVS) (hw : WF s) (hr : Rep s w) (c : Bytes) (coll : Spec.Coll)
    (hl : Spec.lookup c s = some coll) (f : Bytes) (hf : f ∈ coll.indexes)
    (hdom : ∀ e ∈ coll.docs, Dom numOK (e.2.get f)) (r : Range) (hrs : Dom numOK r.start) (hre : Dom numOK r.stop)
    (rev : Bool) :
    ∀ e ∈ coll.docs, Pl.inScan vord r.abs (e.2.get f) = true →
      e.2 ∈ candidates w c (coll.docs.map (·.2)) (.idxRange f r rev) := by
  obtain ⟨_, hcw⟩ := wf_lookup_clean s hw c coll hl
  obtain ⟨pre, post, E, hdec, hpre, hpost, hE, hsorted, hperm⟩ := store_shape s w hw hr c coll hl f hf hdom
  have hids : iterateRangeP w c f r rev =
      (if rev then (E.filter (fun e => Pl.inScan vord r.abs e.1)).reverse
       else E.filter (fun e => Pl.inScan vord r.abs e.1)).map (·.2) := by
    rw [hdec]
    cases rev with
    | false =>
      rw [iterateRangeP_fwd c f pre post E r hpre hpost hE hrs hre, Pl.scanFwd_exact vord r.abs E hsorted]
      rfl
    | true =>
      rw [iterateRangeP_rev c f pre post E r hpre hpost hE hrs hre hsorted, Pl.scanRev_exact vord r.abs E hsorted]
      rfl
  intro e he hscan
  have hld : Spec.lookup e.1 coll.docs = some e.2 := mem_lookup_some e.1 e.2 _ hcw.idsDistinct he
  have hda := docAt_live s w hw hr c coll hl e.1 e.2 hld
  have hin : (e.2.get f, e.1) ∈ E.filter (fun e => Pl.inScan vord r.abs e.1) :=
    List.mem_filter.2 ⟨hperm.mem_iff.2 (List.mem_map.2 ⟨e, he, rfl⟩), hscan⟩
  simp only [candidates, hids]
  refine List.mem_filterMap.2 ⟨e.1, ?_, hda⟩
  cases rev with
  | false => exact List.mem_map.2 ⟨_, hin, rfl⟩
  | true => exact List.mem_map.2 ⟨_, List.mem_reverse.2 hin, rfl⟩

/-! ## 4. whatever the plan, the filtered candidates are the matching documents -/

/-- **No plan misses a matching document**: every document of the collection that satisfies the
    criteria is among the filtered candidates of the plan `choosePlan` builds — full scan, full
    index iteration (sort served by an index) or index range scan, in either direction.
    Domain: documents and criteria literals in the numeric domain (`AllNumKV numOK`, `CritOK`, what
    planner soundness needs); indexed values and the bounds of the chosen range in the key domain
    (`Dom numOK`, what scan exactness needs: additionally no time value before 1970). -/
theorem findAll_complete_any_plan (s : Spec.State) (w : KVS) (hw : WF s) (hr : Rep s w) (q : Query) (coll : Spec.Coll)
    (hl : Spec.lookup q.coll s = some coll)
    (hdocs : ∀ e ∈ coll.docs, AllNumKV numOK e.2) (hcrit : ∀ cr, q.crit = some cr → CritOK cr)
    (hdom : ∀ f ∈ coll.indexes, ∀ e ∈ coll.docs, Dom numOK (e.2.get f))
    (hrange : ∀ f r, indexQuery coll.indexes q.crit = some (f, r) → Dom numOK r.start ∧ Dom numOK r.stop) :
    ∀ d, d ∈ coll.docs.map (·.2) → satOpt likeFn fnFam d q.crit = true →
      d ∈ (candidates w q.coll (coll.docs.map (·.2)) (choosePlan coll.indexes q).1).filter
        (fun d => satOpt likeFn fnFam d q.crit) := by
  intro d hd hsat
  refine List.mem_filter.2 ⟨?_, hsat⟩
  obtain ⟨e, he, ed⟩ := List.mem_map.1 hd
  unfold choosePlan
  cases hq : indexQuery coll.indexes q.crit with
  | some p =>
    obtain ⟨f, r⟩ := p
    have hf := indexQuery_mem coll.indexes q.crit f r hq
    obtain ⟨hrs, hre⟩ := hrange f r hq
    have hscan : Pl.inScan vord r.abs (e.2.get f) = true := by
      cases hc : q.crit with
      | none => rw [hc] at hq; simp [indexQuery] at hq
      | some cr =>
        rw [hc] at hq hsat
        rw [← ed] at hsat
        exact planner_sound_model likeFn fnFam e.2 (hdocs e he) cr (hcrit cr hc) f hsat r
          (indexQuery_range coll.indexes cr f r hq)
    have hall : ∀ rev, d ∈ candidates w q.coll (coll.docs.map (·.2)) (.idxRange f r rev) := by
      intro rev
      rw [← ed]
      exact idxRange_complete s w hw hr q.coll coll hl f hf (hdom f hf) r hrs hre rev e he hscan
    simp only
    split
    · split <;> exact hall _
    · exact hall _
  | none =>
    simp only
    split
    · split
      · rename_i sf dir _ h
        have hf : sf ∈ coll.indexes := by simpa using h
        rw [← ed]
        exact idxAll_complete s w hw hr q.coll coll hl sf hf (hdom sf hf) _ e he
      · exact hd
    · exact hd

theorem nodup_of_map_nodup {α β : Type} (g : α → β) (l : List α) (h : (l.map g).Nodup) : l.Nodup :=
  (List.pairwise_map.1 h).imp (fun h e => h (by rw [e]))

/-- **Index transparency**: the filtered candidates of ANY plan are, up to order, the
    specification's matching documents (`candidates_live` + `findAll_complete_any_plan`). -/
theorem findAll_perm_any_plan (s : Spec.State) (w : KVS) (hw : WF s) (hr : Rep s w) (q : Query) (coll : Spec.Coll)
    (hl : Spec.lookup q.coll s = some coll)
    (hdocs : ∀ e ∈ coll.docs, AllNumKV numOK e.2) (hcrit : ∀ cr, q.crit = some cr → CritOK cr)
    (hdom : ∀ f ∈ coll.indexes, ∀ e ∈ coll.docs, Dom numOK (e.2.get f))
    (hrange : ∀ f r, indexQuery coll.indexes q.crit = some (f, r) → Dom numOK r.start ∧ Dom numOK r.stop) :
    ((candidates w q.coll (coll.docs.map (·.2)) (choosePlan coll.indexes q).1).filter
        (fun d => satOpt likeFn fnFam d q.crit)).Perm
      ((coll.docs.map (·.2)).filter (fun d => satOpt likeFn fnFam d q.crit)) := by
  have hplan := candidates_live s w hw hr q.coll coll hl (choosePlan coll.indexes q).1 (choosePlan_fieldIn coll.indexes q)
  have hfull := candidates_live s w hw hr q.coll coll hl .full trivial
  simp only [candidates] at hfull
  simp only at hplan
  have hnd1 := (List.filter_sublist (p := fun d => satOpt likeFn fnFam d q.crit)).nodup
    (nodup_of_map_nodup Doc.objectId _ hplan.2)
  have hnd2 := (List.filter_sublist (p := fun d => satOpt likeFn fnFam d q.crit)).nodup
    (nodup_of_map_nodup Doc.objectId _ hfull.2)
  refine (List.perm_ext_iff_of_nodup hnd1 hnd2).2 (fun a => ⟨?_, ?_⟩)
  · intro ha
    obtain ⟨hac, hsat⟩ := List.mem_filter.1 ha
    have hld := hplan.1 a hac
    exact List.mem_filter.2 ⟨List.mem_map.2 ⟨(a.objectId, a), lookup_some_mem _ _ _ hld, rfl⟩, hsat⟩
  · intro ha
    obtain ⟨had, hsat⟩ := List.mem_filter.1 ha
    exact findAll_complete_any_plan likeFn fnFam s w hw hr q coll hl hdocs hcrit hdom hrange a had hsat

/-! ## the bounds of the chosen range are in the key domain when the criteria literals are -/

/-- literal operands in the key domain (`CritOK` + no time literal before 1970) -/
def OperandDom : Operand → Prop
  | .lit v => Dom numOK v
  | .ref _ => True

def CritDom : Crit → Prop
  | .cmp _ _ x => OperandDom x
  | .and a b => CritDom a ∧ CritDom b
  | .or a b => CritDom a ∧ CritDom b
  | .not a => CritDom a
  | _ => True

theorem negLeaf_dom (op : CmpOp) (f : Bytes) (x : Operand) (h : OperandDom x) : CritDom (negLeaf op f x) := by
  cases op <;> simp [negLeaf, CritDom, h]

mutual
theorem flatten_dom : (c : Crit) → CritDom c → CritDom (flatten c)
  | .cmp _ _ _, h => h
  | .and a b, h => ⟨flatten_dom a h.1, flatten_dom b h.2⟩
  | .or a b, h => ⟨flatten_dom a h.1, flatten_dom b h.2⟩
  | .not a, h => flattenNot_dom a h
  | .exists_ _, _ => trivial
  | .like _ _, _ => trivial
  | .isIn _ _, _ => trivial
  | .contains _ _, _ => trivial
  | .fn _, _ => trivial
theorem flattenNot_dom : (c : Crit) → CritDom c → CritDom (flattenNot c)
  | .cmp op f x, h => negLeaf_dom op f x h
  | .and a b, h => ⟨flattenNot_dom a h.1, flattenNot_dom b h.2⟩
  | .or a b, h => ⟨flattenNot_dom a h.1, flattenNot_dom b h.2⟩
  | .not _, h => h
  | .exists_ _, _ => trivial
  | .like _ _, _ => trivial
  | .isIn _ _, _ => trivial
  | .contains _ _, _ => trivial
  | .fn _, _ => trivial
end

def RangeKeyDom (r : Range) : Prop := Dom numOK r.start ∧ Dom numOK r.stop

theorem toRange_dom (op : CmpOp) (x : Operand) (hx : OperandDom x) (r : Range) (h : toRange op x = some r) :
    RangeKeyDom r := by
  have hn : Dom numOK Value.null := by simp [Dom]
  cases x with
  | ref n => simp [toRange] at h
  | lit v =>
    have hv : Dom numOK v := hx
    simp only [toRange] at h
    split at h
    · simp at h
    · split at h
      · simp at h
      · cases op <;> simp only [Option.some.injEq] at h <;>
          (rw [← h]; exact ⟨by first | exact hv | exact hn, by first | exact hv | exact hn⟩)

theorem intersect_dom (r r2 : Range) (h1 : RangeKeyDom r) (h2 : RangeKeyDom r2) : RangeKeyDom (r.intersect r2) := by
  unfold RangeKeyDom Range.intersect interStart interStop
  constructor
  · simp only; split
    · exact h2.1
    · split
      · exact h1.1
      · split
        · exact h2.1
        · exact h1.1
  · simp only; split
    · exact h2.2
    · split
      · exact h1.2
      · split
        · exact h2.2
        · exact h1.2

theorem fieldRange_dom (f : Bytes) : (c : Crit) → CritDom c → ∀ r, fieldRange f c = some r → RangeKeyDom r
  | .cmp op g x, hc => by
    intro r h
    simp only [fieldRange] at h
    split at h
    · exact toRange_dom op x hc r h
    · simp at h
  | .and a b, hc => by
    intro r h
    have ha := fieldRange_dom f a hc.1
    have hb := fieldRange_dom f b hc.2
    simp only [fieldRange] at h
    cases hra : fieldRange f a with
    | none =>
      cases hrb : fieldRange f b with
      | none => rw [hra, hrb] at h; simp [mergeAnd] at h
      | some r2 =>
        rw [hra, hrb] at h; simp only [mergeAnd, Option.some.injEq] at h
        rw [← h]; exact hb r2 hrb
    | some r1 =>
      cases hrb : fieldRange f b with
      | none =>
        rw [hra, hrb] at h; simp only [mergeAnd, Option.some.injEq] at h
        rw [← h]; exact ha r1 hra
      | some r2 =>
        rw [hra, hrb] at h; simp only [mergeAnd, Option.some.injEq] at h
        rw [← h]; exact intersect_dom r1 r2 (ha r1 hra) (hb r2 hrb)
  | .or _ _, _ => fun r h => by simp [fieldRange] at h
  | .not _, _ => fun r h => by simp [fieldRange] at h
  | .exists_ _, _ => fun r h => by simp [fieldRange] at h
  | .like _ _, _ => fun r h => by simp [fieldRange] at h
  | .isIn _ _, _ => fun r h => by simp [fieldRange] at h
  | .contains _ _, _ => fun r h => by simp [fieldRange] at h
  | .fn _, _ => fun r h => by simp [fieldRange] at h

/-- the range of the single index query has its bounds in the key domain -/
theorem indexQuery_dom (indexed : List Bytes) (crit : Option Crit) (hc : ∀ cr, crit = some cr → CritDom cr)
    (f : Bytes) (r : Range) (h : indexQuery indexed crit = some (f, r)) : Dom numOK r.start ∧ Dom numOK r.stop := by
  cases crit with
  | none => simp [indexQuery] at h
  | some c =>
    exact fieldRange_dom f (flatten c) (flatten_dom c (hc c rfl)) r (indexQuery_range indexed c f r h)

/-- **Index transparency**, with the range hypothesis discharged from the criteria: documents and
    criteria literals in the numeric domain, indexed values and criteria literals in the key domain. -/
theorem findAll_perm_any_plan' (s : Spec.State) (w : KVS) (hw : WF s) (hr : Rep s w) (q : Query) (coll : Spec.Coll)
    (hl : Spec.lookup q.coll s = some coll)
    (hdocs : ∀ e ∈ coll.docs, AllNumKV numOK e.2) (hcrit : ∀ cr, q.crit = some cr → CritOK cr ∧ CritDom cr)
    (hdom : ∀ f ∈ coll.indexes, ∀ e ∈ coll.docs, Dom numOK (e.2.get f)) :
    ((candidates w q.coll (coll.docs.map (·.2)) (choosePlan coll.indexes q).1).filter
        (fun d => satOpt likeFn fnFam d q.crit)).Perm
      ((coll.docs.map (·.2)).filter (fun d => satOpt likeFn fnFam d q.crit)) :=
  findAll_perm_any_plan likeFn fnFam s w hw hr q coll hl hdocs (fun cr h => (hcrit cr h).1) hdom
    (indexQuery_dom coll.indexes q.crit (fun cr h => (hcrit cr h).2))

end CV
