import Clover.Model.DB
import Clover.Proofs.Paths
import Clover.Proofs.ByteOrder
/-! # `SetAll` does not depend on the iteration order of its map

`Document.SetAll` (document/document.go) ranges over a Go map, i.e. in an unspecified order; the
model (`Upd.setAll`) applies the pairs in list order.  The two agree whenever the field names of
the update map are pairwise not prefix-related (`Unrelated` on the dotted paths): any permutation
of the pairs gives the same document (`setAll_perm`, `updApply_setAll_perm`).  For prefix-related
names (`"n"` and `"n.a"`) the order is observable (`setAll_order_matters`).

Sortedness of the document turned out NOT to be needed for the commutation laws: `insertKey`
commutes on arbitrary association lists because `lexLt` is a strict total order.  The hereditary
well-formedness predicate `DocOK` (keys strictly increasing at every level) is nevertheless
defined here and shown to be preserved by `insertKey` / `setPath` / `Doc.set` / `SetAll`. -/
namespace CV
open OC

/-! ## `insertKey` -/

/-- keys strictly increasing (one level) -/
def KeysInc (m : Doc) : Prop := m.Pairwise (fun a b => lexLt a.1 b.1 = true)

theorem insertKey_nil (k : Bytes) (v : Value) : insertKey k v [] = [(k, v)] := rfl

theorem insertKey_cons_lt (k : Bytes) (v : Value) (k' : Bytes) (v' : Value) (t : Doc)
    (h : lexLt k k' = true) : insertKey k v ((k', v') :: t) = (k, v) :: (k', v') :: t := by
  simp only [insertKey, h, if_true]

theorem insertKey_cons_eq (k : Bytes) (v : Value) (v' : Value) (t : Doc) :
    insertKey k v ((k, v') :: t) = (k, v) :: t := by
  simp only [insertKey, lexLt_irrefl' k, Bool.false_eq_true, if_false, if_true]

theorem insertKey_cons_gt (k : Bytes) (v : Value) (k' : Bytes) (v' : Value) (t : Doc)
    (h : lexLt k' k = true) : insertKey k v ((k', v') :: t) = (k', v') :: insertKey k v t := by
  have h1 : lexLt k k' = false := lexLt_asymm' k' k h
  have h2 : k ≠ k' := fun e => lexLt_ne k' k h e.symm
  simp only [insertKey, h1, h2, Bool.false_eq_true, if_false]

/-- assigning the same key twice: the second assignment wins (no sortedness needed) -/
theorem insertKey_idem (k : Bytes) (v v' : Value) : (m : Doc) →
    insertKey k v (insertKey k v' m) = insertKey k v m
  | [] => by rw [insertKey_nil, insertKey_cons_eq, insertKey_nil]
  | (a, x) :: t => by
    by_cases e : k = a
    · subst e
      rw [insertKey_cons_eq, insertKey_cons_eq, insertKey_cons_eq]
    · rcases lexLt_total k a e with h | h
      · rw [insertKey_cons_lt k v' a x t h, insertKey_cons_eq, insertKey_cons_lt k v a x t h]
      · rw [insertKey_cons_gt k v' a x t h, insertKey_cons_gt k v a x _ h, insertKey_cons_gt k v a x t h,
          insertKey_idem k v v' t]

/-- the ordered case of `insertKey_comm` -/
theorem insertKey_comm_lt (k k' : Bytes) (v v' : Value) (hlt : lexLt k k' = true) : (m : Doc) →
    insertKey k v (insertKey k' v' m) = insertKey k' v' (insertKey k v m)
  | [] => by
    rw [insertKey_nil, insertKey_nil, insertKey_cons_lt k v k' v' [] hlt,
      insertKey_cons_gt k' v' k v [] hlt, insertKey_nil]
  | (a, x) :: t => by
    by_cases e' : k' = a
    · subst e'
      rw [insertKey_cons_eq, insertKey_cons_lt k v k' v' t hlt, insertKey_cons_lt k v k' x t hlt,
        insertKey_cons_gt k' v' k v _ hlt, insertKey_cons_eq]
    · rcases lexLt_total k' a e' with h' | h'
      · -- k < k' < a
        have h : lexLt k a = true := lexLt_trans k k' a hlt h'
        rw [insertKey_cons_lt k' v' a x t h', insertKey_cons_lt k v k' v' _ hlt,
          insertKey_cons_lt k v a x t h, insertKey_cons_gt k' v' k v _ hlt,
          insertKey_cons_lt k' v' a x t h']
      · -- a < k'
        rw [insertKey_cons_gt k' v' a x t h']
        by_cases e : k = a
        · subst e
          rw [insertKey_cons_eq, insertKey_cons_eq, insertKey_cons_gt k' v' k v t hlt]
        · rcases lexLt_total k a e with h | h
          · rw [insertKey_cons_lt k v a x _ h, insertKey_cons_lt k v a x t h,
              insertKey_cons_gt k' v' k v _ hlt, insertKey_cons_gt k' v' a x t h']
          · rw [insertKey_cons_gt k v a x _ h, insertKey_cons_gt k v a x t h,
              insertKey_cons_gt k' v' a x _ h', insertKey_comm_lt k k' v v' hlt t]

/-- assignments to two different keys commute — on ANY association list, sorted or not
    (`lexLt` is a strict total order, so both keys find their place independently) -/
theorem insertKey_comm (k k' : Bytes) (v v' : Value) (hne : k ≠ k') (m : Doc) :
    insertKey k v (insertKey k' v' m) = insertKey k' v' (insertKey k v m) := by
  rcases lexLt_total k k' hne with h | h
  · exact insertKey_comm_lt k k' v v' h m
  · exact (insertKey_comm_lt k' k v' v h m).symm

theorem mem_insertKey (k : Bytes) (v : Value) (p : Bytes × Value) : (m : Doc) →
    p ∈ insertKey k v m → p = (k, v) ∨ p ∈ m
  | [], h => by
    rw [insertKey_nil] at h
    exact Or.inl (List.mem_singleton.1 h)
  | (a, x) :: t, h => by
    by_cases e : k = a
    · subst e
      rw [insertKey_cons_eq] at h
      rcases List.mem_cons.1 h with e1 | e1
      · exact Or.inl e1
      · exact Or.inr (List.mem_cons_of_mem _ e1)
    · rcases lexLt_total k a e with hl | hl
      · rw [insertKey_cons_lt k v a x t hl] at h
        rcases List.mem_cons.1 h with e1 | e1
        · exact Or.inl e1
        · exact Or.inr e1
      · rw [insertKey_cons_gt k v a x t hl] at h
        rcases List.mem_cons.1 h with e1 | e1
        · exact Or.inr (by rw [e1]; exact List.mem_cons_self)
        · rcases mem_insertKey k v p t e1 with e2 | e2
          · exact Or.inl e2
          · exact Or.inr (List.mem_cons_of_mem _ e2)

/-- `insertKey` keeps the keys strictly increasing -/
theorem insertKey_sorted (k : Bytes) (v : Value) : (m : Doc) → KeysInc m → KeysInc (insertKey k v m)
  | [], _ => by
    rw [insertKey_nil]
    exact List.pairwise_singleton _ _
  | (a, x) :: t, hs => by
    have hs' := List.pairwise_cons.1 hs
    by_cases e : k = a
    · subst e
      rw [insertKey_cons_eq]
      exact List.pairwise_cons.2 ⟨hs'.1, hs'.2⟩
    · rcases lexLt_total k a e with hl | hl
      · rw [insertKey_cons_lt k v a x t hl]
        refine List.pairwise_cons.2 ⟨?_, hs⟩
        intro q hq
        rcases List.mem_cons.1 hq with e1 | e1
        · rw [e1]; exact hl
        · exact lexLt_trans _ _ _ hl (hs'.1 q e1)
      · rw [insertKey_cons_gt k v a x t hl]
        refine List.pairwise_cons.2 ⟨?_, insertKey_sorted k v t hs'.2⟩
        intro q hq
        rcases mem_insertKey k v q t hq with e1 | e1
        · rw [e1]; exact hl
        · exact hs'.1 q e1

/-! ## hereditary well-formedness of documents -/

mutual
/-- a value is well formed: every map inside it (not looking into arrays, which `Set` never
    enters) has strictly increasing keys -/
def ValOK : Value → Prop
  | .obj kvs => KeysInc kvs ∧ ObjFieldsOK kvs
  | _ => True
/-- every field value is well formed -/
def ObjFieldsOK : List (Bytes × Value) → Prop
  | [] => True
  | (_, v) :: t => ValOK v ∧ ObjFieldsOK t
end

/-- keys strictly increasing at this level and at every nested map level -/
def DocOK (d : Doc) : Prop := KeysInc d ∧ ObjFieldsOK d

theorem valOK_obj (kvs : List (Bytes × Value)) : ValOK (.obj kvs) ↔ DocOK kvs := by
  rw [ValOK]; exact Iff.rfl

theorem objFieldsOK_nil : ObjFieldsOK [] := by rw [ObjFieldsOK]; trivial

theorem objFieldsOK_cons (k : Bytes) (v : Value) (t : List (Bytes × Value)) :
    ObjFieldsOK ((k, v) :: t) ↔ ValOK v ∧ ObjFieldsOK t := by
  rw [ObjFieldsOK]

theorem docOK_nil : DocOK [] := ⟨List.Pairwise.nil, objFieldsOK_nil⟩

theorem objFieldsOK_mem : (m : List (Bytes × Value)) → ObjFieldsOK m → ∀ e ∈ m, ValOK e.2
  | [], _, e, he => by cases he
  | (k, v) :: t, h, e, he => by
    have h' := (objFieldsOK_cons k v t).1 h
    rcases List.mem_cons.1 he with e1 | e1
    · rw [e1]; exact h'.1
    · exact objFieldsOK_mem t h'.2 e e1

theorem insertKey_objFieldsOK (k : Bytes) (v : Value) (hv : ValOK v) : (m : Doc) →
    ObjFieldsOK m → ObjFieldsOK (insertKey k v m)
  | [], _ => by
    rw [insertKey_nil]
    exact (objFieldsOK_cons k v []).2 ⟨hv, objFieldsOK_nil⟩
  | (a, x) :: t, h => by
    have h' := (objFieldsOK_cons a x t).1 h
    by_cases e : k = a
    · subst e
      rw [insertKey_cons_eq]
      exact (objFieldsOK_cons k v t).2 ⟨hv, h'.2⟩
    · rcases lexLt_total k a e with hl | hl
      · rw [insertKey_cons_lt k v a x t hl]
        exact (objFieldsOK_cons k v _).2 ⟨hv, h⟩
      · rw [insertKey_cons_gt k v a x t hl]
        exact (objFieldsOK_cons a x _).2 ⟨h'.1, insertKey_objFieldsOK k v hv t h'.2⟩

theorem insertKey_ok (k : Bytes) (v : Value) (m : Doc) (hm : DocOK m) (hv : ValOK v) :
    DocOK (insertKey k v m) :=
  ⟨insertKey_sorted k v m hm.1, insertKey_objFieldsOK k v hv m hm.2⟩

theorem lookupKey_mem (k : Bytes) (x : Value) : (m : Doc) → lookupKey k m = some x → (k, x) ∈ m
  | [], h => by simp [lookupKey] at h
  | (a, y) :: t, h => by
    simp only [lookupKey] at h
    by_cases e : k = a
    · rw [if_pos e] at h
      cases h
      rw [e]; exact List.mem_cons_self
    · rw [if_neg e] at h
      exact List.mem_cons_of_mem _ (lookupKey_mem k x t h)

/-! ## `setPath` -/

/-- the sub-map `lookupField(force=true)` descends into at key `k` (a fresh map when the field is
    missing or not a map) -/
def subOf (k : Bytes) (m : Doc) : Doc :=
  match lookupKey k m with
  | some (.obj sub) => sub
  | _ => []

theorem setPath_one (m : Doc) (k : Bytes) (v : Value) : setPath m [k] v = insertKey k v m := by
  rw [setPath]

theorem setPath_two (m : Doc) (k k2 : Bytes) (rest : List Bytes) (v : Value) :
    setPath m (k :: k2 :: rest) v = insertKey k (.obj (setPath (subOf k m) (k2 :: rest) v)) m := by
  rw [setPath, subOf]
  · rfl
  · intro h; cases h

theorem subOf_ok (k : Bytes) (m : Doc) (hm : DocOK m) : DocOK (subOf k m) := by
  unfold subOf
  cases h : lookupKey k m with
  | none => exact docOK_nil
  | some x =>
    cases x with
    | obj sub =>
      dsimp only
      exact (valOK_obj sub).1 (objFieldsOK_mem m hm.2 _ (lookupKey_mem k _ m h))
    | _ => exact docOK_nil

theorem subOf_insertKey_ne (k k' : Bytes) (v : Value) (m : Doc) (h : k' ≠ k) :
    subOf k' (insertKey k v m) = subOf k' m := by
  unfold subOf
  rw [lookupKey_insertKey, if_neg h]

theorem subOf_insertKey_same (k : Bytes) (s : Doc) (m : Doc) :
    subOf k (insertKey k (.obj s) m) = s := by
  unfold subOf
  rw [lookupKey_insertKey, if_pos rfl]

/-- `Set` keeps a well-formed document well formed -/
theorem setPath_ok : (p : List Bytes) → (d : Doc) → (v : Value) → DocOK d → ValOK v →
    DocOK (setPath d p v)
  | [], d, v, hd, _ => by rw [setPath]; exact hd
  | [k], d, v, hd, hv => by rw [setPath_one]; exact insertKey_ok k v d hd hv
  | k :: k2 :: rest, d, v, hd, hv => by
    rw [setPath_two]
    apply insertKey_ok k _ d hd
    exact (valOK_obj _).2 (setPath_ok (k2 :: rest) (subOf k d) v (subOf_ok k d hd) hv)

theorem unrelated_symm : (p q : List Bytes) → Unrelated p q → Unrelated q p
  | [], _, h => by simp [Unrelated] at h
  | _ :: _, [], h => by simp [Unrelated] at h
  | a :: as, b :: bs, h => by
    simp only [Unrelated] at h ⊢
    rcases h with h | h
    · exact Or.inl (fun e => h e.symm)
    · exact Or.inr (unrelated_symm as bs h)

theorem unrelated_irrefl : (p : List Bytes) → ¬ Unrelated p p
  | [], h => by simp [Unrelated] at h
  | a :: as, h => by
    simp only [Unrelated] at h
    rcases h with h | h
    · exact h rfl
    · exact unrelated_irrefl as h

/-- assignments to two paths none of which is a prefix of the other commute
    (on any document: no well-formedness hypothesis is needed) -/
theorem setPath_comm : (d : Doc) → (p q : List Bytes) → (v w : Value) → Unrelated p q →
    setPath (setPath d p v) q w = setPath (setPath d q w) p v
  | _, [], _, _, _, h => by simp [Unrelated] at h
  | _, _ :: _, [], _, _, h => by simp [Unrelated] at h
  | d, [k], [k'], v, w, h => by
    simp only [Unrelated, or_false] at h
    rw [setPath_one, setPath_one, setPath_one, setPath_one]
    exact insertKey_comm k' k w v (fun e => h e.symm) _
  | d, [k], k' :: q2 :: qs, v, w, h => by
    simp only [Unrelated, or_false] at h
    have hne : k' ≠ k := fun e => h e.symm
    rw [setPath_one, setPath_two, setPath_two, setPath_one, subOf_insertKey_ne k k' v d hne]
    exact insertKey_comm k' k _ v hne _
  | d, k :: p2 :: ps, [k'], v, w, h => by
    simp only [Unrelated, or_false] at h
    have hne : k' ≠ k := fun e => h e.symm
    rw [setPath_one, setPath_two, setPath_two, setPath_one, subOf_insertKey_ne k' k w d h]
    exact insertKey_comm k' k w _ hne _
  | d, k :: p2 :: ps, k' :: q2 :: qs, v, w, h => by
    by_cases hk : k = k'
    · subst hk
      have hu : Unrelated (p2 :: ps) (q2 :: qs) := by
        simp only [Unrelated] at h
        rcases h with h | h
        · exact absurd rfl h
        · exact h
      rw [setPath_two d, setPath_two d, setPath_two, setPath_two, subOf_insertKey_same,
        subOf_insertKey_same, insertKey_idem, insertKey_idem,
        setPath_comm (subOf k d) (p2 :: ps) (q2 :: qs) v w hu]
    · have hne : k' ≠ k := fun e => hk e.symm
      rw [setPath_two d, setPath_two d, setPath_two, setPath_two, subOf_insertKey_ne k k' _ d hne,
        subOf_insertKey_ne k' k _ d hk]
      exact insertKey_comm k' k _ _ hne _

/-! ## `Doc.set` and `SetAll` -/

theorem set_ok (d : Doc) (a : Bytes) (v : Value) (hd : DocOK d) (hv : ValOK v) : DocOK (d.set a v) :=
  setPath_ok (splitDots a) d v hd hv

/-- `Set` on two names that are not prefix-related (as dotted paths) commutes -/
theorem set_comm (d : Doc) (a b : Bytes) (v w : Value) (h : Unrelated (splitDots a) (splitDots b)) :
    (d.set a v).set b w = (d.set b w).set a v :=
  setPath_comm d (splitDots a) (splitDots b) v w h

/-- the loop of `SetAll`, pairs taken in list order (the body of `Upd.apply (.setAll kvs)`) -/
def setAllFold (kvs : List (Bytes × Value)) (d : Doc) : Doc :=
  kvs.foldl (fun d (k, v) => d.set k v) d

/-- the names of an update map are pairwise not prefix-related -/
def NamesUnrelated (kvs : List (Bytes × Value)) : Prop :=
  kvs.Pairwise (fun x y => Unrelated (splitDots x.1) (splitDots y.1))

/-- in particular the names are distinct (as they are in a Go map) -/
theorem namesUnrelated_nodup (kvs : List (Bytes × Value)) (h : NamesUnrelated kvs) :
    (kvs.map (·.1)).Nodup := by
  unfold NamesUnrelated at h
  rw [List.Nodup, List.pairwise_map]
  refine h.imp ?_
  intro x y hxy e
  rw [e] at hxy
  exact unrelated_irrefl _ hxy

theorem namesUnrelated_perm {kvs kvs' : List (Bytes × Value)} (hp : kvs.Perm kvs')
    (h : NamesUnrelated kvs) : NamesUnrelated kvs' :=
  (List.Perm.pairwise_iff (fun hxy => unrelated_symm _ _ hxy) hp).1 h

/-- MAIN: the result of `SetAll` does not depend on the order in which the pairs are applied,
    provided the names are pairwise not prefix-related.  (Holds for every document and all
    values; no well-formedness hypothesis is needed.) -/
theorem setAll_perm {kvs kvs' : List (Bytes × Value)} (hp : kvs.Perm kvs')
    (hu : kvs.Pairwise (fun x y => Unrelated (splitDots x.1) (splitDots y.1))) (d : Doc) :
    kvs.foldl (fun d (k, v) => d.set k v) d = kvs'.foldl (fun d (k, v) => d.set k v) d := by
  induction hp generalizing d with
  | nil => rfl
  | cons x _ ih =>
    simp only [List.foldl_cons]
    exact ih (List.pairwise_cons.1 hu).2 _
  | swap x y l =>
    have h1 := List.pairwise_cons.1 hu
    have hyx : Unrelated (splitDots y.1) (splitDots x.1) := h1.1 x List.mem_cons_self
    simp only [List.foldl_cons]
    rw [set_comm d y.1 x.1 y.2 x.2 hyx]
  | trans hp1 _ ih1 ih2 =>
    rw [ih1 hu d]
    exact ih2 (namesUnrelated_perm hp1 hu) d

/-- the same for the model's updater: `Update` gives the same document whatever the iteration
    order of the Go map -/
theorem updApply_setAll_perm {kvs kvs' : List (Bytes × Value)} (hp : kvs.Perm kvs')
    (hu : NamesUnrelated kvs) (d : Doc) :
    Upd.apply (.setAll kvs) d = Upd.apply (.setAll kvs') d := by
  simp only [Upd.apply]
  rw [setAll_perm hp hu d]

/-- `SetAll` keeps a well-formed document well formed (values well formed) -/
theorem setAll_ok : (kvs : List (Bytes × Value)) → (d : Doc) → DocOK d → (∀ e ∈ kvs, ValOK e.2) →
    DocOK (kvs.foldl (fun d (k, v) => d.set k v) d)
  | [], d, hd, _ => hd
  | (k, v) :: t, d, hd, hv => by
    simp only [List.foldl_cons]
    exact setAll_ok t (d.set k v) (set_ok d k v hd (hv (k, v) List.mem_cons_self))
      (fun e he => hv e (List.mem_cons_of_mem _ he))

/-! ## why the hypothesis is there: prefix-related names -/

/-- `{"n": null, "n.a": true}` applied to the empty document: `n` first gives `{n: {a: true}}`
    (the second `Set` replaces the non-map `n` by a fresh map), `n.a` first gives `{n: null}` -/
theorem setAll_order_matters :
    let n : Bytes := [0x6E]
    let na : Bytes := [0x6E, 0x2E, 0x61]
    let kvs : List (Bytes × Value) := [(n, .null), (na, .bool true)]
    let kvs' : List (Bytes × Value) := [(na, .bool true), (n, .null)]
    kvs.Perm kvs' ∧
    Upd.apply (.setAll kvs) [] = some [(n, .obj [([0x61], .bool true)])] ∧
    Upd.apply (.setAll kvs') [] = some [(n, .null)] ∧
    Upd.apply (.setAll kvs) [] ≠ Upd.apply (.setAll kvs') [] := by
  intro n na kvs kvs'
  have h1 : Upd.apply (.setAll kvs) [] = some [(n, .obj [([0x61], .bool true)])] := rfl
  have h2 : Upd.apply (.setAll kvs') [] = some [(n, .null)] := rfl
  refine ⟨List.Perm.swap _ _ _, h1, h2, ?_⟩
  rw [h1, h2]
  intro h
  cases h

end CV
