import Clover.Model.Json
import Clover.Proofs.ExportImport
import Clover.Proofs.Paths
/-! # RFC 3339: what `ImportCollection` reads back is what `ExportCollection` wrote

1. the calendar algorithms (`civilFromDays`, `daysFromCivil`: Hinnant) are inverse to each other,
2. the digit printer and reader are inverse to each other,
3. `parseRfc3339 (rfc3339 ns off) = some (ns, off)`, and a document with an expiration survives
   export + import (`restoreExpiresAt (jsonTypeDoc d)`). -/
namespace CV

/-! ## 1. calendar -/

/-- one era (400 years = 146097 days), day `doe` written as century `c`, 4-year cycle `q`, rest `r2`:
    the year-of-era formula is within the right year -/
theorem yoe_core (doe c q r2 : Nat) (hc : c ≤ 3) (hq : q ≤ 24) (hr2 : r2 < 1461)
    (hq24 : q = 24 → r2 < 1460) (hdoe : doe = 36524 * c + 1461 * q + r2) (yoe : Nat)
    (hyoe : yoe = (doe - doe / 1460 + doe / 36524 - doe / 146096) / 365) :
    yoe ≤ 399 ∧ 365 * yoe + yoe / 4 - yoe / 100 ≤ doe ∧ doe < 365 * yoe + yoe / 4 - yoe / 100 + 366 := by
  have hB : doe / 36524 = c := by omega
  have hC : doe / 146096 = 0 := by omega
  rw [hB, hC] at hyoe
  have hg : doe / 1460 = 25 * c + q ∨ doe / 1460 = 25 * c + q + 1 := by omega
  have hg1 : 1460 * (doe / 1460) ≤ doe ∧ doe < 1460 * (doe / 1460) + 1460 := by omega
  generalize doe / 1460 = g at *
  have hN : doe - g + c - 0 = 365 * (100 * c + 4 * q) + (r2 - (g - (25 * c + q))) := by omega
  rw [hN] at hyoe
  generalize hδ : g - (25 * c + q) = δ at *
  have hδ' : δ ≤ 1 ∧ g = 25 * c + q + δ := by omega
  have ht : (r2 - δ) / 365 ≤ 3 := by omega
  have hyoe' : yoe = 100 * c + 4 * q + (r2 - δ) / 365 := by omega
  generalize ht' : (r2 - δ) / 365 = t at *
  have ht1 : 365 * t ≤ r2 - δ ∧ r2 - δ < 365 * t + 365 := by omega
  have h4 : yoe / 4 = 25 * c + q := by omega
  have h100 : yoe / 100 = c := by omega
  rw [h4, h100]
  omega

theorem yoe_spec (doe yoe : Nat) (h : doe < 146097)
    (hyoe : yoe = (doe - doe / 1460 + doe / 36524 - doe / 146096) / 365) :
    yoe ≤ 399 ∧ 365 * yoe + yoe / 4 - yoe / 100 ≤ doe ∧ doe < 365 * yoe + yoe / 4 - yoe / 100 + 366 := by
  by_cases h4 : doe = 146096
  · subst h4
    omega
  · exact yoe_core doe (doe / 36524) (doe % 36524 / 1461) (doe % 36524 % 1461) (by omega) (by omega) (by omega)
      (by omega) (by omega) yoe hyoe

/-- month/day part -/
theorem md_spec (doy mp d : Nat) (h : doy ≤ 365) (hmp : mp = (5 * doy + 2) / 153)
    (hd : d = doy - (153 * mp + 2) / 5 + 1) :
    mp ≤ 11 ∧ 1 ≤ d ∧ d ≤ 31 ∧ (153 * mp + 2) / 5 + d - 1 = doy := by
  omega

def monthOf (mp : Nat) : Nat := if mp < 10 then mp + 3 else mp - 9

/-- the part of `civilFromDays` after the era split -/
def civilOf (era : Int) (doe : Nat) : Int × Nat × Nat :=
  let yoe := (doe - doe / 1460 + doe / 36524 - doe / 146096) / 365
  let y : Int := (yoe : Int) + era * 400
  let doy := doe - (365 * yoe + yoe / 4 - yoe / 100)
  let mp := (5 * doy + 2) / 153
  let d := doy - (153 * mp + 2) / 5 + 1
  let m := if mp < 10 then mp + 3 else mp - 9
  (if m ≤ 2 then y + 1 else y, m, d)

theorem civilFromDays_eq (z0 : Int) :
    civilFromDays z0 = civilOf ((z0 + 719468) / 146097) ((z0 + 719468) - (z0 + 719468) / 146097 * 146097).toNat := rfl

theorem civilOf_spec (era : Int) (doe : Nat) (hdoe : doe < 146097) : ∃ (yoe doy mp d : Nat),
    yoe ≤ 399 ∧ 365 * yoe + yoe / 4 - yoe / 100 + doy = doe ∧ doy ≤ 365 ∧ mp ≤ 11 ∧ 1 ≤ d ∧ d ≤ 31 ∧
    (153 * mp + 2) / 5 + d - 1 = doy ∧
    civilOf era doe = (if monthOf mp ≤ 2 then (yoe : Int) + era * 400 + 1 else (yoe : Int) + era * 400, monthOf mp, d) := by
  obtain ⟨hy, hlo, hhi⟩ := yoe_spec doe _ hdoe rfl
  unfold civilOf
  generalize hyy : (doe - doe / 1460 + doe / 36524 - doe / 146096) / 365 = yoe at *
  have hdoy : doe - (365 * yoe + yoe / 4 - yoe / 100) ≤ 365 := by omega
  obtain ⟨hmp, hd1, hd31, hmd⟩ := md_spec (doe - (365 * yoe + yoe / 4 - yoe / 100)) _ _ hdoy rfl rfl
  exact ⟨yoe, _, _, _, hy, by omega, hdoy, hmp, hd1, hd31, hmd, rfl⟩

theorem civilFromDays_spec (z0 : Int) : ∃ (era : Int) (doe yoe doy mp d : Nat),
    z0 + 719468 = era * 146097 + doe ∧ doe < 146097 ∧ yoe ≤ 399 ∧
    365 * yoe + yoe / 4 - yoe / 100 + doy = doe ∧ doy ≤ 365 ∧ mp ≤ 11 ∧ 1 ≤ d ∧ d ≤ 31 ∧
    (153 * mp + 2) / 5 + d - 1 = doy ∧
    civilFromDays z0 = (if monthOf mp ≤ 2 then (yoe : Int) + era * 400 + 1 else (yoe : Int) + era * 400, monthOf mp, d) := by
  have hdoe : ((z0 + 719468) - (z0 + 719468) / 146097 * 146097).toNat < 146097 := by omega
  have hz : z0 + 719468 = (z0 + 719468) / 146097 * 146097 + (((z0 + 719468) - (z0 + 719468) / 146097 * 146097).toNat : Int) := by omega
  obtain ⟨yoe, doy, mp, d, h⟩ := civilOf_spec ((z0 + 719468) / 146097) _ hdoe
  exact ⟨_, _, yoe, doy, mp, d, hz, hdoe, by rw [civilFromDays_eq]; exact h⟩

theorem daysFromCivil_eq (era : Int) (yoe mp d : Nat) (hy : yoe ≤ 399) (hmp : mp ≤ 11) (y0 : Int) (m : Nat)
    (hm : m = monthOf mp)
    (hy0 : y0 = if m ≤ 2 then (yoe : Int) + era * 400 + 1 else (yoe : Int) + era * 400) :
    daysFromCivil y0 m d
      = era * 146097 + ((yoe * 365 + yoe / 4 - yoe / 100 + ((153 * mp + 2) / 5 + d - 1) : Nat) : Int) - 719468 := by
  have h1 : (if m ≤ 2 then y0 - 1 else y0) = (yoe : Int) + era * 400 := by
    rw [hy0]; split <;> omega
  have h2 : ((yoe : Int) + era * 400) / 400 = era := by omega
  have h3 : ((yoe : Int) + era * 400 - era * 400).toNat = yoe := by omega
  have h4 : (if m > 2 then m - 3 else m + 9) = mp := by
    rw [hm]; unfold monthOf; split <;> split <;> omega
  unfold daysFromCivil
  simp only [h1, h2, h3, h4]

/-- calendar round trip, for every day number -/
theorem daysFromCivil_civilFromDays (z : Int) :
    daysFromCivil (civilFromDays z).1 (civilFromDays z).2.1 (civilFromDays z).2.2 = z := by
  obtain ⟨era, doe, yoe, doy, mp, d, hz, hdoe, hy, hdoy, hdoy', hmp, hd1, hd31, hmd, he⟩ := civilFromDays_spec z
  rw [he]
  dsimp only
  rw [daysFromCivil_eq era yoe mp d hy hmp _ _ rfl rfl, hmd]
  omega

theorem civilFromDays_month (z : Int) : 1 ≤ (civilFromDays z).2.1 ∧ (civilFromDays z).2.1 ≤ 12 := by
  obtain ⟨era, doe, yoe, doy, mp, d, hz, hdoe, hy, hdoy, hdoy', hmp, hd1, hd31, hmd, he⟩ := civilFromDays_spec z
  rw [he]; dsimp only; unfold monthOf; split <;> omega

theorem civilFromDays_day (z : Int) : 1 ≤ (civilFromDays z).2.2 ∧ (civilFromDays z).2.2 ≤ 31 := by
  obtain ⟨era, doe, yoe, doy, mp, d, hz, hdoe, hy, hdoy, hdoy', hmp, hd1, hd31, hmd, he⟩ := civilFromDays_spec z
  rw [he]; exact ⟨hd1, hd31⟩

/-- days -719528 .. 2932896 are exactly 0000-01-01 .. 9999-12-31 -/
theorem civilFromDays_year (z : Int) (h : -719528 ≤ z ∧ z ≤ 2932896) :
    0 ≤ (civilFromDays z).1 ∧ (civilFromDays z).1 ≤ 9999 := by
  obtain ⟨era, doe, yoe, doy, mp, d, hz, hdoe, hy, hdoy, hdoy', hmp, hd1, hd31, hmd, he⟩ := civilFromDays_spec z
  rw [he]; dsimp only
  have hm : monthOf mp ≤ 2 ↔ 306 ≤ doy := by unfold monthOf; split <;> omega
  have hera : -1 ≤ era ∧ era ≤ 24 := by omega
  have h399 : yoe = 399 → doy + 145731 = doe := by omega
  have hlast : era = -1 → yoe = 399 := by omega
  split <;> omega
/-- item 1 in one statement: on the days of years 0..9999 (−719528 = 0000-01-01, 2932896 = 9999-12-31)
    the calendar round trip holds and year, month, day are in range -/
theorem civil_round_trip (z : Int) (h : -719528 ≤ z ∧ z ≤ 2932896) :
    let (y, m, d) := civilFromDays z
    daysFromCivil y m d = z ∧ 0 ≤ y ∧ y ≤ 9999 ∧ 1 ≤ m ∧ m ≤ 12 ∧ 1 ≤ d ∧ d ≤ 31 := by
  have h1 := daysFromCivil_civilFromDays z
  have h2 := civilFromDays_year z h
  have h3 := civilFromDays_month z
  have h4 := civilFromDays_day z
  generalize civilFromDays z = ymd at *
  obtain ⟨y, m, d⟩ := ymd
  exact ⟨h1, h2.1, h2.2, h3.1, h3.2, h4.1, h4.2⟩

/-! ## 2. digits -/

/-- the digit bytes of `n`, most significant first, no padding -/
def bdigits (n : Nat) : List UInt8 := (Nat.toDigits 10 n).map (fun c => UInt8.ofNat c.toNat)

/-- value of a digit string (the fold of `natOfDigits`) -/
def dval (l : List UInt8) : Nat := l.foldl (fun acc (b : UInt8) => acc * 10 + (b.toNat - 48)) 0

theorem digits_eq (w n : Nat) : digits w n = List.replicate (w - (bdigits n).length) 0x30 ++ bdigits n := rfl

theorem natOfDigits_eq (l : List UInt8) (hne : l ≠ []) (hd : l.all isDigit = true) :
    natOfDigits l = some (dval l) := by
  unfold natOfDigits dval
  cases l with
  | nil => exact absurd rfl hne
  | cons a t => simp only [List.isEmpty_cons, hd, Bool.not_true, Bool.or_self, Bool.false_eq_true, if_false]

theorem digitByte (k : Nat) (hk : k < 10) :
    isDigit (UInt8.ofNat (48 + k)) = true ∧ (UInt8.ofNat (48 + k)).toNat - 48 = k := by
  have : k = 0 ∨ k = 1 ∨ k = 2 ∨ k = 3 ∨ k = 4 ∨ k = 5 ∨ k = 6 ∨ k = 7 ∨ k = 8 ∨ k = 9 := by omega
  rcases this with h | h | h | h | h | h | h | h | h | h <;> subst h <;> decide

theorem bdigits_eq_if (n : Nat) :
    bdigits n = if n < 10 then [UInt8.ofNat (48 + n)] else bdigits (n / 10) ++ [UInt8.ofNat (48 + n % 10)] := by
  unfold bdigits
  rw [Nat.toDigits_eq_if (by decide)]
  split
  · rename_i h
    simp only [List.map, Nat.toNat_digitChar_of_lt_ten h]
  · simp only [List.map_append, List.map, Nat.toNat_digitChar_of_lt_ten (Nat.mod_lt n (by decide : 10 > 0))]

theorem dval_snoc (l : List UInt8) (b : UInt8) : dval (l ++ [b]) = dval l * 10 + (b.toNat - 48) := by
  unfold dval; rw [List.foldl_append]; rfl

theorem bdigits_spec (n : Nat) : dval (bdigits n) = n ∧ (bdigits n).all isDigit = true ∧ bdigits n ≠ [] := by
  induction n using Nat.strongRecOn with
  | _ n ih =>
    rw [bdigits_eq_if]
    split
    · rename_i h
      obtain ⟨h1, h2⟩ := digitByte n h
      refine ⟨?_, ?_, by simp⟩
      · show 0 * 10 + _ = n
        omega
      · simp only [List.all_cons, h1, List.all_nil, Bool.and_self]
    · rename_i h
      obtain ⟨i1, i2, _⟩ := ih (n / 10) (by omega)
      obtain ⟨h1, h2⟩ := digitByte (n % 10) (Nat.mod_lt n (by decide))
      refine ⟨?_, ?_, by simp⟩
      · rw [dval_snoc, i1, h2]; omega
      · simp only [List.all_append, i2, List.all_cons, h1, List.all_nil, Bool.and_self]

theorem bdigits_length (w n : Nat) (hw : 0 < w) (h : n < 10 ^ w) : (bdigits n).length ≤ w := by
  unfold bdigits
  rw [List.length_map]
  exact (Nat.length_toDigits_le_iff (by decide) hw).2 h

theorem dval_zeros_append (k : Nat) (l : List UInt8) : dval (List.replicate k 0x30 ++ l) = dval l := by
  unfold dval
  rw [List.foldl_append]
  congr 1
  induction k with
  | zero => rfl
  | succ k ih => rw [List.replicate_succ, List.foldl_cons]; exact ih

theorem digits_spec (w n : Nat) :
    dval (digits w n) = n ∧ (digits w n).all isDigit = true ∧ digits w n ≠ [] := by
  obtain ⟨h1, h2, h3⟩ := bdigits_spec n
  rw [digits_eq]
  refine ⟨by rw [dval_zeros_append, h1], ?_, by simp [h3]⟩
  rw [List.all_append, h2, Bool.and_true, List.all_replicate]
  split
  · rfl
  · decide

/-- digit round trip (every width, every number) -/
theorem natOfDigits_digits (w n : Nat) : natOfDigits (digits w n) = some n := by
  obtain ⟨h1, h2, h3⟩ := digits_spec w n
  rw [natOfDigits_eq _ h3 h2, h1]

theorem digits_length (w n : Nat) (hw : 0 < w) (h : n < 10 ^ w) : (digits w n).length = w := by
  have := bdigits_length w n hw h
  rw [digits_eq, List.length_append, List.length_replicate]
  omega

theorem trimZeros_spec (l : List UInt8) : ∃ k, l = trimZeros l ++ List.replicate k 0x30 := by
  refine ⟨(l.reverse.takeWhile (· == 0x30)).length, ?_⟩
  have h1 : l.reverse = l.reverse.takeWhile (· == 0x30) ++ l.reverse.dropWhile (· == 0x30) :=
    (List.takeWhile_append_dropWhile).symm
  have h2 : l.reverse.takeWhile (· == 0x30) = List.replicate (l.reverse.takeWhile (· == 0x30)).length 0x30 := by
    rw [List.eq_replicate_iff]
    refine ⟨rfl, ?_⟩
    intro b hb
    have hall : (l.reverse.takeWhile (· == 0x30)).all (· == 0x30) = true := List.all_takeWhile
    rw [List.all_eq_true] at hall
    simpa using hall b hb
  have h3 : l = (l.reverse.dropWhile (· == 0x30)).reverse ++ (l.reverse.takeWhile (· == 0x30)).reverse := by
    rw [← List.reverse_append, ← h1, List.reverse_reverse]
  rw [h2, List.reverse_replicate] at h3
  exact h3

/-- the fraction: trimming the trailing zeros of the nine digits and padding them back -/
theorem frac_spec (nano : Nat) (h0 : 0 < nano) (h : nano < 1000000000) :
    let t := trimZeros (digits 9 nano)
    t ≠ [] ∧ t.length ≤ 9 ∧ t.all isDigit = true ∧
    t ++ List.replicate (9 - t.length) 0x30 = digits 9 nano ∧
    dval (t ++ List.replicate (9 - t.length) 0x30) = nano := by
  intro t
  obtain ⟨k, hk⟩ := trimZeros_spec (digits 9 nano)
  have hl := digits_length 9 nano (by decide) (by simpa using h)
  obtain ⟨h1, h2, h3⟩ := digits_spec 9 nano
  have hlen : t.length + k = 9 := by
    have := congrArg List.length hk
    rw [List.length_append, List.length_replicate, hl] at this
    exact this.symm
  have hk' : 9 - t.length = k := by omega
  have hpad : t ++ List.replicate (9 - t.length) 0x30 = digits 9 nano := by rw [hk']; exact hk.symm
  refine ⟨?_, by omega, ?_, hpad, by rw [hpad]; exact h1⟩
  · intro he
    have hz : digits 9 nano = List.replicate k 0x30 ++ [] := by rw [List.append_nil]; rw [hk]; show t ++ _ = _; rw [he]; rfl
    rw [hz, dval_zeros_append] at h1
    have : dval [] = 0 := rfl
    omega
  · rw [hk, List.all_append] at h2
    simp only [Bool.and_eq_true] at h2
    exact h2.1
/-! ## 3. the parser reads what the printer wrote -/

/-- the optional fraction of `parseRfc3339`: (fraction digits, what follows) -/
def parseFrac (t : List UInt8) : List UInt8 × List UInt8 :=
  match t with
  | 0x2E :: r => (r.takeWhile isDigit, r.dropWhile isDigit)
  | r => ([], r)

/-- the zone of `parseRfc3339` -/
def parseZone (rest : List UInt8) : Option Int :=
  match rest with
  | [0x5A] => some 0
  | [sg, a, b, 0x3A, c, e] =>
    if sg != 0x2B && sg != 0x2D then none else
    match natOfDigits [a, b], natOfDigits [c, e] with
    | some zh, some zm =>
      if zh > 23 || zm > 59 then none else
      let v : Int := (zh * 3600 + zm * 60 : Nat)
      some (if sg == 0x2D then -v else v)
    | _, _ => none
  | _ => none

theorem parse_cons (y1 y2 y3 y4 m1 m2 d1 d2 h1 h2 i1 i2 s1 s2 : UInt8) (t : List UInt8) (ht : t ≠ [])
    (y mo d h mi sec : Nat)
    (hy : natOfDigits [y1, y2, y3, y4] = some y) (hmo : natOfDigits [m1, m2] = some mo)
    (hd : natOfDigits [d1, d2] = some d) (hh : natOfDigits [h1, h2] = some h)
    (hmi : natOfDigits [i1, i2] = some mi) (hs : natOfDigits [s1, s2] = some sec)
    (hr : 1 ≤ mo ∧ mo ≤ 12 ∧ 1 ≤ d ∧ d ≤ 31 ∧ h ≤ 23 ∧ mi ≤ 59 ∧ sec ≤ 59) :
    parseRfc3339 (y1 :: y2 :: y3 :: y4 :: 0x2D :: m1 :: m2 :: 0x2D :: d1 :: d2 :: 0x54 :: h1 :: h2 :: 0x3A ::
        i1 :: i2 :: 0x3A :: s1 :: s2 :: t) =
      if ((parseFrac t).2.length != t.length) && (parseFrac t).1.isEmpty then none else
      if (parseFrac t).1.length > 9 then none else
      match parseZone (parseFrac t).2 with
      | none => none
      | some o =>
        some (((daysFromCivil y mo d * 86400 + ((h * 3600 + mi * 60 + sec : Nat) : Int)) - o) * 1000000000 +
          ((dval ((parseFrac t).1 ++ List.replicate (9 - (parseFrac t).1.length) (0x30 : UInt8)) : Nat) : Int), o) := by
  have hlen : 0 < t.length := List.length_pos_iff.mpr ht
  generalize hS : (y1 :: y2 :: y3 :: y4 :: 0x2D :: m1 :: m2 :: 0x2D :: d1 :: d2 :: 0x54 :: h1 :: h2 :: 0x3A ::
        i1 :: i2 :: 0x3A :: s1 :: s2 :: t) = s
  have e0 : s.length = t.length + 19 := by subst hS; rfl
  have e1 : s[4]? = some 0x2D := by subst hS; rfl
  have e2 : s[7]? = some 0x2D := by subst hS; rfl
  have e3 : s[10]? = some 0x54 := by subst hS; rfl
  have e4 : s[13]? = some 0x3A := by subst hS; rfl
  have e5 : s[16]? = some 0x3A := by subst hS; rfl
  have f1 : s.take 4 = [y1, y2, y3, y4] := by subst hS; rfl
  have f2 : (s.drop 5).take 2 = [m1, m2] := by subst hS; rfl
  have f3 : (s.drop 8).take 2 = [d1, d2] := by subst hS; rfl
  have f4 : (s.drop 11).take 2 = [h1, h2] := by subst hS; rfl
  have f5 : (s.drop 14).take 2 = [i1, i2] := by subst hS; rfl
  have f6 : (s.drop 17).take 2 = [s1, s2] := by subst hS; rfl
  have f7 : s.drop 19 = t := by subst hS; rfl
  have g0 : ¬ (t.length + 19 < 20) := by omega
  have g1 : (mo < 1 || mo > 12 || d < 1 || d > 31 || h > 23 || mi > 59 || sec > 59) = false := by
    simp only [Bool.or_eq_false_iff, decide_eq_false_iff_not]; omega
  have g2 : t.length + 19 - 19 = t.length := by omega
  unfold parseRfc3339
  simp only [e0, e1, e2, e3, e4, e5, f1, f2, f3, f4, f5, f6, f7, g0, g2, if_false, hy, hmo, hd, hh, hmi, hs, g1,
    BEq.rfl, Bool.and_self, Bool.not_true, Bool.false_eq_true]
  rfl

theorem digits2 (n : Nat) (h : n < 100) : ∃ a b, digits 2 n = [a, b] ∧ natOfDigits [a, b] = some n := by
  have hl := digits_length 2 n (by decide) (by simpa using h)
  have hn := natOfDigits_digits 2 n
  match hd : digits 2 n, hl with
  | [a, b], _ => exact ⟨a, b, rfl, by rw [← hd]; exact hn⟩

theorem digits4 (n : Nat) (h : n < 10000) :
    ∃ a b c d, digits 4 n = [a, b, c, d] ∧ natOfDigits [a, b, c, d] = some n := by
  have hl := digits_length 4 n (by decide) (by simpa using h)
  have hn := natOfDigits_digits 4 n
  match hd : digits 4 n, hl with
  | [a, b, c, d], _ => exact ⟨a, b, c, d, rfl, by rw [← hd]; exact hn⟩

theorem parseFrac_none (b : UInt8) (r : List UInt8) (hb : b ≠ 0x2E) : parseFrac (b :: r) = ([], b :: r) := by
  unfold parseFrac
  split
  · rename_i heq
    injection heq with h1 h2
    exact absurd h1 hb
  · rfl

theorem parseFrac_some (t : List UInt8) (b : UInt8) (r : List UInt8) (ht : t.all isDigit = true)
    (hb : isDigit b = false) : parseFrac (0x2E :: (t ++ b :: r)) = (t, b :: r) := by
  have h : ∀ a ∈ t, isDigit a = true := List.all_eq_true.mp ht
  show ((t ++ b :: r).takeWhile isDigit, (t ++ b :: r).dropWhile isDigit) = _
  rw [List.takeWhile_append_of_pos h, List.dropWhile_append_of_pos h,
    List.takeWhile_cons_of_neg (by simp [hb]), List.dropWhile_cons_of_neg (by simp [hb]), List.append_nil]

theorem parseZone_Z : parseZone [0x5A] = some 0 := rfl

theorem parseZone_off (neg : Bool) (zh zm : Nat) (hzh : zh ≤ 23) (hzm : zm ≤ 59) :
    parseZone ((if neg then 0x2D else 0x2B) :: (digits 2 zh ++ [0x3A] ++ digits 2 zm)) =
      some (if neg then -((zh * 3600 + zm * 60 : Nat) : Int) else ((zh * 3600 + zm * 60 : Nat) : Int)) := by
  obtain ⟨a, b, e1, n1⟩ := digits2 zh (by omega)
  obtain ⟨c, e, e2, n2⟩ := digits2 zm (by omega)
  have g : (decide (zh > 23) || decide (zm > 59)) = false := by
    simp only [Bool.or_eq_false_iff, decide_eq_false_iff_not]; omega
  rw [e1, e2]
  cases neg
  · show parseZone [0x2B, a, b, 0x3A, c, e] = _
    unfold parseZone
    simp [n1, n2, g]
  · show parseZone [0x2D, a, b, 0x3A, c, e] = _
    unfold parseZone
    simp [n1, n2, g]

/-- the fraction `rfc3339` writes -/
def fracText (nano : Nat) : List UInt8 := if nano = 0 then [] else 0x2E :: trimZeros (digits 9 nano)

/-- the zone `rfc3339` writes -/
def zoneText (off : Int) : List UInt8 :=
  if off = 0 then [0x5A]
  else (if off ≤ -60 then 0x2D else 0x2B) ::
    (digits 2 (off.natAbs / 3600) ++ [0x3A] ++ digits 2 (off.natAbs % 3600 / 60))

theorem rfc3339_eq (ns off : Int) :
    rfc3339 ns off =
      digits 4 (civilFromDays ((ns / 1000000000 + off) / 86400)).1.toNat ++ [0x2D] ++
      digits 2 (civilFromDays ((ns / 1000000000 + off) / 86400)).2.1 ++ [0x2D] ++
      digits 2 (civilFromDays ((ns / 1000000000 + off) / 86400)).2.2 ++ [0x54] ++
      digits 2 (((ns / 1000000000 + off) % 86400).toNat / 3600) ++ [0x3A] ++
      digits 2 (((ns / 1000000000 + off) % 86400).toNat % 3600 / 60) ++ [0x3A] ++
      digits 2 (((ns / 1000000000 + off) % 86400).toNat % 60) ++
      fracText (ns % 1000000000).toNat ++ zoneText off := rfl

theorem zone_spec (off : Int) (hoff : off % 60 = 0 ∧ -86400 < off ∧ off < 86400) :
    ∃ b r, zoneText off = b :: r ∧ isDigit b = false ∧ b ≠ 0x2E ∧ parseZone (b :: r) = some off := by
  unfold zoneText
  by_cases h0 : off = 0
  · rw [if_pos h0, h0]
    exact ⟨0x5A, [], rfl, by decide, by decide, rfl⟩
  · rw [if_neg h0]
    have hzh : off.natAbs / 3600 ≤ 23 := by omega
    have hzm : off.natAbs % 3600 / 60 ≤ 59 := by omega
    by_cases hn : off ≤ -60
    · rw [if_pos hn]
      refine ⟨0x2D, _, rfl, by decide, by decide, ?_⟩
      have := parseZone_off true _ _ hzh hzm
      simp only [if_true] at this
      rw [this]
      congr 1
      omega
    · rw [if_neg hn]
      refine ⟨0x2B, _, rfl, by decide, by decide, ?_⟩
      have := parseZone_off false _ _ hzh hzm
      simp only [Bool.false_eq_true, if_false] at this
      rw [this]
      congr 1
      omega

theorem frac_parse (nano : Nat) (h : nano < 1000000000) (b : UInt8) (r : List UInt8)
    (hb : isDigit b = false) (hb' : b ≠ 0x2E) :
    ∃ F, parseFrac (fracText nano ++ b :: r) = (F, b :: r) ∧ F.length ≤ 9 ∧
      (((b :: r).length != (fracText nano ++ b :: r).length) && F.isEmpty) = false ∧
      dval (F ++ List.replicate (9 - F.length) 0x30) = nano := by
  unfold fracText
  by_cases h0 : nano = 0
  · rw [if_pos h0, List.nil_append, parseFrac_none b r hb']
    refine ⟨[], rfl, by simp, by simp, ?_⟩
    rw [h0]; rfl
  · rw [if_neg h0]
    obtain ⟨f1, f2, f3, f4, f5⟩ := frac_spec nano (by omega) h
    rw [List.cons_append, parseFrac_some _ b r f3 hb]
    refine ⟨_, rfl, f2, ?_, f5⟩
    cases ht : trimZeros (digits 9 nano) with
    | nil => exact absurd ht f1
    | cons a t => simp

/-- `time.Parse(RFC3339Nano, ·)` reads back what `MarshalJSON` wrote (offset a whole number of
    minutes within a day, local year 0..9999: the times `MarshalJSON` accepts) -/
theorem parse_print_year (ns off : Int) (hoff : off % 60 = 0 ∧ -86400 < off ∧ off < 86400)
    (hyear : 0 ≤ (civilFromDays ((ns / 1000000000 + off) / 86400)).1 ∧
      (civilFromDays ((ns / 1000000000 + off) / 86400)).1 ≤ 9999) :
    parseRfc3339 (rfc3339 ns off) = some (ns, off) := by
  rw [rfc3339_eq]
  have hrt := daysFromCivil_civilFromDays ((ns / 1000000000 + off) / 86400)
  obtain ⟨hm1, hm12⟩ := civilFromDays_month ((ns / 1000000000 + off) / 86400)
  obtain ⟨hd1, hd31⟩ := civilFromDays_day ((ns / 1000000000 + off) / 86400)
  generalize civilFromDays ((ns / 1000000000 + off) / 86400) = ymd at *
  obtain ⟨y, m, d⟩ := ymd
  dsimp only at hrt hm1 hm12 hd1 hd31 hyear ⊢
  generalize hsod : ((ns / 1000000000 + off) % 86400).toNat = sod
  generalize hnano : (ns % 1000000000).toNat = nano
  have hsod' : sod < 86400 := by omega
  have hnano' : nano < 1000000000 := by omega
  obtain ⟨y1, y2, y3, y4, ey, ny⟩ := digits4 y.toNat (by omega)
  obtain ⟨m1, m2, em, nm⟩ := digits2 m (by omega)
  obtain ⟨d1, d2, ed, nd⟩ := digits2 d (by omega)
  obtain ⟨h1, h2, eh, nh⟩ := digits2 (sod / 3600) (by omega)
  obtain ⟨i1, i2, ei, ni⟩ := digits2 (sod % 3600 / 60) (by omega)
  obtain ⟨s1, s2, es, nsec⟩ := digits2 (sod % 60) (by omega)
  obtain ⟨b, r, ez, hb, hb', hz⟩ := zone_spec off hoff
  obtain ⟨F, hF, hF9, hFe, hFv⟩ := frac_parse nano hnano' b r hb hb'
  rw [ey, em, ed, eh, ei, es, ez]
  simp only [List.cons_append, List.nil_append]
  rw [parse_cons y1 y2 y3 y4 m1 m2 d1 d2 h1 h2 i1 i2 s1 s2 (fracText nano ++ b :: r) (by simp)
    y.toNat m d (sod / 3600) (sod % 3600 / 60) (sod % 60) ny nm nd nh ni nsec (by omega)]
  rw [hF]
  dsimp only
  rw [hFe, if_neg (by simp), if_neg (by omega), hz]
  dsimp only
  rw [hFv]
  have hy : ((y.toNat : Nat) : Int) = y := by omega
  rw [hy, hrt]
  congr 2
  omega

/-- … stated with the range of local days: -719528 .. 2932896 = 0000-01-01 .. 9999-12-31 -/
theorem parse_print (ns off : Int) (hoff : off % 60 = 0 ∧ -86400 < off ∧ off < 86400)
    (hyear : -719528 ≤ (ns / 1000000000 + off) / 86400 ∧ (ns / 1000000000 + off) / 86400 ≤ 2932896) :
    parseRfc3339 (rfc3339 ns off) = some (ns, off) :=
  parse_print_year ns off hoff (civilFromDays_year _ hyear)

/-! ## documents with an expiration survive export + import -/

theorem expiresAtKey_eq : expiresAtKey = expiresAtField := rfl

theorem get_top (d : Doc) (k : Bytes) (hs : splitDots k = [k]) : d.get k = (lookupKey k d).getD .null := by
  unfold Doc.get; rw [hs]; rfl

theorem has_top (d : Doc) (k : Bytes) (hs : splitDots k = [k]) : d.has k = (lookupKey k d).isSome := by
  unfold Doc.has; rw [hs]; rfl

/-- the local day of the time lies in years 0..9999 and the zone is a whole number of minutes
    (what `MarshalJSON` accepts and RFC 3339 can express) -/
def TimeOK (ns off : Int) : Prop :=
  (off % 60 = 0 ∧ -86400 < off ∧ off < 86400) ∧
  (-719528 ≤ (ns / 1000000000 + off) / 86400 ∧ (ns / 1000000000 + off) / 86400 ≤ 2932896)

theorem restore_eq (d : Doc) (ns off : Int) (hok : TimeOK ns off)
    (he : lookupKey expiresAtKey d = some (.time ns off)) :
    restoreExpiresAt (jsonTypeDoc d) = insertKey expiresAtKey (.time ns off) (jsonTypeDoc d) := by
  unfold restoreExpiresAt
  have : lookupKey expiresAtKey (jsonTypeDoc d) = some (.str (rfc3339 ns off)) := by
    unfold jsonTypeDoc
    rw [JsonT.lookupKey_jsonType, he]; rfl
  rw [this]
  dsimp only
  rw [parse_print ns off hok.1 hok.2]

/-- a valid document whose `_expiresAt` is a time in range: after export (JSON typing) and the
    restoration `ImportCollection` performs, `_expiresAt` is that time again, every other top-level
    field is what JSON typing made of it, the `_id` is kept, and the document passes `Validate` -/
theorem restoreExpiresAt_jsonType (d : Doc) (hv : validDoc d = true) (ns off : Int) (hok : TimeOK ns off)
    (he : d.get expiresAtField = .time ns off) :
    lookupKey expiresAtKey (restoreExpiresAt (jsonTypeDoc d)) = some (.time ns off) ∧
    (∀ k, k ≠ expiresAtKey →
      lookupKey k (restoreExpiresAt (jsonTypeDoc d)) = lookupKey k (jsonTypeDoc d)) ∧
    (restoreExpiresAt (jsonTypeDoc d)).objectId = d.objectId ∧
    validDoc (restoreExpiresAt (jsonTypeDoc d)) = true := by
  have hse : splitDots expiresAtField = [expiresAtField] := by decide
  have hsi : splitDots idField = [idField] := by decide
  have hlk : lookupKey expiresAtKey d = some (.time ns off) := by
    rw [get_top d _ hse] at he
    rw [expiresAtKey_eq]
    cases h : lookupKey expiresAtField d with
    | none => rw [h] at he; cases he
    | some v => rw [h] at he; exact congrArg some he
  rw [restore_eq d ns off hok hlk]
  have h1 : lookupKey expiresAtKey (insertKey expiresAtKey (.time ns off) (jsonTypeDoc d)) = some (.time ns off) := by
    rw [lookupKey_insertKey, if_pos rfl]
  have h2 : ∀ k, k ≠ expiresAtKey →
      lookupKey k (insertKey expiresAtKey (.time ns off) (jsonTypeDoc d)) = lookupKey k (jsonTypeDoc d) := by
    intro k hk
    rw [lookupKey_insertKey, if_neg hk]
  have hid : (insertKey expiresAtKey (.time ns off) (jsonTypeDoc d)).objectId = d.objectId := by
    have hj : (jsonTypeDoc d).objectId = d.objectId := by
      obtain ⟨_, b, bs, hg⟩ := id_of_objectId d (validDoc_objectId_ne d hv)
      apply JsonT.jsonType_objectId
      intro ns' off' hl
      rw [get_top d _ hsi, hl] at hg
      cases hg
    rw [← hj]
    unfold Doc.objectId
    rw [get_top _ _ hsi, get_top _ _ hsi, h2 idField (by decide)]
  refine ⟨h1, h2, hid, ?_⟩
  unfold validDoc at hv ⊢
  rw [hid, get_top _ _ hse, ← expiresAtKey_eq, h1]
  simp only [Bool.and_eq_true] at hv
  simp only [hv.1, Option.getD_some, Bool.or_true, Bool.and_self]
end CV
