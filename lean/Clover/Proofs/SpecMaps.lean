import Clover.Spec.Spec
import Clover.Proofs.ByteOrder
/-! # Laws of the sorted association lists the specification is made of
    (`Spec.lookup`, `Spec.insert`, `Spec.erase`; used for the catalog and for the documents of a collection) -/
namespace CV.Spec
open OC

def KeysSorted {α} (l : List (Bytes × α)) : Prop := l.Pairwise (fun a b => lexLt a.1 b.1 = true)

theorem keysSorted_nodup {α} : (l : List (Bytes × α)) → KeysSorted l → (l.map (·.1)).Nodup
  | [], _ => by simp
  | p :: t, h => by
    have h' := List.pairwise_cons.1 h
    simp only [List.map, List.nodup_cons]
    refine ⟨?_, keysSorted_nodup t h'.2⟩
    intro hm
    obtain ⟨q, hq, e⟩ := List.mem_map.1 hm
    have := h'.1 q hq
    rw [e] at this
    rw [lexLt_irrefl'] at this
    simp at this

theorem lookup_insert' {α} (k k' : Bytes) (v : α) : (m : List (Bytes × α)) →
    lookup k' (insert k v m) = if k' = k then some v else lookup k' m
  | [] => by simp [insert, lookup]
  | (k2, v2) :: t => by
    simp only [insert]
    by_cases h1 : lexLt k k2 = true
    · simp only [h1, if_true, lookup]
    · simp only [h1, Bool.false_eq_true, if_false]
      by_cases h2 : k = k2
      · subst h2
        simp only [if_true, lookup]
        by_cases h3 : k' = k <;> simp [h3]
      · simp only [h2, if_false, lookup, lookup_insert' k k' v t]
        by_cases h3 : k' = k2
        · subst h3
          have : k' ≠ k := fun e => h2 e.symm
          simp [this]
        · simp [h3]

theorem mem_insert {α} (k : Bytes) (v : α) (p : Bytes × α) : (m : List (Bytes × α)) →
    p ∈ insert k v m → p = (k, v) ∨ p ∈ m
  | [], h => by simp [insert] at h; exact Or.inl h
  | (k2, v2) :: t, h => by
    simp only [insert] at h
    by_cases h1 : lexLt k k2 = true
    · simp only [h1, if_true] at h
      rcases List.mem_cons.1 h with e | e
      · exact Or.inl e
      · exact Or.inr e
    · simp only [h1, Bool.false_eq_true, if_false] at h
      by_cases h2 : k = k2
      · simp only [h2, if_true] at h
        rcases List.mem_cons.1 h with e | e
        · exact Or.inl (by rw [e, h2])
        · exact Or.inr (List.mem_cons_of_mem _ e)
      · simp only [h2, if_false] at h
        rcases List.mem_cons.1 h with e | e
        · exact Or.inr (by rw [e]; simp)
        · rcases mem_insert k v p t e with e' | e'
          · exact Or.inl e'
          · exact Or.inr (List.mem_cons_of_mem _ e')

theorem keysSorted_insert {α} (k : Bytes) (v : α) : (m : List (Bytes × α)) → KeysSorted m → KeysSorted (insert k v m)
  | [], _ => by simp [insert, KeysSorted]
  | (k2, v2) :: t, h => by
    have h' := List.pairwise_cons.1 h
    simp only [insert]
    by_cases h1 : lexLt k k2 = true
    · simp only [h1, if_true]
      refine List.pairwise_cons.2 ⟨?_, h⟩
      intro q hq
      rcases List.mem_cons.1 hq with e | e
      · rw [e]; exact h1
      · exact lexLt_trans _ _ _ h1 (h'.1 q e)
    · simp only [h1, Bool.false_eq_true, if_false]
      by_cases h2 : k = k2
      · simp only [h2, if_true]
        exact List.pairwise_cons.2 ⟨h'.1, h'.2⟩
      · simp only [h2, if_false]
        refine List.pairwise_cons.2 ⟨?_, keysSorted_insert k v t h'.2⟩
        intro q hq
        rcases mem_insert k v q t hq with e | e
        · rw [e]
          rcases lexLt_total k k2 h2 with h3 | h3
          · exact absurd h3 h1
          · exact h3
        · exact h'.1 q e

theorem mem_erase {α} (k : Bytes) (p : Bytes × α) : (m : List (Bytes × α)) → p ∈ erase k m → p ∈ m
  | [], h => by simp [erase] at h
  | (k2, v2) :: t, h => by
    simp only [erase] at h
    by_cases h2 : k = k2
    · simp only [h2, if_true] at h; exact List.mem_cons_of_mem _ h
    · simp only [h2, if_false] at h
      rcases List.mem_cons.1 h with e | e
      · rw [e]; simp
      · exact List.mem_cons_of_mem _ (mem_erase k p t e)

theorem keysSorted_erase {α} (k : Bytes) : (m : List (Bytes × α)) → KeysSorted m → KeysSorted (erase k m)
  | [], _ => by simp [erase, KeysSorted]
  | (k2, v2) :: t, h => by
    have h' := List.pairwise_cons.1 h
    simp only [erase]
    by_cases h2 : k = k2
    · simp only [h2, if_true]; exact h'.2
    · simp only [h2, if_false]
      exact List.pairwise_cons.2 ⟨fun q hq => h'.1 q (mem_erase k q t hq), keysSorted_erase k t h'.2⟩

theorem lookup_none_of_lt {α} (k : Bytes) : (m : List (Bytes × α)) → (∀ q ∈ m, lexLt k q.1 = true) → lookup k m = none
  | [], _ => rfl
  | (k2, v2) :: t, h => by
    have : k ≠ k2 := lexLt_ne _ _ (h (k2, v2) (by simp))
    simp only [lookup, this, if_false]
    exact lookup_none_of_lt k t (fun q hq => h q (List.mem_cons_of_mem _ hq))

theorem lookup_erase' {α} (k k' : Bytes) : (m : List (Bytes × α)) → KeysSorted m →
    lookup k' (erase k m) = if k' = k then none else lookup k' m
  | [], _ => by simp [erase, lookup]
  | (k2, v2) :: t, h => by
    have h' := List.pairwise_cons.1 h
    simp only [erase]
    by_cases h2 : k = k2
    · subst h2
      simp only [if_true, lookup]
      by_cases h3 : k' = k
      · subst h3; simp only [if_true]; exact lookup_none_of_lt k' t h'.1
      · simp [h3]
    · simp only [h2, if_false, lookup, lookup_erase' k k' t h'.2]
      by_cases h3 : k' = k2
      · subst h3
        have : k' ≠ k := fun e => h2 e.symm
        simp [this]
      · simp [h3]

theorem length_insert_new {α} (k : Bytes) (v : α) : (m : List (Bytes × α)) → lookup k m = none →
    (insert k v m).length = m.length + 1
  | [], _ => rfl
  | (k2, v2) :: t, h => by
    simp only [lookup] at h
    by_cases h2 : k = k2
    · simp [h2] at h
    · simp only [h2, if_false] at h
      simp only [insert]
      by_cases h1 : lexLt k k2 = true
      · simp [h1]
      · simp only [h1, Bool.false_eq_true, if_false, h2, List.length_cons, length_insert_new k v t h]

theorem length_insert_old {α} (k : Bytes) (v v0 : α) : (m : List (Bytes × α)) → KeysSorted m → lookup k m = some v0 →
    (insert k v m).length = m.length
  | [], _, h => by simp [lookup] at h
  | (k2, v2) :: t, hs, h => by
    have h' := List.pairwise_cons.1 hs
    simp only [lookup] at h
    simp only [insert]
    by_cases h2 : k = k2
    · subst h2
      simp [lexLt_irrefl']
    · simp only [h2, if_false] at h
      have hm := lookup_some_mem_fst k v0 t h
      have h1 : lexLt k k2 = false := by
        have := h'.1 _ hm
        exact lexLt_asymm' _ _ this
      simp only [h1, Bool.false_eq_true, if_false, h2, List.length_cons, length_insert_old k v v0 t h'.2 h]
where
  lookup_some_mem_fst {α} (k : Bytes) (v0 : α) : (m : List (Bytes × α)) → lookup k m = some v0 → (k, v0) ∈ m
    | [], h => by simp [lookup] at h
    | (k', v') :: t, h => by
      simp only [lookup] at h
      by_cases hk : k = k'
      · simp only [hk, if_true, Option.some.injEq] at h; rw [hk, h]; simp
      · simp only [hk, if_false] at h
        exact List.mem_cons_of_mem _ (lookup_some_mem_fst k v0 t h)

theorem length_erase_old {α} (k : Bytes) (v0 : α) : (m : List (Bytes × α)) → lookup k m = some v0 →
    (erase k m).length + 1 = m.length
  | [], h => by simp [lookup] at h
  | (k2, v2) :: t, h => by
    simp only [lookup] at h
    simp only [erase]
    by_cases h2 : k = k2
    · simp [h2]
    · simp only [h2, if_false] at h
      simp only [h2, if_false, List.length_cons, length_erase_old k v0 t h]

theorem erase_of_lookup_none {α} (k : Bytes) : (m : List (Bytes × α)) → lookup k m = none → erase k m = m
  | [], _ => rfl
  | (k2, v2) :: t, h => by
    simp only [lookup] at h
    by_cases h2 : k = k2
    · simp [h2] at h
    · simp only [h2, if_false] at h
      simp only [erase, h2, if_false, erase_of_lookup_none k t h]

end CV.Spec
