import Clover.Model.Codec
/-! # `removeLocalizedTimes ∘ replaceTimes = id` (the time wrapping of the document codec inverts itself) -/
namespace CV

mutual
theorem ofWire_toWire : (v : Value) → ofWire (toWire v) = v
  | .null => rfl
  | .num _ => rfl
  | .str _ => rfl
  | .bool _ => rfl
  | .time _ _ => rfl
  | .arr xs => by simp only [toWire, ofWire, ofWireL_toWireL xs]
  | .obj kvs => by simp only [toWire, ofWire, ofWireKV_toWireKV kvs]
theorem ofWireL_toWireL : (xs : List Value) → ofWireL (toWireL xs) = xs
  | [] => rfl
  | x :: xs => by simp only [toWireL, ofWireL, ofWire_toWire x, ofWireL_toWireL xs]
theorem ofWireKV_toWireKV : (xs : List (Bytes × Value)) → ofWireKV (toWireKV xs) = xs
  | [] => rfl
  | (k, x) :: xs => by simp only [toWireKV, ofWireKV, ofWire_toWire x, ofWireKV_toWireKV xs]
end

/-- `document.Decode ∘ document.Encode` on the `Wire` level -/
theorem decodeDoc_encodeDoc (d : Doc) : decodeDoc (encodeDoc d) = d := ofWireKV_toWireKV d

end CV
