import Clover.Probe.EntryBridge
/-! # The bytewise order on keys is a strict total order -/
namespace CV
open OC

theorem u8_lt_trans {a b c : UInt8} (h1 : a < b) (h2 : b < c) : a < c := by
  rw [UInt8.lt_iff_toNat_lt] at *; omega

theorem u8_lt_irrefl' (a : UInt8) : ¬ a < a := UInt8.lt_irrefl a

theorem u8_trichotomy (a b : UInt8) : a < b ∨ a = b ∨ b < a := by
  rcases Nat.lt_trichotomy a.toNat b.toNat with h | h | h
  · exact Or.inl (UInt8.lt_iff_toNat_lt.2 h)
  · exact Or.inr (Or.inl (UInt8.toNat_inj.1 h))
  · exact Or.inr (Or.inr (UInt8.lt_iff_toNat_lt.2 h))

theorem lexLt_irrefl' : (t : Bytes) → lexLt t t = false
  | [] => rfl
  | x :: xs => by simp [lexLt, UInt8.lt_irrefl, lexLt_irrefl' xs]

theorem lexLt_trans : (a b c : Bytes) → lexLt a b = true → lexLt b c = true → lexLt a c = true
  | [], [], _, h, _ => by simp [lexLt] at h
  | [], _ :: _, [], _, h => by simp [lexLt] at h
  | [], _ :: _, _ :: _, _, _ => by simp [lexLt]
  | _ :: _, [], _, h, _ => by simp [lexLt] at h
  | _ :: _, _ :: _, [], _, h => by simp [lexLt] at h
  | x :: xs, y :: ys, z :: zs, h1, h2 => by
    simp only [lexLt, Bool.or_eq_true, decide_eq_true_eq, Bool.and_eq_true, beq_iff_eq] at h1 h2 ⊢
    rcases h1 with h1 | ⟨e1, h1⟩
    · rcases h2 with h2 | ⟨e2, _⟩
      · exact Or.inl (u8_lt_trans h1 h2)
      · subst e2; exact Or.inl h1
    · subst e1
      rcases h2 with h2 | ⟨e2, h2⟩
      · exact Or.inl h2
      · subst e2; exact Or.inr ⟨rfl, lexLt_trans xs ys zs h1 h2⟩

theorem lexLt_total : (a b : Bytes) → a ≠ b → lexLt a b = true ∨ lexLt b a = true
  | [], [], h => absurd rfl h
  | [], _ :: _, _ => Or.inl (by simp [lexLt])
  | _ :: _, [], _ => Or.inr (by simp [lexLt])
  | x :: xs, y :: ys, h => by
    simp only [lexLt, Bool.or_eq_true, decide_eq_true_eq, Bool.and_eq_true, beq_iff_eq]
    rcases u8_trichotomy x y with hxy | hxy | hxy
    · exact Or.inl (Or.inl hxy)
    · subst hxy
      have : xs ≠ ys := fun e => h (by rw [e])
      rcases lexLt_total xs ys this with h' | h'
      · exact Or.inl (Or.inr ⟨rfl, h'⟩)
      · exact Or.inr (Or.inr ⟨rfl, h'⟩)
    · exact Or.inr (Or.inl hxy)

theorem lexLt_asymm' (a b : Bytes) (h : lexLt a b = true) : lexLt b a = false := lexLt_asymm a b h

theorem lexLt_ne (a b : Bytes) (h : lexLt a b = true) : a ≠ b := by
  intro e; subst e; simp [lexLt_irrefl'] at h

/-- `¬ b < a` is `a ≤ b` -/
theorem not_lexLt_iff (a b : Bytes) : lexLt b a = false ↔ (a = b ∨ lexLt a b = true) := by
  constructor
  · intro h
    by_cases e : a = b
    · exact Or.inl e
    · rcases lexLt_total a b e with h' | h'
      · exact Or.inr h'
      · simp [h] at h'
  · intro h
    rcases h with e | h
    · subst e; exact lexLt_irrefl' a
    · exact lexLt_asymm a b h

end CV
