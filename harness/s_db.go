package main

import (
	"fmt"
	"path/filepath"
	"strings"
)

func init() {
	streams["C01"] = func(c *Ctx) {
		streamHistories(c, HistCfg{Ops: 25, QueriesPer: 4, Indexes: true, Dumps: false, Malformed: false}, "results")
		if c.Violations+len(c.CorrBroken) == 0 {
			// without indexes: integers of any magnitude (int64/uint64 extremes), every fourth history without floats
			streamHistories(c, HistCfg{Ops: 20, QueriesPer: 5, Indexes: false, Dumps: false, Malformed: false}, "results")
		}
	}
	streams["C06"] = func(c *Ctx) {
		{
			dr := StartDriver(c.DriverBin)
			ok := true
			for _, be := range backendsAll {
				ok = ok && dataInterleavings(c, dr, be)
			}
			dr.Close()
			if !ok {
				return
			}
		}
		streamHistories(c, HistCfg{Ops: 30, QueriesPer: 1, Indexes: true, Dumps: true, Malformed: true}, "dumps")
	}
}

var backendsAll = []string{"bbolt", "badger-mem"}

// streamHistories: random histories on every backend; three-way comparison impl / model / spec.
// bigIndexHistory: an index with several hundred entries is created, dropped and re-created
// (drops must leave no residue whatever the number of entries the cursor walks over).
func bigIndexHistory(g *Gen, n int) []J {
	h := NewHistGen(g, 1, 1)
	lines := []J{opLine("createCollection", J{"coll": hx("big")}), opLine("createIndex", J{"coll": hx("big"), "field": hx("x")}),
		opLine("createIndex", J{"coll": hx("big"), "field": hx("xy")})}
	for start := 0; start < n; start += 100 {
		docs := []interface{}{}
		for j := start; j < n && j < start+100; j++ {
			d := h.Doc(h.newId())
			d["x"] = int64(j % 17)
			d["xy"] = int64(j)
			docs = append(docs, encDoc(d))
		}
		lines = append(lines, opLine("insert", J{"coll": hx("big"), "docs": docs}))
	}
	// the whole collection copied by a query without criteria or window (a natural place for a record-level fast path), read back in full
	lines = append(lines, opLine("createCollectionByQuery", J{"coll": hx("copy"), "q": J{"coll": hx("big")}}),
		opLine("count", J{"q": J{"coll": hx("copy")}}),
		opLine("findAll", J{"q": J{"coll": hx("copy"), "crit": J{"cmp": []interface{}{"lt", hx("xy"), J{"lit": encValue(int64(7))}}}}}), J{"k": "dump"},
		opLine("dropCollection", J{"coll": hx("copy")}))
	lines = append(lines, J{"k": "dump"}, opLine("dropIndex", J{"coll": hx("big"), "field": hx("x")}), J{"k": "dump"},
		opLine("findAll", J{"q": J{"coll": hx("big"), "crit": J{"cmp": []interface{}{"lt", hx("xy"), J{"lit": encValue(int64(5))}}}}}),
		opLine("createIndex", J{"coll": hx("big"), "field": hx("x")}), J{"k": "dump"},
		opLine("count", J{"q": J{"coll": hx("big"), "crit": J{"cmp": []interface{}{"eq", hx("x"), J{"lit": encValue(int64(3))}}}}}),
		opLine("dropCollection", J{"coll": hx("big")}), J{"k": "dump"},
		opLine("createCollection", J{"coll": hx("big")}), opLine("findAll", J{"q": J{"coll": hx("big")}}), J{"k": "dump"})
	return lines
}

// nestedIndexHistory: an index on a dotted path (n.a) while the documents' enclosing object n is written in every
// way the API offers - whole-object replacement through Update (map), UpdateFunc, UpdateById, ReplaceById, the
// path itself, a scalar in place of the object, removal and re-insertion under the same id - with queries
// through that index (ranges covering the old value, the new value, both; sorted by it) after every write.
func nestedIndexHistory(h *HistGen) []J {
	g := h.G
	c := "nx"
	lines := []J{opLine("createCollection", J{"coll": hx(c)})}
	if g.pick(3) != 0 {
		lines = append(lines, opLine("createIndex", J{"coll": hx(c), "field": hx("n.a")}))
	}
	ids := []string{}
	docs := []interface{}{}
	for j := 0; j < 5; j++ {
		id := h.newId()
		ids = append(ids, id)
		m := map[string]interface{}{"_id": id, "x": int64(j)}
		if j != 3 {
			m["n"] = map[string]interface{}{"a": int64(10 * (j + 1)), "b": int64(j)}
		}
		docs = append(docs, encDoc(m))
	}
	lines = append(lines, opLine("insert", J{"coll": hx(c), "docs": docs}), opLine("createIndex", J{"coll": hx(c), "field": hx("n.a")}), opLine("createIndex", J{"coll": hx(c), "field": hx("n.b")}))
	// an index on the enclosing object as well: a write to n.a or n.b changes the value of n
	ancestor := g.pick(2) == 0
	if ancestor {
		lines = append(lines, opLine("createIndex", J{"coll": hx(c), "field": hx("n")}))
	}
	probe := func() {
		if ancestor {
			for _, q := range []J{
				{"coll": hx(c), "crit": J{"cmp": []interface{}{"ge", hx("n"), J{"lit": encValue(map[string]interface{}{"a": int64(30)})}}}},
				{"coll": hx(c), "crit": J{"cmp": []interface{}{"lt", hx("n"), J{"lit": encValue(map[string]interface{}{"a": int64(30)})}}}},
				{"coll": hx(c), "sort": []interface{}{[]interface{}{hx("n"), 1 - 2*g.pick(2)}, []interface{}{hx("_id"), 1}}},
			} {
				lines = append(lines, opLine([]string{"findAll", "count"}[g.pick(2)], J{"q": q}))
			}
			lines = append(lines, J{"k": "dump"})
		}
		for _, q := range []J{
			{"coll": hx(c), "crit": J{"cmp": []interface{}{"ge", hx("n.a"), J{"lit": encValue(int64(0))}}}},
			{"coll": hx(c), "crit": J{"cmp": []interface{}{"le", hx("n.a"), J{"lit": encValue(int64(25))}}}},
			{"coll": hx(c), "crit": J{"cmp": []interface{}{"gt", hx("n.a"), J{"lit": encValue(int64(25))}}}},
			{"coll": hx(c), "crit": J{"cmp": []interface{}{"eq", hx("n.a"), J{"lit": nil}}}},
			{"coll": hx(c), "sort": []interface{}{[]interface{}{hx("n.a"), 1 - 2*g.pick(2)}}},
			{"coll": hx(c), "crit": J{"cmp": []interface{}{"ge", hx("n.b"), J{"lit": encValue(int64(1))}}}},
		} {
			lines = append(lines, opLine([]string{"findAll", "count"}[g.pick(2)], J{"q": q}))
		}
	}
	probe()
	obj := func() interface{} {
		m := map[string]interface{}{}
		if g.pick(5) != 0 {
			m["a"] = int64(g.pick(60))
		}
		if g.pick(2) == 0 {
			m["b"] = int64(g.pick(5))
		}
		return encValue(m)
	}
	sel := func() J {
		return J{"coll": hx(c), "crit": J{"cmp": []interface{}{[]string{"ge", "le", "eq"}[g.pick(3)], hx("x"), J{"lit": encValue(int64(g.pick(5)))}}}}
	}
	for i := 0; i < 8; i++ {
		id := ids[g.pick(len(ids))]
		switch g.pick(8) {
		case 0, 1:
			lines = append(lines, opLine("update", J{"q": sel(), "upd": J{"setAll": []interface{}{[]interface{}{hx("n"), obj()}}}, "viaUpdate": 1}))
		case 2:
			lines = append(lines, opLine("update", J{"q": sel(), "upd": J{"setAll": []interface{}{[]interface{}{hx("n"), obj()}}}}))
		case 3:
			lines = append(lines, opLine("updateById", J{"coll": hx(c), "id": hx(id), "upd": J{"setAll": []interface{}{[]interface{}{hx("n"), obj()}}}}))
		case 4:
			lines = append(lines, opLine("update", J{"q": sel(), "upd": J{"setAll": []interface{}{[]interface{}{hx("n.a"), encValue(int64(g.pick(60)))}}}, "viaUpdate": 1}))
		case 5:
			lines = append(lines, opLine("update", J{"q": sel(), "upd": J{"setAll": []interface{}{[]interface{}{hx("n"), encValue([]interface{}{int64(7), "s", nil}[g.pick(3)])}}}, "viaUpdate": 1}))
		case 6:
			lines = append(lines, opLine("replaceById", J{"coll": hx(c), "id": hx(id), "doc": encDoc(map[string]interface{}{"_id": id, "x": int64(g.pick(5)), "n": map[string]interface{}{"a": int64(g.pick(60))}})}))
		default:
			lines = append(lines, opLine("deleteById", J{"coll": hx(c), "id": hx(id)}),
				opLine("insert", J{"coll": hx(c), "docs": []interface{}{encDoc(map[string]interface{}{"_id": id, "x": int64(g.pick(5)), "n": map[string]interface{}{"a": int64(g.pick(60))}})}}))
		}
		probe()
	}
	lines = append(lines, J{"k": "dump"})
	return lines
}

// separatorHistory: collections "u" and "u<sep>m" (optionally "u<sep>m<sep>a") holding documents with the SAME ids, with
// indexes on the complementary fields "m<sep>a" and "a": any key, cache key or catalog entry built by joining a collection
// name and a field name with <sep> collides for the two.  Queries through each index, then index and collection drops on
// one side with the other side probed after each step.
var separators = []string{":", "/", "-", "_", "|", ",", " ", "::", ".", "#", "\x00", "=", "@"}

func separatorHistory(h *HistGen, sep string) []J {
	g := h.G
	c1, c2, c3 := "u", "u"+sep+"m", "u"+sep+"m"+sep+"a"
	f1, f2 := "m"+sep+"a", "a"
	if sep == "." {
		f1 = "m:a" // a dot in a field name is a path separator: keep the fields flat
	}
	colls := []string{c1, c2, c3}
	fields := map[string][]string{c1: {f1, "m"}, c2: {f2, f1}, c3: {f2}}
	lines := []J{}
	for _, c := range colls {
		lines = append(lines, opLine("createCollection", J{"coll": hx(c)}))
	}
	ids := []string{}
	for j := 0; j < 5; j++ {
		ids = append(ids, h.newId())
	}
	insert := func(c string, k int) {
		docs := []interface{}{}
		for j, id := range ids {
			docs = append(docs, encDoc(map[string]interface{}{"_id": id, f1: int64(10*k + j), f2: int64(100*k + (4 - j)), "m": int64(j % 2)}))
		}
		lines = append(lines, opLine("insert", J{"coll": hx(c), "docs": docs}))
	}
	index := func(c string) {
		for _, f := range fields[c] {
			lines = append(lines, opLine("createIndex", J{"coll": hx(c), "field": hx(f)}))
		}
	}
	probe := func() {
		for _, c := range colls {
			lines = append(lines, opLine("listIndexes", J{"coll": hx(c)}))
			for _, f := range []string{f1, f2} {
				lines = append(lines, opLine("hasIndex", J{"coll": hx(c), "field": hx(f)}),
					opLine("findAll", J{"q": J{"coll": hx(c), "sort": []interface{}{[]interface{}{hx(f), 1 - 2*g.pick(2)}}}}),
					opLine("count", J{"q": J{"coll": hx(c), "crit": J{"cmp": []interface{}{"ge", hx(f), J{"lit": encValue(int64(0))}}}}}))
			}
		}
		lines = append(lines, opLine("listCollections", J{}), J{"k": "dump"})
	}
	if g.pick(2) == 0 {
		for k, c := range colls {
			index(c)
			insert(c, k+1)
		}
	} else {
		for k, c := range colls {
			insert(c, k+1)
		}
		for _, c := range colls {
			index(c)
		}
	}
	probe()
	for step := 0; step < 4; step++ {
		c := colls[g.pick(3)]
		switch g.pick(7) {
		case 5:
			// the whole collection, with no criteria: nothing of the collections whose names extend this one may go with it
			lines = append(lines, opLine("delete", J{"q": J{"coll": hx(c)}}))
		case 6:
			lines = append(lines, opLine("update", J{"q": J{"coll": hx(c)}, "upd": J{"setAll": []interface{}{[]interface{}{hx(f1), encValue(int64(g.pick(50)))}}}, "viaUpdate": 1}))
		case 0:
			lines = append(lines, opLine("dropIndex", J{"coll": hx(c), "field": hx(fields[c][g.pick(len(fields[c]))])}))
		case 1:
			lines = append(lines, opLine("dropCollection", J{"coll": hx(c)}))
		case 2:
			lines = append(lines, opLine("update", J{"q": J{"coll": hx(c), "crit": J{"cmp": []interface{}{"ge", hx("m"), J{"lit": encValue(int64(g.pick(2)))}}}},
				"upd": J{"setAll": []interface{}{[]interface{}{hx(f1), encValue(int64(g.pick(50)))}, []interface{}{hx(f2), encValue(int64(g.pick(50)))}}}, "viaUpdate": 1}))
		case 3:
			lines = append(lines, opLine("deleteById", J{"coll": hx(c), "id": hx(ids[g.pick(len(ids))])}))
		default:
			lines = append(lines, opLine("createCollection", J{"coll": hx(c)}), opLine("createIndex", J{"coll": hx(c), "field": hx(fields[c][0])}))
		}
		probe()
	}
	return lines
}

// typeSwitchHistory: an indexed field whose value changes TYPE in place between values whose key payloads
// coincide (false / 1970-01-01T00:00:00Z / 0 / 0.0 / "" ; true / one nanosecond later / 1): the entry must move
// to the new type's key range; queries by type range and the raw dump (invariant oracle) after every write.
func typeSwitchHistory(h *HistGen) []J {
	g := h.G
	c := "ts"
	vals := []interface{}{false, true, mkTime(0, 0), mkTime(1, 0), int64(0), int64(1), float64(0), uint64(1), "", nil, []interface{}{}, map[string]interface{}{}}
	lines := []J{opLine("createCollection", J{"coll": hx(c)}), opLine("createIndex", J{"coll": hx(c), "field": hx("f")})}
	ids := []string{}
	docs := []interface{}{}
	for j := 0; j < 6; j++ {
		id := h.newId()
		ids = append(ids, id)
		docs = append(docs, encDoc(map[string]interface{}{"_id": id, "f": vals[g.pick(len(vals))], "k": int64(j)}))
	}
	lines = append(lines, opLine("insert", J{"coll": hx(c), "docs": docs}), J{"k": "dump"})
	probe := func() {
		for _, v := range []interface{}{false, mkTime(0, 0), int64(0), ""} {
			lines = append(lines, opLine("findAll", J{"q": J{"coll": hx(c), "crit": J{"cmp": []interface{}{[]string{"eq", "ge", "le"}[g.pick(3)], hx("f"), J{"lit": encValue(v)}}}}}))
		}
		lines = append(lines, opLine("findAll", J{"q": J{"coll": hx(c), "sort": []interface{}{[]interface{}{hx("f"), 1 - 2*g.pick(2)}}}}), J{"k": "dump"})
	}
	for i := 0; i < 8; i++ {
		id := ids[g.pick(len(ids))]
		v := vals[g.pick(len(vals))]
		switch g.pick(5) {
		case 0:
			lines = append(lines, opLine("updateById", J{"coll": hx(c), "id": hx(id), "upd": J{"setAll": []interface{}{[]interface{}{hx("f"), encValue(v)}}}}))
		case 1:
			lines = append(lines, opLine("update", J{"q": J{"coll": hx(c), "crit": J{"cmp": []interface{}{"le", hx("k"), J{"lit": encValue(int64(g.pick(6)))}}}}, "upd": J{"setAll": []interface{}{[]interface{}{hx("f"), encValue(v)}}}, "viaUpdate": 1}))
		case 2:
			lines = append(lines, opLine("replaceById", J{"coll": hx(c), "id": hx(id), "doc": encDoc(map[string]interface{}{"_id": id, "f": v, "k": int64(g.pick(6))})}))
		case 3:
			lines = append(lines, opLine("save", J{"coll": hx(c), "doc": encDoc(map[string]interface{}{"_id": id, "f": v, "k": int64(g.pick(6))})}))
		default:
			lines = append(lines, opLine("update", J{"q": J{"coll": hx(c), "crit": J{"cmp": []interface{}{"eq", hx("f"), J{"lit": encValue(vals[g.pick(len(vals))])}}}}, "upd": J{"setAll": []interface{}{[]interface{}{hx("f"), encValue(v)}}}}))
		}
		probe()
	}
	lines = append(lines, opLine("dropCollection", J{"coll": hx(c)}), J{"k": "dump"})
	return lines
}

func streamHistories(c *Ctx, cfg HistCfg, what string) {
	c.Rule = "random histories (" + what + ") over 2-3 collections with prefix-related names, documents with mixed-type/absent/nil/nested fields drawn from a per-history value pool, " +
		"index create/drop interleaved; every operation's result compared impl vs Lean model vs Lean spec; non-trivial = distinct (operation, canonical result) where the result is not an error and, for queries, at least one document matched and one did not"
	dr := StartDriver(c.DriverBin)
	defer dr.Close()
	if !c.KnownDone {
		replayKnownFindings(c, dr)
		c.KnownDone = true
	}
	nHist := c.N(60, 1500)
	dm := Domain{IntsWithin2p53: true, NoNegTimes: true}
	for _, be := range backendsAll {
		im := NewImpl(be, c.Scratch)
		if cfg.Dumps {
			lines := bigIndexHistory(NewGen(c.Rng, dm), c.N(350, 2500))
			o := runHistory(dr, im, lines, HistOpts{})
			recordHistory(c, lines, &o, be)
			if o.Index >= 0 {
				if reportHistoryProblem(c, dr, im, lines, &o, be, HistOpts{}, what) {
					im.Destroy()
					return
				}
			}
		}
		if what == "results" && cfg.Indexes {
			// C01: pairs of constraints on one indexed field (shared bounds, nil bounds), every answer against the specification
			if !sameFieldCells(c, dr, im, be) {
				im.Destroy()
				return
			}
		}
		if cfg.Indexes {
			for r := 0; r < c.N(6, 60); r++ {
				g := NewGen(c.Rng, dm)
				lines := nestedIndexHistory(NewHistGen(g, 1, 1))
				if r%2 == 1 {
					lines = typeSwitchHistory(NewHistGen(g, 1, 1))
				}
				o := runHistory(dr, im, lines, HistOpts{})
				recordHistory(c, lines, &o, be)
				c.Count("nested-index-history")
				if o.Index >= 0 {
					if reportHistoryProblem(c, dr, im, lines, &o, be, HistOpts{}, what) {
						im.Destroy()
						return
					}
				}
			}
		}
		if cfg.Indexes {
			for _, sep := range separators {
				lines := separatorHistory(NewHistGen(NewGen(c.Rng, dm), 1, 1), sep)
				o := runHistory(dr, im, lines, HistOpts{})
				recordHistory(c, lines, &o, be)
				c.Count("separator-history")
				if o.Index >= 0 {
					if reportHistoryProblem(c, dr, im, lines, &o, be, HistOpts{}, what) {
						im.Destroy()
						return
					}
				}
			}
		}
		for hN := 0; hN < nHist; hN++ {
			g := NewGen(c.Rng, dm)
			if !cfg.Indexes && hN%4 == 3 {
				// integers of any magnitude, no floats (and no index: bigints are order-exact only among integers)
				g = NewGen(c.Rng, Domain{NoFloats: true})
			}
			h := NewHistGen(g, 2+g.pick(2), 3)
			if cfg.Indexes {
				h.Focus = []string{indexable[g.pick(len(indexable))], indexable[g.pick(len(indexable))]}
			}
			lines := h.History(cfg)
			if hN%3 == 2 {
				var lab string
				lines, lab = varyNames(g, lines, h.Colls)
				c.Count(lab)
			}
			hopts := HistOpts{Traces: cfg.Dumps, MaskItems: true} // with dumps also the store-call trace of every operation is compared with the model's
			o := runHistory(dr, im, lines, hopts)
			recordHistory(c, lines, &o, be)
			if o.Index >= 0 {
				if reportHistoryProblem(c, dr, im, lines, &o, be, hopts, what) {
					im.Destroy()
					return
				}
			}
		}
		im.Destroy()
	}
}

func recordHistory(c *Ctx, lines []J, o *HistoryOutcome, be string) {
	for i, r := range o.Results {
		if i >= len(lines) || lines[i]["k"] != "op" {
			continue
		}
		c.Evals++
		op := lines[i]["op"].(string)
		c.Count("op:" + op)
		c.Count("backend:" + be)
		if r.Fired {
			c.Count("fault-fired:" + op)
			c.NonTrivial(fmt.Sprintf("fault|%s|%v|%d", op, lines[i]["fault"], i))
		}
		if strings.HasPrefix(r.Impl, "err ") {
			c.Count("error:" + strings.TrimPrefix(r.Impl, "err "))
			continue
		}
		if q, ok := qOf(lines[i]); ok {
			if cr, ok := q["crit"]; ok && cr != nil {
				c.Count("crit:" + strings.SplitN(critShape(cr.(J)), "(", 2)[0])
			}
			if docs, ok := splitDocs(r.Impl); ok {
				if len(docs) > 0 {
					c.Count("query:nonempty")
					c.NonTrivial(op + "|" + fmt.Sprint(q) + "|" + r.Impl)
				} else {
					c.Count("query:empty")
				}
			} else {
				c.NonTrivial(op + "|" + r.Impl)
			}
		} else {
			c.NonTrivial(op + "|" + r.Impl + "|" + fmt.Sprint(i))
		}
	}
	if len(c.Samples) < 3 && len(lines) > 3 {
		c.Sample(J{"backend": be, "history_prefix": toIfaces(lines[:4])})
	}
}

// searchMode: a correspondence has broken earlier in this run without a failing input; every later history is run
// with the property's own oracles only (HistOpts.SpecOnly), which is the search phase of DESIGN §2.5
var searchMode = false

// reportHistoryProblem reports what a history run found; true = a concrete violation was reported (the stream
// stops), false = only a correspondence broke (recorded; the stream goes on in search mode)
var retryDirs int

func reportHistoryProblem(c *Ctx, dr *Driver, im *Impl, lines []J, o *HistoryOutcome, be string, opts HistOpts, stream string) bool {
	if strings.Contains(o.Detail, "timeout") || strings.Contains(o.Detail, "blocked") {
		// an operation that did not return within the deadline: on a busy machine a commit can stall on the disk for
		// longer than that. The same history is executed once more on a fresh database with four times the deadline;
		// an operation that really blocks does so again, and only then is it reported
		old := OpDeadline
		OpDeadline = 4 * old
		// (directories of their own: the handle that did not return still holds its files open and locked)
		retryDirs++
		fresh := NewImpl(be, filepath.Join(c.Scratch, fmt.Sprintf("retry-%d", retryDirs)))
		o4 := runHistory(dr, fresh, lines[:o.Index+1], opts)
		fresh.Destroy()
		OpDeadline = old
		if o4.Index < 0 {
			c.Count("timeout-not-reproduced")
			return false
		}
		*o = o4
		retryDirs++
		im = NewImpl(be, filepath.Join(c.Scratch, fmt.Sprintf("retry-%d", retryDirs)))
		defer im.Destroy()
	}
	if o.Kind != "spec" {
		// a correspondence broke (model and implementation differ while the oracle held so far): search the
		// whole history with the property's own oracles for a concrete failing input before giving up
		so := opts
		so.SpecOnly = true
		if o3 := runHistory(dr, im, lines, so); o3.Index >= 0 && o3.Kind == "spec" {
			c.Count("search-after-break:found")
			return reportHistoryProblem(c, dr, im, lines, &o3, be, so, stream)
		} else if o3.Index < 0 && !compareTwins(c, lines, &o3, be) {
			c.Count("search-after-break:found-by-twins")
			return true
		}
		c.Count("search-after-break:none")
	}
	kind := o.Kind
	small := lines[:o.Index+1]
	if !strings.Contains(o.Detail, "timeout") && !strings.Contains(o.Detail, "blocked") {
		// (a history that ends in an operation that never returns is not shrunk: every candidate would cost a full deadline)
		small = shrinkHistory(dr, im, lines[:o.Index+1], opts, kind)
	}
	o2 := *o
	if !strings.Contains(o.Detail, "timeout") && !strings.Contains(o.Detail, "blocked") {
		o2 = runHistory(dr, im, small, opts)
		if o2.Index < 0 || o2.Kind != kind {
			small = lines[:o.Index+1]
			o2 = *o
		}
	}
	rep := &Replay{Backend: be, Stream: "history", Case: toIfaces(small), FirstDivergence: o2.Index, ShrunkFrom: o.Index + 1, Note: o2.Kind + ": " + o2.Detail}
	if n := len(o2.Results); n > 0 {
		rep.Actual = []string{o2.Results[n-1].Impl}
		rep.Expected = []string{"spec: " + o2.Results[n-1].Spec, "model: " + o2.Results[n-1].Model}
	}
	if kind == "spec" {
		c.Violation(rep)
		return true
	}
	if !searchMode {
		c.Unexplained(rep, "correspondence K-"+c.Prop+"/"+stream+" ("+kind+")")
	}
	searchMode = true
	return false
}
