package main

import (
	"fmt"
	"strings"
)

func init() {
	streams["C01"] = func(c *Ctx) {
		streamHistories(c, HistCfg{Ops: 25, QueriesPer: 4, Indexes: true, Dumps: false, Malformed: false}, "results")
		if c.Violations+len(c.CorrBroken) == 0 {
			// without indexes: integers of any magnitude (int64/uint64 extremes), every fourth history without floats
			streamHistories(c, HistCfg{Ops: 20, QueriesPer: 5, Indexes: false, Dumps: false, Malformed: false}, "results")
		}
	}
	streams["C06"] = func(c *Ctx) {
		streamHistories(c, HistCfg{Ops: 30, QueriesPer: 1, Indexes: true, Dumps: true, Malformed: true}, "dumps")
	}
}

var backendsAll = []string{"bbolt", "badger-mem"}

// streamHistories: random histories on every backend; three-way comparison impl / model / spec.
// bigIndexHistory: an index with several hundred entries is created, dropped and re-created
// (drops must leave no residue whatever the number of entries the cursor walks over).
func bigIndexHistory(g *Gen, n int) []J {
	h := NewHistGen(g, 1, 1)
	lines := []J{opLine("createCollection", J{"coll": hx("big")}), opLine("createIndex", J{"coll": hx("big"), "field": hx("x")}),
		opLine("createIndex", J{"coll": hx("big"), "field": hx("xy")})}
	for start := 0; start < n; start += 100 {
		docs := []interface{}{}
		for j := start; j < n && j < start+100; j++ {
			d := h.Doc(h.newId())
			d["x"] = int64(j % 17)
			d["xy"] = int64(j)
			docs = append(docs, encDoc(d))
		}
		lines = append(lines, opLine("insert", J{"coll": hx("big"), "docs": docs}))
	}
	lines = append(lines, J{"k": "dump"}, opLine("dropIndex", J{"coll": hx("big"), "field": hx("x")}), J{"k": "dump"},
		opLine("findAll", J{"q": J{"coll": hx("big"), "crit": J{"cmp": []interface{}{"lt", hx("xy"), J{"lit": encValue(int64(5))}}}}}),
		opLine("createIndex", J{"coll": hx("big"), "field": hx("x")}), J{"k": "dump"},
		opLine("count", J{"q": J{"coll": hx("big"), "crit": J{"cmp": []interface{}{"eq", hx("x"), J{"lit": encValue(int64(3))}}}}}),
		opLine("dropCollection", J{"coll": hx("big")}), J{"k": "dump"},
		opLine("createCollection", J{"coll": hx("big")}), opLine("findAll", J{"q": J{"coll": hx("big")}}), J{"k": "dump"})
	return lines
}

func streamHistories(c *Ctx, cfg HistCfg, what string) {
	c.Rule = "random histories (" + what + ") over 2-3 collections with prefix-related names, documents with mixed-type/absent/nil/nested fields drawn from a per-history value pool, " +
		"index create/drop interleaved; every operation's result compared impl vs Lean model vs Lean spec; non-trivial = distinct (operation, canonical result) where the result is not an error and, for queries, at least one document matched and one did not"
	dr := StartDriver(c.DriverBin)
	defer dr.Close()
	if !c.KnownDone {
		replayKnownFindings(c, dr)
		c.KnownDone = true
	}
	nHist := c.N(60, 1500)
	dm := Domain{IntsWithin2p53: true, NoNegTimes: true}
	for _, be := range backendsAll {
		im := NewImpl(be, c.Scratch)
		if cfg.Dumps {
			lines := bigIndexHistory(NewGen(c.Rng, dm), c.N(350, 2500))
			o := runHistory(dr, im, lines, HistOpts{})
			recordHistory(c, lines, &o, be)
			if o.Index >= 0 {
				reportHistoryProblem(c, dr, im, lines, &o, be, HistOpts{}, what)
				im.Destroy()
				return
			}
		}
		for hN := 0; hN < nHist; hN++ {
			g := NewGen(c.Rng, dm)
			if !cfg.Indexes && hN%4 == 3 {
				// integers of any magnitude, no floats (and no index: bigints are order-exact only among integers)
				g = NewGen(c.Rng, Domain{NoFloats: true})
			}
			h := NewHistGen(g, 2+g.pick(2), 3)
			if cfg.Indexes {
				h.Focus = []string{indexable[g.pick(len(indexable))], indexable[g.pick(len(indexable))]}
			}
			lines := h.History(cfg)
			hopts := HistOpts{Traces: cfg.Dumps, MaskItems: true} // with dumps also the store-call trace of every operation is compared with the model's
			o := runHistory(dr, im, lines, hopts)
			recordHistory(c, lines, &o, be)
			if o.Index >= 0 {
				reportHistoryProblem(c, dr, im, lines, &o, be, hopts, what)
				im.Destroy()
				return
			}
		}
		im.Destroy()
	}
}

func recordHistory(c *Ctx, lines []J, o *HistoryOutcome, be string) {
	for i, r := range o.Results {
		if i >= len(lines) || lines[i]["k"] != "op" {
			continue
		}
		c.Evals++
		op := lines[i]["op"].(string)
		c.Count("op:" + op)
		c.Count("backend:" + be)
		if r.Fired {
			c.Count("fault-fired:" + op)
			c.NonTrivial(fmt.Sprintf("fault|%s|%v|%d", op, lines[i]["fault"], i))
		}
		if strings.HasPrefix(r.Impl, "err ") {
			c.Count("error:" + strings.TrimPrefix(r.Impl, "err "))
			continue
		}
		if q, ok := qOf(lines[i]); ok {
			if cr, ok := q["crit"]; ok && cr != nil {
				c.Count("crit:" + strings.SplitN(critShape(cr.(J)), "(", 2)[0])
			}
			if docs, ok := splitDocs(r.Impl); ok {
				if len(docs) > 0 {
					c.Count("query:nonempty")
					c.NonTrivial(op + "|" + fmt.Sprint(q) + "|" + r.Impl)
				} else {
					c.Count("query:empty")
				}
			} else {
				c.NonTrivial(op + "|" + r.Impl)
			}
		} else {
			c.NonTrivial(op + "|" + r.Impl + "|" + fmt.Sprint(i))
		}
	}
	if len(c.Samples) < 3 && len(lines) > 3 {
		c.Sample(J{"backend": be, "history_prefix": toIfaces(lines[:4])})
	}
}

func reportHistoryProblem(c *Ctx, dr *Driver, im *Impl, lines []J, o *HistoryOutcome, be string, opts HistOpts, stream string) {
	if o.Kind != "spec" {
		// a correspondence broke (model and implementation differ while the oracle held so far): search the
		// whole history with the property's own oracles for a concrete failing input before giving up
		so := opts
		so.SpecOnly = true
		if o3 := runHistory(dr, im, lines, so); o3.Index >= 0 && o3.Kind == "spec" {
			c.Count("search-after-break:found")
			reportHistoryProblem(c, dr, im, lines, &o3, be, so, stream)
			return
		} else if o3.Index < 0 && !compareTwins(c, lines, &o3, be) {
			c.Count("search-after-break:found-by-twins")
			return
		}
		c.Count("search-after-break:none")
	}
	kind := o.Kind
	small := shrinkHistory(dr, im, lines[:o.Index+1], opts, kind)
	o2 := runHistory(dr, im, small, opts)
	if o2.Index < 0 || o2.Kind != kind {
		small = lines[:o.Index+1]
		o2 = *o
	}
	rep := &Replay{Backend: be, Stream: "history", Case: toIfaces(small), FirstDivergence: o2.Index, ShrunkFrom: o.Index + 1, Note: o2.Kind + ": " + o2.Detail}
	if n := len(o2.Results); n > 0 {
		rep.Actual = []string{o2.Results[n-1].Impl}
		rep.Expected = []string{"spec: " + o2.Results[n-1].Spec, "model: " + o2.Results[n-1].Model}
	}
	if kind == "spec" {
		c.Violation(rep)
		return
	}
	c.Unexplained(rep, "correspondence K-"+c.Prop+"/"+stream+" ("+kind+")")
}
