package main

import (
	"bufio"
	"encoding/json"
	"fmt"
	"os"
	"os/exec"
	"path/filepath"
	"strings"
	"syscall"
	"time"
)

// closeKills: a process that has grown a database, deleted most of it (the file is then mostly free pages) and is
// CLOSING it is killed at a random instant of the close; the directory is reopened (everything acknowledged must be
// there), one more delete is acknowledged, the database is closed cleanly and reopened again: the state must be the
// model's at each step - a close that reorganises the file must not leave anything behind that a later close picks up.
func closeKills(c *Ctx, be string, kills int, g *Gen) bool {
	self, _ := os.Executable()
	lines := []J{opLine("createCollection", J{"coll": hx("k")}), opLine("createIndex", J{"coll": hx("k"), "field": hx("x")})}
	id := 0
	for b := 0; b < 4; b++ {
		docs := []interface{}{}
		for j := 0; j < 1500; j++ {
			id++
			docs = append(docs, encDoc(map[string]interface{}{"_id": fixedId(640000 + id), "x": int64(id % 10), "pad": strings.Repeat("p", 300)}))
		}
		lines = append(lines, opLine("insert", J{"coll": hx("k"), "docs": docs}))
	}
	lines = append(lines, opLine("delete", J{"q": J{"coll": hx("k"), "crit": J{"cmp": []interface{}{"ge", hx("x"), J{"lit": encValue(int64(4))}}}}}))
	after := opLine("delete", J{"q": J{"coll": hx("k"), "crit": J{"cmp": []interface{}{"eq", hx("x"), J{"lit": encValue(int64(1))}}}}})
	// the expected dumps - after the history, and after the later delete - come from the same operations executed in this
	// process with nobody killed (6000 documents are beyond what the list-based model executes in seconds; what the
	// operations do without a crash is tied to the model by phases (i) and (ii))
	ref := NewImpl(be, c.Scratch)
	for _, ln := range lines {
		if er := ref.Exec(ln, -1, false); !strings.HasPrefix(er.Line, "ok") {
			ref.Destroy()
			c.Violation(&Replay{Backend: be, Stream: "crash", Case: toIfaces(lines), Actual: []string{er.Line}, Note: "an operation of the close-kill history failed without any crash"})
			return false
		}
	}
	dump1 := ref.Dump()
	ref.Exec(after, -1, false)
	dump2 := ref.Dump()
	ref.Destroy()
	hf := filepath.Join(c.Scratch, "closekill-"+be+".json")
	b, _ := json.Marshal(lines)
	os.WriteFile(hf, b, 0o644)
	defer os.Remove(hf)
	var closeDur time.Duration
	for k := 0; k <= kills; k++ {
		dir := filepath.Join(c.Scratch, fmt.Sprintf("closekill-%s-%d", be, k))
		os.MkdirAll(dir, 0o755)
		cmd := exec.Command(self, "-child", be, "-childdir", dir, "-childhist", hf)
		out, _ := cmd.StdoutPipe()
		if err := cmd.Start(); err != nil {
			panic(err)
		}
		rd := bufio.NewReader(out)
		lastAck := make(chan time.Time, 1)
		done := make(chan time.Time, 1)
		go func() {
			for {
				s, err := rd.ReadString('\n')
				if err != nil {
					close(done)
					return
				}
				if strings.HasPrefix(s, fmt.Sprintf("ack %d ", len(lines)-1)) {
					lastAck <- time.Now()
				}
				if strings.HasPrefix(s, "done") {
					done <- time.Now()
				}
			}
		}()
		t0 := <-lastAck
		if k == 0 {
			// calibration: how long the close takes when nobody interferes
			if t1, ok := <-done; ok {
				closeDur = t1.Sub(t0)
			}
		} else {
			// instants spread evenly over the measured duration of the close (with a little jitter), the last one past its end
			slot := int64(closeDur) * 5 / 4 / int64(kills)
			delay := time.Duration(slot*int64(k-1) + g.R.Int63n(slot+1))
			select {
			case <-done:
			case <-time.After(delay):
			}
			cmd.Process.Signal(syscall.SIGKILL)
		}
		cmd.Wait()
		c.Evals++
		c.Count("close-kill:" + be)
		fail := func(note, got string) bool {
			c.Violation(&Replay{Backend: be, Stream: "crash", Case: append(toIfaces(lines), J{"k": "kill during Close, reopen"}, after, J{"k": "close, reopen"}),
				Actual: []string{fmt.Sprintf("%d bytes of dump", len(got))}, Note: note})
			return false
		}
		// cycle 1: everything acknowledged is there
		im := &Impl{backend: be, root: c.Scratch, dir: dir, files: map[string]string{}}
		opened := func() (ok bool) {
			defer func() {
				if r := recover(); r != nil {
					ok = false
				}
			}()
			im.open()
			return true
		}
		if !opened() {
			return fail("the database cannot be reopened after a kill during Close", "")
		}
		if got := im.Dump(); got != dump1 || im.InvProblems() != "" {
			im.db.Close()
			return fail("after a kill during Close the reopened store is not the state all the acknowledged operations give "+im.InvProblems(), got)
		}
		// one more acknowledged operation, a clean close, and again
		if er := im.Exec(after, -1, false); !strings.HasPrefix(er.Line, "ok") {
			im.db.Close()
			return fail("a delete after reopening failed: "+er.Line, "")
		}
		im.db.Close()
		im2 := &Impl{backend: be, root: c.Scratch, dir: dir, files: map[string]string{}}
		im = im2
		if !opened() {
			return fail("the database cannot be reopened after a clean close", "")
		}
		got := im2.Dump()
		inv := im2.InvProblems()
		im2.db.Close()
		os.RemoveAll(dir)
		if got != dump2 || inv != "" {
			return fail("after a kill during Close, a reopen, an acknowledged delete and a clean close, the reopened store is not the state the acknowledged operations give (deleted documents are back, or entries are missing) "+inv, got)
		}
		c.NonTrivial(fmt.Sprint("closekill", be, k))
	}
	return true
}
