package main

import (
	"encoding/json"
	"fmt"
	"sort"
	"strings"

	clover "github.com/ostafen/clover/v2"
	d "github.com/ostafen/clover/v2/document"
	"github.com/ostafen/clover/v2/index"
)

// InvProblems evaluates C06's statement directly on the real store (independently of the model):
// the count used by Count equals the number of stored documents; every document is stored under
// the key of its _id; every index of the catalog yields each document of its collection exactly
// once, under its current value, in value order; nothing is stored for collections or indexes
// that do not exist.  It returns "" when the state is consistent.
func (im *Impl) InvProblems() string {
	tx, err := im.xs.inner.Begin(false)
	if err != nil {
		return ""
	}
	defer tx.Rollback()
	cur, err := tx.Cursor(true)
	if err != nil {
		return ""
	}
	type coll struct {
		size    int
		indexes []string
		docs    map[string]*d.Document
		entries map[string]int // index field -> raw entries
	}
	colls := map[string]*coll{}
	type rawKey struct{ coll, kind, rest string }
	raws := []rawKey{}
	for cur.Seek([]byte{}); cur.Valid(); cur.Next() {
		it, err := cur.Item()
		if err != nil {
			cur.Close()
			return "cursor: " + err.Error()
		}
		key := string(it.Key)
		switch {
		case strings.HasPrefix(key, "coll:"):
			var m struct {
				Size    int
				Indexes []struct{ Field string }
			}
			if err := json.Unmarshal(it.Value, &m); err != nil {
				cur.Close()
				return "unreadable metadata for " + key
			}
			c := &coll{size: m.Size, docs: map[string]*d.Document{}, entries: map[string]int{}}
			for _, in := range m.Indexes {
				c.indexes = append(c.indexes, in.Field)
			}
			colls[key[5:]] = c
		case strings.HasPrefix(key, "c:"):
			rest := key[2:]
			i := strings.IndexByte(rest, ';')
			if i < 0 || len(rest) < i+3 {
				cur.Close()
				return "unparsable key " + hx(key)
			}
			raws = append(raws, rawKey{rest[:i], rest[i+1 : i+3], rest[i+3:]})
			if rest[i+1:i+3] == "d:" {
				doc, err := d.Decode(it.Value)
				if err != nil {
					cur.Close()
					return "undecodable document at " + hx(key)
				}
				raws[len(raws)-1].rest = rest[i+3:]
				if c, ok := colls[rest[:i]]; ok {
					c.docs[rest[i+3:]] = doc
				}
			}
		default:
			cur.Close()
			return "foreign key " + hx(key)
		}
	}
	cur.Close()
	// "coll:" keys sort after "c:" keys, so documents were seen before their metadata: second pass
	for _, rk := range raws {
		c, ok := colls[rk.coll]
		if !ok {
			return fmt.Sprintf("residue: key of kind %q stored for collection %q which does not exist", rk.kind, rk.coll)
		}
		if rk.kind == "i:" {
			j := strings.IndexByte(rk.rest, ';')
			if j < 0 {
				return "unparsable index key"
			}
			field := rk.rest[:j]
			found := false
			for _, f := range c.indexes {
				if f == field {
					found = true
				}
			}
			if !found {
				return fmt.Sprintf("residue: index entry stored for (%q, %q) which is not in the catalog", rk.coll, field)
			}
			c.entries[field]++
		}
	}
	// re-read documents (first pass may have missed them because the metadata came later)
	cur2, _ := tx.Cursor(true)
	for cur2.Seek([]byte("c:")); cur2.Valid(); cur2.Next() {
		it, _ := cur2.Item()
		key := string(it.Key)
		if !strings.HasPrefix(key, "c:") {
			break
		}
		rest := key[2:]
		i := strings.IndexByte(rest, ';')
		if i >= 0 && strings.HasPrefix(rest[i+1:], "d:") {
			if c, ok := colls[rest[:i]]; ok {
				if doc, err := d.Decode(it.Value); err == nil {
					c.docs[rest[i+3:]] = doc
				}
			}
		}
	}
	cur2.Close()
	names := []string{}
	for n := range colls {
		names = append(names, n)
	}
	sort.Strings(names)
	for _, name := range names {
		c := colls[name]
		if c.size != len(c.docs) {
			return fmt.Sprintf("collection %q: size counter %d but %d documents stored", name, c.size, len(c.docs))
		}
		for id, doc := range c.docs {
			if doc.ObjectId() != id {
				return fmt.Sprintf("collection %q: document stored under id %s has _id %s", name, id, doc.ObjectId())
			}
		}
		for _, f := range c.indexes {
			if c.entries[f] != len(c.docs) {
				return fmt.Sprintf("index (%q, %q): %d entries for %d documents", name, f, c.entries[f], len(c.docs))
			}
			idx := index.CreateIndex(name, f, index.SingleField, tx).(index.RangeIndex)
			seen := map[string]int{}
			var prev *d.Document
			bad := ""
			idx.Iterate(false, func(id string) error {
				seen[id]++
				doc, ok := c.docs[id]
				if !ok {
					bad = fmt.Sprintf("index (%q, %q): entry for %s which is not a document of the collection", name, f, id)
					return nil
				}
				if prev != nil && clover.VerifCompare(prev.Get(f), doc.Get(f)) > 0 && indexOrderDomain(prev.Get(f)) && indexOrderDomain(doc.Get(f)) {
					bad = fmt.Sprintf("index (%q, %q): entries are not in the order of the documents' current values (%s before %s)", name, f, canonValue(prev.Get(f)), canonValue(doc.Get(f)))
				}
				prev = doc
				return nil
			})
			if bad != "" {
				return bad
			}
			for id := range c.docs {
				if seen[id] != 1 {
					return fmt.Sprintf("index (%q, %q): document %s has %d entries", name, f, id, seen[id])
				}
			}
			// under the current value: the equality range of each document's value finds it
			for id, doc := range c.docs {
				v := doc.Get(f)
				found := false
				idx.IterateRange(&index.Range{Start: v, End: v, StartIncluded: true, EndIncluded: true}, false, func(x string) error {
					if x == id {
						found = true
					}
					return nil
				})
				if !found {
					return fmt.Sprintf("index (%q, %q): document %s is not indexed under its current value %s", name, f, id, canonValue(v))
				}
			}
		}
	}
	return ""
}

// indexOrderDomain: values whose index keys are order-exact (numbers within 2^53, times from 1970 on).
func indexOrderDomain(v interface{}) bool { return c10KeyDomain(v) }
