package main

import (
	"encoding/json"
	"fmt"
	"math"
	"reflect"
	"sort"
	"strconv"
	"strings"
	"time"

	clover "github.com/ostafen/clover/v2"
	d "github.com/ostafen/clover/v2/document"
)

func init() { streams["C18"] = streamC18 }

// ---- Go values built by reflection from descriptors shared with the Lean driver ----

var intKinds = []string{"int", "int8", "int16", "int32", "int64"}
var uintKinds = []string{"uint", "uint8", "uint16", "uint32", "uint64"}

type Named int16 // a defined type: its kind is what matters

func mkInt(kind string, v int64) interface{} {
	switch kind {
	case "int":
		return int(v)
	case "int8":
		return int8(v)
	case "int16":
		return int16(v)
	case "int32":
		return int32(v)
	case "named":
		return Named(v)
	}
	return v
}

func mkUint(kind string, v uint64) interface{} {
	switch kind {
	case "uint":
		return uint(v)
	case "uint8":
		return uint8(v)
	case "uint16":
		return uint16(v)
	case "uint32":
		return uint32(v)
	}
	return v
}

// genGo returns a Go value and its descriptor.
func genGo(g *Gen, depth int, forField bool) (interface{}, J) {
	switch r := g.pick(16); {
	case r == 0:
		if forField {
			var p *int
			return p, J{"g": "ptr", "v": nil}
		}
		return nil, J{"g": "nil"}
	case r <= 2:
		kind := append(intKinds, "named")[g.pick(6)]
		bounds := map[string][]int64{"int8": {-128, 127, 0, -1, 5}, "int16": {-32768, 32767, 0, 7}, "named": {-3, 0, 9}, "int32": {math.MinInt32, math.MaxInt32, 0, 1 << 20},
			"int": {math.MinInt64, math.MaxInt64, 0, -1, 42}, "int64": {math.MinInt64, math.MaxInt64, 0, 1 << 53, 3}}
		v := bounds[kind][g.pick(len(bounds[kind]))]
		return mkInt(kind, v), J{"g": "int", "kind": kind, "v": strconv.FormatInt(v, 10)}
	case r <= 4:
		kind := uintKinds[g.pick(5)]
		bounds := map[string][]uint64{"uint8": {0, 255, 7}, "uint16": {0, 65535, 9}, "uint32": {0, math.MaxUint32, 11}, "uint": {0, math.MaxUint64, 13}, "uint64": {0, math.MaxUint64, 1 << 63, 5}}
		v := bounds[kind][g.pick(len(bounds[kind]))]
		return mkUint(kind, v), J{"g": "uint", "kind": kind, "v": strconv.FormatUint(v, 10)}
	case r == 5:
		fs := []float64{0, math.Copysign(0, -1), 1.5, -2.25, math.MaxFloat64, math.SmallestNonzeroFloat64, math.Inf(1), 1e10, 0.1}
		f := fs[g.pick(len(fs))]
		if g.pick(2) == 0 {
			f32 := float32(f)
			return f32, J{"g": "float", "kind": "float32", "bits": fmt.Sprintf("%016x", math.Float64bits(float64(f32)))}
		}
		return f, J{"g": "float", "kind": "float64", "bits": fmt.Sprintf("%016x", math.Float64bits(f))}
	case r == 6:
		s := boundaryStrings[g.pick(len(boundaryStrings))]
		return s, J{"g": "str", "v": hx(s)}
	case r == 7:
		b := g.pick(2) == 0
		return b, J{"g": "bool", "v": b}
	case r == 8:
		t := boundaryTimes()[g.pick(10)]
		_, off := t.Zone()
		return t, J{"g": "time", "v": []interface{}{strconv.FormatInt(t.UnixNano(), 10), strconv.Itoa(off)}}
	case r == 9 && depth > 0:
		// pointer, possibly nil, possibly to a time, depth up to 3
		inner, dj := genGo(g, depth-1, true)
		if inner == nil {
			var p *string
			return p, J{"g": "ptr", "v": nil}
		}
		pv := reflect.New(reflect.TypeOf(inner))
		pv.Elem().Set(reflect.ValueOf(inner))
		return pv.Interface(), J{"g": "ptr", "v": dj}
	case r == 10 && depth > 0:
		n := g.pick(4)
		vals := []interface{}{}
		ds := []interface{}{}
		for i := 0; i < n; i++ {
			v, dj := genGo(g, depth-1, false)
			vals = append(vals, v)
			ds = append(ds, dj)
		}
		if g.pick(3) == 0 { // array
			at := reflect.ArrayOf(n, reflect.TypeOf((*interface{})(nil)).Elem())
			av := reflect.New(at).Elem()
			for i, v := range vals {
				if v != nil {
					av.Index(i).Set(reflect.ValueOf(v))
				}
			}
			return av.Interface(), J{"g": "list", "array": true, "v": ds}
		}
		if g.pick(4) == 0 && n > 0 { // an ARRAY of bytes is an array like any other (only byte SLICES are binary data)
			at := reflect.ArrayOf(n, reflect.TypeOf(uint8(0)))
			av := reflect.New(at).Elem()
			ds = []interface{}{}
			for i := 0; i < n; i++ {
				av.Index(i).SetUint(uint64(200 + i))
				ds = append(ds, J{"g": "uint", "kind": "uint8", "v": strconv.Itoa(200 + i)})
			}
			return av.Interface(), J{"g": "list", "array": true, "v": ds}
		}
		if g.pick(4) == 0 && n > 0 { // typed slices and arrays of other widths
			out := []uint32{}
			ds = []interface{}{}
			for i := 0; i < n; i++ {
				out = append(out, uint32(i*70000))
				ds = append(ds, J{"g": "uint", "kind": "uint32", "v": strconv.Itoa(i * 70000)})
			}
			return out, J{"g": "list", "v": ds}
		}
		if g.pick(3) == 0 && n > 0 { // typed slice
			out := []int16{}
			ds = []interface{}{}
			for i := 0; i < n; i++ {
				out = append(out, int16(i-1))
				ds = append(ds, J{"g": "int", "kind": "int16", "v": strconv.Itoa(i - 1)})
			}
			return out, J{"g": "list", "v": ds}
		}
		return vals, J{"g": "list", "v": ds}
	case r == 11 && depth > 0:
		n := g.pick(4)
		if g.pick(4) == 0 {
			return map[int]interface{}{1: "a"}, J{"g": "map", "key": "int", "v": []interface{}{}}
		}
		m := map[string]interface{}{}
		kvs := []interface{}{}
		for i := 0; i < n; i++ {
			k := []string{"a", "b", "ab", "", "k"}[g.pick(5)]
			if _, dup := m[k]; dup {
				continue
			}
			v, dj := genGo(g, depth-1, false)
			m[k] = v
			kvs = append(kvs, []interface{}{hx(k), dj})
		}
		return m, J{"g": "map", "key": "string", "v": kvs}
	case r == 12 && depth > 0:
		// struct built with reflect.StructOf: tags (rename, omitempty), an unexported-looking skip is not possible
		// with StructOf, so exported fields only; embedded structs come from the declared family below
		n := 1 + g.pick(3)
		fields := []reflect.StructField{}
		vals := []interface{}{}
		fds := []interface{}{}
		names := []string{"A", "B", "C", "Dd"}
		for i := 0; i < n; i++ {
			v, dj := genGo(g, depth-1, true)
			if v == nil {
				continue
			}
			tag := ""
			tagName := ""
			omit := false
			switch g.pick(4) {
			case 0:
				tagName = []string{"x", "a", "B"}[g.pick(3)]
				tag = tagName
			case 1:
				omit = true
				tag = ",omitempty"
			case 2:
				tagName = "y"
				omit = true
				tag = "y,omitempty"
			}
			sf := reflect.StructField{Name: names[i], Type: reflect.TypeOf(v)}
			if tag != "" {
				sf.Tag = reflect.StructTag(`clover:"` + tag + `" json:"` + tag + `"`)
			}
			fields = append(fields, sf)
			vals = append(vals, v)
			fds = append(fds, J{"name": hx(names[i]), "tag": hx(tagName), "omitempty": omit, "exported": true, "embedded": false, "v": dj})
		}
		st := reflect.New(reflect.StructOf(fields)).Elem()
		for i, v := range vals {
			st.Field(i).Set(reflect.ValueOf(v))
		}
		return st.Interface(), J{"g": "struct", "fields": fds}
	case r == 13:
		switch g.pick(3) {
		case 0:
			return make(chan int), J{"g": "chan"}
		case 1:
			return func() {}, J{"g": "func"}
		}
		return complex(1, 2), J{"g": "complex"}
	}
	v := int64(g.pick(10))
	return v, J{"g": "int", "kind": "int64", "v": strconv.FormatInt(v, 10)}
}

// declared family for embedding, unexported fields and struct round trips
type EmbA struct {
	B1 int8 `clover:"b1"`
	S  []int
}
type Outer struct {
	EmbA
	X      int8 `clover:"x,omitempty"`
	P      *time.Time
	hidden int
	Name   string `clover:"name" json:"name"`
}
type Swap struct {
	A int `clover:"B" json:"A"`
	B int `clover:"A" json:"B"`
}

func outerDesc(o Outer) J {
	s := []interface{}{}
	for _, e := range o.S {
		s = append(s, J{"g": "int", "kind": "int", "v": strconv.Itoa(e)})
	}
	var p interface{}
	if o.P != nil {
		_, off := o.P.Zone()
		p = J{"g": "time", "v": []interface{}{strconv.FormatInt(o.P.UnixNano(), 10), strconv.Itoa(off)}}
	}
	emb := J{"g": "struct", "fields": []interface{}{
		J{"name": hx("B1"), "tag": hx("b1"), "omitempty": false, "exported": true, "embedded": false, "v": J{"g": "int", "kind": "int8", "v": strconv.Itoa(int(o.B1))}},
		J{"name": hx("S"), "tag": "", "omitempty": false, "exported": true, "embedded": false, "v": J{"g": "list", "v": s}}}}
	return J{"g": "struct", "fields": []interface{}{
		J{"name": hx("EmbA"), "tag": "", "omitempty": false, "exported": true, "embedded": true, "v": emb},
		J{"name": hx("X"), "tag": hx("x"), "omitempty": true, "exported": true, "embedded": false, "v": J{"g": "int", "kind": "int8", "v": strconv.Itoa(int(o.X))}},
		J{"name": hx("P"), "tag": "", "omitempty": false, "exported": true, "embedded": false, "v": J{"g": "ptr", "v": p}},
		J{"name": hx("hidden"), "tag": "", "omitempty": false, "exported": false, "embedded": false, "v": J{"g": "int", "kind": "int", "v": "1"}},
		J{"name": hx("Name"), "tag": hx("name"), "omitempty": false, "exported": true, "embedded": false, "v": J{"g": "str", "v": hx(o.Name)}}}}
}

func safeNormalize(v interface{}) (res interface{}, err error, pan string) {
	defer func() {
		if r := recover(); r != nil {
			pan = fmt.Sprint(r)
		}
	}()
	res, err = clover.VerifNormalize(v)
	return
}

func streamC18(c *Ctx) {
	c.Rule = "Go values built by reflection from descriptors shared with the Lean driver: every integer width (incl. a defined type), float32/64, pointers of depth 0-3 incl. nil and pointers to times, slices, arrays, typed slices, maps with string and non-string keys, structs from reflect.StructOf with clover tags (rename, omitempty) and a declared family with embedded structs / unexported fields, unsupported kinds (chan, func, complex): Normalize of the real code vs Lean normalize, idempotence (normalising the result again), Set/Get/Has on dotted paths vs the model (also on documents of any shape whose top-level keys contain dots: same-path and unrelated-path laws), unsupported values leave the document unchanged, struct -> document -> struct round trips (incl. swapped tags). " +
		"non-trivial = distinct descriptors of depth >= 1"
	dr := StartDriver(c.DriverBin)
	defer dr.Close()
	g := NewGen(c.Rng, Domain{})
	n := c.N(15000, 200000)
	modelOff := false
	for i := 0; i < n; i++ {
		v, dj := genGo(g, 3, false)
		line := J{"k": "norm", "v": dj}
		c.Evals++
		res, err, pan := safeNormalize(v)
		c.Count("kind:" + dj["g"].(string))
		if pan != "" {
			c.Violation(&Replay{Stream: "norm", Case: []interface{}{line}, Actual: []string{"panic " + pan}, Note: "Normalize panicked"})
			return
		}
		got := "ok " + canonValue(res)
		if err != nil {
			got = "err"
		}
		if err == nil && strings.Contains(got, "?") {
			c.Violation(&Replay{Stream: "norm", Case: []interface{}{line}, Actual: []string{got}, Note: "Normalize returned a value that is not made of canonical types (int64, uint64, float64, string, bool, time.Time, nil, map, slice)"})
			return
		}
		// tags, without the model: the struct carries the same tag text for encoding/json, whose rules for names and
		// omitempty are the ones the clover tag documents; the two must agree on which keys a struct produces
		if rm, isMap := res.(map[string]interface{}); isMap && err == nil && dj["g"] == "struct" {
			if want, ok := jsonKeySet(v); ok {
				have := []string{}
				for k := range rm {
					have = append(have, k)
				}
				sort.Strings(have)
				if fmt.Sprint(have) != fmt.Sprint(want) {
					c.Violation(&Replay{Stream: "norm", Case: []interface{}{line}, Expected: []string{fmt.Sprint(want)}, Actual: []string{fmt.Sprint(have)},
						Note: "the keys a tagged struct becomes differ from what the same tags (name, omitempty) mean to encoding/json"})
					return
				}
				c.Count("struct-keys-vs-encoding/json")
			}
		}
		if !modelOff {
			m := dr.Ask(line)
			if (err != nil) != (len(m) >= 3 && m[:3] == "err") || (err == nil && m != got) {
				// recorded once; the loop goes on with the laws that need no model, looking for an input on which the property fails
				c.Unexplained(&Replay{Stream: "norm", Case: []interface{}{line}, Expected: []string{m}, Actual: []string{got}}, "correspondence K-C18/normalize")
				modelOff = true
			}
		}
		if dj["g"] == "list" || dj["g"] == "map" || dj["g"] == "struct" || dj["g"] == "ptr" {
			c.NonTrivial(fmt.Sprint(dj))
		}
		// pointers are transparent, at any depth: Normalize(&v), Normalize(&&v), Normalize(&&&v) are Normalize(v) (C18: "pointers dereferenced")
		if v != nil {
			pv := reflect.ValueOf(v)
			for depthP := 1; depthP <= 3; depthP++ {
				np := reflect.New(pv.Type())
				np.Elem().Set(pv)
				pv = np
				resP, errP, panP := safeNormalize(pv.Interface())
				gotP := "err"
				if errP == nil {
					gotP = "ok " + canonValue(resP)
				}
				if panP != "" {
					gotP = "panic " + panP
				}
				if gotP != got {
					c.Violation(&Replay{Stream: "norm", Case: []interface{}{line, J{"pointerDepth": depthP}}, Expected: []string{got}, Actual: []string{gotP},
						Note: fmt.Sprintf("Normalize of a pointer chain of depth %d to the value differs from Normalize of the value", depthP)})
					return
				}
			}
			c.Count("pointer-transparency")
		}
		// idempotence on the implementation
		if err == nil {
			res2, err2, _ := safeNormalize(res)
			if err2 != nil || canonValue(res2) != canonValue(res) {
				c.Violation(&Replay{Stream: "norm", Case: []interface{}{line}, Expected: []string{canonValue(res)}, Actual: []string{canonValue(res2)}, Note: "Normalize is not idempotent"})
				return
			}
		}
		// Set on a document: supported values are readable back, unsupported ones change nothing
		doc := d.NewDocument()
		doc.Set("keep", int64(1))
		path := []string{"a", "a.b", "n.x.y", "keep.z"}[g.pick(4)]
		before := canonDoc(doc.AsMap())
		doc.Set(path, v)
		if err != nil {
			if canonDoc(doc.AsMap()) != before {
				c.Violation(&Replay{Stream: "norm", Case: []interface{}{line}, Expected: []string{before}, Actual: []string{canonDoc(doc.AsMap())}, Note: "Set with an unsupported value changed the document"})
				return
			}
		} else {
			if !doc.Has(path) || canonValue(doc.Get(path)) != canonValue(res) {
				c.Violation(&Replay{Stream: "norm", Case: []interface{}{line}, Expected: []string{canonValue(res)}, Actual: []string{canonValue(doc.Get(path))}, Note: "Get/Has do not agree with Set on path " + path})
				return
			}
			if modelOff {
				continue
			}
			// the model's path assignment
			pm := dr.Ask(J{"k": "path", "doc": encDoc(map[string]interface{}{"keep": int64(1)}), "path": hx(path), "v": encValue(res)})
			if pm != canonDoc(doc.AsMap()) {
				c.Unexplained(&Replay{Stream: "norm", Case: []interface{}{line, J{"path": path}}, Expected: []string{pm}, Actual: []string{canonDoc(doc.AsMap())}}, "correspondence K-C18/set")
				return
			}
		}
		if i < 2 {
			c.Sample(line)
		}
	}
	// nil containers: a map or slice that was never initialised - on its own, in a struct field, behind a pointer, as a map
	// value - normalises to what the empty one normalises to, and the result is a real (non-nil) container: a dotted Set
	// below it must work as it does below an empty map
	{
		type holder struct {
			Attrs map[string]string `clover:"attrs"`
			List  []int             `clover:"list"`
		}
		var nm map[string]int
		var ns []string
		cases := []struct {
			name      string
			nilV, emp interface{}
		}{
			{"nil map", nm, map[string]int{}},
			{"nil slice", ns, []string{}},
			{"struct with nil map and slice", holder{}, holder{Attrs: map[string]string{}, List: []int{}}},
			{"pointer to struct with nil fields", &holder{}, &holder{Attrs: map[string]string{}, List: []int{}}},
			{"nil map as a map value", map[string]interface{}{"m": nm}, map[string]interface{}{"m": map[string]int{}}},
		}
		var typedNil func(v interface{}) bool
		typedNil = func(v interface{}) bool {
			switch x := v.(type) {
			case map[string]interface{}:
				if x == nil {
					return true
				}
				for _, e := range x {
					if typedNil(e) {
						return true
					}
				}
			case []interface{}:
				if x == nil {
					return true
				}
				for _, e := range x {
					if typedNil(e) {
						return true
					}
				}
			}
			return false
		}
		for _, cs := range cases {
			c.Evals++
			rn, en, pn := safeNormalize(cs.nilV)
			re, ee, _ := safeNormalize(cs.emp)
			bad := ""
			switch {
			case pn != "":
				bad = "Normalize panicked: " + pn
			case (en != nil) != (ee != nil) || (en == nil && canonValue(rn) != canonValue(re)):
				bad = "Normalize of the nil container differs from Normalize of the empty one: " + canonValue(rn) + " / " + canonValue(re)
			case en == nil && typedNil(rn):
				bad = "the result holds a nil map or slice (a container that cannot be written into)"
			}
			if bad == "" && en == nil {
				// a document holding it: a dotted Set below the (empty) map must create the entry, not panic
				func() {
					defer func() {
						if r := recover(); r != nil {
							bad = fmt.Sprint("Set below the normalised container panicked: ", r)
						}
					}()
					doc := d.NewDocument()
					doc.Set("h", cs.nilV)
					for _, p := range []string{"h.k", "h.attrs.color", "h.m.z"} {
						doc.Set(p, int64(1))
					}
					if _, isMap := doc.Get("h").(map[string]interface{}); isMap && !doc.Has("h.k") {
						bad = "Set of h.k below the normalised map did not create the entry"
					}
				}()
			}
			if bad != "" {
				c.Violation(&Replay{Stream: "norm", Case: []interface{}{J{"k": "nil-container", "case": cs.name}}, Actual: []string{bad}, Note: "a nil Go map / slice is not normalised like the empty one"})
				return
			}
			c.Count("nil-container")
		}
	}
	// named types over the canonical kinds (time.Duration, type Label string, …) as elements of slices and arrays, as map
	// values and struct fields: they normalise to the canonical type of their kind, exactly as the same values of the
	// unnamed kind do
	{
		type label string
		type score float64
		type cnt uint32
		type flag bool
		type rec struct {
			L  label   `clover:"l"`
			Ls []label `clover:"ls"`
			D  []time.Duration
		}
		cases := []struct {
			name         string
			named, plain interface{}
		}{
			{"[]time.Duration", []time.Duration{1, 2 * time.Second}, []int64{1, int64(2 * time.Second)}},
			{"[2]label", [2]label{"a", "b"}, [2]string{"a", "b"}},
			{"[]score", []score{1.5, 2}, []float64{1.5, 2}},
			{"[]cnt", []cnt{7}, []uint32{7}},
			{"[]flag", []flag{true, false}, []bool{true, false}},
			{"map[string]label", map[string]label{"k": "v"}, map[string]string{"k": "v"}},
			{"struct with named fields", rec{L: "x", Ls: []label{"y"}, D: []time.Duration{3}}, map[string]interface{}{"l": "x", "ls": []string{"y"}, "D": []int64{3}}},
			{"pointer to a slice of a named type", &[]label{"p"}, []string{"p"}},
		}
		for _, cs := range cases {
			c.Evals++
			rn, en, pn := safeNormalize(cs.named)
			rp, ep, _ := safeNormalize(cs.plain)
			bad := ""
			switch {
			case pn != "":
				bad = "Normalize panicked: " + pn
			case en != nil || ep != nil:
				bad = fmt.Sprint("Normalize failed: ", en, ep)
			case strings.Contains(canonValue(rn), "?"):
				bad = "the result holds values of non-canonical Go types: " + canonValue(rn)
			case canonValue(rn) != canonValue(rp):
				bad = "named types normalise differently from their kind: " + canonValue(rn) + " / " + canonValue(rp)
			}
			if bad != "" {
				c.Violation(&Replay{Stream: "norm", Case: []interface{}{J{"k": "named-kinds", "case": cs.name}}, Actual: []string{bad}, Note: "values of named types over the canonical kinds are not normalised to the canonical types"})
				return
			}
			c.Count("named-kind-case")
		}
	}
	// binary data: a byte SLICE - plain, of a named type, behind a pointer, inside a struct or a map - is kept as a []byte
	{
		type blob []byte
		type holder struct {
			B blob `clover:"b"`
			P *[]byte
		}
		raw := []byte{0, 1, 254, 255}
		for i, v := range []interface{}{raw, blob(raw), &raw, holder{B: blob(raw), P: &raw}, map[string]interface{}{"b": blob(raw), "P": raw}} {
			res, err, pan := safeNormalize(v)
			ok := pan == "" && err == nil
			check := func(x interface{}) bool { b, is := x.([]byte); return is && string(b) == string(raw) }
			if ok && i < 3 {
				ok = check(res)
			} else if ok {
				m, _ := res.(map[string]interface{})
				ok = m != nil && check(m["b"]) && check(m["P"])
			}
			c.Evals++
			if !ok {
				c.Violation(&Replay{Stream: "norm", Case: []interface{}{J{"k": "binary", "variant": i, "type": fmt.Sprintf("%T", v)}}, Actual: []string{fmt.Sprintf("%T %v", res, res), fmt.Sprint(err), pan},
					Note: "a byte slice (plain, named, behind a pointer, in a struct or map) must be kept as a []byte with its content"})
				return
			}
		}
	}
	if !c18SameNamedTypes(c, g) {
		return
	}
	if !c18StructFamily(c, g) {
		return
	}
	if !c18Rename(c, dr, g) {
		return
	}
	if !c18Paths(c, dr, g) {
		return
	}
	// the declared family: embedded flattening, unexported fields, round trips
	now := mkTime(1577923200123456789, 3600)
	for i := 0; i < c.N(800, 6000); i++ {
		o := Outer{EmbA: EmbA{B1: int8(g.pick(5) - 2), S: []int{g.pick(3), 7}}, X: int8(g.pick(3)), hidden: 4, Name: boundaryStrings[g.pick(4)]}
		if g.pick(2) == 0 {
			o.P = &now
		}
		c.Evals++
		res, err, pan := safeNormalize(o)
		line := J{"k": "norm", "v": outerDesc(o)}
		if pan != "" || err != nil {
			c.Violation(&Replay{Stream: "norm", Case: []interface{}{line}, Actual: []string{pan, fmt.Sprint(err)}, Note: "Normalize failed on a declared struct"})
			return
		}
		if m := dr.Ask(line); m != "ok "+canonValue(res) {
			c.Unexplained(&Replay{Stream: "norm", Case: []interface{}{line}, Expected: []string{m}, Actual: []string{"ok " + canonValue(res)}}, "correspondence K-C18/struct")
			return
		}
		c.NonTrivial(fmt.Sprint(o.B1, o.S, o.X, o.P != nil, o.Name))
		// struct -> document -> struct
		sw := Swap{A: g.pick(100) + 1, B: g.pick(100) + 200}
		doc := d.NewDocumentOf(sw)
		var back Swap
		if doc == nil || doc.Unmarshal(&back) != nil || back != sw {
			c.Violation(&Replay{Stream: "norm", Case: []interface{}{J{"k": "roundtrip", "A": sw.A, "B": sw.B}}, Expected: []string{fmt.Sprint(sw)}, Actual: []string{fmt.Sprint(back)}, Note: "a struct converted to a document and unmarshalled back differs"})
			return
		}
		doc2 := d.NewDocumentOf(o)
		var back2 Outer
		if doc2 == nil || doc2.Unmarshal(&back2) != nil || back2.Name != o.Name || back2.X != o.X {
			c.Violation(&Replay{Stream: "norm", Case: []interface{}{line}, Expected: []string{fmt.Sprint(o.Name, o.X)}, Actual: []string{fmt.Sprint(back2.Name, back2.X)}, Note: "struct round trip through a document lost tagged fields"})
			return
		}
	}
}

// ---- Document.Unmarshal: key renaming along the target struct type (renameMapKeys) ----

type rField struct {
	goName, clover, json string
	sub                  []rField // nil = not a struct
	ptr                  bool     // the nested struct sits behind a pointer
	kind                 string   // "" = the field IS the struct sub (or a leaf); "list" / "map" = a slice / a map of such structs; "embedded" = anonymous field
}

func rTypeOf(fs []rField) reflect.Type {
	sf := []reflect.StructField{}
	for _, f := range fs {
		tag := ""
		if f.clover != "" {
			tag += fmt.Sprintf("clover:%q ", f.clover)
		}
		if f.json != "" {
			tag += fmt.Sprintf("json:%q", f.json)
		}
		var t reflect.Type = reflect.TypeOf(int64(0))
		if f.sub != nil {
			t = rTypeOf(f.sub)
			if f.ptr {
				t = reflect.PtrTo(t)
			}
			switch f.kind {
			case "list":
				t = reflect.SliceOf(t)
			case "map":
				t = reflect.MapOf(reflect.TypeOf(""), t)
			}
		}
		sf = append(sf, reflect.StructField{Name: f.goName, Type: t, Tag: reflect.StructTag(strings.TrimSpace(tag)), Anonymous: f.kind == "embedded"})
	}
	return reflect.StructOf(sf)
}

func rDesc(fs []rField) interface{} {
	if fs == nil {
		return nil
	}
	out := []interface{}{}
	for _, f := range fs {
		out = append(out, []interface{}{hx(f.goName), hx(f.clover), hx(f.json), rDesc(f.sub)})
	}
	return out
}

// the descriptor of Model/Unmarshal2.lean: {"s": [[go, clover, json, embedded, type] ...]}, {"l": type}, {"m": type}, null
func rDesc2(fs []rField) interface{} {
	out := []interface{}{}
	for _, f := range fs {
		var t interface{}
		if f.sub != nil {
			t = rDesc2(f.sub)
			switch f.kind {
			case "list":
				t = J{"l": t}
			case "map":
				t = J{"m": t}
			}
		}
		out = append(out, []interface{}{hx(f.goName), hx(f.clover), hx(f.json), f.kind == "embedded", t})
	}
	return J{"s": out}
}

func rHasNewKinds(fs []rField) bool {
	for _, f := range fs {
		if f.kind != "" || (f.sub != nil && rHasNewKinds(f.sub)) {
			return true
		}
	}
	return false
}

// within one struct the stored names are distinct and so are the names json reads (a struct violating this
// is ambiguous for encoding/json itself); a stored name of one field may well be the json/Go name of another
func rDistinct(fs []rField) bool {
	from, to := map[string]bool{}, map[string]bool{}
	for _, f := range fs {
		a, b := f.goName, f.goName
		if f.clover != "" {
			a = f.clover
		}
		if f.json != "" {
			b = f.json
		}
		if from[a] || to[b] {
			return false
		}
		from[a], to[b] = true, true
	}
	return true
}

func genRFields(g *Gen, depth int) []rField {
	for {
		fs := genRFields1(g, depth)
		if rDistinct(fs) {
			return fs
		}
	}
}

func genRFields1(g *Gen, depth int) []rField {
	names := []string{"a", "b", "A", "B", "k", "id", "F0", "F1", "x"}
	n := 1 + g.pick(4)
	fs := []rField{}
	for i := 0; i < n; i++ {
		f := rField{goName: []string{"A", "B", "C", "D"}[i]}
		if g.pick(3) != 0 {
			f.clover = names[g.pick(len(names))]
		}
		if g.pick(3) == 0 {
			f.json = names[g.pick(len(names))]
		}
		if depth > 0 && g.pick(3) == 0 {
			f.sub = genRFields(g, depth-1)
			f.ptr = g.pick(2) == 0
			f.kind = []string{"", "", "list", "map"}[g.pick(4)]
		}
		fs = append(fs, f)
	}
	if depth > 0 && g.pick(4) == 0 {
		// one embedded struct: its fields are flattened into this struct's document; their names come from a pool of their
		// own, so that no promoted field's stored name is another field's json name (see Proofs/Unmarshal2.lean `cross`)
		es := []rField{}
		for i := 0; i < 1+g.pick(3); i++ {
			e := rField{goName: []string{"P", "Q", "R"}[i]}
			if g.pick(3) != 0 {
				e.clover = []string{"p", "pp", "e1"}[i]
			}
			if g.pick(3) == 0 {
				e.json = []string{"jp", "jq", "jr"}[i]
			}
			if g.pick(4) == 0 {
				e.sub = []rField{{goName: "N", clover: "num"}}
				e.kind = []string{"", "list"}[g.pick(2)]
			}
			es = append(es, e)
		}
		emb := rField{goName: "Emb", sub: es, kind: "embedded", ptr: false}
		pos := g.pick(len(fs) + 1)
		fs = append(fs[:pos], append([]rField{emb}, fs[pos:]...)...)
	}
	return fs
}

// a document shaped after the struct (keys under the names the fields are stored under) plus stray keys
func genRDoc(g *Gen, fs []rField) map[string]interface{} {
	m := map[string]interface{}{}
	for _, f := range fs {
		if g.pick(5) == 0 {
			continue
		}
		key := f.goName
		if f.clover != "" {
			key = f.clover
		}
		switch {
		case f.kind == "embedded":
			for k, v := range genRDoc(g, f.sub) {
				if _, clash := m[k]; !clash {
					m[k] = v
				}
			}
		case f.sub != nil && f.kind == "list" && g.pick(6) != 0:
			l := []interface{}{}
			for n := g.pick(3); n > 0; n-- {
				l = append(l, genRDoc(g, f.sub))
			}
			m[key] = l
		case f.sub != nil && f.kind == "map" && g.pick(6) != 0:
			mm := map[string]interface{}{}
			for n := g.pick(3); n > 0; n-- {
				mm[fmt.Sprint("k", n)] = genRDoc(g, f.sub)
			}
			m[key] = mm
		case f.sub != nil && f.kind == "" && g.pick(6) != 0:
			m[key] = genRDoc(g, f.sub)
		default:
			m[key] = int64(g.pick(100))
		}
	}
	if g.pick(3) == 0 {
		m[[]string{"zz", "a", "B", "q"}[g.pick(4)]] = int64(-1)
	}
	return m
}

// every key of every level moves to a distinct target (otherwise Go's map iteration order decides); the fields of an
// embedded struct are renamed in a pass of their own over the same map
func rCollisionFree(fs []rField, m map[string]interface{}) bool {
	names := func(f rField) (string, string) {
		from, to := f.goName, f.goName
		if f.clover != "" {
			from = f.clover
		}
		if f.json != "" {
			to = f.json
		}
		return from, to
	}
	// one renaming pass over a key set; false on a collision
	pass := func(keys map[string]bool, fields []rField) (map[string]bool, bool) {
		rm := map[string]string{}
		for _, f := range fields {
			if from, to := names(f); from != to {
				rm[from] = to // a later field with the same source key overwrites the entry: the Go map
			}
		}
		out := map[string]bool{}
		for k := range keys {
			t := k
			if r, ok := rm[k]; ok && r != "" {
				t = r
			}
			if out[t] {
				return nil, false
			}
			out[t] = true
		}
		return out, true
	}
	keys := map[string]bool{}
	for k := range m {
		keys[k] = true
	}
	keys, ok := pass(keys, fs)
	if !ok {
		return false
	}
	var nested func(fields []rField, at map[string]interface{}) bool
	nested = func(fields []rField, at map[string]interface{}) bool {
		for _, f := range fields {
			if f.sub == nil || f.kind == "embedded" {
				continue
			}
			from, _ := names(f)
			switch v := at[from].(type) {
			case map[string]interface{}:
				if f.kind == "map" {
					for _, e := range v {
						if em, isMap := e.(map[string]interface{}); isMap && !rCollisionFree(f.sub, em) {
							return false
						}
					}
				} else if f.kind == "" && !rCollisionFree(f.sub, v) {
					return false
				}
			case []interface{}:
				if f.kind == "list" {
					for _, e := range v {
						if em, isMap := e.(map[string]interface{}); isMap && !rCollisionFree(f.sub, em) {
							return false
						}
					}
				}
			}
		}
		return true
	}
	if !nested(fs, m) {
		return false
	}
	for _, f := range fs {
		if f.kind != "embedded" {
			continue
		}
		if keys, ok = pass(keys, f.sub); !ok {
			return false
		}
		if !nested(f.sub, m) {
			return false
		}
	}
	return true
}

func c18Rename(c *Ctx, dr *Driver, g *Gen) bool {
	// a mismatch between renameMapKeys and its model does not end the run: the search goes on with the
	// property's own oracle (struct -> document -> struct) and reports the mismatch only if that finds nothing
	var pending *Replay
	defer func() {
		if pending != nil && c.Violations == 0 {
			c.Unexplained(pending, "correspondence K-C18/rename")
		}
	}()
	for i := 0; i < c.N(4000, 40000); i++ {
		fs := genRFields(g, 2)
		m := genRDoc(g, fs)
		if !rCollisionFree(fs, m) {
			continue
		}
		line := J{"k": "rename", "doc": encDoc(m), "rtype": rDesc(fs)}
		if rHasNewKinds(fs) || i%2 == 0 {
			line = J{"k": "rename2", "doc": encDoc(m), "rt": rDesc2(fs)} // the model of the repaired function (every shape; conservative over the first)
		}
		c.Evals++
		var got map[string]interface{}
		pan := ""
		func() {
			defer func() {
				if r := recover(); r != nil {
					pan = fmt.Sprint(r)
				}
			}()
			target := reflect.New(rTypeOf(fs)).Interface()
			got = clover.VerifRenameMapKeys(copyJSONMap(m), target)
		}()
		if pan != "" {
			c.Violation(&Replay{Stream: "rename", Case: []interface{}{line}, Actual: []string{"panic " + pan}, Note: "renameMapKeys panicked"})
			return false
		}
		c.Count("rename:fields=" + fmt.Sprint(len(fs)))
		want := dr.Ask(line)
		if canonDoc(got) != want && pending == nil {
			pending = &Replay{Stream: "rename", Case: []interface{}{line}, Expected: []string{want}, Actual: []string{canonDoc(got)}}
		}
		c.NonTrivial("rename|" + fmt.Sprint(rDesc2(fs)) + canonDoc(m))
		if rHasNewKinds(fs) {
			c.Count("rename:embedded-or-container")
		}
		// the property itself on the implementation: a struct of this type converted to a document and
		// unmarshalled back is unchanged (names that differ only in case are left out: encoding/json folds case)
		if rFoldDistinct(fs) {
			t := rTypeOf(fs)
			v := reflect.New(t).Elem()
			rFill(g, fs, v)
			doc := d.NewDocumentOf(v.Interface())
			back := reflect.New(t)
			var uerr error
			func() {
				defer func() {
					if r := recover(); r != nil {
						pan = fmt.Sprint(r)
					}
				}()
				uerr = doc.Unmarshal(back.Interface())
			}()
			c.Evals++
			if pan != "" || uerr != nil || !reflect.DeepEqual(back.Elem().Interface(), v.Interface()) {
				c.Violation(&Replay{Stream: "rename", Case: []interface{}{J{"k": "roundtrip", "rtype": rDesc(fs), "value": fmt.Sprintf("%+v", v.Interface())}},
					Expected: []string{fmt.Sprintf("%+v", v.Interface())}, Actual: []string{fmt.Sprintf("%+v", back.Elem().Interface()), pan, fmt.Sprint(uerr)},
					Note: "a struct converted to a document and unmarshalled back differs (document: " + canonDoc(doc.AsMap()) + ")"})
				return false
			}
			c.Count("struct-roundtrip")
		}
	}
	return pending == nil
}

// rFoldDistinct: the names json reads are distinct even ignoring case, at every level
func rFoldDistinct(fs []rField) bool {
	to := map[string]bool{}
	for _, f := range fs {
		b := f.goName
		if f.json != "" {
			b = f.json
		}
		if to[strings.ToLower(b)] {
			return false
		}
		to[strings.ToLower(b)] = true
		if f.sub != nil && !rFoldDistinct(f.sub) {
			return false
		}
	}
	return true
}

// rFill: non-zero leaves; nested structs behind pointers are allocated most of the time
func rFill(g *Gen, fs []rField, v reflect.Value) {
	for i, f := range fs {
		fv := v.Field(i)
		if f.sub == nil {
			fv.SetInt(int64(1 + g.pick(1000)))
			continue
		}
		fillOne := func(t reflect.Type) reflect.Value { // a value of the (possibly pointer) struct type t
			if t.Kind() == reflect.Ptr {
				p := reflect.New(t.Elem())
				rFill(g, f.sub, p.Elem())
				return p
			}
			e := reflect.New(t).Elem()
			rFill(g, f.sub, e)
			return e
		}
		switch f.kind {
		case "list": // at least one element: a nil slice comes back as an empty one
			n := 1 + g.pick(3)
			sl := reflect.MakeSlice(fv.Type(), 0, n)
			for k := 0; k < n; k++ {
				sl = reflect.Append(sl, fillOne(fv.Type().Elem()))
			}
			fv.Set(sl)
			continue
		case "map":
			mv := reflect.MakeMap(fv.Type())
			for k := 0; k < 1+g.pick(2); k++ {
				mv.SetMapIndex(reflect.ValueOf(fmt.Sprint("k", k)), fillOne(fv.Type().Elem()))
			}
			fv.Set(mv)
			continue
		}
		if f.ptr {
			if g.pick(5) == 0 {
				continue // nil pointer
			}
			fv.Set(reflect.New(fv.Type().Elem()))
			rFill(g, f.sub, fv.Elem())
		} else {
			rFill(g, f.sub, fv)
		}
	}
}

func copyJSONMap(m map[string]interface{}) map[string]interface{} {
	out := map[string]interface{}{}
	for k, v := range m {
		if sub, ok := v.(map[string]interface{}); ok {
			out[k] = copyJSONMap(sub)
		} else {
			out[k] = v
		}
	}
	return out
}

// ---- dotted paths on documents of any shape: Set / Get / Has laws and the model ----

var pathPool = []string{"a", "a.b", "a.b.c", "n", "n.x", "n.x.y", "keep", "keep.z", "b", "a.c", "k.", ".k", "", "a..b", "n.x.y.z"}

func genPathValue(g *Gen, depth int) interface{} {
	if depth > 0 && g.pick(3) == 0 {
		m := map[string]interface{}{}
		for i := 0; i < g.pick(3); i++ {
			// keys of nested maps: single segments and, now and then, a dotted text (a key, not a path)
			k := []string{"b", "c", "x", "y", "z", "b.c", "x.y", ""}[g.pick(8)]
			m[k] = genPathValue(g, depth-1)
		}
		return m
	}
	switch g.pick(5) {
	case 0:
		return nil
	case 1:
		return "s" + strconv.Itoa(g.pick(4))
	case 2:
		return []interface{}{int64(g.pick(3)), "e"}
	}
	return int64(g.pick(100))
}

func unrelatedPaths(p, q string) bool {
	ps, qs := strings.Split(p, "."), strings.Split(q, ".")
	n := len(ps)
	if len(qs) < n {
		n = len(qs)
	}
	for i := 0; i < n; i++ {
		if ps[i] != qs[i] {
			return true
		}
	}
	return false // one is a prefix of the other
}

// c18Paths: documents built by NewDocumentOf from maps whose TOP-LEVEL keys may themselves contain dots (a struct tag
// or an imported file puts them there; Set never does), then a few assignments; after each one
//
//	same:   Has(p) and Get(p) = the normalised value        (Props/C18.get_set_same)
//	other:  Get(q)/Has(q) unchanged for every q of the pool that is not prefix-related to p   (get_set_other)
//
// on the implementation, and the whole document and every pool path against the model.
func c18Paths(c *Ctx, dr *Driver, g *Gen) bool {
	n := c.N(2500, 40000)
	modelOff := false // search mode: after a broken correspondence only the two laws are checked, on the implementation
	for i := 0; i < n; i++ {
		m := map[string]interface{}{}
		for k := 0; k < g.pick(5); k++ {
			m[pathPool[g.pick(len(pathPool))]] = genPathValue(g, 2)
		}
		doc := d.NewDocumentOf(m)
		if doc == nil {
			c.Violation(&Replay{Stream: "paths", Case: []interface{}{J{"k": "path", "doc": encDoc(m)}}, Note: "NewDocumentOf refused a map of canonical values"})
			return false
		}
		c.Evals++
		readAll := func() []string {
			out := make([]string, len(pathPool))
			for j, q := range pathPool {
				out[j] = b01(doc.Has(q)) + " " + canonValue(doc.Get(q))
			}
			return out
		}
		steps := []interface{}{J{"k": "path", "doc": encDoc(m)}}
		for st := 0; st < 1+g.pick(4); st++ {
			p := pathPool[g.pick(len(pathPool))]
			v := genPathValue(g, 2)
			beforeDoc := encDoc(doc.AsMap())
			before := readAll()
			doc.Set(p, v)
			steps = append(steps, J{"set": p, "v": encValue(v)})
			after := readAll()
			c.Count("path-depth:" + strconv.Itoa(len(strings.Split(p, "."))))
			if !doc.Has(p) || canonValue(doc.Get(p)) != canonValue(v) {
				c.Violation(&Replay{Stream: "paths", Case: steps, Expected: []string{"1 " + canonValue(v)}, Actual: []string{b01(doc.Has(p)) + " " + canonValue(doc.Get(p))},
					Note: "Get/Has do not agree with Set on path " + strconv.Quote(p)})
				return false
			}
			// a field that was Set to a non-map value is listed by Fields(true) (Props/C18.fields_after_set)
			if _, isMap := v.(map[string]interface{}); !isMap {
				listed := false
				for _, f := range doc.Fields(true) {
					listed = listed || f == p
				}
				if !listed {
					c.Violation(&Replay{Stream: "paths", Case: steps, Expected: []string{"Fields(true) lists " + strconv.Quote(p)}, Actual: []string{strings.Join(doc.Fields(true), ",")},
						Note: "a field that was just Set to a non-map value is not listed by Fields(true)"})
					return false
				}
			}
			for j, q := range pathPool {
				if unrelatedPaths(p, q) && before[j] != after[j] {
					c.Violation(&Replay{Stream: "paths", Case: steps, Expected: []string{before[j]}, Actual: []string{after[j]},
						Note: "Set on " + strconv.Quote(p) + " changed what Get/Has answer on the unrelated path " + strconv.Quote(q)})
					return false
				}
			}
			// the model: the assignment and every read
			if modelOff {
				continue
			}
			line := J{"k": "path", "doc": beforeDoc, "path": hx(p), "v": encValue(v)}
			if pm := dr.Ask(line); pm != canonDoc(doc.AsMap()) {
				c.Unexplained(&Replay{Stream: "paths", Case: []interface{}{line}, Expected: []string{pm}, Actual: []string{canonDoc(doc.AsMap())}}, "correspondence K-C18/set")
				modelOff = true
				continue
			}
			afterDoc := encDoc(doc.AsMap())
			for _, sub := range []bool{false, true} {
				fs := doc.Fields(sub)
				hs := make([]string, len(fs))
				for j, f := range fs {
					hs[j] = hx(f)
				}
				fl := J{"k": "fields", "doc": afterDoc, "sub": sub}
				if pm := dr.Ask(fl); pm != strings.Join(hs, ",") {
					c.Unexplained(&Replay{Stream: "paths", Case: []interface{}{fl}, Expected: []string{pm}, Actual: []string{strings.Join(hs, ",")}}, "correspondence K-C18/fields")
					modelOff = true
				}
			}
			if modelOff {
				continue
			}
			for j, q := range pathPool {
				if q != p && g.pick(4) != 0 {
					continue // the model is asked about the assigned path and a random quarter of the pool
				}
				rl := J{"k": "path", "doc": afterDoc, "path": hx(q)}
				if pm := dr.Ask(rl); pm != after[j] {
					c.Unexplained(&Replay{Stream: "paths", Case: []interface{}{rl}, Expected: []string{pm}, Actual: []string{after[j]}}, "correspondence K-C18/get")
					modelOff = true
					break
				}
			}
			if strings.Contains(p, ".") {
				c.NonTrivial("path|" + p + "|" + canonDoc(doc.AsMap()))
			}
		}
	}
	return !modelOff
}

// ---- distinct struct types that share their package path and name (local types of different functions) ----
//
// Anything that remembers a struct type's fields under a key built from its name confuses them.

func sameNameA(i int) (interface{}, map[string]interface{}) {
	type record struct {
		Name string `clover:"name"`
		Age  int    `clover:"age,omitempty"`
	}
	return record{Name: "ann", Age: i}, map[string]interface{}{"name": "ann", "age": int64(i)}
}

func sameNameB(i int) (interface{}, map[string]interface{}) {
	type record struct {
		Title string `clover:"title"`
	}
	return record{Title: fmt.Sprint("t", i)}, map[string]interface{}{"title": fmt.Sprint("t", i)}
}

func sameNameC(i int) (interface{}, map[string]interface{}) {
	type record struct {
		Name  string
		Age   int `clover:"years"`
		Extra bool
		skip  int
	}
	return &record{Name: "c", Age: i, Extra: true, skip: 1}, map[string]interface{}{"Name": "c", "years": int64(i), "Extra": true}
}

func sameNameD(i int) (interface{}, map[string]interface{}) {
	type record struct {
		Age  uint8  `clover:"name"` // the same stored names as A, other types and order
		Name string `clover:"age"`
	}
	return record{Age: uint8(i), Name: "d"}, map[string]interface{}{"name": uint64(uint8(i)), "age": "d"}
}

func c18SameNamedTypes(c *Ctx, g *Gen) bool {
	makers := []func(int) (interface{}, map[string]interface{}){sameNameA, sameNameB, sameNameC, sameNameD}
	for i := 1; i <= c.N(400, 4000); i++ {
		k := g.pick(len(makers))
		v, want := makers[k](i)
		if k == 0 && i%7 == 0 {
			v, want = makers[0](0) // omitempty drops the zero Age
			delete(want, "age")
		}
		c.Evals++
		res, err, pan := safeNormalize(v)
		got, _ := res.(map[string]interface{})
		if pan != "" || err != nil || got == nil || canonDoc(got) != canonDoc(want) {
			c.Violation(&Replay{Stream: "norm", Case: []interface{}{J{"k": "same-named-types", "type": fmt.Sprintf("%T", v), "variant": k, "i": i}}, Expected: []string{canonDoc(want)},
				Actual: []string{canonDoc(got), fmt.Sprint(err), pan}, Note: "a struct is not normalised by its own fields and tags (another struct type with the same package and name was converted before)"})
			return false
		}
		doc := d.NewDocumentOf(v)
		if doc == nil || canonDoc(doc.AsMap()) != canonDoc(want) {
			c.Violation(&Replay{Stream: "norm", Case: []interface{}{J{"k": "same-named-types", "variant": k, "i": i}}, Expected: []string{canonDoc(want)}, Note: "NewDocumentOf of a struct does not follow the struct's own tags"})
			return false
		}
		c.Count("same-named-type")
	}
	return true
}

// ---- struct -> document -> struct over a declared family with every way a struct can sit inside another ----

type RtBase struct {
	ID      string `clover:"ident"`
	Created time.Time
}
type RtInner struct {
	N int    `clover:"num"`
	S string `clover:"s,omitempty" json:"str"`
}
type RtOuter struct {
	RtBase
	Name  string               `clover:"name"`
	In    RtInner              `clover:"inner"`
	PIn   *RtInner             `clover:"pinner"`
	List  []RtInner            `clover:"list"`
	Arr   [2]RtInner           `json:"arr"`
	M     map[string]RtInner   // no tags
	PL    []*RtInner           `clover:"pl"`
	Deep  map[string][]RtInner `clover:"deep" json:"deeper"`
	LL    [][]RtInner          `clover:"ll"`
	Score float32
	Tags  []string `clover:"tags,omitempty"`
}

func c18StructFamily(c *Ctx, g *Gen) bool {
	inner := func() RtInner { return RtInner{N: g.pick(50) - 10, S: []string{"", "a", "long string"}[g.pick(3)]} }
	for i := 0; i < c.N(600, 8000); i++ {
		o := RtOuter{RtBase: RtBase{ID: fmt.Sprint("id", g.pick(100)), Created: time.Unix(int64(g.pick(1e9)), int64(g.pick(1e9))).UTC()}, Name: fmt.Sprint("n", i), In: inner(), Arr: [2]RtInner{inner(), inner()}, Score: float32(g.pick(8)) / 2}
		if g.pick(2) == 0 {
			v := inner()
			o.PIn = &v
		}
		for k := g.pick(4); k > 0; k-- {
			o.List = append(o.List, inner())
			v := inner()
			o.PL = append(o.PL, &v)
		}
		if g.pick(3) != 0 {
			o.M = map[string]RtInner{}
			o.Deep = map[string][]RtInner{}
			for k := g.pick(3); k > 0; k-- {
				o.M[fmt.Sprint("k", k)] = inner()
				o.Deep[fmt.Sprint("d", k)] = []RtInner{inner(), inner()}
			}
		}
		if g.pick(2) == 0 {
			o.LL = [][]RtInner{{inner()}, {}, {inner(), inner()}}
		}
		if g.pick(2) == 0 {
			o.Tags = []string{"x", "y"}
		}
		c.Evals++
		doc := d.NewDocumentOf(o)
		var back RtOuter
		var err error
		pan := ""
		func() {
			defer func() {
				if r := recover(); r != nil {
					pan = fmt.Sprint(r)
				}
			}()
			err = doc.Unmarshal(&back)
		}()
		want, got := fmt.Sprintf("%+v", derefOuter(o)), fmt.Sprintf("%+v", derefOuter(back))
		if doc == nil || pan != "" || err != nil || want != got || !back.Created.Equal(o.Created) {
			c.Violation(&Replay{Stream: "norm", Case: []interface{}{J{"k": "struct-family-roundtrip", "i": i}}, Expected: []string{want}, Actual: []string{got, fmt.Sprint(err), pan},
				Note: "a struct converted to a document and unmarshalled back differs (embedded structs, structs in slices, arrays and maps, behind pointers)"})
			return false
		}
		// and the stored names are the clover names, at every level
		if doc.Get("ident") != o.ID || !doc.Has("inner.num") || doc.Has("RtBase") || (len(o.List) > 0 && !strings.Contains(canonDoc(doc.AsMap()), hx("num"))) {
			c.Violation(&Replay{Stream: "norm", Case: []interface{}{J{"k": "struct-family-roundtrip", "i": i}}, Actual: []string{canonDoc(doc.AsMap())}, Note: "a struct is not stored under its clover names (embedded fields flattened)"})
			return false
		}
		c.NonTrivial(fmt.Sprint("struct-family", len(o.List), len(o.M), o.PIn != nil, len(o.LL)))
	}
	return true
}

// derefOuter replaces pointers and times by printable values (pointers print as addresses, times carry a location pointer)
func derefOuter(o RtOuter) interface{} {
	pin := "nil"
	if o.PIn != nil {
		pin = fmt.Sprintf("%+v", *o.PIn)
	}
	pl := []RtInner{}
	for _, p := range o.PL {
		if p != nil {
			pl = append(pl, *p)
		}
	}
	keys := func(m map[string]RtInner) string {
		ks := []string{}
		for k, v := range m {
			ks = append(ks, fmt.Sprintf("%s=%+v", k, v))
		}
		sort.Strings(ks)
		return strings.Join(ks, ",")
	}
	dk := []string{}
	for k, v := range o.Deep {
		dk = append(dk, fmt.Sprintf("%s=%+v", k, v))
	}
	sort.Strings(dk)
	return []interface{}{o.ID, o.Created.UnixNano(), o.Name, o.In, pin, fmt.Sprintf("%+v", o.List), o.Arr, keys(o.M), pl, strings.Join(dk, ","), fmt.Sprintf("%+v", o.LL), o.Score, fmt.Sprint(len(o.Tags), o.Tags)}
}

// jsonKeySet: the top-level keys encoding/json gives a struct value; ok=false when encoding/json cannot encode the value or
// when two fields claim one name (encoding/json then drops fields, clover keeps the last one - not a tag question)
func jsonKeySet(v interface{}) ([]string, bool) {
	rv := reflect.ValueOf(v)
	if rv.Kind() != reflect.Struct {
		return nil, false
	}
	names := map[string]bool{}
	for i := 0; i < rv.NumField(); i++ {
		f := rv.Type().Field(i)
		name := f.Name
		if t, ok := f.Tag.Lookup("json"); ok {
			if n := strings.Split(t, ",")[0]; n != "" {
				name = n
			}
		}
		if names[name] || f.Anonymous {
			return nil, false
		}
		names[name] = true
	}
	b, err := json.Marshal(v)
	if err != nil {
		return nil, false
	}
	var m map[string]json.RawMessage
	if json.Unmarshal(b, &m) != nil {
		return nil, false
	}
	keys := []string{}
	for k := range m {
		keys = append(keys, k)
	}
	sort.Strings(keys)
	return keys, true
}
