package main

import "fmt"

// runReplay re-executes a replay file on the implementation built from the current tree.
func runReplay(path, driver, scratch string) int {
	r := readReplay(path)
	fn, ok := replayers[r.Stream]
	if !ok {
		fmt.Printf("replay: stream %q has no direct replayer; re-run the check for %s with VERIF_SEED=%d\n", r.Stream, r.Property, r.Seed)
		return 2
	}
	if fn(r, driver, scratch) {
		fmt.Printf("VIOLATION property=%s replay=%s\n", r.Property, path)
		return 1
	}
	fmt.Println("replay: the case no longer fails")
	return 0
}

var replayers = map[string]func(r *Replay, driver, scratch string) bool{}
