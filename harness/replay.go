package main

import (
	"bytes"
	"encoding/json"
	"fmt"

	clover "github.com/ostafen/clover/v2"
	d "github.com/ostafen/clover/v2/document"
)

// runReplay re-executes a replay file on the implementation built from the current tree and
// re-evaluates the oracle; exit code 1 (with a VIOLATION line) when the case still fails.
func runReplay(path, driver, scratch string) int {
	r := readReplay(path)
	fn, ok := replayers[r.Stream]
	if !ok {
		fmt.Printf("replay: stream %q has no direct replayer; re-run `./check %s` with VERIF_SEED=%d VERIF_TIER=%s\n", r.Stream, r.Property, r.Seed, r.Tier)
		return 2
	}
	still, detail := fn(r, driver, scratch)
	if still {
		fmt.Println("replay: still fails: " + detail)
		fmt.Printf("VIOLATION property=%s replay=%s\n", r.Property, path)
		return 1
	}
	fmt.Println("replay: the case no longer fails")
	return 0
}

func caseLines(r *Replay) []J {
	out := []J{}
	for _, c := range r.Case {
		b, _ := json.Marshal(c)
		var j J
		dec := json.NewDecoder(bytes.NewReader(b))
		dec.UseNumber()
		dec.Decode(&j)
		out = append(out, j)
	}
	return out
}

var replayers = map[string]func(r *Replay, driver, scratch string) (bool, string){
	"history": func(r *Replay, driver, scratch string) (bool, string) {
		dr := StartDriver(driver)
		defer dr.Close()
		be := r.Backend
		if be == "" {
			be = "bbolt"
		}
		im := NewImpl(be, scratch)
		defer im.Destroy()
		lines := caseLines(r)
		if len(lines) > 0 && lines[len(lines)-1]["k"] != "dump" {
			lines = append(lines, J{"k": "dump"})
		}
		o := runHistory(dr, im, lines, HistOpts{})
		for _, res := range o.Results {
			if len(res.Impl) > 5 && res.Impl[:5] == "panic" {
				return true, res.Impl
			}
		}
		if o.Index >= 0 {
			return true, o.Kind + ": " + o.Detail
		}
		return false, ""
	},
	"cmp": func(r *Replay, driver, scratch string) (bool, string) {
		for _, ln := range caseLines(r) {
			a, b := decValue(ln["a"]), decValue(ln["b"])
			if sign(clover.VerifCompare(a, b)) != -sign(clover.VerifCompare(b, a)) {
				return true, "Compare is not sign-antisymmetric on the pair"
			}
			if want, known := c10Direct(a, b); known && sign(clover.VerifCompare(a, b)) != want {
				return true, "Compare does not order the pair by type rank / numeric value"
			}
			dr := StartDriver(driver)
			m := dr.Ask(ln)
			dr.Close()
			if m != fmt.Sprint(sign(clover.VerifCompare(a, b))) {
				return true, "Compare differs from the Lean model: " + m
			}
		}
		return false, ""
	},
	"trans": func(r *Replay, driver, scratch string) (bool, string) {
		for _, ln := range caseLines(r) {
			a, b, c := decValue(ln["a"]), decValue(ln["b"]), decValue(ln["c"])
			if clover.VerifCompare(a, b) <= 0 && clover.VerifCompare(b, c) <= 0 && clover.VerifCompare(a, c) > 0 {
				return true, "Compare is not transitive on the triple"
			}
		}
		return false, ""
	},
	"keyorder": func(r *Replay, driver, scratch string) (bool, string) {
		for _, ln := range caseLines(r) {
			a, b := decValue(ln["a"]), decValue(ln["b"])
			ka, _ := implKey(a)
			kb, _ := implKey(b)
			ca := sign(clover.VerifCompare(a, b))
			for _, ids := range [][2]string{{fixedId(1), fixedId(2)}, {fixedId(2), fixedId(1)}} {
				kc := 0
				if ka+ids[0] < kb+ids[1] {
					kc = -1
				} else if ka+ids[0] > kb+ids[1] {
					kc = 1
				}
				want := ca
				if ca == 0 {
					if ka != kb {
						return true, "equal values have different keys"
					}
					continue
				}
				if kc != want {
					return true, "index keys do not sort like the values"
				}
			}
		}
		return false, ""
	},
	"key": func(r *Replay, driver, scratch string) (bool, string) {
		dr := StartDriver(driver)
		defer dr.Close()
		for _, ln := range caseLines(r) {
			k, err := implKey(decValue(ln["v"]))
			if err != nil {
				return true, err.Error()
			}
			if m := dr.Ask(ln); m != hx(k) {
				return true, "index key bytes differ from the Lean model"
			}
		}
		return false, ""
	},
	"codec": func(r *Replay, driver, scratch string) (bool, string) {
		for _, ln := range caseLines(r) {
			if ln["k"] != "codec" {
				continue
			}
			m := decDoc(ln["doc"])
			enc, err := d.Encode(d.NewDocumentOf(m))
			if err != nil {
				return true, "Encode: " + err.Error()
			}
			dec, err := d.Decode(enc)
			if err != nil {
				return true, "Decode(Encode(d)): " + err.Error()
			}
			if canonDoc(dec.AsMap()) != canonDoc(m) {
				return true, "Decode(Encode(d)) = " + canonDoc(dec.AsMap()) + ", d = " + canonDoc(m)
			}
		}
		return false, ""
	},
	"sat": func(r *Replay, driver, scratch string) (bool, string) {
		dr := StartDriver(driver)
		defer dr.Close()
		for _, ln := range caseLines(r) {
			if ln["k"] != "sat" {
				continue
			}
			res, pan := safeSatisfy(decCrit(ln["crit"]), d.NewDocumentOf(decDoc(ln["doc"])))
			if pan != "" {
				return true, "Satisfy panics: " + pan
			}
			if m := dr.Ask(ln); m != b01(res) {
				return true, "Satisfy differs from the Lean model"
			}
		}
		return false, ""
	},
}
