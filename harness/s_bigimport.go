package main

import (
	"bufio"
	"encoding/json"
	"fmt"
	"os"
	"os/exec"
	"path/filepath"
	"strings"
	"syscall"
	"time"
)

// Large imports, on the implementation alone (the list-based Lean model does not execute files of several MiB in
// reasonable time; what is checked here is the property's own statement, not the correspondence):
//   * C04 / C19: an import that fails - however late in the file the cause sits - leaves the store exactly as it was
//     (raw dump unchanged, the name still free), for files larger than any plausible batch or buffer threshold
//     (documents: 1500, bytes: > 4 MiB);
//   * C05: an import killed at a random instant leaves, after reopening, either no collection or the complete one.

// bigImportText: a JSON array of n documents with ids fixedId(1..n), each padded to about pad bytes; tail is appended
// as further elements (already JSON text, "" for none).
func bigImportText(n, pad int, tail string) string {
	var sb strings.Builder
	sb.Grow(n*(pad+80) + len(tail) + 16)
	p := strings.Repeat("p", pad)
	sb.WriteString("[")
	for j := 0; j < n; j++ {
		if j > 0 {
			sb.WriteString(",")
		}
		fmt.Fprintf(&sb, "{\"_id\":%q,\"k\":%d,\"pad\":%q}", fixedId(j+1), j, p)
	}
	if tail != "" {
		sb.WriteString(",")
		sb.WriteString(tail)
	}
	sb.WriteString("]")
	return sb.String()
}

func bigFailingImports(c *Ctx, be string) bool {
	im := NewImpl(be, c.Scratch)
	defer im.Destroy()
	im.Exec(opLine("createCollection", J{"coll": hx("keep")}), -1, false)
	im.Exec(opLine("insert", J{"coll": hx("keep"), "docs": []interface{}{encDoc(map[string]interface{}{"_id": fixedId(1), "x": int64(1)})}}), -1, false)
	type tc struct {
		n, pad     int
		tail, what string
		truncate   bool
	}
	dup := fmt.Sprintf("{\"_id\":%q,\"k\":-1}", fixedId(1))
	cases := []tc{
		{1500, 10, dup, "the last document repeats the first _id", false},
		{1500, 10, "null", "the last element is null", false},
		{1200, 10, "{\"_id\":\"not-a-uuid\"}", "the last document has a malformed _id", false},
		{2600, 10, "{\"_id\":\"" + fixedId(9) + "\",\"_expiresAt\":17}", "the last document has an invalid _expiresAt", false},
		{1500, 10, "", "the file is cut short in its last document", true},
		{4300, 1200, dup, "a file above 4 MiB whose last document repeats the first _id", false},
	}
	if !c.Quick() {
		cases = append(cases, tc{9000, 900, dup, "a file above 8 MiB whose last document repeats the first _id", false},
			tc{4300, 1200, "null", "a file above 4 MiB whose last element is null", false})
	}
	for i, t := range cases {
		text := bigImportText(t.n, t.pad, t.tail)
		if t.truncate {
			text = text[:len(text)-9]
		}
		before := im.Dump()
		name := fmt.Sprintf("imp%d", i)
		r := im.Exec(opLine("import", J{"coll": hx(name), "raw": text}), -1, false)
		after := im.Dump()
		c.Evals++
		c.Count("big-failing-import")
		desc := J{"k": "big-import", "backend": be, "documents": t.n, "bytes": len(text), "failure": t.what}
		if !strings.HasPrefix(r.Line, "err ") {
			c.Violation(&Replay{Backend: be, Stream: "big-import", Case: []interface{}{desc}, Expected: []string{"err ..."}, Actual: []string{r.Line},
				Note: "an import that must fail (" + t.what + ") did not report an error"})
			return false
		}
		if after != before {
			c.Violation(&Replay{Backend: be, Stream: "big-import", Case: []interface{}{desc}, Expected: []string{fmt.Sprintf("%d bytes of dump (unchanged)", len(before))},
				Actual: []string{fmt.Sprintf("%d bytes of dump", len(after)), r.Line}, Note: "a failed import (" + t.what + ") left something behind in the store"})
			return false
		}
		if hc := im.Exec(opLine("hasCollection", J{"coll": hx(name)}), -1, false).Line; hc != "ok bool 0" {
			c.Violation(&Replay{Backend: be, Stream: "big-import", Case: []interface{}{desc}, Expected: []string{"ok bool 0"}, Actual: []string{hc}, Note: "a failed import created the collection"})
			return false
		}
		c.NonTrivial(fmt.Sprint("big-failing-import", be, i))
	}
	// and the complete file imports, under the name the failed attempts used
	text := bigImportText(1500, 10, "")
	if r := im.Exec(opLine("import", J{"coll": hx("imp0"), "raw": text}), -1, false); r.Line != "ok unit" {
		c.Violation(&Replay{Backend: be, Stream: "big-import", Case: []interface{}{J{"k": "big-import", "documents": 1500}}, Expected: []string{"ok unit"}, Actual: []string{r.Line}, Note: "a valid import of 1500 documents failed"})
		return false
	}
	if r := im.Exec(opLine("count", J{"q": J{"coll": hx("imp0")}}), -1, false); r.Line != "ok int 1500" {
		c.Violation(&Replay{Backend: be, Stream: "big-import", Case: []interface{}{J{"k": "big-import", "documents": 1500}}, Expected: []string{"ok int 1500"}, Actual: []string{r.Line}, Note: "a valid import of 1500 documents lost documents"})
		return false
	}
	if inv := im.InvProblems(); inv != "" {
		c.Violation(&Replay{Backend: be, Stream: "big-import", Case: []interface{}{J{"k": "big-import", "documents": 1500}}, Actual: []string{inv}, Note: "invariant oracle after a large import"})
		return false
	}
	return true
}

// bigImportKills: a child process imports a file of several MiB; it is killed at a uniformly random instant of the
// import's measured duration; the reopened store holds either nothing of the collection or all of it.
func bigImportKills(c *Ctx, be string, kills int, g *Gen) bool {
	self, _ := os.Executable()
	n, pad := 4300, 1200
	text := bigImportText(n, pad, "")
	lines := []J{opLine("import", J{"coll": hx("imp"), "raw": text})}
	hf := filepath.Join(c.Scratch, "bigimport-"+be+".json")
	b, _ := json.Marshal(lines)
	os.WriteFile(hf, b, 0o644)
	defer os.Remove(hf)
	var full time.Duration
	var emptyDump string
	for k := 0; k <= kills; k++ {
		dir := filepath.Join(c.Scratch, fmt.Sprintf("bigimport-%s-%d", be, k))
		os.MkdirAll(dir, 0o755)
		if k == 0 {
			probe := &Impl{backend: be, root: c.Scratch, dir: dir, files: map[string]string{}}
			probe.open()
			emptyDump = probe.Dump()
			probe.db.Close()
		}
		cmd := exec.Command(self, "-child", be, "-childdir", dir, "-childhist", hf)
		out, _ := cmd.StdoutPipe()
		if err := cmd.Start(); err != nil {
			panic(err)
		}
		rd := bufio.NewReader(out)
		ready := make(chan time.Time, 1)
		acked := make(chan time.Time, 1)
		go func() {
			for {
				s, err := rd.ReadString('\n')
				if err != nil {
					close(acked)
					return
				}
				if strings.HasPrefix(s, "ready") {
					ready <- time.Now()
				}
				if strings.HasPrefix(s, "ack 0") {
					acked <- time.Now()
				}
			}
		}()
		t0 := <-ready
		wasAcked := false
		if k == 0 {
			// calibration run: not killed
			t1, ok := <-acked
			if ok {
				full = t1.Sub(t0)
				wasAcked = true
			}
		} else {
			delay := time.Duration(g.R.Int63n(int64(full) + 1))
			select {
			case _, ok := <-acked:
				wasAcked = ok
			case <-time.After(delay):
			}
			cmd.Process.Signal(syscall.SIGKILL)
		}
		cmd.Wait()
		im := &Impl{backend: be, root: c.Scratch, dir: dir, files: map[string]string{}}
		reopened := true
		func() {
			defer func() {
				if r := recover(); r != nil {
					reopened = false
					c.Violation(&Replay{Backend: be, Stream: "big-import-kill", Case: []interface{}{J{"documents": n, "bytes": len(text)}}, Actual: []string{fmt.Sprint(r)}, Note: "the database cannot be reopened after a kill during a large import"})
				}
			}()
			im.open()
		}()
		if !reopened {
			return false
		}
		got := im.Dump()
		cnt := im.Exec(opLine("count", J{"q": J{"coll": hx("imp")}}), -1, false).Line
		has := im.Exec(opLine("hasCollection", J{"coll": hx("imp")}), -1, false).Line
		inv := im.InvProblems()
		im.db.Close()
		os.RemoveAll(dir)
		c.Evals++
		c.Count("big-import-kill:" + be)
		absent := got == emptyDump && has == "ok bool 0"
		complete := has == "ok bool 1" && cnt == fmt.Sprintf("ok int %d", n)
		if k > 0 && !wasAcked && absent {
			c.Count("big-import-kill:before-commit")
		}
		if k > 0 && !wasAcked && complete {
			c.Count("big-import-kill:after-commit-unacknowledged")
		}
		if k > 0 && !wasAcked {
			c.NonTrivial(fmt.Sprint("big-import-kill", be, k))
		}
		if inv != "" || !(absent || complete) || (wasAcked && !complete) {
			note := fmt.Sprintf("after a kill during the import of %d documents the reopened store holds neither nothing nor everything of the collection: HasCollection=%s Count=%s", n, has, cnt)
			if wasAcked && !complete {
				note = "an acknowledged import is not complete after reopening: HasCollection=" + has + " Count=" + cnt
			}
			if inv != "" {
				note = "after a kill during a large import the reopened store is inconsistent: " + inv
			}
			c.Violation(&Replay{Backend: be, Stream: "big-import-kill", Case: []interface{}{J{"documents": n, "bytes": len(text), "acknowledged": wasAcked}}, Expected: []string{"absent or complete"},
				Actual: []string{has, cnt}, Note: note})
			return false
		}
	}
	return true
}
