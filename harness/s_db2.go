package main

import (
	"fmt"
	"math"
	"os"
	"strings"
)

func init() {
	streams["C02"] = streamC02
	streams["C03"] = streamC03
	streams["C08"] = streamC08
	streams["C09"] = streamC09
	streams["C12"] = func(c *Ctx) {
		{
			dr := StartDriver(c.DriverBin)
			ok := true
			for _, be := range backendsAll {
				ok = ok && dataInterleavings(c, dr, be) && bigFailingInserts(c, be)
			}
			dr.Close()
			if !ok {
				return
			}
		}
		streamHistories(c, HistCfg{Ops: 40, QueriesPer: 1, Indexes: true, Dumps: true, Malformed: true}, "ids: inserts with generated/supplied/duplicate/malformed ids, saves, replacements, updates rewriting _id")
	}
	streams["C13"] = func(c *Ctx) {
		{
			dr := StartDriver(c.DriverBin)
			ok := true
			for _, be := range backendsAll {
				ok = ok && catalogInterleavings(c, dr, be)
			}
			dr.Close()
			if !ok {
				return
			}
		}
		streamHistories(c, HistCfg{Ops: 40, QueriesPer: 1, Indexes: true, Dumps: true, Malformed: true, ManyColls: true}, "catalog: create/drop/list over prefix-related and unicode collection names sharing ids")
	}
	streams["C14"] = func(c *Ctx) {
		if !indexCatalogSequences(c) {
			return
		}
		{
			dr := StartDriver(c.DriverBin)
			ok := true
			for _, be := range backendsAll {
				ok = ok && catalogInterleavings(c, dr, be)
			}
			dr.Close()
			if !ok {
				return
			}
		}
		streamHistories(c, HistCfg{Ops: 40, QueriesPer: 2, Indexes: true, Dumps: true, IndexHeavy: true}, "index catalog: create/drop of indexes on prefix pairs (x, xy) and dotted paths (n, n.a) interleaved with writes")
	}
}

// indexCatalogSequences: the catalog as a data structure. 3-5 indexes created in every order of a small
// field set, then each position dropped in turn (and some re-created); after every step HasIndex of every
// field, ListIndexes, a query and a sort through each surviving index, and the raw dump.
func indexCatalogSequences(c *Ctx) bool {
	dr := StartDriver(c.DriverBin)
	defer dr.Close()
	fields := []string{"x", "xy", "y", "n.a", "n"}
	for _, be := range backendsAll {
		im := NewImpl(be, c.Scratch)
		g := NewGen(c.Rng, Domain{IntsWithin2p53: true, NoNegTimes: true})
		rounds := c.N(12, 120)
		for r := 0; r < rounds; r++ {
			h := NewHistGen(g, 1, 1)
			perm := g.R.Perm(len(fields))
			k := 3 + g.pick(3)
			lines := []J{opLine("createCollection", J{"coll": hx("ic")})}
			docs := []interface{}{}
			var first map[string]interface{}
			for j := 0; j < 6; j++ {
				m := h.Doc(h.newId())
				if j == 0 {
					first = m
				}
				docs = append(docs, encDoc(m))
			}
			lines = append(lines, opLine("insert", J{"coll": hx("ic"), "docs": docs}))
			probe := func() {
				lines = append(lines, opLine("listIndexes", J{"coll": hx("ic")}))
				for _, f := range fields {
					lines = append(lines, opLine("hasIndex", J{"coll": hx("ic"), "field": hx(f)}),
						opLine("findAll", J{"q": J{"coll": hx("ic"), "sort": []interface{}{[]interface{}{hx(f), 1}}}}),
						opLine("count", J{"q": J{"coll": hx("ic"), "crit": J{"cmp": []interface{}{"ge", hx(f), J{"lit": encValue(int64(0))}}}}}))
				}
				lines = append(lines, J{"k": "dump"})
			}
			for i := 0; i < k; i++ {
				lines = append(lines, opLine("createIndex", J{"coll": hx("ic"), "field": hx(fields[perm[i]])}))
			}
			probe()
			// one bulk update that changes two indexed fields in some documents and only one of them in others (the
			// first document already holds the new value of the first field): every index must follow every document
			{
				flat := []string{}
				for i := 0; i < k; i++ {
					if f := fields[perm[i]]; f == "x" || f == "xy" || f == "y" {
						flat = append(flat, f)
					}
				}
				if len(flat) >= 2 {
					v1, has := first[flat[0]]
					if !has {
						v1 = int64(1)
					}
					lines = append(lines, opLine("update", J{"q": J{"coll": hx("ic")}, "upd": J{"setAll": []interface{}{[]interface{}{hx(flat[0]), encValue(v1)}, []interface{}{hx(flat[1]), encValue(int64(99))}}}, "viaUpdate": 1}))
					probe()
				}
			}
			order := g.R.Perm(k)
			for _, pos := range order {
				lines = append(lines, opLine("dropIndex", J{"coll": hx("ic"), "field": hx(fields[perm[pos]])}))
				probe()
				if g.pick(3) == 0 {
					f := fields[perm[g.pick(k)]]
					lines = append(lines, opLine("createIndex", J{"coll": hx("ic"), "field": hx(f)}), opLine("createIndex", J{"coll": hx("ic"), "field": hx(f)}))
					probe()
				}
			}
			o := runHistory(dr, im, lines, HistOpts{})
			recordHistory(c, lines, &o, be)
			c.Count("catalog-sequence")
			if o.Index >= 0 {
				if reportHistoryProblem(c, dr, im, lines, &o, be, HistOpts{}, "catalog-sequence") {
					im.Destroy()
					return false
				}
			}
		}
		im.Destroy()
	}
	return true
}

// ---- C02: twin collections differing only in their indexes ----

func retarget(ln J, from, to string) J {
	out := cloneJ(ln)
	if c, ok := out["coll"]; ok && c == hx(from) {
		out["coll"] = hx(to)
	}
	if q, ok := out["q"]; ok && q != nil {
		nq := cloneJ(q.(J))
		if nq["coll"] == hx(from) {
			nq["coll"] = hx(to)
		}
		out["q"] = nq
	}
	return out
}

func streamC02(c *Ctx) {
	c.Rule = "systematic cells (every leaf form on the indexed field x operand kind incl. nil, Field(f), \"$f\", mixed lists x wrapper Not/And/Or x sort x skip/limit window, FindAll and Count) on a fixed boundary-rich collection with twins {} / {x} / {x,y}; then twin collections holding identical documents with index sets {} / {filter field} / {sort field} / {x,xy or n,n.a} created before, between or after the writes; " +
		"the same random queries (criteria depth<=3 with nil/field-reference operands, sort, skip, limit), bulk updates and deletes on every twin; each answer checked against the Lean spec (which ignores indexes) and twins compared pairwise; " +
		"non-trivial = distinct (query, result) with a non-empty result on a twin that has an index"
	dr := StartDriver(c.DriverBin)
	defer dr.Close()
	replayKnownFindings(c, dr)
	nHist := c.N(60, 1200)
	dm := Domain{IntsWithin2p53: true, NoNegTimes: true}
	twins := []string{"t0", "t1", "t2", "measurements3"}
	for _, be := range backendsAll {
		im := NewImpl(be, c.Scratch)
		if !c02Cells(c, dr, im, be, !c.Quick()) || !sameFieldCells(c, dr, im, be) || !dropOneOfSeveralIndexes(c, dr, be) {
			im.Destroy()
			return
		}
		// indexes on dotted paths and on the object that encloses them, under writes to either
		for r := 0; r < c.N(8, 80); r++ {
			lines := nestedIndexHistory(NewHistGen(NewGen(c.Rng, dm), 1, 1))
			o := runHistory(dr, im, lines, HistOpts{})
			recordHistory(c, lines, &o, be)
			c.Count("nested-index-history")
			if o.Index >= 0 {
				if reportHistoryProblem(c, dr, im, lines, &o, be, HistOpts{}, "nested-index") {
					im.Destroy()
					return
				}
			}
		}
		for hN := 0; hN < nHist; hN++ {
			g := NewGen(c.Rng, dm)
			h := NewHistGen(g, 1, 3)
			h.Colls = []string{"T"}
			h.Focus = []string{indexable[g.pick(len(indexable))], indexable[g.pick(len(indexable))]}
			idxSets := [][]string{{}, {h.Focus[0]}, {h.Focus[1]}, [][]string{{"x", "xy"}, {"n", "n.a"}, {h.Focus[0], h.Focus[1]}}[g.pick(3)]}
			when := []int{g.pick(3), g.pick(3), g.pick(3), g.pick(3)} // 0 before, 1 between, 2 after the writes
			lines := []J{}
			for _, t := range twins {
				lines = append(lines, opLine("createCollection", J{"coll": hx(t)}))
			}
			addIdx := func(phase int) {
				for ti, t := range twins {
					if when[ti] == phase {
						for _, f := range idxSets[ti] {
							lines = append(lines, opLine("createIndex", J{"coll": hx(t), "field": hx(f)}))
						}
					}
				}
			}
			addIdx(0)
			qid := 0
			emitWrites := func(n int) {
				for i := 0; i < n; i++ {
					var ln J
					switch r := g.pick(10); {
					case r < 5:
						docs := []interface{}{}
						for j := 0; j < 1+g.pick(5); j++ {
							docs = append(docs, encDoc(h.Doc(h.newId())))
						}
						ln = opLine("insert", J{"coll": hx("T"), "docs": docs})
					case r < 7:
						ln = opLine("update", J{"q": h.WriteQuery("T"), "upd": h.Upd()})
					case r < 8:
						ln = opLine("delete", J{"q": h.WriteQuery("T")})
					case r < 9:
						ln = opLine("updateById", J{"coll": hx("T"), "id": hx(h.someId()), "upd": h.Upd()})
					default:
						ln = opLine("deleteById", J{"coll": hx("T"), "id": hx(h.someId())})
					}
					for _, t := range twins {
						lines = append(lines, retarget(ln, "T", t))
					}
				}
			}
			emitQueries := func(n int) {
				for i := 0; i < n; i++ {
					q := h.Query("T")
					// bias: filter / sort on the indexed fields
					name := []string{"findAll", "findAll", "findAll", "count"}[g.pick(4)]
					ln := opLine(name, J{"q": q})
					qid++
					for ti, t := range twins {
						l := retarget(ln, "T", t)
						l["qid"] = qid
						l["twin"] = ti
						lines = append(lines, l)
					}
				}
			}
			emitWrites(4)
			addIdx(1)
			emitWrites(3)
			emitQueries(6)
			addIdx(2)
			emitQueries(10)
			lines = append(lines, J{"k": "dump"})
			if hN%2 == 1 {
				var lab string
				lines, lab = varyNames(g, lines, []string{twins[g.pick(4)], twins[g.pick(4)]})
				c.Count(lab)
			}
			o := runHistory(dr, im, lines, HistOpts{})
			recordHistory(c, lines, &o, be)
			if o.Index >= 0 {
				if reportHistoryProblem(c, dr, im, lines, &o, be, HistOpts{}, "twins") {
					im.Destroy()
					return
				}
			}
			if !compareTwins(c, lines, &o, be) {
				im.Destroy()
				return
			}
		}
		im.Destroy()
	}
}

// compareTwins: the same query on twin collections (same documents, different indexes) must give the same answer
func compareTwins(c *Ctx, lines []J, o *HistoryOutcome, be string) bool {
	byQ := map[int][]int{}
	for i, ln := range lines {
		if n, ok := ln["qid"]; ok {
			byQ[asInt(n)] = append(byQ[asInt(n)], i)
		}
	}
	for _, idxs := range byQ {
		base := o.Results[idxs[0]]
		q, _ := qOf(lines[idxs[0]])
		_, hs := q["skip"]
		_, hl := q["limit"]
		for _, i := range idxs[1:] {
			r := o.Results[i]
			same := r.Impl == base.Impl
			if !same {
				bd, ok1 := splitDocs(base.Impl)
				rd, ok2 := splitDocs(r.Impl)
				if ok1 && ok2 && !qSorted(q) && !hs && !hl {
					same = sameMultiset(bd, rd)
				} else if ok1 && ok2 {
					same = true // ordered / windowed answers were checked against the spec classes
				}
			}
			if !same {
				c.Violation(&Replay{Backend: be, Stream: "history", Case: toIfaces(lines[:i+1]), FirstDivergence: i,
					Expected: []string{base.Impl}, Actual: []string{r.Impl}, Note: "twin collections with different indexes answer differently"})
				return false
			}
		}
	}
	return true
}

// c02Cells: the systematic part of the twin comparison. A fixed boundary-rich collection (absent, nil, mixed
// types, ties, y = x for some documents) on twins without index / with an index on x / on x and y; every leaf
// form on the indexed field x operand kind (literal present or absent in the data, another numeric type, nil,
// Field(y), "$y", lists mixing these) x wrapper (plain, Not, double Not, And with a second range on the same
// field on either side, And with another field, Or) x sort (none, the indexed field in both directions, another field).
func c02Cells(c *Ctx, dr *Driver, im *Impl, be string, full bool) bool {
	twins := []string{"u0", "u1", "u2"}
	lines := []J{}
	for _, t := range twins {
		lines = append(lines, opLine("createCollection", J{"coll": hx(t)}))
	}
	lines = append(lines, opLine("createIndex", J{"coll": hx("u1"), "field": hx("x")}),
		opLine("createIndex", J{"coll": hx("u2"), "field": hx("y")}), opLine("createIndex", J{"coll": hx("u2"), "field": hx("x")}))
	xs := []interface{}{"absent", nil, int64(1), int64(5), float64(5), uint64(5), int64(6), uint64(7), float64(2.5), "a", "ab", "", true,
		mkTime(1577934245000000006, 3600), []interface{}{int64(1), "a"}, map[string]interface{}{"a": int64(1)}, int64(5), "a"}
	ys := []interface{}{int64(5), "a", "absent", nil, int64(5), int64(6), "absent", uint64(7), "x", "a", "a", int64(1), true,
		int64(0), []interface{}{int64(1), "a"}, int64(2), "absent", "ab"}
	docs := []interface{}{}
	for i := range xs {
		m := map[string]interface{}{"_id": fixedId(i + 1)}
		if xs[i] != "absent" {
			m["x"] = xs[i]
		}
		if ys[i] != "absent" {
			m["y"] = ys[i]
		}
		if i%5 == 0 {
			m["arr"] = []interface{}{int64(5), "a", xs[i]}
		}
		docs = append(docs, encDoc(m))
	}
	for _, t := range twins {
		lines = append(lines, opLine("insert", J{"coll": hx(t), "docs": docs}))
	}
	lit := func(v interface{}) J { return J{"lit": encValue(v)} }
	operands := []interface{}{lit(int64(5)), lit(float64(5)), lit(int64(4)), lit("a"), J{"lit": nil}, J{"ref": hx("y")}, lit("$y"), lit("$zz"), lit(true)}
	fx := hx("x")
	leaves := []J{}
	for _, op := range []string{"eq", "gt", "ge", "lt", "le"} {
		for _, o := range operands {
			leaves = append(leaves, J{"cmp": []interface{}{op, fx, o}})
		}
	}
	lists := [][]interface{}{{lit(int64(5))}, {lit(int64(5)), lit("a")}, {lit("$y")}, {J{"ref": hx("y")}}, {J{"lit": nil}}, {lit(int64(1)), lit("$y")},
		{lit(int64(7)), J{"ref": hx("y")}, lit(int64(1))}, {}, {lit(int64(5)), lit(float64(5))}}
	for _, l := range lists {
		leaves = append(leaves, J{"in": []interface{}{fx, l}}, J{"contains": []interface{}{fx, l}}, J{"contains": []interface{}{hx("arr"), l}})
	}
	leaves = append(leaves, J{"like": []interface{}{fx, hx("^a")}}, J{"exists": fx}, J{"not": J{"exists": fx}}, J{"fn": 2}, J{"fn": 3})
	r1 := J{"cmp": []interface{}{"ge", fx, lit(int64(2))}}
	r2 := J{"cmp": []interface{}{"le", fx, lit(int64(6))}}
	wrap := func(w int, l J) J {
		switch w {
		case 1:
			return J{"not": l}
		case 2:
			return J{"not": J{"not": l}}
		case 3:
			return J{"and": []interface{}{l, r1}}
		case 4:
			return J{"and": []interface{}{r2, l}}
		case 5:
			return J{"and": []interface{}{l, J{"cmp": []interface{}{"eq", hx("y"), lit("a")}}}}
		case 6:
			return J{"or": []interface{}{l, J{"cmp": []interface{}{"eq", fx, lit(int64(1))}}}}
		case 7:
			return J{"and": []interface{}{J{"not": l}, r1}}
		}
		return l
	}
	sorts := []interface{}{nil, []interface{}{[]interface{}{fx, 1}}, []interface{}{[]interface{}{fx, -1}}, []interface{}{[]interface{}{hx("y"), 1}, []interface{}{hx("_id"), 1}}}
	qid := 0
	for li, l := range leaves {
		for w := 0; w < 8; w++ {
			for si, srt := range sorts {
				if !full && (li+w+si+int(c.Seed))%3 != 0 {
					continue // quick tier: a third of the cells, rotating with the seed
				}
				q := J{"coll": hx("U"), "crit": wrap(w, l)}
				if srt != nil {
					q["sort"] = srt
				}
				// a skip/limit window on half of the cells (rotating): a window is counted in matching documents, whatever
				// the plan's candidates are (entries of documents that lack the field sit under the nil key, ...)
				opName := "findAll"
				switch (li + 2*w + si) % 6 {
				case 1:
					q["skip"] = 1
				case 3:
					q["skip"] = 2
					q["limit"] = 3
				case 5:
					q["skip"] = 1
					opName = "count"
				}
				qid++
				for ti, t := range twins {
					ln := retarget(opLine(opName, J{"q": q}), "U", t)
					ln["qid"] = qid
					ln["twin"] = ti
					lines = append(lines, ln)
				}
			}
		}
	}
	o := runHistory(dr, im, lines, HistOpts{})
	recordHistory(c, lines, &o, be)
	c.Count(fmt.Sprintf("cells:%d", qid))
	if o.Index >= 0 {
		if reportHistoryProblem(c, dr, im, lines, &o, be, HistOpts{}, "cells") {
			return false
		}
	}
	return compareTwins(c, lines, &o, be)
}

// ---- C03: bulk update / delete over collections of many sizes ----

func streamC03(c *Ctx) {
	c.Rule = "collections of size 0,1,2,10,100,1100 three-way (impl, model, spec) and of size 2100 (thorough: also 5000, with padding) against the property's own oracle on the implementation (selection = FindAll before the call; each selected document rewritten once on its pre-call value; all others unchanged; invariant oracle, spanning many bbolt pages) with 0-3 indexes; Update/UpdateFunc/Delete with criteria and sorts on the very field being rewritten, skip/limit with a total order, DropCollection + re-create; bulk writes with another client's write committed immediately before their transaction opens (outcome = the two operations in sequence); " +
		"updater invocations (documents seen, in order) compared with the model, raw key dump compared after every bulk operation; non-trivial = distinct bulk operation that selected at least one and not all documents"
	dr := StartDriver(c.DriverBin)
	defer dr.Close()
	sizes := []int{0, 1, 2, 10, 100, 1100}
	rounds := c.N(6, 20)
	// beyond the sizes the Lean model executes in reasonable time: the property's own oracle on the implementation
	for _, be := range []string{"bbolt", "badger-mem"} {
		for _, size := range []int{2100, 5000}[:c.N(1, 2)] {
			for r := 0; r < c.N(1, 6); r++ {
				if !bulkSelfRelative(c, be, size) {
					return
				}
			}
		}
	}
	if os.Getenv("VERIF_C03_ONLYBIG") != "" {
		sizes = []int{1100}
	}
	for _, be := range backendsAll {
		if !repeatedOperandBulk(c, dr, be) || !bulkByIdCells(c, dr, be) {
			return
		}
	}
	dm := Domain{IntsWithin2p53: true, NoNegTimes: true}
	specOnly := false
	// another client's write committed immediately before a bulk operation opens its transaction: selecting and
	// rewriting are ONE atomic step, so the outcome is that of the two operations one after the other
	for _, be := range backendsAll {
		im := NewImpl(be, c.Scratch)
		for r := 0; r < c.N(24, 240); r++ {
			g := NewGen(c.Rng, dm)
			lines := []J{opLine("createCollection", J{"coll": hx("il")})}
			if r%2 == 1 {
				lines = append(lines, opLine("createIndex", J{"coll": hx("il"), "field": hx("x")}))
			}
			docs := []interface{}{}
			for j := 0; j < 6; j++ {
				docs = append(docs, encDoc(map[string]interface{}{"_id": fixedId(j + 1), "x": int64(j % 3), "n": int64(0)}))
			}
			lines = append(lines, opLine("insert", J{"coll": hx("il"), "docs": docs}))
			sel := J{"coll": hx("il"), "crit": J{"cmp": []interface{}{[]string{"ge", "le", "eq"}[g.pick(3)], hx("x"), J{"lit": encValue(int64(g.pick(3)))}}}}
			victim := fixedId(1 + g.pick(6))
			var il J
			switch g.pick(5) {
			case 0: // a selected document leaves (or an unselected one enters) the selection
				il = opLine("updateById", J{"coll": hx("il"), "id": hx(victim), "upd": J{"setAll": []interface{}{[]interface{}{hx("x"), encValue(int64(g.pick(3)))}}}})
			case 1: // ... is rewritten in a field the bulk updater reads
				il = opLine("updateById", J{"coll": hx("il"), "id": hx(victim), "upd": J{"setAll": []interface{}{[]interface{}{hx("n"), encValue(int64(40))}}}})
			case 2:
				il = opLine("deleteById", J{"coll": hx("il"), "id": hx(victim)})
			case 3:
				il = opLine("insert", J{"coll": hx("il"), "docs": []interface{}{encDoc(map[string]interface{}{"_id": fixedId(50), "x": int64(g.pick(3)), "n": int64(7)})}})
			default:
				il = opLine("update", J{"q": J{"coll": hx("il"), "crit": J{"cmp": []interface{}{"eq", hx("x"), J{"lit": encValue(int64(g.pick(3)))}}}}, "upd": J{"setAll": []interface{}{[]interface{}{hx("x"), encValue(int64(g.pick(3)))}}}, "viaUpdate": 1})
			}
			var op J
			switch g.pick(3) {
			case 0:
				op = opLine("update", J{"q": sel, "upd": J{"copy": []interface{}{hx("x"), hx("n")}}})
			case 1:
				// (through UpdateFunc: the documents the updater is called on are recorded by the updater itself, inside the
				// operation; the `Update(q, map)` entry point is observed by a FindAll before the call, i.e. before the interloper)
				op = opLine("update", J{"q": sel, "upd": J{"setAll": []interface{}{[]interface{}{hx("x"), encValue(int64(9))}}}})
			default:
				op = opLine("delete", J{"q": sel})
			}
			op["interloper"] = il
			lines = append(lines, op, J{"k": "dump"}, opLine("findAll", J{"q": J{"coll": hx("il")}}), opLine("count", J{"q": J{"coll": hx("il")}}))
			o := runHistory(dr, im, lines, HistOpts{})
			recordHistory(c, lines, &o, be)
			c.Count("interleaved-bulk-write")
			if o.Index >= 0 {
				if reportHistoryProblem(c, dr, im, lines, &o, be, HistOpts{}, "interleaved") {
					im.Destroy()
					return
				}
			}
		}
		im.Destroy()
	}
	for _, be := range backendsAll {
		im := NewImpl(be, c.Scratch)
		for _, size := range sizes {
			rr := rounds
			if size >= 1000 && c.Quick() && be != "bbolt" {
				continue // quick tier: the large collection on bbolt only (the backend whose cursors are live views)
			}
			if size >= 1000 {
				rr = 2
				if c.Quick() {
					rr = 1
				}
			}
			for round := 0; round < rr; round++ {
				g := NewGen(c.Rng, dm)
				h := NewHistGen(g, 1, 2)
				h.Colls = []string{"b"}
				lines := []J{opLine("createCollection", J{"coll": hx("b")})}
				nIdx := g.pick(4)
				if size >= 1000 && c.Quick() {
					nIdx = 0 // quick tier: the large case starts without indexes (the model's list store is quadratic)
				}
				perm := g.R.Perm(len(indexable))
				idxFields := []string{}
				for i := 0; i < nIdx; i++ {
					idxFields = append(idxFields, indexable[perm[i]])
				}
				idxAt := g.pick(2)
				if idxAt == 0 {
					for _, f := range idxFields {
						lines = append(lines, opLine("createIndex", J{"coll": hx("b"), "field": hx(f)}))
					}
				}
				pad := ""
				if size >= 1000 && round%2 == 1 {
					pad = strings.Repeat("p", 300)
				}
				for start := 0; start < size; start += 50 {
					docs := []interface{}{}
					for j := start; j < size && j < start+50; j++ {
						d := h.Doc(h.newId())
						d["x"] = int64(g.pick(10)) // the field the bulk operations filter on and rewrite
						if pad != "" {
							d["pad"] = pad
						}
						docs = append(docs, encDoc(d))
					}
					lines = append(lines, opLine("insert", J{"coll": hx("b"), "docs": docs}))
				}
				if idxAt == 1 {
					for _, f := range idxFields {
						lines = append(lines, opLine("createIndex", J{"coll": hx("b"), "field": hx(f)}))
					}
				}
				lines = append(lines, J{"k": "dump"})
				if size >= 1000 {
					// every document matches, and the rewrite takes each of them out of the selection (then back in,
					// through a sort on the rewritten field): a bulk write that re-reads its selection while it
					// applies it (paging, live cursors) visits some documents twice or never
					all := J{"coll": hx("b"), "crit": J{"cmp": []interface{}{"le", hx("x"), J{"lit": encValue(int64(9))}}}}
					lines = append(lines, opLine("update", J{"q": all, "upd": J{"setAll": []interface{}{[]interface{}{hx("x"), encValue(int64(100))}}}, "viaUpdate": 1}), J{"k": "dump"})
					back := J{"coll": hx("b"), "crit": J{"cmp": []interface{}{"ge", hx("x"), J{"lit": encValue(int64(100))}}},
						"sort": []interface{}{[]interface{}{hx("x"), -1}, []interface{}{hx("_id"), 1}}}
					if !c.Quick() {
						lines = append(lines, opLine("update", J{"q": back, "upd": J{"copy": []interface{}{hx("_id"), hx("x")}}}), J{"k": "dump"})
					}
					lines = append(lines, opLine("count", J{"q": J{"coll": hx("b"), "crit": J{"cmp": []interface{}{"ge", hx("x"), J{"lit": encValue(int64(100))}}}}}))
					// a single sort key on an indexed field (the sort node is elided: the plan streams from the index)
					// while the write moves or removes entries of that very index, with a second index next to it
					lines = append(lines, opLine("createIndex", J{"coll": hx("b"), "field": hx("x")}), opLine("createIndex", J{"coll": hx("b"), "field": hx("xy")}))
					if !c.Quick() {
						lines = append(lines, opLine("update", J{"q": J{"coll": hx("b"), "sort": []interface{}{[]interface{}{hx("xy"), -1}}}, "upd": J{"copy": []interface{}{hx("_id"), hx("xy")}}}), J{"k": "dump"})
					}
					lines = append(lines,
						opLine("delete", J{"q": J{"coll": hx("b"), "crit": J{"cmp": []interface{}{"ge", hx("y"), J{"lit": nil}}}, "sort": []interface{}{[]interface{}{hx("x"), 1}}}}), J{"k": "dump"},
						opLine("count", J{"q": J{"coll": hx("b")}}))
				}
				nOps := 4
				if size >= 1000 && c.Quick() {
					nOps = 0
				}
				for i := 0; i < nOps; i++ {
					var q J
					switch g.pick(4) {
					case 0:
						q = J{"coll": hx("b")}
					case 1:
						q = J{"coll": hx("b"), "crit": J{"cmp": []interface{}{[]string{"gt", "lt", "ge", "le", "eq"}[g.pick(5)], hx("x"), J{"lit": encValue(int64(g.pick(10)))}}}}
						if g.pick(2) == 0 {
							q["sort"] = []interface{}{[]interface{}{hx("x"), 1 - 2*g.pick(2)}, []interface{}{hx("_id"), 1}}
							q["limit"] = 1 + g.pick(size+1)
						}
					default:
						q = h.WriteQuery("b")
					}
					switch g.pick(6) {
					case 0:
						lines = append(lines, opLine("delete", J{"q": q}))
					case 1:
						lines = append(lines, opLine("update", J{"q": q, "upd": J{"setAll": []interface{}{[]interface{}{hx("x"), encValue(int64(g.pick(10)))}}}, "viaUpdate": 1}))
					case 2:
						lines = append(lines, opLine("update", J{"q": q, "upd": J{"copy": []interface{}{hx("y"), hx("x")}}}))
					case 3:
						// looks unchanged but is not: nil on a missing field, a nested nil, the same number in another type
						alts := []interface{}{[]interface{}{hx("w"), nil}, []interface{}{hx("n.zz"), nil}, []interface{}{hx("x"), encValue(float64(g.pick(10)))}, []interface{}{hx("x"), encValue(uint64(g.pick(10)))}}
						lines = append(lines, opLine("update", J{"q": q, "upd": J{"setAll": []interface{}{alts[g.pick(len(alts))]}}, "viaUpdate": 1}))
					default:
						lines = append(lines, opLine("update", J{"q": q, "upd": h.Upd()}))
					}
					lines = append(lines, J{"k": "dump"})
					lines = append(lines, opLine("count", J{"q": J{"coll": hx("b")}}))
				}
				lines = append(lines, opLine("dropCollection", J{"coll": hx("b")}), J{"k": "dump"},
					opLine("createCollection", J{"coll": hx("b")}), opLine("findAll", J{"q": J{"coll": hx("b")}}), J{"k": "dump"})
				if size >= 1000 {
					// large collections: the raw dump (and the invariant oracle) once at the end and once before the drop
					kept, nd := []J{}, 0
					for _, ln := range lines {
						if ln["k"] == "dump" {
							nd++
						}
					}
					seen := 0
					for _, ln := range lines {
						if ln["k"] == "dump" {
							seen++
							if seen != nd && seen != nd-2 {
								continue
							}
						}
						kept = append(kept, ln)
					}
					lines = kept
				}
				o := runHistory(dr, im, lines, HistOpts{SpecOnly: specOnly})
				recordHistory(c, lines, &o, be)
				c.Count(fmt.Sprintf("size:%d", size))
				for i, r := range o.Results {
					if i < len(lines) && (lines[i]["op"] == "update" || lines[i]["op"] == "delete") {
						if docs, ok := splitDocs(r.Impl); ok && len(docs) > 0 && len(docs) < size {
							c.NonTrivial(fmt.Sprint(lines[i]) + be)
						}
					}
				}
				if o.Index >= 0 {
					if reportHistoryProblem(c, dr, im, lines, &o, be, HistOpts{SpecOnly: specOnly}, "bulk") {
						im.Destroy()
						return
					}
					// a correspondence broke without a failing input so far: the remaining cases (larger
					// collections included) are searched with the property's own oracles only
					specOnly = true
				}
			}
		}
		im.Destroy()
	}
}

// ---- C08: sort order and windows ----

func streamC08(c *Ctx) {
	c.Rule = "collections with duplicate, missing, nil and mixed-type sort keys; one and two sort keys in both directions (raw directions 1,-1,0,5,-3), Sort() without options, skip/limit in {0,1,inside a tie group,size,beyond,negative}, criteria present or absent, with or without an index on the sort or filter field; " +
		"answers checked position by position against the tie classes of the specification's ordered sequence; non-trivial = distinct sorted query returning at least 2 documents"
	dr := StartDriver(c.DriverBin)
	defer dr.Close()
	replayKnownFindings(c, dr)
	nHist := c.N(160, 2000)
	dm := Domain{IntsWithin2p53: true, NoNegTimes: true}
	for _, be := range backendsAll {
		if !bigIntSorts(c, dr, be) {
			return
		}
	}
	for _, be := range backendsAll {
		im := NewImpl(be, c.Scratch)
		{
			// window cells: an indexed field holding absent / nil / equal / mixed-type values; every kind of criteria on it
			// (none, = nil, >= nil, <= nil, >= 5, exists, not exists) x sort (none, asc, desc) x skip x limit, on an indexed
			// and an unindexed twin: the window counts MATCHING documents, whatever entries the index hands to the filter
			lines := []J{opLine("createCollection", J{"coll": hx("wc0")}), opLine("createCollection", J{"coll": hx("wc1")}), opLine("createIndex", J{"coll": hx("wc1"), "field": hx("k")})}
			vals := []interface{}{"absent", nil, "absent", int64(5), nil, int64(5), "absent", float64(5), int64(7), "s", nil, "absent", int64(1)}
			docs := []interface{}{}
			for i, v := range vals {
				m := map[string]interface{}{"_id": fixedId(i + 1), "o": int64(i)}
				if v != "absent" {
					m["k"] = v
				}
				docs = append(docs, encDoc(m))
			}
			lines = append(lines, opLine("insert", J{"coll": hx("wc0"), "docs": docs}), opLine("insert", J{"coll": hx("wc1"), "docs": docs}))
			fk := hx("k")
			crits := []interface{}{nil, J{"cmp": []interface{}{"eq", fk, J{"lit": nil}}}, J{"cmp": []interface{}{"ge", fk, J{"lit": nil}}}, J{"cmp": []interface{}{"le", fk, J{"lit": nil}}},
				J{"cmp": []interface{}{"ge", fk, J{"lit": encValue(int64(5))}}}, J{"exists": fk}, J{"not": J{"exists": fk}}, J{"cmp": []interface{}{"eq", fk, J{"lit": encValue(int64(5))}}}}
			sorts := []interface{}{nil, []interface{}{[]interface{}{fk, 1}}, []interface{}{[]interface{}{fk, -1}}}
			for ci, cr := range crits {
				for si, srt := range sorts {
					for _, sk := range []int{0, 1, 2, 5} {
						for li, lim := range []int{-1, 0, 1, 3} {
							if c.Quick() && sk == 0 && lim == -1 {
								continue // the unwindowed forms are C02's cells
							}
							for _, coll := range []string{"wc0", "wc1"} {
								q := J{"coll": hx(coll), "skip": sk, "limit": lim}
								if cr != nil {
									q["crit"] = cr
								}
								if srt != nil {
									q["sort"] = srt
								}
								lines = append(lines, opLine([]string{"findAll", "count", "findAll", "exists", "findFirst"}[(ci+si+sk+li)%5], J{"q": q}))
							}
						}
					}
				}
			}
			o := runHistory(dr, im, lines, HistOpts{})
			recordHistory(c, lines, &o, be)
			c.Count("window-cells")
			if o.Index >= 0 {
				if reportHistoryProblem(c, dr, im, lines, &o, be, HistOpts{}, "window-cells") {
					im.Destroy()
					return
				}
			}
		}
		{
			// a collection of a few hundred documents (past any small-buffer threshold of a sort or window node):
			// in-memory and index-served sorts with every kind of window, negative limits other than -1 included
			g := NewGen(c.Rng, dm)
			size := 300 + g.pick(40)
			lines := []J{opLine("createCollection", J{"coll": hx("w")}), opLine("createIndex", J{"coll": hx("w"), "field": hx("x")})}
			for start := 0; start < size; start += 100 {
				docs := []interface{}{}
				for j := start; j < size && j < start+100; j++ {
					docs = append(docs, encDoc(map[string]interface{}{"_id": fixedId(j + 1), "x": int64(j % 11), "y": int64((j * 7919) % 1000), "z": int64(j % 3)}))
				}
				lines = append(lines, opLine("insert", J{"coll": hx("w"), "docs": docs}))
			}
			wins := [][2]int{{5, -3}, {10, -7}, {0, -2}, {size, -1}, {7, -7}, {3, 0}, {0, 5}, {size - 2, 10}, {250, 100}, {1, -1 << 62},
				// limits and skips at the end of the int range ("no limit" written as the largest int): skip + limit must not be computed
				{3, math.MaxInt}, {1, math.MaxInt - 1}, {size - 2, math.MaxInt}, {0, math.MaxInt}, {math.MaxInt, 5}, {math.MaxInt, math.MaxInt}, {2, math.MinInt}, {math.MaxInt - 1, 2}}
			for _, w := range wins {
				for _, srt := range []interface{}{[]interface{}{[]interface{}{hx("y"), 1}}, []interface{}{[]interface{}{hx("x"), -1}}, []interface{}{[]interface{}{hx("z"), 1}, []interface{}{hx("y"), -1}}, nil} {
					q := J{"coll": hx("w"), "skip": w[0], "limit": w[1]}
					if srt != nil {
						q["sort"] = srt
					}
					if g.pick(3) == 0 {
						q["crit"] = J{"cmp": []interface{}{"ge", hx("x"), J{"lit": encValue(int64(g.pick(4)))}}}
					}
					lines = append(lines, opLine([]string{"findAll", "findAll", "count"}[g.pick(3)], J{"q": q}))
				}
			}
			o := runHistory(dr, im, lines, HistOpts{})
			recordHistory(c, lines, &o, be)
			c.Count("large-windows")
			if o.Index >= 0 {
				if reportHistoryProblem(c, dr, im, lines, &o, be, HistOpts{}, "large-windows") {
					im.Destroy()
					return
				}
			}
		}
		for hN := 0; hN < nHist; hN++ {
			g := NewGen(c.Rng, dm)
			h := NewHistGen(g, 1, 2)
			h.Colls = []string{"s"}
			h.Pool = h.Pool[:6+g.pick(4)] // few distinct values: many ties
			lines := []J{opLine("createCollection", J{"coll": hx("s")})}
			n := 5 + g.pick(25)
			docs := []interface{}{}
			for j := 0; j < n; j++ {
				docs = append(docs, encDoc(h.Doc(h.newId())))
			}
			lines = append(lines, opLine("insert", J{"coll": hx("s"), "docs": docs}))
			for _, f := range []string{"x", "y", "n.a"} {
				if g.pick(2) == 0 {
					lines = append(lines, opLine("createIndex", J{"coll": hx("s"), "field": hx(f)}))
					h.Focus = append(h.Focus, f)
				}
			}
			for i := 0; i < 25; i++ {
				q := J{"coll": hx("s")}
				if g.pick(2) == 0 {
					q["crit"] = h.Crit(g.pick(3))
				}
				dirs := []int{1, -1, 0, 5, -3, math.MinInt64, math.MaxInt64, 1 << 62, -(1 << 62)}
				fs := []string{"x", "y", "n.a", "xy", "_id", "z", "x", "y"}
				switch g.pick(8) {
				case 0:
					q["sortDefault"] = true
				case 1, 2:
					q["sort"] = []interface{}{[]interface{}{hx(fs[g.pick(len(fs))]), dirs[g.pick(len(dirs))]}, []interface{}{hx(fs[g.pick(len(fs))]), dirs[g.pick(len(dirs))]}}
				case 3:
				default:
					q["sort"] = []interface{}{[]interface{}{hx(fs[g.pick(len(fs))]), dirs[g.pick(len(dirs))]}}
				}
				skips := []int{0, 0, 1, 2, n / 2, n, n + 3, -1}
				limits := []int{-1, -1, 0, 1, 2, n / 2, n, n + 3, -5}
				if s := skips[g.pick(len(skips))]; s != 0 {
					q["skip"] = s
				}
				if l := limits[g.pick(len(limits))]; l != -1 {
					q["limit"] = l
				}
				name := []string{"findAll", "findAll", "findAll", "forEach", "findFirst"}[g.pick(5)]
				ln := opLine(name, J{"q": q})
				if name == "forEach" && g.pick(2) == 0 {
					ln["stopAfter"] = 1 + g.pick(4)
				}
				lines = append(lines, ln)
			}
			o := runHistory(dr, im, lines, HistOpts{})
			recordHistory(c, lines, &o, be)
			for i, r := range o.Results {
				if q, ok := qOf(lines[i]); ok && qSorted(q) {
					if docs, ok := splitDocs(r.Impl); ok && len(docs) >= 2 {
						c.Count("sorted:>=2docs")
						if hasTies(r.All) {
							c.Count("sorted:with-ties")
						}
					}
				}
			}
			if o.Index >= 0 {
				if reportHistoryProblem(c, dr, im, lines, &o, be, HistOpts{}, "sort") {
					im.Destroy()
					return
				}
			}
		}
		im.Destroy()
	}
}

// ---- C09: derived reads agree with FindAll on the implementation itself ----

func streamC09(c *Ctx) {
	c.Rule = "after every write of a random history: FindAll(q) and, for the same q, Count, Exists, FindFirst, ForEach (with and without an early stop) and FindById of every returned id and of absent ids, compared with each other on the implementation (self-relative) and with model and spec; " +
		"deletes of absent ids and failed operations included; non-trivial = distinct query group whose FindAll is non-empty"
	dr := StartDriver(c.DriverBin)
	defer dr.Close()
	nHist := c.N(120, 1500)
	dm := Domain{IntsWithin2p53: true, NoNegTimes: true}
	for _, be := range backendsAll {
		im := NewImpl(be, c.Scratch)
		for hN := 0; hN < nHist; hN++ {
			g := NewGen(c.Rng, dm)
			h := NewHistGen(g, 2, 3)
			base := h.History(HistCfg{Ops: 12, QueriesPer: 0, Indexes: true, Malformed: true})
			lines := []J{}
			grp := 0
			for _, ln := range base {
				lines = append(lines, ln)
				if ln["k"] != "op" {
					continue
				}
				coll := h.coll()
				q := h.Query(coll)
				if g.pick(5) == 0 {
					// point-lookup shapes: a single comparison on _id (or on a field holding ids) with a stored id,
					// an absent id, or a field reference in either spelling - alone or And-ed, any window
					ops := []interface{}{J{"lit": encValue("$y")}, J{"ref": hx("y")}, J{"lit": encValue(h.someId())}, J{"lit": encValue("$_id")}}
					leaf := J{"cmp": []interface{}{[]string{"eq", "eq", "eq", "ge", "le"}[g.pick(5)], hx([]string{"_id", "_id", "y"}[g.pick(3)]), ops[g.pick(len(ops))]}}
					if g.pick(4) == 0 {
						leaf = J{"and": []interface{}{leaf, h.Leaf()}}
					}
					q["crit"] = leaf
				}
				grp++
				for _, name := range []string{"findAll", "count", "exists", "findFirst", "forEach", "forEach"} {
					l := opLine(name, J{"q": q, "grp": grp})
					if name == "forEach" && len(lines)%2 == 0 {
						l["stopAfter"] = 1 + g.pick(3)
					}
					lines = append(lines, l)
				}
			}
			if hN%3 == 2 {
				var lab string
				lines, lab = varyNames(g, lines, h.Colls)
				c.Count(lab)
			}
			o := runHistory(dr, im, lines, HistOpts{})
			recordHistory(c, lines, &o, be)
			if o.Index >= 0 {
				if reportHistoryProblem(c, dr, im, lines, &o, be, HistOpts{}, "derived") {
					im.Destroy()
					return
				}
			}
			// self-relative oracle on the implementation
			impl := make([]string, len(lines))
			ties := make([]bool, len(lines))
			for i := range lines {
				impl[i] = o.Results[i].Impl
				ties[i] = hasTies(o.Results[i].All)
			}
			if !c09SelfRelative(c, lines, impl, ties, be) {
				im.Destroy()
				return
			}
		}
		// early stops, systematically: ForEach with a consumer that stops after k documents (k = 1..n) over sorts on one and two
		// keys in both directions, with an index on the first sort key, on the second, on both or on none, with and without
		// criteria and windows: the visited sequence is the prefix of FindAll, and the consumer is not called again
		{
			lines := []J{}
			idxSets := [][]string{{}, {"a"}, {"b"}, {"a", "b"}}
			for ci, is := range idxSets {
				cn := fmt.Sprintf("es%d", ci)
				lines = append(lines, opLine("createCollection", J{"coll": hx(cn)}))
				for _, f := range is {
					lines = append(lines, opLine("createIndex", J{"coll": hx(cn), "field": hx(f)}))
				}
				docs := []interface{}{}
				for j, ab := range [][2]int64{{1, 5}, {2, 4}, {1, 3}, {3, 3}, {2, 1}, {1, 9}, {3, 0}} {
					docs = append(docs, encDoc(map[string]interface{}{"_id": fixedId(j + 1), "a": ab[0], "b": ab[1]}))
				}
				lines = append(lines, opLine("insert", J{"coll": hx(cn), "docs": docs}))
			}
			grp := 0
			sorts := [][]interface{}{{[]interface{}{hx("a"), 1}, []interface{}{hx("b"), 1}}, {[]interface{}{hx("a"), -1}, []interface{}{hx("b"), 1}}, {[]interface{}{hx("a"), 1}, []interface{}{hx("b"), -1}},
				{[]interface{}{hx("b"), 1}, []interface{}{hx("a"), 1}}, {[]interface{}{hx("a"), 1}, []interface{}{hx("_id"), -1}}, {[]interface{}{hx("a"), 1}}, {[]interface{}{hx("b"), -1}}}
			for ci := range idxSets {
				cn := fmt.Sprintf("es%d", ci)
				for si, srt := range sorts {
					for v := 0; v < 7; v++ {
						q := J{"coll": hx(cn), "sort": srt}
						if v == 1 {
							q["crit"] = J{"cmp": []interface{}{"ge", hx("a"), J{"lit": encValue(int64(2))}}}
						}
						// criteria an index could serve by several scans (a list of points, a disjunction): stopping inside one
						// of them must stop the whole read; also without any sort
						if v >= 3 {
							if si >= 3 {
								continue
							}
							switch v {
							case 3:
								q["crit"] = J{"in": []interface{}{hx("a"), []interface{}{J{"lit": encValue(int64(1))}, J{"lit": encValue(int64(3))}}}}
							case 4:
								q["crit"] = J{"in": []interface{}{hx("a"), []interface{}{J{"lit": encValue(int64(3))}, J{"lit": encValue(int64(2))}, J{"lit": encValue(int64(1))}}}}
								delete(q, "sort")
							case 5:
								q["crit"] = J{"or": []interface{}{J{"cmp": []interface{}{"eq", hx("a"), J{"lit": encValue(int64(1))}}}, J{"cmp": []interface{}{"eq", hx("a"), J{"lit": encValue(int64(3))}}}}}
								delete(q, "sort")
							case 6:
								q["crit"] = J{"in": []interface{}{hx("b"), []interface{}{J{"lit": encValue(int64(3))}, J{"lit": encValue(int64(5))}, J{"lit": encValue(int64(0))}}}}
								delete(q, "sort")
							}
						}
						if v == 2 {
							q["skip"] = 1
							q["limit"] = 4
						}
						grp++
						lines = append(lines, opLine("findAll", J{"q": q, "grp": grp}), opLine("count", J{"q": q, "grp": grp}), opLine("findFirst", J{"q": q, "grp": grp}))
						for k := 1; k <= 6; k++ {
							if (k+si+v)%2 == 0 || k <= 2 {
								lines = append(lines, opLine("forEach", J{"q": q, "grp": grp, "stopAfter": k}))
							}
						}
					}
				}
			}
			im.Reset()
			impl := make([]string, len(lines))
			for i, ln := range lines {
				impl[i] = im.Exec(ln, -1, false).Line
			}
			c.Count("early-stop-cells")
			// single-key sorts on a have ties: the order inside a tie class is not determined, but ForEach and FindAll of one
			// query run the same plan on the same store, so they are compared exactly all the same
			if !c09SelfRelative(c, lines, impl, make([]bool, len(lines)), be) {
				im.Destroy()
				return
			}
		}
		// rounding neighbours, systematically: an indexed field holding integers that share a float64 image (the index key),
		// times on both sides of 1970, floats next to them - every comparison with every one of them as literal, with and
		// without a window; the derived reads must agree whatever the index returns as candidates
		{
			vals := []interface{}{int64(1 << 53), int64(1<<53 + 1), int64(1<<53 + 2), float64(1 << 53), int64(math.MaxInt64), int64(math.MaxInt64 - 1), uint64(1 << 63), uint64(1<<63 + 5),
				uint64(math.MaxUint64), uint64(math.MaxUint64 - 1), int64(math.MinInt64), int64(math.MinInt64 + 1), float64(-(1 << 63)), int64(-(1 << 53)), int64(-(1<<53 + 1)), int64(7),
				mkTime(-1, 0), mkTime(0, 0), mkTime(1, 0), boundaryTimes()[2], boundaryTimes()[6], nil, "s"}
			lines := []J{opLine("createCollection", J{"coll": hx("rn")}), opLine("createIndex", J{"coll": hx("rn"), "field": hx("x")})}
			docs := []interface{}{}
			for j, v := range vals {
				docs = append(docs, encDoc(map[string]interface{}{"_id": fixedId(j + 1), "x": v, "k": int64(j)}))
			}
			lines = append(lines, opLine("insert", J{"coll": hx("rn"), "docs": docs}))
			grp := 0
			for _, lit := range vals {
				for _, op := range []string{"eq", "ge", "le", "gt", "lt"} {
					q := J{"coll": hx("rn"), "crit": J{"cmp": []interface{}{op, hx("x"), J{"lit": encValue(lit)}}}}
					if grp%7 == 3 {
						q["skip"] = 1
						q["limit"] = 2
					}
					grp++
					for _, name := range []string{"findAll", "count", "exists", "findFirst", "forEach"} {
						lines = append(lines, opLine(name, J{"q": q, "grp": grp}))
					}
				}
			}
			im.Reset()
			impl := make([]string, len(lines))
			for i, ln := range lines {
				impl[i] = im.Exec(ln, -1, false).Line
			}
			c.Count("rounding-neighbour-cells")
			if !c09SelfRelative(c, lines, impl, make([]bool, len(lines)), be) {
				im.Destroy()
				return
			}
		}
		// the same oracle on the implementation alone, over the WHOLE value domain (integers of any magnitude, times
		// before 1970): there the index orders differently from Compare (the two known findings of C01/C02/C08), but
		// the derived reads of one query still have to agree with each other, whatever plan serves them
		for hN := 0; hN < c.N(60, 800); hN++ {
			g := NewGen(c.Rng, Domain{})
			h := NewHistGen(g, 2, 2)
			h.Focus = []string{indexable[g.pick(len(indexable))]}
			base := h.History(HistCfg{Ops: 14, QueriesPer: 0, Indexes: true, IndexHeavy: true})
			lines := []J{}
			grp := 0
			for _, ln := range base {
				lines = append(lines, ln)
				if ln["k"] != "op" {
					continue
				}
				q := h.Query(h.coll())
				if g.pick(3) != 0 {
					// one comparison of a focus field with a pool value (the integer extremes and neighbours are in the pool)
					q["crit"] = J{"cmp": []interface{}{[]string{"eq", "ge", "le", "gt", "lt"}[g.pick(5)], hx(h.Focus[0]), J{"lit": encValue(h.val())}}}
					if g.pick(2) == 0 {
						delete(q, "sort")
					}
				}
				grp++
				for _, name := range []string{"findAll", "count", "exists", "findFirst", "forEach"} {
					lines = append(lines, opLine(name, J{"q": q, "grp": grp}))
				}
			}
			im.Reset()
			impl := make([]string, len(lines))
			ties := make([]bool, len(lines))
			for i, ln := range lines {
				if ln["k"] == "op" {
					impl[i] = im.Exec(ln, -1, false).Line
					if q, ok := qOf(ln); ok && qSorted(q) {
						ties[i] = true // no specification at hand to tell: sorted answers are compared as counts only
					}
				}
			}
			c.Count("impl-only-history")
			if !c09SelfRelative(c, lines, impl, ties, be) {
				im.Destroy()
				return
			}
		}
		im.Destroy()
	}
}

// c09SelfRelative: the derived reads of one query group compared with the group's FindAll, on the implementation's
// own answers.  ties[i]: the (sorted) answer has tie classes, so its order is not determined.
func c09SelfRelative(c *Ctx, lines []J, impl []string, ties []bool, be string) bool {
	groups := map[int][]int{}
	for i, ln := range lines {
		if n, ok := ln["grp"]; ok {
			groups[asInt(n)] = append(groups[asInt(n)], i)
		}
	}
	for _, idxs := range groups {
		var fa []string
		okFA := false
		for _, i := range idxs {
			if lines[i]["op"] == "findAll" {
				fa, okFA = splitDocs(impl[i])
			}
		}
		if !okFA {
			continue
		}
		q, _ := qOf(lines[idxs[0]])
		lim := qInt(q, "limit", -1)
		for _, i := range idxs {
			r := impl[i]
			bad := ""
			switch lines[i]["op"] {
			case "count":
				if r != fmt.Sprintf("ok int %d", len(fa)) {
					bad = "Count != len(FindAll)"
				}
			case "exists":
				if lim != 0 && r != "ok bool "+b01(len(fa) > 0) {
					bad = "Exists != (len(FindAll) > 0)"
				}
			case "findFirst":
				if lim != 0 && !(qSorted(q) && ties[i]) {
					want := "ok doc none"
					if len(fa) > 0 {
						want = "ok doc " + fa[0]
					}
					if r != want {
						bad = "FindFirst is not the first element of FindAll"
					}
				}
			case "forEach":
				if docs, ok := splitDocs(r); ok && !(qSorted(q) && ties[i]) {
					want := fa
					if n, ok := lines[i]["stopAfter"]; ok && asInt(n) < len(fa) {
						want = fa[:asInt(n)]
					}
					if strings.Join(docs, ";") != strings.Join(want, ";") {
						bad = "ForEach does not visit the FindAll sequence (or does not stop)"
					}
				}
			}
			if bad != "" {
				c.Violation(&Replay{Backend: be, Stream: "history", Case: toIfaces(lines[:i+1]), FirstDivergence: i,
					Expected: []string{"FindAll: " + strings.Join(fa, ";")}, Actual: []string{r}, Note: bad})
				return false
			}
		}
		if len(fa) > 0 {
			c.NonTrivial(fmt.Sprint(q) + be)
		}
	}
	return true
}
