module verif/harness

go 1.21

require (
	github.com/dgraph-io/badger/v4 v4.2.0
	github.com/ostafen/clover/v2 v2.0.0
)

require (
	github.com/cespare/xxhash/v2 v2.2.0 // indirect
	github.com/dgraph-io/ristretto v0.1.1 // indirect
	github.com/dustin/go-humanize v1.0.1 // indirect
	github.com/gofrs/uuid/v5 v5.0.0 // indirect
	github.com/gogo/protobuf v1.3.2 // indirect
	github.com/golang/glog v1.1.2 // indirect
	github.com/golang/groupcache v0.0.0-20210331224755-41bb18bfe9da // indirect
	github.com/golang/protobuf v1.5.3 // indirect
	github.com/golang/snappy v0.0.4 // indirect
	github.com/google/flatbuffers v23.5.26+incompatible // indirect
	github.com/google/orderedcode v0.0.1 // indirect
	github.com/klauspost/compress v1.17.0 // indirect
	github.com/pkg/errors v0.9.1 // indirect
	github.com/vmihailenco/msgpack/v5 v5.3.5 // indirect
	github.com/vmihailenco/tagparser/v2 v2.0.0 // indirect
	go.etcd.io/bbolt v1.3.7 // indirect
	go.opencensus.io v0.24.0 // indirect
	golang.org/x/net v0.15.0 // indirect
	golang.org/x/sys v0.12.0 // indirect
	google.golang.org/protobuf v1.31.0 // indirect
)

replace github.com/ostafen/clover/v2 => /repo
