package main

import (
	"fmt"
	"math"
	"math/rand"
	"time"
)

// ---- boundary-rich value generators (DESIGN §3) ----

var boundaryInts = []int64{0, 1, -1, 2, 5, 63, -63, 64, -64, 8191, 8192, 1 << 31, -(1 << 31), 1 << 53, -(1 << 53),
	(1 << 53) + 1, (1 << 53) - 1, -(1 << 53) - 1, math.MaxInt64, math.MinInt64, math.MaxInt64 - 1, math.MinInt64 + 1}

var boundaryUints = []uint64{0, 1, 2, 5, 255, 256, 1<<53 - 1, 1 << 53, 1<<53 + 1, 1<<63 - 1, 1 << 63, 1<<63 + 5, math.MaxUint64}

var boundaryFloats = []float64{0, math.Copysign(0, -1), 1, -1, 0.5, -0.5, 1.5, 2, 5, 4.999999999999999, 5.000000000000001,
	1 << 53, -(1 << 53), (1 << 53) + 2, math.SmallestNonzeroFloat64, -math.SmallestNonzeroFloat64,
	math.MaxFloat64, -math.MaxFloat64, math.Inf(1), math.Inf(-1), 63, 64, 8192, 1e300, -1e300, 1e-300}

var boundaryStrings = []string{"", "a", "ab", "a\x00", "a\x00b", "a\xff", "\xff\xff", "\xff", "\x00", "\xc3\x28", "$x", "b", "abc", "A", "é", "a b"}

var boundaryOffsets = []int{0, 3600, -27000, 20730, -17762, -3630, -30} // incl. negative offsets with a seconds component (America/New_York before 1883 is -4:56:02)

func boundaryTimes() []time.Time {
	mk := func(y int, mo time.Month, d int) int64 { return time.Date(y, mo, d, 0, 0, 0, 0, time.UTC).UnixNano() }
	ns := []int64{mk(1678, 1, 1), mk(1700, 1, 1), mk(1960, 1, 1), 0, 1, -1, mk(1980, 6, 1), mk(2020, 1, 2) + 123456789, mk(2200, 1, 1), mk(2262, 1, 1)}
	out := []time.Time{}
	for i, n := range ns {
		out = append(out, mkTime(n, boundaryOffsets[i%len(boundaryOffsets)]))
	}
	return out
}

// Domain flags restrict generation to a property's stated domain.
type Domain struct {
	IntsWithin2p53 bool // integers |n| <= 2^53 only
	NoNegTimes     bool // times from 1970 on
	NoFloats       bool
	NoDollar       bool // no string starting with '$' (it would be read as a field reference)
	JSONSafe       bool // valid UTF-8 strings and finite floats only
}

func (dm Domain) okAtom(v interface{}) bool {
	switch x := v.(type) {
	case int64:
		if dm.IntsWithin2p53 && (x > 1<<53 || x < -(1<<53)) {
			return false
		}
	case uint64:
		if dm.IntsWithin2p53 && x > 1<<53 {
			return false
		}
	case float64:
		if dm.NoFloats {
			return false
		}
		if dm.JSONSafe && (math.IsInf(x, 0) || math.IsNaN(x)) {
			return false // encoding/json refuses them: the whole export fails (outside C19's "finite numbers")
		}
	case time.Time:
		if dm.NoNegTimes && x.UnixNano() < 0 {
			return false
		}
	case string:
		if dm.NoDollar && len(x) > 0 && x[0] == '$' {
			return false
		}
		if dm.JSONSafe {
			for _, r := range x {
				if r == 0xFFFD {
					return false
				}
			}
		}
	}
	return true
}

func allAtoms(dm Domain) []interface{} {
	out := []interface{}{nil, true, false}
	for _, x := range boundaryInts {
		out = append(out, x)
	}
	for _, x := range boundaryUints {
		out = append(out, x)
	}
	for _, x := range boundaryFloats {
		out = append(out, x)
	}
	for _, x := range boundaryStrings {
		out = append(out, x)
	}
	for _, x := range boundaryTimes() {
		out = append(out, x)
	}
	res := []interface{}{}
	for _, v := range out {
		if dm.okAtom(v) {
			res = append(res, v)
		}
	}
	return res
}

type Gen struct {
	R     *rand.Rand
	Dm    Domain
	atoms []interface{}
}

func NewGen(r *rand.Rand, dm Domain) *Gen { return &Gen{R: r, Dm: dm, atoms: allAtoms(dm)} }

func (g *Gen) pick(n int) int { return g.R.Intn(n) }

func (g *Gen) randomAtom() interface{} {
	for {
		var v interface{}
		switch g.pick(6) {
		case 0:
			v = g.R.Int63() - g.R.Int63()
		case 1:
			v = g.R.Uint64()
		case 2:
			f := math.Float64frombits(g.R.Uint64())
			if math.IsNaN(f) {
				continue
			}
			v = f
		case 3:
			n := g.pick(6)
			b := make([]byte, n)
			for i := range b {
				b[i] = []byte{0, 1, 'a', 'b', 'z', 0xff, 0xfe, '$', '.', ';'}[g.pick(10)]
			}
			v = string(b)
		case 4:
			v = mkTime(g.R.Int63n(1<<62)-(1<<61), boundaryOffsets[g.pick(len(boundaryOffsets))])
		case 5:
			v = int64(g.pick(20) - 5)
		}
		if g.Dm.okAtom(v) {
			return v
		}
	}
}

// Atom: mostly boundary values, sometimes random ones.
func (g *Gen) Atom() interface{} {
	if g.pick(4) == 0 {
		return g.randomAtom()
	}
	return g.atoms[g.pick(len(g.atoms))]
}

// Value of nesting depth <= depth.
func (g *Gen) Value(depth int) interface{} {
	if depth <= 0 || g.pick(3) != 0 {
		return g.Atom()
	}
	if g.pick(2) == 0 {
		n := g.pick(4)
		a := make([]interface{}, 0, n)
		for i := 0; i < n; i++ {
			a = append(a, g.Value(depth-1))
		}
		return a
	}
	n := g.pick(4)
	m := map[string]interface{}{}
	for i := 0; i < n; i++ {
		m[[]string{"a", "b", "ab", "", "a\x00", "k"}[g.pick(6)]] = g.Value(depth - 1)
	}
	return m
}

func fixedId(n int) string { return fmt.Sprintf("%08x-0000-4000-8000-%012x", n, n) }
