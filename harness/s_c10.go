package main

import (
	"bytes"
	"fmt"

	clover "github.com/ostafen/clover/v2"
)

func init() { streams["C10"] = streamC10 }

func sign(n int) int {
	if n < 0 {
		return -1
	}
	if n > 0 {
		return 1
	}
	return 0
}

// implKey is the tail of the index key after `c:<coll>;i:<field>;`: `t:<rank>;v:<code>`.
func implKey(v interface{}) (string, error) {
	prefix := []byte(fmt.Sprintf("t:%d;v:", clover.VerifTypeId(v)))
	b, err := clover.VerifOrderedCode(prefix, v)
	return string(b), err
}

// c10KeyDomain: key-order agreement is stated for numbers within 2^53 and times from 1970 on.
func c10KeyDomain(v interface{}) bool {
	dm := Domain{IntsWithin2p53: true, NoNegTimes: true}
	switch x := v.(type) {
	case []interface{}:
		for _, e := range x {
			if !c10KeyDomain(e) {
				return false
			}
		}
		return true
	case map[string]interface{}:
		for _, e := range x {
			if !c10KeyDomain(e) {
				return false
			}
		}
		return true
	case float64:
		// floats are exact at any magnitude
		return true
	}
	return dm.okAtom(v)
}

// c10CmpDomain: integers beyond 2^53 only among integers, not against floats.
func hasBigInt(v interface{}) bool {
	switch x := v.(type) {
	case int64:
		return x > 1<<53 || x < -(1<<53)
	case uint64:
		return x > 1<<53
	case []interface{}:
		for _, e := range x {
			if hasBigInt(e) {
				return true
			}
		}
	case map[string]interface{}:
		for _, e := range x {
			if hasBigInt(e) {
				return true
			}
		}
	}
	return false
}

func hasFloat(v interface{}) bool {
	switch x := v.(type) {
	case float64:
		return true
	case []interface{}:
		for _, e := range x {
			if hasFloat(e) {
				return true
			}
		}
	case map[string]interface{}:
		for _, e := range x {
			if hasFloat(e) {
				return true
			}
		}
	}
	return false
}

func cmpDomain(vs ...interface{}) bool {
	big, fl := false, false
	for _, v := range vs {
		big = big || hasBigInt(v)
		fl = fl || hasFloat(v)
	}
	return !(big && fl)
}

func streamC10(c *Ctx) {
	c.Rule = "pairs and triples over the boundary value set (ints incl. extremes, uint64, floats incl. ±0/±Inf/subnormal, strings with 0x00/0xFF, times 1678-2262, nested arrays/objects) plus random values; " +
		"each pair: sign(Compare) impl vs Lean goCmp, antisymmetry on impl, key bytes impl vs Lean, key order vs Compare on the key domain; triples: transitivity on impl. " +
		"non-trivial = distinct (canonical a, canonical b) with a != b textually"
	g := NewGen(c.Rng, Domain{})
	dr := StartDriver(c.DriverBin)
	defer dr.Close()

	pool := append([]interface{}{}, g.atoms...)
	nContainers := c.N(60, 200)
	for i := 0; i < nContainers; i++ {
		pool = append(pool, g.Value(3))
	}
	pool = append(pool, []interface{}{}, map[string]interface{}{}, []interface{}{nil}, []interface{}{[]interface{}{}},
		map[string]interface{}{"a": nil}, map[string]interface{}{"a": int64(1)}, map[string]interface{}{"a": int64(1), "b": int64(2)},
		[]interface{}{int64(1)}, []interface{}{int64(1), int64(2)}, []interface{}{float64(1)}, []interface{}{"a"})

	keys := make([]string, len(pool))
	for i, v := range pool {
		k, err := implKey(v)
		if err != nil {
			c.Violation(&Replay{Stream: "key", Case: []interface{}{J{"k": "key", "v": encValue(v)}}, Actual: []string{"error " + err.Error()}, Note: "index key cannot be computed"})
			return
		}
		keys[i] = k
		mk := dr.Ask(J{"k": "key", "v": encValue(v)})
		c.Evals++
		if mk != hx(k) {
			// correspondence break on key bytes: decide below whether the property itself fails
			c.Unexplained(&Replay{Stream: "key", Case: []interface{}{J{"k": "key", "v": encValue(v)}}, Expected: []string{mk}, Actual: []string{hx(k)}}, "correspondence K-C10/key")
			return
		}
	}

	check := func(a, b interface{}, ka, kb string) bool {
		c.Evals++
		ia := sign(clover.VerifCompare(a, b))
		ib := sign(clover.VerifCompare(b, a))
		line := J{"k": "cmp", "a": encValue(a), "b": encValue(b)}
		ca, cb := canonValue(a), canonValue(b)
		if ca != cb {
			c.NonTrivial(ca + "|" + cb)
		}
		c.Count(fmt.Sprintf("pair:%T/%T", a, b))
		inDom := cmpDomain(a, b)
		if inDom && ia != -ib {
			c.Violation(&Replay{Stream: "cmp", Case: []interface{}{line}, Expected: []string{"sign(Compare(a,b)) = -sign(Compare(b,a))"}, Actual: []string{fmt.Sprint(ia, ib)}, Note: "antisymmetry"})
			return false
		}
		if inDom {
			m := dr.Ask(line)
			if m != fmt.Sprint(ia) {
				c.Unexplained(&Replay{Stream: "cmp", Case: []interface{}{line}, Expected: []string{m}, Actual: []string{fmt.Sprint(ia)}}, "correspondence K-C10/cmp")
				return false
			}
		}
		if inDom && c10KeyDomain(a) && c10KeyDomain(b) {
			// keys followed by document ids must sort like the values
			for _, ids := range [][2]string{{fixedId(1), fixedId(2)}, {fixedId(2), fixedId(1)}} {
				kc := sign(bytes.Compare([]byte(ka+ids[0]), []byte(kb+ids[1])))
				want := ia
				if ia == 0 {
					if ka != kb {
						c.Violation(&Replay{Stream: "keyorder", Case: []interface{}{line}, Expected: []string{"equal values have equal keys"}, Actual: []string{hx(ka), hx(kb)}})
						return false
					}
					want = sign(bytes.Compare([]byte(ids[0]), []byte(ids[1])))
				}
				if kc != want {
					c.Violation(&Replay{Stream: "keyorder", Case: []interface{}{line}, Expected: []string{fmt.Sprint("key order ", want)}, Actual: []string{fmt.Sprint(kc), hx(ka), hx(kb)}})
					return false
				}
			}
		}
		return true
	}

	n := len(pool)
	// all pairs in the quick tier as well: the pool is a few hundred values
	for i := 0; i < n; i++ {
		for j := i; j < n; j++ {
			if !check(pool[i], pool[j], keys[i], keys[j]) {
				return
			}
		}
	}
	c.Sample(J{"pair": []interface{}{encValue(pool[3]), encValue(pool[n-5])}})

	// triples: transitivity on the implementation
	nTriples := c.N(200000, 3000000)
	for t := 0; t < nTriples; t++ {
		i, j, k := g.pick(n), g.pick(n), g.pick(n)
		a, b, cc := pool[i], pool[j], pool[k]
		if !cmpDomain(a, b, cc) {
			continue
		}
		c.Evals++
		if clover.VerifCompare(a, b) <= 0 && clover.VerifCompare(b, cc) <= 0 && clover.VerifCompare(a, cc) > 0 {
			c.Violation(&Replay{Stream: "trans", Case: []interface{}{J{"k": "triple", "a": encValue(a), "b": encValue(b), "c": encValue(cc)}},
				Expected: []string{"a<=b, b<=c => a<=c"}, Actual: []string{"Compare(a,c) > 0"}})
			return
		}
	}
	c.Sample(J{"triple": []interface{}{encValue(pool[1]), encValue(pool[40]), encValue(pool[80])}})
}
