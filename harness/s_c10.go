package main

import (
	"bytes"
	"fmt"
	"math"
	"math/big"
	"sort"
	"strings"
	"time"

	clover "github.com/ostafen/clover/v2"
)

func init() { streams["C10"] = streamC10 }

func sign(n int) int {
	if n < 0 {
		return -1
	}
	if n > 0 {
		return 1
	}
	return 0
}

// implKey is the tail of the index key after `c:<coll>;i:<field>;`: `t:<rank>;v:<code>`.
func implKey(v interface{}) (string, error) {
	prefix := []byte(fmt.Sprintf("t:%d;v:", clover.VerifTypeId(v)))
	b, err := clover.VerifOrderedCode(prefix, v)
	return string(b), err
}

// c10KeyDomain: key-order agreement is stated for numbers within 2^53 and times from 1970 on.
func c10KeyDomain(v interface{}) bool {
	dm := Domain{IntsWithin2p53: true, NoNegTimes: true}
	switch x := v.(type) {
	case []interface{}:
		for _, e := range x {
			if !c10KeyDomain(e) {
				return false
			}
		}
		return true
	case map[string]interface{}:
		for _, e := range x {
			if !c10KeyDomain(e) {
				return false
			}
		}
		return true
	case float64:
		// floats are exact at any magnitude
		return true
	}
	return dm.okAtom(v)
}

// c10CmpDomain: integers beyond 2^53 only among integers, not against floats.
func hasBigInt(v interface{}) bool {
	switch x := v.(type) {
	case int64:
		return x > 1<<53 || x < -(1<<53)
	case uint64:
		return x > 1<<53
	case []interface{}:
		for _, e := range x {
			if hasBigInt(e) {
				return true
			}
		}
	case map[string]interface{}:
		for _, e := range x {
			if hasBigInt(e) {
				return true
			}
		}
	}
	return false
}

func hasFloat(v interface{}) bool {
	switch x := v.(type) {
	case float64:
		return true
	case []interface{}:
		for _, e := range x {
			if hasFloat(e) {
				return true
			}
		}
	case map[string]interface{}:
		for _, e := range x {
			if hasFloat(e) {
				return true
			}
		}
	}
	return false
}

func cmpDomain(vs ...interface{}) bool {
	big, fl := false, false
	for _, v := range vs {
		big = big || hasBigInt(v)
		fl = fl || hasFloat(v)
	}
	return !(big && fl)
}

func streamC10(c *Ctx) {
	c.Rule = "pairs and triples over the boundary value set (ints incl. extremes, uint64, floats incl. ±0/±Inf/subnormal, strings with 0x00/0xFF, times 1678-2262, nested arrays/objects) plus random values; " +
		"each pair: sign(Compare) impl vs Lean goCmp, antisymmetry on impl, key bytes impl vs Lean, key order vs Compare on the key domain; triples: transitivity on impl. " +
		"then, through a real index on both backends and collection/field names of several lengths: stored keys = prefix + hook key + id, index-ordered reads in Compare order, two-sided windows return exactly Compare's window. " +
		"non-trivial = distinct (canonical a, canonical b) with a != b textually"
	g := NewGen(c.Rng, Domain{})
	dr := StartDriver(c.DriverBin)
	defer dr.Close()

	pool := append([]interface{}{}, g.atoms...)
	nContainers := c.N(60, 200)
	for i := 0; i < nContainers; i++ {
		pool = append(pool, g.Value(3))
	}
	pool = append(pool, []interface{}{}, map[string]interface{}{}, []interface{}{nil}, []interface{}{[]interface{}{}},
		map[string]interface{}{"a": nil}, map[string]interface{}{"a": int64(1)}, map[string]interface{}{"a": int64(1), "b": int64(2)},
		[]interface{}{int64(1)}, []interface{}{int64(1), int64(2)}, []interface{}{float64(1)}, []interface{}{"a"})

	// one representative of every type inside an array and inside an object, so that every pair of types meets at the
	// same position of two containers (the element type tags of container keys must order like Compare does)
	for _, rep := range []interface{}{nil, int64(5), uint64(7), float64(2.5), "x", map[string]interface{}{"a": int64(3)}, []interface{}{int64(5)}, false, true,
		time.Unix(1700000000, 0).UTC(), time.Unix(3, 5).UTC()} {
		pool = append(pool, []interface{}{rep}, map[string]interface{}{"a": rep}, []interface{}{int64(1), rep}, map[string]interface{}{"a": []interface{}{rep}})
	}

	modelOff := false
	keys := make([]string, len(pool))
	for i, v := range pool {
		k, err := implKey(v)
		if err != nil {
			c.Violation(&Replay{Stream: "key", Case: []interface{}{J{"k": "key", "v": encValue(v)}}, Actual: []string{"error " + err.Error()}, Note: "index key cannot be computed"})
			return
		}
		keys[i] = k
		mk := dr.Ask(J{"k": "key", "v": encValue(v)})
		c.Evals++
		if mk != hx(k) && !modelOff {
			// correspondence break on key bytes: recorded once; the run goes on with the property's own laws (order of
			// Compare by numeric value and type rank, key order = Compare order), which decide whether the property fails
			c.Unexplained(&Replay{Stream: "key", Case: []interface{}{J{"k": "key", "v": encValue(v)}}, Expected: []string{mk}, Actual: []string{hx(k)}}, "correspondence K-C10/key")
			modelOff = true
		}
	}

	check := func(a, b interface{}, ka, kb string) bool {
		c.Evals++
		ia := sign(clover.VerifCompare(a, b))
		ib := sign(clover.VerifCompare(b, a))
		line := J{"k": "cmp", "a": encValue(a), "b": encValue(b)}
		ca, cb := canonValue(a), canonValue(b)
		if ca != cb {
			c.NonTrivial(ca + "|" + cb)
		}
		c.Count(fmt.Sprintf("pair:%T/%T", a, b))
		inDom := cmpDomain(a, b)
		if inDom && ia != -ib {
			c.Violation(&Replay{Stream: "cmp", Case: []interface{}{line}, Expected: []string{"sign(Compare(a,b)) = -sign(Compare(b,a))"}, Actual: []string{fmt.Sprint(ia, ib)}, Note: "antisymmetry"})
			return false
		}
		// the property's own statement, without the model: types rank nil < number < string < object < array < bool < time,
		// and numbers compare by numeric value across int64 / uint64 / float64 (exact rational comparison)
		if want, known := c10Direct(a, b); known && inDom && ia != want {
			c.Violation(&Replay{Stream: "cmp", Case: []interface{}{line}, Expected: []string{fmt.Sprint(want)}, Actual: []string{fmt.Sprint(ia)},
				Note: "Compare does not order by type rank (nil < number < string < object < array < bool < time) / by numeric value"})
			return false
		}
		if inDom && !modelOff {
			m := dr.Ask(line)
			if m != fmt.Sprint(ia) {
				c.Unexplained(&Replay{Stream: "cmp", Case: []interface{}{line}, Expected: []string{m}, Actual: []string{fmt.Sprint(ia)}}, "correspondence K-C10/cmp")
				modelOff = true
			}
		}
		if inDom && c10KeyDomain(a) && c10KeyDomain(b) {
			// keys followed by document ids must sort like the values
			for _, ids := range [][2]string{{fixedId(1), fixedId(2)}, {fixedId(2), fixedId(1)}} {
				kc := sign(bytes.Compare([]byte(ka+ids[0]), []byte(kb+ids[1])))
				want := ia
				if ia == 0 {
					if ka != kb {
						c.Violation(&Replay{Stream: "keyorder", Case: []interface{}{line}, Expected: []string{"equal values have equal keys"}, Actual: []string{hx(ka), hx(kb)}})
						return false
					}
					want = sign(bytes.Compare([]byte(ids[0]), []byte(ids[1])))
				}
				if kc != want {
					c.Violation(&Replay{Stream: "keyorder", Case: []interface{}{line}, Expected: []string{fmt.Sprint("key order ", want)}, Actual: []string{fmt.Sprint(kc), hx(ka), hx(kb)}})
					return false
				}
			}
		}
		return true
	}

	n := len(pool)
	// all pairs in the quick tier as well: the pool is a few hundred values
	for i := 0; i < n; i++ {
		for j := i; j < n; j++ {
			if !check(pool[i], pool[j], keys[i], keys[j]) {
				return
			}
		}
	}
	c.Sample(J{"pair": []interface{}{encValue(pool[3]), encValue(pool[n-5])}})

	// triples: transitivity on the implementation
	nTriples := c.N(200000, 3000000)
	for t := 0; t < nTriples; t++ {
		i, j, k := g.pick(n), g.pick(n), g.pick(n)
		a, b, cc := pool[i], pool[j], pool[k]
		if !cmpDomain(a, b, cc) {
			continue
		}
		c.Evals++
		if clover.VerifCompare(a, b) <= 0 && clover.VerifCompare(b, cc) <= 0 && clover.VerifCompare(a, cc) > 0 {
			c.Violation(&Replay{Stream: "trans", Case: []interface{}{J{"k": "triple", "a": encValue(a), "b": encValue(b), "c": encValue(cc)}},
				Expected: []string{"a<=b, b<=c => a<=c"}, Actual: []string{"Compare(a,c) > 0"}})
			return
		}
	}
	c.Sample(J{"triple": []interface{}{encValue(pool[1]), encValue(pool[40]), encValue(pool[80])}})
	// times outside the range of UnixNano (the protocol carries int64 nanoseconds, so these never reach the model):
	// Compare is chronological for every pair, the zero time.Time included
	{
		ts := []time.Time{{}, time.Date(1, 1, 1, 0, 0, 0, 1, time.UTC), time.Date(1500, 6, 1, 0, 0, 0, 0, time.FixedZone("", 3600)), time.Date(1677, 9, 21, 0, 0, 0, 0, time.UTC),
			time.Date(1677, 9, 22, 0, 0, 0, 0, time.UTC), time.Date(1960, 1, 1, 0, 0, 0, 0, time.UTC), time.Unix(0, 0), time.Date(2000, 1, 1, 0, 0, 0, 0, time.FixedZone("", -3630)),
			time.Date(2262, 4, 11, 0, 0, 0, 0, time.UTC), time.Date(2262, 4, 12, 0, 0, 0, 0, time.UTC), time.Date(2500, 1, 1, 0, 0, 0, 0, time.UTC), time.Date(9999, 12, 31, 23, 59, 59, 999999999, time.UTC)}
		for i, a := range ts {
			for j, b := range ts {
				c.Evals++
				want := 0
				if a.Before(b) {
					want = -1
				} else if a.After(b) {
					want = 1
				}
				if got := sign(clover.VerifCompare(a, b)); got != want {
					c.Violation(&Replay{Stream: "cmp", Case: []interface{}{J{"k": "cmp-times", "a": a.Format(time.RFC3339Nano), "b": b.Format(time.RFC3339Nano)}}, Expected: []string{fmt.Sprint(want)}, Actual: []string{fmt.Sprint(got)},
						Note: "Compare does not order two times chronologically (instants outside the range of UnixNano)"})
					return
				}
				if i != j {
					c.NonTrivial(fmt.Sprint("time-pair", i, j))
				}
			}
		}
	}
	c10ThroughIndex(c, g)
	if c.Violations == 0 {
		// binary values order and index as the slice of their bytes
		for _, be := range backendsAll {
			if !binaryValues(c, be) {
				return
			}
		}
	}
}

// c10ThroughIndex: the keys the index package really writes, observed in a real store.  For collection / field names of
// several lengths (key buffers are sized by them) an index is filled with the atoms of the key domain, then
//
//	(1) every stored key ends in the hook's key bytes of the value followed by the document id,
//	(2) an index-ordered read (sort on the indexed field) returns the documents in Compare order, ids breaking ties,
//	(3) two-sided windows a <= x <= b (and the strict forms) through the index return exactly the documents whose value
//	    Compare places in the window - both bounds' keys are built for the same scan.
func c10ThroughIndex(c *Ctx, g *Gen) {
	atoms := []interface{}{}
	for _, v := range g.atoms {
		if s, isStr := v.(string); isStr && strings.HasPrefix(s, "$") {
			continue // as a literal it would be read as a field reference
		}
		if v != nil && c10KeyDomain(v) && !hasBigInt(v) {
			atoms = append(atoms, v)
		}
	}
	names := [][2]string{{"c", "x"}, {"measurements", "temperature"}, {strings.Repeat("k", 21), "vals"}}
	for i := 0; i < c.N(3, 20); i++ {
		names = append(names, [2]string{strings.Repeat("n", 1+g.pick(70)), strings.Repeat("f", 1+g.pick(40))})
	}
	for bi, be := range backendsAll {
		im := NewImpl(be, c.Scratch)
		for ni, nm := range names {
			if c.Quick() && ni%2 != bi%2 && ni > 2 {
				continue
			}
			coll, field := nm[0], nm[1]
			im.Reset()
			im.Exec(opLine("createCollection", J{"coll": hx(coll)}), -1, false)
			im.Exec(opLine("createIndex", J{"coll": hx(coll), "field": hx(field)}), -1, false)
			docs := []interface{}{}
			valOf := map[string]interface{}{}
			for j, v := range atoms {
				id := fixedId(j + 1)
				valOf[hx(id)] = v
				docs = append(docs, encDoc(map[string]interface{}{"_id": id, field: v}))
			}
			if r := im.Exec(opLine("insert", J{"coll": hx(coll), "docs": docs}), -1, false); r.Line != "ok unit" {
				c.Violation(&Replay{Backend: be, Stream: "index-keys", Case: []interface{}{J{"coll": coll, "field": field}}, Actual: []string{r.Line}, Note: "inserting the boundary atoms into an indexed collection failed"})
				im.Destroy()
				return
			}
			desc := J{"k": "index-keys", "backend": be, "collection": coll, "field": field, "values": len(atoms)}
			// (1) stored keys
			prefix := "c:" + coll + ";i:" + field + ";"
			want := map[string]bool{}
			for j, v := range atoms {
				k, _ := implKey(v)
				want[prefix+k+fixedId(j+1)] = true
			}
			found := 0
			for _, k := range im.RawKeys() {
				if strings.HasPrefix(k, prefix) {
					if !want[k] {
						c.Violation(&Replay{Backend: be, Stream: "index-keys", Case: []interface{}{desc}, Actual: []string{hx(k)}, Note: "the index holds a key that is not <prefix><type><ordered code of the value><id> of any document"})
						im.Destroy()
						return
					}
					found++
				}
			}
			if found != len(atoms) {
				c.Violation(&Replay{Backend: be, Stream: "index-keys", Case: []interface{}{desc}, Expected: []string{fmt.Sprint(len(atoms))}, Actual: []string{fmt.Sprint(found)}, Note: "number of index entries"})
				im.Destroy()
				return
			}
			idsOf := func(line string) ([]string, bool) {
				ds, ok := splitDocs(line)
				if !ok {
					return nil, false
				}
				out := []string{}
				for _, d := range ds {
					out = append(out, topId(d))
				}
				return out, true
			}
			// (2) index order = Compare order
			for _, dir := range []int{1, -1} {
				r := im.Exec(opLine("findAll", J{"q": J{"coll": hx(coll), "sort": []interface{}{[]interface{}{hx(field), dir}}}}), -1, false)
				ids, ok := idsOf(r.Line)
				c.Evals++
				if !ok || len(ids) != len(atoms) {
					c.Violation(&Replay{Backend: be, Stream: "index-keys", Case: []interface{}{desc}, Actual: []string{r.Line[:min(200, len(r.Line))]}, Note: "an index-ordered read does not return every document"})
					im.Destroy()
					return
				}
				for k := 0; k+1 < len(ids); k++ {
					cmp := clover.VerifCompare(valOf[ids[k]], valOf[ids[k+1]]) * dir
					if cmp > 0 || (cmp == 0 && (ids[k] < ids[k+1]) != (dir > 0)) {
						c.Violation(&Replay{Backend: be, Stream: "index-keys", Case: []interface{}{desc, J{"a": encValue(valOf[ids[k]]), "b": encValue(valOf[ids[k+1]]), "direction": dir}},
							Note: "an index-ordered read returns two documents against the order of Compare (ids breaking ties)"})
						im.Destroy()
						return
					}
				}
			}
			// (3) two-sided windows
			for t := 0; t < c.N(400, 4000); t++ {
				a, b := atoms[g.pick(len(atoms))], atoms[g.pick(len(atoms))]
				if clover.VerifTypeId(a) != clover.VerifTypeId(b) {
					continue // windows within one type (mixed-type bounds are the planner's business: C02)
				}
				if clover.VerifCompare(a, b) > 0 {
					a, b = b, a
				}
				lo, hi := []string{"ge", "gt"}[g.pick(2)], []string{"le", "lt"}[g.pick(2)]
				q := J{"coll": hx(coll), "crit": J{"and": []interface{}{J{"cmp": []interface{}{lo, hx(field), J{"lit": encValue(a)}}}, J{"cmp": []interface{}{hi, hx(field), J{"lit": encValue(b)}}}}}}
				r := im.Exec(opLine("findAll", J{"q": q}), -1, false)
				ids, ok := idsOf(r.Line)
				c.Evals++
				exp := []string{}
				for j, v := range atoms {
					ca, cb := clover.VerifCompare(v, a), clover.VerifCompare(v, b)
					if (ca > 0 || (ca == 0 && lo == "ge")) && (cb < 0 || (cb == 0 && hi == "le")) {
						exp = append(exp, hx(fixedId(j+1)))
					}
				}
				if len(exp) > 0 {
					c.NonTrivial(fmt.Sprint("window", be, ni, canonValue(a), canonValue(b), lo, hi))
				}
				sort.Strings(ids)
				sort.Strings(exp)
				if !ok || strings.Join(ids, ",") != strings.Join(exp, ",") {
					c.Violation(&Replay{Backend: be, Stream: "index-keys", Case: []interface{}{desc, opLine("findAll", J{"q": q})}, Expected: []string{fmt.Sprint(len(exp), " documents: ", strings.Join(exp, ","))},
						Actual: []string{fmt.Sprint(len(ids), " documents: ", strings.Join(ids, ","))}, Note: "a two-sided window through the index does not return exactly the documents whose value Compare places in it"})
					im.Destroy()
					return
				}
			}
			c.Count("index-keys:" + be)
		}
		im.Destroy()
	}
}

// c10Direct: what C10 itself says about a pair, where it says it without recursion: different type ranks, or two numbers.
func c10Direct(a, b interface{}) (int, bool) {
	rank := func(v interface{}) int {
		switch v.(type) {
		case nil:
			return 0
		case int64, uint64, float64:
			return 1
		case string:
			return 2
		case map[string]interface{}:
			return 3
		case []interface{}:
			return 4
		case bool:
			return 5
		case time.Time:
			return 6
		}
		return -1
	}
	ra, rb := rank(a), rank(b)
	if ra < 0 || rb < 0 {
		return 0, false
	}
	if ra != rb {
		return sign(ra - rb), true
	}
	if ra != 1 {
		return 0, false
	}
	rat := func(v interface{}) *big.Rat {
		switch x := v.(type) {
		case int64:
			return new(big.Rat).SetInt64(x)
		case uint64:
			return new(big.Rat).SetInt(new(big.Int).SetUint64(x))
		case float64:
			if math.IsInf(x, 0) || math.IsNaN(x) {
				return nil
			}
			return new(big.Rat).SetFloat64(x)
		}
		return nil
	}
	x, y := rat(a), rat(b)
	if x == nil || y == nil {
		fa, aok := a.(float64)
		fb, bok := b.(float64)
		switch {
		case aok && math.IsInf(fa, 1), bok && math.IsInf(fb, -1):
			if aok && bok && fa == fb {
				return 0, true
			}
			return 1, true
		case aok && math.IsInf(fa, -1), bok && math.IsInf(fb, 1):
			if aok && bok && fa == fb {
				return 0, true
			}
			return -1, true
		}
		return 0, false
	}
	return x.Cmp(y), true
}
