package main

import (
	"fmt"
	"strings"
)

func init() { streams["C04"] = streamC04 }

// c04Ops: one instance of every kind of operation, against collection "f" (and "g").
func c04Ops(h *HistGen) []J {
	g := h.G
	qAll := J{"coll": hx("f")}
	qCrit := J{"coll": hx("f"), "crit": J{"cmp": []interface{}{"ge", hx("x"), J{"lit": encValue(int64(1))}}}}
	qSortLim := J{"coll": hx("f"), "crit": J{"cmp": []interface{}{"ge", hx("x"), J{"lit": encValue(int64(0))}}},
		"sort": []interface{}{[]interface{}{hx("y"), -1}, []interface{}{hx("_id"), 1}}, "skip": 1, "limit": 2}
	qSortIdx := J{"coll": hx("f"), "sort": []interface{}{[]interface{}{hx("x"), -1}}}
	id1, id2 := fixedId(1), fixedId(2)
	ops := []J{
		opLine("insert", J{"coll": hx("f"), "docs": []interface{}{encDoc(h.Doc(fixedId(50))), encDoc(h.Doc(fixedId(51))), encDoc(h.Doc(""))}}),
		opLine("insert", J{"coll": hx("f"), "docs": []interface{}{encDoc(h.Doc(fixedId(52))), encDoc(h.Doc(id1))}}),          // duplicate at position 2
		opLine("insert", J{"coll": hx("f"), "docs": []interface{}{encDoc(h.Doc(fixedId(53))), encDoc(h.Doc("not-a-uuid"))}}), // malformed at position 2
		opLine("insert", J{"coll": hx("nope"), "docs": []interface{}{encDoc(h.Doc(fixedId(54)))}}),
		opLine("save", J{"coll": hx("f"), "doc": encDoc(h.Doc(id1))}),
		opLine("save", J{"coll": hx("f"), "doc": encDoc(h.Doc(""))}),
		opLine("replaceById", J{"coll": hx("f"), "id": hx(id2), "doc": encDoc(h.Doc(id2))}),
		opLine("replaceById", J{"coll": hx("f"), "id": hx(fixedId(77)), "doc": encDoc(h.Doc(fixedId(77)))}),
		opLine("updateById", J{"coll": hx("f"), "id": hx(id1), "upd": J{"setAll": []interface{}{[]interface{}{hx("x"), encValue(int64(7))}}}}),
		opLine("updateById", J{"coll": hx("f"), "id": hx(id1), "upd": J{"setAll": []interface{}{[]interface{}{hx("_id"), encValue("zz")}}}}),
		opLine("update", J{"q": qCrit, "upd": J{"setAll": []interface{}{[]interface{}{hx("x"), encValue(int64(9))}}}}),
		opLine("update", J{"q": qSortLim, "upd": J{"copy": []interface{}{hx("y"), hx("x")}}}),
		opLine("update", J{"q": qSortLim, "upd": J{"setAll": []interface{}{[]interface{}{hx("_expiresAt"), encValue(int64(3))}}}}), // produces an invalid document
		opLine("update", J{"q": qAll, "upd": J{"setAll": []interface{}{[]interface{}{hx("y"), encValue("v")}}}, "viaUpdate": 1}),
		opLine("delete", J{"q": qCrit}),
		opLine("delete", J{"q": qSortLim}),
		opLine("deleteById", J{"coll": hx("f"), "id": hx(id2)}),
		opLine("deleteById", J{"coll": hx("f"), "id": hx(fixedId(78))}),
		opLine("createCollection", J{"coll": hx("new")}),
		opLine("createCollection", J{"coll": hx("f")}),
		opLine("dropCollection", J{"coll": hx("f")}),
		opLine("dropCollection", J{"coll": hx("nope")}),
		opLine("createIndex", J{"coll": hx("f"), "field": hx("y")}),
		opLine("createIndex", J{"coll": hx("f"), "field": hx("x")}),
		opLine("dropIndex", J{"coll": hx("f"), "field": hx("x")}),
		opLine("dropIndex", J{"coll": hx("f"), "field": hx("zz")}),
		opLine("createCollectionByQuery", J{"coll": hx("new2"), "q": qCrit}),
		opLine("createCollectionByQuery", J{"coll": hx("g"), "q": qCrit}),
		opLine("import", J{"coll": hx("imp"), "raw": fmt.Sprintf("[{\"_id\":%q,\"a\":1},{\"_id\":%q,\"a\":\"s\"}]", fixedId(60), fixedId(61))}),
		opLine("import", J{"coll": hx("f"), "raw": fmt.Sprintf("[{\"_id\":%q,\"a\":1}]", fixedId(62))}),                                      // the collection exists (with documents and indexes)
		opLine("import", J{"coll": hx("g"), "raw": fmt.Sprintf("[{\"_id\":%q,\"a\":1}]", fixedId(63))}),                                      // the collection exists (empty)
		opLine("import", J{"coll": hx("imp2"), "raw": fmt.Sprintf("[{\"_id\":%q,\"a\":1},{\"_id\":%q,\"a\":2}]", fixedId(64), fixedId(64))}), // duplicate inside the file
		opLine("import", J{"coll": hx("imp3"), "raw": fmt.Sprintf("[{\"_id\":%q,\"a\":1},{\"_id\":\"nope\"}]", fixedId(65))}),                // malformed id at position 2
		opLine("import", J{"coll": hx("imp4"), "raw": "[{\"a\":"}),                                                                           // ill-formed file
		opLine("import", J{"coll": hx("imp5")}), // unreadable file
		opLine("export", J{"coll": hx("f"), "file": "e1"}),
		opLine("export", J{"coll": hx("nope"), "file": "e2"}),
		opLine("findAll", J{"q": qCrit}),
		opLine("findAll", J{"q": qSortIdx}),
		opLine("findAll", J{"q": qSortLim}),
		opLine("count", J{"q": qAll}),
		opLine("count", J{"q": qCrit}),
		opLine("exists", J{"q": qCrit}),
		opLine("findFirst", J{"q": qSortIdx}),
		opLine("forEach", J{"q": qCrit, "stopAfter": 1}),
		opLine("findById", J{"coll": hx("f"), "id": hx(id1)}),
		opLine("hasCollection", J{"coll": hx("f")}),
		opLine("listCollections", J{}),
		opLine("hasIndex", J{"coll": hx("f"), "field": hx("x")}),
		opLine("listIndexes", J{"coll": hx("f")}),
	}
	_ = g
	return ops
}

func c04States(h *HistGen, thorough bool) [][]J {
	mkDocs := func(n int) []interface{} {
		docs := []interface{}{}
		for i := 1; i <= n; i++ {
			d := h.Doc(fixedId(i))
			d["x"] = int64(i % 3)
			d["y"] = fmt.Sprintf("s%d", i%2)
			docs = append(docs, encDoc(d))
		}
		return docs
	}
	base := func(n int, idx ...string) []J {
		ls := []J{opLine("createCollection", J{"coll": hx("f")}), opLine("createCollection", J{"coll": hx("g")})}
		if n > 0 {
			ls = append(ls, opLine("insert", J{"coll": hx("f"), "docs": mkDocs(n)}))
		}
		for _, f := range idx {
			ls = append(ls, opLine("createIndex", J{"coll": hx("f"), "field": hx(f)}))
		}
		return ls
	}
	states := [][]J{base(0), base(3), base(4, "x"), base(4, "x", "y")}
	if thorough {
		states = append(states, base(1), base(2, "y"), base(12, "x"), base(12, "x", "y", "n.a"), base(30), base(30, "x"), base(7, "_id"), base(7, "xy", "x"))
	}
	return states
}

// bigBatchNoTrace: an insert batch of tens of megabytes whose last document is a duplicate must fail as
// a whole on every backend (a backend that cannot hold the batch in one transaction has to refuse
// it, not commit part of it).
func bigBatchNoTrace(c *Ctx, be string) bool {
	im := NewImpl(be, c.Scratch)
	defer im.Destroy()
	im.Exec(opLine("createCollection", J{"coll": hx("f")}), -1, false)
	first := map[string]interface{}{"_id": fixedId(1), "x": int64(1)}
	im.Exec(opLine("insert", J{"coll": hx("f"), "docs": []interface{}{encDoc(first)}}), -1, false)
	before := im.Dump()
	pad := strings.Repeat("p", 512*1024)
	docs := []interface{}{}
	for i := 0; i < 40; i++ {
		docs = append(docs, encDoc(map[string]interface{}{"_id": fixedId(100 + i), "pad": pad}))
	}
	docs = append(docs, encDoc(map[string]interface{}{"_id": fixedId(1), "x": int64(2)}))
	ln := opLine("insert", J{"coll": hx("f"), "docs": docs})
	er := im.Exec(ln, -1, false)
	c.Evals++
	c.Count("bigbatch:" + be)
	if !strings.HasPrefix(er.Line, "err") {
		c.Violation(&Replay{Backend: be, Stream: "bigbatch", Case: []interface{}{J{"note": "41 documents of 512 KiB, the last one a duplicate _id"}}, Actual: []string{er.Line}, Note: "a batch containing a duplicate _id was accepted"})
		return false
	}
	if be != "badger-mem" {
		im.Reopen()
	}
	if after := im.Dump(); after != before {
		c.Violation(&Replay{Backend: be, Stream: "bigbatch", Case: []interface{}{J{"note": "41 documents of 512 KiB, the last one a duplicate _id"}}, Expected: []string{fmt.Sprint(len(before))}, Actual: []string{fmt.Sprint(len(after))},
			Note: "Insert returned " + er.Line + " but part of the batch is stored"})
		return false
	}
	return true
}

func streamC04(c *Ctx) {
	c.Rule = "random histories with a store fault at a random call of every fourth operation (the history goes on: results, raw dumps and the invariant oracle after every operation); fault enumeration: every kind of operation (valid and invalid inputs: duplicate/malformed _id at a later batch position, update producing an invalid document, missing/existing collection, index, document) x a pool of states x every position k of a failing store call (begin, get, set, delete, cursor item read, commit) among the calls the operation makes; " +
		"per faulted run: error reported (never success), raw dump unchanged, follow-up operation succeeds, outcome and fired flag equal to the Lean model's; fault-free store-call traces compared call by call. non-trivial = distinct (operation, state, k) where the fault fired"
	dr := StartDriver(c.DriverBin)
	defer dr.Close()
	dm := Domain{IntsWithin2p53: true, NoNegTimes: true, JSONSafe: true} // JSONSafe: the export operation writes JSON (invalid UTF-8 is outside C19's domain)
	backends := []string{"bbolt"}
	if !c.Quick() {
		backends = backendsAll
	}
	for _, be := range backendsAll {
		if !bigBatchNoTrace(c, be) {
			return
		}
		if !bigFailingImports(c, be) {
			return
		}
	}
	// a broken correspondence does not end the run: the search goes on with the property's own oracle
	// (error reported, content unchanged, handle usable) on the implementation alone
	oracleOnly := false
	var pending *Replay
	pendingName := ""
	defer func() {
		if pending != nil && c.Violations == 0 {
			c.Unexplained(pending, pendingName)
		}
	}()
	// random histories in which every fourth operation is hit by a store fault at a random call: the failed
	// operation leaves no trace - also none that only LATER operations on the same handle would reveal
	for _, be := range backendsAll {
		im := NewImpl(be, c.Scratch)
		for hN := 0; hN < c.N(40, 800); hN++ {
			g := NewGen(c.Rng, dm)
			h := NewHistGen(g, 2, 2)
			lines := h.History(HistCfg{Ops: 20, QueriesPer: 0, Indexes: true, Dumps: true, Malformed: true, NoFresh: true, Faults: true})
			o := runHistory(dr, im, lines, HistOpts{})
			recordHistory(c, lines, &o, be)
			c.Count("faulted-history:" + be)
			if o.Index >= 0 {
				if reportHistoryProblem(c, dr, im, lines, &o, be, HistOpts{}, "faulted-history") {
					im.Destroy()
					return
				}
			}
		}
		im.Destroy()
	}
	for _, be := range backends {
		im := NewImpl(be, c.Scratch)
		g := NewGen(c.Rng, dm)
		h := NewHistGen(g, 1, 2)
		for si, setup := range c04States(h, !c.Quick()) {
			for _, op := range c04Ops(h) {
				// (re)build the state
				im.Reset()
				dr.Ask(J{"k": "reset"})
				for _, ln := range setup {
					er := im.Exec(ln, -1, false)
					send := cloneJ(ln)
					if len(er.Fresh) > 0 {
						send["fresh"] = toIfaceStr(er.Fresh)
					}
					dr.Ask(send)
				}
				before := im.Dump()
				for k := 0; k < 4000; k++ {
					ln := cloneJ(op)
					ln["fault"] = k
					er := im.Exec(ln, k, true)
					send := cloneJ(ln)
					prepImport(send, ln, im)
					send["trace"] = 1
					if len(er.Fresh) > 0 {
						send["fresh"] = toIfaceStr(er.Fresh)
					}
					ans, kv := splitTabs(dr.Ask(send))
					mFired := strings.HasSuffix(ans, " fired")
					ans = strings.TrimSuffix(ans, " fired")
					c.Evals++
					c.Count("op:" + op["op"].(string))
					caseLines := append(append([]J{}, setup...), ln)
					if er.Fired {
						c.NonTrivial(fmt.Sprintf("%s|%d|%v|%d", be, si, op, k))
						c.Count("fault-at:" + strings.SplitN(er.Trace[len(er.Trace)-1-boolInt(er.Trace[len(er.Trace)-1] == "rollback")], ":", 2)[0])
						after := im.Dump()
						// the property itself, on the implementation
						if !strings.HasPrefix(er.Line, "err") {
							c.Violation(&Replay{Backend: be, Stream: "fault", Case: toIfaces(caseLines), Expected: []string{"an error"}, Actual: []string{er.Line},
								Note: fmt.Sprintf("a store fault injected at call %d (%s) was swallowed into a success", k, strings.Join(er.Trace, " "))})
							im.Destroy()
							return
						}
						if after != before {
							c.Violation(&Replay{Backend: be, Stream: "fault", Case: toIfaces(caseLines), Expected: []string{before}, Actual: []string{after},
								Note: fmt.Sprintf("the operation failed (fault at call %d) but the database content changed", k)})
							im.Destroy()
							return
						}
						// no wedge: a later write goes through
						fu := im.Exec(opLine("createCollection", J{"coll": hx("followup")}), -1, false)
						fd := im.Exec(opLine("dropCollection", J{"coll": hx("followup")}), -1, false)
						if strings.HasPrefix(fu.Line, "timeout") || strings.HasPrefix(fd.Line, "timeout") {
							c.Violation(&Replay{Backend: be, Stream: "fault", Case: toIfaces(caseLines), Expected: []string{"ok unit"}, Actual: []string{fu.Line, fd.Line},
								Note: fmt.Sprintf("after a store fault at call %d the handle is wedged: a later write never returns", k)})
							return
						}
						if fu.Line != "ok unit" || fd.Line != "ok unit" {
							c.Violation(&Replay{Backend: be, Stream: "fault", Case: toIfaces(caseLines), Expected: []string{"ok unit"}, Actual: []string{fu.Line, fd.Line},
								Note: "after a failed operation the handle refuses a later write"})
							im.Destroy()
							return
						}
					}
					if !oracleOnly && (!sameAnswer(ln, er.Line, ans, parseAll(kv["#all"])) || er.Fired != mFired) {
						pending = &Replay{Backend: be, Stream: "fault", Case: toIfaces(caseLines), Expected: []string{ans, fmt.Sprint("fired=", mFired), kv["trace"]},
							Actual: []string{er.Line, fmt.Sprint("fired=", er.Fired), strings.Join(er.Trace, " ")}, Note: fmt.Sprintf("fault at call %d: implementation and model disagree", k)}
						pendingName = "correspondence K-C04/fault"
						oracleOnly = true
					}
					if !er.Fired {
						// fault-free run: the traces must agree call by call
						c.ImplTraces++
						// (the key of a cursor read is masked: the entry at which a prefix scan stops - the first one past the
						// prefix - depends on whether the backend's cursor sees the transaction's own writes, which for bbolt
						// depends on the page layout; every get/set/delete key and the order of all calls are compared exactly)
						if !oracleOnly && itemKeyRe.ReplaceAllString(strings.Join(er.Trace, " "), "item:*") != itemKeyRe.ReplaceAllString(kv["trace"], "item:*") {
							pending = &Replay{Backend: be, Stream: "fault", Case: toIfaces(caseLines), Expected: []string{kv["trace"]}, Actual: []string{strings.Join(er.Trace, " ")},
								Note: "fault-free store-call traces differ"}
							pendingName = "correspondence K-C04/trace"
							oracleOnly = true
						}
						if strings.HasPrefix(er.Line, "err") && im.Dump() != before {
							c.Violation(&Replay{Backend: be, Stream: "fault", Case: toIfaces(caseLines), Expected: []string{before}, Actual: []string{im.Dump()},
								Note: "the operation returned an error (invalid input) but the database content changed"})
							im.Destroy()
							return
						}
						if len(c.Samples) < 4 {
							c.Sample(J{"op": op, "state": si, "calls": len(er.Trace), "trace": strings.Join(er.Trace, " ")})
						}
						break
					}
				}
			}
		}
		im.Destroy()
	}
}

func boolInt(b bool) int {
	if b {
		return 1
	}
	return 0
}

func toIfaceStr(a []string) []interface{} {
	out := []interface{}{}
	for _, s := range a {
		out = append(out, s)
	}
	return out
}

// sameAnswer: equal result lines; for a SORTED query whose answer has ties the two sides may order the tied documents
// differently (sort.Slice is not stable, the model's merge sort is): document lists are then compared as multisets, and a
// single document (FindFirst) by its tie class in the specification's ordered sequence
func sameAnswer(op J, a, b string, all []idClass) bool {
	if lineEq(a, b) {
		return true
	}
	q, hasQ := qOf(op)
	if !hasQ || !qSorted(q) {
		return false
	}
	if da, oka := splitDocs(a); oka {
		db, okb := splitDocs(b)
		return okb && sameMultiset(da, db)
	}
	if strings.HasPrefix(a, "ok doc {") && strings.HasPrefix(b, "ok doc {") {
		cls := map[string]int{}
		for _, ic := range all {
			cls[ic.Id] = ic.Cls
		}
		ca, oka := cls[topId(strings.TrimPrefix(a, "ok doc "))]
		cb, okb := cls[topId(strings.TrimPrefix(b, "ok doc "))]
		return oka && okb && ca == cb
	}
	return false
}
