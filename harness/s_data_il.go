package main

// dataInterleavings: a write on documents with ANOTHER client's write on the same document (or the same _id) committed
// between the operation's call and the opening of its write transaction - whatever the operation read before opening
// its transaction (a duplicate check, the old version of the document whose index entries it will remove) is stale by
// then.  Results, raw dump (index entries included), counts and index-ordered reads must be those of the two operations
// one after the other, the interloper first.
func dataInterleavings(c *Ctx, dr *Driver, be string) bool {
	im := NewImpl(be, c.Scratch)
	defer im.Destroy()
	r, f, g := hx("r"), hx("f"), hx("g")
	id := func(i int) string { return fixedId(650000 + i) }
	doc := func(i int, fv, gv int64) []interface{} {
		return encDoc(map[string]interface{}{"_id": id(i), "f": fv, "g": gv})
	}
	pre := []J{opLine("createCollection", J{"coll": r}), opLine("createIndex", J{"coll": r, "field": f}), opLine("createIndex", J{"coll": r, "field": g}),
		opLine("insert", J{"coll": r, "docs": []interface{}{doc(1, 1, 9), doc(2, 2, 8), doc(3, 3, 7)}})}
	set := func(field string, v int64) J { return J{"setAll": []interface{}{[]interface{}{field, encValue(v)}}} }
	type cell struct{ op, il J }
	cells := []cell{
		{opLine("insert", J{"coll": r, "docs": []interface{}{doc(7, 70, 0)}}), opLine("insert", J{"coll": r, "docs": []interface{}{doc(7, 71, 1)}})},
		{opLine("insert", J{"coll": r, "docs": []interface{}{doc(7, 70, 0), doc(8, 80, 0)}}), opLine("insert", J{"coll": r, "docs": []interface{}{doc(8, 81, 1)}})},
		{opLine("updateById", J{"coll": r, "id": hx(id(1)), "upd": set(f, 10)}), opLine("updateById", J{"coll": r, "id": hx(id(1)), "upd": set(f, 20)})},
		{opLine("updateById", J{"coll": r, "id": hx(id(1)), "upd": set(g, 10)}), opLine("updateById", J{"coll": r, "id": hx(id(1)), "upd": set(f, 20)})},
		{opLine("updateById", J{"coll": r, "id": hx(id(1)), "upd": set(f, 10)}), opLine("deleteById", J{"coll": r, "id": hx(id(1))})},
		{opLine("deleteById", J{"coll": r, "id": hx(id(1))}), opLine("updateById", J{"coll": r, "id": hx(id(1)), "upd": set(f, 20)})},
		{opLine("deleteById", J{"coll": r, "id": hx(id(1))}), opLine("deleteById", J{"coll": r, "id": hx(id(1))})},
		{opLine("replaceById", J{"coll": r, "id": hx(id(1)), "doc": doc(1, 30, 30)}), opLine("updateById", J{"coll": r, "id": hx(id(1)), "upd": set(f, 20)})},
		{opLine("save", J{"coll": r, "doc": doc(1, 40, 40)}), opLine("deleteById", J{"coll": r, "id": hx(id(1))})},
		{opLine("save", J{"coll": r, "doc": doc(7, 40, 40)}), opLine("insert", J{"coll": r, "docs": []interface{}{doc(7, 71, 1)}})},
		{opLine("save", J{"coll": r, "doc": doc(1, 40, 40)}), opLine("updateById", J{"coll": r, "id": hx(id(1)), "upd": set(f, 20)})},
		{opLine("update", J{"q": J{"coll": r, "crit": J{"cmp": []interface{}{"ge", f, J{"lit": encValue(int64(2))}}}}, "upd": set(g, 5)}), opLine("updateById", J{"coll": r, "id": hx(id(1)), "upd": set(f, 20)})},
		{opLine("delete", J{"q": J{"coll": r, "crit": J{"cmp": []interface{}{"ge", f, J{"lit": encValue(int64(2))}}}}}), opLine("insert", J{"coll": r, "docs": []interface{}{doc(7, 71, 1)}})},
	}
	for _, cl := range cells {
		lines := append([]J{}, pre...)
		op := cloneJ(cl.op)
		op["interloper"] = cl.il
		lines = append(lines, J{"k": "dump"}, op, J{"k": "dump"}, opLine("count", J{"q": J{"coll": r}}),
			opLine("findAll", J{"q": J{"coll": r, "sort": []interface{}{[]interface{}{f, 1}, []interface{}{hx("_id"), 1}}}}),
			opLine("findAll", J{"q": J{"coll": r, "crit": J{"cmp": []interface{}{"ge", g, J{"lit": encValue(int64(0))}}}, "sort": []interface{}{[]interface{}{g, -1}, []interface{}{hx("_id"), 1}}}}),
			opLine("findById", J{"coll": r, "id": hx(id(1))}), opLine("findById", J{"coll": r, "id": hx(id(7))}))
		o := runHistory(dr, im, lines, HistOpts{})
		recordHistory(c, lines, &o, be)
		c.Count("data-interleaving")
		if o.Index >= 0 {
			if reportHistoryProblem(c, dr, im, lines, &o, be, HistOpts{}, "data-interleaving") {
				return false
			}
		}
	}
	return true
}
