package main

import (
	"encoding/hex"
	"errors"
	"sync"
	"sync/atomic"
	"time"

	"github.com/ostafen/clover/v2/store"
)

// XStore wraps a store.Store: it records the fallible store calls of the running operation
// (begin, get, set, delete, cursor item read, commit), can make the k-th of them fail, counts
// transactions per operation and mutations made while a cursor is open.
type XStore struct {
	inner store.Store

	mu             sync.Mutex
	tracing        bool
	trace          []string
	tick           int
	faultAt        int // -1: none
	fired          bool
	txBegun        int
	mutUnderCursor int
	perturb        func()
	// onWriteBegin, when set, runs once immediately before the next write transaction is opened (an interloper: another
	// client's operation that commits between a caller's preparation and its transaction)
	onWriteBegin func()
	closeCalls   int64
	closeDelay   time.Duration
}

var errInjected = errors.New("injected store fault")

func NewXStore(inner store.Store) *XStore { return &XStore{inner: inner, faultAt: -1} }

// StartOp resets the per-operation counters.
func (s *XStore) StartOp(faultAt int, tracing bool) {
	s.mu.Lock()
	defer s.mu.Unlock()
	s.trace = nil
	s.tick = 0
	s.faultAt = faultAt
	s.fired = false
	s.txBegun = 0
	s.mutUnderCursor = 0
	s.tracing = tracing
}

// step records one fallible call and tells whether it must fail.
func (s *XStore) step(label string) bool {
	if s.perturb != nil {
		s.perturb()
	}
	s.mu.Lock()
	defer s.mu.Unlock()
	fail := s.faultAt >= 0 && s.tick == s.faultAt
	s.tick++
	if s.tracing {
		s.trace = append(s.trace, label)
	}
	if fail {
		s.fired = true
	}
	return fail
}

func (s *XStore) note(label string) {
	s.mu.Lock()
	defer s.mu.Unlock()
	if s.tracing {
		s.trace = append(s.trace, label)
	}
}

func (s *XStore) Begin(update bool) (store.Tx, error) {
	lbl := "begin(r)"
	if update {
		lbl = "begin(w)"
	}
	s.mu.Lock()
	s.txBegun++
	s.mu.Unlock()
	if s.step(lbl) {
		return nil, errInjected
	}
	if update {
		s.mu.Lock()
		h := s.onWriteBegin
		s.onWriteBegin = nil
		s.mu.Unlock()
		if h != nil {
			h()
		}
	}
	tx, err := s.inner.Begin(update)
	if err != nil {
		return nil, err
	}
	return &xTx{s: s, inner: tx}, nil
}

// Close counts the calls that reach the store and, when closeDelay is set, holds each one open for that long (so that
// overlapping DB.Close calls really overlap).
func (s *XStore) Close() error {
	atomic.AddInt64(&s.closeCalls, 1)
	if s.closeDelay > 0 {
		time.Sleep(s.closeDelay)
	}
	return s.inner.Close()
}

type xTx struct {
	s        *XStore
	inner    store.Tx
	done     bool
	openCurs int
}

func (t *xTx) Set(key, value []byte) error {
	if t.openCurs > 0 {
		t.s.mu.Lock()
		t.s.mutUnderCursor++
		t.s.mu.Unlock()
	}
	if t.s.step("set:" + hex.EncodeToString(key)) {
		return errInjected
	}
	return t.inner.Set(key, value)
}

func (t *xTx) Get(key []byte) ([]byte, error) {
	if t.s.step("get:" + hex.EncodeToString(key)) {
		return nil, errInjected
	}
	return t.inner.Get(key)
}

func (t *xTx) Delete(key []byte) error {
	if t.openCurs > 0 {
		t.s.mu.Lock()
		t.s.mutUnderCursor++
		t.s.mu.Unlock()
	}
	if t.s.step("del:" + hex.EncodeToString(key)) {
		return errInjected
	}
	return t.inner.Delete(key)
}

func (t *xTx) Cursor(forward bool) (store.Cursor, error) {
	c, err := t.inner.Cursor(forward)
	if err != nil {
		return nil, err
	}
	t.openCurs++
	return &xCursor{t: t, inner: c}, nil
}

func (t *xTx) Commit() error {
	if t.s.step("commit") {
		return errInjected
	}
	err := t.inner.Commit()
	if err == nil {
		t.done = true
	}
	return err
}

func (t *xTx) Rollback() error {
	if !t.done {
		t.done = true
		t.s.note("rollback")
	}
	return t.inner.Rollback()
}

type xCursor struct {
	t      *xTx
	inner  store.Cursor
	closed bool
}

func (c *xCursor) Seek(key []byte) error { return c.inner.Seek(key) }
func (c *xCursor) Next()                 { c.inner.Next() }
func (c *xCursor) Valid() bool           { return c.inner.Valid() }

func (c *xCursor) Item() (store.Item, error) {
	// the key is only known after reading; peek first so that the label carries it
	it, err := c.inner.Item()
	lbl := "item:"
	if err == nil {
		lbl += hex.EncodeToString(it.Key)
	}
	if c.t.s.step(lbl) {
		return store.Item{}, errInjected
	}
	return it, err
}

func (c *xCursor) Close() error {
	if !c.closed {
		c.closed = true
		c.t.openCurs--
	}
	return c.inner.Close()
}
