// translate: a small Go -> Lean translator for the decision functions of clover that are pure control flow over
// booleans, integers, `interface{}` values compared with nil / internal.Compare, and flat structs.  It reads the CURRENT
// source of the functions listed in `targets` and writes lean/Clover/Generated/Translated.lean: one Lean definition per
// function, statement by statement (`Id.run do` with `let mut`, `if`/`else if`, early `return`).  Theorems in
// lean/Clover/Proofs/Translated.lean prove each generated definition equal to the hand-written model's definition, so a
// change of the source that changes what one of these functions computes breaks a proof (and a change that does not,
// does not).  What the translation assumes (trusted, stated in DESIGN.md): Go `int`/`int64`/`uint64` become unbounded
// `Int` (sound for functions that only compare, subtract small ranks, or count documents); `interface{}` becomes the
// model's `Value` with `nil` = `Value.null`; `internal.Compare` is the model's `goCmp`; a call the translator does not
// know becomes an opaque outcome constructor named after the callee.  Anything outside the subset is a translation
// error (exit 2): the function then has to be modelled by hand again.
package main

import (
	"flag"
	"fmt"
	"go/ast"
	"go/parser"
	"go/token"
	"os"
	"path/filepath"
	"sort"
	"strings"
)

type target struct {
	dir, recv, name string
	lean            string            // name of the generated definition
	params          map[string]string // Lean types of receiver / parameters by Go name ("" = drop the parameter)
	ret             string            // Lean result type
	outcome         bool              // result is an Outcome (error-returning callbacks): nil -> .cont, ErrStopIteration -> .stop, a call -> .call
	state           string            // when non-empty: the receiver is mutated; the definition returns (receiver, result)
	optional        bool              // the Go result is a pointer: nil -> none, a value -> some
	mayPanic        bool              // the body has an explicit panic: results are `some v`, the panic is `none`
	critResult      bool              // the result is a query.Criteria built from literals: a GCrit
}

var targets = []target{
	{dir: "index", recv: "Range", name: "IsEmpty", lean: "Range_IsEmpty", params: map[string]string{"r": "GRange"}, ret: "Bool"},
	{dir: "index", recv: "Range", name: "IsNil", lean: "Range_IsNil", params: map[string]string{"r": "GRange"}, ret: "Bool"},
	{dir: "index", recv: "Range", name: "Intersect", lean: "Range_Intersect", params: map[string]string{"r": "GRange", "r2": "GRange"}, ret: "GRange"},
	{dir: "internal", name: "compareInt64", lean: "compareInt64", params: map[string]string{"v1": "Int", "v2": "Int"}, ret: "Int"},
	{dir: "internal", name: "compareUint64", lean: "compareUint64", params: map[string]string{"v1": "Int", "v2": "Int"}, ret: "Int"},
	{dir: "util", name: "BoolToInt", lean: "BoolToInt", params: map[string]string{"v": "Bool"}, ret: "Int"},
	{dir: ".", name: "unaryCriteriaToRange", lean: "unaryCriteriaToRange", params: map[string]string{"c": "GUnary"}, ret: "Option GRange", optional: true},
	{dir: "query", recv: "UnaryCriteria", name: "compare", lean: "UnaryCriteria_compare", params: map[string]string{"c": "GUnary", "doc": "Doc"}, ret: "Option Bool", mayPanic: true},
	{dir: "query", recv: "UnaryCriteria", name: "eq", lean: "UnaryCriteria_eq", params: map[string]string{"c": "GUnary", "doc": "Doc"}, ret: "Bool"},
	{dir: "query", recv: "Query", name: "copy", lean: "Query_copy", params: map[string]string{"q": "GQuery"}, ret: "GQuery"},
	{dir: "query", recv: "Query", name: "Skip", lean: "Query_Skip", params: map[string]string{"q": "GQuery", "n": "Int"}, ret: "GQuery"},
	{dir: "query", recv: "Query", name: "Limit", lean: "Query_Limit", params: map[string]string{"q": "GQuery", "n": "Int"}, ret: "GQuery"},
	{dir: "query", recv: "BinaryCriteria", name: "Satisfy", lean: "BinaryCriteria_Satisfy", params: map[string]string{"c": "GBinary", "doc": ""}, ret: "Bool"},
	{dir: "query", recv: "NotCriteria", name: "Satisfy", lean: "NotCriteria_Satisfy", params: map[string]string{"c": "GNot", "doc": ""}, ret: "Bool"},
	{dir: "query", recv: "UnaryCriteria", name: "exist", lean: "UnaryCriteria_exist", params: map[string]string{"c": "GUnary", "doc": "Doc"}, ret: "Bool"},
	{dir: ".", recv: "NotFlattenVisitor", name: "removeNotCriteria", lean: "removeNotCriteria", params: map[string]string{"v": "", "c": "GNotU"}, ret: "GCrit", critResult: true},
	{dir: ".", recv: "skipLimitNode", name: "Callback", lean: "skipLimitNode_Callback", params: map[string]string{"nd": "GSkipLimit", "doc": ""}, ret: "Outcome", outcome: true, state: "nd"},
}

var structs = map[string][][2]string{
	"GRange":     {{"Start", "Value"}, {"End", "Value"}, {"StartIncluded", "Bool"}, {"EndIncluded", "Bool"}},
	"GSkipLimit": {{"skipped", "Int"}, {"consumed", "Int"}, {"skip", "Int"}, {"limit", "Int"}},
	// query.UnaryCriteria: the operator as the NAME of its constant, the operand as the model's Operand (a literal or a field reference)
	"GUnary": {{"OpType", "String"}, {"Field", "Bytes"}, {"Value", "Operand"}},
	// query.BinaryCriteria / NotCriteria: a sub-criterion is represented by what its Satisfy answers on the document at hand
	"GBinary": {{"OpType", "String"}, {"C1", "Bool"}, {"C2", "Bool"}},
	"GNot":    {{"C", "Bool"}},
	// a NotCriteria whose inner criterion is a UnaryCriteria (what removeNotCriteria is called on)
	"GNotU": {{"C", "GUnary"}},
	// query.Query
	"GQuery": {{"collection", "Bytes"}, {"criteria", "Option Crit"}, {"limit", "Int"}, {"skip", "Int"}, {"sortOpts", "List (Bytes × Int)"}},
}

// named constants of the query package (an `int` enumeration in Go): translated to their names
var namedConsts = map[string]bool{"query.ExistsOp": true, "query.EqOp": true, "query.NeqOp": true, "query.GtOp": true, "query.GtEqOp": true,
	"query.LtOp": true, "query.LtEqOp": true, "query.LikeOp": true, "query.InOp": true, "query.ContainsOp": true, "query.FunctionOp": true,
	"query.LogicalAnd": true, "query.LogicalOr": true}

// calls with a model counterpart, by the Lean type of their argument
var knownCalls = map[string]string{"isFieldReference": "Operand.isRef", "getFieldOrValue": "deref", "doc.Get": "Doc.get doc", "doc.Has": "Doc.has doc", "q.copy": "Query_copy q"}
var knownCallTypes = map[string]string{"isFieldReference": "Bool", "getFieldOrValue": "Value", "doc.Get": "Value", "doc.Has": "Bool", "q.copy": "GQuery"}

// Go composite literal type -> generated structure
var literalTypes = map[string]string{"Range": "GRange", "index.Range": "GRange", "Query": "GQuery"}

type tr struct {
	t      target
	types  map[string]string // Lean type of every variable in scope
	muts   map[string]bool
	failed string
}

func (x *tr) fail(format string, a ...interface{}) string {
	if x.failed == "" {
		x.failed = fmt.Sprintf(format, a...)
	}
	return "sorry_untranslatable"
}

func (x *tr) typeOf(e ast.Expr) string {
	switch v := e.(type) {
	case *ast.Ident:
		if v.Name == "nil" {
			return "Value"
		}
		if v.Name == "true" || v.Name == "false" {
			return "Bool"
		}
		if x.t.dir == "query" && namedConsts["query."+v.Name] {
			return "String"
		}
		return x.types[v.Name]
	case *ast.SelectorExpr:
		if id, ok := v.X.(*ast.Ident); ok {
			if namedConsts[id.Name+"."+v.Sel.Name] {
				return "String"
			}
			if st, ok := x.types[id.Name]; ok {
				for _, f := range structs[st] {
					if f[0] == v.Sel.Name {
						return f[1]
					}
				}
			}
		}
	case *ast.BasicLit:
		return "Int"
	case *ast.ParenExpr:
		return x.typeOf(v.X)
	case *ast.TypeAssertExpr:
		return x.typeOf(v.X)
	case *ast.CallExpr:
		if sub, ok := subSatisfy(v); ok {
			return x.typeOf(sub)
		}
		if callee(v) == "internal.Compare" {
			return "Int"
		}
		if t, ok := knownCallTypes[callee(v)]; ok {
			return t
		}
	case *ast.UnaryExpr:
		if v.Op == token.NOT {
			return "Bool"
		}
		return x.typeOf(v.X)
	case *ast.BinaryExpr:
		switch v.Op {
		case token.ADD, token.SUB:
			return "Int"
		}
		return "Bool"
	}
	return ""
}

// subSatisfy recognises `<expr>.Satisfy(doc)` and returns <expr>.
func subSatisfy(c *ast.CallExpr) (ast.Expr, bool) {
	if f, ok := c.Fun.(*ast.SelectorExpr); ok && f.Sel.Name == "Satisfy" && len(c.Args) == 1 {
		if _, isSel := f.X.(*ast.SelectorExpr); isSel {
			return f.X, true
		}
	}
	return nil, false
}

func callee(c *ast.CallExpr) string {
	switch f := c.Fun.(type) {
	case *ast.Ident:
		return f.Name
	case *ast.SelectorExpr:
		if id, ok := f.X.(*ast.Ident); ok {
			return id.Name + "." + f.Sel.Name
		}
	}
	return "?"
}

func (x *tr) expr(e ast.Expr) string {
	switch v := e.(type) {
	case *ast.ParenExpr:
		return "(" + x.expr(v.X) + ")"
	case *ast.Ident:
		switch v.Name {
		case "nil":
			return "Value.null"
		case "true", "false":
			return v.Name
		}
		if x.t.dir == "query" && namedConsts["query."+v.Name] {
			return "\"" + v.Name + "\""
		}
		if _, ok := x.types[v.Name]; !ok {
			return x.fail("unknown identifier %s", v.Name)
		}
		return v.Name
	case *ast.BasicLit:
		if v.Kind != token.INT {
			return x.fail("literal %s", v.Value)
		}
		return "(" + v.Value + " : Int)"
	case *ast.SelectorExpr:
		if id, ok := v.X.(*ast.Ident); ok {
			if namedConsts[id.Name+"."+v.Sel.Name] {
				return "\"" + v.Sel.Name + "\""
			}
			if _, ok := x.types[id.Name]; ok {
				return id.Name + "." + v.Sel.Name
			}
		}
		return x.fail("selector %v", v.Sel.Name)
	case *ast.UnaryExpr:
		switch v.Op {
		case token.NOT:
			return "(!" + x.expr(v.X) + ")"
		case token.SUB:
			return "(-" + x.expr(v.X) + ")"
		case token.AND:
			return x.expr(v.X) // &T{...}: the structure value
		}
		return x.fail("unary %s", v.Op)
	case *ast.BinaryExpr:
		l, r := x.expr(v.X), x.expr(v.Y)
		isNil := func(e ast.Expr) bool { id, ok := e.(*ast.Ident); return ok && id.Name == "nil" }
		switch v.Op {
		case token.LAND:
			return "(" + l + " && " + r + ")"
		case token.LOR:
			return "(" + l + " || " + r + ")"
		case token.EQL, token.NEQ:
			var s string
			switch {
			case isNil(v.Y) && x.typeOf(v.X) == "Err":
				s = "(!" + l + ")" // err == nil
			case isNil(v.Y) && x.typeOf(v.X) == "Operand":
				s = "Operand.isNilLit " + l
			case x.typeOf(v.X) == "String" || x.typeOf(v.Y) == "String":
				s = "(" + l + " == " + r + ")"
			case isNil(v.Y):
				s = "Value.isNull " + l
			case isNil(v.X):
				s = "Value.isNull " + r
			case x.typeOf(v.X) == "Int" || x.typeOf(v.Y) == "Int":
				s = "decide (" + l + " = " + r + ")"
			case x.typeOf(v.X) == "Bool":
				s = "(" + l + " == " + r + ")"
			default:
				return x.fail("== on type %q", x.typeOf(v.X))
			}
			if v.Op == token.NEQ {
				return "(!(" + s + "))"
			}
			return "(" + s + ")"
		case token.LSS, token.GTR, token.LEQ, token.GEQ:
			op := map[token.Token]string{token.LSS: "<", token.GTR: ">", token.LEQ: "≤", token.GEQ: "≥"}[v.Op]
			return "decide (" + l + " " + op + " " + r + ")"
		case token.ADD:
			return "(" + l + " + " + r + ")"
		case token.SUB:
			return "(" + l + " - " + r + ")"
		}
		return x.fail("binary %s", v.Op)
	case *ast.CallExpr:
		if sub, ok := subSatisfy(v); ok && x.typeOf(sub) == "Bool" {
			return x.expr(sub) // c.C1.Satisfy(doc): the sub-criterion's answer
		}
		if callee(v) == "internal.Compare" && len(v.Args) == 2 {
			return "(goCmp " + x.expr(v.Args[0]) + " " + x.expr(v.Args[1]) + ")"
		}
		if fn, ok := knownCalls[callee(v)]; ok {
			args := []string{}
			for _, a := range v.Args {
				args = append(args, x.expr(a))
			}
			return "(" + fn + " " + strings.Join(args, " ") + ")"
		}
		return x.fail("call %s in an expression", callee(v))
	case *ast.TypeAssertExpr:
		// x.(*T): the parameter types fix which concrete type the value has (the caller's dispatch); identity
		return x.expr(v.X)
	case *ast.CompositeLit:
		tn := ""
		switch t := v.Type.(type) {
		case *ast.Ident:
			tn = t.Name
		case *ast.SelectorExpr:
			tn = t.X.(*ast.Ident).Name + "." + t.Sel.Name
		}
		if x.t.critResult && (tn == "query.BinaryCriteria" || tn == "query.UnaryCriteria") {
			got := map[string]string{}
			for _, el := range v.Elts {
				kv, ok := el.(*ast.KeyValueExpr)
				if !ok {
					return x.fail("positional composite literal")
				}
				got[kv.Key.(*ast.Ident).Name] = x.expr(kv.Value)
			}
			if tn == "query.BinaryCriteria" {
				if len(got) != 3 {
					return x.fail("BinaryCriteria literal with %d fields", len(got))
				}
				return "(GCrit.binary " + got["OpType"] + " " + got["C1"] + " " + got["C2"] + ")"
			}
			if len(got) != 3 {
				return x.fail("UnaryCriteria literal with %d fields", len(got))
			}
			return "(GCrit.unary { OpType := " + got["OpType"] + ", Field := " + got["Field"] + ", Value := " + got["Value"] + " })"
		}
		st, ok := literalTypes[tn]
		if !ok {
			return x.fail("composite literal of %s", tn)
		}
		got := map[string]string{}
		for _, el := range v.Elts {
			kv, ok := el.(*ast.KeyValueExpr)
			if !ok {
				return x.fail("positional composite literal")
			}
			val := x.expr(kv.Value)
			for _, f := range structs[st] {
				// an operand stored where a plain value is expected: its literal (the function has returned before for references)
				if f[0] == kv.Key.(*ast.Ident).Name && f[1] == "Value" && x.typeOf(kv.Value) == "Operand" {
					val = "(Operand.val " + val + ")"
				}
			}
			got[kv.Key.(*ast.Ident).Name] = val
		}
		parts := []string{}
		for _, f := range structs[st] {
			val, ok := got[f[0]]
			if !ok { // Go's zero value
				val = map[string]string{"Value": "Value.null", "Bool": "false", "Int": "(0 : Int)"}[f[1]]
			}
			parts = append(parts, f[0]+" := "+val)
		}
		return "({ " + strings.Join(parts, ", ") + " } : " + st + ")"
	}
	return x.fail("expression %T", e)
}

// result renders a returned expression in the function's result type.
func (x *tr) result(e ast.Expr) string {
	if x.t.optional {
		if id, ok := e.(*ast.Ident); ok && id.Name == "nil" {
			return "none"
		}
		return "some (" + x.expr(e) + ")"
	}
	if x.t.critResult {
		if id, ok := e.(*ast.Ident); ok && x.types[id.Name] == "GNotU" {
			return "GCrit.notU " + id.Name
		}
		return x.expr(e)
	}
	if x.t.mayPanic {
		return "some (" + x.expr(e) + ")"
	}
	if !x.t.outcome {
		return x.expr(e)
	}
	switch v := e.(type) {
	case *ast.Ident:
		if v.Name == "nil" {
			return "Outcome.cont"
		}
	case *ast.SelectorExpr:
		if v.Sel.Name == "ErrStopIteration" {
			return "Outcome.stop"
		}
	case *ast.CallExpr:
		return "Outcome.call \"" + callee(v) + "\""
	}
	return x.fail("outcome %T", e)
}

func (x *tr) ret(val string) string {
	if x.t.state != "" {
		return "return (" + x.t.state + ", " + val + ")"
	}
	return "return " + val
}

func (x *tr) stmts(list []ast.Stmt, ind string, out *[]string) {
	for _, s := range list {
		x.stmt(s, ind, out)
	}
}

func (x *tr) assign(lhs ast.Expr, rhs string, define bool, rhsType string, ind string, out *[]string) {
	switch l := lhs.(type) {
	case *ast.Ident:
		if define {
			x.types[l.Name] = rhsType
			ann := ""
			if rhsType != "" {
				ann = " : " + rhsType
			}
			*out = append(*out, ind+"let mut "+l.Name+ann+" := "+rhs)
			return
		}
		*out = append(*out, ind+l.Name+" := "+rhs)
	case *ast.SelectorExpr:
		id, ok := l.X.(*ast.Ident)
		if !ok {
			x.fail("assignment target")
			return
		}
		*out = append(*out, ind+id.Name+" := { "+id.Name+" with "+l.Sel.Name+" := "+rhs+" }")
	default:
		x.fail("assignment target %T", lhs)
	}
}

func (x *tr) stmt(s ast.Stmt, ind string, out *[]string) {
	switch v := s.(type) {
	case *ast.ReturnStmt:
		if len(v.Results) != 1 {
			x.fail("return with %d results", len(v.Results))
			return
		}
		*out = append(*out, ind+x.ret(x.result(v.Results[0])))
	case *ast.IfStmt:
		if v.Init != nil {
			x.fail("if with an init statement")
			return
		}
		*out = append(*out, ind+"if "+x.expr(v.Cond)+" then")
		x.stmts(v.Body.List, ind+"  ", out)
		for v.Else != nil {
			switch e := v.Else.(type) {
			case *ast.IfStmt:
				*out = append(*out, ind+"else if "+x.expr(e.Cond)+" then")
				x.stmts(e.Body.List, ind+"  ", out)
				v = e
				continue
			case *ast.BlockStmt:
				*out = append(*out, ind+"else")
				x.stmts(e.List, ind+"  ", out)
			}
			break
		}
	case *ast.ExprStmt:
		if c, ok := v.X.(*ast.CallExpr); ok && callee(c) == "panic" && x.t.mayPanic {
			*out = append(*out, ind+x.ret("none"))
			return
		}
		x.fail("expression statement")
	case *ast.AssignStmt:
		if len(v.Lhs) == 2 && len(v.Rhs) == 1 && v.Tok == token.DEFINE {
			// v, err := internal.Normalize(e): the operands of the model are normalised values (Normalize is the identity on
			// them and does not fail: C18's theorems); the error variable is kept, as the constant "no error"
			if c, ok := v.Rhs[0].(*ast.CallExpr); ok && callee(c) == "internal.Normalize" && len(c.Args) == 1 {
				x.assign(v.Lhs[0], x.expr(c.Args[0]), true, x.typeOf(c.Args[0]), ind, out)
				en := v.Lhs[1].(*ast.Ident).Name
				x.types[en] = "Err"
				*out = append(*out, ind+"let mut "+en+" : Bool := false")
				return
			}
		}
		if len(v.Lhs) != 1 || len(v.Rhs) != 1 {
			x.fail("multiple assignment")
			return
		}
		rt := x.typeOf(v.Rhs[0])
		if cl, ok := v.Rhs[0].(*ast.UnaryExpr); ok {
			if c, ok := cl.X.(*ast.CompositeLit); ok {
				if id, ok := c.Type.(*ast.Ident); ok {
					rt = literalTypes[id.Name]
				}
			}
		}
		x.assign(v.Lhs[0], x.expr(v.Rhs[0]), v.Tok == token.DEFINE, rt, ind, out)
	case *ast.SwitchStmt:
		if v.Init != nil || v.Tag == nil {
			x.fail("switch with an init statement or without a tag")
			return
		}
		tag := x.expr(v.Tag)
		first := true
		var deflt []ast.Stmt
		for _, cc := range v.Body.List {
			cl := cc.(*ast.CaseClause)
			if cl.List == nil {
				deflt = cl.Body
				continue
			}
			conds := []string{}
			for _, ce := range cl.List {
				conds = append(conds, "("+tag+" == "+x.expr(ce)+")")
			}
			kw := "else if "
			if first {
				kw = "if "
				first = false
			}
			*out = append(*out, ind+kw+strings.Join(conds, " || ")+" then")
			if len(cl.Body) == 0 {
				*out = append(*out, ind+"  pure ()")
			}
			for _, bs := range cl.Body {
				if _, isFall := bs.(*ast.BranchStmt); isFall {
					x.fail("fallthrough / break in a switch")
				}
			}
			x.stmts(cl.Body, ind+"  ", out)
		}
		if deflt != nil {
			*out = append(*out, ind+"else")
			x.stmts(deflt, ind+"  ", out)
		}
	case *ast.IncDecStmt:
		d := " + 1"
		if v.Tok == token.DEC {
			d = " - 1"
		}
		x.assign(v.X, "("+x.expr(v.X)+d+")", false, "Int", ind, out)
	default:
		x.fail("statement %T", s)
	}
}

func main() {
	repo := flag.String("repo", "/repo", "repository root")
	outPath := flag.String("out", "", "Translated.lean to write")
	flag.Parse()
	fset := token.NewFileSet()
	found := map[string]*ast.FuncDecl{}
	dirs := map[string]bool{}
	for _, t := range targets {
		dirs[t.dir] = true
	}
	for dir := range dirs {
		pkgs, err := parser.ParseDir(fset, filepath.Join(*repo, dir), func(fi os.FileInfo) bool {
			return !strings.HasSuffix(fi.Name(), "_test.go") && fi.Name() != "verif_hooks.go"
		}, 0)
		if err != nil {
			fmt.Fprintln(os.Stderr, "parse error:", err)
			os.Exit(1)
		}
		for _, pkg := range pkgs {
			for _, file := range pkg.Files {
				for _, decl := range file.Decls {
					fd, ok := decl.(*ast.FuncDecl)
					if !ok || fd.Body == nil {
						continue
					}
					recv := ""
					if fd.Recv != nil && len(fd.Recv.List) > 0 {
						switch rt := fd.Recv.List[0].Type.(type) {
						case *ast.StarExpr:
							recv = rt.X.(*ast.Ident).Name
						case *ast.Ident:
							recv = rt.Name
						}
					}
					found[dir+"|"+recv+"|"+fd.Name.Name] = fd
				}
			}
		}
	}
	var sb strings.Builder
	sb.WriteString("import Clover.Model.Planner\n/-! GENERATED by harness/cmd/translate from the current source of /repo on every run - do not edit.\n    One definition per Go function, statement by statement; `Proofs/Translated.lean` proves each equal to the model's. -/\nnamespace CV.Gen\nopen CV\n\n")
	names := []string{}
	for n := range structs {
		names = append(names, n)
	}
	sort.Strings(names)
	// a structure after the ones its fields mention
	ordered := []string{}
	emitted := map[string]bool{}
	for len(ordered) < len(names) {
		for _, n := range names {
			if emitted[n] {
				continue
			}
			ready := true
			for _, f := range structs[n] {
				if _, isStruct := structs[f[1]]; isStruct && !emitted[f[1]] {
					ready = false
				}
			}
			if ready {
				ordered = append(ordered, n)
				emitted[n] = true
			}
		}
	}
	names = ordered
	for _, n := range names {
		sb.WriteString("structure " + n + " where\n")
		for _, f := range structs[n] {
			sb.WriteString("  " + f[0] + " : " + f[1] + "\n")
		}
		sb.WriteString("\n")
	}
	sb.WriteString("/-- the literal of an operand (null for a field reference) and the test `c.Value == nil` -/\ndef _root_.CV.Operand.val : Operand → Value\n  | .lit v => v\n  | .ref _ => .null\ndef _root_.CV.Operand.isNilLit : Operand → Bool\n  | .lit .null => true\n  | _ => false\n\n")
	sb.WriteString("/-- a criterion as the planner builds it from literals: a leaf, a connective (by the NAME of its constant), or the negated leaf handed in -/\ninductive GCrit\n  | unary (u : GUnary)\n  | binary (op : String) (c1 c2 : GCrit)\n  | notU (c : GNotU)\n\n")
	sb.WriteString("/-- what a callback returns: nil (go on), the stop sentinel, or the result of a call the translator leaves opaque -/\ninductive Outcome\n  | cont | stop | call (fn : String)\nderiving DecidableEq, Repr\n\n")
	status := 0
	for _, t := range targets {
		fd := found[t.dir+"|"+t.recv+"|"+t.name]
		if fd == nil {
			fmt.Fprintf(os.Stderr, "translate: %s.%s not found in %s\n", t.recv, t.name, t.dir)
			sb.WriteString("-- MISSING: " + t.lean + " (the function is no longer in the source)\n\n")
			status = 2
			continue
		}
		x := &tr{t: t, types: map[string]string{}, muts: map[string]bool{}}
		params := []string{}
		add := func(names []*ast.Ident) {
			for _, n := range names {
				lt, ok := t.params[n.Name]
				if !ok {
					x.fail("parameter %s has no declared Lean type", n.Name)
					continue
				}
				if lt == "" {
					continue
				}
				x.types[n.Name] = lt
				params = append(params, "("+n.Name+" : "+lt+")")
			}
		}
		if fd.Recv != nil {
			add(fd.Recv.List[0].Names)
		}
		for _, p := range fd.Type.Params.List {
			add(p.Names)
		}
		body := []string{}
		if t.state != "" {
			body = append(body, "  let mut "+t.state+" := "+t.state)
		}
		x.stmts(fd.Body.List, "  ", &body)
		ret := t.ret
		if t.state != "" {
			ret = x.types[t.state] + " × " + t.ret
		}
		pos := fset.Position(fd.Pos())
		rel, _ := filepath.Rel(*repo, pos.Filename)
		if x.failed != "" {
			fmt.Fprintf(os.Stderr, "translate: %s (%s:%d): outside the translated subset: %s\n", t.lean, rel, pos.Line, x.failed)
			sb.WriteString("-- UNTRANSLATABLE: " + t.lean + " (" + x.failed + ")\n\n")
			status = 2
			continue
		}
		fmt.Fprintf(&sb, "/-- `%s` (%s) -/\ndef %s %s : %s := Id.run do\n%s\n\n", strings.TrimPrefix(t.recv+"."+t.name, "."), rel, t.lean, strings.Join(params, " "), ret, strings.Join(body, "\n"))
	}
	sb.WriteString("end CV.Gen\n")
	if *outPath == "" {
		fmt.Print(sb.String())
	} else {
		os.MkdirAll(filepath.Dir(*outPath), 0o755)
		if err := os.WriteFile(*outPath, []byte(sb.String()), 0o644); err != nil {
			fmt.Fprintln(os.Stderr, err)
			os.Exit(1)
		}
	}
	os.Exit(status)
}
