// Command extract re-reads /repo's Go source and writes the structural facts the Lean theorems of
// C05, C07 and C20 are stated about (Clover/Generated/Facts.lean). Syntactic (go/parser + go/ast).
package main

import (
	"flag"
	"fmt"
	"go/ast"
	"go/parser"
	"go/printer"
	"go/token"
	"os"
	"path/filepath"
	"sort"
	"strings"
)

type fn struct {
	pkg, recv, name string
	exported        bool
	beginW, beginR  int
	deferRollback   int
	commits         int
	calls           map[string]bool // names of functions / methods called
	file            string
}

type site struct{ file, fn, kind, expr string }

var fset = token.NewFileSet()

func exprStr(e ast.Node) string {
	var sb strings.Builder
	printer.Fprint(&sb, fset, e)
	s := strings.Join(strings.Fields(sb.String()), " ")
	if len(s) > 70 {
		s = s[:70]
	}
	return s
}

func fullStr(e ast.Node) string {
	var sb strings.Builder
	printer.Fprint(&sb, fset, e)
	return strings.Join(strings.Fields(sb.String()), " ")
}

func leanStr(s string) string {
	s = strings.ReplaceAll(s, "\\", "\\\\")
	s = strings.ReplaceAll(s, "\"", "\\\"")
	return "\"" + s + "\""
}

func main() {
	repo := flag.String("repo", "/repo", "repository root")
	out := flag.String("out", "", "Facts.lean to write")
	flag.Parse()

	dirs := []string{".", "query", "document", "index", "internal", "util", "store", "store/bbolt", "store/badger"}
	fns := map[string]*fn{}
	order := []string{}
	sites := []site{}
	pkgVars := []string{}
	dbFields := []string{}
	closedUses := []string{}
	recvWrites := []string{}
	boltOpenArgs := []string{}
	storeIfaces := []string{} // the interface types of package store, with their methods
	indexSites := []string{}  // every index / slice expression (maps included: the syntax does not tell them apart)
	// decision logic, per property: the full (comment-free, whitespace-normalised) text of the small functions
	// that decide plans, windows, counts and ranges
	logicFns := map[string]string{}
	// function groups -> the properties whose model was transcribed from them (space separated)
	groups := []struct {
		props string
		fns   []string
	}{
		{"C08", []string{"clover..buildQueryPlan", "clover.sortNode.Finish", "clover.sortNode.Callback", "clover..compareDocuments",
			"query..normalizeSortOptions", "query.Query.Sort", "clover..execPlan", "clover.consumerNode.Callback"}},
		{"C02", []string{"clover..tryToSelectIndex", "clover..getIndexQueries", "clover.iterNode.iterateIndex", "clover.iterNode.iterateFullCollection", "clover.iterNode.Run",
			"clover.NotFlattenVisitor.VisitUnaryCriteria", "clover.NotFlattenVisitor.VisitBinaryCriteria", "clover.NotFlattenVisitor.VisitNotCriteria",
			"clover.IndexSelectVisitor.VisitUnaryCriteria", "clover.IndexSelectVisitor.VisitBinaryCriteria", "clover.IndexSelectVisitor.VisitNotCriteria",
			"clover.FieldRangeVisitor.VisitUnaryCriteria", "clover.FieldRangeVisitor.VisitBinaryCriteria", "clover.FieldRangeVisitor.VisitNotCriteria",
			"index.RangeIndexQuery.Run"}},
		{"C09", []string{"clover.DB.countCollection", "clover.DB.Exists", "clover.DB.FindFirst", "clover.DB.Count", "clover.DB.FindAll", "clover.DB.IterateDocs", "clover.DB.ForEach",
			"clover.DB.FindById", "clover..getDocumentById", "clover.DB.getCollectionSize"}},
		{"C17", []string{"index.rangeIndex.encodeRange", "index.rangeIndex.IterateRange", "index.rangeIndex.Iterate"}},
		{"C16 C01", []string{"query.UnaryCriteria.Satisfy", "query..getFieldOrValue",
			"query.UnaryCriteria.in", "query.UnaryCriteria.contains", "query.UnaryCriteria.like", "query..IsField",
			"query..and", "query..or", "query..not", "query..newCriteria", "query.field.Neq", "query.field.NotExists", "query.field.In", "query.field.Contains", "query.field.Eq", "query.field.Exists", "query.field.IsNil", "query.field.IsTrue", "query.field.IsFalse", "query.field.IsNilOrNotExists", "query.field.Gt", "query.field.GtEq", "query.field.Lt", "query.field.LtEq", "query.field.Like", "query..Field", "query.NotCriteria.Not", "query.NotCriteria.And", "query.NotCriteria.Or", "query.BinaryCriteria.Not", "query.BinaryCriteria.And", "query.BinaryCriteria.Or", "query.UnaryCriteria.Not", "query.UnaryCriteria.And", "query.UnaryCriteria.Or", "query.Query.Where", "query.Query.MatchFunc", "query..NewQuery",
			"clover.CriteriaNormalizeVisitor.VisitUnaryCriteria", "clover.CriteriaNormalizeVisitor.VisitBinaryCriteria", "clover.CriteriaNormalizeVisitor.VisitNotCriteria",
			"clover..normalizeOperand", "clover..isFieldReference", "clover..normalizeCriteria", "query.Query.satisfy"}},
		{"C01", []string{"clover.DB.FindAll", "clover.DB.IterateDocs", "clover.DB.iterateDocs", "clover.iterNode.iterateIndex", "clover.iterNode.iterateFullCollection"}},
		{"C03", []string{"clover.DB.Update", "clover.DB.UpdateFunc", "clover.DB.replaceDocs", "clover.DB.Delete", "clover.DB.iterateDocs", "clover.DB.DropCollection", "clover.DB.deleteAll"}},
		{"C06", []string{"clover.DB.insertDocs", "clover.DB.addDocToIndexes", "clover.DB.getIndexes", "clover.DB.updateIndexesOnDocUpdate", "clover.DB.deleteDocFromIndexes",
			"clover.DB.getDocAndDeleteFromIndexes", "clover.DB.DeleteById", "clover.DB.replaceDocs", "clover.DB.UpdateById", "clover.DB.createIndex", "clover.DB.DropIndex", "clover.DB.deleteAll",
			"clover.DB.saveCollectionMetadata", "index.rangeIndex.Add", "index.rangeIndex.Remove", "index.rangeIndex.Drop", "index.rangeIndex.encodeValueAndId"}},
		{"C12", []string{"clover.DB.Insert", "clover.DB.InsertOne", "clover..assignObjectIds", "clover.DB.insertDocs", "clover..saveDocument", "clover.DB.Save", "clover.DB.UpdateById",
			"clover.DB.ReplaceById", "document..Validate", "document..isValidObjectId", "document.Document.ObjectId", "clover.DB.FindById", "clover..getDocumentById"}},
		{"C13", []string{"clover.DB.CreateCollection", "clover.DB.createCollection", "clover.DB.DropCollection", "clover.DB.deleteAll", "clover.DB.HasCollection", "clover.DB.hasCollection",
			"clover.DB.ListCollections", "clover.DB.saveCollectionMetadata", "clover.DB.getCollectionMeta", "clover..iteratePrefix", "clover.DB.CreateCollectionByQuery", "clover.DB.createCollectionWith"}},
		{"C14", []string{"clover.DB.CreateIndex", "clover.DB.createIndex", "clover.DB.HasIndex", "clover.DB.hasIndex", "clover.DB.DropIndex", "clover.DB.ListIndexes", "clover.DB.listIndexes",
			"clover.DB.getIndexes", "index.rangeIndex.Drop", "index.rangeIndex.Add"}},
		{"C10", []string{"internal..TypeId", "internal..compareTypes", "internal..compareSlices", "internal..compareNumbers", "internal..toUint64",
			"internal..Compare", "internal..compareObjects", "internal..getEncodeValue", "internal..orderedCodePrimitive", "internal..OrderedCode", "internal..orderedCode", "internal..orderedCodeSlice",
			"internal..orderedCodeObject", "index.rangeIndex.getKey", "index.rangeIndex.getKeyPrefixForType", "index.rangeIndex.getKeyPrefix", "index.rangeIndex.encodeValueAndId"}},
		{"C11", []string{"internal..Encode", "internal..Decode", "internal..replaceTimes", "internal..removeLocalizedTimes", "internal.LocalizedTime.MarshalMsgpack", "internal.LocalizedTime.UnmarshalMsgpack",
			"document..Encode", "document..Decode", "clover..saveDocument", "clover..getDocumentById"}},
		{"C18", []string{"internal..processStructTag", "internal..isEmptyValue", "internal..normalizeStruct", "internal..normalizeSlice", "internal..getElemValueAndType", "internal..normalizeMap",
			"internal..Normalize", "internal..createRenameMap", "internal..rename", "internal..getElemType", "internal..renameMapKeys", "internal..Convert",
			"document..lookupField", "document.Document.Has", "document.Document.Get", "document.Document.Set", "document.Document.SetAll", "document.Document.Fields", "document.Document.Copy",
			"document.Document.AsMap", "document.Document.ToMap", "document..NewDocumentOf", "document..newDocumentOf", "document.Document.Unmarshal", "util..MapKeys", "util..CopyMap"}},
		{"C19 C04", []string{"clover.DB.ExportCollection", "clover.DB.ImportCollection", "clover..restoreExpiresAt", "clover.DB.createCollectionWith", "clover.DB.CreateCollectionByQuery"}},
		{"C05", []string{"badger..Open", "badger..OpenWithOptions", "bbolt..Open", "bbolt.boltStore.createRootBucketIfNotExists", "bbolt.boltStore.Close", "badger.badgerStore.Close",
			"clover..Open", "clover..OpenWithStore", "clover.DB.Close"}},
		// the small helpers the functions above lean on (accessors, constructors, conversions): pinned with the property
		// whose model inlines them, so that no function of the packages read is outside every model
		{"C10", []string{"internal..asSlice", "internal..TypeName", "util..IsNumber", "util..ToFloat64", "util..ToInt64"}},
		{"C18", []string{"internal..renameValue"}},
		{"C11", []string{"internal..init"}},
		{"C08", []string{"clover.planNodeBase.CallNext", "clover.planNodeBase.Callback", "clover.planNodeBase.Finish", "clover.planNodeBase.NextNode", "clover.planNodeBase.SetNext",
			"query.Query.Collection", "query.Query.Criteria", "query.Query.GetLimit", "query.Query.GetSkip", "query.Query.SortOptions"}},
		{"C02", []string{"clover..NewFieldRangeVisitor", "query.BinaryCriteria.Accept", "query.NotCriteria.Accept", "query.UnaryCriteria.Accept", "util..StringSliceToSet"}},
		{"C12", []string{"clover..NewObjectId", "document..NewDocument", "document.Document.ExpiresAt", "document.Document.SetExpiresAt", "document.Document.TTL"}},
		{"C13", []string{"clover..getCollectionKey", "clover..getCollectionKeyPrefix", "clover..getDocumentKey", "clover..getDocumentKeyPrefix"}},
		{"C14", []string{"index..CreateIndex", "index.indexBase.Collection", "index.indexBase.Field", "index.rangeIndex.Type"}},
		{"C17", []string{"index..extractDocId"}},
		{"C05", []string{"badger.badgerStore.startGC", "badger.badgerStore.stopGC"}},
		// C07: where the lock/snapshot discipline of the protocol theorem is established - bbolt's own writer lock behind
		// Begin(true), and the badger adapter's writer lock (F43) taken in Begin and released by Commit / Rollback
		{"C07", []string{"badger.badgerStore.Begin", "badger.badgerTx.Commit", "badger.badgerTx.Rollback", "badger.badgerTx.done",
			"bbolt.boltStore.Begin", "bbolt.boltTx.Commit", "bbolt.boltTx.Rollback", "clover.DB.Close", "clover..Open", "clover..OpenWithStore"}},
		{"C15", []string{"badger.badgerTx.done"}},
		// C05: every write an operation makes goes through the one store transaction - the index maintenance included
		{"C05", []string{"index.rangeIndex.Drop", "index.rangeIndex.Add", "index.rangeIndex.Remove"}},
		{"C15", []string{"bbolt.boltTx.Set", "bbolt.boltTx.Get", "bbolt.boltTx.Delete", "bbolt.boltTx.Cursor", "bbolt.boltTx.Commit", "bbolt.boltTx.Rollback", "bbolt.boltTx.bucket", "bbolt.boltStore.Begin",
			"bbolt.boltCursor.Seek", "bbolt.boltCursor.adjustSeek", "bbolt.boltCursor.Next", "bbolt.boltCursor.Valid", "bbolt.boltCursor.Item", "bbolt.boltCursor.Close",
			"badger.badgerTx.Set", "badger..getItemValue", "badger.badgerTx.Get", "badger.badgerTx.Commit", "badger.badgerTx.Rollback", "badger.badgerTx.Cursor", "badger.badgerStore.Begin",
			"badger.badgerCursor.Seek", "badger.badgerCursor.Next", "badger.badgerCursor.Valid", "badger.badgerCursor.Item", "badger.badgerCursor.Close"}},
	}
	// functions TRANSLATED statement by statement (cmd/translate -> Generated/Translated.lean) and proved equal to the model's
	// definitions (Proofs/Translated.lean): their tie is semantic, so their text is not pinned - a rewrite that computes the
	// same passes, one that does not breaks the proof
	translated := []string{"index.Range.IsEmpty", "index.Range.IsNil", "index.Range.Intersect", "internal..compareInt64", "internal..compareUint64",
		"util..BoolToInt", "clover.skipLimitNode.Callback", "clover..unaryCriteriaToRange",
		"query.UnaryCriteria.compare", "query.UnaryCriteria.eq", "query.UnaryCriteria.exist", "query.BinaryCriteria.Satisfy", "query.NotCriteria.Satisfy",
		"query.Query.copy", "query.Query.Skip", "query.Query.Limit", "clover.NotFlattenVisitor.removeNotCriteria"}
	wanted := map[string]bool{}
	for _, f := range translated {
		wanted[f] = true
	}
	for _, g := range groups {
		for _, f := range g.fns {
			wanted[f] = true
			for _, p := range strings.Fields(g.props) {
				if !strings.Contains(" "+logicFns[f]+" ", " "+p+" ") {
					logicFns[f] = strings.TrimSpace(logicFns[f] + " " + p)
				}
			}
		}
	}
	seenLogic := map[string]bool{}
	fnExists := map[string]bool{}
	logic := map[string][]string{}
	layout := []string{} // "pkg.func: <statements of the body>" for the functions that define the key layout and the type ranks
	layoutFns := map[string]bool{"getCollectionKeyPrefix": true, "getCollectionKey": true, "getDocumentKeyPrefix": true, "getDocumentKey": true,
		"getKeyPrefix": true, "getKeyPrefixForType": true, "getKey": true, "extractDocId": true, "TypeId": true, "compareTypes": true,
		"getEncodeValue": true, "OrderedCode": true}

	for _, dir := range dirs {
		pkgs, err := parser.ParseDir(fset, filepath.Join(*repo, dir), func(fi os.FileInfo) bool {
			return !strings.HasSuffix(fi.Name(), "_test.go") && fi.Name() != "verif_hooks.go"
		}, 0)
		if err != nil {
			fmt.Fprintln(os.Stderr, "parse error:", err)
			os.Exit(1)
		}
		pkgNames := []string{}
		for n := range pkgs {
			pkgNames = append(pkgNames, n)
		}
		sort.Strings(pkgNames)
		for _, pn := range pkgNames {
			pkg := pkgs[pn]
			files := []string{}
			for f := range pkg.Files {
				files = append(files, f)
			}
			sort.Strings(files)
			for _, fname := range files {
				file := pkg.Files[fname]
				rel, _ := filepath.Rel(*repo, fname)
				for _, decl := range file.Decls {
					switch dcl := decl.(type) {
					case *ast.GenDecl:
						if dcl.Tok == token.TYPE && pn == "store" {
							for _, sp := range dcl.Specs {
								ts := sp.(*ast.TypeSpec)
								if it, ok := ts.Type.(*ast.InterfaceType); ok {
									ms := []string{}
									for _, m := range it.Methods.List {
										for _, n := range m.Names {
											ms = append(ms, n.Name)
										}
										if len(m.Names) == 0 {
											ms = append(ms, "embeds "+exprStr(m.Type))
										}
									}
									storeIfaces = append(storeIfaces, ts.Name.Name+": "+strings.Join(ms, " "))
								}
							}
						}
						if dcl.Tok == token.VAR {
							for _, sp := range dcl.Specs {
								vs := sp.(*ast.ValueSpec)
								for i, n := range vs.Names {
									if n.Name != "_" {
										pkgVars = append(pkgVars, pn+"."+n.Name)
									}
									if n.Name == "typesMap" && i < len(vs.Values) {
										layout = append(layout, pn+".typesMap = "+fullStr(vs.Values[i]))
									}
								}
							}
						}
						if dcl.Tok == token.TYPE {
							for _, sp := range dcl.Specs {
								ts := sp.(*ast.TypeSpec)
								if st, ok := ts.Type.(*ast.StructType); ok && pn == "clover" && ts.Name.Name == "DB" {
									for _, f := range st.Fields.List {
										for _, n := range f.Names {
											dbFields = append(dbFields, n.Name+" "+exprStr(f.Type))
										}
									}
								}
							}
						}
					case *ast.FuncDecl:
						f := &fn{pkg: pn, name: dcl.Name.Name, exported: dcl.Name.IsExported(), calls: map[string]bool{}, file: rel}
						recvName := ""
						if dcl.Recv != nil && len(dcl.Recv.List) > 0 {
							f.recv = strings.TrimPrefix(exprStr(dcl.Recv.List[0].Type), "*")
							if len(dcl.Recv.List[0].Names) > 0 {
								recvName = dcl.Recv.List[0].Names[0].Name
							}
						}
						key := pn + "." + f.recv + "." + f.name
						fnExists[key] = true
						fns[key] = f
						order = append(order, key)
						if dcl.Body == nil {
							continue
						}
						if props, ok := logicFns[pn+"."+f.recv+"."+f.name]; ok {
							seenLogic[pn+"."+f.recv+"."+f.name] = true
							for _, prop := range strings.Fields(props) {
								logic[prop] = append(logic[prop], pn+"."+f.recv+"."+f.name+": "+fullStr(dcl.Body))
							}
						}
						if layoutFns[f.name] {
							stmts := []string{}
							for _, st := range dcl.Body.List {
								stmts = append(stmts, fullStr(st))
							}
							layout = append(layout, pn+"."+f.name+": "+strings.Join(stmts, " ; "))
						}
						okAssert := map[ast.Node]bool{} // type assertions in comma-ok form or in type switches
						ast.Inspect(dcl.Body, func(n ast.Node) bool {
							switch x := n.(type) {
							case *ast.AssignStmt:
								if len(x.Lhs) == 2 && len(x.Rhs) == 1 {
									if ta, ok := x.Rhs[0].(*ast.TypeAssertExpr); ok {
										okAssert[ta] = true
									}
								}
								// writes through the receiver
								if recvName != "" {
									for _, l := range x.Lhs {
										root := l
										for {
											switch r := root.(type) {
											case *ast.SelectorExpr:
												root = r.X
												continue
											case *ast.IndexExpr:
												root = r.X
												continue
											case *ast.StarExpr:
												root = r.X
												continue
											}
											break
										}
										if id, ok := root.(*ast.Ident); ok && id.Name == recvName && root != l {
											recvWrites = append(recvWrites, pn+"."+f.recv+"."+f.name+": "+exprStr(l))
										}
									}
								}
							case *ast.ValueSpec:
								if len(x.Names) == 2 && len(x.Values) == 1 {
									if ta, ok := x.Values[0].(*ast.TypeAssertExpr); ok {
										okAssert[ta] = true
									}
								}
							case *ast.TypeSwitchStmt:
								ast.Inspect(x.Assign, func(m ast.Node) bool {
									if ta, ok := m.(*ast.TypeAssertExpr); ok {
										okAssert[ta] = true
									}
									return true
								})
							}
							return true
						})
						ast.Inspect(dcl.Body, func(n ast.Node) bool {
							switch x := n.(type) {
							case *ast.TypeAssertExpr:
								if !okAssert[x] && x.Type != nil {
									sites = append(sites, site{rel, f.recv + "." + f.name, "assert", exprStr(x)})
								}
							case *ast.IndexExpr:
								indexSites = append(indexSites, rel+" "+strings.TrimPrefix(f.recv+"."+f.name, ".")+": "+exprStr(x))
							case *ast.SliceExpr:
								indexSites = append(indexSites, rel+" "+strings.TrimPrefix(f.recv+"."+f.name, ".")+": "+exprStr(x))
							case *ast.DeferStmt:
								if sel, ok := x.Call.Fun.(*ast.SelectorExpr); ok && sel.Sel.Name == "Rollback" {
									f.deferRollback++
								}
							case *ast.CallExpr:
								switch fun := x.Fun.(type) {
								case *ast.Ident:
									if fun.Name == "panic" {
										sites = append(sites, site{rel, f.recv + "." + f.name, "panic", exprStr(x)})
									}
									f.calls[fun.Name] = true
								case *ast.SelectorExpr:
									// only calls on the DB receiver count for the transaction call graph
									if id, ok := fun.X.(*ast.Ident); ok && id.Name == recvName && f.recv == "DB" {
										f.calls[fun.Sel.Name] = true
									}
									if fun.Sel.Name == "Begin" && len(x.Args) == 1 {
										switch exprStr(x.Args[0]) {
										case "true":
											f.beginW++
										case "false":
											f.beginR++
										default:
											f.beginW++ // unknown mode: counted as a write transaction
										}
									}
									if fun.Sel.Name == "Commit" {
										f.commits++
									}
									if id, ok := fun.X.(*ast.Ident); ok && id.Name == "bbolt" && fun.Sel.Name == "Open" && pn == "bbolt" {
										for _, a := range x.Args {
											boltOpenArgs = append(boltOpenArgs, exprStr(a))
										}
									}
									if id, ok := fun.X.(*ast.Ident); ok && id.Name == "atomic" {
										for _, a := range x.Args {
											if strings.Contains(exprStr(a), ".closed") {
												closedUses = append(closedUses, f.name+": atomic."+fun.Sel.Name)
											}
										}
									}
								}
							case *ast.SelectorExpr:
								if x.Sel.Name == "closed" {
									closedUses = append(closedUses, f.name+": ."+x.Sel.Name)
								}
							}
							return true
						})
					}
				}
			}
		}
	}

	// which functions of package clover open a transaction, directly or through callees (by name)
	opens := map[string]bool{}
	for changed := true; changed; {
		changed = false
		for k, f := range fns {
			if f.pkg != "clover" || opens[k] {
				continue
			}
			if f.beginW+f.beginR > 0 {
				opens[k] = true
				changed = true
				continue
			}
			for c := range f.calls {
				for k2, f2 := range fns {
					if f2.pkg == "clover" && f2.name == c && opens[k2] {
						opens[k] = true
						changed = true
					}
				}
			}
		}
	}

	var sb strings.Builder
	sb.WriteString("/-! GENERATED by /verif/harness/cmd/extract from /repo's current source — do not edit, do not commit -/\n")
	sb.WriteString("namespace CV.Facts\n\n")
	sb.WriteString("structure Method where\n  name : String\n  beginW : Nat\n  beginR : Nat\n  deferRollback : Nat\n  commits : Nat\n  txCallees : List String\nderiving DecidableEq, Repr\n\n")
	sb.WriteString("/-- every function of package clover that opens a store transaction, directly or through a callee -/\ndef methods : List Method := [\n")
	first := true
	for _, k := range order {
		f := fns[k]
		if f.pkg != "clover" || !opens[k] {
			continue
		}
		callees := []string{}
		for c := range f.calls {
			for k2, f2 := range fns {
				if f2.pkg == "clover" && f2.name == c && opens[k2] && k2 != k {
					callees = append(callees, c)
				}
			}
		}
		sort.Strings(callees)
		cs := []string{}
		for i, c := range callees {
			if i == 0 || callees[i-1] != c {
				cs = append(cs, leanStr(c))
			}
		}
		if !first {
			sb.WriteString(",\n")
		}
		first = false
		fmt.Fprintf(&sb, "  ⟨%s, %d, %d, %d, %d, [%s]⟩", leanStr(f.name), f.beginW, f.beginR, f.deferRollback, f.commits, strings.Join(cs, ", "))
	}
	sb.WriteString("]\n\n")
	strList := func(name, doc string, xs []string) {
		fmt.Fprintf(&sb, "/-- %s -/\ndef %s : List String := [", doc, name)
		for i, x := range xs {
			if i > 0 {
				sb.WriteString(", ")
			}
			sb.WriteString("\n  " + leanStr(x))
		}
		sb.WriteString("]\n\n")
	}
	strList("boltOpenArgs", "the arguments of bbolt.Open in store/bbolt (the last one is the options)", boltOpenArgs)
	strList("dbFields", "the fields of struct DB", dbFields)
	sort.Strings(closedUses)
	strList("closedUses", "every mention of the `closed` field", closedUses)
	sort.Strings(pkgVars)
	strList("packageVars", "package-level variables outside tests", pkgVars)
	sort.Strings(recvWrites)
	strList("receiverWrites", "assignments through a method receiver (all packages)", recvWrites)
	sort.Strings(storeIfaces)
	strList("storeInterfaces", "the interface types package store declares (what a transaction can be asked to do)", storeIfaces)
	sort.Strings(indexSites)
	strList("indexSites", "every index and slice expression outside tests (on maps as well as on slices, arrays and strings)", indexSites)
	sort.Strings(layout)
	strList("keyLayout", "the functions that define the key layout, the type ranks and the key encoding dispatch, statement by statement", layout)
	for _, prop := range []string{"C01", "C02", "C03", "C04", "C05", "C06", "C07", "C08", "C09", "C10", "C11", "C12", "C13", "C14", "C15", "C16", "C17", "C18", "C19"} {
		sort.Strings(logic[prop])
		strList("logic"+prop, "the source text behind "+prop+": full text of the functions its model was transcribed from (comments and layout removed)", logic[prop])
	}
	sort.Strings(translated)
	strList("logicTranslated", "functions whose tie to the model is a translation plus a proof of equality (not a pinned text)", translated)
	missing := []string{}
	for f := range wanted {
		if !seenLogic[f] && !fnExists[f] {
			missing = append(missing, f)
		}
	}
	sort.Strings(missing)
	unpinned := []string{}
	for _, k := range order {
		if !wanted[k] {
			unpinned = append(unpinned, k)
		}
	}
	sort.Strings(unpinned)
	strList("logicUnpinned", "every function of the packages read (tests and hooks aside) whose text no property's model pins", unpinned)
	strList("logicMissing", "functions the model was transcribed from that the source no longer has (renamed or removed)", missing)
	sb.WriteString("structure PanicSite where\n  file : String\n  fn : String\n  kind : String\n  expr : String\nderiving DecidableEq, Repr\n\n")
	sb.WriteString("/-- unchecked type assertions and explicit panics, in source order -/\ndef panicSites : List PanicSite := [")
	for i, s := range sites {
		if i > 0 {
			sb.WriteString(",")
		}
		fmt.Fprintf(&sb, "\n  ⟨%s, %s, %s, %s⟩", leanStr(s.file), leanStr(s.fn), leanStr(s.kind), leanStr(s.expr))
	}
	sb.WriteString("]\n\nend CV.Facts\n")
	if *out == "" {
		fmt.Print(sb.String())
		return
	}
	os.MkdirAll(filepath.Dir(*out), 0o755)
	if err := os.WriteFile(*out, []byte(sb.String()), 0o644); err != nil {
		fmt.Fprintln(os.Stderr, err)
		os.Exit(1)
	}
}
