package main

// catalogInterleavings: a catalog operation with ANOTHER client's catalog operation on the same names committed between
// the operation's call and the opening of its write transaction (the interloper hook of the store wrapper: whatever the
// operation looked at before opening its transaction is stale by then).  The outcome - both results, the raw dump, the
// listings - must be the one of the two operations executed one after the other, interloper first: an existence check
// made outside the write transaction shows as two successful creations of one name, or as metadata written over.
func catalogInterleavings(c *Ctx, dr *Driver, be string) bool {
	im := NewImpl(be, c.Scratch)
	defer im.Destroy()
	docs := func(base int) []interface{} {
		out := []interface{}{}
		for j := 0; j < 3; j++ {
			out = append(out, encDoc(map[string]interface{}{"_id": fixedId(base + j), "f": int64(j), "g": int64(2 - j)}))
		}
		return out
	}
	r, f := hx("r"), hx("f")
	type cell struct {
		pre    []J // state before
		op, il J
	}
	mkR := []J{opLine("createCollection", J{"coll": r}), opLine("insert", J{"coll": r, "docs": docs(630000)})}
	mkRf := append(append([]J{}, mkR...), opLine("createIndex", J{"coll": r, "field": f}))
	src := []J{opLine("createCollection", J{"coll": hx("src")}), opLine("insert", J{"coll": hx("src"), "docs": docs(631000)})}
	cells := []cell{
		{nil, opLine("createCollection", J{"coll": r}), opLine("createCollection", J{"coll": r})},
		{src, opLine("createCollection", J{"coll": r}), opLine("createCollectionByQuery", J{"coll": r, "q": J{"coll": hx("src")}})},
		{src, opLine("createCollectionByQuery", J{"coll": r, "q": J{"coll": hx("src")}}), opLine("createCollection", J{"coll": r})},
		{mkR, opLine("dropCollection", J{"coll": r}), opLine("dropCollection", J{"coll": r})},
		{mkR, opLine("createIndex", J{"coll": r, "field": f}), opLine("createIndex", J{"coll": r, "field": f})},
		{mkR, opLine("createIndex", J{"coll": r, "field": f}), opLine("dropCollection", J{"coll": r})},
		{mkRf, opLine("dropIndex", J{"coll": r, "field": f}), opLine("dropIndex", J{"coll": r, "field": f})},
		{mkRf, opLine("dropIndex", J{"coll": r, "field": f}), opLine("dropCollection", J{"coll": r})},
		{mkRf, opLine("insert", J{"coll": r, "docs": docs(632000)}), opLine("dropCollection", J{"coll": r})},
		{mkRf, opLine("insert", J{"coll": r, "docs": docs(632000)}), opLine("dropIndex", J{"coll": r, "field": f})},
		{mkR, opLine("insert", J{"coll": r, "docs": docs(632000)}), opLine("createIndex", J{"coll": r, "field": f})},
		{mkR, opLine("dropCollection", J{"coll": r}), opLine("insert", J{"coll": r, "docs": docs(632000)})},
		{mkRf, opLine("createCollection", J{"coll": r}), opLine("dropCollection", J{"coll": r})},
		{nil, opLine("insert", J{"coll": r, "docs": docs(632000)}), opLine("createCollection", J{"coll": r})},
	}
	for _, cl := range cells {
		lines := append([]J{}, cl.pre...)
		op := cloneJ(cl.op)
		op["interloper"] = cl.il
		lines = append(lines, J{"k": "dump"}, op, J{"k": "dump"}, opLine("listCollections", J{}), opLine("hasCollection", J{"coll": r}),
			opLine("listIndexes", J{"coll": r}), opLine("count", J{"q": J{"coll": r}}),
			opLine("findAll", J{"q": J{"coll": r, "sort": []interface{}{[]interface{}{f, 1}, []interface{}{hx("_id"), 1}}}}))
		o := runHistory(dr, im, lines, HistOpts{})
		recordHistory(c, lines, &o, be)
		c.Count("catalog-interleaving")
		if o.Index >= 0 {
			if reportHistoryProblem(c, dr, im, lines, &o, be, HistOpts{}, "catalog-interleaving") {
				return false
			}
		}
	}
	return true
}
