package main

import (
	"bytes"
	"encoding/hex"
	"fmt"
	"os"
	"path/filepath"
	"sort"
	"strings"
	"time"

	clover "github.com/ostafen/clover/v2"
	d "github.com/ostafen/clover/v2/document"
	"github.com/ostafen/clover/v2/index"
	"github.com/ostafen/clover/v2/query"
	"github.com/ostafen/clover/v2/store"
)

func init() {
	streams["C11"] = streamC11
	streams["C17"] = streamC17
	streams["C15"] = streamC15
	streams["C20"] = streamC20
}

// ---- C11: stored documents read back identical ----

func streamC11(c *Ctx) {
	c.Rule = "documents over the full value grammar (int64/uint64 extremes, ±0/±Inf/subnormal floats, empty strings/maps/slices, non-UTF-8 strings, times 1678-2262 with offsets UTC/+01:00/-07:30/+05:45:30/-04:56:02/-01:00:30/-00:00:30 (and a systematic table of 25 offsets x 4 instants through Encode/Decode) and nanoseconds at every nesting position, depth<=3 quick / 5 thorough) written by Insert/Save/Update and read back by FindById/FindAll before and after reopen (bbolt, badger-disk) and through document.Encode/Decode directly, at BYTE level against the Lean msgpack model in both directions (model decodes the implementation's bytes, implementation decodes the model's bytes, identical bytes when every map has one entry; header thresholds 31/32, 255/256, 65535/65536, 15/16); compared with Go type tags against the written value and the Lean model; " +
		"non-trivial = distinct documents containing a time or an integer extreme inside an array or object"
	dr := StartDriver(c.DriverBin)
	defer dr.Close()
	// byte-level comparison with the model: a disagreement is recorded once (a correspondence break, not a failing
	// input) and the stream goes on with the laws that need no model
	modelOff := false
	cb := func(m map[string]interface{}, enc []byte) bool {
		if !modelOff && !codecBytes(c, dr, m, enc) {
			modelOff = true
		}
		return true
	}
	n := c.N(600, 6000)
	depth := 3
	if !c.Quick() {
		depth = 5
	}
	// rt: the law itself first (what was encoded decodes to the same document, types included), then the byte-level
	// comparison with the model; a byte-level disagreement alone is a correspondence break, not a failing input
	rt := func(m1 map[string]interface{}) bool {
		c.Evals++
		enc1, err := d.Encode(d.NewDocumentOf(m1))
		if err != nil {
			c.Violation(&Replay{Stream: "codec", Case: []interface{}{J{"k": "codec", "doc": encDoc(m1)}}, Actual: []string{err.Error()}, Note: "document.Encode refuses a representable document"})
			return false
		}
		dec, derr := d.Decode(enc1)
		if derr != nil || canonDoc(dec.AsMap()) != canonDoc(m1) {
			got := ""
			if derr == nil {
				got = canonDoc(dec.AsMap())
			}
			c.Violation(&Replay{Stream: "codec", Case: []interface{}{J{"k": "codec", "doc": encDoc(m1)}}, Expected: []string{canonDoc(m1)}, Actual: []string{fmt.Sprint(derr), got}, Note: "Decode(Encode(d)) differs from d"})
			return false
		}
		return cb(m1, enc1)
	}
	// zone offsets, systematically: every offset Go's binary time format can carry comes back as written - in
	// particular the negative ones with a seconds component, which time.MarshalBinary itself gets wrong (F34);
	// -60 s (the format's UTC marker) is the one offset Encode refuses, with an error
	for _, off := range []int{-1, -29, -30, -59, -61, -90, -119, -120, -121, -3599, -3601, -3630, -17762, -43199, 1, 59, 61, 3630, 20730, 50399, -1966079, 1966079, 0, 60, -3600} {
		for _, ns := range []int64{0, -1, 1577923200123456789, -3786825600000000000} {
			t := mkTime(ns, off)
			m := map[string]interface{}{"_id": fixedId(1), "t": t, "l": []interface{}{map[string]interface{}{"t": t}}}
			c.Evals++
			enc, err := d.Encode(d.NewDocumentOf(m))
			if err != nil {
				c.Violation(&Replay{Stream: "codec", Case: []interface{}{J{"k": "codec", "doc": encDoc(m)}}, Actual: []string{err.Error()}, Note: "document.Encode refuses a time with a representable zone offset"})
				return
			}
			dec, derr := d.Decode(enc)
			if derr != nil || canonDoc(dec.AsMap()) != canonDoc(m) {
				c.Violation(&Replay{Stream: "codec", Case: []interface{}{J{"k": "codec", "doc": encDoc(m)}}, Expected: []string{canonDoc(m)}, Actual: []string{fmt.Sprint(derr), canonDoc(dec.AsMap())}, Note: "a time does not come back with the zone offset it was written with"})
				return
			}
			c.Count("zone-offset-cell")
			// byte level, on a document with one entry per map (the bytes are then determined): model = implementation
			m1 := map[string]interface{}{"t": []interface{}{t, map[string]interface{}{"z": t}}}
			if !rt(m1) {
				return
			}
		}
	}
	{
		g := NewGen(c.Rng, Domain{})
		for i := 0; i < c.N(300, 3000); i++ {
			m1 := map[string]interface{}{[]string{"v", "", "a long key of more than thirty-one bytes .."}[g.pick(3)]: g.Value(2)}
			if !rt(m1) {
				return
			}
		}
		// length thresholds of the string / array / map headers (31|32, 255|256, 65535|65536; 15|16, 65535|65536)
		for _, n := range []int{0, 1, 31, 32, 255, 256, 65535, 65536, 70000} {
			m1 := map[string]interface{}{"s": strings.Repeat("x", n)}
			if !rt(m1) {
				return
			}
		}
		alens := []int{0, 1, 15, 16, 17}
		if !c.Quick() {
			alens = append(alens, 65535, 65536)
		}
		for _, n := range alens {
			arr := make([]interface{}, n)
			for i := range arr {
				arr[i] = int64(i)
			}
			m1 := map[string]interface{}{"a": arr}
			if !rt(m1) {
				return
			}
			if n <= 17 || c.Tier == "thorough" {
				mm := map[string]interface{}{}
				for i := 0; i < n; i++ {
					mm[fmt.Sprintf("k%05d", i)] = int64(i)
				}
				if !rt(mm) {
					return
				}
			}
		}
	}
	// times far outside the range of UnixNano (the zero time, 1582, 2300, 9999), in UTC and in zones, at the top level, in
	// an array and in an object inside an array - through the codec and through a store: the same instant (compared with
	// time.Equal and by calendar fields, not through UnixNano, which wraps out there) and the same zone offset
	{
		far := []time.Time{{}, time.Date(1582, 10, 15, 12, 0, 0, 5, time.UTC), time.Date(2300, 1, 1, 0, 0, 0, 0, time.UTC), time.Date(9999, 12, 31, 23, 59, 59, 999999999, time.UTC),
			time.Date(1582, 10, 15, 12, 0, 0, 5, time.FixedZone("", 3600)), time.Date(2300, 1, 1, 0, 0, 0, 0, time.FixedZone("", -27000)), time.Date(1, 1, 1, 0, 0, 0, 0, time.FixedZone("", 3600))}
		sameT := func(a interface{}, b time.Time) bool {
			t, ok := a.(time.Time)
			if !ok {
				return false
			}
			_, oa := t.Zone()
			_, ob := b.Zone()
			return t.Equal(b) && oa == ob && t.Year() == b.Year() && t.Nanosecond() == b.Nanosecond()
		}
		okDoc := func(m map[string]interface{}, t time.Time) bool {
			l, _ := m["l"].([]interface{})
			if len(l) != 2 {
				return false
			}
			z, _ := l[1].(map[string]interface{})
			return sameT(m["t"], t) && sameT(l[0], t) && z != nil && sameT(z["z"], t)
		}
		fim := NewImpl("bbolt", c.Scratch)
		fim.db.CreateCollection("far")
		for i, t := range far {
			c.Evals++
			m := map[string]interface{}{"_id": fixedId(690000 + i), "t": t, "l": []interface{}{t, map[string]interface{}{"z": t}}}
			show := []string{t.Format(time.RFC3339Nano)}
			enc, err := d.Encode(d.NewDocumentOf(m))
			if err != nil {
				c.Violation(&Replay{Stream: "codec", Case: []interface{}{J{"k": "far-time", "time": show[0]}}, Actual: []string{err.Error()}, Note: "document.Encode refuses a time far from 1970"})
				fim.Destroy()
				return
			}
			dec, derr := d.Decode(enc)
			if derr != nil || !okDoc(dec.AsMap(), t) {
				got := ""
				if derr == nil {
					got = fmt.Sprint(dec.AsMap()["t"])
				}
				c.Violation(&Replay{Stream: "codec", Case: []interface{}{J{"k": "far-time", "time": show[0]}}, Expected: show, Actual: []string{fmt.Sprint(derr), got}, Note: "a time far from 1970 does not come back from Decode(Encode(d)) as the same instant and zone"})
				fim.Destroy()
				return
			}
			if err := fim.db.Insert("far", d.NewDocumentOf(m)); err != nil {
				c.Violation(&Replay{Stream: "codec", Case: []interface{}{J{"k": "far-time", "time": show[0]}}, Actual: []string{err.Error()}, Note: "Insert refuses a document holding a time far from 1970"})
				fim.Destroy()
				return
			}
			back, ferr := fim.db.FindById("far", fixedId(690000+i))
			if ferr != nil || back == nil || !okDoc(back.AsMap(), t) {
				c.Violation(&Replay{Stream: "codec", Case: []interface{}{J{"k": "far-time", "time": show[0]}}, Expected: show, Actual: []string{fmt.Sprint(ferr)}, Note: "a time far from 1970 is not read back from the store as the same instant and zone"})
				fim.Destroy()
				return
			}
			c.Count("far-time-cell")
		}
		fim.Destroy()
	}
	for _, be := range []string{"bbolt", "badger-mem"} {
		if !binaryReadBack(c, be) {
			return
		}
	}
	if _, err := d.Encode(d.NewDocumentOf(map[string]interface{}{"_id": fixedId(1), "t": mkTime(0, -60)})); err == nil {
		c.Count("zone-offset:-60-accepted") // (would need a decode check; today it is refused)
	}
	for _, be := range []string{"bbolt", "badger-disk", "badger-mem"} {
		im := NewImpl(be, c.Scratch)
		g := NewGen(c.Rng, Domain{})
		for i := 0; i < n; i += 10 {
			lines := []J{opLine("createCollection", J{"coll": hx("r")})}
			ids := []string{}
			longArrs := [][]interface{}{}
			for j := 0; j < 10; j++ {
				m := map[string]interface{}{}
				id := fixedId(i + j + 1)
				m["_id"] = id
				ids = append(ids, id)
				for k := 0; k < 1+g.pick(4); k++ {
					m[[]string{"a", "b", "t", "n", "arr", ""}[g.pick(6)]] = g.Value(depth)
				}
				if g.pick(3) == 0 {
					// a long, unsorted array of scalars
					la := []interface{}{}
					for k := 0; k < 8+g.pick(5); k++ {
						la = append(la, g.Atom())
					}
					m["long"] = la
					longArrs = append(longArrs, la)
				}
				// always one time inside an array inside an object inside an array
				m["deep"] = []interface{}{map[string]interface{}{"ts": []interface{}{boundaryTimes()[g.pick(10)], g.Atom()}}}
				// direct codec round trip
				c.Evals++
				enc, err := d.Encode(d.NewDocumentOf(m))
				if err != nil {
					c.Violation(&Replay{Stream: "codec", Case: []interface{}{J{"k": "codec", "doc": encDoc(m)}}, Actual: []string{err.Error()}, Note: "document.Encode refuses a document of canonical values"})
					im.Destroy()
					return
				}
				if err == nil {
					dec, derr := d.Decode(enc)
					if derr != nil || canonDoc(dec.AsMap()) != canonDoc(m) {
						c.Violation(&Replay{Stream: "codec", Case: []interface{}{J{"k": "codec", "doc": encDoc(m)}}, Expected: []string{canonDoc(m)}, Actual: []string{fmt.Sprint(derr), canonDoc(dec.AsMap())}, Note: "document.Decode(document.Encode(d)) differs from d"})
						im.Destroy()
						return
					}
					if !cb(m, enc) {
						im.Destroy()
						return
					}
				}
				if strings.Contains(canonDoc(m), "[T") || strings.Contains(canonDoc(m), ",T") {
					c.NonTrivial(canonDoc(m))
				}
				switch g.pick(3) {
				case 0:
					lines = append(lines, opLine("insert", J{"coll": hx("r"), "docs": []interface{}{encDoc(m)}}))
				case 1:
					lines = append(lines, opLine("insert", J{"coll": hx("r"), "docs": []interface{}{encDoc(map[string]interface{}{"_id": id})}}),
						opLine("save", J{"coll": hx("r"), "doc": encDoc(m)}))
				default:
					kvs := []interface{}{}
					for _, k := range sortedKeys(m) {
						if k != "_id" && k != "" {
							kvs = append(kvs, []interface{}{hx(k), encValue(m[k])})
						}
					}
					lines = append(lines, opLine("insert", J{"coll": hx("r"), "docs": []interface{}{encDoc(map[string]interface{}{"_id": id})}}),
						opLine("updateById", J{"coll": hx("r"), "id": hx(id), "upd": J{"setAll": kvs}}))
				}
			}
			reads := func() {
				for _, id := range ids {
					lines = append(lines, opLine("findById", J{"coll": hx("r"), "id": hx(id)}))
				}
				lines = append(lines, opLine("findAll", J{"q": J{"coll": hx("r")}}))
				// reads BY QUERY: evaluating criteria (element lookups in long arrays, comparisons with nested values),
				// sorting and windowing must hand back the documents as they were written
				for _, la := range longArrs {
					lines = append(lines,
						opLine("findAll", J{"q": J{"coll": hx("r"), "crit": J{"contains": []interface{}{hx("long"), []interface{}{J{"lit": encValue(la[0])}, J{"lit": encValue(la[5])}}}}}}),
						opLine("findAll", J{"q": J{"coll": hx("r"), "crit": J{"in": []interface{}{hx("long"), []interface{}{J{"lit": encValue(la)}, J{"lit": encValue(la[1])}}}}, "sort": []interface{}{[]interface{}{hx("long"), 1}}}}),
						opLine("forEach", J{"q": J{"coll": hx("r"), "crit": J{"cmp": []interface{}{"ge", hx("long"), J{"lit": encValue(la[:3])}}}}}))
				}
				lines = append(lines, opLine("findAll", J{"q": J{"coll": hx("r"), "sort": []interface{}{[]interface{}{hx("long"), -1}, []interface{}{hx("_id"), 1}}, "skip": 1}}))
			}
			reads()
			// rewrites that keep every value's place in the order but not its type or zone (the same number as
			// int64 / uint64 / float64, the same instant at another offset, 2^53+1 as the float next to it): what is
			// read back must be what was written last - through every write path, the bulk ones included
			same := [][]interface{}{
				{int64(5), float64(5), uint64(5)},
				{mkTime(1577934245000000006, 0), mkTime(1577934245000000006, 3600), mkTime(1577934245000000006, -27000)},
				{int64(1<<53 + 1), float64(1 << 53), uint64(1<<53 + 1)},
				{[]interface{}{int64(1), "a"}, []interface{}{float64(1), "a"}},
				{map[string]interface{}{"k": int64(0)}, map[string]interface{}{"k": float64(0)}},
			}
			fam := same[g.pick(len(same))]
			lines = append(lines, opLine("update", J{"q": J{"coll": hx("r")}, "upd": J{"setAll": []interface{}{[]interface{}{hx("same"), encValue(fam[0])}}}, "viaUpdate": 1}))
			for k := 1; k < len(fam)+1; k++ {
				v := fam[k%len(fam)]
				switch g.pick(4) {
				case 0:
					lines = append(lines, opLine("update", J{"q": J{"coll": hx("r")}, "upd": J{"setAll": []interface{}{[]interface{}{hx("same"), encValue(v)}}}, "viaUpdate": 1}))
				case 1:
					lines = append(lines, opLine("update", J{"q": J{"coll": hx("r"), "crit": J{"exists": hx("same")}}, "upd": J{"setAll": []interface{}{[]interface{}{hx("same"), encValue(v)}}}}))
				case 2:
					lines = append(lines, opLine("updateById", J{"coll": hx("r"), "id": hx(ids[g.pick(len(ids))]), "upd": J{"setAll": []interface{}{[]interface{}{hx("same"), encValue(v)}}}}))
				default:
					lines = append(lines, opLine("update", J{"q": J{"coll": hx("r"), "sort": []interface{}{[]interface{}{hx("same"), 1}}, "limit": 4}, "upd": J{"setAll": []interface{}{[]interface{}{hx("same"), encValue(v)}}}, "viaUpdate": 1}))
				}
				reads()
			}
			if be != "badger-mem" {
				lines = append(lines, J{"k": "reopen"})
				reads()
			}
			o := runHistory(dr, im, lines, HistOpts{})
			recordHistory(c, lines, &o, be)
			if o.Index >= 0 {
				if reportHistoryProblem(c, dr, im, lines, &o, be, HistOpts{}, "roundtrip") {
					im.Destroy()
					return
				}
			}
		}
		im.Destroy()
	}
}

// ---- C17: index.Range and IterateRange ----

func encRange(r *index.Range) J {
	return J{"start": encValue(r.Start), "end": encValue(r.End), "si": r.StartIncluded, "ei": r.EndIncluded}
}

func showRangeGo(r *index.Range) string {
	a, b := "(", ")"
	if r.StartIncluded {
		a = "["
	}
	if r.EndIncluded {
		b = "]"
	}
	return a + canonValue(r.Start) + ";" + canonValue(r.End) + b
}

// inRangeVal: the code's own reading of a range (a nil start never constrains; a nil end is open
// when excluded and means "<= nil" when included), evaluated with the implementation's Compare.
func inRangeVal(r *index.Range, v interface{}) bool {
	lower := r.Start == nil || clover.VerifCompare(v, r.Start) > 0 || (clover.VerifCompare(v, r.Start) == 0 && r.StartIncluded)
	upper := (r.End == nil && !r.EndIncluded) || clover.VerifCompare(v, r.End) < 0 || (clover.VerifCompare(v, r.End) == 0 && r.EndIncluded)
	return lower && upper
}

func streamC17(c *Ctx) {
	c.Rule = "index contents with duplicate, nil, absent and mixed-type values; every range with at least one non-nil bound from the collection's value pool and its neighbours x both inclusivity flags x both directions, the nil-only range, full iteration, early stop after k entries; Range.IsEmpty / Range.Intersect on all pairs; " +
		"IterateRange through index.CreateIndex on both backends vs Lean iterateRange, and vs the direct oracle (ids of documents whose value is in range, in ascending (value,id) order, reversed when asked). non-trivial = distinct (index content, range, direction) yielding at least one and not all entries"
	dr := StartDriver(c.DriverBin)
	defer dr.Close()
	nColl := c.N(12, 150)
	dm := Domain{IntsWithin2p53: true, NoNegTimes: true}
	for _, be := range backendsAll {
		im := NewImpl(be, c.Scratch)
		// the ranges the planner derives from two constraints on one field (shared bounds, nil bounds), end to end
		if !sameFieldCells(c, dr, im, be) || !longStringRanges(c, dr, be) || !binaryAndArrayRanges(c, be) {
			im.Destroy()
			return
		}
		for cn := 0; cn < nColl; cn++ {
			g := NewGen(c.Rng, dm)
			h := NewHistGen(g, 1, 1)
			// collection and field names of varying length: the index builds its keys from "c:<coll>;i:<field>;" (buffer
			// sizes, allocator size classes); every third collection keeps the short names
			collN, fieldN := "i", "x"
			if cn%3 != 0 {
				collN = strings.Repeat("c", 1+g.pick(45))
				fieldN = "x" + strings.Repeat("f", g.pick(30))
			}
			lines := []J{opLine("createCollection", J{"coll": hx(collN)}), opLine("createIndex", J{"coll": hx(collN), "field": hx(fieldN)})}
			nd := 4 + g.pick(20)
			vals := map[string]interface{}{}
			has := map[string]bool{}
			docs := []interface{}{}
			for j := 0; j < nd; j++ {
				m := h.Doc(h.newId())
				if v, ok := m["x"]; ok && fieldN != "x" {
					delete(m, "x")
					m[fieldN] = v
				}
				if v, ok := m[fieldN]; ok {
					vals[m["_id"].(string)] = v
					has[m["_id"].(string)] = true
				} else {
					vals[m["_id"].(string)] = nil
				}
				docs = append(docs, encDoc(m))
			}
			lines = append(lines, opLine("insert", J{"coll": hx(collN), "docs": docs}))
			im.Reset()
			dr.Ask(J{"k": "reset"})
			for _, ln := range lines {
				im.Exec(ln, -1, false)
				dr.Ask(ln)
			}
			// ordered ids by (value, id) with the implementation's own Compare
			ids := make([]string, 0, len(vals))
			for id := range vals {
				ids = append(ids, id)
			}
			sort.Slice(ids, func(a, b int) bool {
				r := clover.VerifCompare(vals[ids[a]], vals[ids[b]])
				if r != 0 {
					return r < 0
				}
				return ids[a] < ids[b]
			})
			bounds := append([]interface{}{}, h.Pool...)
			ranges := []*index.Range{{Start: nil, End: nil, StartIncluded: true, EndIncluded: true}}
			for _, a := range bounds {
				for _, b := range append([]interface{}{nil}, bounds[:min(len(bounds), 6)]...) {
					for fl := 0; fl < 4; fl++ {
						if a == nil && b == nil {
							continue
						}
						ranges = append(ranges, &index.Range{Start: a, End: b, StartIncluded: fl&1 == 1, EndIncluded: fl&2 == 2})
						if b != nil {
							ranges = append(ranges, &index.Range{Start: nil, End: b, StartIncluded: false, EndIncluded: fl&2 == 2})
						}
					}
				}
			}
			tx, err := im.xs.inner.Begin(false)
			if err != nil {
				panic(err)
			}
			idx := index.CreateIndex(collN, fieldN, index.SingleField, tx).(index.RangeIndex)
			scan := func(r *index.Range, rev bool, stop int) ([]string, error) {
				out := []string{}
				cb := func(id string) error {
					out = append(out, id)
					if stop > 0 && len(out) >= stop {
						return clover.VerifErrStopIteration // a consumer that stopped must not be called again
					}
					return nil
				}
				var err error
				if r == nil {
					err = idx.Iterate(rev, cb)
				} else {
					err = idx.IterateRange(r, rev, cb)
				}
				if err == errStop {
					err = nil
				}
				return out, err
			}
			var pendingInter *Replay
			for ri, r := range ranges {
				// Range laws on the implementation
				c.Evals++
				me := dr.Ask(J{"k": "rempty", "r": encRange(r)})
				if me != b01(r.IsEmpty()) {
					c.Unexplained(&Replay{Stream: "range", Case: []interface{}{J{"k": "rempty", "r": encRange(r)}}, Expected: []string{me}, Actual: []string{b01(r.IsEmpty())}}, "correspondence K-C17/isEmpty")
					tx.Rollback()
					im.Destroy()
					return
				}
				if r.IsEmpty() {
					for _, v := range bounds {
						if inRangeVal(r, v) {
							c.Violation(&Replay{Stream: "range", Case: []interface{}{J{"k": "rempty", "r": encRange(r)}, J{"v": encValue(v)}}, Note: "a range is reported empty although a value lies in it"})
							tx.Rollback()
							im.Destroy()
							return
						}
					}
				}
				if ri%7 == 0 || pendingInter != nil {
					r2 := ranges[g.pick(len(ranges))]
					in := r.Intersect(r2)
					for _, v := range append([]interface{}{r.Start, r.End, r2.Start, r2.End}, bounds...) {
						if inRangeVal(r, v) && inRangeVal(r2, v) && !inRangeVal(in, v) {
							c.Violation(&Replay{Stream: "range", Case: []interface{}{J{"k": "rinter", "r": encRange(r), "r2": encRange(r2)}, J{"v": encValue(v)}}, Note: "the intersection excludes a value contained in both ranges"})
							tx.Rollback()
							im.Destroy()
							return
						}
					}
					mi := dr.Ask(J{"k": "rinter", "r": encRange(r), "r2": encRange(r2)})
					if mi != showRangeGo(in) && pendingInter == nil {
						// the correspondence is broken; keep going to find a pair on which the property itself fails
						pendingInter = &Replay{Stream: "range", Case: []interface{}{J{"k": "rinter", "r": encRange(r), "r2": encRange(r2)}}, Expected: []string{mi}, Actual: []string{showRangeGo(in)}}
					}
				}
				for _, rev := range []bool{false, true} {
					stop := 0
					if g.pick(5) == 0 {
						stop = 1 + g.pick(3)
					}
					got, err := scan(r, rev, stop)
					line := J{"k": "scan", "coll": hx(collN), "field": hx(fieldN), "r": encRange(r), "rev": rev}
					if stop > 0 {
						line["stopAfter"] = stop
					}
					if err != nil {
						c.Violation(&Replay{Backend: be, Stream: "scan", Case: append(toIfaces(lines), line), Actual: []string{err.Error()}, Note: "IterateRange failed"})
						tx.Rollback()
						im.Destroy()
						return
					}
					// direct oracle
					want := []string{}
					isNilOnly := r.Start == nil && r.End == nil && r.StartIncluded && r.EndIncluded
					for _, id := range ids {
						v := vals[id]
						if (isNilOnly && v == nil) || (!isNilOnly && inRangeVal(r, v)) {
							want = append(want, id)
						}
					}
					if r.IsEmpty() {
						want = []string{}
					}
					if rev {
						for a, b := 0, len(want)-1; a < b; a, b = a+1, b-1 {
							want[a], want[b] = want[b], want[a]
						}
					}
					if stop > 0 && len(want) > stop {
						want = want[:stop]
					}
					c.Evals++
					if len(want) > 0 && len(want) < len(ids) {
						c.NonTrivial(fmt.Sprint(cn, be, showRangeGo(r), rev))
					}
					c.Count(fmt.Sprintf("rev:%v", rev))
					if strings.Join(got, ",") != strings.Join(want, ",") {
						c.Violation(&Replay{Backend: be, Stream: "scan", Case: append(toIfaces(lines), line), Expected: []string{strings.Join(want, ",")}, Actual: []string{strings.Join(got, ",")},
							Note: "range scan " + showRangeGo(r) + fmt.Sprint(" reverse=", rev) + " does not yield exactly the in-range entries in order"})
						tx.Rollback()
						im.Destroy()
						return
					}
					hexIds := []string{}
					for _, id := range got {
						hexIds = append(hexIds, hx(id))
					}
					m := dr.Ask(line)
					if m != "ok ids "+strings.Join(hexIds, ",") {
						c.Unexplained(&Replay{Backend: be, Stream: "scan", Case: append(toIfaces(lines), line), Expected: []string{m}, Actual: []string{"ok ids " + strings.Join(hexIds, ",")}}, "correspondence K-C17/scan")
						tx.Rollback()
						im.Destroy()
						return
					}
				}
			}
			if pendingInter != nil {
				c.Unexplained(pendingInter, "correspondence K-C17/intersect")
				tx.Rollback()
				im.Destroy()
				return
			}
			// full iteration
			for _, rev := range []bool{false, true, false, true} {
				stop := 0
				if g.pick(2) == 0 {
					stop = 1 + g.pick(3)
				}
				got, _ := scan(nil, rev, stop)
				want := append([]string{}, ids...)
				if rev {
					for a, b := 0, len(want)-1; a < b; a, b = a+1, b-1 {
						want[a], want[b] = want[b], want[a]
					}
				}
				if stop > 0 && len(want) > stop {
					want = want[:stop]
				}
				if strings.Join(got, ",") != strings.Join(want, ",") {
					c.Violation(&Replay{Backend: be, Stream: "scan", Case: append(toIfaces(lines), J{"k": "scan", "coll": hx(collN), "field": hx(fieldN), "rev": rev}), Expected: []string{strings.Join(want, ",")}, Actual: []string{strings.Join(got, ",")}, Note: "full index iteration does not yield every document once in order"})
					tx.Rollback()
					im.Destroy()
					return
				}
			}
			tx.Rollback()
			if cn == 0 {
				c.Sample(J{"index_values": len(vals), "ranges": len(ranges), "example_range": showRangeGo(ranges[len(ranges)/2])})
			}
		}
		im.Destroy()
	}
}

var errStop = fmt.Errorf("%w", errStopBase)

// ---- C15: backends behave identically; cursor contract ----

func cursorWalk(tx store.Tx, target []byte, fwd bool) ([]string, error) {
	cur, err := tx.Cursor(fwd)
	if err != nil {
		return nil, err
	}
	defer cur.Close()
	out := []string{}
	if err := cur.Seek(target); err != nil {
		return nil, err
	}
	for ; cur.Valid(); cur.Next() {
		it, err := cur.Item()
		if err != nil {
			return nil, err
		}
		out = append(out, hx(string(it.Key)))
		if len(out) > 10000 {
			break
		}
	}
	return out, nil
}

func streamC15(c *Ctx) {
	c.Rule = "(i) cursor contract: random key sets (prefix-related keys, empty values, keys written in the same still-open transaction) x seek targets (present, absent, before the first, after the last, empty) x both directions on bbolt, badger in memory and badger on disk, vs the Lean store (seekFwd/seekRev) and vs the definition (first key >= target / last key <= target, then every key once in order); " +
		"(ii) the same random histories on all three backends, results compared pairwise (same sentinel or an error in both). non-trivial = distinct (key set, target, direction) with a non-empty walk"
	dr := StartDriver(c.DriverBin)
	defer dr.Close()
	bes := []string{"bbolt", "badger-mem", "badger-disk"}
	if !consumerErrors(c, bes) {
		return
	}
	if !keySizeLimits(c) || !txnSizeLimit(c) {
		return
	}
	nSets := c.N(60, 1500)
	alphabet := []string{"a", "b", "ab", "b\x00", "c", "c:", "c:a", "c:a;d:1", "c:a;i:x;", "coll:a", "d", "\xff", "\xff\xff", "a\xff", "", "z"}
	for si := 0; si < nSets; si++ {
		g := NewGen(c.Rng, Domain{})
		keys := map[string]bool{}
		for i := 0; i < 1+g.pick(10); i++ {
			k := alphabet[g.pick(len(alphabet))]
			if g.pick(3) == 0 {
				k += alphabet[g.pick(len(alphabet))]
			}
			if k != "" {
				keys[k] = true
			}
		}
		sorted := []string{}
		for k := range keys {
			sorted = append(sorted, k)
		}
		sort.Slice(sorted, func(i, j int) bool { return bytes.Compare([]byte(sorted[i]), []byte(sorted[j])) < 0 })
		nUncommitted := g.pick(len(sorted) + 1)
		for _, be := range bes {
			dir := filepath.Join(c.Scratch, fmt.Sprintf("cur-%s-%d", be, si))
			os.MkdirAll(dir, 0o755)
			st, err := openStore(be, dir)
			if err != nil {
				panic(err)
			}
			perm := g.R.Perm(len(sorted))
			tx, _ := st.Begin(true)
			for _, pi := range perm[:len(sorted)-nUncommitted] {
				var val []byte
				if g.pick(2) == 0 {
					val = []byte("v")
				}
				tx.Set([]byte(sorted[pi]), val)
			}
			tx.Commit()
			tx, _ = st.Begin(true)
			for _, pi := range perm[len(sorted)-nUncommitted:] {
				var val []byte
				if g.pick(2) == 0 {
					val = []byte{}
				}
				tx.Set([]byte(sorted[pi]), val) // visible to cursors of the same transaction
			}
			targets := append([]string{"", "\x00", "\xff\xff\xff", "c:a;i:x;\xff"}, sorted...)
			for _, k := range sorted {
				targets = append(targets, k+"\x00", k[:len(k)-1])
			}
			for _, t := range targets {
				for _, fwd := range []bool{true, false} {
					c.Evals++
					got, err := cursorWalk(tx, []byte(t), fwd)
					hexKeys := []interface{}{}
					for _, k := range sorted {
						hexKeys = append(hexKeys, hx(k))
					}
					line := J{"k": "cursor", "keys": hexKeys, "target": hx(t), "fwd": fwd, "backend": be}
					// the definition
					want := []string{}
					if fwd {
						for _, k := range sorted {
							if bytes.Compare([]byte(k), []byte(t)) >= 0 {
								want = append(want, hx(k))
							}
						}
					} else {
						for i := len(sorted) - 1; i >= 0; i-- {
							if bytes.Compare([]byte(sorted[i]), []byte(t)) <= 0 {
								want = append(want, hx(sorted[i]))
							}
						}
					}
					if len(want) > 0 {
						c.NonTrivial(fmt.Sprint(sorted, t, fwd))
					}
					c.Count("backend:" + be)
					if err != nil || strings.Join(got, ",") != strings.Join(want, ",") {
						c.Violation(&Replay{Backend: be, Stream: "cursor", Case: []interface{}{line}, Expected: []string{strings.Join(want, ",")}, Actual: []string{strings.Join(got, ","), fmt.Sprint(err)},
							Note: "cursor does not follow the contract (seek to first >= / last <= target, every key once in order, empty values visible)"})
						tx.Rollback()
						st.Close()
						return
					}
					if be == "bbolt" {
						if m := dr.Ask(line); m != strings.Join(want, ",") {
							c.Unexplained(&Replay{Stream: "cursor", Case: []interface{}{line}, Expected: []string{m}, Actual: []string{strings.Join(got, ",")}}, "correspondence K-C15/cursor")
							tx.Rollback()
							st.Close()
							return
						}
					}
				}
			}
			// ONE cursor sought again and again (the empty key first, then every other target, the empty key in between): each
			// seek positions the cursor afresh, whatever the cursor was sought to before
			for _, fwd := range []bool{true, false} {
				cur, cerr := tx.Cursor(fwd)
				if cerr != nil {
					break
				}
				seq := []string{""}
				for ti, t := range targets {
					seq = append(seq, t)
					if ti%3 == 2 {
						seq = append(seq, "")
					}
				}
				for _, t := range seq {
					c.Evals++
					cur.Seek([]byte(t))
					got := []string{}
					for n := 0; cur.Valid() && n < 3; n++ {
						it, ierr := cur.Item()
						if ierr != nil {
							break
						}
						got = append(got, hx(string(it.Key)))
						cur.Next()
					}
					want := []string{}
					if fwd {
						for _, k := range sorted {
							if bytes.Compare([]byte(k), []byte(t)) >= 0 && len(want) < 3 {
								want = append(want, hx(k))
							}
						}
					} else {
						for i := len(sorted) - 1; i >= 0; i-- {
							if bytes.Compare([]byte(sorted[i]), []byte(t)) <= 0 && len(want) < 3 {
								want = append(want, hx(sorted[i]))
							}
						}
					}
					if strings.Join(got, ",") != strings.Join(want, ",") {
						hexKeys := []interface{}{}
						for _, k := range sorted {
							hexKeys = append(hexKeys, hx(k))
						}
						c.Violation(&Replay{Backend: be, Stream: "cursor", Case: []interface{}{J{"k": "cursor-reseek", "keys": hexKeys, "target": hx(t), "fwd": fwd, "backend": be}}, Expected: []string{strings.Join(want, ",")}, Actual: []string{strings.Join(got, ",")},
							Note: "a cursor that had been sought before does not position itself afresh on the next Seek"})
						cur.Close()
						tx.Rollback()
						st.Close()
						return
					}
				}
				cur.Close()
				c.Count("cursor-reseek:" + be)
			}
			tx.Rollback()
			st.Close()
			os.RemoveAll(dir)
		}
		if si == 0 {
			c.Sample(J{"keys": sorted, "uncommitted": nUncommitted})
		}
	}
	// (ii) histories on every backend
	nHist := c.N(25, 600)
	dm := Domain{IntsWithin2p53: true, NoNegTimes: true}
	impls := []*Impl{}
	for _, be := range bes {
		impls = append(impls, NewImpl(be, c.Scratch))
	}
	defer func() {
		for _, im := range impls {
			im.Destroy()
		}
	}()
	for hN := 0; hN < nHist; hN++ {
		g := NewGen(c.Rng, dm)
		h := NewHistGen(g, 2, 3)
		lines := h.History(HistCfg{Ops: 25, QueriesPer: 2, Indexes: true, Dumps: true, Malformed: true, NoFresh: true})
		if hN < 4 {
			// indexes of several sizes created, dropped and re-created: from a few entries (sharing a storage
			// page with the catalog) to many pages
			lines = bigIndexHistory(g, []int{25, 90, c.N(300, 2000), 9}[hN])
		}
		var first *HistoryOutcome
		for bi, im := range impls {
			o := runHistory(dr, im, lines, HistOpts{})
			recordHistory(c, lines, &o, bes[bi])
			if o.Index >= 0 {
				if reportHistoryProblem(c, dr, im, lines, &o, bes[bi], HistOpts{}, "backends") {
					return
				}
			}
			if bi == 0 {
				oo := o
				first = &oo
				continue
			}
			for i := range o.Results {
				a, b := first.Results[i].Impl, o.Results[i].Impl
				if a == b || (strings.HasPrefix(a, "err other") && strings.HasPrefix(b, "err other")) {
					continue
				}
				// freshly generated ids differ between runs: compare shapes then
				if lines[i]["k"] == "op" && (strings.Contains(fmt.Sprint(lines[i]["docs"]), "[[") || true) && sameUpToFreshIds(a, b) {
					continue
				}
				c.Violation(&Replay{Backend: bes[bi], Stream: "history", Case: toIfaces(lines[:i+1]), FirstDivergence: i, Expected: []string{bes[0] + ": " + a}, Actual: []string{bes[bi] + ": " + b}, Note: "backends answer differently"})
				return
			}
		}
	}
}

// sameUpToFreshIds: results may contain ids generated at random by Insert; they are compared
// after masking every 36-byte UUID text (hex-encoded: 72 hex digits after "S").
func sameUpToFreshIds(a, b string) bool {
	return maskIds(a) == maskIds(b)
}

func maskIds(s string) string {
	out := []byte{}
	for i := 0; i < len(s); {
		if s[i] == 'S' && i+73 <= len(s) && len(hexRun(s[i+1:])) == 72 {
			out = append(out, "S<id>"...)
			i += 73
			continue
		}
		if i+72 <= len(s) && len(hexRun(s[i:])) >= 72 && (i == 0 || !isHexByte(s[i-1])) {
			run := hexRun(s[i:])
			out = append(out, "<hex>"...)
			i += len(run)
			continue
		}
		out = append(out, s[i])
		i++
	}
	return string(out)
}

func isHexByte(b byte) bool { return (b >= '0' && b <= '9') || (b >= 'a' && b <= 'f') }

// ---- C20: no public operation panics ----

func streamC20(c *Ctx) {
	c.Rule = "every public call of every stream runs under recover(); this stream crosses criteria shapes (negated In/Like/Exists/Contains/MatchFunc, field-reference and nil operands, deep trees) x {no index, any index} x {missing collection / index / document} x {after Close} x backends, plus direct calls of the document, query and index APIs with unusual but well-typed arguments; " +
		"a panic or a call that does not return within the deadline is a violation. non-trivial = distinct (operation, state kind) executed"
	for _, be := range backendsAll {
		// binary values ([]byte): stored as they are, they take part in every comparison, sort and index
		if !binaryValues(c, be) {
			return
		}
	}
	if !consumerErrors(c, backendsAll) {
		return
	}
	dr := StartDriver(c.DriverBin)
	defer dr.Close()
	nHist := c.N(100, 1500)
	dm := Domain{IntsWithin2p53: true, NoNegTimes: true}
	for _, be := range []string{"bbolt", "badger-mem", "badger-disk"} {
		im := NewImpl(be, c.Scratch)
		{
			// edges of the key space: a collection whose name sorts first, with indexes and NO documents (never had any;
			// all deleted), alone in the database and next to others: every leaf form x sort direction x window through the
			// index, so that cursors start, stop and reverse at the very first and last key of the store
			g := NewGen(c.Rng, dm)
			h := NewHistGen(g, 1, 2)
			lines := []J{opLine("createCollection", J{"coll": hx("!")}), opLine("createIndex", J{"coll": hx("!"), "field": hx("x")}), opLine("createIndex", J{"coll": hx("!"), "field": hx("n.a")})}
			sweep := func() {
				for _, op := range []string{"eq", "gt", "ge", "lt", "le"} {
					for _, v := range []interface{}{int64(5), nil, "a", true} {
						for _, dir := range []int{0, 1, -1} {
							q := J{"coll": hx("!"), "crit": J{"cmp": []interface{}{op, hx("x"), J{"lit": encValue(v)}}}}
							if dir != 0 {
								q["sort"] = []interface{}{[]interface{}{hx("x"), dir}}
							}
							lines = append(lines, opLine([]string{"findAll", "count", "exists", "findFirst"}[g.pick(4)], J{"q": q}))
						}
					}
				}
				lines = append(lines, opLine("findAll", J{"q": J{"coll": hx("!"), "sort": []interface{}{[]interface{}{hx("x"), -1}}}}), opLine("findAll", J{"q": J{"coll": hx("!"), "sort": []interface{}{[]interface{}{hx("n.a"), 1}}}}),
					opLine("delete", J{"q": J{"coll": hx("!"), "crit": J{"cmp": []interface{}{"lt", hx("x"), J{"lit": encValue(int64(3))}}}, "sort": []interface{}{[]interface{}{hx("x"), -1}}}}),
					opLine("update", J{"q": J{"coll": hx("!"), "crit": J{"cmp": []interface{}{"gt", hx("x"), J{"lit": encValue(int64(3))}}}, "sort": []interface{}{[]interface{}{hx("x"), 1}}}, "upd": h.Upd()}))
			}
			sweep()
			docs := []interface{}{}
			for j := 0; j < 4; j++ {
				docs = append(docs, encDoc(h.Doc(h.newId())))
			}
			lines = append(lines, opLine("insert", J{"coll": hx("!"), "docs": docs}))
			sweep()
			lines = append(lines, opLine("delete", J{"q": J{"coll": hx("!")}}))
			sweep()
			lines = append(lines, opLine("createCollection", J{"coll": hx("~")}), opLine("insert", J{"coll": hx("~"), "docs": docs}), opLine("dropIndex", J{"coll": hx("!"), "field": hx("n.a")}))
			sweep()
			o := runHistory(dr, im, lines, HistOpts{})
			recordHistory(c, lines, &o, be)
			c.Count("edge-of-keyspace")
			for i, r := range o.Results {
				if strings.HasPrefix(r.Impl, "panic") {
					c.Violation(&Replay{Backend: be, Stream: "history", Case: toIfaces(lines[:i+1]), FirstDivergence: i, Actual: []string{r.Impl}, Note: "a public operation panicked"})
					im.Destroy()
					return
				}
			}
			if o.Index >= 0 {
				if reportHistoryProblem(c, dr, im, lines, &o, be, HistOpts{}, "panics") {
					im.Destroy()
					return
				}
			}
			im.Reset()
		}
		for hN := 0; hN < nHist; hN++ {
			g := NewGen(c.Rng, dm)
			h := NewHistGen(g, 2, 4)
			lines := h.History(HistCfg{Ops: 15, QueriesPer: 3, Indexes: true, Malformed: true, IndexHeavy: hN%2 == 0})
			// operations on missing things and after Close
			missing := "missing"
			tail := []J{
				opLine("findAll", J{"q": h.Query(missing)}), opLine("count", J{"q": J{"coll": hx(missing)}}), opLine("listIndexes", J{"coll": hx(missing)}),
				opLine("hasIndex", J{"coll": hx(missing), "field": hx("x")}), opLine("dropIndex", J{"coll": hx(missing), "field": hx("x")}), opLine("createIndex", J{"coll": hx(missing), "field": hx("x")}),
				opLine("deleteById", J{"coll": hx(missing), "id": hx(h.someId())}), opLine("updateById", J{"coll": hx(missing), "id": hx(h.someId()), "upd": h.Upd()}),
				opLine("delete", J{"q": h.Query(missing)}), opLine("update", J{"q": h.Query(missing), "upd": h.Upd()}), opLine("dropCollection", J{"coll": hx(missing)}),
				opLine("findById", J{"coll": hx(missing), "id": hx(h.someId())}), opLine("exists", J{"q": h.Query(missing)}), opLine("findFirst", J{"q": h.Query(missing)}),
				opLine("updateById", J{"coll": hx(h.coll()), "id": hx(h.someId()), "upd": J{"nil": true}}),
			}
			lines = append(lines, tail...)
			if hN%3 == 0 {
				lines = append(lines, J{"k": "close"})
				c0 := h.coll()
				lines = append(lines, opLine("listCollections", J{}), opLine("findAll", J{"q": h.Query(c0)}), opLine("insert", J{"coll": hx(c0), "docs": []interface{}{encDoc(h.Doc(h.newId()))}}),
					opLine("count", J{"q": J{"coll": hx(c0)}}), opLine("createCollection", J{"coll": hx("late")}), opLine("hasCollection", J{"coll": hx(c0)}),
					opLine("createIndex", J{"coll": hx(c0), "field": hx("x")}), opLine("dropCollection", J{"coll": hx(c0)}), opLine("listIndexes", J{"coll": hx(c0)}),
					opLine("delete", J{"q": h.Query(c0)}), opLine("findById", J{"coll": hx(c0), "id": hx(h.someId())}), opLine("createCollectionByQuery", J{"coll": hx("late2"), "q": h.Query(c0)}))
			}
			o := runHistory(dr, im, lines, HistOpts{})
			recordHistory(c, lines, &o, be)
			for i, r := range o.Results {
				if strings.HasPrefix(r.Impl, "panic") {
					c.Violation(&Replay{Backend: be, Stream: "history", Case: toIfaces(lines[:i+1]), FirstDivergence: i, Actual: []string{r.Impl}, Note: "a public operation panicked"})
					im.Destroy()
					return
				}
			}
			if o.Index >= 0 {
				if reportHistoryProblem(c, dr, im, lines, &o, be, HistOpts{}, "panics") {
					im.Destroy()
					return
				}
			}
			if hN%3 == 0 {
				im.Reopen() // the handle was closed by the history
			}
		}
		im.Destroy()
	}
	// Save of data that cannot be converted to a document (a struct holding a channel or a function, a scalar, a slice,
	// a map with non-string keys): an error, nothing stored - never a panic
	for _, be := range backendsAll {
		im := NewImpl(be, c.Scratch)
		im.db.CreateCollection("sv")
		type withChan struct {
			Name string
			C    chan int
		}
		type withFunc struct {
			F func()
			N int
		}
		type nested struct {
			Inner *withChan
		}
		before := im.Dump()
		for i, data := range []interface{}{withChan{Name: "x", C: make(chan int)}, &withFunc{N: 1}, nested{Inner: &withChan{}}, 42, "s", []int{1}, map[int]string{1: "a"}, 3.5, true, complex(1, 2)} {
			var err error
			pan := ""
			func() {
				defer func() {
					if r := recover(); r != nil {
						pan = fmt.Sprint(r)
					}
				}()
				err = im.db.Save("sv", data)
			}()
			c.Evals++
			if pan != "" || err == nil || im.Dump() != before {
				c.Violation(&Replay{Backend: be, Stream: "api", Case: []interface{}{J{"k": "save-unconvertible", "i": i, "type": fmt.Sprintf("%T", data)}}, Actual: []string{pan, fmt.Sprint(err)},
					Note: "Save of a value that cannot be converted to a document must return an error and store nothing"})
				im.Destroy()
				return
			}
			c.NonTrivial(fmt.Sprint("save-unconvertible", be, i))
		}
		im.Destroy()
	}
	// direct API calls
	g := NewGen(c.Rng, Domain{})
	for i := 0; i < c.N(9000, 120000); i++ {
		c.Evals++
		func() {
			defer func() {
				if r := recover(); r != nil {
					c.Violation(&Replay{Stream: "api", Case: []interface{}{J{"k": "api", "i": i}}, Actual: []string{fmt.Sprint(r)}, Note: "a document/index API call panicked; re-run with the same seed"})
				}
			}()
			doc := d.NewDocument()
			paths := []string{"a", "a.b", "a.b.c", "", ".", "a.", ".a", "a..b", "_id", "$x", "a;b", "é.ü"}
			for k := 0; k < 6; k++ {
				p := paths[g.pick(len(paths))]
				doc.Set(p, g.Value(2))
				_ = doc.Get(paths[g.pick(len(paths))])
				_ = doc.Has(paths[g.pick(len(paths))])
			}
			_ = doc.Fields(true)
			_ = doc.ToMap()
			_ = doc.ObjectId()
			_ = doc.ExpiresAt()
			_ = doc.TTL()
			_ = d.Validate(doc)
			var out map[string]interface{}
			_ = doc.Unmarshal(&out)
			// the rest of the public surface, with what it must answer
			exp := mkTime(1900000000000000000+int64(g.pick(1000)), []int{0, 3600, -3630}[g.pick(3)])
			doc.SetExpiresAt(exp)
			if e := doc.ExpiresAt(); e == nil || !e.Equal(exp) {
				c.Violation(&Replay{Stream: "api", Case: []interface{}{J{"k": "api", "i": i}}, Note: "ExpiresAt does not return what SetExpiresAt stored"})
			}
			if doc.TTL() <= 0 {
				c.Violation(&Replay{Stream: "api", Case: []interface{}{J{"k": "api", "i": i}}, Note: "TTL of a document expiring in 2030 is not positive"})
			}
			all := map[string]interface{}{"p": int64(i), "q.r": "s", "t": nil}
			d2 := d.NewDocument()
			d2.SetAll(all)
			if d2.Get("p") != int64(i) || d2.Get("q.r") != "s" || !d2.Has("t") || !d2.Has("q") {
				c.Violation(&Replay{Stream: "api", Case: []interface{}{J{"k": "api", "i": i}}, Actual: []string{canonDoc(d2.AsMap())}, Note: "SetAll does not set every (unrelated) path of its map"})
			}
			id1, id2 := clover.NewObjectId(), clover.NewObjectId()
			idDoc := d.NewDocument()
			idDoc.Set("_id", id1)
			if id1 == id2 || len(id1) != 36 || d.Validate(idDoc) != nil {
				c.Violation(&Replay{Stream: "api", Case: []interface{}{J{"k": "api", "i": i}}, Actual: []string{id1, id2}, Note: "NewObjectId does not produce distinct valid ids"})
			}
			sk, lim := g.pick(7)-3, g.pick(7)-3
			q := query.NewQuery("cq").Skip(sk).Limit(lim)
			wantSkip := sk
			if sk < 0 {
				wantSkip = 0
			}
			if q.Collection() != "cq" || q.GetSkip() != wantSkip || q.GetLimit() != lim || len(q.SortOptions()) != 0 || q.Criteria() != nil {
				c.Violation(&Replay{Stream: "api", Case: []interface{}{J{"k": "api", "skip": sk, "limit": lim}}, Actual: []string{fmt.Sprint(q.GetSkip(), q.GetLimit())}, Note: "query getters do not report what the builders set (negative skip ignored, limit as given)"})
			}
			dir := g.pick(9) - 4
			qs := q.Sort(query.SortOption{Field: "f", Direction: dir})
			wantDir := 1
			if dir < 0 {
				wantDir = -1
			}
			if so := qs.SortOptions(); len(so) != 1 || so[0].Field != "f" || so[0].Direction != wantDir || len(q.SortOptions()) != 0 || qs.GetSkip() != wantSkip {
				c.Violation(&Replay{Stream: "api", Case: []interface{}{J{"k": "api", "dir": dir}}, Note: "Sort does not normalise the direction to ±1, or modifies the query it was called on"})
			}
			if so := q.Sort().SortOptions(); len(so) != 1 || so[0].Field != "_id" || so[0].Direction != 1 {
				c.Violation(&Replay{Stream: "api", Case: []interface{}{J{"k": "api"}}, Note: "Sort() without options does not sort by _id ascending"})
			}
			if !query.IsField(query.Field("x")) || query.IsField("x") || query.IsField(nil) {
				c.Violation(&Replay{Stream: "api", Case: []interface{}{J{"k": "api"}}, Note: "IsField misclassifies an operand"})
			}
			r := &index.Range{Start: g.Atom(), End: g.Atom(), StartIncluded: g.pick(2) == 0, EndIncluded: g.pick(2) == 0}
			_ = r.IsEmpty()
			_ = r.IsNil()
			_ = r.Intersect(&index.Range{Start: g.Atom(), End: g.Atom()})
		}()
		if c.Violations > 0 {
			return
		}
	}
}

// codecBytes: the byte-level model of the codec (Model/Msgpack.lean) against the real functions, both directions:
//   - the bytes document.Encode produced, decoded by the MODEL's decoder, give the document (any entry order);
//   - the bytes the MODEL's encoder produces, decoded by document.Decode, give the document;
//   - the two byte strings have the same length, and are identical when no map has more than one entry (Go writes
//     the entries of a map in random order, the model in key order).
func codecBytes(c *Ctx, dr *Driver, m map[string]interface{}, enc []byte) bool {
	want := canonDoc(m)
	line := J{"k": "mpdec", "bytes": hex.EncodeToString(enc)}
	if got := dr.Ask(line); got != "ok "+want {
		c.Unexplained(&Replay{Stream: "codec-bytes", Case: []interface{}{J{"k": "codec", "doc": encDoc(m)}, line}, Expected: []string{"ok " + want}, Actual: []string{got}}, "correspondence K-C11/model-decodes-impl-bytes")
		return false
	}
	mb := dr.Ask(J{"k": "mpenc", "doc": encDoc(m)})
	raw, herr := hex.DecodeString(mb)
	if herr != nil {
		c.Unexplained(&Replay{Stream: "codec-bytes", Case: []interface{}{J{"k": "mpenc", "doc": encDoc(m)}}, Actual: []string{mb}}, "correspondence K-C11/model-encoder")
		return false
	}
	dec, derr := d.Decode(raw)
	if derr != nil || canonDoc(dec.AsMap()) != want {
		c.Unexplained(&Replay{Stream: "codec-bytes", Case: []interface{}{J{"k": "mpenc", "doc": encDoc(m)}}, Expected: []string{want}, Actual: []string{fmt.Sprint(derr), canonDoc(dec.AsMap())}}, "correspondence K-C11/impl-decodes-model-bytes")
		return false
	}
	if len(raw) != len(enc) || (singleEntryMaps(m) && mb != hex.EncodeToString(enc)) {
		c.Unexplained(&Replay{Stream: "codec-bytes", Case: []interface{}{J{"k": "mpenc", "doc": encDoc(m)}}, Expected: []string{mb}, Actual: []string{hex.EncodeToString(enc)}}, "correspondence K-C11/bytes")
		return false
	}
	c.Count("codec-bytes")
	if singleEntryMaps(m) {
		c.Count("codec-bytes:identical")
	}
	return true
}

func singleEntryMaps(v interface{}) bool {
	switch x := v.(type) {
	case map[string]interface{}:
		if len(x) > 1 {
			return false
		}
		for _, e := range x {
			if !singleEntryMaps(e) {
				return false
			}
		}
	case []interface{}:
		for _, e := range x {
			if !singleEntryMaps(e) {
				return false
			}
		}
	}
	return true
}
