package main

import (
	"fmt"
	"math"
	"math/rand"
	"runtime"
	"strings"
	"sync"
	"sync/atomic"
	"time"

	d "github.com/ostafen/clover/v2/document"
	"github.com/ostafen/clover/v2/query"
)

func init() { streams["C07"] = streamC07 }

// streamC07: several goroutines share one handle. Every batch insert / bulk update / bulk delete
// carries a tag owned by one writer; readers must see all or none of a tag (same version for all
// of its documents); a shared counter document is incremented by read-modify-write updates and
// must never lose an increment nor go backwards for a reader; index creation and drops run
// concurrently. Scheduling is perturbed at every store call. Built with -race by the check.
func streamC07(c *Ctx) {
	c.Rule = "an insert batch beyond badger's transaction limit is refused as a whole (never committed in parts); 2-8 goroutines on one handle (bbolt: lock/snapshot discipline; badger: optimistic transactions, conflicts retried), scheduling perturbed at every store call (Gosched / short sleeps), race detector on: " +
		"tagged batch inserts, bulk updates and bulk deletes observed by concurrent readers must be all-or-nothing and version-uniform; a shared counter incremented by UpdateById must equal the number of acknowledged increments and be monotone for every reader; concurrent index create/drop must not change any answer; " +
		"the final state must be the one the per-tag sequential histories give; pairs of bulk updates that move documents into each other's selection (by equality, by range, across two fields; with and without indexes; each held after selecting until the other has selected) end in the state of one of their two sequential orders. non-trivial = distinct (round, reader observation) that saw a tag present"
	rounds := c.N(6, 80)
	// an operation larger than one backend transaction must not be split into several (its parts would become
	// visible to concurrent readers one after the other): it is refused as a whole
	if !bigBatchNoTrace(c, "badger-mem") {
		return
	}
	// two bulk writes that move documents into each other's selection, held until both have selected
	for _, be := range []string{"bbolt", "badger-mem", "badger-disk"} {
		if !c07CrossingWrites(c, be) || !c07QueuedWriters(c, be) || !c07ConcurrentClose(c, be) {
			return
		}
	}
	for _, be := range []string{"bbolt", "badger-mem"} {
		for round := 0; round < rounds; round++ {
			seed := c.Rng.Int63()
			if !c07Round(c, be, round, seed) {
				return
			}
		}
	}
}

func c07Round(c *Ctx, be string, round int, seed int64) bool {
	im := NewImpl(be, c.Scratch)
	defer im.Destroy()
	var pseed int64 = seed
	im.xs.perturb = func() {
		n := atomic.AddInt64(&pseed, 0x9E3779B97F4A7C15>>1)
		switch (n >> 7) % 8 {
		case 0, 1, 2:
			runtime.Gosched()
		case 3:
			time.Sleep(time.Duration(n%50) * time.Microsecond)
		}
	}
	db := im.db
	if err := db.CreateCollection("s"); err != nil {
		panic(err)
	}
	regId := fixedId(999999)
	reg := d.NewDocumentOf(map[string]interface{}{"_id": regId, "v": int64(0), "tag": "reg"})
	db.Insert("s", reg)
	db.CreateIndex("s", "x")
	db.CreateIndex("s", "ver")
	// documents every writer tries to delete by id: concurrent deletes of the same id must count once
	victims := []string{}
	vdocs := []*d.Document{}
	for i := 0; i < 6; i++ {
		id := fixedId(800000 + i)
		victims = append(victims, id)
		vdocs = append(vdocs, d.NewDocumentOf(map[string]interface{}{"_id": id, "tag": "victim", "x": int64(i)}))
	}
	db.Insert("s", vdocs...)
	rng := rand.New(rand.NewSource(seed))
	nWriters := 2 + rng.Intn(3)
	nReaders := 1 + rng.Intn(3)
	var wg sync.WaitGroup
	var failMu sync.Mutex
	failure := ""
	fail := func(s string) {
		failMu.Lock()
		if failure == "" {
			failure = s
		}
		failMu.Unlock()
	}
	var stop int32
	var increments int64
	var freshCount, sharedIncs int64
	freshIds := sync.Map{}
	sdocs := []*d.Document{}
	for i := 0; i < 4; i++ {
		sdocs = append(sdocs, d.NewDocumentOf(map[string]interface{}{"_id": fixedId(700000 + i), "tag": "shared", "cnt": int64(0), "x": int64(i)}))
	}
	db.Insert("s", sdocs...)
	finalExpect := sync.Map{} // tag -> expected (count, version) or absent
	isConflict := func(err error) bool {
		return err != nil && (strings.Contains(err.Error(), "onflict") || strings.Contains(err.Error(), "retry"))
	}
	retry := func(f func() error) error {
		var err error
		for i := 0; i < 200; i++ {
			err = f()
			if !isConflict(err) {
				return err
			}
			runtime.Gosched()
		}
		return err
	}
	for w := 0; w < nWriters; w++ {
		wg.Add(1)
		go func(w int) {
			defer wg.Done()
			defer func() {
				if p := recover(); p != nil {
					fail(fmt.Sprint("a public operation panicked under concurrent use: ", p))
				}
			}()
			r := rand.New(rand.NewSource(seed + int64(w)*7919))
			for it := 0; it < 6; it++ {
				// documents WITHOUT an _id (the id is generated inside the call: whatever state the generator keeps is shared)
				for f := 0; f < 4; f++ {
					doc := d.NewDocumentOf(map[string]interface{}{"tag": "fresh", "w": int64(w)})
					var id string
					if err := retry(func() error { var e error; id, e = db.InsertOne("s", doc); return e }); err != nil {
						fail("insert of a document without _id failed: " + err.Error())
						return
					}
					if _, dup := freshIds.LoadOrStore(id, true); dup {
						fail("two concurrent inserts were given the same generated _id " + id)
						return
					}
					atomic.AddInt64(&freshCount, 1)
				}
				// a bulk read-modify-write of the SAME documents from every writer: selection and rewriting are one atomic step
				if err := retry(func() error {
					return db.UpdateFunc(query.NewQuery("s").Where(query.Field("tag").Eq("shared")), func(doc *d.Document) *d.Document {
						n, _ := doc.Get("cnt").(int64)
						doc.Set("cnt", n+1)
						return doc
					})
				}); err != nil {
					fail("bulk increment failed: " + err.Error())
					return
				}
				atomic.AddInt64(&sharedIncs, 1)
				tag := fmt.Sprintf("w%d-%d", w, it)
				k := 2 + r.Intn(12)
				docs := []*d.Document{}
				for j := 0; j < k; j++ {
					docs = append(docs, d.NewDocumentOf(map[string]interface{}{"_id": fixedId(100000*w + 1000*it + j + 1), "tag": tag, "ver": int64(0), "x": int64(j % 3)}))
				}
				if err := retry(func() error { return db.Insert("s", docs...) }); err != nil {
					fail("insert failed: " + err.Error())
					return
				}
				finalExpect.Store(tag, [2]int64{int64(k), 0})
				ver := int64(0)
				for u := 0; u < r.Intn(3); u++ {
					ver++
					v := ver
					if err := retry(func() error {
						return db.Update(query.NewQuery("s").Where(query.Field("tag").Eq(tag)), map[string]interface{}{"ver": v, "x": v % 3})
					}); err != nil {
						fail("update failed: " + err.Error())
						return
					}
					finalExpect.Store(tag, [2]int64{int64(k), ver})
				}
				if r.Intn(3) == 0 {
					if err := retry(func() error { return db.Delete(query.NewQuery("s").Where(query.Field("tag").Eq(tag))) }); err != nil {
						fail("delete failed: " + err.Error())
						return
					}
					finalExpect.Store(tag, [2]int64{0, 0})
				}
				if it < len(victims) {
					if err := retry(func() error { return db.DeleteById("s", victims[it]) }); err != nil {
						fail("DeleteById failed: " + err.Error())
						return
					}
				}
				// read-modify-write on the shared counter
				if err := retry(func() error {
					return db.UpdateById("s", regId, func(doc *d.Document) *d.Document {
						nd := doc.Copy()
						nd.Set("v", doc.Get("v").(int64)+1)
						return nd
					})
				}); err != nil {
					fail("increment failed: " + err.Error())
					return
				}
				atomic.AddInt64(&increments, 1)
				if r.Intn(4) == 0 {
					f := []string{"x", "ver", "tag"}[r.Intn(3)]
					if r.Intn(2) == 0 {
						retry(func() error { return db.CreateIndex("s", f) })
					} else {
						retry(func() error { return db.DropIndex("s", f) })
					}
				}
			}
		}(w)
	}
	var observations int64
	for rd := 0; rd < nReaders; rd++ {
		wg.Add(1)
		go func(rd int) {
			defer wg.Done()
			defer func() {
				if p := recover(); p != nil {
					fail(fmt.Sprint("a read operation panicked under concurrent use: ", p))
				}
			}()
			lastReg := int64(-1)
			for atomic.LoadInt32(&stop) == 0 {
				// reads THROUGH an index while writers add and move entries of the same index: every document handed back
				// satisfies the criterion (whatever state a query computes per call - range bounds, key buffers - is its own)
				for _, f := range []string{"x", "ver"} {
					bound := int64(1)
					rdocs, rerr := db.FindAll(query.NewQuery("s").Where(query.Field(f).LtEq(bound)).Sort(query.SortOption{Field: f, Direction: 1}))
					if rerr != nil {
						if isConflict(rerr) {
							continue
						}
						fail("FindAll through an index failed: " + rerr.Error())
						return
					}
					prev := int64(math.MinInt64)
					for _, doc := range rdocs {
						v, isNum := doc.Get(f).(int64)
						if doc.Has(f) && doc.Get(f) != nil && (!isNum || v > bound) {
							fail(fmt.Sprintf("a query %s <= %d returned a document with %s = %v", f, bound, f, doc.Get(f)))
							return
						}
						if isNum {
							if v < prev {
								fail(fmt.Sprintf("a query sorted by %s returned %d after %d", f, v, prev))
								return
							}
							prev = v
						}
					}
				}
				docs, err := db.FindAll(query.NewQuery("s"))
				if err != nil {
					if isConflict(err) {
						continue
					}
					fail("FindAll failed: " + err.Error())
					return
				}
				byTag := map[string][]*d.Document{}
				for _, doc := range docs {
					t, _ := doc.Get("tag").(string)
					byTag[t] = append(byTag[t], doc)
				}
				for t, ds := range byTag {
					if t == "victim" || t == "fresh" {
						continue
					}
					if t == "shared" {
						for _, doc := range ds {
							if doc.Get("cnt") != ds[0].Get("cnt") {
								fail("reader saw a partially applied bulk increment of the shared documents")
								return
							}
						}
						continue
					}
					if t == "reg" {
						v := ds[0].Get("v").(int64)
						if v < lastReg {
							fail(fmt.Sprintf("reader saw the counter go backwards: %d after %d", v, lastReg))
							return
						}
						lastReg = v
						continue
					}
					atomic.AddInt64(&observations, 1)
					ver := ds[0].Get("ver")
					for _, doc := range ds {
						if doc.Get("ver") != ver {
							fail(fmt.Sprintf("reader saw a partially applied bulk update of tag %s", t))
							return
						}
					}
					// all-or-none: the batch size is encoded in the ids (consecutive from 1)
					ids := map[string]bool{}
					for _, doc := range ds {
						ids[doc.ObjectId()] = true
					}
					var w, it int
					fmt.Sscanf(t, "w%d-%d", &w, &it)
					for j := 0; j < len(ds); j++ {
						if !ids[fixedId(100000*w+1000*it+j+1)] {
							fail(fmt.Sprintf("reader saw a partially applied batch or bulk delete of tag %s (%d documents, not a prefix-complete set)", t, len(ds)))
							return
						}
					}
					if exp, ok := finalExpect.Load(t); ok {
						if e := exp.([2]int64); e[0] != 0 && int64(len(ds)) != e[0] && len(ds) != 0 {
							// the writer may be between operations; sizes other than 0 and k are torn
							fail(fmt.Sprintf("reader saw %d of %d documents of tag %s", len(ds), e[0], t))
							return
						}
					}
				}
				// a second, index-dependent view must agree with itself
				n, err := db.Count(query.NewQuery("s").Where(query.Field("x").GtEq(0)))
				_ = n
				if err != nil && !isConflict(err) {
					fail("Count failed: " + err.Error())
					return
				}
			}
		}(rd)
	}
	done := make(chan struct{})
	go func() {
		// writers first
		time.Sleep(time.Millisecond)
		wg.Wait()
		close(done)
	}()
	// stop readers when writers are done: writers are the first nWriters goroutines; poll
	go func() {
		for {
			time.Sleep(2 * time.Millisecond)
			if atomic.LoadInt64(&increments) >= int64(nWriters*6) || failure != "" {
				atomic.StoreInt32(&stop, 1)
				return
			}
		}
	}()
	select {
	case <-done:
	case <-time.After(60 * time.Second):
		atomic.StoreInt32(&stop, 1)
		c.Violation(&Replay{Backend: be, Stream: "race", Case: []interface{}{J{"seed": seed, "round": round}}, Note: "operations did not return within 60 s (blocked)"})
		return false
	}
	c.Evals++
	c.Count("round:" + be)
	c.Count(fmt.Sprintf("writers:%d", nWriters))
	if observations > 0 {
		c.NonTrivial(fmt.Sprint(be, round, observations))
	}
	if failure == "" {
		// final state
		doc, _ := db.FindById("s", regId)
		if doc == nil || doc.Get("v").(int64) != atomic.LoadInt64(&increments) {
			failure = fmt.Sprintf("lost update: counter is %v after %d acknowledged increments", doc.Get("v"), increments)
		}
		finalExpect.Range(func(k, v interface{}) bool {
			e := v.([2]int64)
			docs, _ := db.FindAll(query.NewQuery("s").Where(query.Field("tag").Eq(k.(string))))
			if int64(len(docs)) != e[0] {
				failure = fmt.Sprintf("final state: tag %s has %d documents, expected %d", k, len(docs), e[0])
				return false
			}
			for _, dd := range docs {
				if dd.Get("ver") != e[1] {
					failure = fmt.Sprintf("final state: tag %s has version %v, expected %d", k, dd.Get("ver"), e[1])
					return false
				}
			}
			return true
		})
		if failure == "" {
			fresh, _ := db.FindAll(query.NewQuery("s").Where(query.Field("tag").Eq("fresh")))
			if int64(len(fresh)) != atomic.LoadInt64(&freshCount) {
				failure = fmt.Sprintf("final state: %d documents with generated ids, %d inserts were acknowledged", len(fresh), freshCount)
			}
			shared, _ := db.FindAll(query.NewQuery("s").Where(query.Field("tag").Eq("shared")))
			for _, dd := range shared {
				if dd.Get("cnt") != atomic.LoadInt64(&sharedIncs) {
					failure = fmt.Sprintf("lost update: a shared document counts %v after %d acknowledged bulk increments", dd.Get("cnt"), sharedIncs)
				}
			}
			if len(shared) != 4 {
				failure = fmt.Sprintf("final state: %d shared documents, expected 4", len(shared))
			}
		}
		if n, _ := db.Count(query.NewQuery("s")); failure == "" {
			all, _ := db.FindAll(query.NewQuery("s"))
			if n != len(all) {
				failure = fmt.Sprintf("after concurrent deletes of the same ids Count is %d but FindAll returns %d documents", n, len(all))
			}
		}
		if p := im.InvProblems(); p != "" && failure == "" {
			failure = "after the concurrent round the stored state is inconsistent: " + p
		}
	}
	if failure != "" {
		c.Violation(&Replay{Backend: be, Stream: "race", Case: []interface{}{J{"seed": seed, "round": round, "writers": nWriters, "readers": nReaders}}, Actual: []string{failure},
			Note: failure + " (schedules are not replayable exactly; re-run the check with the same VERIF_SEED)"})
		return false
	}
	if round == 0 {
		c.Sample(J{"backend": be, "writers": nWriters, "readers": nReaders, "tag_observations": observations, "increments": increments})
	}
	return true
}
