package main

import (
	"fmt"
	"sort"
	"strings"

	d "github.com/ostafen/clover/v2/document"
	"github.com/ostafen/clover/v2/query"
)

// bulkSelfRelative: C03's own oracle on the implementation alone, for collection sizes beyond what the (quadratic,
// list-based) Lean model executes in reasonable time.  For a collection of `size` documents with 0-3 indexes and
// several bulk writes: the documents FindAll(q) returns immediately before the call are exactly those the update
// function is run on - each once, on its pre-call value - afterwards each of them holds the updater's result (or is
// gone) and every other document is unchanged; Count agrees; the invariant oracle holds on the raw store.
func bulkSelfRelative(c *Ctx, be string, size int) bool {
	im := NewImpl(be, c.Scratch)
	defer im.Destroy()
	g := NewGen(c.Rng, Domain{IntsWithin2p53: true, NoNegTimes: true})
	db := im.db
	coll := "bulk"
	db.CreateCollection(coll)
	pad := ""
	if g.pick(2) == 0 {
		pad = strings.Repeat("p", 200+g.pick(600))
	}
	idx := [][]string{{}, {"x"}, {"x", "xy"}, {"y", "x", "n.a"}}[g.pick(4)]
	when := g.pick(2)
	if when == 0 {
		for _, f := range idx {
			db.CreateIndex(coll, f)
		}
	}
	for start := 0; start < size; start += 250 {
		docs := []*d.Document{}
		for j := start; j < size && j < start+250; j++ {
			m := map[string]interface{}{"_id": fixedId(j + 1), "x": int64(g.pick(10)), "xy": int64(j), "y": fmt.Sprintf("s%d", g.pick(5)), "n": map[string]interface{}{"a": int64(g.pick(3))}}
			if pad != "" {
				m["pad"] = pad
			}
			docs = append(docs, d.NewDocumentOf(m))
		}
		if err := db.Insert(coll, docs...); err != nil {
			return true
		}
	}
	if when == 1 {
		for _, f := range idx {
			db.CreateIndex(coll, f)
		}
	}
	snapshot := func() map[string]string {
		out := map[string]string{}
		all, _ := db.FindAll(query.NewQuery(coll))
		for _, doc := range all {
			out[doc.ObjectId()] = canonDoc(doc.AsMap())
		}
		return out
	}
	fail := func(what string, q J, upd J) bool {
		c.Violation(&Replay{Backend: be, Stream: "bulk-self-relative", Case: []interface{}{J{"size": size, "indexes": idx, "indexes_created": []string{"before", "after"}[when] + " the inserts", "pad": len(pad), "q": q, "upd": upd}},
			Note: what})
		return false
	}
	qs := []J{
		{"coll": hx(coll), "crit": J{"cmp": []interface{}{"le", hx("x"), J{"lit": encValue(int64(9))}}}},
		{"coll": hx(coll), "crit": J{"cmp": []interface{}{"ge", hx("x"), J{"lit": encValue(int64(3))}}}, "sort": []interface{}{[]interface{}{hx("x"), 1}}},
		{"coll": hx(coll), "sort": []interface{}{[]interface{}{hx("xy"), -1}}, "skip": 3, "limit": size / 2},
		{"coll": hx(coll), "crit": J{"cmp": []interface{}{"eq", hx("y"), J{"lit": encValue("s1")}}}},
		{"coll": hx(coll), "sort": []interface{}{[]interface{}{hx("x"), -1}}},
		{"coll": hx(coll), "crit": J{"cmp": []interface{}{"lt", hx("n.a"), J{"lit": encValue(int64(2))}}}, "sort": []interface{}{[]interface{}{hx("n.a"), 1}}},
	}
	upds := []J{
		{"setAll": []interface{}{[]interface{}{hx("x"), encValue(int64(100))}}},
		{"copy": []interface{}{hx("xy"), hx("x")}},
		{"setAll": []interface{}{[]interface{}{hx("n"), encValue(map[string]interface{}{"a": int64(7)})}}},
		{"copy": []interface{}{hx("_id"), hx("y")}},
		{"nil": true},
	}
	for round := 0; round < 5; round++ {
		q := qs[g.pick(len(qs))]
		upd := upds[g.pick(len(upds))]
		if round == 4 {
			upd = upds[4]
		}
		before := snapshot()
		sel, err := db.FindAll(decQuery(q))
		if err != nil {
			continue
		}
		want := map[string]string{}
		for _, doc := range sel {
			want[doc.ObjectId()] = canonDoc(doc.AsMap())
		}
		calls := []string{}
		fn := mkUpdater(asJ(upd), &calls)
		// what the updater makes of each selected document (computed on copies)
		expect := map[string]string{}
		for _, doc := range sel {
			dummy := []string{}
			nd := mkUpdater(asJ(upd), &dummy)(doc.Copy())
			if nd != nil {
				expect[doc.ObjectId()] = canonDoc(nd.AsMap())
			}
		}
		c.Evals++
		if err := db.UpdateFunc(decQuery(q), fn); err != nil {
			return fail("UpdateFunc returned "+err.Error(), q, upd)
		}
		c.Count(fmt.Sprintf("bulk-self-relative:size=%d", size))
		if len(sel) > 0 && len(sel) < len(before) {
			c.NonTrivial(fmt.Sprint(be, size, q, upd))
		}
		// each selected document once, on its pre-call value
		seen := map[string]int{}
		for _, cd := range calls {
			seen[cd]++
		}
		if len(calls) != len(sel) {
			return fail(fmt.Sprintf("the update function ran %d times for %d selected documents", len(calls), len(sel)), q, upd)
		}
		for id, cd := range want {
			if seen[cd] != 1 {
				return fail(fmt.Sprintf("the update function ran %d times on the pre-call value of document %s", seen[cd], id), q, upd)
			}
		}
		after := snapshot()
		ids := []string{}
		for id := range before {
			ids = append(ids, id)
		}
		sort.Strings(ids)
		for _, id := range ids {
			if _, selected := want[id]; selected {
				if exp, ok := expect[id]; ok {
					if after[id] != exp {
						return fail(fmt.Sprintf("selected document %s does not hold the updater's result: %s instead of %s", id, after[id], exp), q, upd)
					}
				} else if _, still := after[id]; still {
					return fail(fmt.Sprintf("selected document %s should have been removed", id), q, upd)
				}
			} else if after[id] != before[id] {
				return fail(fmt.Sprintf("document %s was not selected but changed: %s -> %s", id, before[id], after[id]), q, upd)
			}
		}
		if n, _ := db.Count(query.NewQuery(coll)); n != len(after) {
			return fail(fmt.Sprintf("Count says %d, FindAll returns %d documents", n, len(after)), q, upd)
		}
		if p := im.InvProblems(); p != "" {
			return fail("stored state is inconsistent after the bulk write: "+p, q, upd)
		}
	}
	// DropCollection removes everything; a re-created collection is empty
	db.DropCollection(coll)
	if p := im.InvProblems(); p != "" {
		return fail("residue after DropCollection: "+p, J{}, J{})
	}
	db.CreateCollection(coll)
	if all, _ := db.FindAll(query.NewQuery(coll)); len(all) != 0 {
		return fail(fmt.Sprintf("a re-created collection holds %d documents", len(all)), J{}, J{})
	}
	return true
}
