package main

import (
	"fmt"
	"math"
	"strings"
)

func init() { streams["C19"] = streamC19 }

func streamC19(c *Ctx) {
	c.Rule = "collections of JSON-representable documents (finite numbers within 2^53, valid UTF-8 strings, nested maps/slices, times with offsets and nanoseconds) with and without indexes on the source: Export, parse of the written file by an independent JSON reader, Import under a new name, then FindAll/Count on both; " +
		"failure paths (also at the end of files of 1200-4300 documents / more than 4 MiB, on the implementation alone: error reported, raw dump unchanged, name still free): import under an existing name, from a missing / truncated / non-array file, a file with a null element, with a malformed or duplicate _id; results and raw dumps vs the Lean model (JSON typing: numbers -> float64, times -> RFC 3339 text) and spec. non-trivial = distinct exported collection with at least one document containing a time or a nested value"
	dr := StartDriver(c.DriverBin)
	defer dr.Close()
	dm := Domain{IntsWithin2p53: true, NoNegTimes: false, JSONSafe: true, NoDollar: false}
	n := c.N(40, 800)
	for bi, be := range backendsAll {
		if !bigFailingImports(c, be) {
			return
		}
		im := NewImpl(be, c.Scratch)
		// collection sizes at and around powers of two (an exporter or importer that works in pages or batches
		// has its boundary there): export, import under a new name, compare counts and contents
		sizes := []int{255, 256, 257, 511, 512, 513, 1023, 1024, 1025}
		if c.Quick() {
			sizes = []int{256, 512, 1024, 513}[bi%2*2 : bi%2*2+2]
		}
		for _, size := range sizes {
			lines := []J{opLine("createCollection", J{"coll": hx("big")})}
			for start := 0; start < size; start += 128 {
				docs := []interface{}{}
				for j := start; j < size && j < start+128; j++ {
					docs = append(docs, encDoc(map[string]interface{}{"_id": fixedId(j + 1), "x": int64(j % 7), "s": fmt.Sprintf("v%d", j)}))
				}
				lines = append(lines, opLine("insert", J{"coll": hx("big"), "docs": docs}))
			}
			lines = append(lines, opLine("export", J{"coll": hx("big"), "file": "fb"}), opLine("import", J{"coll": hx("bigcopy"), "file": "fb"}),
				opLine("count", J{"q": J{"coll": hx("bigcopy")}}), opLine("findAll", J{"q": J{"coll": hx("bigcopy")}}), J{"k": "dump"})
			o := runHistory(dr, im, lines, HistOpts{})
			recordHistory(c, lines, &o, be)
			c.Count(fmt.Sprintf("export-import-size:%d", size))
			if o.Index >= 0 {
				if reportHistoryProblem(c, dr, im, lines, &o, be, HistOpts{}, "export-import-size") {
					im.Destroy()
					return
				}
			}
		}
		for i := 0; i < n; i++ {
			g := NewGen(c.Rng, dm)
			h := NewHistGen(g, 1, 1)
			// JSON cannot carry ±Inf
			pool := []interface{}{}
			for _, v := range h.Pool {
				if f, ok := v.(float64); ok && (math.IsInf(f, 0)) {
					continue
				}
				pool = append(pool, v)
			}
			h.Pool = pool
			lines := []J{opLine("createCollection", J{"coll": hx("src")}), opLine("createCollection", J{"coll": hx("other")})}
			if g.pick(2) == 0 {
				lines = append(lines, opLine("createIndex", J{"coll": hx("src"), "field": hx("x")}))
			}
			docs := []interface{}{}
			nd := g.pick(8)
			rich := false
			for j := 0; j < nd; j++ {
				m := h.Doc(h.newId())
				if g.pick(3) == 0 {
					m["dotted.key"] = h.val() // a top-level field whose name contains a dot is not a path
					m["n.zz"] = int64(j)
				}
				if g.pick(4) == 0 {
					m["_expiresAt"] = boundaryTimes()[g.pick(10)] // a document with an expiration must survive export + import
				}
				if g.pick(2) == 0 {
					m["when"] = boundaryTimes()[g.pick(10)]
					m["deep"] = []interface{}{map[string]interface{}{"t": boundaryTimes()[g.pick(10)], "n": int64(g.pick(100))}}
					rich = true
				}
				docs = append(docs, encDoc(m))
			}
			if nd > 0 {
				lines = append(lines, opLine("insert", J{"coll": hx("src"), "docs": docs}))
			}
			lines = append(lines, J{"k": "dump"}, opLine("export", J{"coll": hx("src"), "file": "f1"}), J{"k": "dump"},
				opLine("import", J{"coll": hx("copy"), "file": "f1"}), J{"k": "dump"},
				opLine("findAll", J{"q": J{"coll": hx("copy")}}), opLine("count", J{"q": J{"coll": hx("copy")}}), opLine("findAll", J{"q": J{"coll": hx("src")}}),
				// failure paths
				opLine("import", J{"coll": hx("other"), "file": "f1"}), J{"k": "dump"},
				opLine("import", J{"coll": hx("n1")}), J{"k": "dump"}, // missing file
				opLine("import", J{"coll": hx("n2"), "raw": "[{\"_id\":"}), J{"k": "dump"},
				opLine("import", J{"coll": hx("n3"), "raw": "{\"a\":1}"}), J{"k": "dump"},
				opLine("import", J{"coll": hx("n4"), "raw": "[null]"}), J{"k": "dump"},
				opLine("import", J{"coll": hx("n5"), "raw": "[{\"_id\":\"not-a-uuid\",\"a\":1}]"}), J{"k": "dump"},
				opLine("import", J{"coll": hx("n6"), "raw": fmt.Sprintf("[{\"_id\":%q,\"a\":1},{\"_id\":%q,\"a\":2}]", fixedId(7), fixedId(7))}), J{"k": "dump"},
				// ill-formed exactly at an element boundary: cut after a complete document, closed by the wrong delimiter, a comma and nothing
				opLine("import", J{"coll": hx("n8"), "raw": fmt.Sprintf("[{\"_id\":%q,\"a\":1},{\"_id\":%q,\"a\":2}", fixedId(21), fixedId(22))}), J{"k": "dump"},
				opLine("import", J{"coll": hx("n9"), "raw": fmt.Sprintf("[{\"_id\":%q,\"a\":1}}", fixedId(23))}), J{"k": "dump"},
				opLine("import", J{"coll": hx("n10"), "raw": fmt.Sprintf("[{\"_id\":%q,\"a\":1},", fixedId(24))}), J{"k": "dump"},
				opLine("import", J{"coll": hx("n11"), "raw": "["}), J{"k": "dump"},
				opLine("import", J{"coll": hx("n7"), "raw": fmt.Sprintf("[{\"_id\":%q,\"a\":1.5,\"s\":\"x\",\"l\":[1,null,{\"k\":true}]}]", fixedId(8))}), J{"k": "dump"},
				opLine("findAll", J{"q": J{"coll": hx("n7")}}),
				opLine("export", J{"coll": hx("missing"), "file": "f2"}),
				opLine("listCollections", J{}))
			o := runHistory(dr, im, lines, HistOpts{})
			recordHistory(c, lines, &o, be)
			if rich && nd > 0 {
				c.NonTrivial(fmt.Sprint(be, i))
			}
			for _, r := range o.Results {
				if strings.HasPrefix(r.Impl, "ok export-unparsable") {
					c.Violation(&Replay{Backend: be, Stream: "history", Case: toIfaces(lines), Actual: []string{r.Impl}, Note: "the exported file is not a JSON array of objects"})
					im.Destroy()
					return
				}
			}
			if o.Index >= 0 {
				if reportHistoryProblem(c, dr, im, lines, &o, be, HistOpts{}, "export-import") {
					im.Destroy()
					return
				}
			}
		}
		im.Destroy()
	}
}
