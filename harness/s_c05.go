package main

import (
	"bufio"
	"encoding/json"
	"fmt"
	"os"
	"os/exec"
	"path/filepath"
	"strings"
	"syscall"
	"time"
)

func init() { streams["C05"] = streamC05 }

// childMain executes a scripted history on a database directory, acknowledging every operation
// that has returned on stdout ("ack <index>"). It is killed by the parent at an arbitrary instant.
func childMain(backend, dir, historyFile string) {
	b, err := os.ReadFile(historyFile)
	if err != nil {
		panic(err)
	}
	var lines []J
	if err := json.Unmarshal(b, &lines); err != nil {
		panic(err)
	}
	im := &Impl{backend: backend, root: filepath.Dir(dir), dir: dir, files: map[string]string{}, raw: true}
	im.open()
	w := bufio.NewWriter(os.Stdout)
	fmt.Fprintln(w, "ready")
	w.Flush()
	for i, ln := range lines {
		er := im.Exec(ln, -1, false)
		fmt.Fprintf(w, "ack %d %s\n", i, strings.SplitN(er.Line, " ", 3)[0])
		w.Flush()
	}
	im.db.Close()
	fmt.Fprintln(w, "done")
	w.Flush()
}

func crashHistory(h *HistGen, n int) []J {
	g := h.G
	lines := []J{opLine("createCollection", J{"coll": hx("k")}), opLine("createIndex", J{"coll": hx("k"), "field": hx("x")})}
	for i := 0; i < n; i++ {
		switch r := g.pick(10); {
		case r < 5:
			docs := []interface{}{}
			for j := 0; j < 5+g.pick(60); j++ {
				d := h.Doc(h.newId())
				d["x"] = int64(g.pick(7))
				d["pad"] = strings.Repeat("p", 200+g.pick(800))
				docs = append(docs, encDoc(d))
			}
			lines = append(lines, opLine("insert", J{"coll": hx("k"), "docs": docs}))
		case r < 7:
			lines = append(lines, opLine("update", J{"q": J{"coll": hx("k"), "crit": J{"cmp": []interface{}{"ge", hx("x"), J{"lit": encValue(int64(g.pick(7)))}}}},
				"upd": J{"setAll": []interface{}{[]interface{}{hx("x"), encValue(int64(g.pick(7)))}}}}))
		case r < 8:
			lines = append(lines, opLine("delete", J{"q": J{"coll": hx("k"), "crit": J{"cmp": []interface{}{"eq", hx("x"), J{"lit": encValue(int64(g.pick(7)))}}}}}))
		case r < 9:
			f := []string{"y", "xy", "n.a"}[g.pick(3)]
			if g.pick(2) == 0 {
				lines = append(lines, opLine("createIndex", J{"coll": hx("k"), "field": hx(f)}))
			} else {
				lines = append(lines, opLine("dropIndex", J{"coll": hx("k"), "field": hx(f)}))
			}
		default:
			lines = append(lines, opLine("deleteById", J{"coll": hx("k"), "id": hx(h.someId())}))
		}
	}
	return lines
}

func streamC05(c *Ctx) {
	c.Rule = "(i) close/reopen after every prefix of random write histories on bbolt and badger-on-disk (in every other history some transactions are abandoned before or at their commit by an injected store fault and the history goes on with the same handle): logical state and raw key dump equal to the model's, invariant oracle on the reopened store; " +
		"(ii) a child process executes a scripted history of batched inserts, bulk updates/deletes and index create/drop, acknowledging each returned operation on a pipe; the parent kills it (SIGKILL) at a uniformly random instant, reopens the directory and requires the raw dump to be the model's state after j operations for j in {acknowledged, acknowledged+1} and the invariant oracle to hold. " +
		"(iv) every store call of DropCollection / DropIndex / CreateIndex / CreateCollectionByQuery / Delete / Insert / Save / UpdateById / ReplaceById / DeleteById / Update / CreateCollection on a collection with two indexes abandoned in turn (the commit included), then reopen: the state before the operation, then the operation succeeds. " +
		"(vi) a child process that has inserted 6000 padded documents and deleted three fifths of them is killed at a random instant of its Close; reopen: the acknowledged state; one more acknowledged delete, clean close, reopen: the model's state again. " +
		"(iii) a child process importing a file of 4300 documents (more than 4 MiB) is killed at a uniformly random instant of the import's measured duration: the reopened store holds nothing or everything of the collection. " +
		"non-trivial = distinct (history, kill instant) where at least one operation had been acknowledged and the history was not finished"
	dr := StartDriver(c.DriverBin)
	defer dr.Close()
	dm := Domain{IntsWithin2p53: true, NoNegTimes: true}
	// (i) reopen after every write
	for _, be := range []string{"bbolt", "badger-disk"} {
		im := NewImpl(be, c.Scratch)
		for hN := 0; hN < c.N(12, 300); hN++ {
			g := NewGen(c.Rng, dm)
			h := NewHistGen(g, 2, 2)
			// every other history: some operations are abandoned before or at their commit by a store fault, the
			// history goes on with the same handle and is then closed and reopened
			base := h.History(HistCfg{Ops: 12, QueriesPer: 0, Indexes: true, Dumps: true, Malformed: true, NoFresh: true, Faults: hN%2 == 1})
			lines := []J{}
			for _, ln := range base {
				lines = append(lines, ln)
				if ln["k"] == "dump" {
					lines = append(lines, J{"k": "reopen"}, J{"k": "dump"})
				}
			}
			o := runHistory(dr, im, lines, HistOpts{})
			recordHistory(c, lines, &o, be)
			c.Count("reopen:" + be)
			if o.Index >= 0 {
				if reportHistoryProblem(c, dr, im, lines, &o, be, HistOpts{}, "reopen") {
					im.Destroy()
					return
				}
			}
		}
		im.Destroy()
	}
	// (i') longer histories with abandoned transactions (a store fault at a random call of every fourth
	// operation, the commit included), occasional reopen, and a final reopen
	for _, be := range []string{"bbolt", "badger-disk"} {
		im := NewImpl(be, c.Scratch)
		for hN := 0; hN < c.N(30, 500); hN++ {
			g := NewGen(c.Rng, dm)
			h := NewHistGen(g, 2, 2)
			lines := h.History(HistCfg{Ops: 18, QueriesPer: 0, Indexes: true, Dumps: true, Malformed: true, NoFresh: true, Faults: true, Reopen: true})
			lines = append(lines, J{"k": "reopen"}, J{"k": "dump"})
			for _, cn := range h.Colls {
				lines = append(lines, opLine("findAll", J{"q": J{"coll": hx(cn)}}), opLine("listIndexes", J{"coll": hx(cn)}))
			}
			o := runHistory(dr, im, lines, HistOpts{})
			recordHistory(c, lines, &o, be)
			c.Count("abandoned-then-reopen:" + be)
			if o.Index >= 0 {
				if reportHistoryProblem(c, dr, im, lines, &o, be, HistOpts{}, "abandoned") {
					im.Destroy()
					return
				}
			}
		}
		im.Destroy()
	}
	// an operation too large for one backend transaction must be refused as a whole, also across reopen
	for _, be := range []string{"bbolt", "badger-disk"} {
		if !bigBatchNoTrace(c, be) {
			return
		}
	}
	// (v) what a kill at the wrong instant leaves on disk, reproduced directly: badger creates every memtable file empty and
	// sizes it afterwards; with a file of length zero in the directory badger itself refuses to open the database
	// (repaired defect F42: the adapter removes such files, which hold nothing)
	{
		im := NewImpl("badger-disk", c.Scratch)
		im.Exec(opLine("createCollection", J{"coll": hx("m")}), -1, false)
		im.Exec(opLine("insert", J{"coll": hx("m"), "docs": []interface{}{encDoc(map[string]interface{}{"_id": fixedId(1), "x": int64(1)})}}), -1, false)
		before := im.Dump()
		im.Close()
		os.WriteFile(filepath.Join(im.dir, "00042.mem"), nil, 0o644)
		reopened := ""
		func() {
			defer func() {
				if r := recover(); r != nil {
					reopened = fmt.Sprint(r)
				}
			}()
			im.open()
		}()
		c.Evals++
		if reopened != "" || im.Dump() != before {
			if len(reopened) > 300 {
				reopened = reopened[:300]
			}
			c.Violation(&Replay{Backend: "badger-disk", Stream: "crash", Case: []interface{}{J{"k": "empty-memtable-file", "file": "00042.mem"}}, Actual: []string{reopened},
				Note: "with the empty memtable file a kill can leave behind, the database cannot be reopened (or lost content)"})
			return
		}
		c.NonTrivial("empty-memtable-file")
		im.Destroy()
	}
	// (iv) every store call of the multi-step catalog operations abandoned in turn (the transaction is dropped at that
	// call, as a crash there would drop it), then close and reopen: the state is the one before the operation - never a
	// mixture such as a collection that lost some of its indexes - and the same operation then succeeds
	for _, be := range []string{"bbolt", "badger-disk"} {
		im := NewImpl(be, c.Scratch)
		ops := []J{
			opLine("dropCollection", J{"coll": hx("ab")}),
			opLine("dropIndex", J{"coll": hx("ab"), "field": hx("x")}),
			opLine("createIndex", J{"coll": hx("ab"), "field": hx("z")}),
			opLine("createCollectionByQuery", J{"coll": hx("cp"), "q": J{"coll": hx("ab"), "crit": J{"cmp": []interface{}{"ge", hx("x"), J{"lit": encValue(int64(1))}}}}}),
			opLine("delete", J{"q": J{"coll": hx("ab"), "crit": J{"cmp": []interface{}{"ge", hx("x"), J{"lit": encValue(int64(1))}}}}}),
			// the single-document and bulk writes as well: an operation whose transaction was abandoned - at its commit
			// too - must say so, and nothing of it may be there after reopening
			opLine("insert", J{"coll": hx("ab"), "docs": []interface{}{encDoc(map[string]interface{}{"_id": fixedId(11), "x": int64(7), "y": int64(1)}), encDoc(map[string]interface{}{"_id": fixedId(12), "x": int64(8)})}}),
			opLine("save", J{"coll": hx("ab"), "doc": encDoc(map[string]interface{}{"_id": fixedId(2), "x": int64(40), "y": int64(41)})}),
			opLine("save", J{"coll": hx("ab"), "doc": encDoc(map[string]interface{}{"_id": fixedId(13), "x": int64(40)})}),
			opLine("updateById", J{"coll": hx("ab"), "id": hx(fixedId(3)), "upd": J{"setAll": []interface{}{[]interface{}{hx("x"), encValue(int64(50))}}}}),
			opLine("replaceById", J{"coll": hx("ab"), "id": hx(fixedId(3)), "doc": encDoc(map[string]interface{}{"_id": fixedId(3), "y": int64(9)})}),
			opLine("deleteById", J{"coll": hx("ab"), "id": hx(fixedId(4))}),
			opLine("update", J{"q": J{"coll": hx("ab"), "crit": J{"cmp": []interface{}{"ge", hx("x"), J{"lit": encValue(int64(1))}}}}, "upd": J{"setAll": []interface{}{[]interface{}{hx("y"), encValue(int64(60))}}}, "viaUpdate": 1}),
			opLine("createCollection", J{"coll": hx("nw")}),
		}
		for oi, op := range ops {
			for k := 0; k < 60; k++ {
				lines := []J{opLine("createCollection", J{"coll": hx("ab")}), opLine("createIndex", J{"coll": hx("ab"), "field": hx("x")}), opLine("createIndex", J{"coll": hx("ab"), "field": hx("y")})}
				docs := []interface{}{}
				for j := 0; j < 4; j++ {
					docs = append(docs, encDoc(map[string]interface{}{"_id": fixedId(j + 1), "x": int64(j), "y": int64(3 - j), "z": int64(j % 2)}))
				}
				faulted := cloneJ(op)
				faulted["fault"] = k
				lines = append(lines, opLine("insert", J{"coll": hx("ab"), "docs": docs}), J{"k": "dump"}, faulted, J{"k": "dump"}, J{"k": "reopen"}, J{"k": "dump"},
					opLine("listIndexes", J{"coll": hx("ab")}), opLine("count", J{"q": J{"coll": hx("ab")}}), cloneJ(op), J{"k": "dump"}, J{"k": "reopen"}, J{"k": "dump"})
				o := runHistory(dr, im, lines, HistOpts{})
				recordHistory(c, lines, &o, be)
				c.Count("abandoned-at-call:" + be)
				if o.Index >= 0 {
					if reportHistoryProblem(c, dr, im, lines, &o, be, HistOpts{}, "abandoned-call") {
						im.Destroy()
						return
					}
				}
				// past the last store call of the operation the fault no longer fires: the enumeration of this operation is complete
				if fi := 5; fi < len(o.Results) && !o.Results[fi].Fired {
					break
				}
				_ = oi
			}
		}
		im.Destroy()
	}
	// (vi) kill during Close after the file has become mostly free pages, then a second cycle with a clean close
	for _, be := range []string{"bbolt", "badger-disk"} {
		if !closeKills(c, be, c.N(3, 25), NewGen(c.Rng, dm)) {
			return
		}
	}
	// (iii) kill during one large import (more than 4 MiB): nothing or everything after reopening
	for _, be := range []string{"bbolt", "badger-disk"} {
		if !bigImportKills(c, be, c.N(5, 60), NewGen(c.Rng, dm)) {
			return
		}
	}
	// (ii) kill at a random instant
	self, _ := os.Executable()
	kills := c.N(24, 600)
	for _, be := range []string{"bbolt", "badger-disk"} {
		for k := 0; k < kills/2; k++ {
			g := NewGen(c.Rng, dm)
			h := NewHistGen(g, 1, 1)
			lines := crashHistory(h, 14+g.pick(10))
			// the model's dump after every prefix
			dr.Ask(J{"k": "reset"})
			dumps := []string{strings.TrimPrefix(strings.SplitN(dr.Ask(J{"k": "dump"}), "\t", 2)[0], "dump ")}
			for _, ln := range lines {
				dr.Ask(ln)
				dumps = append(dumps, strings.TrimPrefix(strings.SplitN(dr.Ask(J{"k": "dump"}), "\t", 2)[0], "dump "))
			}
			dir := filepath.Join(c.Scratch, fmt.Sprintf("crash-%s-%d", be, k))
			os.MkdirAll(dir, 0o755)
			hf := filepath.Join(c.Scratch, fmt.Sprintf("crash-%s-%d.json", be, k))
			b, _ := json.Marshal(lines)
			os.WriteFile(hf, b, 0o644)
			cmd := exec.Command(self, "-child", be, "-childdir", dir, "-childhist", hf)
			out, _ := cmd.StdoutPipe()
			if err := cmd.Start(); err != nil {
				panic(err)
			}
			rd := bufio.NewReader(out)
			acks := make(chan int, 1000)
			go func() {
				for {
					s, err := rd.ReadString('\n')
					if err != nil {
						close(acks)
						return
					}
					if strings.HasPrefix(s, "ack ") {
						var i int
						fmt.Sscanf(s, "ack %d", &i)
						acks <- i + 1
					}
					if strings.HasPrefix(s, "ready") {
						acks <- 0
					}
				}
			}()
			<-acks // ready
			// kill shortly after a randomly chosen operation has been acknowledged: between two
			// operations or inside the next one
			target := g.pick(len(lines))
			acked := 0
			for acked < target {
				a, ok := <-acks
				if !ok {
					break
				}
				if a > acked {
					acked = a
				}
			}
			delay := time.Duration(g.R.Int63n(int64(3 * time.Millisecond)))
			time.Sleep(delay)
			cmd.Process.Signal(syscall.SIGKILL)
			for a := range acks {
				if a > acked {
					acked = a
				}
			}
			cmd.Wait()
			// reopen in this process
			im := &Impl{backend: be, root: c.Scratch, dir: dir, files: map[string]string{}}
			func() {
				defer func() {
					if r := recover(); r != nil {
						c.Violation(&Replay{Backend: be, Stream: "crash", Case: toIfaces(lines), Actual: []string{fmt.Sprint(r)}, Note: fmt.Sprintf("the database cannot be reopened after a kill (%d operations acknowledged)", acked)})
					}
				}()
				im.open()
			}()
			if c.Violations > 0 {
				return
			}
			got := im.Dump()
			inv := im.InvProblems()
			im.db.Close()
			os.RemoveAll(dir)
			os.Remove(hf)
			c.Evals++
			c.Count("kill:" + be)
			c.Count(fmt.Sprintf("acked-bucket:%d", acked*4/len(lines)))
			if acked > 0 && acked < len(lines) {
				c.NonTrivial(fmt.Sprint(be, k, acked))
			}
			okState := got == dumps[acked] || (acked+1 < len(dumps) && got == dumps[acked+1])
			if !okState || inv != "" {
				note := fmt.Sprintf("after a kill with %d operations acknowledged the store is neither the state after %d nor after %d operations", acked, acked, acked+1)
				if inv != "" {
					note = "after a kill the reopened store is inconsistent: " + inv
				}
				c.Violation(&Replay{Backend: be, Stream: "crash", Case: toIfaces(lines), Expected: []string{"model state after " + fmt.Sprint(acked) + " or " + fmt.Sprint(acked+1) + " operations"},
					Actual: []string{fmt.Sprintf("%d bytes of dump", len(got))}, Note: note})
				return
			}
			if k == 0 {
				c.Sample(J{"backend": be, "operations": len(lines), "acknowledged_at_kill": acked, "kill_after_ms": delay.Milliseconds()})
			}
		}
	}
}
