package main

import (
	"fmt"
	"os"
	"sort"
	"strings"
	"sync"
	"sync/atomic"
	"time"

	d "github.com/ostafen/clover/v2/document"
	"github.com/ostafen/clover/v2/query"
)

// skewOp: one bulk read-modify-write - the documents a query selects get field `set` := `val`.
type skewOp struct {
	crit func() query.Criteria
	desc string
	set  string
	val  int64
}

// c07CrossingWrites: two bulk writes whose selections are disjoint at the start and each of which moves documents INTO
// the other's selection (x==1 -> x:=3 against x==3 -> x:=1, and relatives over ranges and over two fields), with and
// without an index on the selecting fields. Each operation is held, after it has selected its first document and
// before it writes, until the other one has selected too (or a short time has passed: a backend that runs writers one
// at a time never lets the second one start). C07: whatever the schedule, the final state is the one some sequential
// order of the operations that returned success gives - computed here by running them one after the other, in both
// orders, on a fresh database of the same backend.
func c07CrossingWrites(c *Ctx, be string) bool {
	eq := func(f string, v int64) func() query.Criteria {
		return func() query.Criteria { return query.Field(f).Eq(v) }
	}
	type cell struct {
		a, b    skewOp
		indexes []string
		xs      []int64 // x of the documents; y = 0 everywhere at the start
	}
	cells := []cell{}
	for _, idx := range [][]string{{"x"}, {}, {"x", "y"}} {
		cells = append(cells,
			cell{skewOp{eq("x", 1), "x==1", "x", 3}, skewOp{eq("x", 3), "x==3", "x", 1}, idx, []int64{1, 2, 3}},
			cell{skewOp{eq("x", 1), "x==1", "x", 3}, skewOp{eq("x", 3), "x==3", "x", 1}, idx, []int64{1, 1, 2, 2, 3, 3, 4}},
			cell{skewOp{func() query.Criteria { return query.Field("x").Lt(int64(2)) }, "x<2", "x", 9}, skewOp{func() query.Criteria { return query.Field("x").Gt(int64(7)) }, "x>7", "x", 0}, idx, []int64{0, 1, 4, 5, 8, 9}},
			cell{skewOp{eq("x", 1), "x==1", "y", 5}, skewOp{eq("y", 5), "y==5", "x", 1}, idx, []int64{1, 2, 3}},
			cell{skewOp{func() query.Criteria { return query.Field("x").GtEq(int64(2)).And(query.Field("x").LtEq(int64(3))) }, "2<=x<=3", "x", 6},
				skewOp{func() query.Criteria { return query.Field("x").GtEq(int64(6)).And(query.Field("x").LtEq(int64(7))) }, "6<=x<=7", "x", 2}, idx, []int64{2, 3, 4, 5, 6, 7}},
		)
	}
	build := func(cl cell) *Impl {
		im := NewImpl(be, c.Scratch)
		db := im.db
		if err := db.CreateCollection("k"); err != nil {
			panic(err)
		}
		for _, f := range cl.indexes {
			if err := db.CreateIndex("k", f); err != nil {
				panic(err)
			}
		}
		docs := []*d.Document{}
		for i, x := range cl.xs {
			y := int64(0)
			if cl.b.desc == "y==5" && i == len(cl.xs)-1 {
				y = 5
			}
			docs = append(docs, d.NewDocumentOf(map[string]interface{}{"_id": fixedId(600000 + i), "x": x, "y": y, "n": int64(i)}))
		}
		if err := db.Insert("k", docs...); err != nil {
			panic(err)
		}
		return im
	}
	state := func(im *Impl) string {
		docs, err := im.db.FindAll(query.NewQuery("k"))
		if err != nil {
			return "error " + err.Error()
		}
		out := []string{}
		for _, doc := range docs {
			out = append(out, fmt.Sprintf("n%v:x=%v,y=%v", doc.Get("n"), doc.Get("x"), doc.Get("y")))
		}
		sort.Strings(out)
		// through the indexes too: what a query by the selecting field answers
		for _, f := range []string{"x", "y"} {
			byIdx, _ := im.db.FindAll(query.NewQuery("k").Sort(query.SortOption{Field: f, Direction: 1}))
			s := []string{}
			for _, doc := range byIdx {
				s = append(s, fmt.Sprint(doc.Get(f)))
			}
			out = append(out, f+"-order:"+strings.Join(s, ","))
		}
		return strings.Join(out, " ")
	}
	apply := func(im *Impl, op skewOp, selected, wait chan struct{}) error {
		var once sync.Once
		return im.db.UpdateFunc(query.NewQuery("k").Where(op.crit()), func(doc *d.Document) *d.Document {
			once.Do(func() {
				if selected != nil {
					close(selected)
					select {
					case <-wait:
					case <-time.After(120 * time.Millisecond):
					}
				}
			})
			doc.Set(op.set, op.val)
			return doc
		})
	}
	for ci, cl := range cells {
		c.Evals++
		// the sequential outcomes
		serial := map[string]string{}
		for _, order := range []string{"ab", "ba", "a", "b", ""} {
			im := build(cl)
			ok := true
			for _, ch := range order {
				op := cl.a
				if ch == 'b' {
					op = cl.b
				}
				if err := apply(im, op, nil, nil); err != nil {
					ok = false
				}
			}
			if ok {
				serial[order] = state(im)
			}
			im.Destroy()
		}
		im := build(cl)
		selA, selB := make(chan struct{}), make(chan struct{})
		var ea, eb error
		var wg sync.WaitGroup
		wg.Add(2)
		go func() { defer wg.Done(); ea = apply(im, cl.a, selA, selB) }()
		go func() { defer wg.Done(); eb = apply(im, cl.b, selB, selA) }()
		wg.Wait()
		got := state(im)
		im.Destroy()
		// the orders consistent with what the two calls returned: an operation that reported an error (a write conflict) has no effect
		allowed := []string{}
		switch {
		case ea == nil && eb == nil:
			allowed = []string{"ab", "ba"}
		case ea == nil:
			allowed = []string{"a"}
		case eb == nil:
			allowed = []string{"b"}
		default:
			allowed = []string{""}
		}
		okState := false
		exp := []string{}
		for _, o := range allowed {
			exp = append(exp, o+": "+serial[o])
			if serial[o] == got {
				okState = true
			}
		}
		label := fmt.Sprintf("%s: [%s -> %s:=%d] || [%s -> %s:=%d], x=%v, indexes %v", be, cl.a.desc, cl.a.set, cl.a.val, cl.b.desc, cl.b.set, cl.b.val, cl.xs, cl.indexes)
		c.Count("crossing-writes:" + be)
		if ea == nil && eb == nil {
			c.NonTrivial(fmt.Sprintf("cross-%s-%d", be, ci))
		}
		if !okState {
			c.Violation(&Replay{Stream: "crossing-writes", Backend: be, Case: []interface{}{J{"cell": label, "errors": []string{fmt.Sprint(ea), fmt.Sprint(eb)}}},
				Expected: exp, Actual: []string{got},
				Note: "two concurrent bulk updates both returned success, but the final state is not the result of either sequential order (each one moved documents into the other's selection: write skew)"})
			return false
		}
	}
	return true
}

// c07QueuedWriters: three overlapping writers - W1 (touches a document neither of the others selects) is inside its
// transaction when W2 calls, so W2 has to wait (or, on an optimistic backend, runs beside it); W3 calls the moment W1
// returns. W2 and W3 are a crossing pair, each held after selecting until the other has selected. A writer admitted
// while another one's transaction is still open - a release handed to the wrong transaction - shows as the swapped
// state no sequential order gives.
func c07QueuedWriters(c *Ctx, be string) bool {
	for rep := 0; rep < c.N(3, 12); rep++ {
		for _, indexes := range [][]string{{"x"}, {"x", "y"}} {
			c.Evals++
			build := func() *Impl {
				im := NewImpl(be, c.Scratch)
				db := im.db
				if err := db.CreateCollection("k"); err != nil {
					panic(err)
				}
				for _, f := range indexes {
					if err := db.CreateIndex("k", f); err != nil {
						panic(err)
					}
				}
				docs := []*d.Document{}
				for i, x := range []int64{1, 2, 3, 7} {
					docs = append(docs, d.NewDocumentOf(map[string]interface{}{"_id": fixedId(610000 + i), "x": x, "y": int64(0), "n": int64(i)}))
				}
				if err := db.Insert("k", docs...); err != nil {
					panic(err)
				}
				return im
			}
			state := func(im *Impl) string {
				docs, _ := im.db.FindAll(query.NewQuery("k").Sort(query.SortOption{Field: "n", Direction: 1}))
				out := []string{}
				for _, doc := range docs {
					out = append(out, fmt.Sprintf("n%v:x=%v,y=%v", doc.Get("n"), doc.Get("x"), doc.Get("y")))
				}
				byIdx, _ := im.db.FindAll(query.NewQuery("k").Sort(query.SortOption{Field: "x", Direction: 1}))
				for _, doc := range byIdx {
					out = append(out, fmt.Sprint(doc.Get("x")))
				}
				return strings.Join(out, " ")
			}
			type wop struct {
				x   int64
				set string
				val int64
			}
			ops := []wop{{7, "y", 1}, {1, "x", 3}, {3, "x", 1}}
			run := func(im *Impl, o wop, inside func()) error {
				var once sync.Once
				return im.db.UpdateFunc(query.NewQuery("k").Where(query.Field("x").Eq(o.x)), func(doc *d.Document) *d.Document {
					if inside != nil {
						once.Do(inside)
					}
					doc.Set(o.set, o.val)
					return doc
				})
			}
			serial := map[string]bool{}
			for _, order := range [][]int{{0, 1, 2}, {0, 2, 1}, {1, 0, 2}, {1, 2, 0}, {2, 0, 1}, {2, 1, 0}} {
				im := build()
				for _, i := range order {
					run(im, ops[i], nil)
				}
				serial[state(im)] = true
				im.Destroy()
			}
			im := build()
			w1In, sel2, sel3 := make(chan struct{}), make(chan struct{}), make(chan struct{})
			errs := make([]error, 3)
			var wg sync.WaitGroup
			wg.Add(3)
			go func() {
				defer wg.Done()
				errs[0] = run(im, ops[0], func() { close(w1In); time.Sleep(40 * time.Millisecond) })
				// W3 calls the moment W1 has returned
				go func() {
					defer wg.Done()
					errs[2] = run(im, ops[2], func() {
						close(sel3)
						select {
						case <-sel2:
						case <-time.After(120 * time.Millisecond):
						}
					})
				}()
			}()
			go func() {
				defer wg.Done()
				<-w1In
				errs[1] = run(im, ops[1], func() {
					close(sel2)
					select {
					case <-sel3:
					case <-time.After(120 * time.Millisecond):
					}
				})
			}()
			wg.Wait()
			got := state(im)
			im.Destroy()
			c.Count("queued-writers:" + be)
			if errs[0] == nil && errs[1] == nil && errs[2] == nil {
				c.NonTrivial(fmt.Sprintf("queued-%s-%d-%d", be, rep, len(indexes)))
				if !serial[got] {
					exp := []string{}
					for k := range serial {
						exp = append(exp, k)
					}
					sort.Strings(exp)
					c.Violation(&Replay{Stream: "crossing-writes", Backend: be, Case: []interface{}{J{"cell": fmt.Sprintf("%s: W1 [x==7 -> y:=1] in its transaction when W2 [x==1 -> x:=3] calls; W3 [x==3 -> x:=1] calls when W1 returns; indexes %v", be, indexes)}},
						Expected: exp, Actual: []string{got},
						Note: "three overlapping bulk updates all returned success, but the final state is not the result of any of their six sequential orders"})
					return false
				}
			}
		}
	}
	return true
}

// c07ConcurrentClose: eight goroutines close one handle at the same time (the store holds each Close it receives open
// for a moment): the store is closed exactly once, nobody panics, and every call returns.
func c07ConcurrentClose(c *Ctx, be string) bool {
	for rep := 0; rep < c.N(3, 20); rep++ {
		c.Evals++
		im := NewImpl(be, c.Scratch)
		im.db.CreateCollection("z")
		im.xs.closeDelay = 15 * time.Millisecond
		var wg sync.WaitGroup
		var mu sync.Mutex
		panics := []string{}
		start := make(chan struct{})
		for g := 0; g < 8; g++ {
			wg.Add(1)
			go func() {
				defer wg.Done()
				defer func() {
					if r := recover(); r != nil {
						mu.Lock()
						panics = append(panics, fmt.Sprint(r))
						mu.Unlock()
					}
				}()
				<-start
				im.db.Close()
			}()
		}
		close(start)
		done := make(chan struct{})
		go func() { wg.Wait(); close(done) }()
		select {
		case <-done:
		case <-time.After(20 * time.Second):
			c.Violation(&Replay{Backend: be, Stream: "concurrent-close", Case: []interface{}{J{"k": "concurrent-close", "goroutines": 8}}, Note: "concurrent Close calls did not all return within 20 s"})
			return false
		}
		n := atomic.LoadInt64(&im.xs.closeCalls)
		im.stuck = true // closed already
		os.RemoveAll(im.dir)
		c.Count("concurrent-close:" + be)
		if n != 1 || len(panics) > 0 {
			c.Violation(&Replay{Backend: be, Stream: "concurrent-close", Case: []interface{}{J{"k": "concurrent-close", "goroutines": 8}}, Expected: []string{"the store is closed once"},
				Actual: []string{fmt.Sprintf("the store received %d Close calls", n), strings.Join(panics, "; ")}, Note: "overlapping Close calls on one handle reached the store more than once (or panicked)"})
			return false
		}
	}
	return true
}
