package main

import (
	"fmt"
	"math"
	"strings"

	d "github.com/ostafen/clover/v2/document"
	"github.com/ostafen/clover/v2/query"
)

// repeatedOperandBulk (C03): bulk writes selected by an In list that names the same value more than once (the same
// literal twice, the same number in two Go kinds), with and without an index on the field: each selected document is
// rewritten ONCE on its pre-call value, the size falls by the number of DOCUMENTS deleted.
func repeatedOperandBulk(c *Ctx, dr *Driver, be string) bool {
	im := NewImpl(be, c.Scratch)
	defer im.Destroy()
	f := hx("f")
	lists := [][]interface{}{
		{J{"lit": encValue(int64(2))}, J{"lit": encValue(int64(3))}, J{"lit": encValue(int64(2))}},
		{J{"lit": encValue(int64(1))}, J{"lit": encValue(float64(1))}},
		{J{"lit": encValue(int64(4))}, J{"lit": encValue(uint64(4))}, J{"lit": encValue(float64(4))}, J{"lit": encValue(int64(4))}},
		{J{"lit": encValue(int64(2))}, J{"ref": hx("h")}}, // h = 2 in every document: the reference repeats the literal
	}
	for _, indexed := range []bool{true, false} {
		for li, xs := range lists {
			for _, kind := range []string{"copy", "delete", "set"} {
				lines := []J{opLine("createCollection", J{"coll": hx("ro")})}
				if indexed {
					lines = append(lines, opLine("createIndex", J{"coll": hx("ro"), "field": f}))
				}
				docs := []interface{}{}
				for j := 0; j < 8; j++ {
					docs = append(docs, encDoc(map[string]interface{}{"_id": fixedId(660000 + j), "f": int64(j % 5), "n": int64(10 + j), "h": int64(2)}))
				}
				lines = append(lines, opLine("insert", J{"coll": hx("ro"), "docs": docs}))
				q := J{"coll": hx("ro"), "crit": J{"in": []interface{}{f, xs}}}
				switch kind {
				case "copy": // n := n + ... is not expressible; copying f into n and then f into m shows a second pass (m would see the rewritten f)
					lines = append(lines, opLine("update", J{"q": q, "upd": J{"copy": []interface{}{hx("n"), hx("m")}}}))
				case "set":
					lines = append(lines, opLine("update", J{"q": q, "upd": J{"setAll": []interface{}{[]interface{}{f, encValue(int64(9))}}}}))
				default:
					lines = append(lines, opLine("delete", J{"q": q}))
				}
				lines = append(lines, J{"k": "dump"}, opLine("count", J{"q": J{"coll": hx("ro")}}), opLine("findAll", J{"q": J{"coll": hx("ro"), "sort": []interface{}{[]interface{}{hx("_id"), 1}}}}),
					opLine("findAll", J{"q": q}), opLine("count", J{"q": q}))
				o := runHistory(dr, im, lines, HistOpts{})
				recordHistory(c, lines, &o, be)
				c.Count("repeated-operand-bulk")
				_ = li
				if o.Index >= 0 {
					if reportHistoryProblem(c, dr, im, lines, &o, be, HistOpts{}, "repeated-operand") {
						return false
					}
				}
			}
		}
	}
	return true
}

// bigIntSorts (C08): in-memory sorts (no index, and two-key sorts) over integers that are distinct but share their
// float64 image - neighbours of 2^53, of the int64 and uint64 ends, nanosecond timestamps a few units apart -
// inserted in an order that is not the numeric one: the order and every window are the exact ones.
func bigIntSorts(c *Ctx, dr *Driver, be string) bool {
	im := NewImpl(be, c.Scratch)
	defer im.Destroy()
	vals := []interface{}{int64(1<<53 + 2), int64(1 << 53), int64(1<<53 + 1), int64(math.MaxInt64), int64(math.MaxInt64 - 1), int64(math.MaxInt64 - 2),
		uint64(math.MaxUint64), uint64(math.MaxUint64 - 1), uint64(1<<63 + 1), uint64(1 << 63), int64(1700000000000000003), int64(1700000000000000001), int64(1700000000000000002),
		int64(-(1<<53 + 1)), int64(-(1 << 53)), int64(math.MinInt64 + 1), int64(math.MinInt64), float64(1 << 53), int64(7)}
	lines := []J{opLine("createCollection", J{"coll": hx("bs")})}
	docs := []interface{}{}
	for j, v := range vals {
		docs = append(docs, encDoc(map[string]interface{}{"_id": fixedId(670000 + (j*7)%len(vals)), "x": v, "k": int64(j % 3)}))
	}
	lines = append(lines, opLine("insert", J{"coll": hx("bs"), "docs": docs}))
	x, k, id := hx("x"), hx("k"), hx("_id")
	for _, srt := range [][]interface{}{{[]interface{}{x, 1}, []interface{}{id, 1}}, {[]interface{}{x, -1}, []interface{}{id, 1}}, {[]interface{}{k, 1}, []interface{}{x, 1}, []interface{}{id, 1}}, {[]interface{}{k, -1}, []interface{}{x, -1}, []interface{}{id, -1}}} {
		for _, w := range [][2]int{{0, -1}, {2, 5}, {0, 3}, {10, 100}} {
			q := J{"coll": hx("bs"), "sort": srt}
			if w[0] != 0 {
				q["skip"] = w[0]
			}
			if w[1] != -1 {
				q["limit"] = w[1]
			}
			lines = append(lines, opLine("findAll", J{"q": q}), opLine("findFirst", J{"q": q}))
		}
	}
	o := runHistory(dr, im, lines, HistOpts{})
	recordHistory(c, lines, &o, be)
	c.Count("big-int-sorts")
	if o.Index >= 0 {
		if reportHistoryProblem(c, dr, im, lines, &o, be, HistOpts{}, "big-int-sorts") {
			return false
		}
	}
	return true
}

// longStringRanges (C17): indexed strings of 1100-1600 bytes that share a prefix of more than a thousand bytes and
// differ after it; ranges whose bounds lie among them, both inclusivities and directions, and the index-ordered scan.
func longStringRanges(c *Ctx, dr *Driver, be string) bool {
	im := NewImpl(be, c.Scratch)
	defer im.Destroy()
	p := strings.Repeat("s", 1100)
	vals := []interface{}{p + "c", p + "a", p + "b", p + "ab", p, p + strings.Repeat("z", 500), "short", p[:1024], p[:1023] + "t", int64(3)}
	lines := []J{opLine("createCollection", J{"coll": hx("ls0")}), opLine("createCollection", J{"coll": hx("ls1")}), opLine("createIndex", J{"coll": hx("ls1"), "field": hx("x")})}
	docs := []interface{}{}
	for j, v := range vals {
		docs = append(docs, encDoc(map[string]interface{}{"_id": fixedId(680000 + (j*3)%len(vals)), "x": v}))
	}
	for _, coll := range []string{"ls0", "ls1"} {
		lines = append(lines, opLine("insert", J{"coll": hx(coll), "docs": docs}))
	}
	x := hx("x")
	for _, coll := range []string{"ls0", "ls1"} {
		for _, b := range []interface{}{p + "a", p + "b", p, p + "ab", p[:1024]} {
			for _, op := range []string{"gt", "ge", "lt", "le", "eq"} {
				lines = append(lines, opLine("findAll", J{"q": J{"coll": hx(coll), "crit": J{"cmp": []interface{}{op, x, J{"lit": encValue(b)}}}, "sort": []interface{}{[]interface{}{x, 1}}}}))
			}
			lines = append(lines, opLine("findAll", J{"q": J{"coll": hx(coll), "crit": J{"and": []interface{}{J{"cmp": []interface{}{"gt", x, J{"lit": encValue(p)}}}, J{"cmp": []interface{}{"le", x, J{"lit": encValue(b)}}}}}}}))
		}
		lines = append(lines, opLine("findAll", J{"q": J{"coll": hx(coll), "sort": []interface{}{[]interface{}{x, 1}}}}), opLine("findAll", J{"q": J{"coll": hx(coll), "sort": []interface{}{[]interface{}{x, -1}}}}))
	}
	lines = append(lines, J{"k": "dump"})
	o := runHistory(dr, im, lines, HistOpts{})
	recordHistory(c, lines, &o, be)
	c.Count("long-string-ranges")
	if o.Index >= 0 {
		if reportHistoryProblem(c, dr, im, lines, &o, be, HistOpts{}, "long-string-ranges") {
			return false
		}
	}
	return true
}

// dropOneOfSeveralIndexes (C02): a collection with three indexes, one of them dropped (the first, the middle, the last
// created): every query that can be planned through a REMAINING index - range, equality, sort, bulk update - answers as
// the un-indexed twin does, and the raw dump holds the entries of exactly the remaining indexes.
func dropOneOfSeveralIndexes(c *Ctx, dr *Driver, be string) bool {
	im := NewImpl(be, c.Scratch)
	defer im.Destroy()
	fields := []string{"x", "y", "z"}
	for _, victim := range fields {
		lines := []J{opLine("createCollection", J{"coll": hx("d0")}), opLine("createCollection", J{"coll": hx("d3")})}
		for _, f := range fields {
			lines = append(lines, opLine("createIndex", J{"coll": hx("d3"), "field": hx(f)}))
		}
		docs := []interface{}{}
		for j := 0; j < 12; j++ {
			docs = append(docs, encDoc(map[string]interface{}{"_id": fixedId(697000 + j), "x": int64(j), "y": int64(11 - j), "z": int64(j % 4)}))
		}
		for _, coll := range []string{"d0", "d3"} {
			lines = append(lines, opLine("insert", J{"coll": hx(coll), "docs": docs}))
		}
		lines = append(lines, opLine("dropIndex", J{"coll": hx("d3"), "field": hx(victim)}), J{"k": "dump"}, opLine("listIndexes", J{"coll": hx("d3")}))
		probe := func() {
			for _, coll := range []string{"d0", "d3"} {
				for _, f := range fields {
					fx := hx(f)
					lines = append(lines,
						opLine("findAll", J{"q": J{"coll": hx(coll), "crit": J{"and": []interface{}{J{"cmp": []interface{}{"ge", fx, J{"lit": encValue(int64(2))}}}, J{"cmp": []interface{}{"lt", fx, J{"lit": encValue(int64(9))}}}}}, "sort": []interface{}{[]interface{}{hx("_id"), 1}}}}),
						opLine("count", J{"q": J{"coll": hx(coll), "crit": J{"cmp": []interface{}{"eq", fx, J{"lit": encValue(int64(3))}}}}}),
						opLine("findAll", J{"q": J{"coll": hx(coll), "sort": []interface{}{[]interface{}{fx, -1}, []interface{}{hx("_id"), 1}}}}))
				}
			}
		}
		probe()
		for _, coll := range []string{"d0", "d3"} {
			lines = append(lines, opLine("update", J{"q": J{"coll": hx(coll), "crit": J{"cmp": []interface{}{"ge", hx("x"), J{"lit": encValue(int64(6))}}}}, "upd": J{"setAll": []interface{}{[]interface{}{hx("z"), encValue(int64(9))}}}}))
		}
		lines = append(lines, J{"k": "dump"})
		probe()
		o := runHistory(dr, im, lines, HistOpts{})
		recordHistory(c, lines, &o, be)
		c.Count("drop-one-of-several-indexes")
		if o.Index >= 0 {
			if reportHistoryProblem(c, dr, im, lines, &o, be, HistOpts{}, "drop-one-of-several") {
				return false
			}
		}
	}
	return true
}

// binaryAndArrayRanges (C17, on the implementation alone: the protocol carries no binary values): an indexed field that
// mixes binary values with ordinary arrays of the same numbers (Compare treats a []byte as the array of its bytes):
// every range with bounds of either kind, both directions, and the index-ordered sort - against the un-indexed twin.
func binaryAndArrayRanges(c *Ctx, be string) bool {
	im := NewImpl(be, c.Scratch)
	defer im.Destroy()
	db := im.db
	arr := func(xs ...int64) []interface{} {
		out := []interface{}{}
		for _, x := range xs {
			out = append(out, x)
		}
		return out
	}
	vals := []interface{}{[]byte{1, 2}, arr(1, 3), []byte{1, 4}, arr(1, 2), []byte{}, arr(), arr(1), []byte{1}, []byte{2}, arr(0, 9), []byte{1, 2, 0}, arr(1, 2, 0), int64(7), "s"}
	for _, coll := range []string{"ba0", "ba1"} {
		db.CreateCollection(coll)
	}
	db.CreateIndex("ba1", "v")
	for _, coll := range []string{"ba0", "ba1"} {
		for i, v := range vals {
			doc := d.NewDocumentOf(map[string]interface{}{"_id": fixedId(698000 + i), "v": v, "n": int64(i)})
			if err := db.Insert(coll, doc); err != nil {
				c.Violation(&Replay{Backend: be, Stream: "binary-ranges", Case: []interface{}{J{"k": "insert", "n": i}}, Actual: []string{err.Error()}, Note: "insert of a binary / array value failed"})
				return false
			}
		}
	}
	ids := func(docs []*d.Document) string {
		out := []string{}
		for _, doc := range docs {
			out = append(out, fmt.Sprint(doc.Get("n")))
		}
		return strings.Join(out, ",")
	}
	for bi, b := range vals[:12] {
		for _, op := range []string{"gt", "ge", "lt", "le", "eq"} {
			for _, dir := range []int{1, -1} {
				c.Evals++
				mk := func(coll string) *query.Query {
					f := query.Field("v")
					var cr query.Criteria
					switch op {
					case "gt":
						cr = f.Gt(b)
					case "ge":
						cr = f.GtEq(b)
					case "lt":
						cr = f.Lt(b)
					case "le":
						cr = f.LtEq(b)
					default:
						cr = f.Eq(b)
					}
					return query.NewQuery(coll).Where(cr).Sort(query.SortOption{Field: "v", Direction: dir}, query.SortOption{Field: "n", Direction: 1})
				}
				d0, e0 := db.FindAll(mk("ba0"))
				d1, e1 := db.FindAll(mk("ba1"))
				if e0 != nil || e1 != nil || ids(d0) != ids(d1) {
					c.Violation(&Replay{Backend: be, Stream: "binary-ranges", Case: []interface{}{J{"k": "range", "op": op, "bound": bi, "dir": dir}}, Expected: []string{"without index: " + ids(d0)}, Actual: []string{"with index: " + ids(d1), fmt.Sprint(e0, e1)},
						Note: "a range over an indexed field mixing binary values and arrays answers differently from the un-indexed twin"})
					return false
				}
			}
		}
	}
	c.Count("binary-and-array-ranges")
	return true
}

// bigFailingInserts (C12 / C04, on the implementation alone): one Insert of 1100-2600 documents whose LAST documents
// hold the offence - an _id already stored, an _id repeated inside the batch, a malformed _id - is refused as a whole:
// an error, the raw dump unchanged, the count unchanged, none of the batch retrievable.
func bigFailingInserts(c *Ctx, be string) bool {
	im := NewImpl(be, c.Scratch)
	defer im.Destroy()
	db := im.db
	db.CreateCollection("bi")
	db.CreateIndex("bi", "x")
	if err := db.Insert("bi", d.NewDocumentOf(map[string]interface{}{"_id": fixedId(699000), "x": int64(-1)})); err != nil {
		panic(err)
	}
	before := im.Dump()
	for _, n := range []int{1100, 2600} {
		for _, kind := range []string{"stored-id", "repeated-id", "malformed-id"} {
			c.Evals++
			docs := []*d.Document{}
			for i := 0; i < n; i++ {
				docs = append(docs, d.NewDocumentOf(map[string]interface{}{"_id": fixedId(700000 + i), "x": int64(i % 50)}))
			}
			switch kind {
			case "stored-id":
				docs[n-3].Set("_id", fixedId(699000))
			case "repeated-id":
				docs[n-1].Set("_id", fixedId(700000+n-40))
			default:
				docs[n-20].Set("_id", "not-a-uuid")
			}
			err := db.Insert("bi", docs...)
			cnt, _ := db.Count(query.NewQuery("bi"))
			first, _ := db.FindById("bi", fixedId(700000))
			after := im.Dump()
			bad := ""
			switch {
			case err == nil:
				bad = "the insert succeeded"
			case cnt != 1:
				bad = fmt.Sprintf("the insert failed (%v) but the collection now counts %d documents instead of 1", err, cnt)
			case first != nil:
				bad = fmt.Sprintf("the insert failed (%v) but the first document of the batch can be retrieved", err)
			case after != before:
				bad = fmt.Sprintf("the insert failed (%v) but the raw content of the store changed", err)
			}
			if bad != "" {
				c.Violation(&Replay{Backend: be, Stream: "big-failing-insert", Case: []interface{}{J{"k": "big-failing-insert", "documents": n, "offence": kind}}, Actual: []string{bad},
					Note: "an Insert that is refused for one of its last documents must change nothing"})
				return false
			}
			c.Count("big-failing-insert")
		}
	}
	return true
}

// bulkByIdCells (C03): bulk writes whose whole criterion is an equality on _id - with a skip, with limit 0, with the id
// given as a reference to another field ("$self", Field("self"), "$_id"): the documents rewritten / deleted are the ones
// FindAll selects for the same query, window and references included.
func bulkByIdCells(c *Ctx, dr *Driver, be string) bool {
	im := NewImpl(be, c.Scratch)
	defer im.Destroy()
	idf := hx("_id")
	id := func(i int) string { return fixedId(699500 + i) }
	qs := []J{
		{"crit": J{"cmp": []interface{}{"eq", idf, J{"lit": encValue(id(1))}}}},
		{"crit": J{"cmp": []interface{}{"eq", idf, J{"lit": encValue(id(1))}}}, "skip": 1},
		{"crit": J{"cmp": []interface{}{"eq", idf, J{"lit": encValue(id(1))}}}, "limit": 0},
		{"crit": J{"cmp": []interface{}{"eq", idf, J{"lit": encValue("$self")}}}},
		{"crit": J{"cmp": []interface{}{"eq", idf, J{"ref": hx("self")}}}},
		{"crit": J{"cmp": []interface{}{"eq", idf, J{"lit": encValue("$_id")}}}},
		{"crit": J{"cmp": []interface{}{"eq", idf, J{"lit": encValue("$other")}}}},
	}
	for _, q0 := range qs {
		for _, kind := range []string{"set", "delete"} {
			lines := []J{opLine("createCollection", J{"coll": hx("bd")})}
			docs := []interface{}{}
			for j := 0; j < 4; j++ {
				docs = append(docs, encDoc(map[string]interface{}{"_id": id(j), "self": id(j), "other": id((j + 1) % 4), "n": int64(j)}))
			}
			lines = append(lines, opLine("insert", J{"coll": hx("bd"), "docs": docs}))
			q := cloneJ(q0)
			q["coll"] = hx("bd")
			lines = append(lines, opLine("findAll", J{"q": q}))
			if kind == "set" {
				lines = append(lines, opLine("update", J{"q": q, "upd": J{"setAll": []interface{}{[]interface{}{hx("n"), encValue(int64(50))}}}}))
			} else {
				lines = append(lines, opLine("delete", J{"q": q}))
			}
			lines = append(lines, J{"k": "dump"}, opLine("count", J{"q": J{"coll": hx("bd")}}), opLine("findAll", J{"q": J{"coll": hx("bd"), "sort": []interface{}{[]interface{}{idf, 1}}}}))
			o := runHistory(dr, im, lines, HistOpts{})
			recordHistory(c, lines, &o, be)
			c.Count("bulk-by-id")
			if o.Index >= 0 {
				if reportHistoryProblem(c, dr, im, lines, &o, be, HistOpts{}, "bulk-by-id") {
					return false
				}
			}
		}
	}
	return true
}

// binaryReadBack (C11, on the implementation alone: the protocol carries no binary values): documents holding binary
// values - empty but not nil, one byte, many - at the top level, in a nested map, in an array and in a map inside an
// array are written by Insert and then re-saved by Update / UpdateFunc / UpdateById of an unrelated field; after every
// step FindById and FindAll return them with the same types and bytes (an empty []byte stays an empty []byte).
func binaryReadBack(c *Ctx, be string) bool {
	im := NewImpl(be, c.Scratch)
	defer im.Destroy()
	db := im.db
	db.CreateCollection("bb")
	var show func(v interface{}) string
	show = func(v interface{}) string {
		switch x := v.(type) {
		case nil:
			return "nil"
		case []byte:
			if x == nil {
				return "B(nil)"
			}
			return fmt.Sprintf("B%x", x)
		case map[string]interface{}:
			keys := []string{}
			for k := range x {
				keys = append(keys, k)
			}
			sortStrings(keys)
			parts := []string{}
			for _, k := range keys {
				parts = append(parts, k+"="+show(x[k]))
			}
			return "{" + strings.Join(parts, ",") + "}"
		case []interface{}:
			parts := []string{}
			for _, e := range x {
				parts = append(parts, show(e))
			}
			return "[" + strings.Join(parts, ",") + "]"
		}
		return fmt.Sprintf("%T:%v", v, v)
	}
	mk := func(i int, b []byte) map[string]interface{} {
		cp := func() []byte { return append([]byte{}, b...) }
		return map[string]interface{}{"_id": fixedId(699800 + i), "top": cp(), "m": map[string]interface{}{"b": cp()}, "l": []interface{}{cp(), map[string]interface{}{"z": cp()}}, "k": int64(0)}
	}
	blobs := [][]byte{{}, {0}, {1, 2, 3}, []byte(strings.Repeat("x", 300))}
	want := map[string]string{}
	for i, b := range blobs {
		m := mk(i, b)
		if err := db.Insert("bb", d.NewDocumentOf(m)); err != nil {
			c.Violation(&Replay{Backend: be, Stream: "binary-read-back", Case: []interface{}{J{"k": "insert", "blob": i}}, Actual: []string{err.Error()}, Note: "Insert of a document holding binary values failed"})
			return false
		}
		delete(m, "k")
		want[fixedId(699800+i)] = show(m)
	}
	verify := func(step string) bool {
		c.Evals++
		docs, err := db.FindAll(query.NewQuery("bb"))
		if err != nil || len(docs) != len(blobs) {
			c.Violation(&Replay{Backend: be, Stream: "binary-read-back", Case: []interface{}{J{"k": step}}, Actual: []string{fmt.Sprint(err, len(docs))}, Note: "FindAll failed after " + step})
			return false
		}
		for _, doc := range docs {
			byId, _ := db.FindById("bb", doc.ObjectId())
			for _, got := range []*d.Document{doc, byId} {
				if got == nil {
					continue
				}
				m := got.ToMap()
				delete(m, "k")
				if show(m) != want[doc.ObjectId()] {
					c.Violation(&Replay{Backend: be, Stream: "binary-read-back", Case: []interface{}{J{"k": step, "id": doc.ObjectId()}}, Expected: []string{want[doc.ObjectId()]}, Actual: []string{show(m)},
						Note: "a document holding binary values is not read back as it was written, after " + step})
					return false
				}
			}
		}
		return true
	}
	if !verify("insert") {
		return false
	}
	db.Update(query.NewQuery("bb"), map[string]interface{}{"k": int64(1)})
	if !verify("Update of an unrelated field") {
		return false
	}
	db.UpdateFunc(query.NewQuery("bb"), func(doc *d.Document) *d.Document { doc.Set("k", int64(2)); return doc })
	if !verify("UpdateFunc of an unrelated field") {
		return false
	}
	for i := range blobs {
		db.UpdateById("bb", fixedId(699800+i), func(doc *d.Document) *d.Document { doc.Set("k", int64(3)); return doc })
	}
	if !verify("UpdateById of an unrelated field") {
		return false
	}
	if be != "badger-mem" {
		im.Close()
		im.open()
		db = im.db
		if !verify("reopen") {
			return false
		}
	}
	c.Count("binary-read-back")
	return true
}

func sortStrings(s []string) {
	for i := 1; i < len(s); i++ {
		for j := i; j > 0 && s[j] < s[j-1]; j-- {
			s[j], s[j-1] = s[j-1], s[j]
		}
	}
}
