package main

// sameFieldCells: every pair of constraints on ONE indexed field - op1, op2 in {gt, ge, lt, le, eq, ne} joined by and / or,
// with literal pairs that share the bound (5,5), involve nil ((5,nil), (nil,5), (nil,nil)) or are ordered either way
// ((3,7), (7,3)) - and some triples f > 1 AND (pair) - on a collection with an index on the field and on its twin without:
// the planner merges the ranges of the two sides (intersection for And; nothing, or whatever it does, for Or), and every
// answer must be the specification's. 36 x 2 x 6 pairs + 72 triples, FindAll and Count, both directions of an index-ordered sort.
func sameFieldCells(c *Ctx, dr *Driver, im *Impl, be string) bool {
	lines := []J{}
	for _, coll := range []string{"sf0", "sf1"} {
		lines = append(lines, opLine("createCollection", J{"coll": hx(coll)}))
	}
	lines = append(lines, opLine("createIndex", J{"coll": hx("sf1"), "field": hx("f")}))
	vals := []interface{}{"absent", nil, int64(3), int64(5), int64(5), float64(5), int64(6), int64(7), "s", true, nil, int64(1), uint64(9)}
	docs := []interface{}{}
	for i, v := range vals {
		m := map[string]interface{}{"_id": fixedId(620000 + i), "o": int64(i)}
		if v != "absent" {
			m["f"] = v
		}
		docs = append(docs, encDoc(m))
	}
	for _, coll := range []string{"sf0", "sf1"} {
		lines = append(lines, opLine("insert", J{"coll": hx(coll), "docs": docs}))
	}
	f := hx("f")
	mk := func(op string, v interface{}) J {
		if op == "ne" {
			return J{"not": J{"cmp": []interface{}{"eq", f, J{"lit": encValue(v)}}}}
		}
		return J{"cmp": []interface{}{op, f, J{"lit": encValue(v)}}}
	}
	ops := []string{"gt", "ge", "lt", "le", "eq", "ne"}
	lits := [][2]interface{}{{int64(5), int64(5)}, {int64(5), nil}, {nil, int64(5)}, {nil, nil}, {int64(3), int64(7)}, {int64(7), int64(3)}}
	n := 0
	add := func(cr J) {
		for _, coll := range []string{"sf0", "sf1"} {
			q := J{"coll": hx(coll), "crit": cr}
			switch n % 4 {
			case 1:
				q["sort"] = []interface{}{[]interface{}{f, 1}, []interface{}{hx("_id"), 1}}
			case 3:
				q["sort"] = []interface{}{[]interface{}{f, -1}, []interface{}{hx("_id"), 1}}
			}
			lines = append(lines, opLine([]string{"findAll", "findAll", "count"}[n%3], J{"q": q}))
		}
		n++
	}
	for _, conn := range []string{"and", "or"} {
		for _, o1 := range ops {
			for _, o2 := range ops {
				for _, lp := range lits {
					add(J{conn: []interface{}{mk(o1, lp[0]), mk(o2, lp[1])}})
				}
				// inside an outer constraint on the same field, on either side
				pair := J{conn: []interface{}{mk(o1, int64(5)), mk(o2, int64(5))}}
				add(J{"and": []interface{}{mk("gt", int64(1)), pair}})
				add(J{"or": []interface{}{pair, mk("eq", nil)}})
			}
		}
	}
	o := runHistory(dr, im, lines, HistOpts{})
	recordHistory(c, lines, &o, be)
	c.Count("same-field-cells")
	if o.Index >= 0 {
		if reportHistoryProblem(c, dr, im, lines, &o, be, HistOpts{}, "same-field-cells") {
			return false
		}
	}
	return true
}
