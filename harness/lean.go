package main

import (
	"bufio"
	"encoding/json"
	"fmt"
	"io"
	"os"
	"os/exec"
	"strings"
)

// Driver is a running Lean driver process (line in, line out).
type Driver struct {
	cmd *exec.Cmd
	in  io.WriteCloser
	out *bufio.Reader
	n   int
}

func StartDriver(path string) *Driver {
	cmd := exec.Command(path)
	in, err := cmd.StdinPipe()
	if err != nil {
		panic(err)
	}
	outp, err := cmd.StdoutPipe()
	if err != nil {
		panic(err)
	}
	if err := cmd.Start(); err != nil {
		panic(err)
	}
	return &Driver{cmd: cmd, in: in, out: bufio.NewReaderSize(outp, 1<<20)}
}

// Ask sends one case line and returns the model's answer line.
func (dr *Driver) Ask(line J) string {
	b, err := json.Marshal(line)
	if err != nil {
		panic(err)
	}
	return dr.AskRaw(string(b))
}

func (dr *Driver) AskRaw(s string) string {
	dr.n++
	if p := os.Getenv("VERIF_DRIVER_LOG"); p != "" {
		if f, err := os.OpenFile(p, os.O_APPEND|os.O_CREATE|os.O_WRONLY, 0o644); err == nil {
			f.WriteString(s + "\n")
			f.Close()
		}
	}
	if _, err := io.WriteString(dr.in, s+"\n"); err != nil {
		panic(fmt.Sprintf("driver write: %v", err))
	}
	ans, err := dr.out.ReadString('\n')
	if err != nil {
		panic(fmt.Sprintf("driver read after %d lines: %v (line: %.200s)", dr.n, err, s))
	}
	return strings.TrimRight(ans, "\n")
}

func (dr *Driver) Close() {
	dr.in.Close()
	dr.cmd.Wait()
}
