package main

import (
	"encoding/json"
	"errors"
	"fmt"
	"os"
	"path/filepath"
	"sort"
	"strings"
	"sync/atomic"
	"time"

	badgerdb "github.com/dgraph-io/badger/v4"
	clover "github.com/ostafen/clover/v2"
	d "github.com/ostafen/clover/v2/document"
	"github.com/ostafen/clover/v2/query"
	"github.com/ostafen/clover/v2/store"
	"github.com/ostafen/clover/v2/store/badger"
	"github.com/ostafen/clover/v2/store/bbolt"
)

// Impl runs protocol operations against the real implementation built from /repo.
type Impl struct {
	raw            bool   // open the database on the adapter's store itself, without the tracing wrapper
	backend        string // bbolt | badger-mem | badger-disk
	root           string // scratch root (removed by the caller)
	dir            string
	n              int
	xs             *XStore
	db             *clover.DB
	files          map[string]string // export name -> path
	stuck          bool              // an operation timed out: the handle is unusable
	postInterloper func()            // runs after an interloper operation, still before the write transaction opens
}

func openStore(backend, dir string) (store.Store, error) {
	switch backend {
	case "bbolt":
		return bbolt.Open(dir)
	case "badger-mem":
		return badger.OpenWithOptions(badgerdb.DefaultOptions("").WithInMemory(true).WithLoggingLevel(badgerdb.ERROR))
	case "badger-disk":
		return badger.OpenWithOptions(badgerdb.DefaultOptions(dir).WithLoggingLevel(badgerdb.ERROR))
	case "badger-open":
		// exactly what a user of the package gets: badger.Open(dir) with whatever options the adapter chooses
		return badger.Open(dir)
	}
	return nil, fmt.Errorf("unknown backend %s", backend)
}

var implDirs int64

func NewImpl(backend, root string) *Impl {
	im := &Impl{backend: backend, root: root, files: map[string]string{}}
	im.Reset()
	return im
}

func (im *Impl) open() {
	if err := os.MkdirAll(im.dir, 0o755); err != nil {
		panic(err)
	}
	st, err := openStore(im.backend, im.dir)
	if err != nil {
		panic(err)
	}
	im.xs = NewXStore(st)
	var handle store.Store = im.xs
	if im.raw {
		// the store exactly as the adapter returns it (optional interfaces a wrapper would hide stay visible): used by
		// the child processes of the kill streams, which need neither traces nor faults
		handle = st
	}
	db, err := clover.OpenWithStore(handle)
	if err != nil {
		panic(err)
	}
	im.db = db
}

// Reset closes the database and starts from an empty one.
func (im *Impl) Reset() {
	if im.db != nil && !im.stuck {
		im.closeBounded()
		os.RemoveAll(im.dir)
	}
	im.stuck = false
	im.n++
	// unique over the whole process: two handles alive at the same time (a stream's own and a cell's) must never share a
	// directory - bbolt would wait for the other's file lock forever
	im.dir = filepath.Join(im.root, fmt.Sprintf("%s-%d", im.backend, atomic.AddInt64(&implDirs, 1)))
	im.open()
}

// closeBounded closes the handle, giving up after a few seconds: a leaked transaction (a defect under
// test) would make bbolt's Close wait forever.
func (im *Impl) closeBounded() {
	if im.db == nil || im.stuck {
		return
	}
	done := make(chan struct{})
	db := im.db
	go func() { db.Close(); close(done) }()
	select {
	case <-done:
	case <-time.After(5 * time.Second):
		im.stuck = true
	}
}

func (im *Impl) Close() { im.closeBounded() }

// Reopen closes (if needed) and opens the same directory again; not meaningful for badger-mem.
func (im *Impl) Reopen() {
	im.closeBounded()
	if im.stuck {
		return
	}
	im.open()
}

func (im *Impl) Destroy() {
	im.closeBounded()
	os.RemoveAll(im.dir)
}

func errName(err error) string {
	switch {
	case errors.Is(err, errInjected):
		return "store-fault"
	case errors.Is(err, clover.ErrCollectionExist):
		return "coll-exist"
	case errors.Is(err, clover.ErrCollectionNotExist):
		return "coll-not-exist"
	case errors.Is(err, clover.ErrIndexExist):
		return "index-exist"
	case errors.Is(err, clover.ErrIndexNotExist):
		return "index-not-exist"
	case errors.Is(err, clover.ErrDocumentNotExist):
		return "doc-not-exist"
	case errors.Is(err, clover.ErrDuplicateKey):
		return "dup-key"
	}
	msg := err.Error()
	switch {
	case strings.HasPrefix(msg, "invalid _id"), strings.HasPrefix(msg, "invalid _expiresAt"):
		return "invalid-doc"
	case strings.Contains(msg, "must match the one supplied"):
		return "id-mismatch"
	case strings.Contains(msg, "id of a document cannot be changed"):
		return "id-changed"
	case strings.Contains(msg, "updated document cannot be nil"):
		return "nil-doc"
	}
	return "other"
}

// scribble overwrites, in place, everything a read has handed out (every array element, every map value, at every
// depth): what a caller does to a document it was given must not reach the store, nor what the next read returns
// (C11: "stored documents read back identical") - a cache or a shallow copy between the store and the caller shows here.
func scribble(docs ...*d.Document) {
	var walk func(v interface{})
	walk = func(v interface{}) {
		switch x := v.(type) {
		case map[string]interface{}:
			for k, e := range x {
				walk(e)
				x[k] = uint64(99)
			}
		case []interface{}:
			for i, e := range x {
				walk(e)
				x[i] = nil
			}
		case []byte:
			for i := range x {
				x[i] = 0xEE
			}
		}
	}
	for _, doc := range docs {
		if doc != nil {
			walk(doc.AsMap())
		}
	}
}

func docsLine(docs []*d.Document) string {
	parts := make([]string, 0, len(docs))
	for _, doc := range docs {
		parts = append(parts, canonDoc(doc.AsMap()))
	}
	return "ok docs " + strings.Join(parts, ";")
}

func strs(j interface{}) []string {
	out := []string{}
	if j == nil {
		return out
	}
	for _, e := range j.([]interface{}) {
		out = append(out, e.(string))
	}
	return out
}

// ExecResult is what one public call produced.
type ExecResult struct {
	Line           string   // canonical result line, same grammar as the Lean driver
	Fresh          []string // hex ids assigned by Insert to documents that had none
	Trace          []string
	Fired          bool
	TxN            int
	MutUnderCursor int // store mutations made while a cursor of the same transaction was open
}

// OpDeadline bounds every public call: an operation that does not return is reported as "timeout"
// (C04: no wedge, C20: never blocks forever).
var OpDeadline = 30 * time.Second

// Exec runs one protocol operation under a deadline. faultAt = -1 for none.
func (im *Impl) Exec(op J, faultAt int, tracing bool) ExecResult {
	if im.stuck {
		return ExecResult{Line: "timeout (handle wedged by an earlier operation)"}
	}
	ch := make(chan ExecResult, 1)
	go func() { ch <- im.execGuarded(op, faultAt, tracing) }()
	select {
	case r := <-ch:
		return r
	case <-time.After(OpDeadline):
		im.stuck = true
		return ExecResult{Line: "timeout operation did not return within " + OpDeadline.String()}
	}
}

func (im *Impl) execGuarded(op J, faultAt int, tracing bool) (res ExecResult) {
	im.xs.StartOp(faultAt, tracing)
	defer func() {
		if r := recover(); r != nil {
			msg := fmt.Sprint(r)
			if len(msg) > 120 {
				msg = msg[:120]
			}
			res.Line = "panic " + strings.ReplaceAll(msg, "\n", " ")
		}
		res.Trace = im.xs.trace
		res.Fired = im.xs.fired
		res.TxN = im.xs.txBegun
		res.MutUnderCursor = im.xs.mutUnderCursor
	}()
	if il, ok := op["interloper"]; ok && il != nil {
		// another client's operation, committed right before this operation opens its write transaction (or, when it
		// opens none, right after it returns): the outcome must be that of the two operations one after the other
		ilOp := J(il.(map[string]interface{}))
		im.xs.mu.Lock()
		im.xs.onWriteBegin = func() {
			var r ExecResult
			im.xs.mu.Lock()
			mut0 := im.xs.mutUnderCursor
			im.xs.mu.Unlock()
			im.exec(ilOp, &r)
			// what the interloper does under its own cursors (DropIndex deletes while it scans) is not the operation's
			im.xs.mu.Lock()
			im.xs.mutUnderCursor = mut0
			im.xs.mu.Unlock()
			if im.postInterloper != nil {
				im.postInterloper()
			}
		}
		im.xs.mu.Unlock()
		defer func() {
			im.xs.mu.Lock()
			h := im.xs.onWriteBegin
			im.xs.onWriteBegin = nil
			im.xs.mu.Unlock()
			if h != nil {
				h()
			}
		}()
	}
	res.Line = im.exec(op, &res)
	return
}

func result(err error, okLine string) string {
	if err != nil {
		return "err " + errName(err)
	}
	return okLine
}

func mkUpdater(j interface{}, calls *[]string) func(doc *d.Document) *d.Document {
	m := j.(map[string]interface{})
	_, inplace := m["inplace"] // the updater mutates the document it is given and returns it
	return func(doc *d.Document) *d.Document {
		*calls = append(*calls, canonDoc(doc.AsMap()))
		if a, ok := m["setAll"]; ok {
			nd := doc.Copy()
			if inplace {
				nd = doc
			}
			for _, p := range a.([]interface{}) {
				pa := p.([]interface{})
				nd.Set(unhx(pa[0].(string)), decValue(pa[1]))
			}
			return nd
		}
		if c, ok := m["const"]; ok {
			return d.NewDocumentOf(decDoc(c))
		}
		if _, ok := m["nil"]; ok {
			return nil
		}
		if a, ok := m["copy"]; ok {
			arr := a.([]interface{})
			nd := doc.Copy()
			if inplace {
				nd = doc
			}
			nd.Set(unhx(arr[1].(string)), doc.Get(unhx(arr[0].(string))))
			return nd
		}
		panic("bad updater")
	}
}

func hexNames(names []string) string {
	hs := make([]string, 0, len(names))
	for _, n := range names {
		hs = append(hs, hx(n))
	}
	return "ok names " + strings.Join(hs, ",")
}

func (im *Impl) exec(op J, res *ExecResult) string {
	db := im.db
	coll := ""
	if c, ok := op["coll"]; ok {
		coll = unhx(c.(string))
	}
	switch op["op"].(string) {
	case "createCollection":
		return result(db.CreateCollection(coll), "ok unit")
	case "dropCollection":
		return result(db.DropCollection(coll), "ok unit")
	case "hasCollection":
		ok, err := db.HasCollection(coll)
		return result(err, "ok bool "+b01(ok))
	case "listCollections":
		names, err := db.ListCollections()
		return result(err, hexNames(names))
	case "insert":
		docs := make([]*d.Document, 0)
		lacking := []int{}
		for i, dj := range op["docs"].([]interface{}) {
			m := decDoc(dj)
			doc := d.NewDocumentOf(m)
			if !doc.Has("_id") || doc.Get("_id") == "" {
				lacking = append(lacking, i)
			}
			docs = append(docs, doc)
		}
		err := db.Insert(coll, docs...)
		for _, i := range lacking {
			res.Fresh = append(res.Fresh, hx(docs[i].ObjectId()))
		}
		return result(err, "ok unit")
	case "save":
		doc := d.NewDocumentOf(decDoc(op["doc"]))
		lacking := !doc.Has("_id") || doc.Get("_id") == ""
		err := db.Save(coll, doc)
		if lacking {
			res.Fresh = append(res.Fresh, hx(doc.ObjectId()))
		}
		return result(err, "ok unit")
	case "findAll":
		docs, err := db.FindAll(decQuery(op["q"]))
		line := docsLine(docs)
		scribble(docs...)
		return result(err, line)
	case "forEach":
		k := -1
		if n, ok := op["stopAfter"]; ok && n != nil {
			k = asInt(n)
		}
		seen := []*d.Document{}
		err := db.ForEach(decQuery(op["q"]), func(doc *d.Document) bool {
			seen = append(seen, doc)
			return !(k >= 0 && len(seen) >= k)
		})
		line := docsLine(seen)
		scribble(seen...)
		return result(err, line)
	case "findFirst":
		doc, err := db.FindFirst(decQuery(op["q"]))
		if err == nil && doc == nil {
			return "ok doc none"
		}
		if err != nil {
			return result(err, "")
		}
		line := "ok doc " + canonDoc(doc.AsMap())
		scribble(doc)
		return line
	case "exists":
		ok, err := db.Exists(decQuery(op["q"]))
		return result(err, "ok bool "+b01(ok))
	case "count":
		n, err := db.Count(decQuery(op["q"]))
		return result(err, fmt.Sprintf("ok int %d", n))
	case "findById":
		doc, err := db.FindById(coll, unhx(op["id"].(string)))
		if err != nil {
			return result(err, "")
		}
		if doc == nil {
			return "ok doc none"
		}
		line := "ok doc " + canonDoc(doc.AsMap())
		scribble(doc)
		return line
	case "deleteById":
		return result(db.DeleteById(coll, unhx(op["id"].(string))), "ok unit")
	case "updateById":
		calls := []string{}
		err := db.UpdateById(coll, unhx(op["id"].(string)), mkUpdater(op["upd"], &calls))
		return result(err, "ok unit")
	case "replaceById":
		doc := d.NewDocumentOf(decDoc(op["doc"]))
		return result(db.ReplaceById(coll, unhx(op["id"].(string)), doc), "ok unit")
	case "update":
		calls := []string{}
		q := decQuery(op["q"])
		upd := op["upd"].(map[string]interface{})
		var err error
		if a, ok := upd["setAll"]; ok && op["viaUpdate"] != nil {
			// the public Update(q, map) entry point; its updater is internal, so the selected
			// documents are observed by a FindAll immediately before the call
			fa, tr := im.xs.faultAt, im.xs.tracing
			im.xs.StartOp(-1, false)
			before, ferr := db.FindAll(q)
			m := map[string]interface{}{}
			for _, p := range a.([]interface{}) {
				pa := p.([]interface{})
				m[unhx(pa[0].(string))] = decValue(pa[1])
			}
			im.xs.StartOp(fa, tr)
			err = db.Update(q, m)
			if ferr == nil {
				for _, doc := range before {
					calls = append(calls, canonDoc(doc.AsMap()))
				}
			}
		} else {
			err = db.UpdateFunc(q, mkUpdater(upd, &calls))
		}
		return result(err, "ok docs "+strings.Join(calls, ";"))
	case "delete":
		q := decQuery(op["q"])
		fa, tr := im.xs.faultAt, im.xs.tracing
		var before []*d.Document
		var ferr, err error
		if il, ok := op["interloper"]; ok && il != nil {
			// the selection is observed after the interloper has committed, right before Delete opens its transaction
			im.postInterloper = func() { before, ferr = db.FindAll(q) }
			err = db.Delete(q)
			im.postInterloper = nil
		} else {
			im.xs.StartOp(-1, false)
			before, ferr = db.FindAll(q)
			im.xs.StartOp(fa, tr)
			err = db.Delete(q)
		}
		if err == nil && ferr != nil {
			return "err other"
		}
		return result(err, docsLine(before))
	case "createIndex":
		return result(db.CreateIndex(coll, unhx(op["field"].(string))), "ok unit")
	case "dropIndex":
		return result(db.DropIndex(coll, unhx(op["field"].(string))), "ok unit")
	case "hasIndex":
		ok, err := db.HasIndex(coll, unhx(op["field"].(string)))
		return result(err, "ok bool "+b01(ok))
	case "listIndexes":
		infos, err := db.ListIndexes(coll)
		names := []string{}
		for _, in := range infos {
			names = append(names, in.Field)
		}
		return result(err, hexNames(names))
	case "export":
		path := filepath.Join(im.root, fmt.Sprintf("export-%d-%s.json", im.n, op["file"].(string)))
		err := db.ExportCollection(coll, path)
		if err != nil {
			return result(err, "")
		}
		im.files[op["file"].(string)] = path
		docs, perr := parseExportFile(path)
		if perr != nil {
			return "ok export-unparsable " + perr.Error()
		}
		parts := []string{}
		for _, m := range docs {
			parts = append(parts, canonDoc(m))
		}
		return "ok docs " + strings.Join(parts, ";")
	case "import":
		path := ""
		if f, ok := op["file"]; ok && f != nil {
			path = im.files[f.(string)]
		}
		if raw, ok := op["raw"]; ok && raw != nil {
			path = filepath.Join(im.root, fmt.Sprintf("import-%d.json", im.n))
			os.WriteFile(path, []byte(raw.(string)), 0o644)
		}
		if path == "" {
			path = filepath.Join(im.root, "does-not-exist.json")
		}
		return result(db.ImportCollection(coll, path), "ok unit")
	case "createCollectionByQuery":
		q := decQuery(op["q"])
		return result(db.CreateCollectionByQuery(coll, q), "ok unit")
	}
	panic("unknown op " + op["op"].(string))
}

func b01(b bool) string {
	if b {
		return "1"
	}
	return "0"
}

// Dump reads the whole store through a cursor and prints it like the Lean driver's showKVS.
func (im *Impl) Dump() string {
	tx, err := im.xs.inner.Begin(false)
	if err != nil {
		return "dump-error " + err.Error()
	}
	defer tx.Rollback()
	cur, err := tx.Cursor(true)
	if err != nil {
		return "dump-error " + err.Error()
	}
	defer cur.Close()
	parts := []string{}
	for cur.Seek([]byte{}); cur.Valid(); cur.Next() {
		it, err := cur.Item()
		if err != nil {
			return "dump-error " + err.Error()
		}
		parts = append(parts, hx(string(it.Key))+"="+dumpVal(string(it.Key), it.Value))
	}
	return strings.Join(parts, ";")
}

func dumpVal(key string, val []byte) string {
	if strings.HasPrefix(key, "coll:") {
		var m struct {
			Size    int
			Indexes []struct {
				Field string
				Type  int
			}
		}
		if err := json.Unmarshal(val, &m); err != nil {
			return "?meta"
		}
		fs := []string{}
		for _, in := range m.Indexes {
			fs = append(fs, hx(in.Field))
		}
		return fmt.Sprintf("M%d:%s", m.Size, strings.Join(fs, ","))
	}
	if strings.HasPrefix(key, "c:") {
		rest := key[2:]
		i := strings.IndexByte(rest, ';')
		if i >= 0 && strings.HasPrefix(rest[i+1:], "d:") {
			doc, err := d.Decode(val)
			if err != nil {
				return "?doc"
			}
			return "D" + canonDoc(doc.AsMap())
		}
		if i >= 0 && strings.HasPrefix(rest[i+1:], "i:") {
			if len(val) == 0 {
				return "E"
			}
			return "?" + hx(string(val))
		}
	}
	return "?" + hx(string(val))
}

var _ = query.NewQuery

// Logical prints the database as the public API shows it (same format as the driver's "logical").
func (im *Impl) Logical() string {
	im.xs.StartOp(-1, false)
	names, err := im.db.ListCollections()
	if err != nil {
		return "logical-error " + err.Error()
	}
	parts := []string{}
	for _, n := range names {
		infos, _ := im.db.ListIndexes(n)
		fs := []string{}
		for _, in := range infos {
			fs = append(fs, hx(in.Field))
		}
		sort.Strings(fs)
		docs, _ := im.db.FindAll(query.NewQuery(n))
		ds := []string{}
		for _, doc := range docs {
			ds = append(ds, canonDoc(doc.AsMap()))
		}
		sort.Slice(ds, func(i, j int) bool { return topId(ds[i]) < topId(ds[j]) })
		cnt, _ := im.db.Count(query.NewQuery(n))
		parts = append(parts, hx(n)+"|"+strings.Join(fs, ",")+"|"+fmt.Sprint(cnt)+"|"+strings.Join(ds, ";"))
	}
	return "logical " + strings.Join(parts, "#")
}

// parseExportFile reads an exported file the way any JSON consumer would (independently of clover).
func parseExportFile(path string) ([]map[string]interface{}, error) {
	b, err := os.ReadFile(path)
	if err != nil {
		return nil, err
	}
	return parseExport(b)
}

func parseExport(b []byte) ([]map[string]interface{}, error) {
	var arr []*map[string]interface{}
	if err := json.Unmarshal(b, &arr); err != nil {
		return nil, err
	}
	out := []map[string]interface{}{}
	for _, m := range arr {
		if m == nil {
			return nil, fmt.Errorf("null element")
		}
		out = append(out, *m)
	}
	return out, nil
}

// RawKeys: every key of the store, in cursor order.
func (im *Impl) RawKeys() []string {
	tx, err := im.xs.inner.Begin(false)
	if err != nil {
		return nil
	}
	defer tx.Rollback()
	cur, err := tx.Cursor(true)
	if err != nil {
		return nil
	}
	defer cur.Close()
	out := []string{}
	for cur.Seek([]byte{}); cur.Valid(); cur.Next() {
		it, err := cur.Item()
		if err != nil {
			return out
		}
		out = append(out, string(it.Key))
	}
	return out
}
