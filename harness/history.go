package main

import (
	"fmt"
	"os"
	"regexp"
	"sort"
	"strconv"
	"strings"
)

// ---- running a history (a list of protocol lines) on the implementation and on the Lean driver ----

type LineResult struct {
	Impl   string
	Model  string
	Spec   string
	All    []idClass // specification: all matching documents in order with tie classes
	Trace  []string
	MTrace string
	Fired  bool
	MFired bool
	TxN    int
}

type idClass struct {
	Id  string
	Cls int
}

func parseAll(s string) []idClass {
	out := []idClass{}
	if s == "" {
		return out
	}
	for _, p := range strings.Split(s, ",") {
		i := strings.IndexByte(p, ':')
		n, _ := strconv.Atoi(p[i+1:])
		out = append(out, idClass{p[:i], n})
	}
	return out
}

// topId extracts the hex of the top-level `_id` string of a canonical document text.
func topId(doc string) string {
	depth := 0
	for i := 0; i < len(doc); i++ {
		switch doc[i] {
		case '{', '[':
			depth++
			if depth == 1 && strings.HasPrefix(doc[i+1:], "5f6964=S") {
				return hexRun(doc[i+1+8:])
			}
		case '}', ']':
			depth--
		case ',':
			if depth == 1 && strings.HasPrefix(doc[i+1:], "5f6964=S") {
				return hexRun(doc[i+1+8:])
			}
		}
	}
	return ""
}

func hexRun(s string) string {
	j := 0
	for j < len(s) && ((s[j] >= '0' && s[j] <= '9') || (s[j] >= 'a' && s[j] <= 'f')) {
		j++
	}
	return s[:j]
}

func splitDocs(line string) ([]string, bool) {
	if !strings.HasPrefix(line, "ok docs") {
		return nil, false
	}
	rest := strings.TrimPrefix(strings.TrimPrefix(line, "ok docs"), " ")
	if rest == "" {
		return []string{}, true
	}
	return strings.Split(rest, ";"), true
}

func isOtherErr(s string) bool {
	return s == "err other" || s == "err bad-input" || s == "err closed"
}

func lineEq(a, b string) bool {
	if a == b {
		return true
	}
	return isOtherErr(a) && isOtherErr(b)
}

var itemKeyRe = regexp.MustCompile(`item:[0-9a-f]*`)

func maskItems(trace string, on bool) string {
	if !on {
		return trace
	}
	// as a multiset: the order in which tied documents are rewritten is not determined (unstable sort)
	calls := strings.Fields(itemKeyRe.ReplaceAllString(trace, "item:*"))
	sort.Strings(calls)
	return strings.Join(calls, " ")
}

func sortedCopy(a []string) []string {
	b := append([]string{}, a...)
	sort.Strings(b)
	return b
}

func sameMultiset(a, b []string) bool {
	if len(a) != len(b) {
		return false
	}
	x, y := sortedCopy(a), sortedCopy(b)
	for i := range x {
		if x[i] != y[i] {
			return false
		}
	}
	return true
}

func namesSet(line string) []string {
	rest := strings.TrimPrefix(strings.TrimPrefix(line, "ok names"), " ")
	if rest == "" {
		return []string{}
	}
	return sortedCopy(strings.Split(rest, ","))
}

func qOf(op J) (J, bool) {
	if q, ok := op["q"]; ok && q != nil {
		return q.(map[string]interface{}), true
	}
	return nil, false
}

func qInt(q J, key string, def int) int {
	if n, ok := q[key]; ok && n != nil {
		return asInt(n)
	}
	return def
}

func qSorted(q J) bool {
	if _, ok := q["sortDefault"]; ok {
		return true
	}
	if s, ok := q["sort"]; ok && s != nil {
		return len(s.([]interface{})) > 0
	}
	return false
}

func hasTies(all []idClass) bool {
	for i := 1; i < len(all); i++ {
		if all[i].Cls == all[i-1].Cls {
			return true
		}
	}
	return false
}

// checkDocsAgainstSpec decides whether a document list returned by the implementation is an
// admissible answer for the query: distinct matching documents, the right number of them, and —
// with a sort — position by position in the tie class the ordered sequence has there.
func checkDocsAgainstSpec(op J, implDocs []string, all []idClass, stopAfter int) string {
	q, _ := qOf(op)
	skip := qInt(q, "skip", 0)
	if skip < 0 {
		skip = 0
	}
	limit := qInt(q, "limit", -1)
	total := len(all)
	want := total - skip
	if want < 0 {
		want = 0
	}
	if limit >= 0 && limit < want {
		want = limit
	}
	if stopAfter >= 0 {
		k := stopAfter
		if k < 1 {
			k = 1
		}
		if k < want {
			want = k
		}
	}
	if len(implDocs) != want {
		return fmt.Sprintf("expected %d documents, got %d", want, len(implDocs))
	}
	cls := map[string]int{}
	for _, ic := range all {
		cls[ic.Id] = ic.Cls
	}
	seen := map[string]bool{}
	for i, dtxt := range implDocs {
		id := topId(dtxt)
		if seen[id] {
			return "document returned twice: " + id
		}
		seen[id] = true
		cl, ok := cls[id]
		if !ok {
			return "document does not satisfy the criteria (or is not live): " + id
		}
		if qSorted(q) {
			if cl != all[skip+i].Cls {
				return fmt.Sprintf("position %d: document %s has sort class %d, the ordered sequence has class %d there", i, id, cl, all[skip+i].Cls)
			}
		}
	}
	return ""
}

// compareOp compares the three answers to one operation.
// It returns (specProblem, modelProblem): non-empty strings describe a disagreement of the
// implementation with the specification (the property's oracle) resp. with the model.
func compareOp(op J, r *LineResult) (string, string) {
	name := op["op"].(string)
	impl, model, spec := r.Impl, r.Model, r.Spec
	if strings.HasPrefix(impl, "panic") {
		return "panic: " + impl, "panic: " + impl
	}
	if strings.HasPrefix(impl, "timeout") {
		return "blocked: " + impl, "blocked: " + impl
	}
	if r.Fired || r.MFired {
		// a store fault was injected into this call: the property's oracle is "an error is reported" (the
		// dump that follows checks that nothing changed); the specification, which knows no faults, is not asked
		sp, mp := "", ""
		if r.Fired && !strings.HasPrefix(impl, "err") {
			sp = "a store fault injected into this operation was swallowed: " + impl
		}
		if r.Fired != r.MFired || !lineEq(impl, model) {
			mp = fmt.Sprintf("impl %s (fired=%v) model %s (fired=%v)", impl, r.Fired, model, r.MFired)
		}
		return sp, mp
	}
	specP, modelP := "", ""
	implDocs, isDocs := splitDocs(impl)
	_, hasQ := qOf(op)
	switch {
	case name == "listIndexes" && strings.HasPrefix(impl, "ok names"):
		if !strings.HasPrefix(spec, "ok names") || strings.Join(namesSet(impl), ",") != strings.Join(namesSet(spec), ",") {
			specP = "index catalog differs: " + impl + " vs " + spec
		}
		if impl != model {
			modelP = "impl " + impl + " model " + model
		}
	case isDocs && hasQ:
		stop := -1
		if n, ok := op["stopAfter"]; ok && n != nil {
			stop = asInt(n)
		}
		if !strings.HasPrefix(spec, "ok docs") {
			specP = "impl " + impl + " spec " + spec
		} else {
			specP = checkDocsAgainstSpec(op, implDocs, r.All, stop)
			// contents: every returned document must be the stored one
			if specP == "" {
				known := map[string]string{}
				if sd, ok := splitDocs(spec); ok {
					for _, dtxt := range sd {
						known[topId(dtxt)] = dtxt
					}
				}
				if md, ok := splitDocs(model); ok {
					for _, dtxt := range md {
						if _, dup := known[topId(dtxt)]; !dup {
							known[topId(dtxt)] = dtxt
						}
					}
				}
				for _, dtxt := range implDocs {
					if k, ok := known[topId(dtxt)]; ok && k != dtxt {
						specP = "document content differs from the one last written: " + dtxt + " vs " + k
						break
					}
				}
			}
		}
		modelDocs, mok := splitDocs(model)
		q, _ := qOf(op)
		if !mok {
			modelP = "impl " + impl + " model " + model
		} else if qSorted(q) && hasTies(r.All) {
			if len(modelDocs) != len(implDocs) {
				modelP = "impl and model return different numbers of documents"
			}
		} else if strings.Join(modelDocs, ";") != strings.Join(implDocs, ";") {
			modelP = "impl " + impl + " model " + model
		}
	case (name == "findFirst") && strings.HasPrefix(impl, "ok doc ") && impl == spec:
		// the specification's representative was returned; the model may pick another member of the same tie class
		q, _ := qOf(op)
		if impl != model && !(qSorted(q) && hasTies(r.All)) {
			modelP = "impl " + impl + " model " + model
		}
	case (name == "findFirst") && strings.HasPrefix(impl, "ok doc ") && impl != spec:
		q, _ := qOf(op)
		skip := qInt(q, "skip", 0)
		if skip < 0 {
			skip = 0
		}
		id := topId(strings.TrimPrefix(impl, "ok doc "))
		okc := false
		if impl != "ok doc none" && skip < len(r.All) {
			for _, ic := range r.All {
				if ic.Id == id && (!qSorted(q) || ic.Cls == r.All[skip].Cls) {
					okc = true
				}
			}
		}
		if !okc {
			specP = "impl " + impl + " spec " + spec
		}
		// contents: the returned document must be the stored one (the specification's or, for another member of
		// the tie class, the model's text of the same document)
		for _, other := range []string{spec, model} {
			if specP == "" && strings.HasPrefix(other, "ok doc ") && other != "ok doc none" && topId(strings.TrimPrefix(other, "ok doc ")) == id && other != impl {
				specP = "document content differs from the one last written: " + impl + " vs " + other
			}
		}
		if impl != model && !(qSorted(q) && hasTies(r.All)) {
			modelP = "impl " + impl + " model " + model
		}
	default:
		if !lineEq(impl, spec) {
			specP = "impl " + impl + " spec " + spec
		}
		if !lineEq(impl, model) {
			modelP = "impl " + impl + " model " + model
		}
	}
	return specP, modelP
}

// HistoryOutcome is the first problem found while running a history.
type HistoryOutcome struct {
	Index   int    // line index, -1 = none
	Kind    string // "spec" (oracle fails on impl) | "model" (correspondence) | "inv" (model vs render spec) | "dump" | "trace"
	Detail  string
	Results []LineResult
}

type HistOpts struct {
	Traces    bool
	DumpEvery bool // compare raw key dumps after every operation
	MaskItems bool // compare store-call traces as multisets, with the keys of cursor reads masked (the entry a scan stops at depends on whether the cursor sees the transaction's own writes; tied documents are rewritten in any order)
	SpecOnly  bool // search phase after a broken correspondence: only the property's oracles (specification, invariant on the real store, logical state), not the model
}

// prepImport: the model imports what the file contains after JSON decoding (read here, not by clover)
func prepImport(send, ln J, im *Impl) {
	if ln["op"] != "import" {
		return
	}
	var content []byte
	if f, ok := ln["file"]; ok && f != nil {
		content, _ = os.ReadFile(im.files[f.(string)])
	}
	if raw, ok := ln["raw"]; ok && raw != nil {
		content = []byte(raw.(string))
	}
	send["docs"] = nil
	if docs, err := parseExport(content); err == nil && content != nil {
		ds := []interface{}{}
		for _, m := range docs {
			ds = append(ds, encDoc(m))
		}
		send["docs"] = ds
	}
}

func cloneJ(j J) J {
	out := J{}
	for k, v := range j {
		out[k] = v
	}
	return out
}

// runHistory executes lines on a fresh database of the implementation and on the driver.
func runHistory(dr *Driver, im *Impl, lines []J, opts HistOpts) HistoryOutcome {
	if searchMode {
		opts.SpecOnly = true
	}
	im.Reset()
	dr.Ask(J{"k": "reset"})
	out := HistoryOutcome{Index: -1}
	for i, ln := range lines {
		switch ln["k"].(string) {
		case "close":
			im.Close()
			dr.Ask(ln)
			out.Results = append(out.Results, LineResult{})
		case "reopen":
			im.Reopen()
			dr.Ask(ln)
			out.Results = append(out.Results, LineResult{})
		case "dump":
			id := im.Dump()
			m, kv := splitTabs(dr.Ask(ln))
			out.Results = append(out.Results, LineResult{Impl: id, Model: m})
			if p := im.InvProblems(); p != "" && out.Index < 0 {
				out.Index, out.Kind, out.Detail = i, "spec", "stored state is inconsistent: "+p
				return out
			}
			if kv["inv"] != "1" && out.Index < 0 && !opts.SpecOnly {
				out.Index, out.Kind, out.Detail = i, "inv", "model state is not the rendering of the specification state: "+kv["inv"]
				return out
			}
			if "dump "+id != m && out.Index < 0 {
				// is the difference visible through the public API (then the specification is violated),
				// or only in how the state is laid out in the store?
				if li, ls := im.Logical(), dr.Ask(J{"k": "logical"}); li != ls {
					out.Index, out.Kind, out.Detail = i, "spec", "database content differs from the specification: impl "+li+" spec "+ls
					return out
				}
				if !opts.SpecOnly {
					out.Index, out.Kind, out.Detail = i, "dump", "raw keys differ: impl "+id+" model "+strings.TrimPrefix(m, "dump ")
					return out
				}
			}
		case "op":
			fault := -1
			if f, ok := ln["fault"]; ok && f != nil {
				fault = asInt(f)
			}
			er := im.Exec(ln, fault, opts.Traces)
			send := cloneJ(ln)
			if il, ok := ln["interloper"]; ok && il != nil {
				// model and specification execute the interloper first, then the operation: the serial order the
				// implementation's outcome has to equal
				dr.Ask(J(il.(map[string]interface{})))
				delete(send, "interloper")
			}
			if len(er.Fresh) > 0 {
				fr := []interface{}{}
				for _, f := range er.Fresh {
					fr = append(fr, f)
				}
				send["fresh"] = fr
			}
			if opts.Traces {
				send["trace"] = 1
			}
			prepImport(send, ln, im)
			ans, kv := splitTabs(dr.Ask(send))
			r := LineResult{Impl: er.Line, Spec: kv["spec"], All: parseAll(kv["#all"]), Trace: er.Trace, MTrace: kv["trace"], Fired: er.Fired, TxN: er.TxN}
			if strings.HasSuffix(ans, " fired") {
				r.MFired = true
				ans = strings.TrimSuffix(ans, " fired")
			}
			r.Model = ans
			out.Results = append(out.Results, r)
			if strings.HasPrefix(ans, "bad-") {
				out.Index, out.Kind, out.Detail = i, "model", "driver rejected the line: "+ans
				return out
			}
			// the cursor monitor: the model (and the cursor contract both adapters are validated against) defines a
			// cursor only over a transaction that is not mutated while it is open, except by CreateIndex (writes
			// beyond the scanned prefix) and DropIndex (deletes the entry the cursor stands on)
			if er.MutUnderCursor > 0 && !opts.SpecOnly && ln["op"] != "createIndex" && ln["op"] != "dropIndex" {
				out.Index, out.Kind, out.Detail = i, "model", fmt.Sprintf("%d store mutations were made while a cursor of the same transaction was open: the operation relies on cursor behaviour under mutation, which the model does not define (and on which the backends differ)", er.MutUnderCursor)
				return out
			}
			sp, mp := compareOp(ln, &out.Results[len(out.Results)-1])
			if sp != "" {
				out.Index, out.Kind, out.Detail = i, "spec", sp
				return out
			}
			if mp != "" && !opts.SpecOnly {
				out.Index, out.Kind, out.Detail = i, "model", mp
				return out
			}
			if opts.Traces && !opts.SpecOnly && fault < 0 && maskItems(strings.Join(er.Trace, " "), opts.MaskItems) != maskItems(kv["trace"], opts.MaskItems) {
				out.Index, out.Kind, out.Detail = i, "trace", "store-call traces differ: impl ["+strings.Join(er.Trace, " ")+"] model ["+kv["trace"]+"]"
				return out
			}
		default:
			dr.Ask(ln)
			out.Results = append(out.Results, LineResult{})
		}
	}
	return out
}

// shrinkHistory removes lines while the same kind of problem persists.
func shrinkHistory(dr *Driver, im *Impl, lines []J, opts HistOpts, kind string) []J {
	cur := lines
	for chunk := len(cur) / 2; chunk >= 1; {
		removed := false
		for start := 0; start+chunk <= len(cur); {
			cand := append(append([]J{}, cur[:start]...), cur[start+chunk:]...)
			o := runHistory(dr, im, cand, opts)
			if o.Index >= 0 && o.Kind == kind {
				cur = cand[:o.Index+1]
				removed = true
			} else {
				start += chunk
			}
		}
		if !removed || chunk > len(cur) {
			chunk /= 2
		}
		if chunk > len(cur)/2 && chunk > 1 {
			chunk = len(cur) / 2
		}
	}
	return cur
}

func toIfaces(lines []J) []interface{} {
	out := make([]interface{}, len(lines))
	for i, l := range lines {
		out[i] = l
	}
	return out
}
