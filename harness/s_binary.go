package main

import (
	"bytes"
	"encoding/json"
	"fmt"
	"os"
	"sort"
	"strings"

	clover "github.com/ostafen/clover/v2"
	d "github.com/ostafen/clover/v2/document"
	"github.com/ostafen/clover/v2/query"
)

// binaryValues: documents holding binary data.  Normalize keeps a []byte as it is (an explicit, tested branch), so
// binary data is a value the database stores; the Lean model has no such constructor and describes it as the generic
// slice of its bytes.  This stream checks, on the implementation alone, that this description is faithful:
// a collection holding []byte values and a twin holding the same data as generic slices of uint64 answer every
// sort, comparison, count, bulk write and index operation with the same document ids - with and without an index
// on the field - that nothing panics (C20), and that the binary values read back as []byte with their content (C11).
func binaryValues(c *Ctx, be string) bool {
	im := NewImpl(be, c.Scratch)
	defer im.Destroy()
	db := im.db
	g := NewGen(c.Rng, Domain{})
	fail := func(what string, detail ...string) bool {
		c.Violation(&Replay{Backend: be, Stream: "binary-values", Case: []interface{}{J{"k": "binary-values", "seed": c.Seed}}, Actual: detail, Note: what})
		return false
	}
	guard := func(what string, f func() error) (err error, pan string) {
		defer func() {
			if r := recover(); r != nil {
				pan = fmt.Sprint(r)
			}
		}()
		return f(), ""
	}
	for round := 0; round < c.N(6, 60); round++ {
		withIndex := round%2 == 1
		for _, coll := range []string{"bin", "gen"} {
			db.DropCollection(coll)
			db.CreateCollection(coll)
			if withIndex {
				if err, pan := guard("CreateIndex", func() error { return db.CreateIndex(coll, "v") }); err != nil || pan != "" {
					return fail("CreateIndex on a collection that will hold binary values failed", fmt.Sprint(err), pan)
				}
			}
		}
		blobs := [][]byte{{}, {0}, {1, 9}, {1, 9, 0}, {2, 1}, {255}, {255, 0, 1}, []byte("hello, clover!")}
		for i := 0; i < 4; i++ {
			b := make([]byte, g.pick(6))
			for j := range b {
				b[j] = byte(g.pick(4) * 85)
			}
			blobs = append(blobs, b)
		}
		generic := func(b []byte) []interface{} {
			out := make([]interface{}, len(b))
			for i, x := range b {
				out[i] = uint64(x)
			}
			return out
		}
		n := 0
		insert := func(id string, bv interface{}, gv interface{}) bool {
			for _, p := range []struct {
				coll string
				v    interface{}
			}{{"bin", bv}, {"gen", gv}} {
				doc := d.NewDocument()
				doc.Set("_id", id)
				doc.Set("v", p.v)
				doc.Set("k", int64(n))
				if err, pan := guard("Insert", func() error { return db.Insert(p.coll, doc) }); err != nil || pan != "" {
					return fail("Insert of a document holding binary data failed", p.coll, fmt.Sprint(err), pan)
				}
			}
			n++
			return true
		}
		for i, b := range blobs {
			if !insert(fixedId(i+1), b, generic(b)) {
				return false
			}
		}
		// other values around them in the order: nil, a number, a string, a generic slice, an absent field
		for i, v := range []interface{}{nil, int64(7), "s", []interface{}{uint64(1), "x"}, []interface{}{uint64(1), uint64(10)}, true} {
			if !insert(fixedId(100+i), v, v) {
				return false
			}
		}
		idsOf := func(docs []*d.Document) string {
			ids := []string{}
			for _, doc := range docs {
				ids = append(ids, doc.ObjectId()[:8])
			}
			return strings.Join(ids, ",")
		}
		sortedIds := func(docs []*d.Document) string {
			ids := []string{}
			for _, doc := range docs {
				ids = append(ids, doc.ObjectId()[:8])
			}
			sort.Strings(ids)
			return strings.Join(ids, ",")
		}
		type qcase struct {
			name    string
			build   func(coll string, lit interface{}) *query.Query
			ordered bool
		}
		lits := []interface{}{[]byte{1, 9}, []byte{}, []byte{255}, generic([]byte{1, 9}), generic([]byte{2}), []byte{1, 9, 0}}
		cases := []qcase{
			{"sort asc", func(coll string, _ interface{}) *query.Query {
				return query.NewQuery(coll).Sort(query.SortOption{Field: "v", Direction: 1}, query.SortOption{Field: "_id", Direction: 1})
			}, true},
			{"sort desc", func(coll string, _ interface{}) *query.Query {
				return query.NewQuery(coll).Sort(query.SortOption{Field: "v", Direction: -1}, query.SortOption{Field: "_id", Direction: 1})
			}, true},
			{"eq", func(coll string, l interface{}) *query.Query {
				return query.NewQuery(coll).Where(query.Field("v").Eq(l))
			}, false},
			{"gt", func(coll string, l interface{}) *query.Query {
				return query.NewQuery(coll).Where(query.Field("v").Gt(l))
			}, false},
			{"ge", func(coll string, l interface{}) *query.Query {
				return query.NewQuery(coll).Where(query.Field("v").GtEq(l))
			}, false},
			{"lt", func(coll string, l interface{}) *query.Query {
				return query.NewQuery(coll).Where(query.Field("v").Lt(l))
			}, false},
			{"le sorted", func(coll string, l interface{}) *query.Query {
				return query.NewQuery(coll).Where(query.Field("v").LtEq(l)).Sort(query.SortOption{Field: "v", Direction: 1}, query.SortOption{Field: "_id", Direction: 1})
			}, true},
			{"neq", func(coll string, l interface{}) *query.Query {
				return query.NewQuery(coll).Where(query.Field("v").Neq(l))
			}, false},
			{"in", func(coll string, l interface{}) *query.Query {
				return query.NewQuery(coll).Where(query.Field("v").In(l, "s"))
			}, false},
		}
		for _, qc := range cases {
			for li, lit := range lits {
				if strings.HasPrefix(qc.name, "sort") && li > 0 {
					continue
				}
				var res [2]string
				var cnt [2]int
				for ci, coll := range []string{"bin", "gen"} {
					var docs []*d.Document
					err, pan := guard(qc.name, func() error {
						var e error
						docs, e = db.FindAll(qc.build(coll, lit))
						return e
					})
					c.Evals++
					if err != nil || pan != "" {
						return fail("a query over binary values failed or panicked: "+qc.name, fmt.Sprintf("%v", lit), coll, fmt.Sprint(err), pan)
					}
					if qc.ordered {
						res[ci] = idsOf(docs)
					} else {
						res[ci] = sortedIds(docs)
					}
					err, pan = guard("Count", func() error {
						var e error
						cnt[ci], e = db.Count(qc.build(coll, lit))
						return e
					})
					if err != nil || pan != "" || cnt[ci] != len(docs) {
						return fail("Count over binary values disagrees with FindAll, fails or panics: "+qc.name, fmt.Sprint(cnt[ci], " vs ", len(docs)), fmt.Sprint(err), pan)
					}
				}
				if res[0] != res[1] {
					return fail(fmt.Sprintf("binary data does not behave as the slice of its bytes (%s, literal %v, index on v: %v)", qc.name, lit, withIndex), "binary:  "+res[0], "generic: "+res[1])
				}
				if res[0] != "" {
					c.NonTrivial(fmt.Sprint("binary", qc.name, li, withIndex, be, res[0]))
				}
			}
		}
		// read back: type and content
		for i, b := range blobs {
			doc, err := db.FindById("bin", fixedId(i+1))
			if err != nil || doc == nil {
				return fail("a document holding binary data cannot be read back", fmt.Sprint(err))
			}
			got, isBytes := doc.Get("v").([]byte)
			if !isBytes || !bytes.Equal(got, b) {
				return fail("binary data does not read back as the []byte that was written", fmt.Sprintf("%T %v", doc.Get("v"), doc.Get("v")), fmt.Sprint(b))
			}
		}
		// bulk writes selecting by the binary field, then the twins must still agree
		lit := lits[g.pick(len(lits))]
		for _, coll := range []string{"bin", "gen"} {
			if err, pan := guard("Update", func() error {
				return db.Update(query.NewQuery(coll).Where(query.Field("v").GtEq(lit)), map[string]interface{}{"k": int64(-1)})
			}); err != nil || pan != "" {
				return fail("a bulk update selecting by a binary field failed or panicked", coll, fmt.Sprint(err), pan)
			}
			if err, pan := guard("Delete", func() error { return db.Delete(query.NewQuery(coll).Where(query.Field("v").Lt(lit))) }); err != nil || pan != "" {
				return fail("a bulk delete selecting by a binary field failed or panicked", coll, fmt.Sprint(err), pan)
			}
		}
		var after [2]string
		for ci, coll := range []string{"bin", "gen"} {
			docs, _ := db.FindAll(query.NewQuery(coll).Sort(query.SortOption{Field: "_id", Direction: 1}))
			parts := []string{}
			for _, doc := range docs {
				parts = append(parts, fmt.Sprint(doc.ObjectId()[:8], ":", doc.Get("k")))
			}
			after[ci] = strings.Join(parts, ",")
		}
		if after[0] != after[1] {
			return fail("after bulk writes selecting by the binary field the twins differ", "binary:  "+after[0], "generic: "+after[1])
		}
		if p := im.InvProblems(); p != "" {
			return fail("invariant oracle after operations on binary values: " + p)
		}
		c.Count("binary-values-round")
	}
	_ = clover.ErrCollectionNotExist
	return true
}

// consumerErrors: a scan that ends with a GENUINE error - the caller's consumer returns its own error from IterateDocs, at
// the first, a middle or the last document, on a full scan, an index scan, a sorted and a windowed query - must hand that
// very error back on every backend, never panic, and leave the handle usable (the transaction and its cursor are
// released on the error path too); ForEach stopping early likewise.  Identical outcomes are required across backends.
func consumerErrors(c *Ctx, backends []string) bool {
	errMine := fmt.Errorf("the consumer's own error")
	var outcomes []string
	for bi, be := range backends {
		im := NewImpl(be, c.Scratch)
		db := im.db
		db.CreateCollection("ce")
		db.CreateIndex("ce", "x")
		docs := []*d.Document{}
		for j := 0; j < 9; j++ {
			docs = append(docs, d.NewDocumentOf(map[string]interface{}{"_id": fixedId(j + 1), "x": int64(j % 4), "y": int64(9 - j)}))
		}
		db.Insert("ce", docs...)
		queries := []*query.Query{
			query.NewQuery("ce"),
			query.NewQuery("ce").Where(query.Field("y").GtEq(2)),
			query.NewQuery("ce").Where(query.Field("x").GtEq(1)),
			query.NewQuery("ce").Sort(query.SortOption{Field: "x", Direction: 1}),
			query.NewQuery("ce").Sort(query.SortOption{Field: "y", Direction: -1}),
			query.NewQuery("ce").Skip(2).Limit(5),
		}
		out := []string{}
		for qi, q := range queries {
			for _, failAt := range []int{1, 3, 100} {
				seen := 0
				var err error
				pan := ""
				func() {
					defer func() {
						if r := recover(); r != nil {
							pan = fmt.Sprint(r)
						}
					}()
					err = db.IterateDocs(q, func(doc *d.Document) error {
						seen++
						if seen == failAt {
							return errMine
						}
						return nil
					})
				}()
				c.Evals++
				wantErr := seen >= failAt
				desc := J{"k": "consumer-error", "backend": be, "query": qi, "fail_at": failAt}
				if pan != "" {
					c.Violation(&Replay{Backend: be, Stream: "api", Case: []interface{}{desc}, Actual: []string{pan}, Note: "IterateDocs panicked when its consumer returned an error"})
					im.Destroy()
					return false
				}
				if wantErr != (err == errMine) || (!wantErr && err != nil) {
					c.Violation(&Replay{Backend: be, Stream: "api", Case: []interface{}{desc}, Actual: []string{fmt.Sprint(err)}, Note: "IterateDocs does not hand back the error its consumer returned (and only that)"})
					im.Destroy()
					return false
				}
				// the handle is usable: a write and a read
				var n int
				var e2 error
				func() {
					defer func() {
						if r := recover(); r != nil {
							pan = fmt.Sprint(r)
						}
					}()
					e2 = db.UpdateById("ce", fixedId(1), func(doc *d.Document) *d.Document { doc.Set("touched", int64(qi)); return doc })
					n, _ = db.Count(query.NewQuery("ce"))
				}()
				if pan != "" || e2 != nil || n != 9 {
					c.Violation(&Replay{Backend: be, Stream: "api", Case: []interface{}{desc}, Actual: []string{pan, fmt.Sprint(e2), fmt.Sprint(n)}, Note: "after a consumer error the handle is not usable"})
					im.Destroy()
					return false
				}
				out = append(out, fmt.Sprint(qi, failAt, seen, err == errMine))
				c.NonTrivial(fmt.Sprint("consumer-error", be, qi, failAt))
			}
		}
		outcomes = append(outcomes, strings.Join(out, ";"))
		if bi > 0 && outcomes[bi] != outcomes[0] {
			c.Violation(&Replay{Backend: be, Stream: "api", Case: []interface{}{J{"k": "consumer-error"}}, Expected: []string{outcomes[0]}, Actual: []string{outcomes[bi]}, Note: "backends differ in how a scan that ends with a consumer error behaves"})
			im.Destroy()
			return false
		}
		im.Destroy()
	}
	c.Count("consumer-error-rounds")
	return true
}

// keySizeLimits: the one place where the backends are known to differ (recorded finding KF-key-size-limits): a store
// key between 32769 and 65000 bytes - the index entry of a long string - is refused by bbolt and accepted by badger.
// Below 32768 bytes and above 65000 both agree, which is checked; the recorded difference is printed as KNOWN-FINDING
// while it is listed, and is a violation when it is not.
func keySizeLimits(c *Ctx) bool {
	listed := false
	if b, err := os.ReadFile(c.KnownPath); err == nil {
		var kf struct {
			Known []knownFinding `json:"known"`
		}
		if json.Unmarshal(b, &kf) == nil {
			for _, k := range kf.Known {
				if k.Property == c.Prop && k.Id == "KF-key-size-limits" {
					listed = true
					defer func(k knownFinding) {
						if c.KnownHits[k.Id] {
							fmt.Printf("KNOWN-FINDING: property=%s %s [%s]\n", c.Prop, k.What, k.Id)
						}
					}(k)
				}
			}
		}
	}
	outcome := func(be string, n int) string {
		im := NewImpl(be, c.Scratch)
		defer im.Destroy()
		im.db.CreateCollection("ks")
		im.db.CreateIndex("ks", "s")
		err := im.db.Insert("ks", d.NewDocumentOf(map[string]interface{}{"_id": fixedId(1), "s": strings.Repeat("x", n)}))
		cnt, _ := im.db.Count(query.NewQuery("ks"))
		if err != nil {
			if cnt != 0 {
				return "error with residue"
			}
			return "error"
		}
		return fmt.Sprint("ok ", cnt)
	}
	for _, n := range []int{1000, 30000, 32600, 33000, 40000, 64000, 66000, 80000} {
		a, b := outcome("bbolt", n), outcome("badger-mem", n)
		c.Evals++
		if a == b {
			continue
		}
		inRegion := n > 32768-100 && n <= 65000 && a == "error" && b == "ok 1"
		if inRegion && listed {
			c.KnownHits["KF-key-size-limits"] = true
			continue
		}
		c.Violation(&Replay{Stream: "key-size", Case: []interface{}{J{"k": "key-size", "indexed_string_bytes": n}}, Expected: []string{"bbolt: " + a}, Actual: []string{"badger: " + b},
			Note: "the backends disagree on a document with a long indexed string"})
		return false
	}
	return true
}

// txnSizeLimit: the other library limit on which the backends differ (recorded finding KF-txn-size-limit): one
// operation writing more than badger accepts in a transaction (about 10 MiB with the default options) is refused by
// badger with ErrTxnTooBig - as a whole, nothing stored - and carried out by bbolt.  Batches well below the limit
// behave the same on both.
func txnSizeLimit(c *Ctx) bool {
	listed := false
	var hit knownFinding
	if b, err := os.ReadFile(c.KnownPath); err == nil {
		var kf struct {
			Known []knownFinding `json:"known"`
		}
		if json.Unmarshal(b, &kf) == nil {
			for _, k := range kf.Known {
				if k.Property == c.Prop && k.Id == "KF-txn-size-limit" {
					listed, hit = true, k
				}
			}
		}
	}
	outcome := func(be string, docs, bytesEach int) string {
		im := NewImpl(be, c.Scratch)
		defer im.Destroy()
		im.db.CreateCollection("ts")
		pad := strings.Repeat("p", bytesEach)
		batch := []*d.Document{}
		for i := 0; i < docs; i++ {
			batch = append(batch, d.NewDocumentOf(map[string]interface{}{"_id": fixedId(i + 1), "pad": pad}))
		}
		err := im.db.Insert("ts", batch...)
		cnt, _ := im.db.Count(query.NewQuery("ts"))
		if err != nil {
			if cnt != 0 {
				return fmt.Sprint("error with ", cnt, " documents stored")
			}
			return "error"
		}
		return fmt.Sprint("ok ", cnt)
	}
	// many small documents in one operation (the limit of a badger transaction is also one of ENTRIES: about a tenth of the
	// memtable size, 100 000 with the default options): 15 000 documents, well inside it, are accepted by every backend -
	// on the badger store as Open(dir) configures it, too
	{
		a := outcome("bbolt", 15000, 16)
		for _, be := range []string{"badger-mem", "badger-open"} {
			c.Evals++
			if b := outcome(be, 15000, 16); a != b {
				c.Violation(&Replay{Stream: "txn-size", Case: []interface{}{J{"k": "txn-size", "documents": 15000, "bytes_each": 16, "backend": be}}, Expected: []string{"bbolt: " + a}, Actual: []string{be + ": " + b},
					Note: "the backends disagree on one batch insert of 15000 small documents"})
				return false
			}
		}
	}
	for _, sz := range [][2]int{{8, 64 * 1024}, {4, 512 * 1024}, {40, 512 * 1024}} {
		a, b := outcome("bbolt", sz[0], sz[1]), outcome("badger-mem", sz[0], sz[1])
		c.Evals++
		if a == b {
			continue
		}
		if sz[0]*sz[1] > 8<<20 && a == fmt.Sprint("ok ", sz[0]) && b == "error" && listed {
			fmt.Printf("KNOWN-FINDING: property=%s %s [%s]\n", c.Prop, hit.What, hit.Id)
			c.KnownHits[hit.Id] = true
			continue
		}
		c.Violation(&Replay{Stream: "txn-size", Case: []interface{}{J{"k": "txn-size", "documents": sz[0], "bytes_each": sz[1]}}, Expected: []string{"bbolt: " + a}, Actual: []string{"badger: " + b},
			Note: "the backends disagree on one large batch insert"})
		return false
	}
	return true
}
