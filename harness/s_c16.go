package main

import (
	"fmt"

	d "github.com/ostafen/clover/v2/document"
	"github.com/ostafen/clover/v2/query"
)

func init() { streams["C16"] = streamC16 }

func safeSatisfy(c query.Criteria, doc *d.Document) (res bool, pan string) {
	defer func() {
		if r := recover(); r != nil {
			pan = fmt.Sprint(r)
		}
	}()
	return c.Satisfy(doc), ""
}

// goKinds returns the same number in several Go numeric kinds (nil when the value is not a small integer).
func goKinds(v interface{}) []interface{} {
	n, ok := v.(int64)
	if !ok || n < 0 || n > 100 {
		return nil
	}
	return []interface{}{int(n), int8(n), int16(n), int32(n), int64(n), uint(n), uint8(n), uint16(n), uint32(n), uint64(n), float32(n), float64(n)}
}

func streamC16(c *Ctx) {
	c.Rule = "criteria trees (depth<=4 quick, <=6 thorough; every leaf operator; literal, nil, Field(f) and \"$f\" operands incl. references to absent fields) x documents over the mixed-type schema: Satisfy on the real code vs Lean sat; " +
		"on the implementation: Not/And/Or truth tables, De Morgan, double negation, Neq=Not(Eq), NotExists=Not(Exists), Exists=Has, and the same number supplied in 12 Go numeric kinds gives the same result; non-trivial = distinct (criteria, document) pairs; selectivity recorded"
	dr := StartDriver(c.DriverBin)
	defer dr.Close()
	dm := Domain{}
	n := c.N(6000, 150000)
	depth := 4
	if !c.Quick() {
		depth = 6
	}
	for i := 0; i < n; i++ {
		g := NewGen(c.Rng, dm)
		h := NewHistGen(g, 1, depth)
		docM := h.Doc(fixedId(i))
		doc := d.NewDocumentOf(docM)
		cj := h.Crit(g.pick(depth + 1))
		cr := decCrit(cj)
		line := J{"k": "sat", "crit": cj, "doc": encDoc(docM)}
		c.Evals++
		r, pan := safeSatisfy(cr, doc)
		if pan != "" {
			c.Violation(&Replay{Stream: "sat", Case: []interface{}{line}, Actual: []string{"panic " + pan}, Note: "Satisfy panicked"})
			return
		}
		c.Count("shape:" + critShape(cj)[:min(len(critShape(cj)), 3)])
		c.Count("sat:" + b01(r))
		c.NonTrivial(fmt.Sprint(cj) + canonDoc(docM))
		m := dr.Ask(line)
		if m != b01(r) {
			// is a law of the property itself violated? check the laws below first, then report
			c.Unexplained(&Replay{Stream: "sat", Case: []interface{}{line}, Expected: []string{m}, Actual: []string{b01(r)}}, "correspondence K-C16/sat")
			return
		}
		// Boolean laws on the implementation
		cj2 := h.Crit(g.pick(3))
		c2 := decCrit(cj2)
		r2, _ := safeSatisfy(c2, doc)
		laws := []struct {
			name string
			got  query.Criteria
			want bool
		}{
			{"not", cr.Not(), !r},
			{"double negation", cr.Not().Not(), r},
			{"and", cr.And(c2), r && r2},
			{"or", cr.Or(c2), r || r2},
			{"de morgan and", cr.And(c2).Not(), !r || !r2},
			{"de morgan or", cr.Or(c2).Not(), !r && !r2},
		}
		for _, l := range laws {
			got, pan := safeSatisfy(l.got, doc)
			if pan != "" || got != l.want {
				c.Violation(&Replay{Stream: "sat", Case: []interface{}{line, J{"k": "sat", "crit": cj2, "doc": encDoc(docM)}}, Expected: []string{fmt.Sprint(l.want)}, Actual: []string{fmt.Sprint(got), pan}, Note: "Boolean law violated: " + l.name})
				return
			}
		}
		// leaf laws
		f := h.field()
		v := h.val()
		ex, _ := safeSatisfy(query.Field(f).Exists(), doc)
		nex, _ := safeSatisfy(query.Field(f).NotExists(), doc)
		if ex != doc.Has(f) || nex == ex {
			c.Violation(&Replay{Stream: "sat", Case: []interface{}{J{"k": "sat", "crit": J{"exists": hx(f)}, "doc": encDoc(docM)}}, Note: "Exists must mean 'the field is present' and NotExists its negation"})
			return
		}
		eq, _ := safeSatisfy(query.Field(f).Eq(v), doc)
		neq, _ := safeSatisfy(query.Field(f).Neq(v), doc)
		if eq == neq {
			c.Violation(&Replay{Stream: "sat", Case: []interface{}{J{"k": "sat", "crit": J{"cmp": []interface{}{"eq", hx(f), J{"lit": encValue(v)}}}, "doc": encDoc(docM)}}, Note: "Neq must be Not(Eq)"})
			return
		}
		// literal kind invariance
		if ks := goKinds(v); ks != nil {
			for _, opn := range []string{"eq", "gt", "le", "in", "contains"} {
				var base bool
				for ki, kv := range ks {
					var cc query.Criteria
					switch opn {
					case "eq":
						cc = query.Field(f).Eq(kv)
					case "gt":
						cc = query.Field(f).Gt(kv)
					case "le":
						cc = query.Field(f).LtEq(kv)
					case "in":
						cc = query.Field(f).In(kv, "zz")
					case "contains":
						cc = query.Field("arr").Contains(kv)
					}
					got, pan := safeSatisfy(cc, doc)
					c.Evals++
					if pan != "" {
						c.Violation(&Replay{Stream: "sat", Case: []interface{}{line}, Actual: []string{"panic " + pan}, Note: fmt.Sprintf("%s with a literal of Go kind %T panics", opn, kv)})
						return
					}
					if ki == 0 {
						base = got
					} else if got != base {
						c.Violation(&Replay{Stream: "sat", Case: []interface{}{J{"k": "sat", "crit": J{"cmp": []interface{}{"eq", hx(f), J{"lit": encValue(v)}}}, "doc": encDoc(docM)}},
							Note: fmt.Sprintf("%s(%v): literal of Go kind %T gives %v, kind int gives %v", opn, v, kv, got, base)})
						return
					}
				}
			}
			c.Count("kinds-checked")
		}
		if i < 2 {
			c.Sample(line)
		}
	}
}

func min(a, b int) int {
	if a < b {
		return a
	}
	return b
}
